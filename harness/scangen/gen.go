package scangen

import (
	"os"
	"path/filepath"
	"sort"
	"strings"

	"verifharness/vh"
)

// ---- lexeme classes ---------------------------------------------------------------------

var keywords = []string{"break", "case", "chan", "const", "continue", "default", "defer", "else",
	"fallthrough", "for", "func", "go", "goto", "if", "import", "interface", "map", "package",
	"range", "return", "select", "struct", "switch", "type", "var"}

var identsASCII = []string{"a", "x", "c", "C", "py", "r", "i", "e", "p", "_", "x1", "_a", "A_b9", "foo", "Bar",
	"brea", "breakx", "gO", "returns", "km", "ms", "cx", "pyx", "P", "E", "X", "b", "o", "x_", "__"}

var identsUni = []string{"é", "世界", "Ω", "ǅ", "aé", "é1", "x٣", "٣x", "а", "ñandú", "x́", "́", "ｘ", "日本語", "𝑥", "x𝟘", "₁"}

var numbers = []string{"0", "1", "7", "42", "1234567890", "1_000", "1__0", "1_", "0_1", "0_", "00", "007", "08", "09", "0128", "089i", "09.5", "08e1",
	"0x1F", "0X1f", "0x", "0x1_0.8", "0x_1.8", "0x1.8_", "0x1_.8", "0X1_F.p1", "0x1._8p1", "0b1_0.1", "0o1_7.5", "1_0.5e1_0", "1_0e_1", "0x1_0p1_0", "0_8", "0_9.5", "0__7", "0x_1", "0x1_", "0_x1", "0xg", "0x1.8p1", "0x1.8", "0x.p1", "0x.8p-2", "0x1p", "0x1p+", "0x1p-2", "0x1e1", "0x1P3", "0xep1",
	"0b101", "0B1", "0b2", "0b12", "0b", "0b1.0", "0b1e1", "0b_1", "0o17", "0O7", "0o8", "0o", "0o1e1", "0o1.5", "0o1p1",
	"1.", ".5", "1.5", "1.5.5", "1..2", "1e10", "1E+5", "1e-3", "1e", "1e+", "1e_1", "1e1_", "1_e1", "1._5", "1.5_", ".5e1", "1p1", "1.5p2", "0e0", "0.0",
	"1i", "0i", "1.5i", "0x1i", "1e1i", "0b1i", "08i", "1i2", "1if", "1ix", "1r", "1.5r", "0x1r", "1r2", "1rx", "2ri",
	"1km", "2.5s", "3ms", "1_km", "1é", "1e1km", "0x1km", "1x", "1X", "0bx", "1_x", "1e", "1ee", "1.x", "1e٣", "3٣"}

var strs = []string{`""`, `"a"`, `"abc def"`, `"a\nb"`, `"\""`, `"\'"`, `"\q"`, `"\x41"`, `"\x4"`, `"\xZZ"`, `"é"`, `"\u12"`, `"\uD800"`,
	`"\U0010FFFF"`, `"\U00110000"`, `"\UFFFFFFFF"`, `"\777"`, `"\377"`, `"\08"`, `"\0"`, `"\12"`, `"é世"`, "\"a\x00b\"", "\"a\xffb\"", `"a`, "\"a\nb\"", `"a\`, `"\`, `"\x`, `"\u00`,
	"`abc`", "``", "`a\nb`", "`a\rb`", "`\r`", "`a\r\nb\r`", "`abc", "`a\\`", "`a\x00`",
	`'a'`, `'\n'`, `'\''`, `'\"'`, `''`, `'ab'`, `'\x41'`, `'\x4'`, `'é'`, `'\400'`, `'\07'`, `'é'`, `'世'`, "'\xff'", `'a`, "'a\n'", `'\`, `'\'`, `'`, `'\uD800'`, `'\U00110000'`, `'\q'`, `'a\q'`,
	`c"x"`, `C"y"`, `py"z"`, `c"`, `py"`, `c"a\qb"`, `py"a` + "\n", `cx"a"`, `c "a"`, `pyx"a"`, `Py"a"`, `c'a'`, "c`a`", `c""`, `C"\x41"`}

var comments = []string{"// c", "//", "//\r", "// a\rb", "// x\r\r", "//é", "/* c */", "/**/", "/*/", "/*/*/", "/* a\nb */", "/* a\r\nb */", "/* *\r/ */", "/**\r/", "/*\r*/", "/* a *\r\r/ b*/", "/*\r\r*/",
	"/* a", "/* a *", "/*", "/* \n", "/* x */ /* y */", "/* x */ // y", "/* a */ /* b\n */", "/* a */ /* b",
	"//line f.go:10", "//line f.go:10:5", "//line :0", "//line f:abc", "//line f:0:1", "//line f:1:0", "//line f:1:1", "//line :1:1", "//line f:", "//line f", "//line  f : 3", "//line f:1:x", "//line f:x:1",
	"//line f:99999999999999999999", "//line f:18446744073709551615", "//line f:9223372036854775808", "//line f:1073741824", "//line f:1073741825", "//line f:1:1073741825", "//line f:1073741825:1", "//line f:-1", "//line f:+1", "//line f:1_0",
	"/*line f:10*/", "/*line f:0*/", "/*line f:1:0*/", "/*line :*/", "/*line f:x*/", "/*line */", "/*line f:1", "//line f:10\r", "/*line f:10\r*/", "//line", "//line ", "//lin f:1", "// line f:0", "//line f:0 ", "//line f:1:1:0"}

var sharps = []string{"# c", "#", "#!", "#\r", "# a\rb", "#/", "#/ x", "#//line f:0", "#/line f:0", "#*", "#* x */", "#* x", "#*\r*/", "##", "#é", "# \x00"}

var opsAll = []string{"+", "-", "*", "/", "%", "&", "|", "^", "<<", ">>", "&^", "+=", "-=", "*=", "/=", "%=", "&=", "|=", "^=", "<<=", ">>=", "&^=",
	"&&", "||", "<-", "++", "--", "==", "<", ">", "=", "!", "!=", "<=", ">=", ":=", "...", "(", "[", "{", ",", ".", ")", "]", "}", ";", ":",
	"?", "=>", "->", "<>", "$", "~", "**", "@", "..", "....", "<<<", ">>>", "<-<", "&^^", "=>=", "->>", "<>=", "**=", "!!", "&&&", "|||", "+++", "---", ".5.", "/=/", "^^"}

var illegals = []string{"\x00", "\ufeff", "\x80", "\xc0\x80", "\xe0\x80\x80", "\xed\xa0\x80", "\xf5", "\xe4\xb8", "\xf0\x90\x80", "\xf4\x90\x80\x80", "\xc2", "�", "“", "”", "\\", "§", "\x0c", "\x7f", "\x01", "€", " ", "\xff\xfe"}

var seps = []string{"", "", " ", " ", " ", "\n", "\n", "\t", "\r\n", "\r", "  ", " \n ", "\n\n", " \t "}

// Gen produces sources; all randomness comes from r.
type Gen struct {
	R      *vh.Rand
	Corpus [][]byte
	Stat   func(string)
}

func (g *Gen) count(k string) {
	if g.Stat != nil {
		g.Stat(k)
	}
}

func (g *Gen) randIdent() string {
	n := 1 + g.R.Intn(6)
	al := "abcxyzprie_CPYKM019"
	b := make([]byte, n)
	for i := range b {
		b[i] = al[g.R.Intn(len(al))]
		if i == 0 && b[i] >= '0' && b[i] <= '9' {
			b[i] = 'v'
		}
	}
	return string(b)
}

func (g *Gen) randNumber() string {
	al := "0123456789__..eEpPxXbBoOaAfF+-irk"
	n := 1 + g.R.Intn(8)
	b := make([]byte, n)
	for i := range b {
		b[i] = al[g.R.Intn(len(al))]
	}
	if g.R.Chance(80) {
		b[0] = "0123456789."[g.R.Intn(11)]
	}
	return string(b)
}

func (g *Gen) randQuoted() string {
	q := []string{`"`, `'`, "`"}[g.R.Intn(3)]
	al := []string{"a", "b", " ", `\`, `\n`, `\x`, `\u`, `\U`, "4", "1", "F", "7", `\"`, `\'`, "\n", "\r", "é", q, "\x00", "\xff", "0"}
	n := g.R.Intn(7)
	s := q
	for i := 0; i < n; i++ {
		s += al[g.R.Intn(len(al))]
	}
	if g.R.Chance(80) {
		s += q
	}
	return s
}

func (g *Gen) randComment() string {
	al := []string{"a", " ", "*", "/", "\r", "\n", "line ", ":", "1", "0", "f", "é", "\x00", "x"}
	n := g.R.Intn(9)
	body := ""
	for i := 0; i < n; i++ {
		body += al[g.R.Intn(len(al))]
	}
	switch g.R.Intn(4) {
	case 0:
		return "//" + strings.ReplaceAll(body, "\n", "")
	case 1:
		return "/*" + body + "*/"
	case 2:
		return "/*" + body
	}
	return "#" + strings.ReplaceAll(body, "\n", "")
}

// Lexeme draws one lexeme; class names are counted.
func (g *Gen) Lexeme() string {
	switch p := g.R.Intn(100); {
	case p < 10:
		g.count("lex_keyword")
		return g.R.Pick(keywords)
	case p < 20:
		g.count("lex_ident")
		if g.R.Chance(30) {
			return g.randIdent()
		}
		return g.R.Pick(identsASCII)
	case p < 25:
		g.count("lex_ident_unicode")
		return g.R.Pick(identsUni)
	case p < 40:
		g.count("lex_number")
		if g.R.Chance(25) {
			return g.randNumber()
		}
		return g.R.Pick(numbers)
	case p < 52:
		g.count("lex_string")
		if g.R.Chance(25) {
			return g.randQuoted()
		}
		return g.R.Pick(strs)
	case p < 64:
		g.count("lex_comment")
		if g.R.Chance(25) {
			return g.randComment()
		}
		return g.R.Pick(comments)
	case p < 69:
		g.count("lex_sharp")
		return g.R.Pick(sharps)
	case p < 92:
		g.count("lex_operator")
		return g.R.Pick(opsAll)
	case p < 96:
		g.count("lex_illegal")
		return g.R.Pick(illegals)
	default:
		g.count("lex_paren_group")
		inner := g.R.Pick([]string{"a...", "a ...", "...", "x, y...", "1, (b...)", "", "a\n", "a...\n"})
		return g.R.Pick([]string{"(", "[", "{", "f(", "("}) + inner + g.R.Pick([]string{")", "]", "}", ")", ""})
	}
}

// Sequence: lexemes joined by random separators (often none: adjacency matters).
func (g *Gen) Sequence() []byte {
	n := g.R.Intn(9)
	if g.R.Chance(10) {
		n += g.R.Intn(20)
	}
	var b []byte
	if g.R.Chance(4) {
		b = append(b, "\ufeff"...)
	}
	if g.R.Chance(20) {
		b = append(b, g.R.Pick(seps)...)
	}
	for i := 0; i < n; i++ {
		b = append(b, g.Lexeme()...)
		b = append(b, g.R.Pick(seps)...)
	}
	if g.R.Chance(30) && len(b) > 0 { // end right after a lexeme: EOF handling
		b = []byte(strings.TrimRight(string(b), " \n\t\r"))
	}
	return b
}

// ---- state-directed sources --------------------------------------------------------------
//
// The scanners keep hidden state between tokens: nParen (`(` ++, `)` --, every SEMICOLON token
// resets it; consulted by `...`), insertSemi, the pending unit of `1km`, and the comment
// look-ahead findLineEnd.  A StateProbe source is
//
//	[state-setting prefix] [state-sensitive probe] [line end | EOF | comment]   (once or twice)
//
// so that every ordered combination "something that changes the state, then something whose
// treatment depends on it, then the place where the difference becomes visible" is drawn often.
var statePrefixGo = []string{"(", "(", "(", ")", ")", "[", "]", "{", "}", ";", ";", ";", "f(", "(a", "a;", "(a;", "a,", "a", "x\n", "\n",
	"/* c */", "((", "))", "();", "(;", ";)", "(\n", ")\n", "if x {", "a...", "...", "!", "(//c\n", "(/*\n*/", "x.", "func(", "(a)", "[(", ")]", "{(", ")}", "return", "x++"}
var statePrefixX = []string{"1km", "(1km", "?", "x?", "#c\n", "(#c\n", "c\"a\"", "$", "=>", "1r"}
var stateProbeGo = []string{"...", "...", "...", "a...", "a ...", "!", "x!", "a", "1", `"s"`, "'c'", "`r`", ")", "]", "}", "++", "--", "x++", "return", "break",
	"continue", "fallthrough", "1i", "1.5", "x.", ".", "<-", "~", ",", "(", "go", ";", "...)", "...]", ")...", "]...", "a)", "a]"}
var stateProbeX = []string{"?", "x?", "1km", "1r", "$", "@", "=>", "->", "c\"a\"", "1km...", "x!...", "<>", "**"}
var stateEndGo = []string{"\n", "\n", "\n", "", "", " ", "\r\n", " \n", "\t\n", " // c\n", " /* c */\n", " /* c\n */ y", " // c", " /* c */", "/* c */ /* d */\n", "/* c */ x\n",
	"\n\n", ";", ";\n", "\x00\n", " /*", " /* c \n", "//line f:3\n", "/*line f:3*/\n", "\ny", "\n)", "\n..."}
var stateEndX = []string{" # c\n", "#c", "#\n", " #"}

// StateProbe draws one state-directed source; goOnly restricts it to Go lexemes.
func (g *Gen) StateProbe(goOnly bool) []byte {
	pre, probe, end := statePrefixGo, stateProbeGo, stateEndGo
	if !goOnly {
		pre = append(append([]string{}, pre...), statePrefixX...)
		probe = append(append([]string{}, probe...), stateProbeX...)
		end = append(append([]string{}, end...), stateEndX...)
	}
	var b []byte
	glue := func() {
		if g.R.Chance(40) {
			b = append(b, ' ')
		}
	}
	rounds := 1 + g.R.Intn(2)
	for k := 0; k < rounds; k++ {
		n := g.R.Intn(5)
		if k > 0 {
			n = g.R.Intn(3)
		}
		for i := 0; i < n; i++ {
			b = append(b, g.R.Pick(pre)...)
			glue()
		}
		b = append(b, g.R.Pick(probe)...)
		if g.R.Chance(15) {
			glue()
			b = append(b, g.R.Pick(probe)...)
		}
		b = append(b, g.R.Pick(end)...)
	}
	return b
}

// StateAlphabet: the symbols of the exhaustive small-scope enumeration of the hidden state.
var StateAlphabet = []string{";", "(", ")", "...", "\n", "a", "/*c*/"}

// Mutate applies one byte-level change.
func (g *Gen) Mutate(b []byte) []byte {
	b = append([]byte{}, b...)
	if len(b) == 0 {
		return []byte(g.Lexeme())
	}
	i := g.R.Intn(len(b))
	al := []byte(" \n\r\t\"'`\\/*#._0x1eipr;()!.~$?@<>=-+&|^%:,{}[]\x00\x80\xef\xbb\xbf\xc3\xa9a")
	switch g.R.Intn(5) {
	case 0: // delete
		return append(b[:i], b[i+1:]...)
	case 1: // insert
		c := al[g.R.Intn(len(al))]
		return append(b[:i], append([]byte{c}, b[i:]...)...)
	case 2: // replace
		b[i] = al[g.R.Intn(len(al))]
		return b
	case 3: // truncate
		return b[:i]
	default: // duplicate a chunk
		j := i + g.R.Intn(len(b)-i)
		return append(b[:j], append(append([]byte{}, b[i:j]...), b[j:]...)...)
	}
}

// RandomBytes over a small alphabet.
func (g *Gen) RandomBytes() []byte {
	al := []string{"a", "1", "0", " ", "\n", "\r", "\t", "/", "*", "#", "\"", "'", "`", "\\", ".", "_", "x", "e", "p", "i", "r", "c", "y", "+", "-", "=", "<", ">", "!", "&", "|", "^", "(", ")", ";", ":", "?", "~", "$", "@", "\x00", "\xef\xbb\xbf", "\xc3\xa9", "\xc3", "\xa9", "l", "n", " "}
	n := g.R.Intn(12)
	var b []byte
	for i := 0; i < n; i++ {
		b = append(b, al[g.R.Intn(len(al))]...)
	}
	return b
}

// LoadCorpus reads source files of the tree under test (VERIF_REPO, default /repo).
func LoadCorpus(max int) [][]byte {
	root := os.Getenv("VERIF_REPO")
	if root == "" {
		root = "/repo"
	}
	exts := map[string]bool{".xgo": true, ".gox": true, ".go": true, ".gop": true, ".spx": true, ".gmx": true, ".gsh": true, ".yap": true, ".tpl": true, ".mod": true}
	var paths []string
	filepath.Walk(root, func(p string, info os.FileInfo, err error) error {
		if err != nil {
			return nil
		}
		if info.IsDir() {
			if info.Name() == ".git" {
				return filepath.SkipDir
			}
			return nil
		}
		if exts[filepath.Ext(p)] && info.Size() < 200000 {
			paths = append(paths, p)
		}
		return nil
	})
	sort.Strings(paths)
	var res [][]byte
	for i, p := range paths {
		if max > 0 && len(res) >= max {
			break
		}
		_ = i
		b, err := os.ReadFile(p)
		if err == nil && len(b) > 0 {
			res = append(res, b)
		}
	}
	return res
}

// CorpusWindow: a window of a corpus file cut at line boundaries (or arbitrary offsets).
func (g *Gen) CorpusWindow() []byte {
	if len(g.Corpus) == 0 {
		return g.Sequence()
	}
	f := g.Corpus[g.R.Intn(len(g.Corpus))]
	if len(f) < 400 && g.R.Chance(50) {
		return f
	}
	w := 20 + g.R.Intn(380)
	i := g.R.Intn(len(f))
	if g.R.Chance(70) { // start of a line
		for i > 0 && f[i-1] != '\n' {
			i--
		}
	}
	j := i + w
	if j > len(f) {
		j = len(f)
	}
	return f[i:j]
}

// Source draws one input; the stream name is counted.
func (g *Gen) Source() []byte {
	switch p := g.R.Intn(100); {
	case p < 43:
		g.count("src_sequence")
		return g.Sequence()
	case p < 52:
		g.count("src_state_probe")
		return g.StateProbe(false)
	case p < 55:
		g.count("src_state_probe_mutated")
		return g.Mutate(g.StateProbe(false))
	case p < 70:
		g.count("src_sequence_mutated")
		return g.Mutate(g.Sequence())
	case p < 80:
		g.count("src_corpus_window")
		return g.CorpusWindow()
	case p < 90:
		g.count("src_corpus_mutated")
		return g.Mutate(g.CorpusWindow())
	default:
		g.count("src_random_bytes")
		return g.RandomBytes()
	}
}

// Exhaustive enumerates all strings of length <= k over alphabet al.
func Exhaustive(al []string, k int, f func([]byte)) {
	var rec func(prefix []byte, depth int)
	rec = func(prefix []byte, depth int) {
		f(prefix)
		if depth == k {
			return
		}
		for _, a := range al {
			rec(append(append([]byte{}, prefix...), a...), depth+1)
		}
	}
	rec(nil, 0)
}

// Fixed regression inputs replayed first by every scanner harness.
var Regression = []string{"#", "x #", "1km x", "1km", "1km\n", "~", "x!\ny", "a...\n", "f(a...\n)", "x // c\ny", "x /* a\nb */ y", "#\nx := 1\n", "#*abc*/ x",
	"//line a:1073741825", "x /*c*/ \x00\ny", "\ufeffx", "x\ufeff", "a\r\n", "1.5e", "'", "\"", "`", "/*", "x /*", "x //", "x /**/", "x /**/ y", "x /**/\n", "return /*\n*/ 1",
	"c\"a\"", "py\"a\" x", "1 #c", "x #c\ny", "#\r\n", "# a\r\nx", "x := 1\n#", "0x1p-2i", "1_000km", "f(x)...\n", "a ... \n", "(...)\n", "(...\n)\n..."}
