// Package scangen: shared by harness/cmd/c15, c16, c32, c33 — in-process runs of the three real
// scanners (XGo scanner, TPL scanner, go/scanner) with canonical output, and the byte-level
// generators (lexeme sequences, corpus windows, mutations, exhaustive small strings).
package scangen

import (
	"fmt"
	goscanner "go/scanner"
	gotoken "go/token"
	"regexp"
	"sort"
	"strconv"
	"strings"
	"unicode"
	"unicode/utf8"

	"github.com/goplus/xgo/scanner"
	"github.com/goplus/xgo/token"
	tplscanner "github.com/goplus/xgo/tpl/scanner"
	tpltoken "github.com/goplus/xgo/tpl/token"
	"verifharness/vh"
)

// Tok is one Scan result with the position as a byte offset.
type Tok struct {
	Pos  int
	Kind int
	Lit  string
}

// Err is one error-handler call.
type Err struct {
	Off int
	Msg string // canonical code (CanonMsg)
	Raw string
}

// Result of scanning one source to EOF.
type Result struct {
	Toks   []Tok
	Errs   []Err
	Status string // done | panic | hang
	Panic  string
}

var litnames = map[string]string{"decimal literal": "dec", "hexadecimal literal": "hex", "octal literal": "oct", "binary literal": "bin"}

var (
	reIllCh   = regexp.MustCompile(`^illegal character U\+([0-9A-F]+)( '.*')?$`)
	reEscCh   = regexp.MustCompile(`^illegal character U\+([0-9A-F]+)( '.*')? in escape sequence$`)
	reRadix   = regexp.MustCompile(`^invalid radix point in (.*)$`)
	reNoDig   = regexp.MustCompile(`^(.* literal) has no digits$`)
	reExpDec  = regexp.MustCompile(`^'(.)' exponent requires decimal mantissa$`)
	reExpHex  = regexp.MustCompile(`^'(.)' exponent requires hexadecimal mantissa$`)
	reBadDig  = regexp.MustCompile(`^invalid digit '(.)' in (.*)$`)
	reCurly   = regexp.MustCompile(`^curly quotation mark '(.)' \(use neutral '"'\)$`)
	fixedMsgs = map[string]string{
		"illegal character NUL":                        "nul",
		"illegal UTF-8 encoding":                       "utf8",
		"illegal byte order mark":                      "bom",
		"comment not terminated":                       "cmtnt",
		"exponent has no digits":                       "expnodig",
		"hexadecimal mantissa requires a 'p' exponent": "hexp",
		"'_' must separate successive digits":          "sep",
		"unknown escape sequence":                      "escunk",
		"escape sequence not terminated":               "escnt",
		"escape sequence is invalid Unicode code point": "esccp",
		"rune literal not terminated":                  "runent",
		"illegal rune literal":                         "runeill",
		"string literal not terminated":                "strnt",
		"raw string literal not terminated":            "rawnt",
	}
)

// CanonMsg maps an error message of any of the three scanners to the code printed by the
// Lean driver (Driver/Scan.lean showMsg). Unknown messages stay visible.
func CanonMsg(m string) string {
	if c, ok := fixedMsgs[m]; ok {
		return c
	}
	if strings.HasPrefix(m, "invalid line number: ") {
		return "line:" + vh.HexS(strings.TrimPrefix(m, "invalid line number: "))
	}
	if strings.HasPrefix(m, "invalid column number: ") {
		return "col:" + vh.HexS(strings.TrimPrefix(m, "invalid column number: "))
	}
	if x := reEscCh.FindStringSubmatch(m); x != nil {
		n, _ := strconv.ParseInt(x[1], 16, 64)
		return fmt.Sprintf("escch:%d", n)
	}
	if x := reIllCh.FindStringSubmatch(m); x != nil {
		n, _ := strconv.ParseInt(x[1], 16, 64)
		return fmt.Sprintf("illch:%d", n)
	}
	if x := reRadix.FindStringSubmatch(m); x != nil && litnames[x[1]] != "" {
		return "radix:" + litnames[x[1]]
	}
	if x := reNoDig.FindStringSubmatch(m); x != nil && litnames[x[1]] != "" {
		return "nodig:" + litnames[x[1]]
	}
	if x := reExpDec.FindStringSubmatch(m); x != nil {
		return fmt.Sprintf("expdec:%d", []rune(x[1])[0])
	}
	if x := reExpHex.FindStringSubmatch(m); x != nil {
		return fmt.Sprintf("exphex:%d", []rune(x[1])[0])
	}
	if x := reBadDig.FindStringSubmatch(m); x != nil && litnames[x[2]] != "" {
		return fmt.Sprintf("baddig:%d:%s", []rune(x[1])[0], litnames[x[2]])
	}
	if x := reCurly.FindStringSubmatch(m); x != nil {
		return fmt.Sprintf("curly:%d", []rune(x[1])[0])
	}
	return "unknown:" + vh.HexS(m)
}

func maxToks(src []byte) int { return 2*len(src) + 16 }

// RunXGo scans src with the real XGo scanner. mode: bit0 ScanComments, bit1 dontInsertSemis.
func RunXGo(src []byte, mode int) (res Result) {
	res.Status = "done"
	defer func() {
		if e := recover(); e != nil {
			res.Status, res.Panic = "panic", fmt.Sprint(e)
		}
	}()
	fset := token.NewFileSet()
	f := fset.AddFile("", fset.Base(), len(src))
	var s scanner.Scanner
	s.Init(f, src, func(pos token.Position, msg string) {
		res.Errs = append(res.Errs, Err{pos.Offset, CanonMsg(msg), msg})
	}, scanner.Mode(mode))
	for i := 0; ; i++ {
		if i > maxToks(src) {
			res.Status = "hang"
			return
		}
		pos, tok, lit := s.Scan()
		res.Toks = append(res.Toks, Tok{int(pos) - f.Base(), int(tok), lit})
		if tok == token.EOF {
			return
		}
	}
}

// RunTpl scans src with the real TPL scanner (bit1 = NoInsertSemis).
func RunTpl(src []byte, mode int) (res Result) {
	res.Status = "done"
	defer func() {
		if e := recover(); e != nil {
			res.Status, res.Panic = "panic", fmt.Sprint(e)
		}
	}()
	fset := gotoken.NewFileSet()
	f := fset.AddFile("", fset.Base(), len(src))
	var s tplscanner.Scanner
	s.Init(f, src, func(pos gotoken.Position, msg string) {
		res.Errs = append(res.Errs, Err{pos.Offset, CanonMsg(msg), msg})
	}, tplscanner.Mode(mode))
	for i := 0; ; i++ {
		if i > maxToks(src) {
			res.Status = "hang"
			return
		}
		t := s.Scan()
		res.Toks = append(res.Toks, Tok{int(t.Pos) - f.Base(), int(t.Tok), t.Lit})
		if t.Tok == tpltoken.EOF {
			return
		}
	}
}

// RunGo scans src with go/scanner of the toolchain (bit1 = dontInsertSemis).
func RunGo(src []byte, mode int) (res Result) {
	res.Status = "done"
	defer func() {
		if e := recover(); e != nil {
			res.Status, res.Panic = "panic", fmt.Sprint(e)
		}
	}()
	fset := gotoken.NewFileSet()
	f := fset.AddFile("", fset.Base(), len(src))
	var s goscanner.Scanner
	s.Init(f, src, func(pos gotoken.Position, msg string) {
		res.Errs = append(res.Errs, Err{pos.Offset, CanonMsg(msg), msg})
	}, goscanner.Mode(mode))
	for i := 0; ; i++ {
		if i > maxToks(src) {
			res.Status = "hang"
			return
		}
		pos, tok, lit := s.Scan()
		res.Toks = append(res.Toks, Tok{int(pos) - f.Base(), int(tok), lit})
		if tok == gotoken.EOF {
			return
		}
	}
}

// Run dispatches on the dialect name used in case lines.
func Run(d string, src []byte, mode int) Result {
	switch d {
	case "xgo":
		return RunXGo(src, mode)
	case "tpl":
		return RunTpl(src, mode)
	}
	return RunGo(src, mode)
}

// Canon prints a result exactly as Driver/Scan.lean prints the model's.
func (r Result) Canon() string {
	var b strings.Builder
	for i, t := range r.Toks {
		if i > 0 {
			b.WriteByte(',')
		}
		fmt.Fprintf(&b, "%d:%d:%s", t.Pos, t.Kind, vh.HexS(t.Lit))
	}
	b.WriteString(" | ")
	for i, e := range r.Errs {
		if i > 0 {
			b.WriteByte(',')
		}
		fmt.Fprintf(&b, "%d:%s", e.Off, e.Msg)
	}
	b.WriteString(" | ")
	b.WriteString(r.Status)
	return b.String()
}

// UnicodeClasses: the runes >= 0x80 decodable at any offset of src that are letters / digits
// (package unicode), as the two fields of a case line.
func UnicodeClasses(src []byte) (letters, digits string) {
	ls, ds := map[rune]bool{}, map[rune]bool{}
	for i := range src {
		if src[i] < 0x80 {
			continue
		}
		r, _ := utf8.DecodeRune(src[i:])
		if unicode.IsLetter(r) {
			ls[r] = true
		}
		if unicode.IsDigit(r) {
			ds[r] = true
		}
	}
	f := func(m map[rune]bool) string {
		if len(m) == 0 {
			return "-"
		}
		xs := make([]int, 0, len(m))
		for r := range m {
			xs = append(xs, int(r))
		}
		sort.Ints(xs)
		ss := make([]string, len(xs))
		for i, x := range xs {
			ss[i] = strconv.Itoa(x)
		}
		return strings.Join(ss, ",")
	}
	return f(ls), f(ds)
}

// CaseLine is the driver-protocol line `scan <dialect> <mode> <hex> <letters> <digits>`.
func CaseLine(d string, mode int, src []byte) string {
	l, dg := UnicodeClasses(src)
	return fmt.Sprintf("scan\t%s\t%d\t%s\t%s\t%s", d, mode, vh.Hex(src), l, dg)
}

// ParseCaseLine inverts CaseLine (for -replay).
func ParseCaseLine(line string) (d string, mode int, src []byte, err error) {
	fs := strings.Split(line, "\t")
	if len(fs) == 1 {
		fs = strings.Fields(line)
	}
	if len(fs) < 4 {
		return "", 0, nil, fmt.Errorf("bad case line")
	}
	mode, _ = strconv.Atoi(fs[2])
	src, err = vh.UnHex(fs[3])
	return fs[1], mode, src, err
}
