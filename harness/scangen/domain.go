package scangen

import (
	"fmt"
	gotoken "go/token"
	"strings"
	"unicode"
	"unicode/utf8"

	"github.com/goplus/xgo/token"
	tpltoken "github.com/goplus/xgo/tpl/token"
)

func isLetterRune(r rune) bool {
	return 'a' <= r && r <= 'z' || 'A' <= r && r <= 'Z' || r == '_' || r >= utf8.RuneSelf && unicode.IsLetter(r)
}
func isDigitRune(r rune) bool { return '0' <= r && r <= '9' || r >= utf8.RuneSelf && unicode.IsDigit(r) }

func runeAt(src []byte, i int) rune {
	if i >= len(src) {
		return -1
	}
	if src[i] < utf8.RuneSelf {
		return rune(src[i])
	}
	r, _ := utf8.DecodeRune(src[i:])
	return r
}

func byteAt(src []byte, i int) byte {
	if i < len(src) {
		return src[i]
	}
	return 0
}

func lineEndOrComment(src []byte, i int) bool {
	for i < len(src) && (src[i] == ' ' || src[i] == '\t' || src[i] == '\r') {
		i++
	}
	return i >= len(src) || src[i] == '\n' || src[i] == '/' && (byteAt(src, i+1) == '/' || byteAt(src, i+1) == '*')
}

// By-design deviations of the XGo scanner from go/scanner on pure Go lexemes (known findings).
const (
	ReasonBang      = "bang-before-newline"
	ReasonEllipsis  = "ellipsis-before-newline"
	ReasonSemiOrder = "semicolon-before-comment" // a comment begins while a semicolon is pending
	ReasonLookahead = "lookahead-error-twice"    // same situation, only the error lists differ
)

// GoLexemesOnly evaluates the C16 domain on the output of the real go/scanner (comments on).
// It returns the reasons for exclusion (empty = in the domain); by-design deviations are named
// by their known-finding key, everything else by "x:<what>".
func GoLexemesOnly(src []byte) []string {
	res := RunGo(src, 1)
	if res.Status != "done" {
		return []string{"x:go-scanner-" + res.Status}
	}
	seen := map[string]bool{}
	var reasons []string
	add := func(r string) {
		if !seen[r] {
			seen[r] = true
			reasons = append(reasons, r)
		}
	}
	pend := false // go/scanner's insertSemi before the token
	for _, t := range res.Toks {
		tok := gotoken.Token(t.Kind)
		stop := t.Pos + len(t.Lit)
		if tok.IsOperator() {
			stop = t.Pos + len(tok.String())
			if tok == gotoken.SEMICOLON && t.Lit == "\n" {
				stop = t.Pos
			}
		}
		next := runeAt(src, stop)
		switch {
		case tok == gotoken.ILLEGAL:
			add("x:illegal")
		case (tok == gotoken.INT || tok == gotoken.FLOAT) && isLetterRune(next):
			add("x:number-letter")
		case tok == gotoken.IMAG && (isLetterRune(next) || isDigitRune(next)):
			add("x:imag-suffix")
		case tok == gotoken.IDENT && (t.Lit == "c" || t.Lit == "C" || t.Lit == "py") && next == '"':
			add("x:cstring")
		case (tok == gotoken.SUB || tok == gotoken.ASSIGN || tok == gotoken.LSS) && next == '>':
			add("x:arrow")
		case tok == gotoken.NOT && lineEndOrComment(src, stop):
			add(ReasonBang)
		case tok == gotoken.ELLIPSIS && lineEndOrComment(src, stop):
			add(ReasonEllipsis)
		case tok == gotoken.COMMENT && pend:
			add(ReasonSemiOrder)
		}
		switch tok {
		case gotoken.COMMENT, gotoken.ILLEGAL:
			// insertSemi is preserved
		case gotoken.IDENT, gotoken.INT, gotoken.FLOAT, gotoken.IMAG, gotoken.CHAR, gotoken.STRING,
			gotoken.BREAK, gotoken.CONTINUE, gotoken.FALLTHROUGH, gotoken.RETURN,
			gotoken.INC, gotoken.DEC, gotoken.RPAREN, gotoken.RBRACK, gotoken.RBRACE:
			pend = true
		default:
			pend = false
		}
	}
	return reasons
}

// Agree16: same tokens (offset, String(), literal) and same error-handler calls in order.
// The second result describes the first divergence (for the oracle key).
func Agree16(x, g Result) (bool, string) {
	if x.Status != "done" || g.Status != "done" {
		return false, "status:" + x.Status + "/" + g.Status
	}
	last := "start"
	for i := 0; i < len(x.Toks) || i < len(g.Toks); i++ {
		if i >= len(x.Toks) || i >= len(g.Toks) {
			return false, "after=" + last + ":length"
		}
		a, b := x.Toks[i], g.Toks[i]
		an, bn := token.Token(a.Kind).String(), gotoken.Token(b.Kind).String()
		if a.Pos != b.Pos || an != bn || a.Lit != b.Lit {
			what := "kind"
			if an == bn {
				what = "literal"
				if a.Lit == b.Lit {
					what = "offset"
				}
			}
			return false, fmt.Sprintf("after=%s:%s:xgo=%s:go=%s", last, what, tokClass(an), tokClass(bn))
		}
		last = tokClass(bn)
	}
	if len(x.Errs) != len(g.Errs) {
		return false, "errors:count"
	}
	for i := range x.Errs {
		if x.Errs[i].Off != g.Errs[i].Off || x.Errs[i].Msg != g.Errs[i].Msg {
			return false, "errors:" + strings.SplitN(g.Errs[i].Msg, ":", 2)[0]
		}
	}
	return true, ""
}

func tokClass(name string) string {
	if name == "\n" {
		return "NL"
	}
	return name
}

// SharedLexemesOnly evaluates the C32 domain on the output of the real XGo scanner (comments on).
func SharedLexemesOnly(src []byte) []string {
	res := RunXGo(src, 1)
	if res.Status != "done" {
		return []string{"x:xgo-scanner-" + res.Status}
	}
	seen := map[string]bool{}
	var reasons []string
	add := func(r string) {
		if !seen[r] {
			seen[r] = true
			reasons = append(reasons, r)
		}
	}
	for _, t := range res.Toks {
		tok := token.Token(t.Kind)
		switch {
		case tok == token.ILLEGAL:
			add("x:illegal")
		case tok.IsKeyword():
			add("x:keyword")
		case tok == token.CSTRING || tok == token.PYSTRING:
			add("x:cstring")
		case tok == token.MUL && byteAt(src, t.Pos+1) == '*':
			add("x:pow")
		case tok == token.COMMENT:
			end, _ := matchCR(src, t.Pos, t.Lit)
			if byteAt(src, t.Pos+1) == '*' && !(len(t.Lit) >= 4 && strings.HasSuffix(t.Lit, "*/")) {
				end = len(src) // not terminated: the comment runs to the end of the source
			}
			span := src[t.Pos:spanEnd(src, t.Pos, end)]
			isLine := src[t.Pos] == '/' && byteAt(src, t.Pos+1) == '/'
			if !isLine && strings.ContainsRune(string(span), '\r') {
				add("x:comment-cr")
			}
			if len(span) >= 7 && string(span[2:7]) == "line " {
				add("x:line-directive")
			}
			if src[t.Pos] == '#' && (byteAt(src, t.Pos+1) == '/' || byteAt(src, t.Pos+1) == '*') {
				add("x:sharp-quirk")
			}
		}
	}
	return reasons
}

// spanEnd: the scanner's offset behind a comment that starts at pos — for '#' and '//' the
// next newline (or EOF); for '/*' the end found by matching the literal.
func spanEnd(src []byte, pos, matched int) int {
	if src[pos] == '#' && byteAt(src, pos+1) != '*' || src[pos] == '/' && byteAt(src, pos+1) == '/' {
		i := pos
		for i < len(src) && src[i] != '\n' {
			i++
		}
		return i
	}
	return matched
}

// Agree32: same token boundaries (offsets), kinds (by spelling), literals, inserted semicolons.
func Agree32(t, x Result) (bool, string) {
	if t.Status != "done" || x.Status != "done" {
		return false, "status:" + t.Status + "/" + x.Status
	}
	last := "start"
	for i := 0; i < len(t.Toks) || i < len(x.Toks); i++ {
		if i >= len(t.Toks) || i >= len(x.Toks) {
			return false, "after=" + last + ":length"
		}
		a, b := t.Toks[i], x.Toks[i]
		an, bn := tpltoken.Token(a.Kind).String(), token.Token(b.Kind).String()
		if a.Pos != b.Pos || an != bn || a.Lit != b.Lit {
			what := "kind"
			if an == bn {
				what = "literal"
				if a.Lit == b.Lit {
					what = "offset"
				}
			}
			return false, fmt.Sprintf("after=%s:%s:tpl=%s:xgo=%s", last, what, tokClass(an), tokClass(bn))
		}
		last = tokClass(bn)
	}
	return true, ""
}
