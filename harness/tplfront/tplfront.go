// Package tplfront: helpers shared by the C31 and C27 harness commands (TPL grammar front end):
// running the real tpl scanner/parser, canonical s-expressions of tpl/ast trees, a generator of
// grammar expressions with its own minimal-parenthesis printer, mutants, and the repo corpus.
package tplfront

import (
	"fmt"
	"os"
	"path/filepath"
	"sort"
	"strconv"
	"strings"

	"github.com/goplus/xgo/tpl/ast"
	"github.com/goplus/xgo/tpl/parser"
	"github.com/goplus/xgo/tpl/scanner"
	"github.com/goplus/xgo/tpl/token"
	"github.com/goplus/xgo/tpl/types"
	"verifharness/vh"
)

// ---------------------------------------------------------------------------
// real scanner

type Scanned struct {
	Toks     []types.Token // without the final EOF
	Offs     []int         // offsets of Toks
	EOFOff   int
	ScanErrs int
	ErrAt    []int // for every scanner error, the index of the token being scanned (len(Toks) = the EOF)
	EOFAgain bool  // a second Scan after EOF returned EOF at the same position with empty Lit
}

// Scan runs the real TPL scanner exactly as tpl/parser does (InitEx(file, src, 0, eh, 0)).
func Scan(src []byte) (sc Scanned) {
	fset := token.NewFileSet()
	file := fset.AddFile("", -1, len(src))
	var s scanner.Scanner
	s.InitEx(file, src, 0, func(pos token.Position, msg string) {
		sc.ScanErrs++
		sc.ErrAt = append(sc.ErrAt, len(sc.Toks))
	}, 0)
	for i := 0; i <= len(src)+2; i++ {
		t := s.Scan()
		if t.Tok == token.EOF {
			sc.EOFOff = file.Offset(t.Pos)
			t2 := s.Scan()
			sc.EOFAgain = t2.Tok == token.EOF && t2.Pos == t.Pos && t.Lit == "" && t2.Lit == ""
			return
		}
		sc.Toks = append(sc.Toks, t)
		sc.Offs = append(sc.Offs, file.Offset(t.Pos))
	}
	sc.EOFAgain = false
	return
}

// SafeScan is Scan with a panic of the real scanner reported instead of propagated.
func SafeScan(src []byte) (sc Scanned, panicked string) {
	defer func() {
		if e := recover(); e != nil {
			panicked = fmt.Sprint(e)
		}
	}()
	sc = Scan(src)
	return
}

// ErrAtField renders the scanner error positions as the driver's `<scanErrAt>` field.
func (sc *Scanned) ErrAtField() string {
	if len(sc.ErrAt) == 0 {
		return "-"
	}
	parts := make([]string, len(sc.ErrAt))
	for i, k := range sc.ErrAt {
		parts[i] = strconv.Itoa(k)
	}
	return strings.Join(parts, ".")
}

// TokField renders the token list as the driver's `<eofpos>;<tok>,<tok>,…` field.
func (sc *Scanned) TokField() string {
	parts := make([]string, len(sc.Toks))
	for i, t := range sc.Toks {
		parts[i] = fmt.Sprintf("%d:%d:%s", uint(t.Tok), sc.Offs[i], vh.HexS(t.Lit))
	}
	toks := strings.Join(parts, ",")
	if toks == "" {
		toks = "-"
	}
	return fmt.Sprintf("%d;%s", sc.EOFOff, toks)
}

// ---------------------------------------------------------------------------
// real parser

type Parsed struct {
	File     *ast.File
	Errs     []string // canonical parser errors in report order: F@off, E<tok>@off, I@off
	AllErrs  int      // scanner + parser errors reported by ParseEx
	Foreign  int      // errors that are neither scanner errors (by count) nor "expected …" messages
	Panicked string
}

// SafeString is Token.String with a panic of the implementation turned into "".
func SafeString(t token.Token) (s string) {
	defer func() {
		if recover() != nil {
			s = ""
		}
	}()
	return t.String()
}

var spellToTok = func() map[string]uint {
	m := map[string]uint{}
	for t := token.Token(0); t < 256; t++ {
		if s := SafeString(t); s != "" {
			m[s] = uint(t)
		}
	}
	return m
}()

// Parse runs the real parser.ParseEx(file, src, 0, nil), recovering from panics.
func Parse(src []byte, scanErrs int) (p Parsed) {
	defer func() {
		if e := recover(); e != nil {
			p.Panicked = fmt.Sprint(e)
		}
	}()
	fset := token.NewFileSet()
	file := fset.AddFile("", -1, len(src))
	f, errs := parser.ParseEx(file, src, 0, nil)
	p.File = f
	p.AllErrs = len(errs)
	for _, e := range errs {
		msg := e.Msg
		if !strings.HasPrefix(msg, "expected ") {
			continue
		}
		rest := msg[len("expected "):]
		var c string
		switch {
		case strings.HasPrefix(rest, "factor"):
			c = "F"
		case strings.HasPrefix(rest, "'IDENT'"):
			c = "I"
		case strings.HasPrefix(rest, "'"):
			// expected '<spelling>'[, found …] ; the spelling itself may be "'"-free (operators)
			end := strings.Index(rest[1:], "'")
			if end < 0 {
				c = "E?"
			} else if t, ok := spellToTok[rest[1:1+end]]; ok {
				c = "E" + strconv.Itoa(int(t))
			} else {
				c = "E?" + rest[1:1+end]
			}
		default:
			c = "?" + rest
		}
		p.Errs = append(p.Errs, fmt.Sprintf("%s@%d", c, e.Pos.Offset))
	}
	p.Foreign = p.AllErrs - scanErrs - len(p.Errs)
	return
}

// ---------------------------------------------------------------------------
// canonical s-expressions (must match Driver/TplFront.lean showExpr/showRule)

func Sexpr(e ast.Expr) string {
	switch e := e.(type) {
	case nil:
		return "nil"
	case *ast.Ident:
		return "i" + vh.HexS(e.Name)
	case *ast.BasicLit:
		return fmt.Sprintf("l%d:%s", uint(e.Kind), vh.HexS(e.Value))
	case *ast.Sequence:
		return "(s" + sexprs(e.Items) + ")"
	case *ast.Choice:
		return "(c" + sexprs(e.Options) + ")"
	case *ast.UnaryExpr:
		return fmt.Sprintf("(u%d %s)", uint(e.Op), Sexpr(e.X))
	case *ast.BinaryExpr:
		return fmt.Sprintf("(b%d %s %s)", uint(e.Op), Sexpr(e.X), Sexpr(e.Y))
	}
	return fmt.Sprintf("?%T", e)
}

func sexprs(es []ast.Expr) string {
	var b strings.Builder
	for _, e := range es {
		b.WriteString(" ")
		b.WriteString(Sexpr(e))
	}
	return b.String()
}

func SexprFile(f *ast.File) string {
	if f == nil {
		return "NILFILE"
	}
	parts := []string{}
	for _, d := range f.Decls {
		r, ok := d.(*ast.Rule)
		if !ok {
			parts = append(parts, fmt.Sprintf("?%T", d))
			continue
		}
		s := vh.HexS(r.Name.Name) + "=" + Sexpr(r.Expr)
		if r.RetProc != nil {
			s += "+retproc"
		}
		parts = append(parts, s)
	}
	if len(parts) == 0 {
		return "-"
	}
	return strings.Join(parts, " ")
}

// ParseOut is the canonical implementation output of a `tplparse` case.
func ParseOut(p *Parsed) string {
	if p.Panicked != "" {
		return "PANIC " + p.Panicked
	}
	errs := strings.Join(p.Errs, ",")
	if errs == "" {
		errs = "-"
	}
	out := SexprFile(p.File) + " ! " + errs
	if p.Foreign != 0 {
		out += fmt.Sprintf(" FOREIGN-ERRORS=%d", p.Foreign)
	}
	return out
}

// WellFormed: the tree could have been written by hand following tpl/ast's documentation: no nil
// operand, Sequence/Choice with >= 2 members, operators from the documented sets.
func WellFormed(e ast.Expr) bool {
	switch e := e.(type) {
	case *ast.Ident:
		return true
	case *ast.BasicLit:
		return e.Kind == token.CHAR || e.Kind == token.STRING
	case *ast.Sequence:
		if len(e.Items) < 2 {
			return false
		}
		for _, x := range e.Items {
			if !WellFormed(x) {
				return false
			}
		}
		return true
	case *ast.Choice:
		if len(e.Options) < 2 {
			return false
		}
		for _, x := range e.Options {
			if !WellFormed(x) {
				return false
			}
		}
		return true
	case *ast.UnaryExpr:
		return (e.Op == token.MUL || e.Op == token.ADD || e.Op == token.QUESTION) && WellFormed(e.X)
	case *ast.BinaryExpr:
		return (e.Op == token.REM || e.Op == token.INC) && WellFormed(e.X) && WellFormed(e.Y)
	}
	return false
}

// ---------------------------------------------------------------------------
// generated expressions

type Kind int

const (
	KIdent Kind = iota
	KLit
	KSeq
	KChoice
	KUnary
	KBinary
)

// E is a grammar expression in normal form (Seq/Choice have >= 2 kids).
type E struct {
	K    Kind
	Text string // identifier name or literal source text
	Tok  uint   // literal kind (CHAR/STRING) or operator
	Kids []*E
}

func (e *E) level() int {
	switch e.K {
	case KChoice:
		return 0
	case KSeq:
		return 1
	case KBinary:
		if e.Tok == uint(token.REM) {
			return 2
		}
		return 3
	}
	return 4
}

// Sexpr of a generated expression (same format as the AST's).
func (e *E) Sexpr() string {
	switch e.K {
	case KIdent:
		return "i" + vh.HexS(e.Text)
	case KLit:
		return fmt.Sprintf("l%d:%s", e.Tok, vh.HexS(e.Text))
	case KSeq, KChoice:
		var b strings.Builder
		if e.K == KSeq {
			b.WriteString("(s")
		} else {
			b.WriteString("(c")
		}
		for _, k := range e.Kids {
			b.WriteString(" ")
			b.WriteString(k.Sexpr())
		}
		b.WriteString(")")
		return b.String()
	case KUnary:
		return fmt.Sprintf("(u%d %s)", e.Tok, e.Kids[0].Sexpr())
	}
	return fmt.Sprintf("(b%d %s %s)", e.Tok, e.Kids[0].Sexpr(), e.Kids[1].Sexpr())
}

// Prefix form read by the driver's `tplprint`.
func (e *E) Prefix() string {
	switch e.K {
	case KIdent:
		return "i" + vh.HexS(e.Text)
	case KLit:
		return fmt.Sprintf("l%d:%s", e.Tok, vh.HexS(e.Text))
	case KSeq, KChoice:
		h := "s"
		if e.K == KChoice {
			h = "c"
		}
		parts := []string{h + strconv.Itoa(len(e.Kids))}
		for _, k := range e.Kids {
			parts = append(parts, k.Prefix())
		}
		return strings.Join(parts, " ")
	case KUnary:
		return fmt.Sprintf("u%d %s", e.Tok, e.Kids[0].Prefix())
	}
	return fmt.Sprintf("b%d %s %s", e.Tok, e.Kids[0].Prefix(), e.Kids[1].Prefix())
}

func (e *E) Size() int {
	n := 1
	for _, k := range e.Kids {
		n += k.Size()
	}
	return n
}

func (e *E) Depth() int {
	d := 0
	for _, k := range e.Kids {
		if kd := k.Depth(); kd > d {
			d = kd
		}
	}
	return d + 1
}

var opSpell = map[uint]string{
	uint(token.MUL): "*", uint(token.ADD): "+", uint(token.QUESTION): "?",
	uint(token.REM): "%", uint(token.INC): "++", uint(token.OR): "|",
}

// Words prints e with the minimal parentheses as a list of token texts (an implementation of the
// documented precedence independent of the Lean printer): unary > ++ > % > sequence > |,
// % and ++ left-associative.  hole, if non-nil, is printed as nothing and its index is returned.
func (e *E) Words(ctx int, hole *E, out *[]string, holeAt *int) {
	if e == hole {
		*holeAt = len(*out)
		return
	}
	paren := e.level() < ctx
	if paren {
		*out = append(*out, "(")
	}
	switch e.K {
	case KIdent, KLit:
		*out = append(*out, e.Text)
	case KUnary:
		*out = append(*out, opSpell[e.Tok])
		e.Kids[0].Words(4, hole, out, holeAt)
	case KBinary:
		if e.Tok == uint(token.REM) {
			e.Kids[0].Words(2, hole, out, holeAt)
			*out = append(*out, "%")
			e.Kids[1].Words(3, hole, out, holeAt)
		} else {
			e.Kids[0].Words(3, hole, out, holeAt)
			*out = append(*out, "++")
			e.Kids[1].Words(4, hole, out, holeAt)
		}
	case KSeq:
		for _, k := range e.Kids {
			k.Words(2, hole, out, holeAt)
		}
	case KChoice:
		for i, k := range e.Kids {
			if i > 0 {
				*out = append(*out, "|")
			}
			k.Words(1, hole, out, holeAt)
		}
	}
	if paren {
		*out = append(*out, ")")
	}
}

var (
	identPool = []string{"a", "b", "expr", "IDENT", "INT", "STRING", "EOF", "x1", "_t", "doc", "SPACE", "QSTRING", "RAWSTRING", "é", "Σx", "CHAR"}
	litPool   = []string{`"a"`, `"if"`, `"+"`, `"<<="`, `"..."`, `""`, "`x`", "`a\"b`", `'a'`, `'+'`, `'\n'`, `'\x9e'`, `"\x9e"`,
		`"é"`, `'\''`, `"\""`, `"("`, `')'`, `"|"`, `'%'`, `"++"`, `"*"`, `"?"`, `";"`, `"=>"`, `"{"`, `'}'`, `"1"`, `"_x"`, `"日本"`, `'日'`}
)

func litKind(text string) uint {
	if text[0] == '\'' {
		return uint(token.CHAR)
	}
	return uint(token.STRING)
}

// Gen generates a normal-form expression with at most `budget` nodes below it.
func Gen(r *vh.Rand, budget int) *E { return GenWith(r, budget, identPool, litPool) }

// LitPool returns the literal pool (source texts).
func LitPool() []string { return litPool }

// GenWith is Gen over the given identifier / literal pools.
func GenWith(r *vh.Rand, budget int, idents, lits []string) *E {
	Gen := func(r *vh.Rand, budget int) *E { return GenWith(r, budget, idents, lits) }
	if budget <= 1 || r.Chance(20) {
		if r.Chance(55) {
			return &E{K: KIdent, Text: r.Pick(idents)}
		}
		t := r.Pick(lits)
		return &E{K: KLit, Text: t, Tok: litKind(t)}
	}
	switch r.Intn(10) {
	case 0, 1, 2:
		ops := []uint{uint(token.MUL), uint(token.ADD), uint(token.QUESTION)}
		return &E{K: KUnary, Tok: ops[r.Intn(3)], Kids: []*E{Gen(r, budget-1)}}
	case 3, 4:
		l := 1 + r.Intn(budget-1)
		return &E{K: KBinary, Tok: uint(token.REM), Kids: []*E{Gen(r, l), Gen(r, budget-l)}}
	case 5, 6:
		l := 1 + r.Intn(budget-1)
		return &E{K: KBinary, Tok: uint(token.INC), Kids: []*E{Gen(r, l), Gen(r, budget-l)}}
	case 7, 8:
		n := 2 + r.Intn(3)
		e := &E{K: KSeq}
		for i := 0; i < n; i++ {
			e.Kids = append(e.Kids, Gen(r, 1+budget/n))
		}
		return e
	default:
		n := 2 + r.Intn(3)
		e := &E{K: KChoice}
		for i := 0; i < n; i++ {
			e.Kids = append(e.Kids, Gen(r, 1+budget/n))
		}
		return e
	}
}

// Nodes lists all nodes of e (pre-order).
func (e *E) Nodes() []*E {
	res := []*E{e}
	for _, k := range e.Kids {
		res = append(res, k.Nodes()...)
	}
	return res
}

// Enumerate all normal-form expressions over a 2-leaf alphabet with exactly n nodes (small scope).
func Enumerate(n int, leaves []*E) []*E {
	if n == 1 {
		return leaves
	}
	var res []*E
	for _, op := range []uint{uint(token.MUL), uint(token.ADD), uint(token.QUESTION)} {
		for _, x := range Enumerate(n-1, leaves) {
			res = append(res, &E{K: KUnary, Tok: op, Kids: []*E{x}})
		}
	}
	for l := 1; l <= n-2; l++ {
		for _, x := range Enumerate(l, leaves) {
			for _, y := range Enumerate(n-1-l, leaves) {
				res = append(res, &E{K: KBinary, Tok: uint(token.REM), Kids: []*E{x, y}})
				res = append(res, &E{K: KBinary, Tok: uint(token.INC), Kids: []*E{x, y}})
				res = append(res, &E{K: KSeq, Kids: []*E{x, y}})
				res = append(res, &E{K: KChoice, Kids: []*E{x, y}})
			}
		}
	}
	// ternary sequences / choices
	for l := 1; l <= n-3; l++ {
		for m := 1; l+m <= n-2; m++ {
			for _, x := range Enumerate(l, leaves) {
				for _, y := range Enumerate(m, leaves) {
					for _, z := range Enumerate(n-1-l-m, leaves) {
						res = append(res, &E{K: KSeq, Kids: []*E{x, y, z}})
						res = append(res, &E{K: KChoice, Kids: []*E{x, y, z}})
					}
				}
			}
		}
	}
	return res
}

// JoinWords renders token texts as one line of source.  Adjacent words are separated by a blank
// unless both sides are such that no other token can form (only around `(`, `)`, `|`, `%`),
// or by a longer gap (tabs, comments, a newline after tokens that do not trigger semicolon
// insertion) chosen from r.  With r == nil a single blank is used everywhere.
func JoinWords(words []string, r *vh.Rand) string {
	var b strings.Builder
	for i, w := range words {
		if i > 0 {
			prev := words[i-1]
			sep := " "
			if r != nil {
				isParen := func(s string) bool { return s == "(" || s == ")" }
				bar := func(s string) bool { return s == "|" || s == "%" }
				operandStart := func(s string) bool {
					c := s[0]
					return c == '(' || c == '*' || c == '+' || c == '?' || c == '"' || c == '\'' || c == '`' || c >= 'a' && c <= 'z' || c >= 'A' && c <= 'Z' || c == '_' || c >= 0x80
				}
				operandEnd := func(s string) bool {
					c := s[len(s)-1]
					return c == ')' || c == '"' || c == '\'' || c == '`' || c >= 'a' && c <= 'z' || c >= 'A' && c <= 'Z' || c >= '0' && c <= '9' || c == '_' || c >= 0x80
				}
				noSemi := func(s string) bool { return s == "(" || s == "|" || s == "%" || s == "*" || s == "+" || s == "=" }
				switch r.Intn(12) {
				case 0:
					if isParen(prev) || isParen(w) || bar(prev) && operandStart(w) || operandEnd(prev) && bar(w) {
						sep = ""
					}
				case 1:
					sep = "\t "
				case 2:
					sep = " /* c */ "
				case 3:
					if noSemi(prev) {
						sep = "\n\t"
					}
				case 4:
					if noSemi(prev) {
						sep = " // c\n"
					}
				case 5:
					if noSemi(prev) {
						sep = " # c\n  "
					}
				}
			}
			b.WriteString(sep)
		}
		b.WriteString(w)
	}
	return b.String()
}

// ---------------------------------------------------------------------------
// corpus: grammar texts found in the tree under test

func RepoRoot() string {
	if r := os.Getenv("VERIF_REPO"); r != "" {
		return r
	}
	return "/repo"
}

// Corpus returns grammar sources: tpl/parser/_testdata/*/in.xgo and every tpl`…` domain text
// literal in .xgo/.gox files of the demo, doc, cl and parser test data.
func Corpus() []string {
	root := RepoRoot()
	var res []string
	seen := map[string]bool{}
	add := func(s string) {
		if !seen[s] && len(s) < 20000 {
			seen[s] = true
			res = append(res, s)
		}
	}
	m, _ := filepath.Glob(filepath.Join(root, "tpl", "parser", "_testdata", "*", "in.xgo"))
	sort.Strings(m)
	for _, f := range m {
		if b, err := os.ReadFile(f); err == nil {
			add(string(b))
		}
	}
	for _, dir := range []string{"demo", "doc", "cl/_testgop", "parser/_testdata", "tpl"} {
		filepath.Walk(filepath.Join(root, dir), func(p string, info os.FileInfo, err error) error {
			if err != nil || info.IsDir() {
				return nil
			}
			ext := filepath.Ext(p)
			if ext != ".xgo" && ext != ".gox" && ext != ".go" {
				return nil
			}
			b, err := os.ReadFile(p)
			if err != nil {
				return nil
			}
			s := string(b)
			for {
				i := strings.Index(s, "tpl`")
				if i < 0 {
					break
				}
				s = s[i+4:]
				j := strings.Index(s, "`")
				if j < 0 {
					break
				}
				add(s[:j])
				s = s[j+1:]
			}
			return nil
		})
	}
	return res
}
