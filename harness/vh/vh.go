// Package vh: shared helpers for the verification harness commands
// (PRNG, hex fields, case/impl/oracle/stat writers).
package vh

import (
	"bufio"
	"encoding/hex"
	"encoding/json"
	"flag"
	"fmt"
	"os"
	"path/filepath"
	"sort"
	"strings"
)

// Rand is a splitmix64 PRNG: every random choice of a run derives from one state,
// so a case is replayable from (seed, index).
type Rand struct{ s uint64 }

func NewRand(seed uint64) *Rand { return &Rand{s: seed*0x9E3779B97F4A7C15 + 0x1234567} }

func (r *Rand) U64() uint64 {
	r.s += 0x9E3779B97F4A7C15
	z := r.s
	z = (z ^ (z >> 30)) * 0xBF58476D1CE4E5B9
	z = (z ^ (z >> 27)) * 0x94D049BB133111EB
	return z ^ (z >> 31)
}
func (r *Rand) Intn(n int) int {
	if n <= 0 {
		return 0
	}
	return int(r.U64() % uint64(n))
}
func (r *Rand) Bool() bool        { return r.U64()&1 == 1 }
func (r *Rand) Chance(p int) bool { return r.Intn(100) < p } // p percent
func (r *Rand) Pick(xs []string) string {
	return xs[r.Intn(len(xs))]
}

// Fork derives an independent generator for case i.
func (r *Rand) Fork(i int) *Rand { return NewRand(r.s ^ (uint64(i)+1)*0xD6E8FEB86659FD93) }

// Hex encodes a byte string as a never-empty field ("-" = empty).
func Hex(b []byte) string {
	if len(b) == 0 {
		return "-"
	}
	return hex.EncodeToString(b)
}
func HexS(s string) string { return Hex([]byte(s)) }
func UnHex(s string) ([]byte, error) {
	if s == "-" {
		return nil, nil
	}
	return hex.DecodeString(s)
}

// Flags common to all harness commands.
type Flags struct {
	Seed   uint64
	N      int
	Out    string
	Tier   string
	Replay string
}

func ParseFlags() *Flags {
	f := &Flags{}
	flag.Uint64Var(&f.Seed, "seed", 1, "PRNG seed")
	flag.IntVar(&f.N, "n", 1000, "number of random cases")
	flag.StringVar(&f.Out, "out", ".", "output directory")
	flag.StringVar(&f.Tier, "tier", "quick", "quick|thorough")
	flag.StringVar(&f.Replay, "replay", "", "replay one case line (driver-protocol line)")
	flag.Parse()
	return f
}

// Out collects the three streams of a differential run.
//   cases.txt  one driver-protocol line per case (input to gopdriver)
//   impl.txt   the implementation's canonical output for the same case (same line count)
//   oracle.txt property-predicate failures observed on the implementation:
//              key \t case-line \t detail
//   stats.json input distribution counters + sample cases
type Out struct {
	dir     string
	cases   *bufio.Writer
	impl    *bufio.Writer
	oracle  *bufio.Writer
	fc, fi  *os.File
	fo      *os.File
	Stats   map[string]int
	Samples []string
	seen    map[string]struct{}
	N       int
	Distinct int
}

func NewOut(dir string) *Out {
	os.MkdirAll(dir, 0o755)
	o := &Out{dir: dir, Stats: map[string]int{}, seen: map[string]struct{}{}, Samples: []string{}}
	var err error
	if o.fc, err = os.Create(filepath.Join(dir, "cases.txt")); err != nil {
		panic(err)
	}
	if o.fi, err = os.Create(filepath.Join(dir, "impl.txt")); err != nil {
		panic(err)
	}
	if o.fo, err = os.Create(filepath.Join(dir, "oracle.txt")); err != nil {
		panic(err)
	}
	o.cases, o.impl, o.oracle = bufio.NewWriter(o.fc), bufio.NewWriter(o.fi), bufio.NewWriter(o.fo)
	return o
}

func clean(s string) string {
	s = strings.ReplaceAll(s, "\n", "\\n")
	return strings.ReplaceAll(s, "\r", "\\r")
}

// Case records one case line and the implementation's output; nontrivial says whether
// the case counts as non-trivial by the command's stated rule. Returns false if the
// case line was already seen (duplicate: still emitted, not counted as distinct).
func (o *Out) Case(caseLine, implOut string, nontrivial bool) bool {
	caseLine, implOut = clean(caseLine), clean(implOut)
	fmt.Fprintln(o.cases, caseLine)
	fmt.Fprintln(o.impl, implOut)
	o.N++
	if _, dup := o.seen[caseLine]; dup {
		return false
	}
	o.seen[caseLine] = struct{}{}
	if nontrivial {
		o.Distinct++
		if len(o.Samples) < 5 || (len(o.Samples) < 12 && o.N%97 == 0) {
			o.Samples = append(o.Samples, caseLine+" => "+implOut)
		}
	}
	return true
}

// Oracle records a failure of the property's own predicate on the implementation.
func (o *Out) Oracle(key, caseLine, detail string) {
	fmt.Fprintf(o.oracle, "%s\t%s\t%s\n", clean(key), strings.ReplaceAll(clean(caseLine), "\t", " "), clean(detail))
	o.Stats["oracle_fail"]++
}

func (o *Out) Count(k string) { o.Stats[k]++ }

func (o *Out) Close() {
	o.cases.Flush()
	o.impl.Flush()
	o.oracle.Flush()
	o.fc.Close()
	o.fi.Close()
	o.fo.Close()
	keys := make([]string, 0, len(o.Stats))
	for k := range o.Stats {
		keys = append(keys, k)
	}
	sort.Strings(keys)
	st := map[string]interface{}{
		"evaluations":         o.N,
		"distinct_nontrivial": o.Distinct,
		"distribution":        o.Stats,
		"samples":             o.Samples,
	}
	b, _ := json.MarshalIndent(st, "", " ")
	os.WriteFile(filepath.Join(o.dir, "stats.json"), b, 0o644)
}
