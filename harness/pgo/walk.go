package pgo

import (
	"reflect"

	xast "github.com/goplus/xgo/ast"
)

var (
	xObjType = reflect.TypeOf((*xast.Object)(nil))
	xScpType = reflect.TypeOf((*xast.Scope)(nil))
)

// WalkNodes visits every pointer-to-struct reachable from v through exported fields,
// slices and interfaces (own reflection-based traversal of XGo trees: ast.Walk is not
// trusted to have a case for every node kind).  Objects and scopes are not entered
// (they point back into the tree).
func WalkNodes(v reflect.Value, fn func(n interface{})) {
	walkNodes(v, map[uintptr]bool{}, fn, 0)
}

func walkNodes(v reflect.Value, seen map[uintptr]bool, fn func(n interface{}), depth int) {
	switch v.Kind() {
	case reflect.Interface:
		if !v.IsNil() {
			walkNodes(v.Elem(), seen, fn, depth)
		}
	case reflect.Ptr:
		if v.IsNil() || v.Type() == xObjType || v.Type() == xScpType {
			return
		}
		if seen[v.Pointer()] {
			return
		}
		seen[v.Pointer()] = true
		if v.Elem().Kind() == reflect.Struct {
			fn(v.Interface())
			walkNodes(v.Elem(), seen, fn, depth+1)
		}
	case reflect.Struct:
		for i := 0; i < v.NumField(); i++ {
			if v.Type().Field(i).IsExported() {
				walkNodes(v.Field(i), seen, fn, depth)
			}
		}
	case reflect.Slice:
		for i := 0; i < v.Len(); i++ {
			walkNodes(v.Index(i), seen, fn, depth)
		}
	}
}
