// Package pgo: helpers shared by the parser checks C13 and C14 (builder "parsergo"):
// corpus collection, token lists from the REAL XGo scanner, names of token kinds as used
// by the Lean models (Model/ParserErr.lean, Model/CmdAmbig.lean).
package pgo

import (
	"io/fs"
	"os"
	"path/filepath"
	"sort"
	"strconv"

	xscanner "github.com/goplus/xgo/scanner"
	xtoken "github.com/goplus/xgo/token"
)

// Repo is the tree under test.
func Repo() string {
	if r := os.Getenv("VERIF_REPO"); r != "" {
		return r
	}
	return "/repo"
}

// File is one corpus file.
type File struct {
	Path string
	Src  []byte
}

// Collect returns the files below root whose extension is in exts (sorted by path),
// skipping .git and files larger than maxSize.  skipDir may veto directories.
func Collect(root string, exts map[string]bool, maxSize int64, skipDir func(name string) bool) []File {
	if r, err := filepath.EvalSymlinks(root); err == nil {
		root = r
	}
	var out []File
	filepath.WalkDir(root, func(p string, d fs.DirEntry, err error) error {
		if err != nil {
			return nil
		}
		if d.IsDir() {
			n := d.Name()
			if n == ".git" || (skipDir != nil && p != root && skipDir(n)) {
				return filepath.SkipDir
			}
			if p != root {
				// a nested checkout / git worktree (scratch copy of the tree) is not part of the corpus
				if _, err := os.Lstat(filepath.Join(p, ".git")); err == nil {
					return filepath.SkipDir
				}
			}
			return nil
		}
		if !exts[filepath.Ext(p)] {
			return nil
		}
		if fi, err := d.Info(); err != nil || fi.Size() > maxSize || !fi.Mode().IsRegular() {
			return nil
		}
		b, err := os.ReadFile(p)
		if err != nil {
			return nil
		}
		out = append(out, File{Path: p, Src: b})
		return nil
	})
	sort.Slice(out, func(i, j int) bool { return out[i].Path < out[j].Path })
	return out
}

// GoRoot returns GOROOT/src of the toolchain running the harness ("" if unknown).
func GoRootSrc() string {
	for _, c := range []string{os.Getenv("GOROOT"), "/usr/lib/go-1.23", "/usr/local/go"} {
		if c == "" {
			continue
		}
		if st, err := os.Stat(filepath.Join(c, "src", "go", "parser")); err == nil && st.IsDir() {
			return filepath.Join(c, "src")
		}
	}
	return ""
}

// Tok is one token of the real XGo scanner (comments are never included: parser.next skips them).
type Tok struct {
	Kind xtoken.Token
	Pos  int // offset of first byte
	End  int // offset after the token's text (== Pos for automatically inserted semicolons and EOF)
	Lit  string
}

// Scan tokenises src with the real scanner (mode 0).  The list ends with EOF.  ok is false
// if the scanner reported an error or panicked (callers then do not use the list).
func Scan(src []byte) (toks []Tok, ok bool) {
	ok = true
	defer func() {
		if e := recover(); e != nil {
			ok = false
		}
	}()
	fset := xtoken.NewFileSet()
	f := fset.AddFile("", -1, len(src))
	var s xscanner.Scanner
	s.Init(f, src, func(xtoken.Position, string) { ok = false }, 0)
	for i := 0; i < len(src)+2; i++ {
		pos, tok, lit := s.Scan()
		off := f.Offset(pos)
		end := off
		switch {
		case tok == xtoken.EOF:
		case tok == xtoken.SEMICOLON:
			if lit == ";" {
				end = off + 1
			}
		case lit != "":
			end = off + len(lit)
			if tok == xtoken.CSTRING { // lit is the quoted part; the text has the c prefix
				end = off + 1 + len(lit)
			} else if tok == xtoken.PYSTRING {
				end = off + 2 + len(lit)
			}
		default:
			end = off + len(tok.String())
		}
		toks = append(toks, Tok{tok, off, end, lit})
		if tok == xtoken.EOF {
			return
		}
	}
	ok = false
	return
}

var kindNames = map[xtoken.Token]string{
	xtoken.ILLEGAL: "ILLEGAL", xtoken.EOF: "EOF", xtoken.COMMENT: "COMMENT",
	xtoken.IDENT: "IDENT", xtoken.INT: "INT", xtoken.FLOAT: "FLOAT", xtoken.IMAG: "IMAG", xtoken.CHAR: "CHAR",
	xtoken.STRING: "STRING", xtoken.CSTRING: "CSTRING", xtoken.PYSTRING: "PYSTRING", xtoken.RAT: "RAT",
	xtoken.ADD: "ADD", xtoken.SUB: "SUB", xtoken.MUL: "MUL", xtoken.QUO: "QUO", xtoken.REM: "REM",
	xtoken.AND: "AND", xtoken.OR: "OR", xtoken.XOR: "XOR", xtoken.SHL: "SHL", xtoken.SHR: "SHR", xtoken.AND_NOT: "AND_NOT",
	xtoken.LAND: "LAND", xtoken.LOR: "LOR", xtoken.ARROW: "ARROW", xtoken.INC: "INC", xtoken.DEC: "DEC",
	xtoken.EQL: "EQL", xtoken.LSS: "LSS", xtoken.GTR: "GTR", xtoken.ASSIGN: "ASSIGN", xtoken.NOT: "NOT",
	xtoken.NEQ: "NEQ", xtoken.LEQ: "LEQ", xtoken.GEQ: "GEQ", xtoken.DEFINE: "DEFINE", xtoken.ELLIPSIS: "ELLIPSIS",
	xtoken.LPAREN: "LPAREN", xtoken.LBRACK: "LBRACK", xtoken.LBRACE: "LBRACE", xtoken.COMMA: "COMMA", xtoken.PERIOD: "PERIOD",
	xtoken.RPAREN: "RPAREN", xtoken.RBRACK: "RBRACK", xtoken.RBRACE: "RBRACE", xtoken.SEMICOLON: "SEMICOLON", xtoken.COLON: "COLON",
	xtoken.QUESTION: "QUESTION", xtoken.DRARROW: "DRARROW", xtoken.ENV: "ENV", xtoken.UNIT: "UNIT",
	xtoken.SRARROW: "SRARROW", xtoken.BIDIARROW: "BIDIARROW", xtoken.TILDE: "TILDE",
	xtoken.BREAK: "BREAK", xtoken.CASE: "CASE", xtoken.CHAN: "CHAN", xtoken.CONST: "CONST", xtoken.CONTINUE: "CONTINUE",
	xtoken.DEFAULT: "DEFAULT", xtoken.DEFER: "DEFER", xtoken.ELSE: "ELSE", xtoken.FALLTHROUGH: "FALLTHROUGH", xtoken.FOR: "FOR",
	xtoken.FUNC: "FUNC", xtoken.GO: "GO", xtoken.GOTO: "GOTO", xtoken.IF: "IF", xtoken.IMPORT: "IMPORT",
	xtoken.INTERFACE: "INTERFACE", xtoken.MAP: "MAP", xtoken.PACKAGE: "PACKAGE", xtoken.RANGE: "RANGE", xtoken.RETURN: "RETURN",
	xtoken.SELECT: "SELECT", xtoken.STRUCT: "STRUCT", xtoken.SWITCH: "SWITCH", xtoken.TYPE: "TYPE", xtoken.VAR: "VAR",
}

// KindName is the Go constant name of the token kind (the vocabulary shared with the Lean
// models and with the translator, which reads the same names off parser.go).
func KindName(t xtoken.Token) string {
	if s, ok := kindNames[t]; ok {
		return s
	}
	return "T" + strconv.Itoa(int(t))
}

// ScanAll is like Scan but keeps going over scanner errors (nerr counts them); ok is false
// only if the scanner panicked or did not reach EOF.
func ScanAll(src []byte) (toks []Tok, nerr int, ok bool) {
	ok = true
	defer func() {
		if e := recover(); e != nil {
			ok = false
		}
	}()
	fset := xtoken.NewFileSet()
	f := fset.AddFile("", -1, len(src))
	var s xscanner.Scanner
	s.Init(f, src, func(xtoken.Position, string) { nerr++ }, 0)
	for i := 0; i < len(src)+2; i++ {
		pos, tok, lit := s.Scan()
		off := f.Offset(pos)
		toks = append(toks, Tok{tok, off, off + len(lit), lit})
		if tok == xtoken.EOF {
			return
		}
	}
	ok = false
	return
}
