// Package xrun: compile XGo source with the real compiler (in-process, offline) and build/run
// batches of Go main programs, for the compiler-level properties (C01–C11, C25).
package xrun

import (
	"bytes"
	"context"
	"fmt"
	"io"
	"os"
	"os/exec"
	"path/filepath"
	"regexp"
	"sort"
	"strings"
	"sync"
	"time"

	"github.com/goplus/gogen/packages"
	"github.com/goplus/xgo/cl"
	"github.com/goplus/xgo/token"
	"github.com/goplus/xgo/parser/fsx/memfs"
	"github.com/goplus/xgo/x/build"
)

// Repo is the tree under test.
func Repo() string {
	if r := os.Getenv("VERIF_REPO"); r != "" {
		return r
	}
	return "/repo"
}

var (
	impOnce sync.Once
	impFset *token.FileSet
	imp     *packages.Importer
	impMu   sync.Mutex
)

// newCtx returns a build context sharing one importer (and file set) across all compiles of
// the process: imported packages are loaded once (go list -export is slow).
// Compiles are serialised by the callers (the importer cache is not documented as thread-safe).
func newCtx(fileLine bool) *build.Context {
	impOnce.Do(func() {
		impFset = token.NewFileSet()
		// run `go list` from the tree under test (a module), not from the process cwd, and
		// fill an export-data cache with ONE `go list -export -deps` (builder compC's finding:
		// otherwise every compile re-runs go list for missing optional packages, 8-20 s each)
		imp = packages.NewImporter(impFset, Repo())
		c := &expCache{dir: Repo(), m: map[string]string{}, fail: map[string]string{}}
		if out, err := c.list(append([]string{"-deps"}, warmPkgs...)...); err == nil {
			c.add(out)
		}
		imp.SetCache(c)
	})
	ctx := build.NewContext(imp, impFset)
	ctx.LoadConfig = func(c *cl.Config) { c.NoFileLine = !fileLine; c.RelativeBase = "/" }
	return ctx
}

type expCache struct {
	mu   sync.Mutex
	dir  string
	m    map[string]string // import path -> export file
	fail map[string]string
}

var warmPkgs = []string{
	"fmt", "os", "reflect", "strconv", "strings", "errors", "sort", "time", "math", "bytes", "io", "sync",
	"github.com/qiniu/x/osx", "github.com/qiniu/x/xgo", "github.com/qiniu/x/xgo/ng",
	"github.com/qiniu/x/stringutil", "github.com/qiniu/x/stringslice", "github.com/qiniu/x/errors",
}

func (c *expCache) list(args ...string) ([]byte, error) {
	cmd := exec.Command("go", append([]string{"list", "-e", "-export", "-f", "{{.ImportPath}}\t{{.Export}}"}, args...)...)
	cmd.Dir = c.dir
	cmd.Env = append(os.Environ(), "GOFLAGS=-mod=mod", "GOPROXY=off", "GOSUMDB=off", "GOTOOLCHAIN=local", "CGO_ENABLED=0")
	var so, se bytes.Buffer
	cmd.Stdout, cmd.Stderr = &so, &se
	err := cmd.Run()
	if err != nil && so.Len() == 0 {
		return nil, fmt.Errorf("%s", strings.TrimSpace(se.String()))
	}
	return so.Bytes(), nil
}

func (c *expCache) add(out []byte) {
	for _, line := range strings.Split(string(out), "\n") {
		p := strings.SplitN(line, "\t", 2)
		if len(p) == 2 && p[1] != "" {
			c.m[p[0]] = p[1]
		}
	}
}

// Find implements packages.Cache.
func (c *expCache) Find(dir, pkgPath string) (io.ReadCloser, error) {
	c.mu.Lock()
	defer c.mu.Unlock()
	if f, ok := c.m[pkgPath]; ok {
		return os.Open(f)
	}
	if e, ok := c.fail[pkgPath]; ok {
		return nil, fmt.Errorf("%s", e)
	}
	out, err := c.list("-deps", pkgPath)
	if err == nil {
		c.add(out)
		if f, ok := c.m[pkgPath]; ok {
			return os.Open(f)
		}
		err = fmt.Errorf("no export data for %s", pkgPath)
	}
	c.fail[pkgPath] = err.Error()
	return nil, err
}

// CompileFile compiles one XGo source file (name decides the kind: .xgo, .gox, .go …) to Go
// source with the real compiler. A panic escaping the build helper is reported as err "PANIC: …".
func CompileFile(name, src string, fileLine bool) (out []byte, err error) {
	impMu.Lock()
	defer impMu.Unlock()
	defer func() {
		if r := recover(); r != nil {
			err = fmt.Errorf("PANIC: %v", r)
		}
	}()
	ctx := newCtx(fileLine)
	return ctx.BuildFile("/"+name, src)
}

// CompileDir compiles a package given as file name → content.
func CompileDir(files map[string]string, fileLine bool) (out []byte, err error) {
	impMu.Lock()
	defer impMu.Unlock()
	defer func() {
		if r := recover(); r != nil {
			err = fmt.Errorf("PANIC: %v", r)
		}
	}()
	names := make([]string, 0, len(files))
	fmap := map[string]string{}
	for n, d := range files {
		names = append(names, n)
		fmap["/pkg/"+n] = d
	}
	sort.Strings(names)
	mfs := memfs.New(map[string][]string{"/pkg": names}, fmap)
	ctx := newCtx(fileLine)
	return ctx.BuildFSDir(mfs, "/pkg")
}

// Result of running one program.
type Result struct {
	BuildErr string // non-empty: go build failed (first lines)
	Stdout   string
	Exit     int
	Panic    string // panic value line ("panic: …") if the program panicked
	Timeout  bool
}

func (r Result) String() string {
	if r.BuildErr != "" {
		return "BUILDERR " + firstLine(r.BuildErr)
	}
	if r.Timeout {
		return "TIMEOUT"
	}
	return fmt.Sprintf("exit=%d panic=%q stdout=%q", r.Exit, r.Panic, r.Stdout)
}

func firstLine(s string) string {
	if i := strings.IndexByte(s, '\n'); i >= 0 {
		return s[:i]
	}
	return s
}

var goroutineRe = regexp.MustCompile(`(?s)\n\ngoroutine \d+ \[.*`)
var panicAddr = regexp.MustCompile(`0x[0-9a-f]+`)

// RunBatch writes every program (a complete Go main package source) into its own directory of
// a scratch module under dir, builds them all with one `go build`, and runs each with a timeout.
// The module resolves github.com/goplus/xgo to the tree under test and everything else from
// the module cache (offline).
func RunBatch(dir string, progs [][]byte, timeout time.Duration) ([]Result, error) {
	os.MkdirAll(dir, 0o755)
	gomod := fmt.Sprintf("module verifprog\n\ngo 1.18\n\nrequire github.com/goplus/xgo v0.0.0\n\nreplace github.com/goplus/xgo => %s\n", Repo())
	if err := os.WriteFile(filepath.Join(dir, "go.mod"), []byte(gomod), 0o644); err != nil {
		return nil, err
	}
	sum, _ := os.ReadFile(filepath.Join(Repo(), "go.sum"))
	os.WriteFile(filepath.Join(dir, "go.sum"), sum, 0o644)
	for i, p := range progs {
		d := filepath.Join(dir, fmt.Sprintf("p%05d", i))
		os.MkdirAll(d, 0o755)
		if err := os.WriteFile(filepath.Join(d, "main.go"), p, 0o644); err != nil {
			return nil, err
		}
	}
	bin := filepath.Join(dir, "bin")
	os.MkdirAll(bin, 0o755)
	env := append(os.Environ(), "GOFLAGS=-mod=mod", "GOPROXY=off", "GOSUMDB=off", "GOTOOLCHAIN=local", "CGO_ENABLED=0")
	res := make([]Result, len(progs))
	// build all at once; on failure fall back to per-package builds to attribute errors
	cmd := exec.Command("go", "build", "-o", bin+"/", "./...")
	cmd.Dir, cmd.Env = dir, env
	if out, err := cmd.CombinedOutput(); err != nil {
		var wg sync.WaitGroup
		sem := make(chan struct{}, 8)
		for i := range progs {
			wg.Add(1)
			go func(i int) {
				defer wg.Done()
				sem <- struct{}{}
				defer func() { <-sem }()
				name := fmt.Sprintf("p%05d", i)
				c := exec.Command("go", "build", "-o", filepath.Join(bin, name), "./"+name)
				c.Dir, c.Env = dir, env
				if o, e := c.CombinedOutput(); e != nil {
					res[i].BuildErr = strings.TrimSpace(string(o))
					if res[i].BuildErr == "" {
						res[i].BuildErr = e.Error()
					}
				}
			}(i)
		}
		wg.Wait()
		_ = out
	}
	var wg sync.WaitGroup
	sem := make(chan struct{}, 12)
	for i := range progs {
		if res[i].BuildErr != "" {
			continue
		}
		wg.Add(1)
		go func(i int) {
			defer wg.Done()
			sem <- struct{}{}
			defer func() { <-sem }()
			res[i] = runOne(filepath.Join(bin, fmt.Sprintf("p%05d", i)), timeout)
		}(i)
	}
	wg.Wait()
	return res, nil
}

func runOne(exe string, timeout time.Duration) Result {
	ctx, cancel := context.WithTimeout(context.Background(), timeout)
	defer cancel()
	c := exec.CommandContext(ctx, exe)
	var so, se bytes.Buffer
	c.Stdout, c.Stderr = &so, &se
	c.Env = append(os.Environ(), "GOTRACEBACK=single", "GOMEMLIMIT=512MiB")
	err := c.Run()
	r := Result{Stdout: so.String()}
	if ctx.Err() == context.DeadlineExceeded {
		r.Timeout = true
		return r
	}
	if err != nil {
		if ee, ok := err.(*exec.ExitError); ok {
			r.Exit = ee.ExitCode()
		} else {
			r.Exit = -1
		}
	}
	stderr := se.String()
	if i := strings.Index(stderr, "panic: "); i >= 0 {
		p := stderr[i:]
		p = goroutineRe.ReplaceAllString(p, "")
		if j := strings.Index(p, "\ngoroutine "); j >= 0 {
			p = p[:j]
		}
		r.Panic = panicAddr.ReplaceAllString(strings.TrimSpace(p), "0x?")
	} else if i := strings.Index(stderr, "fatal error: "); i >= 0 {
		r.Panic = firstLine(stderr[i:])
	}
	return r
}
