package tplm

import (
	"strings"

	"verifharness/vh"
)

// GenConf tunes the grammar generator.
type GenConf struct {
	MaxRules   int
	MaxDepth   int
	Nullable   int // percent: chance that a repetition body is made nullable on purpose
	LeftRef    int // percent: chance that a sequence starts with a rule reference
	Procs      int // percent: chance that a rule gets a return procedure
	SpaceAdj   int // percent: weight of SPACE / ++ constructs
}

var (
	classes  = []string{"IDENT", "INT", "FLOAT", "CHAR", "STRING", "LPAREN", "RPAREN"}
	ops      = []string{"+", "-", "*", "/", ",", ";", "(", ")", "=", "++", "+=", ":", "."}
	chrs     = []string{"+", "-", ",", ";", "("}
	keywords = []string{"a", "b", "if", "x"}
)

type gen struct {
	r     *vh.Rand
	conf  GenConf
	names []string
}

func (g *gen) leaf() *Node {
	switch k := g.r.Intn(100); {
	case k < 27:
		return &Node{Kind: "class", S: g.r.Pick(classes)}
	case k < 49:
		return &Node{Kind: "op", S: g.r.Pick(ops)}
	case k < 55:
		return &Node{Kind: "chr", S: g.r.Pick(chrs)}
	case k < 73:
		return &Node{Kind: "kw", S: g.r.Pick(keywords)}
	case k < 77:
		return &Node{Kind: "qstr"}
	case k < 81:
		return &Node{Kind: "rawstr"}
	case k < 84:
		return &Node{Kind: "true"}
	case k < 84+g.conf.SpaceAdj/6:
		return &Node{Kind: "space"}
	}
	return &Node{Kind: "ref", S: g.r.Pick(g.names)}
}

func (g *gen) nullable(d int) *Node {
	switch g.r.Intn(5) {
	case 0:
		return &Node{Kind: "opt", Kids: []*Node{g.expr(d + 1)}}
	case 1:
		return &Node{Kind: "star", Kids: []*Node{g.expr(d + 1)}}
	case 2:
		return &Node{Kind: "true"}
	case 3:
		return &Node{Kind: "space"}
	}
	return &Node{Kind: "seq", Kids: []*Node{{Kind: "opt", Kids: []*Node{g.leaf()}}, {Kind: "opt", Kids: []*Node{g.leaf()}}}}
}

func (g *gen) expr(d int) *Node {
	if d >= g.conf.MaxDepth || g.r.Chance(30) {
		return g.leaf()
	}
	switch k := g.r.Intn(100); {
	case k < 28:
		n := 2 + g.r.Intn(3)
		kids := make([]*Node, n)
		for i := range kids {
			kids[i] = g.expr(d + 1)
		}
		if g.r.Chance(g.conf.LeftRef) {
			kids[0] = &Node{Kind: "ref", S: g.r.Pick(g.names)}
			if g.r.Chance(50) {
				kids[0] = &Node{Kind: "opt", Kids: []*Node{g.leaf()}}
				kids[1] = &Node{Kind: "ref", S: g.r.Pick(g.names)}
			}
		}
		return &Node{Kind: "seq", Kids: kids}
	case k < 50:
		n := 2 + g.r.Intn(3)
		kids := make([]*Node, n)
		for i := range kids {
			kids[i] = g.expr(d + 1)
		}
		return &Node{Kind: "alt", Kids: kids}
	case k < 62:
		body := g.expr(d + 1)
		if g.r.Chance(g.conf.Nullable) {
			body = g.nullable(d)
		}
		return &Node{Kind: "star", Kids: []*Node{body}}
	case k < 70:
		body := g.expr(d + 1)
		if g.r.Chance(g.conf.Nullable) {
			body = g.nullable(d)
		}
		return &Node{Kind: "plus", Kids: []*Node{body}}
	case k < 80:
		return &Node{Kind: "opt", Kids: []*Node{g.expr(d + 1)}}
	case k < 92:
		a, b := g.expr(d+1), g.expr(d+1)
		if g.r.Chance(g.conf.Nullable) {
			a, b = g.nullable(d), g.nullable(d)
		}
		return &Node{Kind: "list", Kids: []*Node{a, b}}
	case k < 92+g.conf.SpaceAdj/3:
		return &Node{Kind: "adj", Kids: []*Node{g.expr(d + 1), g.expr(d + 1)}}
	}
	return g.leaf()
}

// GenGrammar draws a grammar.
func GenGrammar(r *vh.Rand, conf GenConf) *Grammar {
	g := &gen{r: r, conf: conf}
	n := 1 + r.Intn(conf.MaxRules)
	all := []string{"doc", "r1", "r2", "r3", "r4"}
	g.names = all[:n]
	gr := &Grammar{}
	for i := 0; i < n; i++ {
		ru := &Rule{Name: g.names[i], Body: g.expr(0)}
		if r.Chance(conf.Procs) {
			switch r.Intn(3) {
			case 0:
				ru.Proc = "w" + string(rune('1'+r.Intn(8)))
			case 1:
				ru.Proc = "k" + string(rune('1'+r.Intn(8)))
			default:
				ru.Proc = "f"
			}
		}
		gr.Rules = append(gr.Rules, ru)
	}
	return gr
}

// ---------------------------------------------------------------------------
// inputs: random derivations of the grammar, then near-miss edits

var classText = map[string][]string{
	"IDENT": {"a", "b", "x", "if", "foo", "données", "日本語", "é"}, "INT": {"1", "42", "0"}, "FLOAT": {"1.5", "2.0"},
	"CHAR": {"'c'", "'+'", "'é'", "'世'"}, "STRING": {`"s"`, "`r`", `"é"`, "`日本`", `"naïve s"`}, "LPAREN": {"("}, "RPAREN": {")"},
	"LBRACK": {"["}, "RBRACK": {"]"}, "IMAG": {"2i"}, "RAT": {"3r"},
}

var soup = []string{"a", "b", "x", "if", "1", "42", "1.5", "'c'", `"s"`, "`r`", "+", "-", "*", "/", ",", ";", "(", ")",
	"=", "++", "+=", ":", ".", "foo", "\n", "données", "日本語", `"é"`, "'é'", "`日本`", "é"}

const glue = "\x00" // "no blank before the next token"

type deriver struct {
	r     *vh.Rand
	g     *Grammar
	steps int
}

func (d *deriver) rule(name string) *Node {
	for _, r := range d.g.Rules {
		if r.Name == name {
			return r.Body
		}
	}
	return nil
}

func (d *deriver) derive(n *Node, depth int, out *[]string) {
	d.steps++
	if d.steps > 120 {
		return
	}
	switch n.Kind {
	case "class":
		*out = append(*out, d.r.Pick(classText[n.S]))
	case "qstr":
		*out = append(*out, d.r.Pick([]string{`"q"`, `"é"`, `"日本"`}))
	case "rawstr":
		*out = append(*out, d.r.Pick([]string{"`w`", "`é`", "`données`"}))
	case "op", "chr", "kw":
		*out = append(*out, n.S)
	case "true", "space":
	case "seq":
		for _, k := range n.Kids {
			d.derive(k, depth+1, out)
		}
	case "alt":
		d.derive(n.Kids[d.r.Intn(len(n.Kids))], depth+1, out)
	case "star", "plus":
		k := d.r.Intn(4)
		if n.Kind == "plus" {
			k++
		}
		for i := 0; i < k; i++ {
			d.derive(n.Kids[0], depth+1, out)
		}
	case "opt":
		if d.r.Bool() {
			d.derive(n.Kids[0], depth+1, out)
		}
	case "list":
		d.derive(n.Kids[0], depth+1, out)
		for k := d.r.Intn(3); k > 0; k-- {
			d.derive(n.Kids[1], depth+1, out)
			d.derive(n.Kids[0], depth+1, out)
		}
	case "adj":
		d.derive(n.Kids[0], depth+1, out)
		if d.r.Chance(70) { // otherwise the two sides are (probably) separated by a blank
			*out = append(*out, glue)
		}
		d.derive(n.Kids[1], depth+1, out)
	case "ref":
		if depth < 8 {
			if b := d.rule(n.S); b != nil {
				d.derive(b, depth+1, out)
			}
		}
	}
}

// GenInput derives a sentence of the grammar and (often) damages it slightly; at most
// maxWords words (matching has no memoisation: recursive grammars take time exponential in
// the input length, in the real code and in the model alike).
func GenInput(r *vh.Rand, g *Grammar, maxWords int) string {
	var ws []string
	if r.Chance(88) {
		d := &deriver{r: r, g: g}
		d.derive(g.Rules[0].Body, 0, &ws)
		if len(ws) > maxWords {
			ws = ws[:maxWords]
		}
	} else {
		for k := r.Intn(8); k > 0; k-- {
			ws = append(ws, r.Pick(soup))
		}
	}
	if r.Chance(45) && len(ws) > 0 {
		for k := 1 + r.Intn(2); k > 0; k-- {
			i := r.Intn(len(ws))
			switch r.Intn(5) {
			case 0: // drop
				ws = append(ws[:i:i], ws[i+1:]...)
			case 1: // duplicate
				ws = append(ws[:i+1:i+1], ws[i:]...)
			case 2: // replace
				ws[i] = r.Pick(soup)
			case 3: // insert
				ws = append(ws[:i:i], append([]string{r.Pick(soup)}, ws[i:]...)...)
			case 4: // glue toggles
				ws = append(ws[:i:i], append([]string{glue}, ws[i:]...)...)
			}
			if len(ws) == 0 {
				break
			}
		}
	}
	if r.Chance(25) {
		ws = append(ws, r.Pick(soup))
	}
	var b strings.Builder
	noBlank := true
	for _, w := range ws {
		if w == glue {
			noBlank = true
			continue
		}
		if !noBlank {
			switch k := r.Intn(100); {
			case k < 78:
				b.WriteByte(' ')
			case k < 84:
				b.WriteString("/*é*/") // a comment between tokens (multi-byte, no blank)
			case k < 87:
				b.WriteString(" /* c */ ")
			}
		} else if w != "" && b.Len() > 0 && r.Chance(6) {
			b.WriteString("/*é*/") // a comment at a junction: the tokens no longer touch
		}
		b.WriteString(w)
		noBlank = false
	}
	return b.String()
}
