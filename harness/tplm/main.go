package tplm

import (
	"flag"
	"fmt"
	"os"
	"path/filepath"
	"regexp"
	"strings"
	"time"

	"verifharness/vh"
)

// corpus: fixed (grammar, inputs) pairs run before the random ones.
type corpusItem struct {
	text   string
	inputs []string
}

var corpusC29 = []corpusItem{
	{"doc = INT % \",\"\n", []string{"1, 2, 3", "1,2,", "", "1 2", ", 1"}},
	{"doc = IDENT ++ RAWSTRING\n", []string{"tpl`x`", "tpl `x`", "tpl\"x\"", "tpl/* c */`x`", "données`x`", "日本語`é`", "é `x`", "données/*é*/`x`"}},
	{"doc = STRING ++ IDENT\n", []string{"\"é\"x", "\"é\" x", "`日本`données", "\"s\"x"}},
	{"doc = CHAR ++ IDENT ++ INT\n", []string{"'é'x1", "'é'é1", "'c'x 1", "'世' x1"}},
	{"doc = +(IDENT SPACE IDENT)\n", []string{"é a", "éa", "données 日本語", "a/*é*/b"}},
	{"doc = *\"a\" \"a\"\n", []string{"a a", "a", "a a a b"}},
	{"doc = (\"a\" INT | \"a\") \"b\"\n", []string{"a b", "a 1 b", "a a"}},
	{"doc = \"if\" | IDENT\n", []string{"if", "x", "1"}},
	{"doc = IDENT | \"if\"\n", []string{"if", "x"}},
	{"expr = operand % (\"*\" | \"/\") % (\"+\" | \"-\")\noperand = basicLit | unaryExpr\nunaryExpr = \"-\" operand\nbasicLit = INT | FLOAT\n",
		[]string{"1 + 2 * -3", "1 +", "- - 4 / 2", "1 2", "(1)", "1 * 2 * 3 - 4 - 5"}},
	{"doc = +(IDENT SPACE INT)\n", []string{"a 1 b 2", "a1", "a 1b 2", "a 1 b2"}},
	{"doc = ?\"a\" ?\"b\" STRING\n", []string{"a \"s\"", "b `r`", "a b 'c'", "\"s\""}},
	{"doc = QSTRING | RAWSTRING | CHAR\n", []string{"\"s\"", "`r`", "'c'", "x"}},
	{"doc = \"(\" doc \")\" | INT\n", []string{"((1))", "((1)", "()", "1)"}},
	{"doc = *(stmt \";\")\nstmt = IDENT \"=\" INT | \"if\" IDENT\n", []string{"a = 1; if b;", "a = 1\nif b\n", "a = ; if", "if if;"}},
}

// constructors for corpus grammars given as generator trees
func nd(kind, s string, kids ...*Node) *Node { return &Node{Kind: kind, S: s, Kids: kids} }
func kw(s string) *Node                      { return nd("kw", s) }
func ref(s string) *Node                     { return nd("ref", s) }
func seq(k ...*Node) *Node                   { return nd("seq", "", k...) }
func alt(k ...*Node) *Node                   { return nd("alt", "", k...) }
func star(k *Node) *Node                     { return nd("star", "", k) }
func plus(k *Node) *Node                     { return nd("plus", "", k) }
func opt(k *Node) *Node                      { return nd("opt", "", k) }
func gr(rules ...*Rule) *Grammar             { return &Grammar{Rules: rules} }
func ru(name string, body *Node) *Rule       { return &Rule{Name: name, Body: body} }

type corpusTree struct {
	g      *Grammar
	inputs []string
}

// grammars that used to diverge (DESIGN §6) and relatives
var corpusC28 = []corpusTree{
	{gr(ru("doc", star(opt(kw("a"))))), []string{"b", "a a b", ""}},                            // doc = *?"a"
	{gr(ru("a", seq(ref("a"), kw("x")))), []string{"x", ""}},                                    // a = a "x"
	{gr(ru("doc", seq(kw("q"), ref("b"))), ru("b", seq(ref("b"), kw("x")))), []string{"q x"}}, // b = b "x"
	{gr(ru("doc", seq(kw("q"), ref("b"))), ru("b", seq(opt(kw("z")), ref("b"), kw("x")))), []string{"q x", "q z x"}},
	{gr(ru("doc", plus(opt(kw("a"))))), []string{"b", "a a"}},
	{gr(ru("doc", seq(kw("x"), star(nd("space", "")), kw("y")))), []string{"x y", "xy"}},
	{gr(ru("doc", star(nd("true", "")))), []string{"a", ""}},
	{gr(ru("doc", seq(star(star(kw("a"))), kw("b")))), []string{"a a b", "b"}},
	{gr(ru("doc", nd("list", "", opt(kw("a")), opt(nd("op", ","))))), []string{"a , a", "", "a a", ", ,"}},
	{gr(ru("doc", star(seq(opt(kw("a")), opt(kw("b")))))), []string{"a b b a c", ""}},
	{gr(ru("doc", alt(kw("x"), seq(ref("doc"), kw("y"))))), []string{"x"}},
	{gr(ru("doc", alt(ref("r1"), kw("z"))), ru("r1", seq(ref("r2"), kw("x"))), ru("r2", seq(ref("doc"), kw("y")))), []string{"z"}},
	{gr(ru("doc", seq(kw("a"), ref("r1"))), ru("r1", star(ref("r2"))), ru("r2", seq(opt(ref("r1")), opt(kw("b"))))), []string{"a b b", "a"}},
	{gr(ru("doc", seq(kw("a"), ref("r1"))), ru("r1", alt(seq(nd("true", ""), ref("r1")), kw("b")))), []string{"a b"}},
	{gr(ru("doc", star(alt(kw("a"), nd("true", ""))))), []string{"a a b", "b"}},
	{gr(ru("doc", plus(alt(nd("space", ""), kw("a"))))), []string{"a a", " a"}},
	{gr(ru("doc", star(alt(nd("adj", "", kw("a"), kw("b")), opt(kw("c")))))), []string{"a b c", "a b"}},
	{gr(ru("doc", seq(kw("a"), ref("r1"))), ru("r1", seq(star(kw("b")), ref("r1")))), []string{"a b b"}},
	{gr(ru("doc", seq(kw("a"), ref("r1"))), ru("r1", nd("adj", "", ref("r1"), kw("b")))), []string{"a b"}},
	{gr(ru("doc", seq(kw("a"), ref("r1"))), ru("r1", plus(ref("r1")))), []string{"a b"}},
}

var fixedInputs = []string{"1 + 2 * 3", "a = 1", "x", "", "if a { b }", "1, 2", "\"s\" `r`"}

var reRetProc = regexp.MustCompile(`(?s)=>\s*\{.*?\n\}`)

func repoCorpus() (items []corpusItem) {
	repo := os.Getenv("VERIF_REPO")
	if repo == "" {
		repo = "/repo"
	}
	files, _ := filepath.Glob(filepath.Join(repo, "tpl/parser/_testdata/*/in.xgo"))
	for _, f := range files {
		b, err := os.ReadFile(f)
		if err != nil {
			continue
		}
		items = append(items, corpusItem{string(b), fixedInputs})
	}
	return
}

type runner struct {
	o      *vh.Out
	pool   *Pool
	kind   string
	broken int
}

func countKinds(o *vh.Out, n *Node) {
	o.Count("node_" + n.Kind)
	for _, k := range n.Kids {
		countKinds(o, k)
	}
}

// failing reports whether the request installs a failing return procedure.
func failing(procs string) bool {
	for _, it := range strings.Split(procs, ",") {
		if kv := strings.SplitN(it, "=", 2); len(kv) == 2 && FailingProc(kv[1]) {
			return true
		}
	}
	return false
}

// oneFailing: grammars with return procedures that fail at run time (runtime errors are not
// in the model): harness-only termination oracle, no differential case.
func (rn *runner) oneFailing(req Req) {
	o := rn.o
	resp := rn.pool.Do(req)
	o.Count("failproc_cases")
	line := "tplm-failproc\t" + vh.HexS(req.Text) + "\t" + vh.HexS(req.Input) + "\t" + req.Procs
	if resp.Hang {
		o.Oracle("hang", line, "with failing return procedures ("+req.Procs+") Match/Parse/ParseExpr did not return within "+rn.pool.Timeout.String()+"; grammar: "+strings.ReplaceAll(req.Text, "\n", "; ")+" input: "+req.Input)
		o.Count("impl_hang")
	}
	if resp.Crash != "" {
		o.Oracle("stack-overflow", line, resp.Crash+" with failing return procedures ("+req.Procs+"); grammar: "+strings.ReplaceAll(req.Text, "\n", "; ")+" input: "+req.Input)
		o.Count("impl_crash")
	}
	if strings.Contains(resp.Impl, "| M ok") {
		o.Count("failproc_match_ok")
	} else if strings.Contains(resp.Impl, "| M fail") {
		o.Count("failproc_match_err")
	}
}

func (rn *runner) one(req Req) (recursive bool) {
	if failing(req.Procs) {
		rn.oneFailing(req)
		return false
	}
	o := rn.o
	resp := rn.pool.Do(req)
	if resp.Skip != "" && resp.CaseLine == "" {
		switch {
		case strings.HasPrefix(resp.Skip, "TIE:"):
			// the real matcher tree can no longer be serialised / does not correspond to the
			// generator: the tie is broken (reported through an unmatched case line)
			o.Count("tie_broken")
			if rn.broken < 3 {
				o.Case("tplm-tie\t"+vh.HexS(req.Text), "TIE-BROKEN "+resp.Skip, false)
			}
			rn.broken++
		case strings.HasPrefix(resp.Skip, "compile:"):
			o.Count("skip_compile_error")
			if os.Getenv("TPLM_DEBUG") != "" {
				fmt.Fprintln(os.Stderr, "SKIP", resp.Skip, "::", req.Text)
			}
		default:
			o.Count("skip_other")
			if os.Getenv("TPLM_DEBUG") != "" {
				fmt.Fprintln(os.Stderr, "SKIP", resp.Skip, "::", req.Text)
			}
			if resp.Hang || resp.Crash != "" {
				o.Oracle("compile-hang", "tplm-src\t"+vh.HexS(req.Text)+"\t"+vh.HexS(req.Input), resp.Skip)
			}
		}
		return false
	}
	if resp.Hang {
		o.Oracle("hang", resp.CaseLine, "Match/Parse/ParseExpr did not return within "+rn.pool.Timeout.String()+"; grammar: "+strings.ReplaceAll(req.Text, "\n", "; ")+" input: "+req.Input)
		o.Count("impl_hang")
	}
	if resp.Crash != "" {
		o.Oracle("stack-overflow", resp.CaseLine, resp.Crash+"; grammar: "+strings.ReplaceAll(req.Text, "\n", "; ")+" input: "+req.Input)
		o.Count("impl_crash")
	}
	for _, oc := range resp.Oracles {
		if rn.kind == "c28" && oc[0] != "panic" {
			continue // result-shape / extent oracles belong to C29
		}
		o.Oracle(oc[0], resp.CaseLine, oc[1]+"; grammar: "+strings.ReplaceAll(req.Text, "\n", "; ")+" input: "+req.Input)
	}
	switch {
	case strings.Contains(resp.Impl, "chk=rec:"):
		o.Count("compile_recursive")
		recursive = true
	case strings.Contains(resp.Impl, "| M ok"):
		o.Count("match_ok")
		if strings.Contains(resp.Impl, "| P ok") {
			o.Count("parse_ok")
		}
	case strings.Contains(resp.Impl, "| M fail"):
		o.Count("match_fail")
	}
	fs := strings.Split(resp.CaseLine, "\t")
	ntok := 0
	if len(fs) > 2 && fs[2] != "-" {
		ntok = strings.Count(fs[2], ",") + 1
	}
	switch {
	case ntok == 0:
		o.Count("toks_0")
	case ntok <= 3:
		o.Count("toks_1_3")
	case ntok <= 8:
		o.Count("toks_4_8")
	default:
		o.Count("toks_9plus")
	}
	o.Case(resp.CaseLine, resp.Impl, ntok >= 1)
	return
}

// exhaustive small-scope enumeration (thorough tier): every single-rule grammar
// `doc = x`, `doc = op x`, `doc = x OP y`, `doc = op (x OP y)` over a small alphabet of atoms,
// against every input of up to 3 words (blank-separated and glued).
func exhaustive(rn *runner, kind string) {
	atoms := []*Node{kw("a"), nd("class", "IDENT"), nd("class", "INT")}
	words := []string{"a", "é", "1"}
	if kind == "c28" {
		atoms = []*Node{kw("a"), nd("true", ""), ref("doc"), opt(kw("a")), nd("space", "")}
		words = []string{"a", "b"}
	}
	var base []*Node
	base = append(base, atoms...)
	for _, x := range atoms {
		base = append(base, star(x), plus(x), opt(x))
	}
	var exprs []*Node
	exprs = append(exprs, base...)
	for _, x := range base {
		for _, y := range base {
			exprs = append(exprs, seq(x, y), alt(x, y), nd("list", "", x, y), nd("adj", "", x, y))
		}
	}
	for _, x := range atoms {
		for _, y := range atoms {
			exprs = append(exprs, star(seq(x, y)), star(alt(x, y)), opt(seq(x, y)), plus(alt(x, y)), star(nd("adj", "", x, y)))
		}
	}
	var inputs []string
	var rec func(prefix []string, depth int)
	rec = func(prefix []string, depth int) {
		inputs = append(inputs, strings.Join(prefix, " "))
		if len(prefix) >= 2 {
			inputs = append(inputs, strings.Join(prefix, ""))
			inputs = append(inputs, prefix[0]+strings.Join(prefix[1:], " "))
		}
		if depth == 3 {
			return
		}
		for _, w := range words {
			rec(append(append([]string{}, prefix...), w), depth+1)
		}
	}
	rec(nil, 0)
	n0 := rn.o.N
	for _, e := range exprs {
		g := gr(ru("doc", e))
		text := g.Text()
		for _, in := range inputs {
			if rn.one(Req{G: g, Text: text, Input: in, Procs: "-"}) {
				break
			}
		}
		if rn.pool.Hangs+rn.pool.Crashes >= 6 {
			break
		}
	}
	rn.o.Stats["exhaustive_grammars"] = len(exprs)
	rn.o.Stats["exhaustive_inputs_each"] = len(inputs)
	rn.o.Stats["exhaustive_cases"] = rn.o.N - n0
}

// conflictFamily: `doc = (a "q") | ((b | c) "r")` for all a, b, c over a few token classes and
// keywords, against inputs whose first token may start both alternatives: whether the first
// alternative commits depends on the whole first set of the second one (CheckConflicts).
func conflictFamily(rn *runner) {
	atoms := []*Node{nd("class", "IDENT"), nd("class", "INT"), nd("class", "STRING"), kw("a"), kw("b")}
	firsts := []string{"a", "b", "1", `"s"`}
	n0 := rn.o.N
	for _, a := range atoms {
		for _, b := range atoms {
			for _, c := range atoms {
				g := gr(ru("doc", alt(seq(a, kw("q")), seq(alt(b, c), kw("r")))))
				text := g.Text()
				for _, t := range firsts {
					rn.one(Req{G: g, Text: text, Input: t + " r", Procs: "-"})
					rn.one(Req{G: g, Text: text, Input: t + " q", Procs: "-"})
				}
			}
		}
	}
	rn.o.Stats["conflict_family_cases"] = rn.o.N - n0
}

// Main is the entry point of harness/cmd/c28 and harness/cmd/c29.
func Main(kind string) {
	worker := flag.Bool("worker", false, "serve match requests on stdin (child process)")
	f := vh.ParseFlags()
	if *worker {
		WorkerMain()
		return
	}
	o := vh.NewOut(f.Out)
	defer o.Close()
	pool := NewPool(3 * time.Second)
	defer pool.Close()
	rn := &runner{o: o, pool: pool, kind: kind}

	if f.Replay != "" {
		// case lines reach us tab-separated (cases.txt) or blank-separated (oracle.txt): the
		// fields we need are the last ones and contain no blanks
		fs := strings.Fields(f.Replay)
		if len(fs) == 4 && fs[0] == "tplm-failproc" {
			text, _ := vh.UnHex(fs[1])
			input, _ := vh.UnHex(fs[2])
			rn.oneFailing(Req{Text: string(text), Input: string(input), Procs: fs[3]})
			return
		}
		if len(fs) < 8 {
			fmt.Fprintln(os.Stderr, "replay: case line has no source fields")
			os.Exit(2)
		}
		k := len(fs)
		text, _ := vh.UnHex(fs[k-2])
		input, _ := vh.UnHex(fs[k-1])
		req := Req{Text: string(text), Input: string(input), Procs: fs[k-3]}
		if c := Compile(req.Text, nil); strings.HasPrefix(c.ChkOut, "rec:") {
			req.GenSx = strings.Join(fs[1:k-5], " ")
		}
		rn.one(req)
		return
	}

	conf := GenConf{MaxRules: 3, MaxDepth: 3, Nullable: 6, LeftRef: 4, Procs: 20, SpaceAdj: 30}
	corpus := append(append([]corpusItem{}, corpusC29...), repoCorpus()...)
	perGrammar := 3
	maxWords := 16
	failShare := 8
	if kind == "c28" {
		conf = GenConf{MaxRules: 4, MaxDepth: 3, Nullable: 60, LeftRef: 35, Procs: 5, SpaceAdj: 40}
		corpus = nil
		perGrammar = 2
		maxWords = 10
		failShare = 30
		for _, it := range corpusC28 {
			for _, in := range it.inputs {
				rn.one(Req{G: it.g, Text: it.g.Text(), Input: in, Procs: "-"})
			}
		}
		// nullable repetition bodies whose return procedure fails on the empty match
		fp := []*Grammar{
			gr(ru("doc", seq(star(ref("r1")), kw("b"))), ru("r1", opt(kw("a")))),
			gr(ru("doc", seq(plus(ref("r1")), kw("b"))), ru("r1", opt(kw("a")))),
			gr(ru("doc", seq(star(ref("r1")), kw("b"))), ru("r1", star(kw("a")))),
			gr(ru("doc", nd("list", "", ref("r1"), ref("r1"))), ru("r1", opt(kw("a")))),
			gr(ru("doc", star(seq(ref("r1"), ref("r1")))), ru("r1", nd("true", ""))),
		}
		for _, g := range fp {
			for _, spec := range []string{"xs", "xd", "xe", "xS"} {
				for _, in := range []string{"b", "a b", "a a b", ""} {
					rn.oneFailing(Req{G: g, Text: g.Text(), Input: in, Procs: vh.HexS("r1") + "=" + spec})
				}
			}
		}
	}
	for _, it := range corpus {
		for _, in := range it.inputs {
			rn.one(Req{Text: reRetProc.ReplaceAllString(it.text, ""), Input: in, Procs: "-"})
		}
	}
	if kind == "c29" {
		conflictFamily(rn)
	}
	o.Stats["corpus_cases"] = o.N
	if f.Tier == "thorough" {
		exhaustive(rn, kind)
	}
	r := vh.NewRand(f.Seed)
	for i := 0; i*perGrammar < f.N; i++ {
		rr := r.Fork(i)
		g := GenGrammar(rr, conf)
		for _, ru := range g.Rules {
			countKinds(o, ru.Body)
		}
		text := g.Text()
		rejected := false
		for j := 0; j < perGrammar; j++ {
			if rn.one(Req{G: g, Text: text, Input: GenInput(rr, g, maxWords), Procs: g.Procs()}) {
				rejected = true
				break // rejected at compile time: one case per grammar is enough
			}
		}
		if !rejected && rr.Chance(failShare) {
			// the same grammar with failing return procedures on a random share of its rules
			var ps []string
			for _, ru := range g.Rules {
				if rr.Chance(70) {
					ps = append(ps, vh.HexS(ru.Name)+"="+rr.Pick([]string{"xs", "xs", "xd", "xe", "xS"}))
				}
			}
			if len(ps) > 0 {
				rn.oneFailing(Req{G: g, Text: text, Input: GenInput(rr, g, maxWords), Procs: strings.Join(ps, ",")})
			}
		}
		if pool.Hangs+pool.Crashes >= 6 {
			o.Stats["stopped_after_hangs"] = 1
			break
		}
	}
	o.Stats["worker_hangs"] = pool.Hangs
	o.Stats["worker_crashes"] = pool.Crashes
}
