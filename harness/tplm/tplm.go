// Package tplm: shared machinery of the C28/C29/C30 harness commands (TPL matcher).
//
//   - a grammar generator over its own tree type (Node) that prints TPL grammar text and the
//     s-expression of the matcher tree `cl.compileExpr` builds for it,
//   - a reflection serialiser of the REAL compiled matcher tree (tpl/matcher values),
//   - canonical rendering of real match results / errors,
//   - a worker child process (same binary, flag -worker) in which everything that may hang
//     or overflow the stack runs, driven by the parent with a wall-clock timeout.
package tplm

import (
	"bufio"
	"encoding/hex"
	"fmt"
	"io"
	"os"
	"os/exec"
	"reflect"
	"runtime/debug"
	"strconv"
	"strings"
	"time"

	"github.com/goplus/xgo/tpl"
	"github.com/goplus/xgo/tpl/ast"
	"github.com/goplus/xgo/tpl/cl"
	"github.com/goplus/xgo/tpl/matcher"
	"github.com/goplus/xgo/tpl/parser"
	"github.com/goplus/xgo/tpl/scanner"
	"github.com/goplus/xgo/tpl/token"
	"github.com/goplus/xgo/tpl/types"
	"verifharness/vh"
)

// ---------------------------------------------------------------------------
// generator tree

type Node struct {
	Kind string // class qstr rawstr space op chr kw true seq alt star plus opt list adj ref
	S    string // class name / operator text / keyword / rule name
	Kids []*Node
}

type Rule struct {
	Name string
	Body *Node
	Proc string // "" | w<tag> | k<tag> | f
}

type Grammar struct{ Rules []*Rule }

var classTok = map[string]token.Token{
	"IDENT": token.IDENT, "INT": token.INT, "FLOAT": token.FLOAT, "CHAR": token.CHAR,
	"STRING": token.STRING, "LPAREN": token.LPAREN, "RPAREN": token.RPAREN,
	"LBRACK": token.LBRACK, "RBRACK": token.RBRACK, "IMAG": token.IMAG, "RAT": token.RAT,
}

var opTok = map[string]token.Token{
	"+": token.ADD, "-": token.SUB, "*": token.MUL, "/": token.QUO, ",": token.COMMA, ";": token.SEMICOLON,
	"(": token.LPAREN, ")": token.RPAREN, "=": token.ASSIGN, "++": token.INC, "+=": token.ADD_ASSIGN,
	"<<": token.SHL, ":": token.COLON, ".": token.PERIOD, "!": token.NOT, "->": token.SRARROW,
}

func (n *Node) composite() bool {
	switch n.Kind {
	case "seq", "alt", "list", "adj":
		return true
	}
	return false
}

func atom(n *Node) string {
	// unary operands are parenthesised too: `**x` / `++x` would lex as one token
	if n.composite() || n.Kind == "star" || n.Kind == "plus" || n.Kind == "opt" {
		return "(" + n.Text() + ")"
	}
	return n.Text()
}

// Text prints the TPL source of the expression (every composite operand parenthesised).
func (n *Node) Text() string {
	switch n.Kind {
	case "class", "ref":
		return n.S
	case "qstr":
		return "QSTRING"
	case "rawstr":
		return "RAWSTRING"
	case "space":
		return "SPACE"
	case "op", "kw":
		return strconv.Quote(n.S)
	case "chr":
		return "'" + n.S + "'"
	case "true":
		return `""`
	case "seq":
		ps := make([]string, len(n.Kids))
		for i, k := range n.Kids {
			ps[i] = atom(k)
		}
		return strings.Join(ps, " ")
	case "alt":
		ps := make([]string, len(n.Kids))
		for i, k := range n.Kids {
			if k.Kind == "alt" {
				ps[i] = "(" + k.Text() + ")"
			} else {
				ps[i] = k.Text()
			}
		}
		return strings.Join(ps, " | ")
	case "star":
		return "*" + atom(n.Kids[0])
	case "plus":
		return "+" + atom(n.Kids[0])
	case "opt":
		return "?" + atom(n.Kids[0])
	case "list":
		return atom(n.Kids[0]) + " % " + atom(n.Kids[1])
	case "adj":
		return atom(n.Kids[0]) + " ++ " + atom(n.Kids[1])
	}
	panic("bad node kind " + n.Kind)
}

func (g *Grammar) Text() string {
	var b strings.Builder
	for _, r := range g.Rules {
		fmt.Fprintf(&b, "%s = %s\n", r.Name, r.Body.Text())
	}
	return b.String()
}

func hx(s string) string { return vh.HexS(s) }

func tokSx(t token.Token) string { return fmt.Sprintf("(K %d %s)", uint(t), hx(t.String())) }

// Sx is the matcher tree cl.compileExpr builds for the node, before CheckConflicts (stops = n).
func (n *Node) Sx() string {
	switch n.Kind {
	case "class":
		return tokSx(classTok[n.S])
	case "ref":
		return "(V " + hx(n.S) + ")"
	case "qstr":
		return "(S 34)"
	case "rawstr":
		return "(S 96)"
	case "space":
		return "W"
	case "op", "chr":
		return tokSx(opTok[n.S])
	case "kw":
		return fmt.Sprintf("(L %d %s)", uint(token.IDENT), hx(n.S))
	case "true":
		return "T"
	case "seq":
		ps := make([]string, len(n.Kids))
		for i, k := range n.Kids {
			ps[i] = k.Sx()
		}
		return "(Q " + strings.Join(ps, " ") + ")"
	case "alt":
		ps := make([]string, len(n.Kids))
		for i, k := range n.Kids {
			ps[i] = k.Sx()
		}
		return "(C (" + strings.Join(ps, " ") + ") n)"
	case "star":
		return "(* " + n.Kids[0].Sx() + ")"
	case "plus":
		return "(+ " + n.Kids[0].Sx() + ")"
	case "opt":
		return "(? " + n.Kids[0].Sx() + ")"
	case "list":
		a, b := n.Kids[0].Sx(), n.Kids[1].Sx()
		return "(Q " + a + " (* (Q " + b + " " + a + ")))"
	case "adj":
		return "(A " + n.Kids[0].Sx() + " " + n.Kids[1].Sx() + ")"
	}
	panic("bad node kind " + n.Kind)
}

func (g *Grammar) Sx() string {
	ps := make([]string, len(g.Rules))
	for i, r := range g.Rules {
		ps[i] = "(R " + hx(r.Name) + " " + r.Body.Sx() + ")"
	}
	return "(" + strings.Join(ps, " ") + ")"
}

func (g *Grammar) Procs() string {
	var ps []string
	for _, r := range g.Rules {
		if r.Proc != "" {
			ps = append(ps, hx(r.Name)+"="+r.Proc)
		}
	}
	if len(ps) == 0 {
		return "-"
	}
	return strings.Join(ps, ",")
}

// ---------------------------------------------------------------------------
// reflection serialiser of the real matcher tree

type serErr struct{ msg string }

func serFail(format string, a ...any) { panic(serErr{fmt.Sprintf(format, a...)}) }

func field(v reflect.Value, name string) reflect.Value {
	f := v.FieldByName(name)
	if !f.IsValid() {
		serFail("type %s has no field %s", v.Type(), name)
	}
	return f
}

func iface(v reflect.Value) reflect.Value { // unwrap an interface-typed field
	if v.Kind() == reflect.Interface {
		if v.IsNil() {
			serFail("nil matcher")
		}
		return v.Elem()
	}
	return v
}

// SerMatcher renders a tpl/matcher value as an s-expression (withStops=false prints `n`).
func SerMatcher(v reflect.Value, withStops bool) string {
	v = iface(v)
	tn := v.Type().String()
	switch tn {
	case "matcher.gTrue":
		return "T"
	case "matcher.gWS":
		return "W"
	case "matcher.gString":
		return fmt.Sprintf("(S %d)", v.Uint())
	case "*matcher.gToken":
		return tokSx(token.Token(field(v.Elem(), "tok").Uint()))
	case "*matcher.gLiteral":
		return fmt.Sprintf("(L %d %s)", field(v.Elem(), "Tok").Uint(), hx(field(v.Elem(), "Lit").String()))
	case "*matcher.Choices":
		opts := field(v.Elem(), "options")
		ps := make([]string, opts.Len())
		for i := range ps {
			ps[i] = SerMatcher(opts.Index(i), withStops)
		}
		st := "n"
		if withStops {
			stops := field(v.Elem(), "stops")
			if !stops.IsNil() {
				var b strings.Builder
				for i := 0; i < stops.Len(); i++ {
					if stops.Index(i).Bool() {
						b.WriteByte('1')
					} else {
						b.WriteByte('0')
					}
				}
				st = b.String()
				if st == "" {
					st = "e"
				}
			}
		}
		return "(C (" + strings.Join(ps, " ") + ") " + st + ")"
	case "*matcher.gSequence":
		items := field(v.Elem(), "items")
		ps := make([]string, items.Len())
		for i := range ps {
			ps[i] = SerMatcher(items.Index(i), withStops)
		}
		return "(Q " + strings.Join(ps, " ") + ")"
	case "*matcher.gRepeat0":
		return "(* " + SerMatcher(field(v.Elem(), "r"), withStops) + ")"
	case "*matcher.gRepeat1":
		return "(+ " + SerMatcher(field(v.Elem(), "r"), withStops) + ")"
	case "*matcher.gRepeat01":
		return "(? " + SerMatcher(field(v.Elem(), "r"), withStops) + ")"
	case "*matcher.gAdjoin":
		return "(A " + SerMatcher(field(v.Elem(), "a"), withStops) + " " + SerMatcher(field(v.Elem(), "b"), withStops) + ")"
	case "*matcher.Var":
		return "(V " + hx(field(v.Elem(), "Name").String()) + ")"
	}
	serFail("unknown matcher type %s", tn)
	return ""
}

// SerResult renders the rule table in declaration order (names from the parsed file).
func SerResult(res cl.Result, order []string, withStops bool) (sx string, err error) {
	defer func() {
		if e := recover(); e != nil {
			if se, ok := e.(serErr); ok {
				err = fmt.Errorf("serialiser: %s", se.msg)
				return
			}
			panic(e)
		}
	}()
	ps := make([]string, 0, len(order))
	seen := map[string]bool{}
	for _, name := range order {
		v, ok := res.Rules[name]
		if !ok || seen[name] {
			continue
		}
		seen[name] = true
		if v.Elem == nil {
			continue // Elem == nil: no entry in the rule table
		}
		ps = append(ps, "(R "+hx(name)+" "+SerMatcher(reflect.ValueOf(v.Elem), withStops)+")")
	}
	if len(seen) != len(res.Rules) {
		return "", fmt.Errorf("serialiser: rule table has %d rules, file declares %d", len(res.Rules), len(seen))
	}
	if len(order) > 0 && res.Doc != res.Rules[order[0]] {
		return "", fmt.Errorf("serialiser: Doc is not the first rule")
	}
	return "(" + strings.Join(ps, " ") + ")", nil
}

// ---------------------------------------------------------------------------
// return procedures

type Leaf int

// emptyResult: the rule matched without consuming a token (nil, or lists without any token).
func emptyResult(r any) bool {
	switch x := r.(type) {
	case nil:
		return true
	case []any:
		for _, e := range x {
			if !emptyResult(e) {
				return false
			}
		}
		return true
	}
	return false
}

// FailingProc reports whether the spec is a return procedure that fails at run time.
func FailingProc(spec string) bool { return strings.HasPrefix(spec, "x") }

func ProcOf(spec string) any {
	switch spec {
	// failing return procedures, by the matcher's conventions (Var.Match recovers the panic):
	case "xs": // panic(string) on an empty match -> runtime ("Dyn") error
		return matcher.RetProc(func(r any) any {
			if emptyResult(r) {
				panic("empty match rejected")
			}
			return r
		})
	case "xS": // panic(string) always
		return matcher.RetProc(func(r any) any { panic("rejected") })
	case "xd": // tpl.Panic (a *matcher.Error with Dyn set) on an empty match
		return matcher.RetProc(func(r any) any {
			if emptyResult(r) {
				tpl.Panic(1, "empty match rejected")
			}
			return r
		})
	case "xe": // panic(error value) on an empty match -> ordinary error
		return matcher.RetProc(func(r any) any {
			if emptyResult(r) {
				panic(fmt.Errorf("empty match rejected"))
			}
			return r
		})
	}
	switch {
	case spec == "f":
		return matcher.RetProc(func(r any) any {
			if l, ok := r.([]any); ok && len(l) > 0 {
				return l[0]
			}
			return r
		})
	case strings.HasPrefix(spec, "w"):
		t, _ := strconv.Atoi(spec[1:])
		return matcher.RetProc(func(r any) any { return []any{Leaf(t), r} })
	case strings.HasPrefix(spec, "k"):
		t, _ := strconv.Atoi(spec[1:])
		return matcher.RetProc(func(r any) any { return Leaf(t) })
	}
	panic("bad proc spec " + spec)
}

// ---------------------------------------------------------------------------
// compile + scan with the real code

type Compiled struct {
	C      tpl.Compiler
	Err    error
	Order  []string
	ChkOut string // ok | rec:<hex> | other:<msg>
}

func noConflict(fset *token.FileSet, c *ast.Choice, firsts [][]any, i, at int) {}

func Compile(text string, procs map[string]any) (ret Compiled) {
	fset := token.NewFileSet()
	f, err := parser.ParseFile(fset, "", text, nil)
	if err != nil {
		ret.Err, ret.ChkOut = err, "other:parse:"+err.Error()
		return
	}
	for _, d := range f.Decls {
		if r, ok := d.(*ast.Rule); ok {
			ret.Order = append(ret.Order, r.Name.Name)
		}
	}
	res, err := cl.NewEx(&cl.Config{RetProcs: procs, OnConflict: noConflict}, fset, f)
	ret.C = tpl.Compiler{Result: res}
	ret.Err = err
	if err == nil {
		ret.ChkOut = "ok"
		return
	}
	msg := err.Error()
	if i := strings.Index(msg, "recursive variable "); i >= 0 && strings.Count(msg, "\n") == 0 {
		ret.ChkOut = "rec:" + hx(strings.TrimSpace(msg[i+len("recursive variable "):]))
	} else {
		ret.ChkOut = "other:" + msg
	}
	return
}

// Scan tokenises like Compiler.Match does (fresh FileSet, nil error handler, mode 0).
func Scan(src string) (toks []*types.Token, fileEnd int) {
	b := []byte(src)
	fset := token.NewFileSet()
	f := fset.AddFile("", fset.Base(), len(b))
	s := new(scanner.Scanner)
	s.Init(f, b, nil, 0)
	for {
		t := s.Scan()
		if t.Tok == token.EOF {
			break
		}
		toks = append(toks, &t)
	}
	return toks, f.Base() + len(b)
}

// Extent computes where a token ends INDEPENDENTLY of Token.End(): position + byte length of the
// token's slice of the source text.  The slice is found from the token's known spelling (its
// literal, or the operator's spelling when there is no literal), which must be what the source
// holds at the token's position; a synthetic token past the end of the source (the automatic
// `;` at EOF) has the length of its literal.  indep=false: the source does not spell the token
// there (never seen), the extent then falls back to the spelling length.
func Extent(t *types.Token, src string, base int) (end int, indep bool) {
	off := int(t.Pos) - base
	sp := t.Lit
	if sp == "" {
		sp = t.Tok.String()
	}
	if off >= len(src) { // synthetic token at EOF
		return int(t.Pos) + len(sp), true
	}
	if sp == "\n" && t.Tok == token.SEMICOLON { // automatic semicolon at a line end
		if src[off] == '\n' {
			return int(t.Pos) + 1, true
		}
		return int(t.Pos) + 1, false
	}
	if off >= 0 && strings.HasPrefix(src[off:], sp) {
		return int(t.Pos) + len(sp), true
	}
	return int(t.Pos) + len(sp), false
}

// TokInfo: the token field of a case line (extents computed by Extent) and the comparison of
// every real Token.End() with the independent extent.
type TokInfo struct {
	Field   string
	Ends    map[token.Pos]int
	EndDiff string // first token whose real End() differs from its extent ("" = none)
	Panics  bool   // Token.End() panicked (Token.Len bound, C27)
	Fallback int
}

func TokField(toks []*types.Token, src string) (ti TokInfo) {
	ti.Ends = map[token.Pos]int{}
	if len(toks) == 0 {
		ti.Field = "-"
		return
	}
	ps := make([]string, len(toks))
	for i, t := range toks {
		end, indep := Extent(t, src, 1)
		if !indep {
			ti.Fallback++
		}
		ti.Ends[t.Pos] = end
		real := func() (e int) {
			defer func() {
				if recover() != nil {
					ti.Panics, e = true, -1
				}
			}()
			return int(t.End())
		}()
		if real >= 0 && real != end && ti.EndDiff == "" {
			ti.EndDiff = fmt.Sprintf("token %d (%v %q at %d): Token.End() = %d, but its source text ends at %d", i, t.Tok, t.Lit, int(t.Pos), real, end)
		}
		ps[i] = fmt.Sprintf("%d:%s:%d:%d", uint(t.Tok), hx(t.Lit), int(t.Pos), end)
	}
	ti.Field = strings.Join(ps, ",")
	return
}

// ---------------------------------------------------------------------------
// canonical rendering of results and errors

func ShowV(v any, idx map[token.Pos]int) string {
	switch x := v.(type) {
	case nil:
		return "N"
	case *types.Token:
		if i, ok := idx[x.Pos]; ok {
			return "T" + strconv.Itoa(i)
		}
		return "T?"
	case []any:
		ps := make([]string, len(x))
		for i, e := range x {
			ps[i] = ShowV(e, idx)
		}
		return "[" + strings.Join(ps, " ") + "]"
	case Leaf:
		return "L" + strconv.Itoa(int(x))
	}
	return fmt.Sprintf("?%T", v)
}

func ShowErr(err error) string {
	if err == nil {
		return "nil"
	}
	if e, ok := err.(*matcher.Error); ok {
		m := e.Msg
		switch {
		case strings.HasPrefix(m, "expect `"):
			rest := m[len("expect `"):]
			if i := strings.Index(rest, "`, but got "); i >= 0 {
				return fmt.Sprintf("X:%d:%s", int(e.Pos), hx(rest[:i]))
			}
		case m == "not adjoin":
			return fmt.Sprintf("NA:%d", int(e.Pos))
		case strings.HasPrefix(m, "unexpected token: "):
			return fmt.Sprintf("unexp:%d", int(e.Pos))
		case strings.HasPrefix(m, "variable `") && strings.HasSuffix(m, "` not assigned"):
			return "UA:" + hx(m[len("variable `"):len(m)-len("` not assigned")])
		}
		return "ERR?:" + m
	}
	switch err.Error() {
	case "no whitespace":
		return "WS"
	case "adjoin empty":
		return "AE"
	case "multiple mismatch":
		return "MM"
	}
	return "ERR?:" + err.Error()
}

func guard(f func() string) (out string) {
	defer func() {
		if e := recover(); e != nil {
			out = "PANIC"
			LastPanic = fmt.Sprint(e)
		}
	}()
	return f()
}

var LastPanic string

// LastTokInfo: extents of the tokens of the case in flight (worker side).
var LastTokInfo TokInfo

// RunMatch runs Compiler.Match / Parse / ParseExpr and renders "M … | P … | E …".
func RunMatch(c tpl.Compiler, src string, toks []*types.Token) (out string, res any, n int, okMatch bool) {
	idx := map[token.Pos]int{}
	for i, t := range toks {
		idx[t.Pos] = i
	}
	m := guard(func() string {
		ms, r, err := c.Match("", src, nil)
		le := fmt.Sprintf(" L=%d E=%s", ms.Ctx.Left, ShowErr(ms.Ctx.LastErr))
		if err != nil {
			s := fmt.Sprintf("fail %d %s", ms.N, ShowErr(err))
			if r != nil {
				s += " ?nonnil-result"
			}
			return s + le
		}
		res, n, okMatch = r, ms.N, true
		return fmt.Sprintf("ok %d %s", ms.N, ShowV(r, idx)) + le
	})
	pe := func(parse func() (any, error)) string {
		return guard(func() string {
			r, err := parse()
			if err != nil {
				s := ShowErr(err)
				if strings.HasPrefix(s, "unexp:") {
					return s
				}
				return "err " + s
			}
			return "ok " + ShowV(r, idx)
		})
	}
	p := pe(func() (any, error) { return c.Parse("", src, nil) })
	e := pe(func() (any, error) { return c.ParseExpr(src, nil) })
	return "M " + m + " | P " + p + " | E " + e, res, n, okMatch
}

// ---------------------------------------------------------------------------
// README shape oracle: the result tree conforms to the grammar expression

type shapeCtx struct {
	g     *Grammar
	toks  []*types.Token
	flat  []*types.Token
	procs bool
	ends  map[token.Pos]int // independent extents
}

func (sc *shapeCtx) rule(name string) *Rule {
	for _, r := range sc.g.Rules {
		if r.Name == name {
			return r
		}
	}
	return nil
}

// conforms reports "" or a description of the first mismatch.
func (sc *shapeCtx) conforms(n *Node, v any, depth int) string {
	if depth > 60 {
		return ""
	}
	tokOf := func() (*types.Token, string) {
		t, ok := v.(*types.Token)
		if !ok {
			return nil, fmt.Sprintf("%s: want token, got %T", n.Kind, v)
		}
		return t, ""
	}
	switch n.Kind {
	case "class", "op", "chr":
		t, e := tokOf()
		if e != "" {
			return e
		}
		want := classTok[n.S]
		if n.Kind != "class" {
			want = opTok[n.S]
		}
		if t.Tok != want {
			return fmt.Sprintf("token kind %v, want %v", t.Tok, want)
		}
	case "kw":
		t, e := tokOf()
		if e != "" {
			return e
		}
		if t.Tok != token.IDENT || t.Lit != n.S {
			return fmt.Sprintf("keyword %q matched %v %q", n.S, t.Tok, t.Lit)
		}
	case "qstr", "rawstr":
		t, e := tokOf()
		if e != "" {
			return e
		}
		q := byte('"')
		if n.Kind == "rawstr" {
			q = '`'
		}
		if t.Tok != token.STRING || len(t.Lit) == 0 || t.Lit[0] != q {
			return fmt.Sprintf("%s matched %v %q", n.Kind, t.Tok, t.Lit)
		}
	case "true", "space":
		if v != nil {
			return fmt.Sprintf("%s: want nil, got %T", n.Kind, v)
		}
	case "seq":
		l, ok := v.([]any)
		if !ok || len(l) != len(n.Kids) {
			return fmt.Sprintf("sequence of %d items: got %T len %d", len(n.Kids), v, len(l))
		}
		for i, k := range n.Kids {
			if e := sc.conforms(k, l[i], depth+1); e != "" {
				return e
			}
		}
	case "alt":
		first := ""
		for _, k := range n.Kids {
			e := sc.conforms(k, v, depth+1)
			if e == "" {
				return ""
			}
			if first == "" {
				first = e
			}
		}
		return "no alternative conforms: " + first
	case "star", "plus":
		l, ok := v.([]any)
		if !ok {
			return fmt.Sprintf("repetition: want list, got %T", v)
		}
		if n.Kind == "plus" && len(l) == 0 {
			return "+R gave an empty list"
		}
		for _, x := range l {
			if e := sc.conforms(n.Kids[0], x, depth+1); e != "" {
				return e
			}
		}
	case "opt":
		if v == nil {
			return ""
		}
		return sc.conforms(n.Kids[0], v, depth+1)
	case "list":
		l, ok := v.([]any)
		if !ok || len(l) != 2 {
			return fmt.Sprintf("R1 %% R2: want 2-element list, got %T", v)
		}
		if e := sc.conforms(n.Kids[0], l[0], depth+1); e != "" {
			return e
		}
		rest, ok := l[1].([]any)
		if !ok {
			return "R1 % R2: second element is not a list"
		}
		for _, p := range rest {
			pr, ok := p.([]any)
			if !ok || len(pr) != 2 {
				return "R1 % R2: element of second level is not a pair"
			}
			if e := sc.conforms(n.Kids[1], pr[0], depth+1); e != "" {
				return e
			}
			if e := sc.conforms(n.Kids[0], pr[1], depth+1); e != "" {
				return e
			}
		}
	case "adj":
		l, ok := v.([]any)
		if !ok || len(l) != 2 {
			return fmt.Sprintf("R1 ++ R2: want pair, got %T", v)
		}
		if e := sc.conforms(n.Kids[0], l[0], depth+1); e != "" {
			return e
		}
		if e := sc.conforms(n.Kids[1], l[1], depth+1); e != "" {
			return e
		}
		if !sc.procs {
			var a, b []*types.Token
			flatten(l[0], &a)
			flatten(l[1], &b)
			if len(a) == 0 || len(b) == 0 {
				return "R1 ++ R2 succeeded with an empty side"
			}
			if e := sc.ends[a[len(a)-1].Pos]; e != int(b[0].Pos) {
				return fmt.Sprintf("R1 ++ R2 succeeded but tokens do not touch (source text ends at %d, next starts at %d)", e, b[0].Pos)
			}
		}
	case "ref":
		r := sc.rule(n.S)
		if r == nil || r.Proc != "" {
			return ""
		}
		return sc.conforms(r.Body, v, depth+1)
	}
	return ""
}

func flatten(v any, out *[]*types.Token) {
	switch x := v.(type) {
	case *types.Token:
		*out = append(*out, x)
	case []any:
		for _, e := range x {
			flatten(e, out)
		}
	}
}

// ShapeOracle checks a successful match result against the README: (key, detail) or "".
func ShapeOracle(g *Grammar, toks []*types.Token, ends map[token.Pos]int, res any, n int) (key, detail string) {
	procs := false
	for _, r := range g.Rules {
		if r.Proc != "" {
			procs = true
		}
	}
	if n < 0 || n > len(toks) {
		return "consumed-out-of-range", fmt.Sprintf("n=%d len=%d", n, len(toks))
	}
	sc := &shapeCtx{g: g, toks: toks, procs: procs, ends: ends}
	if !procs {
		var fl []*types.Token
		flatten(res, &fl)
		if len(fl) != n {
			return "consumed-count", fmt.Sprintf("n=%d but the result holds %d tokens", n, len(fl))
		}
		for i, t := range fl {
			if t.Pos != toks[i].Pos {
				return "consumed-count", fmt.Sprintf("result token %d is not input token %d", i, i)
			}
		}
	}
	doc := g.Rules[0]
	if doc.Proc == "" {
		if e := sc.conforms(doc.Body, res, 0); e != "" {
			return "result-shape", e
		}
	}
	return "", ""
}

// ---------------------------------------------------------------------------
// worker protocol

// Req is one case sent to the worker.
type Req struct {
	G     *Grammar // nil for raw text cases
	Text  string
	Input string
	Procs string
	GenSx string // replay of a grammar that does not compile: the matcher tree of the case line
}

// Resp of the worker.
type Resp struct {
	CaseLine string
	Impl     string
	Oracles  [][2]string // key, detail
	Skip     string      // non-empty: case not usable (reason)
	Hang     bool
	Crash    string
	Flags    map[string]bool
}

func enc(s string) string { return hex.EncodeToString([]byte(s)) }
func dec(s string) string { b, _ := hex.DecodeString(s); return string(b) }

func procsMap(spec string) map[string]any {
	if spec == "-" || spec == "" {
		return nil
	}
	m := map[string]any{}
	for _, it := range strings.Split(spec, ",") {
		kv := strings.SplitN(it, "=", 2)
		name, _ := vh.UnHex(kv[0])
		m[string(name)] = ProcOf(kv[1])
	}
	return m
}

// Phase1 compiles, serialises and scans: returns the case line and the check part of impl.
func Phase1(text, input, procs, genSx string) (caseLine, chk string, cmp Compiled, toks []*types.Token, skip string) {
	cmp = Compile(text, procsMap(procs))
	toks, fileEnd := Scan(input)
	ti := TokField(toks, input)
	LastTokInfo = ti
	if ti.Panics {
		return "", "", cmp, toks, "token End() panics"
	}
	tf := ti.Field
	var gsx string
	switch {
	case cmp.ChkOut == "ok":
		sx, err := SerResult(cmp.C.Result, cmp.Order, true)
		if err != nil {
			return "", "", cmp, toks, "TIE:" + err.Error()
		}
		if genSx != "" {
			plain, _ := SerResult(cmp.C.Result, cmp.Order, false)
			if plain != genSx {
				return "", "", cmp, toks, "TIE:generator tree and compiled matcher differ: " + plain + " vs " + genSx
			}
		}
		gsx = sx
	case strings.HasPrefix(cmp.ChkOut, "rec:"):
		if genSx == "" {
			return "", "", cmp, toks, "recursive grammar without generator tree"
		}
		gsx = genSx
	default:
		return "", "", cmp, toks, "compile: " + cmp.ChkOut
	}
	caseLine = strings.Join([]string{"tplm", gsx, tf, strconv.Itoa(fileEnd), procs, hx(text), hx(input)}, "\t")
	if cmp.ChkOut == "ok" {
		chk = "chk=ok wf=1 stops=1"
	} else {
		chk = "chk=" + cmp.ChkOut + " wf=1"
	}
	return
}

// WorkerMain serves requests on stdin until EOF.
func WorkerMain() {
	debug.SetMaxStack(48 << 20)
	in := bufio.NewReaderSize(os.Stdin, 1<<20)
	out := bufio.NewWriter(os.Stdout)
	for {
		line, err := in.ReadString('\n')
		if err != nil {
			return
		}
		fs := strings.Split(strings.TrimRight(line, "\n"), "\t")
		if len(fs) != 4 {
			fmt.Fprintln(out, "1\tS\t"+enc("bad request"))
			out.Flush()
			continue
		}
		text, input, procs := dec(fs[0]), dec(fs[1]), fs[2]
		genSx, curG := "", (*Grammar)(nil)
		if side := strings.SplitN(dec(fs[3]), "\x00", 2); len(side) == 2 && side[0] != "" {
			genSx = side[0]
			if side[1] != "" {
				curG = DecodeGrammar(side[1])
			}
		}
		curGrammar = curG
		caseLine, chk, cmp, toks, skip := Phase1(text, input, procs, genSx)
		if skip != "" {
			fmt.Fprintln(out, "1\tS\t"+enc(skip))
			out.Flush()
			continue
		}
		if cmp.ChkOut != "ok" {
			fmt.Fprintln(out, "1\tR\t"+enc(caseLine)+"\t"+enc(chk))
			out.Flush()
			continue
		}
		fmt.Fprintln(out, "1\tM\t"+enc(caseLine)+"\t"+enc(chk))
		out.Flush()
		LastPanic = ""
		m, res, n, okm := RunMatch(cmp.C, input, toks)
		var orc []string
		if LastTokInfo.EndDiff != "" {
			orc = append(orc, "token-end-differs\x1f"+LastTokInfo.EndDiff)
		}
		if strings.Contains(m, "PANIC") {
			orc = append(orc, "panic\x1f"+LastPanic)
		}
		if okm && curGrammar != nil {
			if k, d := ShapeOracle(curGrammar, toks, LastTokInfo.Ends, res, n); k != "" {
				orc = append(orc, k+"\x1f"+d)
			}
		}
		fmt.Fprintln(out, "2\t"+enc(m)+"\t"+enc(strings.Join(orc, "\x1e")))
		out.Flush()
	}
}

// curGrammar: the worker gets the generator tree through an encoded side channel
// (see EncodeGrammar) so that the shape oracle can run next to the real result values.
var curGrammar *Grammar

// Pool drives one worker process.
type Pool struct {
	exe     string
	cmd     *exec.Cmd
	in      io.WriteCloser
	out     *bufio.Reader
	lines   chan string
	Timeout time.Duration
	Hangs   int
	Crashes int
}

func NewPool(timeout time.Duration) *Pool {
	exe, _ := os.Executable()
	return &Pool{exe: exe, Timeout: timeout}
}

func (p *Pool) start() {
	p.cmd = exec.Command(p.exe, "-worker")
	p.cmd.Stderr = nil
	p.in, _ = p.cmd.StdinPipe()
	so, _ := p.cmd.StdoutPipe()
	if err := p.cmd.Start(); err != nil {
		panic(err)
	}
	p.out = bufio.NewReaderSize(so, 1<<20)
	lines := make(chan string, 4)
	p.lines = lines
	rd := p.out
	go func() {
		for {
			l, err := rd.ReadString('\n')
			if err != nil {
				close(lines)
				return
			}
			lines <- strings.TrimRight(l, "\n")
		}
	}()
}

func (p *Pool) kill() {
	if p.cmd != nil {
		p.in.Close()
		p.cmd.Process.Kill()
		p.cmd.Wait()
		p.cmd = nil
	}
}

func (p *Pool) Close() { p.kill() }

// cpuTicks reads utime+stime (clock ticks, 100/s) of the worker from /proc.
func (p *Pool) cpuTicks() int64 {
	b, err := os.ReadFile(fmt.Sprintf("/proc/%d/stat", p.cmd.Process.Pid))
	if err != nil {
		return -1
	}
	s := string(b)
	if i := strings.LastIndexByte(s, ')'); i >= 0 {
		f := strings.Fields(s[i+1:])
		if len(f) > 12 {
			u, _ := strconv.ParseInt(f[11], 10, 64)
			k, _ := strconv.ParseInt(f[12], 10, 64)
			return u + k
		}
	}
	return -1
}

// read waits for the next line of the worker.  "hang" = the worker burnt more than Timeout
// of CPU time on this request (robust against a loaded machine), or 25x that in wall-clock time.
func (p *Pool) read() (line string, status string) {
	start := time.Now()
	cpu0 := p.cpuTicks()
	tick := time.NewTicker(40 * time.Millisecond)
	defer tick.Stop()
	for {
		select {
		case l, ok := <-p.lines:
			if !ok {
				return "", "crash"
			}
			return l, ""
		case <-tick.C:
			if c := p.cpuTicks(); c >= 0 && cpu0 >= 0 && time.Duration(c-cpu0)*10*time.Millisecond > p.Timeout {
				return "", "hang"
			}
			if time.Since(start) > 25*p.Timeout {
				return "", "hang"
			}
		}
	}
}

// Do runs one case in the worker.
func (p *Pool) Do(r Req) (resp Resp) {
	if p.cmd == nil {
		p.start()
	}
	genSx, gtree := r.GenSx, ""
	if r.G != nil {
		genSx = r.G.Sx()
		gtree = EncodeGrammar(r.G)
	}
	fmt.Fprintf(p.in, "%s\t%s\t%s\t%s\n", enc(r.Text), enc(r.Input), r.Procs, enc(genSx+"\x00"+gtree))
	l1, st := p.read()
	if st != "" {
		p.kill()
		if st == "hang" {
			resp.Hang = true
			p.Hangs++
		} else {
			resp.Crash = "worker died in phase 1"
			p.Crashes++
		}
		resp.Skip = "phase1 " + st
		return
	}
	fs := strings.Split(l1, "\t")
	switch fs[1] {
	case "S":
		resp.Skip = dec(fs[2])
		return
	case "R":
		resp.CaseLine, resp.Impl = dec(fs[2]), dec(fs[3])
		return
	}
	resp.CaseLine = dec(fs[2])
	chk := dec(fs[3])
	l2, st := p.read()
	if st != "" {
		p.kill()
		if st == "hang" {
			resp.Hang = true
			p.Hangs++
			resp.Impl = chk + " | M HANG | P HANG | E HANG"
		} else {
			resp.Crash = "worker died while matching (stack overflow?)"
			p.Crashes++
			resp.Impl = chk + " | M HANG | P HANG | E HANG"
		}
		return
	}
	fs = strings.Split(l2, "\t")
	resp.Impl = chk + " | " + dec(fs[1])
	if len(fs) > 2 && fs[2] != "" {
		for _, o := range strings.Split(dec(fs[2]), "\x1e") {
			kv := strings.SplitN(o, "\x1f", 2)
			resp.Oracles = append(resp.Oracles, [2]string{kv[0], kv[1]})
		}
	}
	return
}

// EncodeGrammar / DecodeGrammar: a compact prefix encoding of the generator tree.
func EncodeGrammar(g *Grammar) string {
	var b strings.Builder
	var w func(n *Node)
	w = func(n *Node) {
		fmt.Fprintf(&b, "%s\x01%s\x01%d\x02", n.Kind, n.S, len(n.Kids))
		for _, k := range n.Kids {
			w(k)
		}
	}
	for _, r := range g.Rules {
		fmt.Fprintf(&b, "%s\x01%s\x03", r.Name, r.Proc)
		w(r.Body)
		b.WriteString("\x04")
	}
	return b.String()
}

func DecodeGrammar(s string) *Grammar {
	g := &Grammar{}
	for _, rs := range strings.Split(s, "\x04") {
		if rs == "" {
			continue
		}
		hb := strings.SplitN(rs, "\x03", 2)
		np := strings.SplitN(hb[0], "\x01", 2)
		items := strings.Split(hb[1], "\x02")
		pos := 0
		var rd func() *Node
		rd = func() *Node {
			f := strings.Split(items[pos], "\x01")
			pos++
			n := &Node{Kind: f[0], S: f[1]}
			k, _ := strconv.Atoi(f[2])
			for i := 0; i < k; i++ {
				n.Kids = append(n.Kids, rd())
			}
			return n
		}
		g.Rules = append(g.Rules, &Rule{Name: np[0], Proc: np[1], Body: rd()})
	}
	return g
}

