package astx

import (
	"fmt"
	"reflect"
	"strconv"
	"strings"

	"github.com/goplus/xgo/ast"
	"github.com/goplus/xgo/token"
)

// LayoutItem is one element of a kind's source layout (extract/c17_layout.txt).
type LayoutItem struct {
	Op   string
	Args []string
}

var (
	tokPosType = reflect.TypeOf(token.Pos(0))
	tokTokType = reflect.TypeOf(token.Token(0))
)

// tokTextLen: the length of the text a token.Token field contributes to the node's own text,
// as the Pos()/End() methods use it: a `Kind` field (class of a literal whose text is in Value)
// contributes the c / py prefix of C and Python string literals (ast.litPrefix); any other
// token field (Op, Tok) contributes its spelling (len(x.Tok.String())).
func tokTextLen(field string, t token.Token) int {
	if field == "Kind" {
		switch t {
		case token.CSTRING:
			return 1
		case token.PYSTRING:
			return 2
		}
		return 0
	}
	return len(t.String())
}

// Vals returns the non-node field values a Pos()/End() method can see, as the Lean model
// takes them: token.Pos -> its value, string -> its length, bool -> 0/1, token.Token -> tokTextLen; plus the pseudo-flag Implicit of an Ident.
func Vals(n ast.Node) [][2]string {
	var res [][2]string
	v := reflect.ValueOf(n)
	if v.Kind() != reflect.Ptr || v.IsNil() {
		return nil
	}
	s := v.Elem()
	st := s.Type()
	for i := 0; i < st.NumField(); i++ {
		f := st.Field(i)
		if !f.IsExported() {
			continue
		}
		fv := s.Field(i)
		switch {
		case f.Type == tokPosType:
			res = append(res, [2]string{f.Name, strconv.FormatInt(fv.Int(), 10)})
		case f.Type == tokTokType:
			res = append(res, [2]string{f.Name, strconv.Itoa(tokTextLen(f.Name, token.Token(fv.Int())))})
		case f.Type.Kind() == reflect.String:
			res = append(res, [2]string{f.Name, strconv.Itoa(fv.Len())})
		case f.Type.Kind() == reflect.Bool:
			b := "0"
			if fv.Bool() {
				b = "1"
			}
			res = append(res, [2]string{f.Name, b})
		}
	}
	if id, ok := n.(*ast.Ident); ok {
		b := "0"
		if id.Implicit() {
			b = "1"
		}
		res = append(res, [2]string{"Implicit", b})
	}
	return res
}

// SpanExtra: fields excluded from traversal dumps that Pos()/End() methods read.
var SpanExtra = map[string]bool{"File.ShadowEntry": true}

// DumpSpans serialises a tree for the Lean span model:
//
//	node := "0" slot | "N" slot kind id nvals (name value)* nkids node*
//
// and returns the non-nil nodes in the same (preorder) order.
func (d *Dumper) DumpSpans(slot string, n ast.Node) (string, []ast.Node) {
	d.sb.Reset()
	var order []ast.Node
	d.dumpS(Child{Slot: slot, Node: n}, 0, &order)
	return d.sb.String(), order
}

func (d *Dumper) dumpS(c Child, depth int, order *[]ast.Node) {
	if d.sb.Len() > 0 {
		d.sb.WriteByte(' ')
	}
	n := c.Node
	if IsNil(n) || depth > 4000 {
		d.sb.WriteString("0 " + c.Slot)
		return
	}
	kind := KindName(n)
	if kind == "" {
		kind = "?" + reflect.TypeOf(n).String()
	}
	cs, _ := Children(n)
	var kept []Child
	for _, ch := range cs {
		key := kind + "." + ch.Slot
		if !Excluded[key] || SpanExtra[key] {
			kept = append(kept, ch)
		}
	}
	vals := Vals(n)
	d.N++
	*order = append(*order, n)
	fmt.Fprintf(&d.sb, "N %s %s %d %d", c.Slot, kind, d.ID(n), len(vals))
	for _, v := range vals {
		d.sb.WriteString(" " + v[0] + " " + v[1])
	}
	fmt.Fprintf(&d.sb, " %d", len(kept))
	for _, ch := range kept {
		d.dumpS(ch, depth+1, order)
	}
}

// Elem is one element of a node's layout as found in the real node: an own token (Tok) or a
// child's span.
type Elem struct {
	Start, Stop int // token.Pos values
	Tok         bool
	Exact       bool   // own token with known start and length: must be a real token
	StartOnly   bool   // `start`: only the start is a token boundary
	StopOnly    bool   // `stop`: only the stop is a token boundary
	What        string // field name
}

func fieldByName(n ast.Node, name string) (reflect.Value, bool) {
	v := reflect.ValueOf(n).Elem()
	f := v.FieldByName(name)
	return f, f.IsValid()
}

func intField(n ast.Node, name string) (int, bool) {
	if name == "Implicit" {
		if id, ok := n.(*ast.Ident); ok {
			if id.Implicit() {
				return 1, true
			}
			return 0, true
		}
	}
	f, ok := fieldByName(n, name)
	if !ok {
		return 0, false
	}
	switch {
	case f.Type() == tokPosType:
		return int(f.Int()), true
	case f.Type() == tokTokType:
		return tokTextLen(name, token.Token(f.Int())), true
	case f.Kind() == reflect.String:
		return f.Len(), true
	case f.Kind() == reflect.Bool:
		if f.Bool() {
			return 1, true
		}
		return 0, true
	}
	return 0, false
}

// LayoutElems evaluates the layout of n's kind on the real node (children through the real
// Pos()/End()).  ok=false: the kind has no layout or the node lacks something mandatory.
func LayoutElems(n ast.Node) (elems []Elem, ok bool, why string) {
	items, has := Layout[KindName(n)]
	if !has {
		return nil, false, "unspecified"
	}
	cs, _ := Children(n)
	kidsAt := func(f string) []Child {
		var r []Child
		for _, c := range cs {
			if c.Slot == f {
				r = append(r, c)
			}
		}
		return r
	}
	span := func(c Child, f string) Elem {
		return Elem{Start: int(c.Node.Pos()), Stop: int(c.Node.End()), What: f}
	}
	num := func(s string) int { x, _ := strconv.Atoi(s); return x }
	for _, it := range items {
		a := it.Args
		switch it.Op {
		case "tok", "tokOpt":
			p, fok := intField(n, a[0])
			if !fok {
				return nil, false, "no field " + a[0]
			}
			if it.Op == "tokOpt" && p == 0 {
				continue
			}
			elems = append(elems, Elem{Start: p, Stop: p + num(a[1]), Tok: true, Exact: true, What: a[0]})
		case "tokIfUnset":
			p, _ := intField(n, a[0])
			g, _ := intField(n, a[2])
			if g == 0 {
				elems = append(elems, Elem{Start: p, Stop: p + num(a[1]), Tok: true, Exact: true, What: a[0]})
			}
		case "tokStr":
			p, fok := intField(n, a[0])
			if !fok {
				return nil, false, "no field " + a[0]
			}
			stop := p
			for _, g := range a[1:] {
				l, gok := intField(n, g)
				if !gok {
					return nil, false, "no field " + g
				}
				stop += l
			}
			elems = append(elems, Elem{Start: p, Stop: stop, Tok: true, Exact: len(a) == 2, StartOnly: false, What: a[0]})
		case "tokUnless", "tokStrUnless":
			p, _ := intField(n, a[0])
			fl, _ := intField(n, a[2])
			l := 0
			if it.Op == "tokUnless" {
				l = num(a[1])
			} else {
				l, _ = intField(n, a[1])
			}
			if fl != 0 {
				elems = append(elems, Elem{Start: p, Stop: p, Tok: true, What: a[0]})
			} else {
				elems = append(elems, Elem{Start: p, Stop: p + l, Tok: true, Exact: true, What: a[0]})
			}
		case "start":
			p, _ := intField(n, a[0])
			elems = append(elems, Elem{Start: p, Stop: p, Tok: true, StartOnly: true, What: a[0]})
		case "stop", "stopOpt":
			p, _ := intField(n, a[0])
			if it.Op == "stopOpt" && p == 0 {
				continue
			}
			elems = append(elems, Elem{Start: p, Stop: p, Tok: true, StopOnly: true, What: a[0]})
		case "child":
			ks := kidsAt(a[0])
			if len(ks) == 0 || IsNil(ks[0].Node) {
				return nil, false, "mandatory child " + a[0] + " is nil"
			}
			elems = append(elems, span(ks[0], a[0]))
		case "childOpt":
			ks := kidsAt(a[0])
			if len(ks) > 0 && !IsNil(ks[0].Node) {
				elems = append(elems, span(ks[0], a[0]))
			}
		case "list", "list1":
			ks := kidsAt(a[0])
			if it.Op == "list1" && len(ks) == 0 {
				return nil, false, "mandatory list " + a[0] + " is empty"
			}
			for _, k := range ks {
				if IsNil(k.Node) {
					return nil, false, "nil entry in " + a[0]
				}
				elems = append(elems, span(k, a[0]))
			}
		}
	}
	return elems, true, ""
}

// PosFieldSpec is the parsed form of one PosFields entry.
type PosFieldSpec struct {
	Texts    []string // alternatives
	TokField string   // @G
	EqPos    bool
	EqEnd    bool
	TokStart bool
	Skip     bool
	Unless   string
}

var posFieldSpecs = map[string]PosFieldSpec{}

func init() {
	for key, v := range PosFields {
		var sp PosFieldSpec
		if i := strings.Index(v, " unless "); i >= 0 {
			sp.Unless = strings.TrimSpace(v[i+8:])
			v = strings.TrimSpace(v[:i])
		}
		switch {
		case v == "=pos":
			sp.EqPos = true
		case v == "=end":
			sp.EqEnd = true
		case v == "tokstart":
			sp.TokStart = true
		case strings.HasPrefix(v, "skip"):
			sp.Skip = true
		case strings.HasPrefix(v, "@"):
			sp.TokField = v[1:]
		default:
			for _, alt := range strings.Split(v, "|") {
				alt = strings.TrimSpace(alt)
				if t, err := strconv.Unquote(alt); err == nil {
					sp.Texts = append(sp.Texts, t)
				}
			}
		}
		posFieldSpecs[key] = sp
	}
}

// PosFieldValue is one set token.Pos field of a node with its reviewed spec.
type PosFieldValue struct {
	Name string
	Pos  token.Pos
	Spec PosFieldSpec
	Want []string // expected spellings (resolved @G)
}

// PosFieldsOf returns the valid (non-NoPos) token.Pos fields of n with their specs.
func PosFieldsOf(n ast.Node) []PosFieldValue {
	kind := KindName(n)
	v := reflect.ValueOf(n)
	if v.Kind() != reflect.Ptr || v.IsNil() {
		return nil
	}
	s := v.Elem()
	st := s.Type()
	var res []PosFieldValue
	for i := 0; i < st.NumField(); i++ {
		f := st.Field(i)
		if !f.IsExported() || f.Type != tokPosType {
			continue
		}
		p := token.Pos(s.Field(i).Int())
		if !p.IsValid() {
			continue
		}
		sp, ok := posFieldSpecs[kind+"."+f.Name]
		if !ok {
			continue
		}
		if sp.Unless != "" {
			if b := s.FieldByName(sp.Unless); b.IsValid() && b.Kind() == reflect.Bool && b.Bool() {
				continue
			}
		}
		pv := PosFieldValue{Name: f.Name, Pos: p, Spec: sp, Want: sp.Texts}
		if sp.TokField != "" {
			if tf := s.FieldByName(sp.TokField); tf.IsValid() && tf.Type() == tokTokType {
				t := token.Token(tf.Int())
				if t == token.ILLEGAL {
					continue
				}
				pv.Want = []string{t.String()}
			}
		}
		res = append(res, pv)
	}
	return res
}
