package astx

import (
	"reflect"

	"github.com/goplus/xgo/ast"
	"github.com/goplus/xgo/token"
	"verifharness/vh"
)

// Synth builds random trees for any registered node kind by reflection over the struct
// declarations of the tree under test (so new kinds and new fields are covered without
// editing the harness).
//
// Well-formed mode (Malformed == 0): a single-node field is nil only if its declaration
// comment says it may be (Nilable); slices never contain nil.  That is the documented
// contract of a tree, independent of ast.Walk.
// Malformed mode: any single-node field is nil with probability Malformed percent and slice
// entries with a quarter of that.
type Synth struct {
	R         *vh.Rand
	Malformed int
	pos       int
	cost      map[reflect.Type]int
	impl      map[reflect.Type][]reflect.Type // interface type -> implementing kinds
}

func NewSynth(r *vh.Rand) *Synth {
	s := &Synth{R: r, pos: 1, cost: map[reflect.Type]int{}, impl: map[reflect.Type][]reflect.Type{}}
	s.computeCosts()
	return s
}

func (s *Synth) implementers(it reflect.Type) []reflect.Type {
	if l, ok := s.impl[it]; ok {
		return l
	}
	var l []reflect.Type
	for _, t := range KindTypes() {
		name := t.Elem().Name()
		if name == "File" || name == "Package" {
			continue
		}
		if t.Implements(it) {
			l = append(l, t)
		}
	}
	s.impl[it] = l
	return l
}

// mandatory single-node fields of a kind (not Nilable)
func mandatory(t reflect.Type) []reflect.StructField {
	var res []reflect.StructField
	st := t.Elem()
	for i := 0; i < st.NumField(); i++ {
		f := st.Field(i)
		if !f.IsExported() {
			continue
		}
		if (isKindPtr(f.Type) || isNodeIface(f.Type)) && !Nilable[st.Name()+"."+f.Name] && !Excluded[st.Name()+"."+f.Name] {
			res = append(res, f)
		}
	}
	return res
}

func (s *Synth) computeCosts() {
	const inf = 1 << 20
	for _, t := range KindTypes() {
		s.cost[t] = inf
	}
	minCost := func(ft reflect.Type) int {
		if isKindPtr(ft) {
			return s.cost[ft]
		}
		best := inf
		for _, it := range s.implementers(ft) {
			if s.cost[it] < best {
				best = s.cost[it]
			}
		}
		return best
	}
	for changed := true; changed; {
		changed = false
		for _, t := range KindTypes() {
			c := 1
			for _, f := range mandatory(t) {
				c += minCost(f.Type)
				if c > inf {
					c = inf
				}
			}
			if c < s.cost[t] {
				s.cost[t] = c
				changed = true
			}
		}
	}
}

func (s *Synth) nextPos() token.Pos { s.pos += 1 + s.R.Intn(3); return token.Pos(s.pos) }

// pick a kind for a field of (interface or pointer) type ft.
func (s *Synth) pick(ft reflect.Type, depth int) reflect.Type {
	if isKindPtr(ft) {
		return ft
	}
	cands := s.implementers(ft)
	if len(cands) == 0 {
		return nil
	}
	if depth > 0 {
		return cands[s.R.Intn(len(cands))]
	}
	best := 1 << 30
	var mins []reflect.Type
	for _, c := range cands {
		if s.cost[c] < best {
			best, mins = s.cost[c], nil
		}
		if s.cost[c] == best {
			mins = append(mins, c)
		}
	}
	return mins[s.R.Intn(len(mins))]
}

// Node builds a node of kind t (a registered pointer type).
func (s *Synth) Node(t reflect.Type, depth int) ast.Node {
	return s.build(t, depth).Interface().(ast.Node)
}

func (s *Synth) single(ft reflect.Type, key string, depth int) reflect.Value {
	nilOK := Nilable[key] && s.R.Chance(40)
	if s.Malformed > 0 && s.R.Chance(s.Malformed) {
		nilOK = true
	}
	if nilOK {
		return reflect.Zero(ft)
	}
	kt := s.pick(ft, depth)
	if kt == nil {
		return reflect.Zero(ft)
	}
	return s.build(kt, depth-1).Convert(ft)
}

func (s *Synth) build(t reflect.Type, depth int) reflect.Value {
	st := t.Elem()
	pv := reflect.New(st)
	sv := pv.Elem()
	for i := 0; i < st.NumField(); i++ {
		f := st.Field(i)
		if !f.IsExported() {
			continue
		}
		key := st.Name() + "." + f.Name
		fv := sv.Field(i)
		s.fill(fv, f.Type, key, depth, true)
	}
	return pv
}

func (s *Synth) listLen(depth int) int {
	if depth <= 0 {
		return s.R.Intn(2)
	}
	return s.R.Intn(4)
}

var posType = reflect.TypeOf(token.Pos(0))

func (s *Synth) fill(fv reflect.Value, ft reflect.Type, key string, depth int, top bool) {
	switch {
	case Excluded[key]:
		// aliases of nodes reachable elsewhere: left empty in synthesised trees
	case ft == posType:
		fv.SetInt(int64(s.nextPos()))
	case isKindPtr(ft) || isNodeIface(ft):
		fv.Set(s.single(ft, key, depth))
	case ft.Kind() == reflect.Bool:
		fv.SetBool(s.R.Chance(30))
	case ft.Kind() == reflect.String:
		fv.SetString([]string{"x", "y", "0", `"s"`}[s.R.Intn(4)])
	case ft.Kind() == reflect.Slice:
		et := ft.Elem()
		switch {
		case et.Kind() == reflect.Interface && et.NumMethod() == 0: // []any: string and Expr parts
			n := s.listLen(depth)
			sl := reflect.MakeSlice(ft, 0, n)
			exprT := reflect.TypeOf((*ast.Expr)(nil)).Elem()
			for i := 0; i < n; i++ {
				if s.R.Bool() {
					sl = reflect.Append(sl, reflect.ValueOf("txt"))
				} else {
					sl = reflect.Append(sl, s.build(s.pick(exprT, depth), depth-1))
				}
			}
			fv.Set(sl)
		case isKindPtr(et) || isNodeIface(et):
			n := s.listLen(depth)
			sl := reflect.MakeSlice(ft, 0, n)
			for i := 0; i < n; i++ {
				if s.Malformed > 0 && s.R.Chance(s.Malformed/4) {
					sl = reflect.Append(sl, reflect.Zero(et))
					continue
				}
				kt := s.pick(et, depth)
				if kt == nil {
					continue
				}
				sl = reflect.Append(sl, s.build(kt, depth-1).Convert(et))
			}
			fv.Set(sl)
		case et.Kind() == reflect.Slice:
			n := s.listLen(depth)
			sl := reflect.MakeSlice(ft, n, n)
			for i := 0; i < n; i++ {
				s.fill(sl.Index(i), et, key, depth, false)
			}
			fv.Set(sl)
		}
	case ft.Kind() == reflect.Map:
		et := ft.Elem()
		if isKindPtr(et) && ft.Key().Kind() == reflect.String {
			m := reflect.MakeMap(ft)
			n := s.R.Intn(4)
			for i := 0; i < n; i++ {
				m.SetMapIndex(reflect.ValueOf(string(rune('a'+i))+".xgo"), s.build(et, depth-1))
			}
			fv.Set(m)
		}
	case top && ft.Kind() == reflect.Ptr && ft.Elem().Kind() == reflect.Struct && ft.Elem().PkgPath() == nodePkg && isCarrier(ft):
		if s.R.Chance(60) {
			fv.Set(s.carrier(ft, depth))
		}
	case top && ft.Kind() == reflect.Interface && ft.NumMethod() == 0:
		// `any` at node level: nil, or one of the carriers
		if len(Carriers) > 0 && s.R.Chance(75) {
			ct := reflect.TypeOf(Carriers[s.R.Intn(len(Carriers))])
			fv.Set(s.carrier(ct, depth))
		}
	}
}

func isCarrier(t reflect.Type) bool {
	for _, c := range Carriers {
		if reflect.TypeOf(c) == t {
			return true
		}
	}
	return false
}

func (s *Synth) carrier(t reflect.Type, depth int) reflect.Value {
	st := t.Elem()
	pv := reflect.New(st)
	for i := 0; i < st.NumField(); i++ {
		f := st.Field(i)
		if f.IsExported() {
			s.fill(pv.Elem().Field(i), f.Type, st.Name()+"."+f.Name, depth, false)
		}
	}
	return pv
}
