package astx

import (
	"fmt"
	"os"
	"path/filepath"
	"strconv"
	"strings"

	"github.com/goplus/xgo/parser"
	"verifharness/vh"
)

// baseSource resolves "emb:name" / "file:rel" / plain rel path to (name for the parser, text).
func baseSource(ref string) (string, []byte, error) {
	switch {
	case strings.HasPrefix(ref, "emb:"):
		src, err := EmbeddedSource(ref[4:])
		return "/corpus/" + ref[4:], src, err
	case strings.HasPrefix(ref, "file:"):
		ref = ref[5:]
	}
	path := filepath.Join(Repo(), ref)
	src, err := os.ReadFile(path)
	return path, src, err
}

// ParseRecipe rebuilds the source text named by a recipe and parses it with the real parser.
//
//	file|rel  emb|name  mut|rel|seed  dense|ref|mode  gen|seed  tokmut|ref|seed
//
// with an optional suffix "#<i>" selecting ParseModes[i] (extension and parser mode); without
// it the file's own extension and ParseComments|AllErrors are used.
func ParseRecipe(recipe string) (*Parsed, error) {
	modeIdx := -1
	if i := strings.LastIndex(recipe, "#"); i >= 0 {
		if m, err := strconv.Atoi(recipe[i+1:]); err == nil && m >= 0 && m < len(ParseModes) {
			modeIdx, recipe = m, recipe[:i]
		}
	}
	fs := strings.Split(recipe, "|")
	var path string
	var src []byte
	var err error
	num := func(s string) uint64 { v, _ := strconv.ParseUint(s, 10, 64); return v }
	switch {
	case fs[0] == "file" && len(fs) == 2:
		path, src, err = baseSource("file:" + fs[1])
	case fs[0] == "emb" && len(fs) == 2:
		path, src, err = baseSource("emb:" + fs[1])
	case fs[0] == "mut" && len(fs) == 3:
		path, src, err = baseSource("file:" + fs[1])
		if err == nil {
			src = MutateLayout(src, vh.NewRand(num(fs[2])))
		}
	case fs[0] == "dense" && len(fs) == 3:
		path, src, err = baseSource(fs[1])
		if err == nil {
			src = MutateLayoutDense(src, int(num(fs[2])))
		}
	case fs[0] == "gen" && len(fs) == 2:
		path, src = "/gen/g"+fs[1]+".xgo", GenSource(vh.NewRand(num(fs[1])))
	case fs[0] == "tokmut" && len(fs) == 3:
		path, src, err = baseSource(fs[1])
		if err == nil {
			src = MutateTokens(src, vh.NewRand(num(fs[2])))
		}
	default:
		return nil, fmt.Errorf("bad recipe %q", recipe)
	}
	if err != nil {
		return nil, err
	}
	if modeIdx >= 0 {
		pm := ParseModes[modeIdx]
		path = strings.TrimSuffix(path, filepath.Ext(path)) + pm.Ext
		return ParseMode(path, src, pm.Mode)
	}
	return ParseMode(path, src, parser.ParseComments|parser.AllErrors)
}
