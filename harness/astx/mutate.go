package astx

import (
	"strings"

	"github.com/goplus/xgo/scanner"
	"github.com/goplus/xgo/token"
	"verifharness/vh"
)

// Tok is one token of a source file as delivered by the real scanner.
type Tok struct {
	Off int // byte offset of the first character
	End int // offset just after the token's text (Off for automatically inserted semicolons)
	Tok token.Token
	Lit string
}

// Scan tokenises src with the real XGo scanner (comments included when withComments).
// Automatically inserted semicolons (literal "\n") and EOF are dropped.
func Scan(src []byte, withComments bool) (toks []Tok, nerr int) {
	fset := token.NewFileSet()
	f := fset.AddFile("x.xgo", -1, len(src))
	var s scanner.Scanner
	mode := scanner.Mode(0)
	if withComments {
		mode = scanner.ScanComments
	}
	s.Init(f, src, func(_ token.Position, _ string) { nerr++ }, mode)
	for {
		pos, tok, lit := s.Scan()
		if tok == token.EOF {
			break
		}
		off := f.Offset(pos)
		if tok == token.SEMICOLON && lit == "\n" {
			continue
		}
		if tok == token.UNIT && len(toks) > 0 {
			off = toks[len(toks)-1].End // the unit is glued to its number
		}
		n := tokLen(src, off, tok, lit)
		toks = append(toks, Tok{Off: off, End: off + n, Tok: tok, Lit: lit})
	}
	return
}

// tokLen: length of the token's text in src.  lit is the text except that: operators have an
// empty lit, c"…" / py"…" literals drop their prefix, and carriage returns are stripped from
// raw strings and comments.
func tokLen(src []byte, off int, tok token.Token, lit string) int {
	text := lit
	if text == "" {
		text = tok.String()
	}
	i := off
	switch tok {
	case token.CSTRING:
		i += 1
	case token.PYSTRING:
		i += 2
	}
	for j := 0; j < len(text); {
		if i >= len(src) {
			return len(text)
		}
		if src[i] == text[j] {
			i++
			j++
		} else if src[i] == '\r' {
			i++
		} else {
			return len(text) + (i - j - off) // unexpected: fall back to the literal's length
		}
	}
	return i - off
}

// MutateLayout re-spaces a source file without changing its token sequence: between two
// tokens on the same line it may insert blanks, tabs or a /*c*/ comment.  Line structure is
// kept (automatic semicolons stay where they are) and string-like tokens are not touched, so
// the result parses to the same tree shape with different offsets.
func MutateLayout(src []byte, r *vh.Rand) []byte {
	toks, nerr := Scan(src, true)
	if nerr != 0 || len(toks) == 0 {
		return src
	}
	var b strings.Builder
	prev := 0
	for i, t := range toks {
		gap := string(src[prev:t.Off])
		b.WriteString(gap)
		if i > 0 && !strings.Contains(gap, "\n") && r.Chance(12) {
			p := toks[i-1]
			// never separate an identifier from a raw string (domain text literal), a number
			// from its unit, or `$` from what follows
			glued := gap == "" && (t.Tok == token.STRING || t.Tok == token.UNIT || p.Tok == token.ENV ||
				(t.Tok == token.LBRACE && p.Tok == token.ENV))
			if !glued {
				switch r.Intn(4) {
				case 0:
					b.WriteString(" ")
				case 1:
					b.WriteString("\t ")
				case 2:
					if gap != "" { // a comment needs no extra separation when blanks exist already
						b.WriteString("/*c*/ ")
					} else {
						b.WriteString(" ")
					}
				default:
					b.WriteString("  ")
				}
			}
		}
		b.WriteString(string(src[t.Off:t.End]))
		prev = t.End
	}
	b.WriteString(string(src[prev:]))
	return []byte(b.String())
}

func gluedGap(gap string, p, t Tok) bool {
	// never separate an identifier from a raw string (domain text literal), a number from its
	// unit, or `$` from what follows
	return gap == "" && (t.Tok == token.STRING || t.Tok == token.UNIT || p.Tok == token.ENV ||
		(t.Tok == token.LBRACE && p.Tok == token.ENV))
}

// MutateLayoutDense is the deterministic, exhaustive counterpart of MutateLayout:
//
//	mode 0: a blank before EVERY token that follows another token on its line
//	mode 1: a /*c*/ comment (and blanks) before every such token
//	mode 2: a blank and a comment before every closing token  ) ] }  and every , ; :
func MutateLayoutDense(src []byte, mode int) []byte {
	toks, nerr := Scan(src, true)
	if nerr != 0 || len(toks) == 0 {
		return src
	}
	var b strings.Builder
	prev := 0
	for i, t := range toks {
		gap := string(src[prev:t.Off])
		b.WriteString(gap)
		if i > 0 && !strings.Contains(gap, "\n") && !gluedGap(gap, toks[i-1], t) && t.Tok != token.COMMENT && toks[i-1].Tok != token.COMMENT {
			switch mode {
			case 0:
				b.WriteString(" ")
			case 1:
				b.WriteString(" /*c*/ ")
			default:
				switch t.Tok {
				case token.RPAREN, token.RBRACK, token.RBRACE, token.COMMA, token.SEMICOLON, token.COLON:
					b.WriteString(" /*c*/ ")
				}
			}
		}
		b.WriteString(string(src[t.Off:t.End]))
		prev = t.End
	}
	b.WriteString(string(src[prev:]))
	return []byte(b.String())
}

var mutTokPool = []string{"(", ")", ",", ":", "=>", "...", "in", "for", "[", "]", "{", "}", "!", "?", "<-", ";", "=", ":=", "$", "range", "if", "x", "1", "()", "(a, b)", "func", "chan"}

// MutateTokens makes a token-level mutant of a valid source: 1-2 of delete / duplicate / swap
// with the neighbour / replace by or insert a token from a small pool.  Most mutants are
// rejected by the parser; the ones it accepts are near-valid inputs nobody wrote by hand.
func MutateTokens(src []byte, r *vh.Rand) []byte {
	toks, nerr := Scan(src, false)
	if nerr != 0 || len(toks) < 2 {
		return src
	}
	texts := make([]string, len(toks))
	gaps := make([]string, len(toks)+1)
	prev := 0
	for i, t := range toks {
		gaps[i] = string(src[prev:t.Off])
		texts[i] = string(src[t.Off:t.End])
		prev = t.End
	}
	gaps[len(toks)] = string(src[prev:])
	for k, n := 0, 1+r.Intn(2); k < n; k++ {
		i := r.Intn(len(texts))
		switch r.Intn(5) {
		case 0:
			texts[i] = ""
		case 1:
			texts[i] = texts[i] + " " + texts[i]
		case 2:
			if i+1 < len(texts) {
				texts[i], texts[i+1] = texts[i+1], texts[i]
			}
		case 3:
			texts[i] = mutTokPool[r.Intn(len(mutTokPool))]
		default:
			texts[i] = mutTokPool[r.Intn(len(mutTokPool))] + " " + texts[i]
		}
	}
	var b strings.Builder
	for i := range texts {
		b.WriteString(gaps[i])
		b.WriteString(texts[i])
	}
	b.WriteString(gaps[len(texts)])
	return []byte(b.String())
}
