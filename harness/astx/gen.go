package astx

import (
	"fmt"
	"strings"

	"verifharness/vh"
)

// GenSource produces a small random XGo script biased towards the XGo-specific constructs
// (slice/matrix literals, comprehensions, lambdas, error wrapping, ranges, env expressions,
// domain text literals, number-unit literals, command-style calls, send statements, for-in,
// overload declarations).  Most outputs parse; the ones that do not are skipped by the callers.
type srcGen struct {
	r  *vh.Rand
	sp func() string
}

func GenSource(r *vh.Rand) []byte {
	g := &srcGen{r: r}
	g.sp = func() string { // optional extra layout between tokens
		switch r.Intn(12) {
		case 0:
			return "  "
		case 1:
			return " /*c*/ "
		case 2:
			return "\t"
		}
		return " "
	}
	var b strings.Builder
	if r.Chance(25) {
		b.WriteString("package main\n\n")
	}
	if r.Chance(20) {
		b.WriteString("import \"fmt\"\n\n")
	}
	if r.Chance(15) {
		b.WriteString("func (T).add = (\n\tadd1\n\tfunc(a, b T) T {\n\t\treturn a\n\t}\n)\n\n")
	}
	if r.Chance(15) {
		b.WriteString("// doc\nfunc helper(a int, b ...string) (r int, err error) {\n\treturn " + g.expr(2) + ", nil\n}\n\n")
	}
	for i, nd := 0, r.Intn(4); i < nd; i++ {
		b.WriteString(g.decl())
		b.WriteString("\n\n")
	}
	n := 1 + r.Intn(6)
	for i := 0; i < n; i++ {
		b.WriteString(g.stmt(2, ""))
		b.WriteString("\n")
	}
	return []byte(b.String())
}

var genIdents = []string{"a", "b", "xs", "m", "foo", "val", "i", "k", "v", "ch"}

func (g *srcGen) id() string { return genIdents[g.r.Intn(len(genIdents))] }

func (g *srcGen) atom() string {
	switch g.r.Intn(14) {
	case 0, 1, 2:
		return g.id()
	case 3:
		return fmt.Sprint(g.r.Intn(1000))
	case 4:
		return "1.5"
	case 5:
		return `"s"`
	case 6:
		return `"x=${` + g.id() + `} y=${` + g.id() + "+1" + `}!"`
	case 7:
		return "${" + g.id() + "}"
	case 8:
		return "$" + g.id()
	case 9:
		return "3r"
	case 10:
		return []string{"5ns", "2.5h", "10ms", "3s"}[g.r.Intn(4)]
	case 11:
		return "'c'"
	case 12:
		return "json`{\"a\": 1}`"
	}
	return "true"
}

func (g *srcGen) list(depth, min, max int) string {
	n := min + g.r.Intn(max-min+1)
	parts := make([]string, n)
	for i := range parts {
		parts[i] = g.expr(depth - 1)
	}
	return strings.Join(parts, ","+g.sp())
}

func (g *srcGen) expr(depth int) string {
	if depth <= 0 {
		return g.atom()
	}
	s := g.sp
	switch g.r.Intn(40) {
	case 0, 1:
		return g.atom()
	case 2:
		return "[" + g.list(depth, 0, 3) + "]"
	case 3: // (matrix literals are only accepted as call arguments: see stmt)
		return "[" + g.list(depth, 2, 4) + "]"
	case 4:
		return "[" + g.expr(depth-1) + "," + s() + g.id() + "...]"
	case 5:
		return "{" + `"k"` + ":" + s() + g.expr(depth-1) + "," + s() + `"j"` + ": " + g.expr(depth-1) + "}"
	case 6:
		return g.call(depth) + "!"
	case 7:
		return g.call(depth) + "?"
	case 8:
		return g.call(depth) + "?:" + s() + g.expr(depth-1)
	case 9:
		return "[" + g.expr(depth-1) + s() + "for " + g.id() + s() + "in" + s() + g.expr(depth-1) + "]"
	case 10:
		return "[" + g.expr(depth-1) + " for k, v in " + g.expr(depth-1) + s() + "if" + s() + g.expr(depth-1) + "]"
	case 11:
		return "{k: v for k, v in " + g.expr(depth-1) + "}"
	case 12:
		return "{for x in " + g.expr(depth-1) + " if " + g.expr(depth-1) + "}"
	case 13:
		return "{v for v in " + g.expr(depth-1) + " if t := v; t > 1}"
	case 14:
		return g.id() + s() + "=>" + s() + g.expr(depth-1)
	case 15:
		return "(" + g.id() + "," + s() + g.id() + ")" + s() + "=>" + s() + g.expr(depth-1)
	case 16:
		return g.call1(g.id(), "x => {\n\treturn "+g.expr(depth-1)+"\n}")
	case 17:
		return g.call1(g.id(), "=> ("+g.expr(depth-1)+", "+g.expr(depth-1)+")")
	case 18:
		return g.expr(depth-1) + s() + []string{"+", "-", "*", "/", "==", "<", "&&", "||", "<<", "%"}[g.r.Intn(10)] + s() + g.expr(depth-1)
	case 19:
		return []string{"-", "!", "^", "&", "*", "<-"}[g.r.Intn(6)] + g.id()
	case 20:
		return "(" + s() + g.expr(depth-1) + s() + ")"
	case 21:
		return g.id() + "." + g.id()
	case 22:
		return g.id() + "[" + g.expr(depth-1) + "]"
	case 23:
		return g.id() + "[" + g.expr(depth-1) + s() + ":" + s() + g.expr(depth-1) + "]"
	case 24:
		return g.call(depth)
	case 25:
		return "huh`> " + g.expr(depth-1) + ", " + g.expr(depth-1) + "\ntext\n`"
	case 26:
		return "func(" + g.id() + " int)" + s() + "int {\n\treturn " + g.expr(depth-1) + "\n}"
	case 27:
		return "[]int{" + g.list(depth, 0, 3) + "}"
	case 28:
		return g.id() + ".(" + g.typ(1) + ")"
	case 29:
		return "make(" + g.chanType(1+g.r.Intn(3)) + ")"
	case 30:
		return "(" + g.chanType(1+g.r.Intn(3)) + ")(nil)"
	case 31:
		return "new(" + g.typ(2) + ")"
	case 32: // slice expressions with every combination of bounds
		return g.id() + []string{"[:]", "[1:]", "[:2]", "[1:2]", "[1:2:3]", "[:2:3]"}[g.r.Intn(6)]
	case 33:
		return g.typ(2) + "{" + g.list(depth, 0, 2) + "}"
	case 34:
		return "[...]int{" + g.list(depth, 1, 3) + "}"
	case 35:
		return "&" + g.id() + "{" + g.id() + ":" + s() + g.expr(depth-1) + "}"
	case 36:
		return g.id() + "(" + g.list(depth, 1, 2) + "...)"
	case 37:
		return "func(" + g.id() + " " + g.typ(1) + ", " + g.id() + " ..." + g.typ(1) + ") (" + g.typ(1) + ", error) {\n\treturn " + g.expr(depth-1) + ", nil\n}"
	case 38:
		return g.id() + "[" + g.typ(1) + ", " + g.typ(1) + "](" + g.expr(depth-1) + ")"
	}
	return "map[string]int{\"a\": " + g.expr(depth-1) + "}"
}

func (g *srcGen) call1(f, arg string) string { return f + "(" + arg + ")" }

func (g *srcGen) call(depth int) string {
	return g.id() + "(" + g.list(depth, 0, 3) + ")"
}

func (g *srcGen) rangeExpr(depth int) string {
	switch g.r.Intn(4) {
	case 0:
		return ":" + g.expr(depth-1)
	case 1:
		return g.expr(depth-1) + ":" + g.expr(depth-1)
	case 2:
		return g.expr(depth-1) + ":" + g.sp() + g.expr(depth-1) + ":" + g.expr(depth-1)
	}
	return g.atom() + ":" + g.atom()
}

func (g *srcGen) block(depth int, ind string) string {
	n := g.r.Intn(3)
	var b strings.Builder
	b.WriteString("{\n")
	for i := 0; i < n; i++ {
		b.WriteString(g.stmt(depth-1, ind+"\t"))
		b.WriteString("\n")
	}
	b.WriteString(ind + "}")
	return b.String()
}

func (g *srcGen) stmt(depth int, ind string) string {
	s := g.sp
	if depth <= 0 {
		return ind + g.id() + " = " + g.expr(1)
	}
	switch g.r.Intn(40) {
	case 0, 1, 2:
		return ind + g.id() + s() + ":=" + s() + g.expr(depth)
	case 3:
		if g.r.Chance(40) { // matrix literal
			return ind + "echo [" + g.list(depth, 1, 3) + ";" + s() + g.list(depth, 1, 3) + "]"
		}
		return ind + "echo " + g.list(depth, 1, 3)
	case 4:
		return ind + "println" + s() + g.expr(depth) + "," + s() + g.expr(depth-1)
	case 5:
		return ind + g.id() + " <- " + g.expr(depth-1)
	case 6:
		return ind + g.id() + s() + "<-" + s() + g.expr(depth-1) + "," + s() + g.expr(depth-1)
	case 7:
		return ind + g.id() + " <- " + g.id() + "..."
	case 8:
		return ind + "for " + g.id() + s() + "in" + s() + g.expr(depth-1) + " " + g.block(depth, ind)
	case 9:
		return ind + "for i, x in " + g.expr(depth-1) + s() + "if" + s() + g.expr(depth-1) + " " + g.block(depth, ind)
	case 10:
		return ind + "for " + g.id() + " in " + g.rangeExpr(depth) + " " + g.block(depth, ind)
	case 11:
		return ind + "for " + g.id() + " <- " + g.expr(depth-1) + " " + g.block(depth, ind)
	case 12:
		return ind + "if " + g.expr(depth-1) + " " + g.block(depth, ind) + " else " + g.block(depth, ind)
	case 13:
		return ind + "for i := 0; i < 3; i++ " + g.block(depth, ind)
	case 14:
		return ind + "switch " + g.id() + " {\n" + ind + "case 1, 2:\n" + g.stmt(depth-1, ind+"\t") + "\n" + ind + "default:\n" + ind + "}"
	case 15:
		return ind + g.id() + "++"
	case 16:
		return ind + "var " + g.id() + s() + "int" + s() + "=" + s() + g.expr(depth-1)
	case 17:
		return ind + g.id() + "." + g.id() + " " + g.expr(depth-1)
	case 18:
		return ind + "defer " + g.call(depth)
	case 19:
		return ind + g.id() + ", " + g.id() + " = " + g.expr(depth-1) + ", " + g.expr(depth-1)
	case 20:
		if e := g.expr(depth); !strings.HasPrefix(e, "func") && !strings.HasPrefix(e, "{") {
			return ind + e
		}
		return ind + g.id() + "()"
	case 21: // variadic command-style calls
		return ind + []string{"println", "echo", "foo.bar"}[g.r.Intn(3)] + s() + g.list(depth, 0, 2) + func() string {
			if g.r.Bool() {
				return ", " + g.id() + "..."
			}
			return g.id() + "..."
		}()
	case 22:
		return ind + "var " + g.id() + s() + g.chanType(1+g.r.Intn(3))
	case 23:
		return ind + "var " + g.id() + ", " + g.id() + " " + g.typ(2) + " = " + g.expr(depth-1) + ", " + g.expr(depth-1)
	case 24:
		return ind + "const " + g.id() + " = " + g.atom()
	case 25:
		return ind + "type " + g.id() + s() + g.typ(2)
	case 26:
		return ind + "L:\n" + ind + "for {\n" + ind + "\tbreak L\n" + ind + "}"
	case 27:
		return ind + "for " + g.expr(depth-1) + " " + g.block(depth, ind)
	case 28:
		return ind + "for ; ; i++ " + g.block(depth, ind)
	case 29:
		return ind + []string{"for range ", "for k := range ", "for k, v := range ", "for k, v = range ", "for _, v := range "}[g.r.Intn(5)] + g.id() + " " + g.block(depth, ind)
	case 30:
		return ind + "if v := " + g.expr(depth-1) + "; v " + g.block(depth, ind) + " else if " + g.id() + " " + g.block(depth, ind) + " else " + g.block(depth, ind)
	case 31:
		return ind + "switch x := " + g.id() + "; {\n" + ind + "case x:\n" + ind + "\tfallthrough\n" + ind + "default:\n" + g.stmt(depth-1, ind+"\t") + "\n" + ind + "}"
	case 32:
		return ind + "switch " + []string{"t := ", ""}[g.r.Intn(2)] + g.id() + ".(type) {\n" + ind + "case int, " + g.typ(1) + ":\n" + ind + "case nil:\n" + g.stmt(depth-1, ind+"\t") + "\n" + ind + "}"
	case 33:
		return ind + "select {\n" + ind + "case v := <-ch:\n" + g.stmt(depth-1, ind+"\t") + "\n" + ind + "case ch <- " + g.atom() + ":\n" + ind + "case <-" + g.id() + ":\n" + ind + "default:\n" + ind + "}"
	case 34:
		return ind + "go func() " + g.block(depth, ind) + "()"
	case 35:
		return ind + g.id() + s() + []string{"+=", "-=", "*=", "<<=", "&^=", "|="}[g.r.Intn(6)] + s() + g.expr(depth-1)
	case 36:
		return ind + g.id() + "--"
	case 37:
		return ind + "goto L"
	case 38:
		return ind + "{\n" + g.stmt(depth-1, ind+"\t") + "\n" + ind + "}"
	}
	return ind + []string{"return", "return " + g.atom(), "continue", "break"}[g.r.Intn(4)]
}

// chanType: channel types of every direction, nested n levels.
func (g *srcGen) chanType(n int) string {
	elem := "int"
	if n > 1 {
		elem = g.chanType(n - 1)
	} else if g.r.Chance(30) {
		elem = g.typ(1)
	}
	sp := []string{" ", "", "  "}[g.r.Intn(3)]
	switch g.r.Intn(3) {
	case 0:
		return "chan " + elem
	case 1:
		return "<-" + sp + "chan " + elem
	}
	if strings.HasPrefix(elem, "<-") {
		return "chan<- (" + elem + ")"
	}
	return "chan<-" + sp + elem
}

// typ: type expressions with their optional parts present and absent.
func (g *srcGen) typ(depth int) string {
	if depth <= 0 {
		return []string{"int", "string", "T", "error", "pkg.T", "any"}[g.r.Intn(6)]
	}
	switch g.r.Intn(12) {
	case 0:
		return "[]" + g.typ(depth-1)
	case 1:
		return "[3]" + g.typ(depth-1)
	case 2:
		return "*" + g.typ(depth-1)
	case 3:
		return "map[" + g.typ(0) + "]" + g.typ(depth-1)
	case 4:
		return g.chanType(1 + g.r.Intn(3))
	case 5:
		return "func(" + g.typ(depth-1) + ")"
	case 6:
		return "func(a, b " + g.typ(depth-1) + ", c ..." + g.typ(0) + ") (x " + g.typ(depth-1) + ", err error)"
	case 7:
		return "func() " + g.typ(depth-1)
	case 8:
		return "struct {\n\ta, b " + g.typ(depth-1) + " `json:\"a\"`\n\t*T\n\tpkg.T\n\tc " + g.typ(depth-1) + " // c\n}"
	case 9:
		return "interface {\n\tM(x " + g.typ(depth-1) + ") " + g.typ(depth-1) + "\n\tN()\n\terror\n}"
	case 10:
		return "struct{}"
	}
	return g.typ(0)
}

// decl: top-level declarations with their optional parts present and absent.
func (g *srcGen) decl() string {
	s := g.sp
	switch g.r.Intn(12) {
	case 0:
		return "import " + []string{`"os"`, `m "math"`, `. "strings"`, `_ "embed"`}[g.r.Intn(4)]
	case 1:
		return "import (\n\t\"os\"\n\tio \"io\" // c\n)"
	case 2:
		return "const (\n\tA" + s() + "= iota\n\tB\n\tC " + g.typ(0) + " = " + g.atom() + "\n)"
	case 3:
		return "var (\n\tx, y " + g.typ(1) + "\n\tz = " + g.expr(1) + "\n)"
	case 4:
		return "type (\n\tP " + g.typ(2) + "\n\tQ = " + g.typ(1) + "\n)"
	case 5:
		return "type S[T any, U comparable] " + g.typ(1)
	case 6:
		return "// doc\nfunc (r *T) M(a " + g.typ(1) + ", b ..." + g.typ(0) + ")" + s() + g.typ(1) + " " + g.block(2, "")
	case 7:
		return "func f(" + g.chanType(2) + ") (n int, err error) " + g.block(2, "")
	case 8:
		return "func ext(x int) int"
	case 9:
		return "func (T).mul = (\n\tmul1\n\t(T).mul2\n)"
	case 10:
		return "func (a T) + (b T) T " + g.block(1, "")
	}
	return "var " + g.id() + " " + g.typ(2) + " = " + g.expr(2)
}
