// Package astx: reflection-based access to XGo syntax trees for the C17/C18 harness commands
// (child enumeration in declaration order, tree dump for the Lean driver, corpus loading,
// tree synthesis for every registered node kind).  Nothing here calls ast.Walk.
package astx

import (
	"embed"
	"fmt"
	"os"
	"path/filepath"
	"reflect"
	"sort"
	"strings"

	"github.com/goplus/xgo/ast"
	"github.com/goplus/xgo/parser"
	"github.com/goplus/xgo/token"
)

var (
	nodeType = reflect.TypeOf((*ast.Node)(nil)).Elem()
	kindOf   = map[reflect.Type]string{} // *T -> "T" for every registered kind
)

func init() {
	for _, n := range AllKinds {
		t := reflect.TypeOf(n)
		kindOf[t] = t.Elem().Name()
	}
}

// KindName returns the kind of a node ("" if it is not a registered kind).
func KindName(n ast.Node) string {
	if n == nil {
		return ""
	}
	return kindOf[reflect.TypeOf(n)]
}

// KindTypes returns the registered pointer types in registry order.
func KindTypes() []reflect.Type {
	ts := make([]reflect.Type, len(AllKinds))
	for i, n := range AllKinds {
		ts[i] = reflect.TypeOf(n)
	}
	return ts
}

// IsNil reports whether n is a nil interface or holds a nil pointer.
func IsNil(n ast.Node) bool {
	if n == nil {
		return true
	}
	v := reflect.ValueOf(n)
	return v.Kind() == reflect.Ptr && v.IsNil()
}

// Child is one entry of a Node-typed field (nil entries included).
type Child struct {
	Slot   string   // field name, or path through a carrier struct: Extra_Parts, Extra_DomainTextLitEx_Args
	Node   ast.Node // may be nil (IsNil)
	NilPtr string   // for a nil entry of pointer type *K: "K" ("" for a nil interface)
}

// Foreign counts entries of fields that hold node types of other packages (go/ast trees).
type Info struct {
	Flags   [][2]string // bool fields: name, "0"/"1"
	Foreign int
}

func isKindPtr(t reflect.Type) bool { _, ok := kindOf[t]; return ok }

func isNodeIface(t reflect.Type) bool {
	return t.Kind() == reflect.Interface && t.NumMethod() > 0 && t.Implements(nodeType)
}

// Children enumerates, by reflection and in declaration order, every entry of every
// Node-typed field of n (directly, in slices, slices of slices, map values in key order, and
// through carrier structs reached by a pointer or an `any` field).
func Children(n ast.Node) ([]Child, Info) {
	var res []Child
	var info Info
	v := reflect.ValueOf(n)
	if v.Kind() != reflect.Ptr || v.IsNil() {
		return nil, info
	}
	s := v.Elem()
	if s.Kind() != reflect.Struct {
		return nil, info
	}
	var field func(slot string, fv reflect.Value, top bool)
	structFields := func(prefix string, sv reflect.Value, top bool) {
		st := sv.Type()
		for i := 0; i < st.NumField(); i++ {
			f := st.Field(i)
			if !f.IsExported() {
				continue
			}
			fv := sv.Field(i)
			if top && f.Type.Kind() == reflect.Bool {
				b := "0"
				if fv.Bool() {
					b = "1"
				}
				info.Flags = append(info.Flags, [2]string{f.Name, b})
				continue
			}
			field(prefix+f.Name, fv, top)
		}
	}
	field = func(slot string, fv reflect.Value, top bool) {
		t := fv.Type()
		switch {
		case isKindPtr(t):
			if fv.IsNil() {
				res = append(res, Child{slot, nil, kindOf[t]})
			} else {
				res = append(res, Child{slot, fv.Interface().(ast.Node), ""})
			}
		case isNodeIface(t):
			if fv.IsNil() {
				res = append(res, Child{slot, nil, ""})
			} else if n := fv.Interface().(ast.Node); IsNil(n) {
				res = append(res, Child{slot, nil, kindOf[reflect.TypeOf(n)]})
			} else {
				res = append(res, Child{slot, n, ""})
			}
		case t.Kind() == reflect.Ptr && t.Implements(nodeType):
			info.Foreign++ // node type of another package
		case t.Kind() == reflect.Slice:
			et := t.Elem()
			if et.Kind() == reflect.Interface && et.NumMethod() == 0 { // []any: parts
				for i := 0; i < fv.Len(); i++ {
					e := fv.Index(i)
					if e.IsNil() {
						continue
					}
					if x, ok := e.Interface().(ast.Expr); ok {
						res = append(res, Child{slot, x, ""})
					}
				}
				return
			}
			if et.Kind() == reflect.Slice || isKindPtr(et) || isNodeIface(et) || (et.Kind() == reflect.Ptr && et.Implements(nodeType)) {
				for i := 0; i < fv.Len(); i++ {
					field(slot, fv.Index(i), false)
				}
			}
		case t.Kind() == reflect.Map:
			et := t.Elem()
			if isKindPtr(et) || isNodeIface(et) || (et.Kind() == reflect.Ptr && et.Implements(nodeType)) {
				keys := fv.MapKeys()
				sort.Slice(keys, func(i, j int) bool { return fmt.Sprint(keys[i]) < fmt.Sprint(keys[j]) })
				for _, k := range keys {
					field(slot, fv.MapIndex(k), false)
				}
			}
		case t.Kind() == reflect.Ptr && t.Elem().Kind() == reflect.Struct && t.Elem().PkgPath() == nodePkg && top:
			// pointer to a carrier struct (e.g. *StringLitEx)
			if !fv.IsNil() {
				structFields(slot+"_", fv.Elem(), false)
			}
		case t.Kind() == reflect.Interface && t.NumMethod() == 0 && top:
			// `any` at node level: follow carriers of this package only
			if fv.IsNil() {
				return
			}
			dv := fv.Elem()
			dt := dv.Type()
			if dt.Kind() == reflect.Ptr && dt.Elem().Kind() == reflect.Struct && dt.Elem().PkgPath() == nodePkg && !dv.IsNil() {
				if isKindPtr(dt) {
					res = append(res, Child{slot, dv.Interface().(ast.Node), ""})
				} else {
					structFields(slot+"_"+dt.Elem().Name()+"_", dv.Elem(), false)
				}
			}
		}
	}
	structFields("", s, true)
	return res, info
}

var nodePkg = reflect.TypeOf(ast.BasicLit{}).PkgPath()

// ---- the reviewed exception lists (mirrors Props/C18.lean: specCfg) ---------------------------

// Excluded fields: Node-typed but deliberately not children for a traversal.
//
//	File.Imports      aliases of the ImportSpecs already reachable through Decls
//	File.Comments     all comments of the file; the attached ones are reachable via Doc/Comment
//	File.ShadowEntry  alias of the last Decl
//	Package.GoFiles   go/ast trees (foreign node types)
var Excluded = map[string]bool{
	"File.Imports": true, "File.Comments": true, "File.ShadowEntry": true, "Package.GoFiles": true,
}

// Guards: fields withdrawn when a flag of the node is set.
//
//	FuncDecl.Shadow   the synthetic entry function of a script-style file: Name/Type (and
//	                  Doc/Recv) are not source constructs
//	File.NoPkgDecl    the package name is implicit
var Guards = map[string]string{
	"FuncDecl.Doc": "Shadow", "FuncDecl.Recv": "Shadow", "FuncDecl.Name": "Shadow", "FuncDecl.Type": "Shadow",
	"File.Name": "NoPkgDecl",
}

// SpecChildren returns the children a traversal has to visit, in source (= declaration)
// order: non-nil entries of non-excluded fields whose guard flag is not set.
func SpecChildren(n ast.Node) []Child {
	kind := KindName(n)
	cs, info := Children(n)
	flags := map[string]bool{}
	for _, f := range info.Flags {
		flags[f[0]] = f[1] == "1"
	}
	var res []Child
	for _, c := range cs {
		key := kind + "." + c.Slot
		if Excluded[key] || IsNil(c.Node) {
			continue
		}
		if g, ok := Guards[key]; ok && flags[g] {
			continue
		}
		res = append(res, c)
	}
	return res
}

// ---- dump for the Lean driver --------------------------------------------------------------

// Dumper assigns ids by node identity and serialises trees:
//
//	node := "0" slot (kind|"-") | "N" slot kind id nflags (name bit)* nkids node*
type Dumper struct {
	ids  map[ast.Node]int
	next int
	sb   strings.Builder
	N    int // nodes dumped
}

func NewDumper() *Dumper { return &Dumper{ids: map[ast.Node]int{}} }

func (d *Dumper) ID(n ast.Node) int {
	if id, ok := d.ids[n]; ok {
		return id
	}
	d.next++
	d.ids[n] = d.next
	return d.next
}

func (d *Dumper) Lookup(n ast.Node) (int, bool) { id, ok := d.ids[n]; return id, ok }

func (d *Dumper) Dump(slot string, n ast.Node) string {
	d.sb.Reset()
	d.dump(Child{Slot: slot, Node: n}, 0)
	return d.sb.String()
}

func (d *Dumper) dump(c Child, depth int) {
	slot, n := c.Slot, c.Node
	if d.sb.Len() > 0 {
		d.sb.WriteByte(' ')
	}
	if IsNil(n) || depth > 4000 {
		ty := c.NilPtr
		if ty == "" {
			ty = "-"
		}
		d.sb.WriteString("0 " + slot + " " + ty)
		return
	}
	kind := KindName(n)
	if kind == "" {
		kind = "?" + reflect.TypeOf(n).String()
	}
	cs, info := Children(n)
	var kept []Child
	for _, c := range cs {
		if !Excluded[kind+"."+c.Slot] {
			kept = append(kept, c)
		}
	}
	d.N++
	fmt.Fprintf(&d.sb, "N %s %s %d %d", slot, kind, d.ID(n), len(info.Flags))
	for _, f := range info.Flags {
		d.sb.WriteString(" " + f[0] + " " + f[1])
	}
	fmt.Fprintf(&d.sb, " %d", len(kept))
	for _, c := range kept {
		d.dump(c, depth+1)
	}
}

// ---- corpus ---------------------------------------------------------------------------------

type Parsed struct {
	Path string
	Src  []byte
	Fset *token.FileSet
	File *ast.File
}

// Repo returns the tree under test.
func Repo() string {
	if r := os.Getenv("VERIF_REPO"); r != "" {
		return r
	}
	return "/repo"
}

// CorpusFiles lists the source files of the repo the XGo parser accepts by extension.
func CorpusFiles() (xgo, gofiles []string) {
	root := Repo()
	filepath.Walk(root, func(p string, fi os.FileInfo, err error) error {
		if err != nil {
			return nil
		}
		if fi.IsDir() {
			if fi.Name() == ".git" {
				return filepath.SkipDir
			}
			if p != root { // a nested checkout / scratch worktree is not part of the tree under test
				if _, err := os.Lstat(filepath.Join(p, ".git")); err == nil {
					return filepath.SkipDir
				}
			}
			return nil
		}
		switch filepath.Ext(p) {
		case ".xgo", ".gox", ".gop", ".spx", ".gmx", ".gsh":
			xgo = append(xgo, p)
		case ".go":
			gofiles = append(gofiles, p)
		}
		return nil
	})
	sort.Strings(xgo)
	sort.Strings(gofiles)
	return
}

// Embedded regression corpus: minimised sources of past C17/C18 failures (always run first).
//
//go:embed corpus/*
var embedded embed.FS

// EmbeddedFiles lists the embedded corpus files.
func EmbeddedFiles() []string {
	ents, _ := embedded.ReadDir("corpus")
	var res []string
	for _, e := range ents {
		res = append(res, e.Name())
	}
	sort.Strings(res)
	return res
}

// ParseEmbedded parses one embedded corpus file.
func ParseEmbedded(name string) (*Parsed, error) {
	src, err := embedded.ReadFile("corpus/" + name)
	if err != nil {
		return nil, err
	}
	return SafeParse("/corpus/"+name, src)
}

// Parse parses one file (classfile kinds detected by extension like `xgo` does); a file with
// any syntax error yields an error.
func Parse(path string, src []byte) (*Parsed, error) {
	fset := token.NewFileSet()
	var in any
	if src != nil {
		in = src
	} else {
		b, err := os.ReadFile(path)
		if err != nil {
			return nil, err
		}
		src, in = b, b
	}
	f, err := parser.ParseEntry(fset, path, in, parser.Config{Mode: parser.ParseComments | parser.AllErrors})
	if err != nil {
		return nil, err
	}
	if f == nil {
		return nil, fmt.Errorf("nil file")
	}
	return &Parsed{Path: path, Src: src, Fset: fset, File: f}, nil
}

// ParseMode parses src under the given file name (its extension selects script / classfile
// parsing) and parser mode.
func ParseMode(path string, src []byte, mode parser.Mode) (p *Parsed, err error) {
	defer func() {
		if e := recover(); e != nil {
			p, err = nil, fmt.Errorf("parser panic: %v", e)
		}
	}()
	fset := token.NewFileSet()
	f, err := parser.ParseEntry(fset, path, src, parser.Config{Mode: mode})
	if err != nil {
		return nil, err
	}
	if f == nil {
		return nil, fmt.Errorf("nil file")
	}
	return &Parsed{Path: path, Src: src, Fset: fset, File: f}, nil
}

// ParseModes: the (extension, mode) combinations sources are parsed in.
var ParseModes = []struct {
	Ext  string
	Mode parser.Mode
}{
	{".xgo", parser.ParseComments | parser.AllErrors},
	{".xgo", 0},
	{".xgo", parser.DeclarationErrors},
	{".gox", parser.ParseComments},
	{".go", parser.ParseComments | parser.ParseGoAsGoPlus},
}

// EmbeddedSource returns the text of an embedded corpus file.
func EmbeddedSource(name string) ([]byte, error) { return embedded.ReadFile("corpus/" + name) }

// SafeParse is Parse with a recover (a parser panic is reported as an error).
func SafeParse(path string, src []byte) (p *Parsed, err error) {
	defer func() {
		if e := recover(); e != nil {
			p, err = nil, fmt.Errorf("parser panic: %v", e)
		}
	}()
	return Parse(path, src)
}
