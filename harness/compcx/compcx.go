// Package compcx (builder compC): in-process XGo compilation like xrun.CompileFile/CompileDir,
// but with an importer cache that is filled by ONE `go list -export -deps` run from the tree
// under test (the default importer runs `go list` once per imported package and again for every
// optional package that is missing, on every compile).
package compcx

import (
	"bytes"
	"errors"
	"fmt"
	"io"
	"os"
	"os/exec"
	"sort"
	"strings"
	"sync"

	"github.com/goplus/gogen/packages"
	"github.com/goplus/xgo/cl"
	"github.com/goplus/xgo/parser/fsx/memfs"
	"github.com/goplus/xgo/token"
	"github.com/goplus/xgo/x/build"
	"verifharness/xrun"
)

type cache struct {
	mu   sync.Mutex
	dir  string
	m    map[string]string // import path -> export file
	fail map[string]string
}

var goEnv = []string{"GOFLAGS=-mod=mod", "GOPROXY=off", "GOSUMDB=off", "GOTOOLCHAIN=local", "CGO_ENABLED=0"}

func (c *cache) list(args ...string) ([]byte, error) {
	cmd := exec.Command("go", append([]string{"list", "-e", "-export", "-f", "{{.ImportPath}}\t{{.Export}}"}, args...)...)
	cmd.Dir = c.dir
	cmd.Env = append(os.Environ(), goEnv...)
	var so, se bytes.Buffer
	cmd.Stdout, cmd.Stderr = &so, &se
	err := cmd.Run()
	if err != nil && so.Len() == 0 {
		return nil, errors.New(strings.TrimSpace(se.String()))
	}
	return so.Bytes(), nil
}

func (c *cache) add(out []byte) {
	for _, line := range strings.Split(string(out), "\n") {
		p := strings.SplitN(line, "\t", 2)
		if len(p) == 2 && p[1] != "" {
			c.m[p[0]] = p[1]
		}
	}
}

// Find implements packages.Cache.
func (c *cache) Find(dir, pkgPath string) (io.ReadCloser, error) {
	c.mu.Lock()
	defer c.mu.Unlock()
	if f, ok := c.m[pkgPath]; ok {
		return os.Open(f)
	}
	if e, ok := c.fail[pkgPath]; ok {
		return nil, errors.New(e)
	}
	out, err := c.list("-deps", pkgPath)
	if err == nil {
		c.add(out)
		if f, ok := c.m[pkgPath]; ok {
			return os.Open(f)
		}
		err = fmt.Errorf("no export data for %s", pkgPath)
	}
	c.fail[pkgPath] = err.Error()
	return nil, err
}

// Warm lists the packages the XGo builtins refer to plus extra in one go.
var warmPkgs = []string{
	"fmt", "os", "reflect", "strconv", "strings", "errors", "sort", "time", "math", "bytes", "io", "sync",
	"github.com/qiniu/x/osx", "github.com/qiniu/x/xgo", "github.com/qiniu/x/xgo/ng",
	"github.com/qiniu/x/stringutil", "github.com/qiniu/x/stringslice",
}

var (
	once sync.Once
	fset *token.FileSet
	imp  *packages.Importer
	mu   sync.Mutex
)

func setup(extra []string) {
	once.Do(func() {
		fset = token.NewFileSet()
		imp = packages.NewImporter(fset, xrun.Repo())
		c := &cache{dir: xrun.Repo(), m: map[string]string{}, fail: map[string]string{}}
		if out, err := c.list(append([]string{"-deps"}, append(warmPkgs, extra...)...)...); err == nil {
			c.add(out)
		}
		imp.SetCache(c)
	})
}

// Importer returns the shared export-data importer (for go/types checks of generated Go).
func Importer() *packages.Importer { setup(nil); return imp }

// FileSet returns the file set of the shared importer.
func FileSet() *token.FileSet { setup(nil); return fset }

// Warm may be called first with additional import paths the generated programs use.
func Warm(extra ...string) { setup(extra) }

func newCtx() *build.Context {
	setup(nil)
	ctx := build.NewContext(imp, fset)
	ctx.LoadConfig = func(c *cl.Config) { c.NoFileLine = true; c.RelativeBase = "/" }
	return ctx
}

// CompileFile compiles one XGo source file (the name decides the kind) to Go source.
func CompileFile(name, src string) (out []byte, err error) {
	mu.Lock()
	defer mu.Unlock()
	defer func() {
		if r := recover(); r != nil {
			err = fmt.Errorf("PANIC: %v", r)
		}
	}()
	return newCtx().BuildFile("/"+name, src)
}

// CompileDir compiles a package given as file name → content.
func CompileDir(files map[string]string) (out []byte, err error) {
	mu.Lock()
	defer mu.Unlock()
	defer func() {
		if r := recover(); r != nil {
			err = fmt.Errorf("PANIC: %v", r)
		}
	}()
	names := make([]string, 0, len(files))
	fmap := map[string]string{}
	for n, d := range files {
		names = append(names, n)
		fmap["/pkg/"+n] = d
	}
	sort.Strings(names)
	mfs := memfs.New(map[string][]string{"/pkg": names}, fmap)
	return newCtx().BuildFSDir(mfs, "/pkg")
}
