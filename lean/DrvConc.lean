import GopModel.Driver.Loop
import GopModel.Driver.Conc
open GopModel.Driver GopModel.Driver.Conc
def main : IO Unit := runDriver (dispatchWith [
  ("wseq", W.handleWseq), ("whist", W.handleWhist), ("pdir", W.handlePdir), ("fseq", F.handleFseq)])
