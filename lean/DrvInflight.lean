import GopModel.Driver.Loop
import GopModel.Driver.InFlight
open GopModel.Driver
def main : IO Unit := runDriver (dispatchWith [("step", handleStep), ("chain", handleChain)])
