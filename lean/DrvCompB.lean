import GopModel.Driver.Loop
import GopModel.Driver.DetSched
import GopModel.Driver.LineDir
import GopModel.Driver.Scope
open GopModel.Driver
def main : IO Unit := runDriver (dispatchWith [("sched", handleSched), ("posfor", handlePosFor), ("posfor1", handlePosFor1), ("scope", handleScope)])
