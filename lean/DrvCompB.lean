import GopModel.Driver.Loop
import GopModel.Driver.DetSched
open GopModel.Driver
def main : IO Unit := runDriver (dispatchWith [("sched", handleSched)])
