import GopModel.Driver.Loop
import GopModel.Driver.DirClassify
import GopModel.Driver.DirHash
open GopModel.Driver
def main : IO Unit := runDriver (dispatchWith [("c34dir", handleC34Dir), ("c34ent", handleC34Ent), ("c36", handleC36), ("c36pair", handleC36Pair)])
