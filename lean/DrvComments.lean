import GopModel.Driver.Loop
import GopModel.Driver.CommentQueue
open GopModel.Driver
def main : IO Unit := runDriver (dispatchWith [("queue", handleQueue)])
