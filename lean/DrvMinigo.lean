import GopModel.Driver.Loop
import GopModel.Driver.Mini
open GopModel.Driver
def main : IO Unit := runDriver (dispatchWith [("mini", handleMini), ("minispec", handleMiniSpec), ("minigo", handleMiniGo)])
