import GopModel.Driver.Loop
import GopModel.Driver.Mini
open GopModel.Driver
def main : IO Unit := runDriver (dispatchWith [("mini", handleMini), ("minilow", handleMiniLow), ("minic", handleMiniC), ("minispec", handleMiniSpec), ("minigo", handleMiniGo)])
