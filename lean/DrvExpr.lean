import GopModel.Driver.Loop
import GopModel.Driver.ExprSyntax
open GopModel.Driver
def main : IO Unit := runDriver (dispatchWith [("pp", handlePP), ("parse", handleParse), ("glue", handleGlue)])
