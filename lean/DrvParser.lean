import GopModel.Driver.Loop
import GopModel.Driver.Parser
open GopModel.Driver
def main : IO Unit := runDriver (dispatchWith [("perr", handlePerr), ("adv", handleAdv), ("cmd", handleCmd)])
