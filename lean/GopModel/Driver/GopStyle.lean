import GopModel.Model.GopStyle
import GopModel.Driver.Util
/-! Line-protocol handlers for the C25 model (ops `c25scope`, `c25lambda`, `c25lower`). -/
namespace GopModel.Driver
open GopModel.GopStyle

def gsNames (s : String) : List String := if s = "" || s = "-" then [] else s.splitOn ","

/-- one postfix token applied to the stack (top first); `none` = malformed -/
def gsStepTok (tok : String) (st : List Stmt) : Option (List Stmt) :=
  match tok.splitOn ":", st with
  | ["skip"], st => some (.skip :: st)
  | ["use", x, sel, tag], st => some (.use x sel tag :: st)
  | ["seq"], b :: a :: st => some (.seq a b :: st)
  | ["block"], s :: st => some (.block s :: st)
  | ["def", ns], r :: st => some (.define (gsNames ns) r :: st)
  | ["var", ns], r :: st => some (.varDecl (gsNames ns) r :: st)
  | ["type", n], b :: st => some (.typeDecl n b :: st)
  | ["flit", ps], b :: st => some (.funcLit (gsNames ps) b :: st)
  | ["if"], e :: t :: c :: i :: st => some (.ifS i c t e :: st)
  | ["for"], b :: p :: c :: i :: st => some (.forS i c p b :: st)
  | ["range", d, kv], b :: x :: st => some (.rangeS (d = "1") (gsNames kv) x b :: st)
  | ["switch"], cl :: t :: i :: st => some (.switchS i t cl :: st)
  | ["clause"], b :: e :: st => some (.clause e b :: st)
  | ["label", l], s :: st => some (.labeled l s :: st)
  | _, _ => none

def gsParsePostfix (toks : List String) : Option Stmt :=
  match toks.foldl (fun acc t => acc.bind (gsStepTok t)) (some []) with
  | some [s] => some s
  | _ => none

def gsParseFunc (s : String) : Option Func :=
  match s.splitOn "|" with
  | [name, recv, isM, ps, rs, body] =>
    (gsParsePostfix ((body.splitOn " ").filter (· ≠ ""))).map fun b =>
      { name := name, recv := gsNames recv, isMethod := isM = "1", params := gsNames ps, results := gsNames rs, body := b }
  | _ => none

def gsParseImports (s : String) : Option (List (String × String)) :=
  mapM? (fun kv => match kv.splitOn "=" with | [k, v] => some (k, v) | _ => none) (gsNames s)

def showGsDec : Dec → String
  | .rewritten t b => t ++ "=R:" ++ b
  | .keptUsed t _ => t ++ "=K"
  | .kept t => t ++ "=K"

/-- `c25scope imports vars types funcs [policy]` -/
def handleC25Scope (fields : List String) : String :=
  match fields with
  | imps :: vars :: types :: funcs :: rest =>
    match gsParseImports imps, mapM? gsParseFunc (if funcs = "-" then [] else funcs.splitOn ";") with
    | some is, some fs =>
      let P := if rest.head? = some "old" then policyOld else policyFixed
      let f : File := { imports := is, vars := gsNames vars, types := gsNames types, funcs := fs }
      let r := fmtFile P f
      ",".intercalate (r.1.map showGsDec) ++ " removed=" ++ ",".intercalate r.2
    | _, _ => "bad-input"
  | _ => "bad-input"

/-- `c25lambda params results body`: params/results fields separated by `;`, gsNames by `,`
(an empty field = unnamed); body: `ret:<n>` statements / `other`, separated by `;`. -/
def handleC25Lambda (fields : List String) : String :=
  match fields with
  | ps :: rs :: body :: rest =>
    let fl (s : String) : List (List String) := if s = "-" then [] else (s.splitOn ";").map gsNames
    let stmts : List BodyStmt := if body = "-" then [] else (body.splitOn ";").map fun t =>
      match t.splitOn ":" with
      | ["ret", n] => .ret (List.range (n.toNat?.getD 0))
      | _ => .other
    match toLambda { params := fl ps, variadic := rest.head? = some "variadic", results := fl rs, body := stmts } with
    | .unchanged => "unchanged"
    | .expr lhs rhs lp rp => s!"expr lhs={",".intercalate lhs} nrhs={rhs.length} lp={lp} rp={rp}"
    | .blockL lhs b lp => s!"block lhs={",".intercalate lhs} nstmts={b.length} lp={lp}"
  | _ => "bad-input"

/-- `c25lower name` → `startWithLowerCase(name)` -/
def handleC25Lower (fields : List String) : String :=
  match fields with
  | n :: _ => lowerCall n
  | _ => "bad-input"

end GopModel.Driver
