import GopModel.Model.LineDir
import GopModel.Driver.Util
/-! `posfor <hex>,<hex>,… <flags>`: the physical lines of a Go file (hex, "-" = empty line) and a
string of 0/1 (1 = the line starts inside a multi-line token).  Answer: for every physical line
k = 1..n its position `P:<line>` (the file itself) or `<hex file>:<line>`, comma-separated. -/
namespace GopModel.Driver
open GopModel.LineDir

def showPos : FileRef × Nat → String
  | (.phys, l) => "P:" ++ toString l
  | (.named f, l) => hexField f ++ ":" ++ toString l

def handlePosFor (fields : List String) : String :=
  match fields with
  | [ls, flags] =>
    match mapM? bytesOfHex (splitList ls ",") with
    | none => "bad-input"
    | some bs =>
      let fl := flags.toList
      if fl.length != bs.length then "bad-input" else
      let lines := (bs.zip fl).map (fun (b, c) => (⟨b, c == '1'⟩ : Line))
      ",".intercalate ((List.range lines.length).map (fun k => showPos (posFor lines (k + 1))))
  | _ => "bad-input"

/-- `posfor1 <hex lines> <flags> <k>`: the specification function itself, for one line. -/
def handlePosFor1 (fields : List String) : String :=
  match fields with
  | [ls, flags, k] =>
    match mapM? bytesOfHex (splitList ls ","), k.toNat? with
    | some bs, some k =>
      let fl := flags.toList
      if fl.length != bs.length then "bad-input" else
      let lines := (bs.zip fl).map (fun (b, c) => (⟨b, c == '1'⟩ : Line))
      showPos (posFor lines k)
    | _, _ => "bad-input"
  | _ => "bad-input"

end GopModel.Driver
