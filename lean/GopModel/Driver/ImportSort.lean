import GopModel.Model.ImportSort
import GopModel.Driver.Util
/- Line-protocol handler for the C23 model (ast.SortImports).
   c23 <decl>|<decl>|…     decl = O | G:<spec>;<spec>… | U:<spec>;…   ("G:" alone = no specs)
                           spec = <hex name>,<hex path>,<hex lit>,<N | hex comment text>,<line>,<endLine>
   → <decl>|…              decl = O | G:<hex name>,<hex path>;… | U:… -/
namespace GopModel.Driver
open GopModel.ImportSort

def parseSpec (s : String) : Option Spec :=
  match s.splitOn "," with
  | [n, p, l, c, ln, el] =>
    match bytesOfHex n, bytesOfHex p, bytesOfHex l, ln.toNat?, el.toNat? with
    | some n, some p, some l, some ln, some el =>
      if c = "N" then some { name := n, path := p, lit := l, comment := none, line := ln, endLine := el }
      else (bytesOfHex c).map fun c => { name := n, path := p, lit := l, comment := some c, line := ln, endLine := el }
    | _, _, _, _, _ => none
  | _ => none

def parseDecl (s : String) : Option Decl :=
  if s = "O" then some .other
  else
    let grouped := s.startsWith "G:"
    if grouped || s.startsWith "U:" then
      (mapM? parseSpec (splitList (s.drop 2).toString ";")).map (Decl.imp grouped)
    else none

def showDecl : Decl → String
  | .other => "O"
  | .imp g specs =>
    (if g then "G:" else "U:") ++ ";".intercalate (specs.map fun s => hexField s.name ++ "," ++ hexField s.path)

def handleC23 (fields : List String) : String :=
  match fields with
  | [ds] =>
    match mapM? parseDecl (splitList ds "|") with
    | some decls => "|".intercalate ((sortImports decls).map showDecl)
    | none => "bad-input"
  | _ => "bad-input"

end GopModel.Driver
