import GopModel.Model.ClassFile
import GopModel.Driver.Util
/-! Line-protocol handler for the C11 model (op `c11type`). -/
namespace GopModel.Driver
open GopModel.ClassFile

def cfStrOfHex (h : String) : Option Str :=
  (bytesOfHex h).map fun bs => bs.map fun b => Char.ofNat b.toNat

def cfHex (s : Str) : String :=
  hexField (s.map fun c => UInt8.ofNat c.toNat)

/-- type expression: `i.<hex>` | `s.<hex>.<hex>` | `o.<hex>` | `p.` prefix(es) for `*`. -/
def parseTypeExprAux : Nat → List String → Option TypeExpr
  | 0, _ => none
  | _ + 1, ["i", n] => (cfStrOfHex n).map .ident
  | _ + 1, ["s", p, n] => do let p ← cfStrOfHex p; let n ← cfStrOfHex n; pure (.sel p n)
  | _ + 1, ["o", t] => (cfStrOfHex t).map .other
  | k + 1, "p" :: rest => (parseTypeExprAux k rest).map .star
  | _ + 1, _ => none

def parseTypeExpr (s : String) : Option TypeExpr :=
  let parts := s.splitOn "."
  parseTypeExprAux (parts.length + 1) parts

def parseSpec (s : String) : Option Spec :=
  match s.splitOn "~" with
  | [names, typ, tag] => do
    let ns ← mapM? cfStrOfHex (if names = "" then [] else names.splitOn ",")
    let t ← parseTypeExpr typ
    let tg ← if tag = "none" then some none else (cfStrOfHex tag).map some
    pure { names := ns, typ := t, tag := tg }
  | _ => none

def parseCfDecl (s : String) : Option Decl :=
  match s.splitOn ":" with
  | ["I"] => some .genImport
  | ["K"] => some .genConst
  | ["T"] => some .genType
  | ["V"] => some (.genVar [])
  | ["V", specs] => (mapM? parseSpec (specs.splitOn ";")).map .genVar
  | ["F", name, recv] => do
    let n ← cfStrOfHex name
    if recv = "-" then pure (.func ⟨n, none⟩)
    else match recv.splitOn "." with
      | [rn, rt, p] => do
        let rn ← cfStrOfHex rn
        let rt ← cfStrOfHex rt
        pure (.func ⟨n, some (rn, rt, p = "1")⟩)
      | _ => none
  | _ => none

def showField (f : Field) : String :=
  cfHex f.name ++ ":" ++ cfHex f.typ ++ ":" ++ (if f.embedded then "1" else "0") ++ ":" ++ cfHex f.tag

def showMethod (m : Method) : String :=
  cfHex m.name ++ ":" ++ cfHex m.recvName ++ ":" ++ cfHex m.recvType ++ ":" ++ (if m.recvPtr then "1" else "0")

/-- `c11type cls decls` -/
def handleC11Type (fields : List String) : String :=
  match fields with
  | cls :: decls :: _ =>
    match cfStrOfHex cls, mapM? parseCfDecl (splitList decls "|") with
    | some c, some ds =>
      match genType c ds with
      | .panic => "panic"
      | .ok t =>
        "ok fields=" ++ ",".intercalate (t.fields.map showField) ++
        " redecl=" ++ ",".intercalate (t.redeclared.map cfHex) ++
        " methods=" ++ ",".intercalate (t.methods.map showMethod) ++
        " globals=" ++ ",".intercalate (t.globals.map cfHex)
    | _, _ => "bad-input"
  | _ => "bad-input"

end GopModel.Driver
