/-
Line-protocol handlers for M4 (MiniGo/MiniXGo): an s-expression reader for programs, the
canonical rendering of values/outcomes, and the ops

  mini <sexpr-prog>      → `<outcome of evalGo (lowerProg p)>` and, when it differs, ` SPEC=<outcome of specEval p>`
  minilow <sexpr-prog>   → `<outcome of evalGo (lowerProg p)>` only
  minic <sexpr-prog>     → `accept` / `reject` (`Prog.compilable`)
  minispec <sexpr-prog>  → `<outcome of specEval p>`
  minigo <sexpr-prog>    → Go text of `lowerProg p` (structural tie / debugging)

Grammar of the s-expressions: see `harness/minigen/ast.go` (`SExp`, the writer) and `toExpr` below.
Strings are `$<hex>` atoms (`$-` = empty), identifiers and numbers are bare atoms.
-/
import GopModel.Model.Lower
import GopModel.Model.MiniPrint
import GopModel.Driver.Util
namespace GopModel.Driver
open GopModel.Mini

inductive SExp where
  | atom (s : String)
  | list (xs : List SExp)
  deriving Inhabited

def tokenize (s : String) : List String :=
  let step := fun (acc : List String × String) (ch : Char) =>
    let (toks, cur) := acc
    let flush := if cur.isEmpty then toks else cur :: toks
    if ch = '(' then ("(" :: flush, "")
    else if ch = ')' then (")" :: flush, "")
    else if ch = ' ' then (flush, "")
    else (toks, cur.push ch)
  let (toks, cur) := s.toList.foldl step ([], "")
  (if cur.isEmpty then toks else cur :: toks).reverse

/-- `parseList fuel toks acc`: reads items until the matching `)`. -/
def parseItems : Nat → List String → List SExp → Option (List SExp × List String)
  | 0, _, _ => none
  | _ + 1, [], _ => none
  | fuel + 1, t :: ts, acc =>
    if t = ")" then some (acc.reverse, ts)
    else if t = "(" then
      match parseItems fuel ts [] with
      | some (xs, rest) => parseItems fuel rest (.list xs :: acc)
      | none => none
    else parseItems fuel ts (.atom t :: acc)

def parseSExp (s : String) : Option SExp :=
  let toks := tokenize s
  match toks with
  | "(" :: ts => match parseItems (toks.length + 1) ts [] with
    | some (xs, []) => some (.list xs)
    | _ => none
  | [a] => some (.atom a)
  | _ => none

def strOfAtom (a : String) : Option String :=
  if a.startsWith "$" then
    match bytesOfHex (a.drop 1).toString with
    | some bs => String.fromUTF8? (ByteArray.mk bs.toArray)
    | none => none
  else none

def optName (a : String) : Option String := if a = "-" then none else some a

def toTy : SExp → Option Ty
  | .atom "int" => some .int
  | .atom "bool" => some .bool
  | .atom "str" => some .str
  | .atom "err" => some .err
  | .list [.atom "list", t] => (toTy t).map Ty.list
  | .list [.atom "map", k, v] => do let k ← toTy k; let v ← toTy v; pure (.map k v)
  | _ => none

def toTys : List SExp → Option (List Ty)
  | [] => some []
  | t :: ts => do let t ← toTy t; let ts ← toTys ts; pure (t :: ts)

def toLitVal : SExp → Option Val
  | .list [.atom "i", .atom n] => n.toInt?.map Val.int
  | .list [.atom "b", .atom "true"] => some (.bool true)
  | .list [.atom "b", .atom "false"] => some (.bool false)
  | .list [.atom "s", .atom h] => (strOfAtom h).map Val.str
  | .list [.atom "e", .atom h] => (strOfAtom h).map Val.err
  | .atom "nil" => some .nil
  | _ => none

def toBinOp : String → Option BinOp
  | "add" => some .add | "sub" => some .sub | "mul" => some .mul | "rem" => some .rem
  | "eq" => some .eq | "ne" => some .ne | "lt" => some .lt | "le" => some .le
  | "gt" => some .gt | "ge" => some .ge | "land" => some .land | "lor" => some .lor
  | _ => none

def atomsOf : List SExp → Option (List String)
  | [] => some []
  | .atom a :: r => (atomsOf r).map (a :: ·)
  | _ => none

mutual
def toExpr : SExp → Option Expr
  | .list [.atom "lit", v] => (toLitVal v).map Expr.lit
  | .list [.atom "zero", t] => (toTy t).map Expr.zero
  | .list [.atom "var", .atom x] => some (.var x)
  | .list [.atom "bin", .atom op, a, b] => do
    let op ← toBinOp op; let a ← toExpr a; let b ← toExpr b; pure (.bin op a b)
  | .list [.atom "not", a] => (toExpr a).map Expr.not
  | .list (.atom "listLit" :: t :: es) => do let t ← toTy t; let es ← toExprs es; pure (.listLit t es)
  | .list (.atom "sliceLit" :: t :: es) => do let t ← toTy t; let es ← toExprs es; pure (.sliceLit t es)
  | .list (.atom "mapLit" :: k :: v :: kvs) => do
    let k ← toTy k; let v ← toTy v; let kvs ← toKVs kvs; pure (.mapLit k v kvs)
  | .list (.atom "xmapLit" :: k :: v :: kvs) => do
    let k ← toTy k; let v ← toTy v; let kvs ← toKVs kvs; pure (.xmapLit k v kvs)
  | .list [.atom "index", t, a, i] => do
    let t ← toTy t; let a ← toExpr a; let i ← toExpr i; pure (.index t a i)
  | .list [.atom "len", a] => (toExpr a).map Expr.len
  | .list (.atom "append" :: .atom sp :: a :: vs) => do
    let a ← toExpr a; let vs ← toExprs vs; pure (.append a vs (sp = "1"))
  | .list (.atom "call" :: .atom f :: args) => do let as ← toExprs args; pure (.call f as)
  | .list [.atom "cmdCall", .atom "probe", .list [.atom "lit", .list [.atom "i", .atom id]], e] => do
    -- `probe id, e` (command style) is the probe node itself: probe is the model's primitive
    let id ← id.toNat?; let e ← toExpr e; pure (.probe id e)
  | .list (.atom "cmdCall" :: .atom f :: args) => do let as ← toExprs args; pure (.cmdCall f as)
  | .list [.atom "probe", .atom id, e] => do let id ← id.toNat?; let e ← toExpr e; pure (.probe id e)
  | .list [.atom "neNil", e] => (toExpr e).map Expr.neNil
  | .list [.atom "newFrame", e, .atom code, .atom fn] => do
    let e ← toExpr e; let code ← strOfAtom code; let fn ← strOfAtom fn; pure (.newFrame e code fn)
  | .list (.atom "listCompr" :: t :: elt :: phs) => do
    let t ← toTy t; let elt ← toExpr elt; let phs ← toPhrases phs; pure (.listCompr t elt phs)
  | .list (.atom "mapCompr" :: kt :: vt :: k :: v :: phs) => do
    let kt ← toTy kt; let vt ← toTy vt; let k ← toExpr k; let v ← toExpr v
    let phs ← toPhrases phs; pure (.mapCompr kt vt k v phs)
  | .list (.atom "selCompr" :: t :: .atom two :: elt :: phs) => do
    let t ← toTy t; let elt ← toExpr elt; let phs ← toPhrases phs
    pure (.selCompr t elt phs (two = "1"))
  | .list (.atom "existsCompr" :: phs) => do let phs ← toPhrases phs; pure (.existsCompr phs)
  | .list (.atom "errBang" :: .atom code :: .atom f :: .list (.atom "tys" :: tys) :: args) => do
    let code ← strOfAtom code; let tys ← toTys tys; let as ← toExprs args
    pure (.errBang code f as tys)
  | .list (.atom "errQ" :: .atom code :: .atom f :: .list (.atom "tys" :: tys) :: args) => do
    let code ← strOfAtom code; let tys ← toTys tys; let as ← toExprs args
    pure (.errQ code f as tys)
  | .list (.atom "errDflt" :: .atom f :: t :: d :: args) => do
    let t ← toTy t; let d ← toExpr d; let as ← toExprs args; pure (.errDflt f as t d)
  | _ => none
def toExprs : List SExp → Option (List Expr)
  | [] => some []
  | e :: es => do let e ← toExpr e; let es ← toExprs es; pure (e :: es)
def toKVs : List SExp → Option (List KV)
  | [] => some []
  | .list [.atom "kv", k, v] :: r => do
    let k ← toExpr k; let v ← toExpr v; let r ← toKVs r; pure (.mk k v :: r)
  | _ => none
def toFilter : SExp → Option Filter
  | .atom "nof" => some .none
  | .list [.atom "cond", c] => (toExpr c).map Filter.cond
  | .list [.atom "init", .atom x, i, c] => do let i ← toExpr i; let c ← toExpr c; pure (.initCond x i c)
  | _ => none
def toPhrases : List SExp → Option (List Phrase)
  | [] => some []
  | .list [.atom "ph", .atom key, .atom val, x, f] :: r => do
    let x ← toExpr x; let f ← toFilter f; let r ← toPhrases r
    pure (.mk (optName key) val x f :: r)
  | _ => none
end

mutual
def toStmt : SExp → Option Stmt
  | .list (.atom "define" :: .list xs :: es) => do
    let xs ← atomsOf xs; let es ← toExprs es; pure (.define xs es)
  | .list (.atom "assign" :: .list xs :: es) => do
    let xs ← atomsOf xs; let es ← toExprs es; pure (.assign xs es)
  | .list [.atom "setIndex", .atom m, k, v] => do let k ← toExpr k; let v ← toExpr v; pure (.setIndex m k v)
  | .list [.atom "varDecl", .atom x, t] => (toTy t).map (Stmt.varDecl x)
  | .list [.atom "expr", e] => (toExpr e).map Stmt.expr
  | .list [.atom "if", f, .list thn, .list els] => do
    let f ← toFilter f; let thn ← toStmts thn; let els ← toStmts els; pure (.ifS f thn els)
  | .list (.atom "forRange" :: .atom key :: .atom val :: x :: body) => do
    let x ← toExpr x; let body ← toStmts body; pure (.forRange (optName key) (optName val) x body)
  | .list (.atom "forC" :: .list init :: cond :: .list post :: body) => do
    let init ← toStmts init; let cond ← toExpr cond; let post ← toStmts post
    let body ← toStmts body; pure (.forC init cond post body)
  | .list (.atom "ret" :: es) => (toExprs es).map Stmt.ret
  | .list [.atom "panic", e] => (toExpr e).map Stmt.panic
  | .list (.atom "block" :: ss) => (toStmts ss).map Stmt.block
  | .list (.atom "send" :: .atom a :: .atom sp :: vs) => do
    let vs ← toExprs vs; pure (.send a vs (sp = "1"))
  | .list (.atom "forIn" :: .atom key :: .atom val :: x :: f :: body) => do
    let x ← toExpr x; let f ← toFilter f; let body ← toStmts body
    pure (.forIn (optName key) val x f body)
  | _ => none
def toStmts : List SExp → Option (List Stmt)
  | [] => some []
  | s :: ss => do let s ← toStmt s; let ss ← toStmts ss; pure (s :: ss)
end

def toParams : List SExp → Option (List (String × Ty))
  | [] => some []
  | .list [.atom x, t] :: r => do
    let t ← toTy t; let r ← toParams r; pure (((if x = "-" then "" else x), t) :: r)
  | _ => none

def toFunc : SExp → Option FuncDecl
  | .list (.atom "func" :: .atom name :: .list ps :: .list rs :: body) => do
    let ps ← toParams ps; let rs ← toParams rs; let body ← toStmts body
    pure { name := name, params := ps, results := rs, body := body }
  | _ => none

def toFuncs : List SExp → Option (List FuncDecl)
  | [] => some []
  | f :: fs => do let f ← toFunc f; let fs ← toFuncs fs; pure (f :: fs)

def toProg : SExp → Option Prog
  | .list (.atom "prog" :: .atom entry :: fs) => do
    let fs ← toFuncs fs; pure { funcs := fs, entry := entry }
  | _ => none

/-! ### rendering -/

def showTrace (tr : Trace) : String :=
  "|".intercalate (tr.map fun e => toString e.1 ++ ":" ++ showVal e.2)

def showOutcome : Outcome → String
  | .done tr => showTrace tr ++ ";done"
  | .panic v tr => showTrace tr ++ ";panic:" ++ showVal v
  | .timeout tr => showTrace tr ++ ";timeout"
  | .stuck => ";stuck"

def miniFuel : Nat := 64

def runProg (p : Prog) : String := showOutcome (evalProg miniFuel p.funcs p.entry)

def handleMini (fields : List String) : String :=
  match (parseSExp (fields.headD "")).bind toProg with
  | none => "bad-input"
  | some p =>
    let l := runProg (lowerProg p)
    let s := runProg p
    let c := if p.compilable then "" else " NOTCOMPILABLE"
    if l = s then l ++ c else l ++ " SPEC=" ++ s ++ c

/-- Only the lowered program (scenarios outside the property's reading: tie only). -/
def handleMiniLow (fields : List String) : String :=
  match (parseSExp (fields.headD "")).bind toProg with
  | none => "bad-input"
  | some p => runProg (lowerProg p) ++ (if p.compilable then "" else " NOTCOMPILABLE")

/-- Model of "the compiler accepts this program (and emits valid Go)". -/
def handleMiniC (fields : List String) : String :=
  match (parseSExp (fields.headD "")).bind toProg with
  | none => "bad-input"
  | some p => if p.compilable then "accept" else "reject"

def handleMiniSpec (fields : List String) : String :=
  match (parseSExp (fields.headD "")).bind toProg with
  | none => "bad-input"
  | some p => runProg p

def handleMiniGo (fields : List String) : String :=
  match (parseSExp (fields.headD "")).bind toProg with
  | none => "bad-input"
  | some p => (printProg (lowerProg p)).replace "\n" "\\n"

end GopModel.Driver
