import GopModel.Driver.Proj
/- Dispatch table of the line-protocol driver: first tab-separated field selects the handler. -/
namespace GopModel.Driver

def handlers : List (String × (List String → String)) := [
  ("projs", handleProjs)
]

def dispatch (line : String) : String :=
  match line.splitOn "\t" with
  | [] => "bad-op"
  | op :: fields =>
    match handlers.lookup op with
    | some h => h fields
    | none => "bad-op"

end GopModel.Driver
