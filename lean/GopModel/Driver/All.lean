import GopModel.Driver.Loop
import GopModel.Driver.Proj
/- Handlers of the default driver executable `gopdriver` (small pure-core models).
Larger model groups have their own executable (see lakefile.toml). -/
namespace GopModel.Driver

def handlers : List (String × (List String → String)) := [
  ("projs", handleProjs)
]

end GopModel.Driver
