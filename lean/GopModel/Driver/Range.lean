import GopModel.Model.Range
import GopModel.Generated.RangeLoop
import GopModel.Driver.Util
/-! Line-protocol handlers for C04:
  rfor  <ctx> <cap> <start|_> <end> <step|_>   → the emitted `for` loop (shape from Generated/RangeLoop)
  renum <ctx> <cap> <start|_> <end> <step|_>   → the iterator (newRange … Gop_Enum/Next)
Output: `done v,v,…` | `cap v,v,…` (still running after <cap> iterations) | `panic`; `-` = no values. -/
namespace GopModel.Driver
open GopModel.Range GopModel.Generated.RangeLoop

def showInts (l : List Int) : String :=
  if l.isEmpty then "-" else ",".intercalate (l.map toString)

def showOut : Out → String
  | .done l => "done " ++ showInts l
  | .outOfFuel l => "cap " ++ showInts l
  | .panic => "panic"

def optInt (s : String) : Option (Option Int) :=
  if s = "_" then some none else (s.toInt?).map some

def parseRange : List String → Option (Nat × RangeExpr)
  | [_, cap, s, e, k] => do
    let cap ← cap.toNat?
    let s ← optInt s
    let e ← e.toInt?
    let k ← optInt k
    pure (cap, { first := s, last := e, step := k })
  | _ => none

def handleRFor (fields : List String) : String :=
  match parseRange fields with
  | none => "bad-input"
  | some (cap, r) => showOut (r.runFor shape cap)

def handleREnum (fields : List String) : String :=
  match parseRange fields with
  | none => "bad-input"
  | some (cap, r) => showOut (r.runEnum enumDefStart enumDefStep cap)

end GopModel.Driver
