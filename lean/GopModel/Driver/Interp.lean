import GopModel.Model.Interp
import GopModel.Driver.Util
/-! Line-protocol handlers for C05:
  isplit <q> <hex text>              → `stringLitEx` on the text between the quotes:
                                        `nil|<parts> <err>`; parts `S:<hex>` / `E:<off>:<end>` joined by `|`;
                                        err `-`, `U@<off>` (unterminated `${`), `N@<off>` (neither)
  ival <q> <hex text> <hex,hex,…>    → value of the literal when the i-th hole evaluates to the i-th string
                                        (q = d: simple escapes of "…" are unquoted; q = r: raw)
-/
namespace GopModel.Driver
open GopModel.Interp

def showPart : Part → String
  | .str s => "S:" ++ hexField s
  | .expr a b => "E:" ++ toString a ++ ":" ++ toString b

def showErr : Option Err → String
  | none => "-"
  | some (.unterminated o) => "U@" ++ toString o
  | some (.neither o) => "N@" ++ toString o

def showRes : Option Res → String
  | none => "OUTOFFUEL"
  | some r =>
    (match r.parts with
     | none => "nil"
     | some ps => "|".intercalate (ps.map showPart)) ++ " " ++ showErr r.err

def handleISplit (fields : List String) : String :=
  match fields with
  | [_, h] =>
    match bytesOfHex h with
    | none => "bad-input"
    | some t => showRes (splitParts t)
  | _ => "bad-input"

/-- Unquote the escapes the generator uses inside "…": \n \t \\ \" \xHH (driver-side helper;
the theorems treat unquoting as Go's). `none` = an escape this helper does not know. -/
def unquoteD : Nat → List UInt8 → Option (List UInt8)
  | 0, _ => none
  | _, [] => some []
  | fuel + 1, c :: t =>
    if c = 0x5c then
      match t with
      | 0x6e :: r => (unquoteD fuel r).map (0x0a :: ·)
      | 0x74 :: r => (unquoteD fuel r).map (0x09 :: ·)
      | 0x5c :: r => (unquoteD fuel r).map (0x5c :: ·)
      | 0x22 :: r => (unquoteD fuel r).map (0x22 :: ·)
      | 0x78 :: a :: b :: r =>
        match hexVal (Char.ofNat a.toNat), hexVal (Char.ofNat b.toNat) with
        | some x, some y => (unquoteD fuel r).map (UInt8.ofNat (x * 16 + y) :: ·)
        | _, _ => none
      | _ => none
    else (unquoteD fuel t).map (c :: ·)

def unq (q : String) (s : List UInt8) : Option (List UInt8) :=
  if q = "r" then some s else unquoteD (s.length + 1) s

/-- value of the parts: string parts unquoted one by one (as `compileStringLitEx` emits one
literal per part), holes filled in order -/
def partsValue (q : String) : List Part → List (List UInt8) → Option (List UInt8)
  | [], _ => some []
  | .str s :: t, vs => do
    let a ← unq q (trimDD s)
    let b ← partsValue q t vs
    pure (a ++ b)
  | .expr _ _ :: t, v :: vs => do
    let b ← partsValue q t vs
    pure (v ++ b)
  | .expr _ _ :: _, [] => none

def handleIVal (fields : List String) : String :=
  match fields with
  | [q, h, vs] =>
    match bytesOfHex h, mapM? bytesOfHex (splitList vs ",") with
    | some t, some vals =>
      match splitParts t with
      | some ⟨none, none⟩ => (match unq q t with | some v => "V:" ++ hexField v | none => "bad-escape")
      | some ⟨some ps, none⟩ =>
        (match partsValue q ps vals with | some v => "V:" ++ hexField v | none => "bad-escape")
      | some ⟨_, some e⟩ => "ERR " ++ showErr (some e)
      | none => "OUTOFFUEL"
    | _, _ => "bad-input"
  | _ => "bad-input"

end GopModel.Driver
