import GopModel.Model.FS
import GopModel.Lemmas.FSSafe
import GopModel.Generated.FmtWrite
import GopModel.Driver.Util
namespace GopModel.Driver
open GopModel.FS

/-! Line protocol of `drv_fs` (property C26).

Operation lists: comma separated, modes octal, `p`/`t` = path / temp file:
`st` | `ls` | `ct:<mode>` | `ow:<p|t>:<creat><excl><trunc as 0/1>:<mode>` | `w` | `cf:<mode|o>` |
`cn:<p|t>:<mode|o>` | `sy` | `cl` | `rm:<p|t>` | `rn:<p|t>:<p|t>`   (`o` = the permission bits seen by `st`)

* `fsprog <mode>`: the operations of the GENERATED program when every call succeeds, without
  `st`, `o` replaced by `<mode>` — compared with the system calls of the real `xgo fmt`.
* `fsrun <ops> <k> <mode> <umask>`: run the model on `<ops>`, kill after `k` operations, report
  `path=<orig|fmt|missing|other>:<mode|-> tmp=<0|1>` — compared with the real file system after a
  real SIGKILL at that point.
* `fssafe <ops>`: `SafeSeq`/`SafeSeqMode` of an observed operation list.
* `fsmode <ops>`: `ModeSafeSeq` of an observed operation list (informational, stronger than C26). -/

def octOfNat (n : Nat) : String := String.ofList (Nat.toDigits 8 n)

def natOfOct (s : String) : Option Nat :=
  if s.isEmpty then none
  else s.toList.foldl (fun acc c =>
    match acc with
    | none => none
    | some a => if '0' ≤ c ∧ c ≤ '7' then some (a * 8 + (c.toNat - 48)) else none) (some 0)

def showRef : Ref → String
  | .path => "p"
  | .tmp => "t"

def parseRef (s : String) : Option Ref :=
  if s = "p" then some .path else if s = "t" then some .tmp else none

def showModeE (orig : Option Nat) : ModeE → String
  | .const m => octOfNat m
  | .origPerm => match orig with
    | some m => octOfNat m
    | none => "o"

def parseModeE (s : String) : Option ModeE :=
  if s = "o" then some .origPerm else (natOfOct s).map ModeE.const

def bit (b : Bool) : String := if b then "1" else "0"

def showOp (orig : Option Nat) : Op → String
  | .stat => "st"
  | .lstat => "ls"
  | .createTemp m => "ct:" ++ octOfNat m
  | .openW r c e t m => "ow:" ++ showRef r ++ ":" ++ bit c ++ bit e ++ bit t ++ ":" ++ octOfNat m
  | .write => "w"
  | .chmodFd m => "cf:" ++ showModeE orig m
  | .chmodName r m => "cn:" ++ showRef r ++ ":" ++ showModeE orig m
  | .sync => "sy"
  | .close => "cl"
  | .remove r => "rm:" ++ showRef r
  | .rename a b => "rn:" ++ showRef a ++ ":" ++ showRef b

def parseOp (s : String) : Option Op :=
  match s.splitOn ":" with
  | ["st"] => some .stat
  | ["ls"] => some .lstat
  | ["ct", m] => (natOfOct m).map Op.createTemp
  | ["ow", r, f, m] =>
    match parseRef r, f.toList, natOfOct m with
    | some r, [c, e, t], some m =>
      if (c = '0' ∨ c = '1') ∧ (e = '0' ∨ e = '1') ∧ (t = '0' ∨ t = '1') then
        some (.openW r (c = '1') (e = '1') (t = '1') m)
      else none
    | _, _, _ => none
  | ["w"] => some .write
  | ["cf", m] => (parseModeE m).map Op.chmodFd
  | ["cn", r, m] =>
    match parseRef r, parseModeE m with
    | some r, some m => some (.chmodName r m)
    | _, _ => none
  | ["sy"] => some .sync
  | ["cl"] => some .close
  | ["rm", r] => (parseRef r).map Op.remove
  | ["rn", a, b] =>
    match parseRef a, parseRef b with
    | some a, some b => some (.rename a b)
    | _, _ => none
  | _ => none

def parseOps (s : String) : Option (List Op) :=
  if s = "-" then some [] else mapM? parseOp (splitList s ",")

def showOps (orig : Option Nat) (ops : List Op) : String :=
  if ops.isEmpty then "-" else ",".intercalate (ops.map (showOp orig))

def handleFsProg (fields : List String) : String :=
  match fields with
  | mode :: _ =>
    match natOfOct mode with
    | some m =>
      showOps (some m) ((mainOps GopModel.Generated.FmtWrite.prog).filter (fun o => o != Op.stat && o != Op.lstat))
    | none => "bad-input"
  | _ => "bad-input"

/-- stand-in contents: the model is parametric in them -/
def standOrig : Bytes := [0x4f, 0x52, 0x49, 0x47]
def standFmt : Bytes := [0x46, 0x4d, 0x54]

def classify (f : Option File) : String :=
  match f with
  | none => "missing:-"
  | some f =>
    (if f.content = standOrig then "orig" else if f.content = standFmt then "fmt" else "other")
      ++ ":" ++ octOfNat f.mode

def handleFsRun (fields : List String) : String :=
  match fields with
  | ops :: k :: mode :: umask :: _ =>
    match parseOps ops, k.toNat?, natOfOct mode, natOfOct umask with
    | some ops, some k, some mode, some umask =>
      let s := runUntilCrash standFmt (ops.map Ev.ok) k none (fun _ => 0)
        (init standOrig mode none umask)
      "path=" ++ classify s.path ++ " tmp=" ++ (if s.tmp.isSome then "1" else "0")
    | _, _, _, _ => "bad-input"
  | _ => "bad-input"

def handleFsSafe (fields : List String) : String :=
  match fields with
  | ops :: _ =>
    match parseOps ops with
    | some ops =>
      let t := ops.map Ev.ok
      "safeseq=" ++ bit (SafeSeq t) ++ " modekept=" ++ bit (SafeSeqMode t)
    | none => "bad-input"
  | _ => "bad-input"

/-- `fsmode <ops>`: does the model predict the original permission bits at every crash point
(`ModeSafeSeq`, stronger than the property)?  Compared with what the kills showed. -/
def handleFsMode (fields : List String) : String :=
  match fields with
  | ops :: _ =>
    match parseOps ops with
    | some ops => "modeatcrash=" ++ bit (ModeSafeSeq (ops.map Ev.ok))
    | none => "bad-input"
  | _ => "bad-input"

end GopModel.Driver
