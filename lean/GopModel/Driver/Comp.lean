/-
Line-protocol handlers of drv_comp (C01): decode a GoProg from the prefix token encoding written
by harness/compa/gogen.go, run `evalG`, print the canonical outcome.
  evalg \t <fuel> \t <program tokens separated by blanks>
  -> exit=<n> panic=<hex|-> stdout=<hex|->   |  TIMEOUT  |  STUCK <why>  |  bad-input
-/
import GopModel.Model.CompGo
import GopModel.Driver.Util
namespace GopModel.Driver
open GopModel.CompGo

abbrev Toks := List String

def strOfHex (h : String) : Option String :=
  (bytesOfHex h).map fun bs => String.ofList (bs.map fun b => Char.ofNat b.toNat)

def hexOfStr (s : String) : String := hexField s.toUTF8.toList

def binOpOf : String → Option BinOp
  | "add" => some .add | "sub" => some .sub | "mul" => some .mul | "div" => some .div
  | "mod" => some .mod | "eq" => some .eq | "ne" => some .ne | "lt" => some .lt
  | "le" => some .le | "gt" => some .gt | "ge" => some .ge | "land" => some .land
  | "lor" => some .lor | _ => none

def unOpOf : String → Option UnOp
  | "neg" => some .neg | "not" => some .not | _ => none

def parseNames : Nat → Toks → Option (List String × Toks)
  | 0, ts => some ([], ts)
  | n + 1, t :: ts => do
    let (r, ts') ← parseNames n ts
    pure (t :: r, ts')
  | _, [] => none

mutual
  def pExpr : Nat → Toks → Option (Expr × Toks)
    | 0, _ => none
    | fuel + 1, ts =>
      match ts with
      | "i" :: n :: r => n.toInt?.map fun i => (.int i, r)
      | "b" :: n :: r => some (.bool (n == "1"), r)
      | "s" :: h :: r => (strOfHex h).map fun s => (.str s, r)
      | "v" :: x :: r => some (.var x, r)
      | "bin" :: o :: r => do
        let op ← binOpOf o
        let (a, r1) ← pExpr fuel r
        let (b, r2) ← pExpr fuel r1
        pure (.bin op a b, r2)
      | "un" :: o :: r => do
        let op ← unOpOf o
        let (a, r1) ← pExpr fuel r
        pure (.un op a, r1)
      | "call" :: f :: n :: r => do
        let k ← n.toNat?
        let (args, r1) ← pExprs fuel k r
        pure (.call f args, r1)
      | "len" :: r => do let (a, r1) ← pExpr fuel r; pure (.len a, r1)
      | "ix" :: r => do
        let (a, r1) ← pExpr fuel r
        let (i, r2) ← pExpr fuel r1
        pure (.index a i, r2)
      | "sl" :: n :: r => do
        let k ← n.toNat?
        let (es, r1) ← pExprs fuel k r
        pure (.sliceLit es, r1)
      | "app" :: r => do
        let (a, r1) ← pExpr fuel r
        match r1 with
        | n :: r2 => do
          let k ← n.toNat?
          let (es, r3) ← pExprs fuel k r2
          pure (.append a es, r3)
        | [] => none
      | "cpy" :: r => do let (a, r1) ← pExpr fuel r; pure (.copy a, r1)
      | "spr" :: r => do let (a, r1) ← pExpr fuel r; pure (.sprint a, r1)
      | _ => none
  def pExprs : Nat → Nat → Toks → Option (List Expr × Toks)
    | 0, _, _ => none
    | _ + 1, 0, ts => some ([], ts)
    | fuel + 1, k + 1, ts => do
      let (e, r1) ← pExpr fuel ts
      let (es, r2) ← pExprs fuel k r1
      pure (e :: es, r2)
end

def pLHS (fuel : Nat) : Toks → Option (LHS × Toks)
  | "lv" :: x :: r => some (.var x, r)
  | "li" :: x :: r => do let (i, r1) ← pExpr fuel r; pure (.idx x i, r1)
  | _ => none

def pLHSs (fuel : Nat) : Nat → Toks → Option (List LHS × Toks)
  | 0, ts => some ([], ts)
  | k + 1, ts => do
    let (l, r1) ← pLHS fuel ts
    let (ls, r2) ← pLHSs fuel k r1
    pure (l :: ls, r2)

def pOExpr (fuel : Nat) : Toks → Option (Option Expr × Toks)
  | "none" :: r => some (none, r)
  | "some" :: r => do let (e, r1) ← pExpr fuel r; pure (some e, r1)
  | _ => none

/-- `<n> E*` -/
def pCountedExprs (fuel : Nat) : Toks → Option (List Expr × Toks)
  | n :: r => do let k ← n.toNat?; pExprs fuel k r
  | [] => none

mutual
  def pStmt : Nat → Toks → Option (Stmt × Toks)
    | 0, _ => none
    | fuel + 1, ts =>
      match ts with
      | "def" :: n :: r => do
        let k ← n.toNat?
        let (xs, r1) ← parseNames k r
        let (es, r2) ← pCountedExprs fuel r1
        pure (.define xs es, r2)
      | "asg" :: n :: r => do
        let k ← n.toNat?
        let (ls, r1) ← pLHSs fuel k r
        let (es, r2) ← pCountedExprs fuel r1
        pure (.assign ls es, r2)
      | "opa" :: r => do
        let (l, r1) ← pLHS fuel r
        match r1 with
        | o :: r2 => do
          let op ← binOpOf o
          let (e, r3) ← pExpr fuel r2
          pure (.opAssign l op e, r3)
        | [] => none
      | "inc" :: r => do let (l, r1) ← pLHS fuel r; pure (.incDec l true, r1)
      | "dec" :: r => do let (l, r1) ← pLHS fuel r; pure (.incDec l false, r1)
      | "pln" :: r => do let (es, r1) ← pCountedExprs fuel r; pure (.println es, r1)
      | "xcall" :: f :: r => do let (es, r1) ← pCountedExprs fuel r; pure (.exprCall f es, r1)
      | "if" :: r => do
        let (init, r1) ← pOStmt fuel r
        let (c, r2) ← pExpr fuel r1
        let (t, r3) ← pBlock fuel r2
        let (e, r4) ← pBlock fuel r3
        pure (.ifS init c t e, r4)
      | "for" :: r => do
        let (init, r1) ← pOStmt fuel r
        let (c, r2) ← pOExpr fuel r1
        let (post, r3) ← pOStmt fuel r2
        let (body, r4) ← pBlock fuel r3
        pure (.forS init c post body, r4)
      | "rng" :: k :: v :: r => do
        let (e, r1) ← pExpr fuel r
        let (body, r2) ← pBlock fuel r1
        pure (.rangeS k v e body, r2)
      | "sw" :: r => do
        let (init, r1) ← pOStmt fuel r
        let (tag, r2) ← pOExpr fuel r1
        match r2 with
        | n :: r3 => do
          let k ← n.toNat?
          let (cases, r4) ← pCases fuel k r3
          match r4 with
          | "none" :: r5 => pure (.switchS init tag cases none, r5)
          | "some" :: r5 => do
            let (d, r6) ← pBlock fuel r5
            pure (.switchS init tag cases (some d), r6)
          | _ => none
        | [] => none
      | "brk" :: r => some (.brk, r)
      | "cnt" :: r => some (.cont, r)
      | "ret" :: r => do let (es, r1) ← pCountedExprs fuel r; pure (.ret es, r1)
      | "blk" :: r => do let (b, r1) ← pBlock fuel r; pure (.block b, r1)
      | "pan" :: r => do let (e, r1) ← pExpr fuel r; pure (.panicS e, r1)
      | "exit" :: r => do let (e, r1) ← pExpr fuel r; pure (.exit e, r1)
      | _ => none
  def pOStmt : Nat → Toks → Option (Option Stmt × Toks)
    | 0, _ => none
    | fuel + 1, ts =>
      match ts with
      | "none" :: r => some (none, r)
      | "some" :: r => do let (s, r1) ← pStmt fuel r; pure (some s, r1)
      | _ => none
  def pBlock : Nat → Toks → Option (List Stmt × Toks)
    | 0, _ => none
    | fuel + 1, ts =>
      match ts with
      | n :: r => do let k ← n.toNat?; pStmts fuel k r
      | [] => none
  def pStmts : Nat → Nat → Toks → Option (List Stmt × Toks)
    | 0, _, _ => none
    | _ + 1, 0, ts => some ([], ts)
    | fuel + 1, k + 1, ts => do
      let (s, r1) ← pStmt fuel ts
      let (ss, r2) ← pStmts fuel k r1
      pure (s :: ss, r2)
  def pCases : Nat → Nat → Toks → Option (List (List Expr × List Stmt) × Toks)
    | 0, _, _ => none
    | _ + 1, 0, ts => some ([], ts)
    | fuel + 1, k + 1, ts => do
      let (es, r1) ← pCountedExprs fuel ts
      let (b, r2) ← pBlock fuel r1
      let (cs, r3) ← pCases fuel k r2
      pure ((es, b) :: cs, r3)
end

def pFunc (fuel : Nat) : Toks → Option (FuncDecl × Toks)
  | "fn" :: name :: np :: r => do
    let k ← np.toNat?
    let (ps, r1) ← parseNames k r
    match r1 with
    | nr :: r2 => do
      let nres ← nr.toNat?
      let (body, r3) ← pBlock fuel r2
      pure (⟨name, ps, nres, body⟩, r3)
    | [] => none
  | _ => none

def pFuncs (fuel : Nat) : Nat → Toks → Option (List FuncDecl × Toks)
  | 0, ts => some ([], ts)
  | k + 1, ts => do
    let (f, r1) ← pFunc fuel ts
    let (fs, r2) ← pFuncs fuel k r1
    pure (f :: fs, r2)

def parseProg (s : String) : Option GoProg :=
  let ts := (s.splitOn " ").filter (· ≠ "")
  match ts with
  | n :: r =>
    match n.toNat? with
    | some k =>
      match pFuncs (2 * ts.length + 16) k r with
      | some (fs, []) => some ⟨fs⟩
      | _ => none
    | none => none
  | [] => none

def showRes : Res → String
  | .timeout => "TIMEOUT"
  | .stuck why => "STUCK " ++ why
  | .done o =>
    "exit=" ++ toString o.exit ++ " panic=" ++ (match o.panic with | some p => hexOfStr p | none => "none")
      ++ " stdout=" ++ hexOfStr (String.join (o.stdout.map (· ++ "\n")))

/-- `evalg <fuel> <prog>` -/
def handleEvalG (fields : List String) : String :=
  match fields with
  | fuel :: prog :: _ =>       -- an optional third field carries the Go source (replay only)
    match fuel.toNat?, parseProg prog with
    | some n, some p => showRes (evalG n p)
    | _, _ => "bad-input"
  | _ => "bad-input"

/-- `skip …`: a case compared two-way on the Go side only (features outside the model). -/
def handleSkip (_ : List String) : String := "skip"

end GopModel.Driver
