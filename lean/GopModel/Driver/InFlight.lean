/-
Line-protocol handlers for the C39 model (driver executable `drv_inflight`).

  step  <line> <pre> <post> <retired>   one recorded `updateInFlight` call of a real run:
        answers `ok` iff the model transition of the closure at conn.go:<line>, followed by the
        epilogue, maps <pre> to <post> (for some value of the closure's captured inputs, searched
        among the objects visible in the two states) and retires exactly <retired>;
        `INV <name>` if a recorded state violates an invariant proved in Props/C39.lean;
        `MISMATCH …` otherwise.
  chain <post_k> <pre_k+1>              consecutive records of one connection: the state must not
        change outside `updateInFlight`.

State syntax: `<flags>;<outNotif>;<incoming>;<outgoing>;<byID>;<queue>` (see harness/cmd/c39).
-/
import GopModel.Model.InFlight
import GopModel.Generated.InFlightSites
import GopModel.Driver.Util
namespace GopModel.Driver
open GopModel.InFlight

def parseID (s : String) : Option ID :=
  if s = "-" then some ID.none
  else if s.startsWith "i" then (s.drop 1).toString.toInt?.map ID.int
  else if s.startsWith "s" then some (ID.str (s.drop 1).toString)
  else none

def showID : ID → String
  | .none => "-"
  | .int n => "i" ++ toString n
  | .str s => "s" ++ s

def parseBit (c : Char) : Option Bool :=
  if c = '1' then some true else if c = '0' then some false else none

def parseList (s : String) (f : List String → Option α) : Option (List α) :=
  if s = "-" then some [] else mapM? (fun e => f (e.splitOn ":")) (s.splitOn ",")

structure OutEntry where
  key : ID
  call : Call
  ready : Bool

def parseOutEntry : List String → Option OutEntry
  | [k, r, cid, rd] => do
    let k ← parseID k; let r ← r.toNat?; let cid ← parseID cid
    let rd ← (if rd = "1" then some true else if rd = "0" then some false else none)
    pure ⟨k, ⟨r, cid⟩, rd⟩
  | _ => none

def parseInEntry : List String → Option (ID × Req)
  | [k, r, rid] => do
    let k ← parseID k; let r ← r.toNat?; let rid ← parseID rid
    pure (k, ⟨r, rid⟩)
  | _ => none

def parseQEntry : List String → Option Req
  | [r, rid] => do let r ← r.toNat?; let rid ← parseID rid; pure ⟨r, rid⟩
  | _ => none

def parseRetired : List String → Option (Call × ID)
  | [r, cid, rid] => do
    let r ← r.toNat?; let cid ← parseID cid; let rid ← parseID rid
    pure (⟨r, cid⟩, rid)
  | _ => none

/-- A recorded state: the abstract `St` plus, per outgoing entry, whether the call was ready. -/
structure Snap where
  st : St
  anyReady : Bool

def parseState (s : String) : Option Snap :=
  match s.splitOn ";" with
  | [fl, n, i, og, bi, q] => do
    let bits ← mapM? parseBit fl.toList
    match bits with
    | [b1, b2, b3, b4, b5, b6, b7] =>
      let n ← n.toInt?
      let i ← i.toInt?
      let og ← parseList og parseOutEntry
      let bi ← parseList bi parseInEntry
      let q ← parseList q parseQEntry
      pure { st := { connClosing := b1, reading := b2, readErr := b3, writeErr := b4,
                     closerOpen := b5, done := b6, handlerRunning := b7,
                     outNotif := n, incoming := i,
                     outgoing := og.map (fun e => (e.key, e.call)), byID := bi, queue := q },
             anyReady := og.any (·.ready) }
    | _ => none
  | _ => none

/-- Equality of lists as sets (maps come from Go maps: order is not meaningful). -/
def sameSet [BEq α] (a b : List α) : Bool :=
  a.length == b.length && a.all (fun x => b.contains x) && b.all (fun x => a.contains x)

def sameSt (a b : St) : Bool :=
  a.connClosing == b.connClosing && a.reading == b.reading && a.readErr == b.readErr &&
  a.writeErr == b.writeErr && a.closerOpen == b.closerOpen && a.done == b.done &&
  a.handlerRunning == b.handlerRunning && a.outNotif == b.outNotif && a.incoming == b.incoming &&
  sameSet a.outgoing b.outgoing && sameSet a.byID b.byID && a.queue == b.queue

def nodupKeys (m : Map α) : Bool :=
  let rec go : List ID → Bool
    | [] => true
    | k :: t => !t.contains k && go t
  go (Map.keys m)

/-- The state parts of the invariants of Props/C39.lean, on one recorded state. -/
def stateInv (x : Snap) : Option String :=
  let s := x.st
  if x.anyReady then some "retired-call-still-registered"
  else if !(s.outgoing.all (fun e => e.2.id == e.1)) then some "outgoing-key-not-own-id"
  else if !(nodupKeys s.outgoing && nodupKeys s.byID) then some "duplicate-map-key"
  else if s.incoming < 0 then some "incoming-underflow"
  else if s.outNotif < 0 then some "outNotif-underflow"
  else if !(decide ((s.byID.length : Int) ≤ s.incoming)) then some "byID-exceeds-incoming"
  else if !(s.byID.all (fun e => e.2.id == e.1)) then some "byID-key-not-request-id"
  else if !s.queue.isEmpty && !s.handlerRunning then some "queue-without-handler"
  else if s.done && !(s.idle && !s.reading && !s.closerOpen) then some "done-not-quiescent"
  else none

def stepInv (pre post : Snap) (ret : List (Call × ID)) : Option String :=
  match stateInv pre with
  | some e => some e
  | none =>
    match stateInv post with
    | some e => some e
    | none =>
      if pre.st.done && !post.st.done then some "done-reopened"
      else if !pre.st.closerOpen && post.st.closerOpen then some "closer-reopened"
      else if !(ret.all (fun e => e.2 == e.1.id)) then some "retired-with-foreign-id"
      else none

def freshID : ID := ID.str "<fresh>"

def candidates (pre post : St) : List Args :=
  let calls := Map.vals pre.outgoing ++ Map.vals post.outgoing ++
    (Map.keys pre.outgoing).map (fun k => (⟨0, k⟩ : Call)) ++ [⟨0, freshID⟩]
  let reqs := Map.vals pre.byID ++ Map.vals post.byID ++ pre.queue ++ post.queue ++
    (Map.keys pre.byID).map (fun k => (⟨0, k⟩ : Req)) ++ [⟨0, noID⟩, ⟨0, freshID⟩]
  let ids := Map.keys pre.outgoing ++ Map.keys pre.byID ++ [freshID, noID]
  calls.map argsCall ++ reqs.map argsReq ++ ids.map argsID

def showSt (s : St) : String :=
  let b (x : Bool) := if x then "1" else "0"
  b s.connClosing ++ b s.reading ++ b s.readErr ++ b s.writeErr ++ b s.closerOpen ++ b s.done ++
    b s.handlerRunning ++ ";" ++ toString s.outNotif ++ ";" ++ toString s.incoming ++ ";" ++
    ",".intercalate (s.outgoing.map fun e => showID e.1 ++ ":" ++ toString e.2.ref ++ ":" ++ showID e.2.id) ++ ";" ++
    ",".intercalate (s.byID.map fun e => showID e.1 ++ ":" ++ toString e.2.ref ++ ":" ++ showID e.2.id) ++ ";" ++
    ",".intercalate (s.queue.map fun e => toString e.ref ++ ":" ++ showID e.id)

def handleStep (fields : List String) : String :=
  match fields with
  | [line, pre, post, ret] =>
    match line.toNat?, parseState pre, parseState post, parseList ret parseRetired with
    | some line, some pre, some post, some ret =>
      match stepInv pre post ret with
      | some e => "INV " ++ e
      | none =>
        match Gen.sites.lookup line with
        | none => "MISMATCH unknown-site conn.go:" ++ toString line
        | some name =>
          match transitions.lookup name with
          | none => "MISMATCH no-model-transition " ++ name
          | some t =>
            let good := (candidates pre.st post.st).any fun a =>
              let r := update t a pre.st
              !r.2.panic && sameSt r.1 post.st && sameSet r.2.retired ret
            if good then "ok"
            else
              -- show what the model does for the first candidate that changes the state least
              let r := update t noArgs pre.st
              "MISMATCH " ++ name ++ " model(no-args)=" ++ showSt r.1
    | _, _, _, _ => "bad-input"
  | _ => "bad-input"

def handleChain (fields : List String) : String :=
  match fields with
  | [a, b] =>
    match parseState a, parseState b with
    | some a, some b => if sameSt a.st b.st then "ok" else "MISMATCH state-changed-outside-updateInFlight"
    | _, _ => "bad-input"
  | _ => "bad-input"

end GopModel.Driver
