/-
Line-protocol handlers for M3 (Model/ExprSyntax.lean), executable `drv_expr`.

  pp <tree>        → <hex of rendered printer output>|<tokens of lex(printExpr e) or GLUE>|<parseX result>
  parse <tokens>   → <parseX result>
  glue <tokA>;<tokB> → glue | sep        (`combines`)

Trees:  I(hex) L(KIND,hex) N(KIND,hex,hex) B(OP,x,y) U(OP,x) S(x) P(x) D(x,hex) X(x,i)
        SL(x,lo,hi,mx,0|1) C(f,ell,cmd,args…) K(ty,elts…) KV(k,v) SLit(elts…)
        Lam(lp,rp,n,hex*n,rhs…) E(x,TOK,d) Env(hex,0|1) TA(x,ty) R(f,l,e) T(ell,items…) Bad()
        (`_` = absent).  Tokens: i:hex l:KIND:hex u:hex o:NAME k:hex, joined by `,`.
-/
import GopModel.Model.ExprSyntax
import GopModel.Driver.Util
namespace GopModel.Driver
open GopModel.ExprSyntax

def opTable : List (Op × String × String) := [
  (.ADD, "ADD", "+"), (.SUB, "SUB", "-"), (.MUL, "MUL", "*"), (.QUO, "QUO", "/"), (.REM, "REM", "%"),
  (.AND, "AND", "&"), (.OR, "OR", "|"), (.XOR, "XOR", "^"), (.SHL, "SHL", "<<"), (.SHR, "SHR", ">>"),
  (.AND_NOT, "AND_NOT", "&^"),
  (.ADD_ASSIGN, "ADD_ASSIGN", "+="), (.SUB_ASSIGN, "SUB_ASSIGN", "-="), (.MUL_ASSIGN, "MUL_ASSIGN", "*="),
  (.QUO_ASSIGN, "QUO_ASSIGN", "/="), (.REM_ASSIGN, "REM_ASSIGN", "%="),
  (.AND_ASSIGN, "AND_ASSIGN", "&="), (.OR_ASSIGN, "OR_ASSIGN", "|="), (.XOR_ASSIGN, "XOR_ASSIGN", "^="),
  (.SHL_ASSIGN, "SHL_ASSIGN", "<<="), (.SHR_ASSIGN, "SHR_ASSIGN", ">>="), (.AND_NOT_ASSIGN, "AND_NOT_ASSIGN", "&^="),
  (.LAND, "LAND", "&&"), (.LOR, "LOR", "||"), (.ARROW, "ARROW", "<-"), (.INC, "INC", "++"), (.DEC, "DEC", "--"),
  (.EQL, "EQL", "=="), (.LSS, "LSS", "<"), (.GTR, "GTR", ">"), (.ASSIGN, "ASSIGN", "="), (.NOT, "NOT", "!"),
  (.NEQ, "NEQ", "!="), (.LEQ, "LEQ", "<="), (.GEQ, "GEQ", ">="), (.DEFINE, "DEFINE", ":="), (.ELLIPSIS, "ELLIPSIS", "..."),
  (.LPAREN, "LPAREN", "("), (.LBRACK, "LBRACK", "["), (.LBRACE, "LBRACE", "{"), (.COMMA, "COMMA", ","), (.PERIOD, "PERIOD", "."),
  (.RPAREN, "RPAREN", ")"), (.RBRACK, "RBRACK", "]"), (.RBRACE, "RBRACE", "}"), (.SEMICOLON, "SEMICOLON", ";"), (.COLON, "COLON", ":"),
  (.QUESTION, "QUESTION", "?"), (.DRARROW, "DRARROW", "=>"), (.SRARROW, "SRARROW", "->"), (.BIDIARROW, "BIDIARROW", "<>"),
  (.ENV, "ENV", "$"), (.TILDE, "TILDE", "~")]

def opName (o : Op) : String :=
  match opTable.find? (fun r => r.1 == o) with
  | some r => r.2.1
  | none => "?"

def opText (o : Op) : String :=
  match opTable.find? (fun r => r.1 == o) with
  | some r => r.2.2
  | none => "?"

def opOfName (s : String) : Option Op :=
  (opTable.find? (fun r => r.2.1 == s)).map (·.1)

def kindTable : List (LitKind × String) := [
  (.INT, "INT"), (.FLOAT, "FLOAT"), (.IMAG, "IMAG"), (.CHAR, "CHAR"), (.STRING, "STRING"),
  (.CSTRING, "CSTRING"), (.PYSTRING, "PYSTRING"), (.RAT, "RAT")]

def kindName (k : LitKind) : String :=
  match kindTable.find? (fun r => r.1 == k) with
  | some r => r.2
  | none => "?"

def kindOfName (s : String) : Option LitKind :=
  (kindTable.find? (fun r => r.2 == s)).map (·.1)

/-! ### S-expressions -/

inductive Sx where
  | node (tag : String) (args : List Sx)
  deriving Inhabited

/-- Characters of an atom / tag. -/
def isAtomChar (c : Char) : Bool := c.isAlphanum || c == '_' || c == '-'

mutual
def parseSx : Nat → List Char → Option (Sx × List Char)
  | 0, _ => none
  | n + 1, cs =>
    let tag := cs.takeWhile isAtomChar
    let rest := cs.dropWhile isAtomChar
    if tag.isEmpty then none
    else match rest with
      | '(' :: ')' :: r => some (.node (String.ofList tag) [], r)
      | '(' :: r =>
        (match parseSxArgs n r with
         | some (args, r') => some (.node (String.ofList tag) args, r')
         | none => none)
      | _ => some (.node (String.ofList tag) [], rest)
def parseSxArgs : Nat → List Char → Option (List Sx × List Char)
  | 0, _ => none
  | n + 1, cs =>
    match parseSx n cs with
    | none => none
    | some (a, r) =>
      match r with
      | ',' :: r' =>
        (match parseSxArgs n r' with
         | some (as, r'') => some (a :: as, r'')
         | none => none)
      | ')' :: r' => some ([a], r')
      | _ => none
end

def sxOfString (s : String) : Option Sx :=
  let cs := s.toList
  match parseSx (cs.length + 2) cs with
  | some (x, []) => some x
  | _ => none

def atomStr : Sx → Option String
  | .node t [] => some t
  | _ => none

def atomBytes (x : Sx) : Option Str := do
  let s ← atomStr x
  bytesOfHex s

def atomBool (x : Sx) : Option Bool := do
  let s ← atomStr x
  if s == "1" then some true else if s == "0" then some false else none

mutual
def toX : Nat → Sx → Option XExpr
  | 0, _ => none
  | n + 1, .node tag args =>
    match tag, args with
    | "I", [a] => do some (.ident (← atomBytes a))
    | "L", [k, v] => do some (.lit (← kindOfName (← atomStr k)) (← atomBytes v))
    | "N", [k, v, u] => do some (.numUnit (← kindOfName (← atomStr k)) (← atomBytes v) (← atomBytes u))
    | "B", [o, x, y] => do some (.binary (← opOfName (← atomStr o)) (← toX n x) (← toX n y))
    | "U", [o, x] => do some (.unary (← opOfName (← atomStr o)) (← toX n x))
    | "S", [x] => do some (.star (← toX n x))
    | "P", [x] => do some (.paren (← toX n x))
    | "D", [x, s] => do some (.selector (← toX n x) (← atomBytes s))
    | "X", [x, i] => do some (.index (← toX n x) (← toX n i))
    | "SL", [x, lo, hi, mx, s3] => do
      some (.slice (← toX n x) (← toXO n lo) (← toXO n hi) (← toXO n mx) (← atomBool s3))
    | "C", f :: ell :: cmd :: as => do
      some (.call (← toX n f) (← toXL n as) (← atomBool ell) (← atomBool cmd))
    | "K", ty :: es => do some (.composite (← toXO n ty) (← toXL n es))
    | "KV", [k, v] => do some (.kv (← toX n k) (← toX n v))
    | "SLit", es => do some (.sliceLit (← toXL n es))
    | "Lam", lp :: rp :: cnt :: rest => do
      let c ← (← atomStr cnt).toNat?
      let names ← mapM? atomBytes (rest.take c)
      if names.length != c then none
      else some (.lambda names (← atomBool lp) (← toXL n (rest.drop c)) (← atomBool rp))
    | "E", [x, t, d] => do some (.errWrap (← toX n x) (← opOfName (← atomStr t)) (← toXO n d))
    | "Env", [s, b] => do some (.env (← atomBytes s) (← atomBool b))
    | "TA", [x, t] => do some (.typeAssert (← toX n x) (← toXO n t))
    | "R", [a, b, c] => do some (.range (← toXO n a) (← toXO n b) (← toXO n c))
    | "T", ell :: items => do some (.tuple (← toXL n items) (← atomBool ell))
    | "Bad", [] => some .bad
    | _, _ => none
def toXO : Nat → Sx → Option (Option XExpr)
  | 0, _ => none
  | n + 1, x =>
    match x with
    | .node "_" [] => some none
    | _ => (toX n x).map some
def toXL : Nat → List Sx → Option (List XExpr)
  | 0, _ => none
  | _ + 1, [] => some []
  | n + 1, a :: r => do
    let x ← toX n a
    let l ← toXL n r
    some (x :: l)
end

mutual
def showX : XExpr → String
  | .ident s => "I(" ++ hexField s ++ ")"
  | .lit k v => "L(" ++ kindName k ++ "," ++ hexField v ++ ")"
  | .numUnit k v u => "N(" ++ kindName k ++ "," ++ hexField v ++ "," ++ hexField u ++ ")"
  | .binary o x y => "B(" ++ opName o ++ "," ++ showX x ++ "," ++ showX y ++ ")"
  | .unary o x => "U(" ++ opName o ++ "," ++ showX x ++ ")"
  | .star x => "S(" ++ showX x ++ ")"
  | .paren x => "P(" ++ showX x ++ ")"
  | .selector x s => "D(" ++ showX x ++ "," ++ hexField s ++ ")"
  | .index x i => "X(" ++ showX x ++ "," ++ showX i ++ ")"
  | .slice x lo hi mx s3 =>
    "SL(" ++ showX x ++ "," ++ showXO lo ++ "," ++ showXO hi ++ "," ++ showXO mx ++ "," ++ (if s3 then "1" else "0") ++ ")"
  | .call f as ell cmd =>
    "C(" ++ showX f ++ "," ++ (if ell then "1" else "0") ++ "," ++ (if cmd then "1" else "0") ++ showXL as ++ ")"
  | .composite ty es => "K(" ++ showXO ty ++ showXL es ++ ")"
  | .kv k v => "KV(" ++ showX k ++ "," ++ showX v ++ ")"
  | .sliceLit es => "SLit(" ++ (showXL es).drop 1 ++ ")"
  | .lambda lhs lp rhs rp =>
    "Lam(" ++ (if lp then "1" else "0") ++ "," ++ (if rp then "1" else "0") ++ "," ++ toString lhs.length
      ++ String.join (lhs.map fun s => "," ++ hexField s) ++ showXL rhs ++ ")"
  | .errWrap x t d => "E(" ++ showX x ++ "," ++ opName t ++ "," ++ showXO d ++ ")"
  | .env s b => "Env(" ++ hexField s ++ "," ++ (if b then "1" else "0") ++ ")"
  | .typeAssert x t => "TA(" ++ showX x ++ "," ++ showXO t ++ ")"
  | .range a b c => "R(" ++ showXO a ++ "," ++ showXO b ++ "," ++ showXO c ++ ")"
  | .tuple items ell => "T(" ++ (if ell then "1" else "0") ++ showXL items ++ ")"
  | .bad => "Bad()"
/-- Every element preceded by a comma. -/
def showXL : List XExpr → String
  | [] => ""
  | a :: r => "," ++ showX a ++ showXL r
def showXO : Option XExpr → String
  | none => "_"
  | some x => showX x
end

def showTok : Tok → String
  | .ident s => "i:" ++ hexField s
  | .lit k v => "l:" ++ kindName k ++ ":" ++ hexField v
  | .unit u => "u:" ++ hexField u
  | .op o => "o:" ++ opName o
  | .kw s => "k:" ++ hexField s

def tokOfString (s : String) : Option Tok :=
  match s.splitOn ":" with
  | ["i", h] => do some (.ident (← bytesOfHex h))
  | ["l", k, h] => do some (.lit (← kindOfName k) (← bytesOfHex h))
  | ["u", h] => do some (.unit (← bytesOfHex h))
  | ["o", n] => do some (.op (← opOfName n))
  | ["k", h] => do some (.kw (← bytesOfHex h))
  | _ => none

def tokText : Tok → Str
  | .ident s => s
  | .lit .CSTRING v => 0x63 :: v            -- c"…": the value holds the string part only
  | .lit .PYSTRING v => 0x70 :: 0x79 :: v   -- py"…"
  | .lit _ v => v
  | .unit u => u
  | .op o => (opText o).toUTF8.toList
  | .kw s => s

def render : List PTok → Str
  | [] => []
  | .t x :: r => tokText x ++ render r
  | .blank :: r => 0x20 :: render r
  | .bad :: r => [0x3c, 0x42, 0x41, 0x44, 0x3e] ++ render r   -- "<BAD>"

def showFail : Fail → String
  | .err => "ERR"
  | .unsupp => "UNSUPP"
  | .fuel => "OUTOFFUEL"

def showParse (r : Except Fail XExpr) : String :=
  match r with
  | .ok x => showX x
  | .error f => showFail f

def sxDepth (s : String) : Nat := s.length + 2

/-- `pp <tree>` -/
def handlePP (fields : List String) : String :=
  match fields with
  | [t] =>
    (match sxOfString t with
     | none => "bad-input"
     | some sx =>
       match toX (sxDepth t) sx with
       | none => "bad-input"
       | some e =>
         let pt := printExpr e
         let txt := hexField (render pt)
         match lex pt with
         | none => txt ++ "|GLUE|-"
         | some ts => txt ++ "|" ++ ",".intercalate (ts.map showTok) ++ "|" ++ showParse (parseX ts))
  | _ => "bad-input"

/-- `parse <tokens>` -/
def handleParse (fields : List String) : String :=
  match fields with
  | [t] =>
    (match mapM? tokOfString (splitList t ",") with
     | none => "bad-input"
     | some ts => showParse (parseX ts))
  | _ => "bad-input"

/-- `glue <tokA>;<tokB>` -/
def handleGlue (fields : List String) : String :=
  match fields with
  | [t] =>
    (match t.splitOn ";" with
     | [a, b] =>
       (match tokOfString a, tokOfString b with
        | some x, some y => if combines x y then "glue" else "sep"
        | _, _ => "bad-input")
     | _ => "bad-input")
  | _ => "bad-input"

end GopModel.Driver
