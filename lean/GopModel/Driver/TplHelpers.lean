/-
Line-protocol handlers for the TPL result helpers and the README calculator (C30).

  tplh <TAB> op <TAB> value
    op    : list | listop | rangeop | bopnr | bopr | bexnr | bexr
    value : s-expression of the `[]any` argument: `(v v …)`, v ::= N | T<i> | L<n> | X<n> | (v …)
            (X<n> = an ast.Expr atom, only for bexnr/bexr)
  tplc <TAB> grammar <TAB> tokens <TAB> fileEnd     (grammar/tokens as for `tplm`)
-/
import GopModel.Model.TplHelpers
import GopModel.Driver.TplMatch
namespace GopModel.Driver
open GopModel.Tpl

def natOfTail (s : String) : Option Nat :=
  let t := (s.drop 1).toString
  if t.isNat then some t.toNat! else none

def sxToV : Nat → SX → Option (V Nat)
  | 0, _ => none
  | fuel + 1, sx =>
    match sx with
    | .atom a =>
      if a = "N" then some .nil
      else if a.startsWith "T" then (natOfTail a).map V.tok
      else if a.startsWith "L" then (natOfTail a).map V.leaf
      else none
    | .list xs => (mapM? (sxToV fuel) xs).map V.list

def sxToVE : Nat → SX → Option (V E)
  | 0, _ => none
  | fuel + 1, sx =>
    match sx with
    | .atom a =>
      if a = "N" then some .nil
      else if a.startsWith "T" then (natOfTail a).map V.tok
      else if a.startsWith "X" then (natOfTail a).map (fun n => V.leaf (E.atom n))
      else none
    | .list xs => (mapM? (sxToVE fuel) xs).map V.list

def showVp : Nat → V Nat → String
  | 0, _ => "?"
  | fuel + 1, v =>
    match v with
    | .nil => "N"
    | .tok i => "T" ++ toString i
    | .leaf a => "L" ++ toString a
    | .list xs => "(" ++ " ".intercalate (xs.map (showVp fuel)) ++ ")"

def showE : E → String
  | .atom n => "X" ++ toString n
  | .bin x o y => "(B " ++ showE x ++ " " ++ toString o ++ " " ++ showE y ++ ")"

def showH {β : Type} (f : β → String) : HRes β → String
  | .ok v => "ok " ++ f v
  | .panic => "PANIC"
  | .fuel => "FUEL"

/-- Recording callbacks of the driver (the harness uses the same): state = (number of calls,
log of the arguments); the returned value carries the call number. -/
abbrev RecSt := Nat × List (V Nat)
def recWrap (st : RecSt) (v : V Nat) : RecSt × V Nat :=
  ((st.1 + 1, st.2 ++ [v]), .list [.leaf (100 + st.1), v])
def recFn (st : RecSt) (o : Nat) (x y : V Nat) : RecSt × V Nat :=
  ((st.1 + 1, st.2 ++ [.tok o]), .list [.tok o, x, y, .leaf (100 + st.1)])

def showLog (st : RecSt) : String := " log=" ++ showVp 1000 (.list st.2)

def hopOf (s : String) : Option HOp :=
  if s = "list" then some .list else if s = "listop" then some .listop
  else if s = "rangeop" then some .rangeop else if s = "bopnr" then some .bopnr
  else if s = "bopr" then some .bopr else none

def showHOut : HOut RecSt Nat → String
  | .lst st r => showH (fun l => showVp 1000 (.list l)) r ++ showLog st
  | .visited vs p => "visited " ++ showVp 1000 (.list vs) ++ " panic=" ++ (if p then "1" else "0")
  | .val st r => showH (showVp 1000) r ++ showLog st

def handleTplh (fields : List String) : String :=
  match fields with
  | op :: vs :: _ =>
    match sxParse (sxTokens vs) with
    | none => "bad-input"
    | some sx =>
      let fuel := vs.length + 2
      if op = "bexnr" ∨ op = "bexr" then
        match sxToVE fuel sx with
        | some (.list inp) =>
          if op = "bexnr" then showH showE (binaryExprNR inp) else showH showE (binaryExprR fuel inp)
        | _ => "bad-input"
      else
        match hopOf op, sxToV fuel sx with
        | some hop, some (.list inp) => showHOut (applyOp recWrap recFn (0, []) fuel hop inp)
        | none, _ => "bad-op"
        | _, _ => "bad-input"
  | _ => "bad-input"

/-- `tplh2 <ops,…> <value> …`: successive helper calls on the same tree. -/
def handleTplh2 (fields : List String) : String :=
  match fields with
  | opsS :: vs :: _ =>
    match sxParse (sxTokens vs) with
    | none => "bad-input"
    | some sx =>
      let fuel := vs.length + 2
      let names := opsS.splitOn ","
      if names.all (fun n => n = "bexnr" ∨ n = "bexr") then
        match sxToVE fuel sx with
        | some (.list inp) =>
          " ; ".intercalate ((seqExprOuts fuel (names.map (· = "bexr")) inp).map (showH showE))
        | _ => "bad-input"
      else
        match mapM? hopOf names, sxToV fuel sx with
        | some ops, some (.list inp) =>
          " ; ".intercalate ((seqOuts recWrap recFn (0, []) fuel ops inp).map showHOut)
        | _, _ => "bad-input"
  | _ => "bad-input"

def intArith : Arith Int := ⟨(· + ·), (· - ·), (· * ·), (· / ·), (- ·)⟩

def numOfTok (t : Tok) : Int :=
  (String.ofList (t.lit.map fun b => Char.ofNat b.toNat)).toNat!

def sameG : Nat → G → G → Bool
  | 0, _, _ => false
  | fuel + 1, a, b =>
    match a, b with
    | .tru, .tru => true
    | .ws, .ws => true
    | .str q, .str q' => q == q'
    | .tok k l, .tok k' l' => k == k' && l == l'
    | .lit k l, .lit k' l' => k == k' && l == l'
    | .choice o s, .choice o' s' =>
      s == s' && o.length == o'.length && (o.zip o').all (fun p => sameG fuel p.1 p.2)
    | .seq i, .seq i' => i.length == i'.length && (i.zip i').all (fun p => sameG fuel p.1 p.2)
    | .rep0 g, .rep0 g' => sameG fuel g g'
    | .rep1 g, .rep1 g' => sameG fuel g g'
    | .rep01 g, .rep01 g' => sameG fuel g g'
    | .adjoin x y, .adjoin x' y' => sameG fuel x x' && sameG fuel y y'
    | .var n, .var n' => n == n'
    | _, _ => false

def sameEnv (a b : Env) : Bool :=
  a.length == b.length && (a.zip b).all (fun p => p.1.1 == p.2.1 && sameG 100 p.1.2 p.2.2)

def handleTplc (fields : List String) : String :=
  match fields with
  | gs :: ts :: fe :: _ =>
    match sxParse (sxTokens gs) >>= sxToEnv gs.length, parseToks ts with
    | some env, some toks =>
      if ¬ fe.isNat then "bad-input"
      else if toks.any (fun t => t.kind == kFLOAT) then "nofloat"
      else
        let head := "env=" ++ b01 (sameEnv env calcEnv)
        match calcParseExpr intArith numOfTok toks fe.toNat! with
        | .ok (.leaf v) => head ++ " ok " ++ toString v
        | .ok _ => head ++ " ok ?"
        | .err _ => head ++ " err"
        | .unexpected _ => head ++ " err"
        | .abort a => head ++ " " ++ showAbort a
    | _, _ => "bad-input"
  | _ => "bad-input"

end GopModel.Driver
