/- Line-protocol handlers for the concurrency models (C40 watcher, C41 fakenet): the SAME
transition function `TS.next` and the SAME regenerated thread programs the theorems are about,
run by a scripted scheduler.  Core only. -/
import GopModel.Model.TS
import GopModel.Generated.SyncWatcher
import GopModel.Generated.SyncFakenet
import GopModel.Driver.Util
namespace GopModel.Driver.Conc
open GopModel.TS GopModel.Driver

def threadDone (s : State) (j : Nat) : Bool :=
  match s.threads[j]? with
  | some t => t.st == .done
  | none => true

/-- run thread `j` (choice `k`, environment value `v`) until it is done or cannot step -/
def runThread (sys : Sys) (k : Nat) (v : Val) : Nat → State → Nat → State
  | 0, s, _ => s
  | fuel + 1, s, j =>
    if threadDone s j then s else
    match next sys s (.thread j k 0 v) with
    | some s' => runThread sys k v fuel s' j
    | none => s

def lastRet (s : State) (j : Nat) : Option Out :=
  s.trace.findSome? fun e => match e with
    | .ret i _ o => if i = j then some o else none
    | _ => none

def spawnThread (sys : Sys) (s : State) (fn : Nat) (a b : Val) : Option (State × Nat) :=
  match next sys s (.spawn fn a b) with
  | some s' => some (s', s.threads.length)
  | none => none

/-! ### C40: watcher -/

namespace W
open GopModel.Generated.SyncWatcher

def strOf : Val → List UInt8
  | .str b => b
  | _ => []

def hexSet (s : State) : String :=
  let xs := (s.set.map fun v => hexField (strOf v))
  ",".intercalate (xs.toArray.qsort (· < ·)).toList

/-- FileChanged(name), run to completion -/
def report (s : State) (name : List UInt8) : Option State :=
  match spawnThread sys s 1 (.str name) (.nat 0) with
  | none => none
  | some (s1, j) =>
    let s2 := runThread sys 0 (.nat 0) 40 s1 j
    if threadDone s2 j then some s2 else none

def stripRoot (root d : List UInt8) : Option (List UInt8) :=
  if root.isPrefixOf d then some (d.drop root.length) else none

/-- Fetch(fullPath) returning `res`, run to completion; `none` = the model cannot return `res` now -/
def fetch (s : State) (fp : Bool) (res : List UInt8) : Option State :=
  let key := if fp then stripRoot s.root res else some res
  match key with
  | none => none
  | some d =>
    match s.set.findIdx? (· == Val.str d) with
    | none => none
    | some k =>
      match spawnThread sys s 0 (.nat 0) (.nat (if fp then 1 else 0)) with
      | none => none
      | some (s1, j) =>
        let s2 := runThread sys k (.nat 0) 40 s1 j
        if threadDone s2 j && lastRet s2 j == some (.val (.str res)) then some s2 else none

/-- Fetch on an empty set blocks inside Wait; FileChanged(name) then wakes it up. Returns the
state and what the fetch returned. -/
def blockedFetch (s : State) (fp : Bool) (name : List UInt8) : Option (State × List UInt8) :=
  match spawnThread sys s 0 (.nat 0) (.nat (if fp then 1 else 0)) with
  | none => none
  | some (s1, j) =>
    let s2 := runThread sys 0 (.nat 0) 40 s1 j
    if threadDone s2 j then none            -- it did not block
    else
      match report s2 name with
      | none => none
      | some s3 =>
        let s4 := runThread sys 0 (.nat 0) 40 s3 j
        match lastRet s4 j with
        | some (.val (.str r)) => if threadDone s4 j then some (s4, r) else none
        | _ => none

def seqOps : List String → State → List String → String
  | [], s, acc => " ".intercalate acc.reverse ++ " |" ++ hexSet s
  | op :: rest, s, acc =>
    let cs := op.toList
    match cs with
    | 'C' :: h =>
      match bytesOfHex (String.ofList h) with
      | none => "bad-input"
      | some name =>
        match report s name with
        | some s' => seqOps rest s' ("c" :: acc)
        | none => "MODEL-STUCK"
    | 'F' :: fp :: h =>
      match bytesOfHex (String.ofList h) with
      | none => "bad-input"
      | some res =>
        match fetch s (fp == '1') res with
        | some s' => seqOps rest s' ("f" :: acc)
        | none => seqOps rest s ("BAD" :: acc)
    -- methods of Changes that must leave the pending set alone (frame condition C40_frame):
    -- D = EntryDeleted(dir, true), I/J = Ignore(name, false/true), A = DirAdded(missing dir)
    | 'D' :: _ => seqOps rest s ("d" :: acc)
    | 'I' :: _ => seqOps rest s ("i" :: acc)
    | 'J' :: _ => seqOps rest s ("i" :: acc)
    | 'A' :: _ => seqOps rest s ("a" :: acc)
    | 'W' :: fp :: h =>
      match bytesOfHex (String.ofList h) with
      | none => "bad-input"
      | some name =>
        match blockedFetch s (fp == '1') name with
        | some (s', r) => seqOps rest s' (("w" ++ hexField r) :: acc)
        | none => seqOps rest s ("NOBLOCK" :: acc)
    | _ => "bad-input"

/-- `wseq <roothex> <ops>` -/
def handleWseq (fields : List String) : String :=
  match fields with
  | [rootH, opsF] =>
    match bytesOfHex rootH with
    | none => "bad-input"
    | some root => seqOps (splitList opsF ",") (sys.init root) []
  | _ => "bad-input"

/-- `pdir <hex>`: path.Dir -/
def handlePdir (fields : List String) : String :=
  match fields with
  | [h] =>
    match bytesOfHex h with
    | some p => hexField (pathDir p)
    | none => "bad-input"
  | _ => "bad-input"

/-- one operation of a concurrent history -/
structure HOp where
  inv : Nat
  ret : Nat          -- 0 = never returned (pending)
  isFetch : Bool
  fp : Bool
  arg : List UInt8   -- name reported / directory returned
  deriving Repr

def parseHOp (s : String) : Option HOp :=
  match s.toList with
  | 'R' :: rest =>
    match (String.ofList rest).splitOn ":" with
    | [a, b, h] => do
      let x ← bytesOfHex h
      let i ← a.toNat?
      let r ← b.toNat?
      some { inv := i, ret := r, isFetch := false, fp := false, arg := x }
    | _ => none
  | 'F' :: rest =>
    match (String.ofList rest).splitOn ":" with
    | [a, b, fp, h] => do
      let x ← bytesOfHex h
      let i ← a.toNat?
      let r ← b.toNat?
      some { inv := i, ret := r, isFetch := true, fp := fp == "1", arg := x }
    | _ => none
  | _ => none

/-- `o` may be linearised next: no other remaining completed op returned before `o` was invoked -/
def minimal (rem : List HOp) (o : HOp) : Bool :=
  rem.all fun q => q.ret == 0 || q.ret > o.inv || (q.inv == o.inv && q.ret == o.ret)

def removeAt {α} : List α → Nat → List α
  | [], _ => []
  | _ :: t, 0 => t
  | h :: t, n + 1 => h :: removeAt t n

def candOrder (rem : List HOp) : List Nat :=
  let idxs := List.range rem.length
  -- fetches first (they are the constrained ones)
  (idxs.filter fun i => match rem[i]? with | some o => o.isFetch | none => false) ++
  (idxs.filter fun i => match rem[i]? with | some o => !o.isFetch | none => false)

/-- Depth-first search (explicit stack, fuel = number of nodes visited) for a linearisation accepted
by the model: each op is run to completion as a thread of the small-step model.  `want` = number
of directories that must remain pending at the end.  `none` = fuel exhausted. -/
def dfs (want : Nat) : Nat → List (State × List HOp × List Nat) → Option Bool
  | 0, _ => none
  | _ + 1, [] => some false
  | fuel + 1, (s, rem, cands) :: stack =>
    -- pending (never returned) fetches are still blocked: they need not be linearised
    if (rem.all fun o => o.isFetch && o.ret == 0) then
      if s.set.length == want then some true else dfs want fuel stack
    else
      match cands with
      | [] => dfs want fuel stack
      | i :: is =>
        let stack' := (s, rem, is) :: stack
        match rem[i]? with
        | none => dfs want fuel stack'
        | some o =>
          if (o.isFetch && o.ret == 0) || !minimal rem o then dfs want fuel stack'
          else
            match (if o.isFetch then fetch s o.fp o.arg else report s o.arg) with
            | none => dfs want fuel stack'
            | some s2 =>
              let rem' := removeAt rem i
              dfs want fuel ((s2, rem', candOrder rem') :: stack')

/-- `whist <roothex> <want> <ops>` -/
def handleWhist (fields : List String) : String :=
  match fields with
  | [rootH, wantS, opsF] =>
    match bytesOfHex rootH, wantS.toNat?, mapM? parseHOp (splitList opsF ",") with
    | some root, some want, some ops =>
      match dfs want 20000 [(sys.init root, ops, candOrder ops)] with
      | some true => "accept"
      | some false => "reject"
      | none => "UNKNOWN"
    | _, _, _ => "bad-input"
  | _ => "bad-input"

end W

/-! ### C41: fakenet (one model instance per feeder) -/

namespace F
open GopModel.Generated.SyncFakenet

/-- all candidate steps of thread `j`: (k, p) pairs; park steps last -/
def candidates (s : State) (j : Nat) : List (Nat × Nat) :=
  match s.threads[j]? with
  | none => []
  | some t =>
    match instrAt sys t with
    | some (.select cs) =>
      ((List.range cs.length).flatMap fun k => (List.range s.threads.length).map fun p => (k, p))
    | some _ => [(0, 0)]
    | none => []

def firstStep (s : State) (v : Val) : List (Nat × Nat × Nat) → Option State
  | [] => none
  | (j, k, p) :: rest =>
    match next sys s (.thread j k p v) with
    | some s' => some s'
    | none => firstStep s v rest

def parkSteps (s : State) : List (Nat × Nat × Nat) :=
  (List.range s.threads.length).filterMap fun j =>
    match s.threads[j]? with
    | none => none
    | some t =>
      match instrAt sys t with
      | some (.select cs) => some (j, cs.length, 0)
      | _ => none

/-- deterministic scheduler: lowest thread with a non-park step first, then park steps; stops when
nothing is enabled (quiescent) or `stop` holds -/
def settle (v : Val) (stop : State → Bool) : Nat → State → State
  | 0, s => s
  | fuel + 1, s =>
    if stop s then s else
    let cands := (List.range s.threads.length).flatMap fun j => (candidates s j).map fun (k, p) => (j, k, p)
    match firstStep s v cands with
    | some s' => settle v stop fuel s'
    | none =>
      match firstStep s v (parkSteps s) with
      | some s' => settle v stop fuel s'
      | none => s

def showOut : Option Out → String
  | some (.val (.res n e)) => s!"{n}/{e}"
  | some .eof => "EOF"
  | some (.val _) => "VAL?"
  | some .unit => "unit"
  | none => "PENDING"

def callCount (s : State) : Nat :=
  s.trace.countP fun e => match e with | .call _ _ _ => true | _ => false

/-- a complete `do(b)` with source result `v`: returns state and outcome -/
def doOp (s : State) (b : Val) (v : Val) : State × String :=
  match spawnThread sys s 0 b (.nat 0) with
  | none => (s, "MODEL-STUCK")
  | some (s1, j) =>
    let s2 := settle v (fun _ => false) 60 s1
    (s2, showOut (lastRet s2 j))

def closeOp (s : State) : State :=
  match spawnThread sys s 2 (.nat 0) (.nat 0) with
  | none => s
  | some (s1, _) => settle (.res 0 0) (fun _ => false) 60 s1

/-- `do(b)` that is interrupted by `close` after the source has been called (`afterCall`) or while
it waits for the feeder: the call returns EOF although its buffer may have reached the source -/
def doInterrupted (s : State) (b : Val) (v : Val) (afterCall : Bool) : State × String :=
  match spawnThread sys s 0 b (.nat 0) with
  | none => (s, "MODEL-STUCK")
  | some (s1, j) =>
    let n0 := callCount s1
    let s2 := if afterCall then settle v (fun st => callCount st > n0) 60 s1 else s1
    -- now the close, with the `do` call still pending; the closing thread goes first
    match spawnThread sys s2 2 (.nat 0) (.nat 0) with
    | none => (s2, "MODEL-STUCK")
    | some (s3, c) =>
      let s4 := runThread sys 0 (.res 0 0) 20 s3 c
      let s5 := settle v (fun _ => false) 60 s4
      (s5, showOut (lastRet s5 j))

def callsOf (s : State) : List String :=
  (s.trace.filterMap fun e => match e with
    | .call _ (.str b) _ => some (hexField b)
    | _ => none).reverse

def parseRes (n e : String) : Option Val := do
  let a ← n.toNat?
  let b ← e.toNat?
  some (.res a b)

/-- sequential script over the two feeders of one connection.
ops: `W<hex>:<n>:<err>` Write(buf) whose underlying writer returns (n, err);
     `R<hex>:<n>:<err>` Read(buf) whose underlying reader returns (n, err)  (buf = bytes delivered);
     `K` Close (both feeders);  `w…`/`r…` same as W/R but that feeder is closed while the call is in
     flight after the source was called (the call returns EOF); the script continues with `K`. -/
def seqOps : List String → State → State → List String → String
  | [], r, w, acc =>
    " ".intercalate acc.reverse ++ " |R:" ++ ",".intercalate (callsOf r) ++ " |W:" ++ ",".intercalate (callsOf w)
  | op :: rest, r, w, acc =>
    match op.toList with
    | ['K'] => seqOps rest (closeOp r) (closeOp w) ("k" :: acc)
    | c :: body =>
      match (String.ofList body).splitOn ":" with
      | [h, n, e] =>
        match bytesOfHex h, parseRes n e with
        | some b, some v =>
          if c == 'W' then
            let (w', o) := doOp w (.str b) v
            seqOps rest r w' (o :: acc)
          else if c == 'R' then
            let (r', o) := doOp r (.str b) v
            seqOps rest r' w (o :: acc)
          else if c == 'w' then
            let (w', o) := doInterrupted w (.str b) v true
            seqOps rest r w' (o :: acc)
          else if c == 'r' then
            let (r', o) := doInterrupted r (.str b) v true
            seqOps rest r' w (o :: acc)
          else "bad-input"
        | _, _ => "bad-input"
      | _ => "bad-input"
    | [] => "bad-input"

/-- `fseq <ops>` -/
def handleFseq (fields : List String) : String :=
  match fields with
  | [opsF] => seqOps (splitList opsF ",") (sys.init []) (sys.init []) []
  | _ => "bad-input"

end F

end GopModel.Driver.Conc
