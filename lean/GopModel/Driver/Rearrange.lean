import GopModel.Model.Rearrange
import GopModel.Driver.Util
/- Line-protocol handlers for the C24 model (RearrangeFuncs / SourceEx).
   c24   <hex src> <toks>                 → ok <hex out> | PANIC
   c24x  <hex src> <toks> <r1> <r2>       → ok <hex> | err | PANIC
   toks = comma-separated `offset:kind`, kind one letter (see `tokOfChar`), "-" = none.
   r1 = outcome of the real format.Source on src, r2 = on the rearranged source:
   `ok:<hex>` | `err` | `panic`. -/
namespace GopModel.Driver
open GopModel.Rearrange

def tokOfChar : Char → Option Tok
  | 'c' => some .comment
  | '{' => some .lbrace
  | '}' => some .rbrace
  | ';' => some .semicolon
  | '(' => some .lparen
  | ')' => some .rparen
  | '.' => some .period
  | 'C' => some .const
  | 'T' => some .type
  | 'V' => some .var
  | 'F' => some .func
  | 'o' => some .other
  | _ => none

def parseWord (s : String) : Option Word :=
  match s.splitOn ":" with
  | [p, k] =>
    match p.toNat?, k.toList with
    | some n, [c] => (tokOfChar c).map fun t => { pos := n, tok := t }
    | _, _ => none
  | _ => none

def parseToks (s : String) : Option (List Word) :=
  if s = "-" then some [] else mapM? parseWord (splitList s ",")

def handleC24 (fields : List String) : String :=
  match fields with
  | [hs, ts] =>
    match bytesOfHex hs, parseToks ts with
    | some src, some toks =>
      match rearrange src toks with
      | .ok out => "ok " ++ hexField out
      | .panic => "PANIC"
    | _, _ => "bad-input"
  | _ => "bad-input"

def parseFRes (s : String) : Option (FRes Unit) :=
  if s = "err" then some (.err ())
  else if s = "panic" then some .panic
  else if s.startsWith "ok:" then (bytesOfHex (s.drop 3).toString).map .ok
  else none

def handleC24x (fields : List String) : String :=
  match fields with
  | [hs, ts, r1, r2] =>
    match bytesOfHex hs, parseToks ts, parseFRes r1, parseFRes r2 with
    | some src, some toks, some a, some b =>
      let source : Bytes → FRes Unit := fun x => if x = src then a else b
      match sourceEx source src toks with
      | .ok out => "ok " ++ hexField out
      | .err _ => "err"
      | .panic => "PANIC"
    | _, _, _, _ => "bad-input"
  | _ => "bad-input"

end GopModel.Driver
