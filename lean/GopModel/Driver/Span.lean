/- Line-protocol handler for C17: `span <recipe> <tree>` → `id:Pos:End` of every node of the
dumped tree (preorder), computed with the regenerated method bodies `posBody`/`endBody`
(`!` where the model says the method panics). -/
import GopModel.Model.SpanModel
import GopModel.Generated.Spans
import GopModel.Model.SpanOpaque
import GopModel.Driver.Util
namespace GopModel.Driver
open GopModel.SpanModel GopModel.Generated.Walk GopModel.Generated.Spans

abbrev SN := SNode Kind Fld

def parseVals (n : Nat) (toks : List String) (acc : List (Fld × Nat)) :
    Option (List (Fld × Nat) × List String) :=
  match n with
  | 0 => some (acc.reverse, toks)
  | n + 1 =>
    match toks with
    | name :: v :: rest =>
      match fldNames.lookup name, String.toNat? v with
      | some f, some x => parseVals n rest ((f, x) :: acc)
      | _, _ => none
    | _ => none

/- tree := "0" slot | "N" slot kind id nvals (name value)* nkids tree* -/
mutual
def parseSTree (fuel : Nat) (toks : List String) : Option (SN × List String) :=
  match fuel with
  | 0 => none
  | fuel + 1 =>
    match toks with
    | "0" :: slot :: rest =>
      match fldNames.lookup slot with
      | none => none
      | some s => some (.null s, rest)
    | "N" :: slot :: kind :: id :: nvals :: rest =>
      match fldNames.lookup slot, kindNames.lookup kind, String.toNat? id, String.toNat? nvals with
      | some s, some k, some i, some nv =>
        match parseVals nv rest [] with
        | none => none
        | some (vals, rest) =>
          match rest with
          | nk :: rest =>
            match String.toNat? nk with
            | none => none
            | some n =>
              match parseSKids fuel n rest [] with
              | none => none
              | some (kids, rest) => some (.mk s k i vals kids, rest)
          | [] => none
      | _, _, _, _ => none
    | _ => none
def parseSKids (fuel : Nat) (n : Nat) (toks : List String) (acc : List SN) :
    Option (List SN × List String) :=
  match fuel with
  | 0 => none
  | fuel + 1 =>
    match n with
    | 0 => some (acc.reverse, toks)
    | n + 1 =>
      match parseSTree fuel toks with
      | none => none
      | some (t, rest) => parseSKids fuel n rest (t :: acc)
end

def showOpt : Option Nat → String
  | some n => toString n
  | none => "!"

/-- `span <recipe> <tree>` -/
def handleSpan (fields : List String) : String :=
  match fields with
  | [_recipe, tree] =>
    match fldNames with
    | (rootName, _) :: _ =>
      let toks := tree.splitOn " "
      let toks := match toks with
        | tag :: _slot :: rest => tag :: rootName :: rest
        | t => t
      match parseSTree (toks.length + 1) toks with
      | some (t, []) =>
        " ".intercalate ((allSpans tables t).map fun (i, p, e) =>
          toString i ++ ":" ++ showOpt p ++ ":" ++ showOpt e)
      | _ => "bad-input"
    | [] => "bad-input"
  | _ => "bad-input"

end GopModel.Driver
