import GopModel.Model.Overload
import GopModel.Driver.Util
/-! Line-protocol handlers for the C10 model (ops `c10enc`, `c10dec`, `c10disp`). -/
namespace GopModel.Driver
open GopModel.Overload

def strOfHex (h : String) : Option Str :=
  (bytesOfHex h).map fun bs => bs.map fun b => Char.ofNat b.toNat

def hexOfStr (s : Str) : String :=
  hexField (s.map fun c => UInt8.ofNat c.toNat)

def parseCand (f : String) : Option Cand :=
  match f.splitOn ":" with
  | ["L"] => some .lit
  | ["O"] => some .other
  | ["I", n] => (strOfHex n).map .ident
  | ["S", t, n] => do let t ← strOfHex t; let n ← strOfHex n; pure (.sel t n)
  | _ => none

def parseDecl (name recv isOp isClass cands : String) : Option Decl := do
  let name ← strOfHex name
  let recv ← if recv = "none" then some none else (strOfHex recv).map some
  let cs ← mapM? parseCand (splitList cands ",")
  pure { name := name, recv := recv, isOp := isOp = "1", isClass := isClass = "1", cands := cs }

def showErr : EncErr → String
  | .invalidMethod i => s!"err invalid-method {i}"
  | .invalidFunc i => s!"err invalid-func {i}"
  | .invalidRecv i => s!"err invalid-recv {i}"
  | .unknownFunc i => s!"err unknown-func {i}"
  | .invalidOperator => "err invalid-operator"

def showEnc : EncRes → String
  | .err e => showErr e
  | .panicIndex i => s!"panic index {i}"
  | .ok e =>
    let lits := ",".intercalate (e.litFuncs.map hexOfStr)
    let g := match e.gopo with
      | none => "none"
      | some (n, v) => hexOfStr n ++ ":" ++ hexOfStr v
    s!"ok lits={lits} gopo={g}"

/-- `c10enc name recv isOp isClass cands` -/
def handleC10Enc (fields : List String) : String :=
  match fields with
  | [name, recv, isOp, isClass, cands] =>
    match parseDecl name recv isOp isClass cands with
    | some d => showEnc (encode d)
    | none => "bad-input"
  | _ => "bad-input"

def showRef : Ref → String
  | .func n => "F:" ++ hexOfStr n
  | .method t n => "M:" ++ hexOfStr t ++ ":" ++ hexOfStr n

def showDec : DecRes → String
  | .panic => "panic"
  | .none_ => "none"
  | .overload r n fns =>
    let rs := match r with | none => "none" | some t => hexOfStr t
    s!"overload {rs} {hexOfStr n} " ++ ",".intercalate (fns.map showRef)

def parseType (f : String) : Option (Str × List Str) :=
  match f.splitOn ":" with
  | [t, ms] => do
    let t ← strOfHex t
    let ms ← mapM? strOfHex (splitList ms ";")
    pure (t, ms)
  | [t] => (strOfHex t).map fun t => (t, [])
  | _ => none

/-- `c10dec funcs types gopoName value declName`: gogen on a scope; `gopoName = none` takes the
no-constant path for `declName`. -/
def handleC10Dec (fields : List String) : String :=
  match fields with
  | [funcs, types, gname, gval, dname] =>
    match mapM? strOfHex (if funcs = "-" then [] else splitList funcs ","),
          mapM? parseType (if types = "-" then [] else splitList types ","),
          strOfHex gval, strOfHex dname with
    | some fs, some ts, some v, some dn =>
      let sc : Scope := { funcs := fs, types := ts }
      if gname = "none" then showDec (decodeNoConst sc dn)
      else match strOfHex gname with
        | some g => showDec (decodeConst sc g v)
        | none => "bad-input"
    | _, _, _, _ => "bad-input"
  | _ => "bad-input"

def parseUnder (s : String) : Option Under :=
  match s with
  | "bI" => some (.base .int) | "bS" => some (.base .string)
  | "bF" => some (.base .float64) | "bB" => some (.base .bool)
  | "lSI" => some (.lit .sliceInt) | "lSS" => some (.lit .sliceString)
  | "lFII" => some (.lit .funcIntInt) | "lFS" => some (.lit .funcString)
  | "lMSI" => some (.lit .mapStringInt) | "lPI" => some (.lit .ptrInt)
  | _ => none

def parseTy (s : String) : Option Ty :=
  match s.splitOn "=" with
  | [u] => (parseUnder u).map fun u => match u with | .base b => .base b | .lit l => .lit l
  | [n, u] => do
    let id ← (n.drop 1).toString.toNat?
    let u ← parseUnder u
    if n.startsWith "n" then pure (.named id u) else none
  | _ => none

def parseCandidate (s : String) : Option Candidate :=
  match s.splitOn ":" with
  | [id, ps] => do
    let id ← id.toNat?
    let ps ← mapM? parseTy (splitList ps ",")
    pure { id := id, params := ps }
  | _ => none

/-- `c10disp cands args` → `D=<0|1> R=<id|none>` -/
def handleC10Disp (fields : List String) : String :=
  match fields with
  | cands :: args :: _ =>
    match mapM? parseCandidate (splitList cands "|"), mapM? parseTy (splitList args ",") with
    | some cs, some as =>
      let d := if pairwiseDistinguishable cs then "1" else "0"
      let r := match dispatch cs as with | some c => toString c.id | none => "none"
      s!"D={d} R={r}"
    | _, _ => "bad-input"
  | _ => "bad-input"

def parseLead (s : String) : Option Lead :=
  match s with
  | "n" => some .none | "i" => some .int | "s" => some .str | "I" => some .sliceInt
  | "S" => some .sliceStr | "ci" => some .constInt | "cs" => some .constStr | "g" => some .genSlice
  | _ => none

def parseLCand (s : String) : Option LCand :=
  match s.splitOn ":" with
  | [id, lead, k, r, g] => do
    pure { id := ← id.toNat?, lead := ← parseLead lead, k := ← k.toNat?, r := ← r.toNat?, generic := g = "1" }
  | _ => none

def parseLCall (s : String) : Option LCall :=
  match s.splitOn ":" with
  | [lead, form, k, r] => do
    let l ← parseLead lead
    let k ← k.toNat?
    let r ← r.toNat?
    match form with
    | "expr" => pure ⟨l, .expr k r⟩
    | "block" => pure ⟨l, .block k⟩
    | "lit" => pure ⟨l, .lit k r⟩
    | _ => none
  | _ => none

/-- `c10lam cands call` → `R=<id|none> U=<number of accepting candidates>` -/
def handleC10Lam (fields : List String) : String :=
  match fields with
  | cands :: call :: _ =>
    match mapM? parseLCand (splitList cands "|"), parseLCall call with
    | some cs, some c =>
      let r := match ldispatch cs c with | some x => toString x.id | none => "none"
      s!"R={r} U={lacceptors cs c}"
    | _, _ => "bad-input"
  | _ => "bad-input"

end GopModel.Driver
