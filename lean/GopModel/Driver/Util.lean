/- Helpers for the line-protocol driver: hex <-> bytes, field splitting. Core only. -/
namespace GopModel.Driver

def hexDigit (n : Nat) : Char :=
  if n < 10 then Char.ofNat (48 + n) else Char.ofNat (87 + n)

def hexOfBytes (bs : List UInt8) : String :=
  String.ofList (bs.flatMap fun b => [hexDigit (b.toNat / 16), hexDigit (b.toNat % 16)])

def hexVal (c : Char) : Option Nat :=
  if '0' ≤ c ∧ c ≤ '9' then some (c.toNat - 48)
  else if 'a' ≤ c ∧ c ≤ 'f' then some (c.toNat - 87)
  else if 'A' ≤ c ∧ c ≤ 'F' then some (c.toNat - 55)
  else none

def bytesOfHexAux : List Char → List UInt8 → Option (List UInt8)
  | [], acc => some acc.reverse
  | [_], _ => none
  | a :: b :: t, acc =>
    match hexVal a, hexVal b with
    | some x, some y => bytesOfHexAux t (UInt8.ofNat (x * 16 + y) :: acc)
    | _, _ => none

/-- Decode a hex string; "-" denotes the empty byte string (so fields are never empty). -/
def bytesOfHex (s : String) : Option (List UInt8) :=
  if s = "-" then some [] else bytesOfHexAux s.toList []

def hexField (bs : List UInt8) : String :=
  if bs.isEmpty then "-" else hexOfBytes bs

/-- Split on a separator; the empty string yields the empty list. -/
def splitList (s : String) (sep : String) : List String :=
  if s.isEmpty then [] else s.splitOn sep

def mapM? (f : α → Option β) : List α → Option (List β)
  | [] => some []
  | a :: t => do let b ← f a; let r ← mapM? f t; pure (b :: r)

end GopModel.Driver
