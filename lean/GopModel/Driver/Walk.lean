/- Line-protocol handler for C18: `walk <m> <recipe> <tree>` → the visitor calls of the model
`WalkModel.walk` on the dumped tree, with the regenerated table `Generated.Walk.walkCase`. -/
import GopModel.Model.WalkModel
import GopModel.Generated.Walk
import GopModel.Driver.Util
namespace GopModel.Driver
open GopModel.WalkModel GopModel.Generated.Walk

abbrev WNode := Node Kind Fld

def parseFlags (n : Nat) (toks : List String) (acc : List (Fld × Bool)) :
    Option (List (Fld × Bool) × List String) :=
  match n with
  | 0 => some (acc.reverse, toks)
  | n + 1 =>
    match toks with
    | name :: bit :: rest =>
      match fldNames.lookup name with
      | none => none
      | some f => parseFlags n rest ((f, bit == "1") :: acc)
    | _ => none

/- tree := "0" slot (kind|"-") | "N" slot kind id nflags (name bit)* nkids tree*   (space separated) -/
mutual
def parseTree (fuel : Nat) (toks : List String) : Option (WNode × List String) :=
  match fuel with
  | 0 => none
  | fuel + 1 =>
    match toks with
    | "0" :: slot :: ty :: rest =>
      match fldNames.lookup slot with
      | none => none
      | some s =>
        if ty = "-" then some (.null s none, rest)
        else match kindNames.lookup ty with
          | none => none
          | some k => some (.null s (some k), rest)
    | "N" :: slot :: kind :: id :: nflags :: rest =>
      match fldNames.lookup slot, kindNames.lookup kind, id.toNat?, nflags.toNat? with
      | some s, some k, some i, some nf =>
        match parseFlags nf rest [] with
        | none => none
        | some (flags, rest) =>
          match rest with
          | nk :: rest =>
            match String.toNat? nk with
            | none => none
            | some n =>
              match parseKids fuel n rest [] with
              | none => none
              | some (kids, rest) => some (.mk s k i flags kids, rest)
          | [] => none
      | _, _, _, _ => none
    | _ => none
def parseKids (fuel : Nat) (n : Nat) (toks : List String) (acc : List WNode) :
    Option (List WNode × List String) :=
  match fuel with
  | 0 => none
  | fuel + 1 =>
    match n with
    | 0 => some (acc.reverse, toks)
    | n + 1 =>
      match parseTree fuel toks with
      | none => none
      | some (t, rest) => parseKids fuel n rest (t :: acc)
end
def showEv : Ev → String
  | .visit i => toString i
  | .nil => "^"

def descend (m : Nat) (id : Nat) : Bool := !(m > 0 && id % m == 0)

/-- `walk <m> <recipe> <tree>`; the root's slot is written "root" by the harness and replaced
here by an arbitrary field name (the root is in no field). -/
def handleWalk (fields : List String) : String :=
  match fields with
  | [m, _recipe, tree] =>
    match m.toNat?, fldNames with
    | some m, (rootName, _) :: _ =>
      let toks := tree.splitOn " "
      let toks := match toks with
        | tag :: _slot :: rest => tag :: rootName :: rest
        | t => t
      match parseTree (toks.length + 1) toks with
      | some (t, []) =>
        let r := walk walkCase (descend m) t
        let body := " ".intercalate (r.evs.map showEv)
        let head := if r.panicked then "PANIC" else "ok"
        if body.isEmpty then head else head ++ " " ++ body
      | _ => "bad-input"
    | _, _ => "bad-input"
  | _ => "bad-input"

end GopModel.Driver
