/-
Line-protocol handlers for the TPL matcher model (C28, C29).

  tplm <TAB> grammar <TAB> tokens <TAB> fileEnd <TAB> procs
    grammar : s-expression `((R <namehex> <G>) …)`, first rule = document rule.
      G ::= T | W | (S <quote>) | (K <tok> <labelhex>) | (L <tok> <lithex>)
          | (C (<G>…) <stops>)   stops = string over {0,1}, or `n` for a nil slice
          | (Q <G>…) | (* <G>) | (+ <G>) | (? <G>) | (A <G> <G>) | (V <namehex>)
    tokens  : `kind:lithex:pos:end` joined by `,` (`-` = no token)
    procs   : `namehex=w<tag>` (wrap: r ↦ [leaf tag, r]) | `namehex=k<tag>` (constant leaf)
              | `namehex=f` (first element of a list result), joined by `,` (`-` = none)
  output: `chk=<ok|rec:<namehex>|FUEL> wf=<0|1> stops=<0|1> | M <match> | P <parse> | E <parseExpr>`
-/
import GopModel.Model.TplMatch
import GopModel.Driver.Util
namespace GopModel.Driver
open GopModel.Tpl

inductive SX where
  | atom (s : String)
  | list (xs : List SX)
  deriving Inhabited

def sxTokens (s : String) : List String :=
  let step (st : List String × String) (ch : Char) : List String × String :=
    let flush (st : List String × String) : List String :=
      if st.2.isEmpty then st.1 else st.2 :: st.1
    if ch = '(' then ("(" :: flush st, "")
    else if ch = ')' then (")" :: flush st, "")
    else if ch = ' ' then (flush st, "")
    else (st.1, st.2.push ch)
  let r := s.toList.foldl step ([], "")
  (if r.2.isEmpty then r.1 else r.2 :: r.1).reverse

def sxParse (toks : List String) : Option SX :=
  let step (st : Option (List (List SX))) (t : String) : Option (List (List SX)) :=
    match st with
    | none => none
    | some stack =>
      if t = "(" then some ([] :: stack)
      else if t = ")" then
        match stack with
        | top :: next :: rest => some ((SX.list top.reverse :: next) :: rest)
        | _ => none
      else
        match stack with
        | top :: rest => some ((SX.atom t :: top) :: rest)
        | [] => none
  match toks.foldl step (some [[]]) with
  | some [[x]] => some x
  | _ => none

def parseStops (s : String) : Option (List Bool) :=
  if s = "n" then some []
  else if s = "e" then some []
  else mapM? (fun ch => if ch = '0' then some false else if ch = '1' then some true else none) s.toList

def sxToG : Nat → SX → Option G
  | 0, _ => none
  | fuel + 1, sx =>
    match sx with
    | .atom "T" => some .tru
    | .atom "W" => some .ws
    | .list [.atom "S", .atom q] => some (.str (UInt8.ofNat q.toNat!))
    | .list [.atom "K", .atom k, .atom lbl] => do
      let l ← bytesOfHex lbl
      if k.isNat then some (.tok k.toNat! l) else none
    | .list [.atom "L", .atom k, .atom lit] => do
      let l ← bytesOfHex lit
      if k.isNat then some (.lit k.toNat! l) else none
    | .list [.atom "C", .list opts, .atom stops] => do
      let os ← mapM? (sxToG fuel) opts
      let st ← parseStops stops
      some (.choice os st)
    | .list (.atom "Q" :: items) => do
      let is ← mapM? (sxToG fuel) items
      some (.seq is)
    | .list [.atom "*", g] => do let x ← sxToG fuel g; some (.rep0 x)
    | .list [.atom "+", g] => do let x ← sxToG fuel g; some (.rep1 x)
    | .list [.atom "?", g] => do let x ← sxToG fuel g; some (.rep01 x)
    | .list [.atom "A", a, b] => do
      let x ← sxToG fuel a
      let y ← sxToG fuel b
      some (.adjoin x y)
    | .list [.atom "V", .atom name] => do let n ← bytesOfHex name; some (.var n)
    | _ => none

def sxToEnv (fuel : Nat) : SX → Option Env
  | .list rules =>
    mapM? (fun r => match r with
      | .list [.atom "R", .atom name, g] => do
        let n ← bytesOfHex name
        let x ← sxToG fuel g
        some (n, x)
      | _ => none) rules
  | _ => none

def parseTok (s : String) : Option Tok :=
  match s.splitOn ":" with
  | [k, lit, pos, e] => do
    let l ← bytesOfHex lit
    if k.isNat ∧ pos.isNat ∧ e.isNat then some ⟨k.toNat!, l, pos.toNat!, e.toNat!⟩ else none
  | _ => none

def parseToks (s : String) : Option (List Tok) :=
  if s = "-" then some [] else mapM? parseTok (s.splitOn ",")

/-- The return procedures the driver knows. -/
def procOf (spec : String) : Option (V Nat → V Nat) :=
  match spec.toList with
  | 'w' :: rest => let t := (String.ofList rest); if t.isNat then some (fun r => .list [.leaf t.toNat!, r]) else none
  | 'k' :: rest => let t := (String.ofList rest); if t.isNat then some (fun _ => .leaf t.toNat!) else none
  | ['f'] => some (fun r => match r with | .list (x :: _) => x | o => o)
  | _ => none

def parseProcs (s : String) : Option (List (Bytes × (V Nat → V Nat))) :=
  if s = "-" then some []
  else mapM? (fun item => match item.splitOn "=" with
    | [name, spec] => do
      let n ← bytesOfHex name
      let p ← procOf spec
      some (n, p)
    | _ => none) (s.splitOn ",")

def showV : Nat → V Nat → String
  | 0, _ => "?"
  | fuel + 1, v =>
    match v with
    | .nil => "N"
    | .tok i => "T" ++ toString i
    | .leaf a => "L" ++ toString a
    | .list xs => "[" ++ " ".intercalate (xs.map (showV fuel)) ++ "]"

def showErr : Err → String
  | .expect what pos => "X:" ++ toString pos ++ ":" ++ hexField what
  | .noWS => "WS"
  | .adjoinEmpty => "AE"
  | .multi => "MM"
  | .notAdjoin pos => "NA:" ++ toString pos
  | .unassigned name => "UA:" ++ hexField name

def showAbort : Abort → String
  | .fuel => "HANG"
  | .panic => "PANIC"

def showOptErr : Option Err → String
  | none => "nil"
  | some e => showErr e

def showTop (t : TopOut Nat) : String :=
  match t.res with
  | .ok n r => "ok " ++ toString n ++ " " ++ showV 1000 r ++ " L=" ++ toString t.left ++ " E=" ++ showOptErr t.lastErr
  | .fail n e => "fail " ++ toString n ++ " " ++ showErr e ++ " L=" ++ toString t.left ++ " E=" ++ showOptErr t.lastErr
  | .abort a => showAbort a

def showParse : ParseRes Nat → String
  | .ok r => "ok " ++ showV 1000 r
  | .err e => "err " ++ showErr e
  | .unexpected p => "unexp:" ++ toString p
  | .abort a => showAbort a

/-- Every `*Choices` node carries the `stops` that `CheckConflicts` computes. -/
def stopsOkG (env : Env) : Nat → G → Bool
  | 0, _ => false
  | fuel + 1, g =>
    match g with
    | .choice opts stops =>
      opts.all (stopsOkG env fuel) &&
        (match firstsOf (fun g => firstF env.firstFuel env g) opts with
         | .ok firsts => stopsOf firsts == stops
         | .error _ => false)
    | .seq items => items.all (stopsOkG env fuel)
    | .rep0 g => stopsOkG env fuel g
    | .rep1 g => stopsOkG env fuel g
    | .rep01 g => stopsOkG env fuel g
    | .adjoin a b => stopsOkG env fuel a && stopsOkG env fuel b
    | _ => true

/-- The matcher tree with every `stops` recomputed by the model of `CheckConflicts`
(the model then covers conflict detection + matching; the serialised real `stops` are
compared separately, flag `stops=`). -/
def restop (env : Env) : Nat → G → G
  | 0, g => g
  | fuel + 1, g =>
    match g with
    | .choice opts stops =>
      let opts' := opts.map (restop env fuel)
      match firstsOf (fun g => firstF env.firstFuel env g) opts with
      | .ok firsts => .choice opts' (stopsOf firsts)
      | .error _ => .choice opts' stops
    | .seq items => .seq (items.map (restop env fuel))
    | .rep0 g => .rep0 (restop env fuel g)
    | .rep1 g => .rep1 (restop env fuel g)
    | .rep01 g => .rep01 (restop env fuel g)
    | .adjoin a b => .adjoin (restop env fuel a) (restop env fuel b)
    | g => g

def b01 (b : Bool) : String := if b then "1" else "0"

def handleTplm (fields : List String) : String :=
  match fields with
  | gs :: ts :: fe :: ps :: _ =>
    match sxParse (sxTokens gs) >>= sxToEnv gs.length, parseToks ts, parseProcs ps with
    | some env, some toks, some procs =>
      if ¬ fe.isNat then "bad-input" else
      let chk := checkAll env
      let head := "chk=" ++ (match chk with
        | .ok => "ok" | .recur n => "rec:" ++ hexField n | .fuel => "FUEL") ++
        " wf=" ++ b01 (env.wf && (match chk with | .ok => env.stopsLen | _ => true) && toksOk toks)
      match chk with
      | .ok =>
        let doc : Bytes := match env with | (n, _) :: _ => n | [] => []
        let sok := env.all (fun e => stopsOkG env (e.2.size + 1) e.2)
        let env' : Env := env.map (fun e => (e.1, restop env (e.2.size + 1) e.2))
        let c : Cx Nat := ⟨env', toks, fe.toNat!, fun name => procs.lookup name⟩
        let fuel := matchBound env toks.length
        head ++ " stops=" ++ b01 sok ++
          " | M " ++ showTop (matchTop c fuel doc) ++
          " | P " ++ showParse (parseTop c fuel doc) ++
          " | E " ++ showParse (parseExprTop c fuel doc)
      | _ => head
    | _, _, _ => "bad-input"
  | _ => "bad-input"

end GopModel.Driver
