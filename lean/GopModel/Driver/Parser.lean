/- Line-protocol handlers for the parser models (C13: perr, adv; C14: cmd). Core only. -/
import GopModel.Model.ParserErr
import GopModel.Model.CmdAmbig
import GopModel.Driver.Util
namespace GopModel.Driver
open GopModel

def nat? (s : String) : Option Nat := s.toNat?

def triple? (s : String) : Option (Nat × Nat × Nat) :=
  match s.splitOn ":" with
  | [a, b, c] => do pure ((← nat? a), (← nat? b), (← nat? c))
  | _ => none

def ev? (s : String) : Option ParserErr.Ev :=
  let body := (s.drop 1).toString
  match s.toList.head? with
  | some 'p' => do let (l, c, m) ← triple? body; pure (.parse l c m)
  | some 's' => do let (l, c, m) ← triple? body; pure (.scan l c m)
  | some 'u' => do let ts ← mapM? triple? (body.splitOn ";"); pure (.sub ts)
  | _ => none

def showErrs (es : List ParserErr.Err) : String :=
  if es.isEmpty then "-"
  else " ".intercalate (es.map fun e => s!"{e.line}:{e.col}:{e.msg}")

/-- `perr <allErrors 0|1> <events>` -/
def handlePerr (fields : List String) : String :=
  match fields with
  | [all, evs] =>
    let evl := if evs = "-" then some [] else mapM? ev? (splitList evs " ")
    match evl with
    | none => "bad-input"
    | some evl =>
      let (raw, bailed) := ParserErr.run Generated.ParserRecover.errorLimit (all = "1") evl []
      (if bailed then "bailout" else "run") ++ " raw " ++ showErrs raw ++ " sorted " ++
        showErrs (ParserErr.sortErrs raw)
  | _ => "bad-input"

def ptok? (s : String) : Option ParserErr.PTok :=
  match s.splitOn ":" with
  | [k, p] => do pure ⟨k, (← nat? p)⟩
  | _ => none

def showPS (s : ParserErr.PS) : String :=
  match s.toks with
  | [] => "?"
  | t :: _ => s!"{t.pos}:{t.kind}:{s.syncPos}:{s.syncCnt}"

/-- `adv <script> <toks> [<hex source, ignored>]` -/
def handleAdv (fields : List String) : String :=
  match fields with
  | script :: toks :: _ =>
    match mapM? ptok? (splitList toks " ") with
    | none => "bad-input"
    | some ts =>
      " ".intercalate ((ParserErr.runScript script.toList ⟨ts, 0, 0⟩).map showPS)
  | _ => "bad-input"

def ctok? (s : String) : Option CmdAmbig.Tok :=
  match s.splitOn ":" with
  | [k, p, e] => do pure ⟨k, (← nat? p), (← nat? e)⟩
  | _ => none

/-- `cmd <ctx list|hdr> <toks> [<hex statement, ignored>]`; the answer carries, after the
decision, whether the statement satisfies the hypothesis of `C14_no_cmd_on_adjacent` (g/n). -/
def handleCmd (fields : List String) : String :=
  match fields with
  | ctx :: toks :: _ =>
    match mapM? ctok? (splitList toks " ") with
    | none => "bad-input"
    | some ts =>
      let g := if decide (CmdAmbig.GofmtLayout ts) then " g" else " n"
      match CmdAmbig.cmdSite (ctx = "list") ts with
      | .site p k => s!"site {p} {k}" ++ g
      | .noSite => "none" ++ g
      | .outside => "outside" ++ g
  | _ => "bad-input"

end GopModel.Driver
