import GopModel.Model.DetSched
import GopModel.Driver.Util
/-! Line-protocol handler for the C08 loader model.

`sched <prog> <pi> <fixed> <skip>` with
* `prog`  = `;`-separated symbols in source order, each `id:dep,dep,…:slot(0|1):err(-|id)`;
* `pi`    = `,`-separated roots of the map-driven phase (any order: the handler sorts them, as the
            repaired code does);
* `fixed` = roots of the slice-driven phase (`loadFile`), in order;
* `skip`  = symbols declared in Go files (their declarations go to gogen's `_skip` file, which is
            never written: filtered out of the reported declaration order).
Answer: `err=<ids>` if any error was reported (the compiler then returns no output), otherwise
`decl=<ids>` = order of the top-level declarations. -/
namespace GopModel.Driver
open GopModel.DetSched

def natList? (s : String) : Option (List Nat) :=
  mapM? (fun (t : String) => t.toNat?) (splitList s ",")

def parseSym? (s : String) : Option Sym :=
  match s.splitOn ":" with
  | [id, deps, slot, err] => do
    let n ← id.toNat?
    let ds ← natList? deps
    let e ← if err = "-" then some none else (err.toNat?).map some
    pure ⟨n, ds, slot = "1", e⟩
  | _ => none

def showNats (l : List Nat) : String := ",".intercalate (l.map toString)

def handleSched (fields : List String) : String :=
  match fields with
  | [prog, pi, fixed, skip] =>
    match mapM? parseSym? (splitList prog ";"), natList? pi, natList? fixed, natList? skip with
    | some P, some π, some fx, some sk =>
      let st := run P (sortNames π) fx
      if st.oof then "OUTOFFUEL"
      else if !(errOut st).isEmpty then "err=" ++ showNats (errOut st)
      else "decl=" ++ showNats ((declOut P st).filter (fun n => !sk.contains n))
    | _, _, _, _ => "bad-input"
  | _ => "bad-input"

end GopModel.Driver
