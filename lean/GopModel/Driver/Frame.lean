import GopModel.Model.Frame
import GopModel.Driver.Util
/- Line-protocol handlers for the C38 model (JSON-RPC header framing).
   c38r  <hex stream>          → frames `ok:<total>` separated by ',' then ';' and the end:
                                 eof | err:<kind>:<total> | OUTOFFUEL       (e.g. "ok:25,ok:31;eof")
   c38w  <hex>,<hex>,…         → hex of the concatenated frames
   c38id <int>                 → the int64 id after a JSON round trip
   c38ln <hex line>            → classification of one header line -/
namespace GopModel.Driver
open GopModel.Frame

def errName : ReadErr → String
  | .headerEOF => "headerEOF"
  | .invalidHeader => "invalidHeader"
  | .badLength => "badLength"
  | .nonPositive => "nonPositive"
  | .missingLength => "missingLength"
  | .bodyEOF => "bodyEOF"
  | .bodyShort => "bodyShort"

def finalName : Final → String
  | .eof => "eof"
  | .err e t => "err:" ++ errName e ++ ":" ++ toString t
  | .outOfFuel => "OUTOFFUEL"

def handleC38r (fields : List String) : String :=
  match fields with
  | [hs] =>
    match bytesOfHex hs with
    | some s =>
      let (fs, fin) := readStream s
      ",".intercalate (fs.map fun f => "ok:" ++ toString f.2) ++ ";" ++ finalName fin
    | none => "bad-input"
  | _ => "bad-input"

def handleC38w (fields : List String) : String :=
  match fields with
  | [ps] =>
    match mapM? bytesOfHex (splitList ps ",") with
    | some payloads => hexField (payloads.flatMap writeFrame)
    | none => "bad-input"
  | _ => "bad-input"

def handleC38id (fields : List String) : String :=
  match fields with
  | [s] =>
    match s.toInt? with
    | some i => toString (idThroughJSON i)
    | none => "bad-input"
  | _ => "bad-input"

def kindName : LineKind → String
  | .blank => "blank"
  | .invalid => "invalid"
  | .unknown => "unknown"
  | .length n => "length:" ++ toString n
  | .badLength => "badLength"
  | .nonPositive n => "nonPositive:" ++ toString n

def handleC38ln (fields : List String) : String :=
  match fields with
  | [hs] =>
    match bytesOfHex hs with
    | some s => kindName (classify s)
    | none => "bad-input"
  | _ => "bad-input"

end GopModel.Driver
