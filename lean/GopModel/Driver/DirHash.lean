import GopModel.Model.DirHash
import GopModel.Driver.Util
namespace GopModel.Driver
open GopModel.DirHash

/-! Line protocol for C36.
`c36 <self 0/1> <hex goVersion> <hex xgoVersion> <class exts: "-" or comma list of hex> <listing>`
listing: `ERR` (ReadDir fails) or "-" or comma list of `hexname:<isDir 0/1>:<size>:<mtimeNs>`
(decimal, possibly negative; `x:x` when Info() fails).  Output: `pre:<hex of the preimage>`. -/

def parseHashEntries (s : String) : Option (List Entry) :=
  if s = "-" then some []
  else mapM? (fun (it : String) =>
    match it.splitOn ":" with
    | [h, d, sz, mt] => do
      let n ← bytesOfHex h
      let d ← if d = "1" then some true else if d = "0" then some false else none
      if sz = "x" then pure (⟨n, d, none⟩ : Entry)
      else do
        let sz ← sz.toInt?
        let mt ← mt.toInt?
        pure (⟨n, d, some (sz, mt)⟩ : Entry)
    | _ => none) (splitList s ",")

def parseHashCfg (self gv xv exts : String) : Option Config :=
  match bytesOfHex gv, bytesOfHex xv, mapM? bytesOfHex (if exts = "-" then [] else splitList exts ",") with
  | some gv, some xv, some exts => some ⟨self = "1", gv, xv, fun e => exts.contains e⟩
  | _, _, _ => none

def preOf (cfg : Config) (listing : String) : Option String :=
  if listing = "ERR" then some ("pre:" ++ hexField (preimage cfg none))
  else (parseHashEntries listing).map fun l => "pre:" ++ hexField (preimage cfg (some l))

def handleC36 (fields : List String) : String :=
  match fields with
  | self :: gv :: xv :: exts :: listing :: _ =>
    match parseHashCfg self gv xv exts with
    | some cfg => (preOf cfg listing).getD "bad-input"
    | none => "bad-input"
  | _ => "bad-input"

/-- `c36pair …cfg… <listing1> <listing2>`: two directory states under one configuration. -/
def handleC36Pair (fields : List String) : String :=
  match fields with
  | self :: gv :: xv :: exts :: l1 :: l2 :: _ =>
    match parseHashCfg self gv xv exts with
    | some cfg =>
      match preOf cfg l1, preOf cfg l2 with
      | some a, some b => a ++ " " ++ b
      | _, _ => "bad-input"
    | none => "bad-input"
  | _ => "bad-input"

end GopModel.Driver
