import GopModel.Model.Proj
import GopModel.Driver.Util
namespace GopModel.Driver
open GopModel.Proj

def showP : P → String
  | .files fs => "F:" ++ ",".intercalate (fs.map hexField)
  | .dir d => "D:" ++ hexField d
  | .pkg p => "P:" ++ hexField p

/-- `projs <hex>,<hex>,…` (empty list: `projs` followed by an empty field). -/
def handleProjs (fields : List String) : String :=
  let argsField := fields.headD ""
  match mapM? bytesOfHex (splitList argsField ",") with
  | none => "bad-input"
  | some args =>
    match parseAll args with
    | .ok ps => "ok " ++ "|".intercalate (ps.map showP)
    | .mixed => "MIXED"
    | .outOfFuel => "OUTOFFUEL"

end GopModel.Driver
