import GopModel.Model.TplParse
import GopModel.Model.TplCompile
import GopModel.Driver.Util
/-!
Line protocol of `drv_tplfront` (C31, C27).

* `tplparse <eofpos>;<tok>,<tok>,…`  with `<tok> = kind:pos:hexlit` (the real scanner's tokens, final
  EOF removed) → `<rule> <rule> … ! <err>,<err>,…` (`-` for an empty list).
* `tplprint <expr>` (prefix form, see `readExpr`) → the tokens of `printE`, `kind:hexlit,…`.
* `tplnew <eofpos>;<toks>;<scanErrCount>;<unq>,<unq>,…` with `<unq> = hexlit:res` the real
  `strconv` results for every CHAR/STRING literal of the token list → outcome of parse + compile.
-/
namespace GopModel.Driver
open GopModel.Tpl

mutual
def showExpr : Expr → String
  | .ident n => "i" ++ hexField n
  | .lit k v => "l" ++ toString k ++ ":" ++ hexField v
  | .seq items => "(s" ++ showExprs items ++ ")"
  | .choice opts => "(c" ++ showExprs opts ++ ")"
  | .unary op x => "(u" ++ toString op ++ " " ++ showExpr x ++ ")"
  | .binary op x y => "(b" ++ toString op ++ " " ++ showExpr x ++ " " ++ showExpr y ++ ")"
  | .nil => "nil"
def showExprs : List Expr → String
  | [] => ""
  | e :: rest => " " ++ showExpr e ++ showExprs rest
end

def showRule (r : Rule) : String := hexField r.name ++ "=" ++ showExpr r.expr

def dashIfEmpty (s : String) : String := if s.isEmpty then "-" else s

structure PTok where
  tok : Tok
  pos : Nat

def readTok (s : String) : Option PTok :=
  match s.splitOn ":" with
  | [k, p, h] => do
    let k ← k.toNat?
    let p ← p.toNat?
    let l ← bytesOfHex h
    pure ⟨⟨k, l⟩, p⟩
  | _ => none

/-- `<eofpos>;<tok>,<tok>,…` -/
def readToks (eof toks : String) : Option (Nat × List PTok) := do
  let e ← eof.toNat?
  let ts ← mapM? readTok (splitList (if toks = "-" then "" else toks) ",")
  pure (e, ts)

/-- position of the token with `left` tokens remaining -/
def posOfLeft (eof : Nat) (ts : List PTok) (left : Nat) : Nat :=
  match ts.drop (ts.length - left) with
  | t :: _ => t.pos
  | [] => eof

def showPErr (eof : Nat) (ts : List PTok) (e : PErr) : String :=
  (match e.kind with
   | .expectedFactor => "F"
   | .expected t => "E" ++ toString t
   | .expectedIdent => "I") ++ "@" ++ toString (posOfLeft eof ts e.left)

def handleTplParse (fields : List String) : String :=
  match (fields.headD "").splitOn ";" with
  | [eof, toks] =>
    match readToks eof toks with
    | none => "bad-input"
    | some (eof, ts) =>
      match parseFile (ts.map (·.tok)) with
      | none => "OUTOFFUEL"
      | some r =>
        dashIfEmpty (" ".intercalate (r.rules.map showRule)) ++ " ! " ++
          dashIfEmpty (",".intercalate (r.errs.map (showPErr eof ts)))
  | _ => "bad-input"

/-! prefix-form reader for expressions: `i<hex>` `l<kind>:<hex>` `s<n>` `c<n>` `u<op>` `b<op>` `n`,
blank separated (arity follows the head). -/
def readExprs : Nat → List String → Option (List Expr × List String)
  | 0, _ => none
  | fuel + 1, toks =>
    -- reads ONE expression, returned as a singleton list (keeps the recursion simple)
    match toks with
    | [] => none
    | w :: rest =>
      let tag := w.take 1
      let arg := (w.drop 1).toString
      if tag == "i" then do
        let n ← bytesOfHex arg
        pure ([.ident n], rest)
      else if tag == "l" then
        match arg.splitOn ":" with
        | [k, h] => do
          let k ← k.toNat?
          let v ← bytesOfHex h
          pure ([.lit k v], rest)
        | _ => none
      else if tag == "n" then pure ([.nil], rest)
      else if tag == "u" then do
        let op ← arg.toNat?
        let (xs, rest) ← readExprs fuel rest
        match xs with
        | [x] => pure ([.unary op x], rest)
        | _ => none
      else if tag == "b" then do
        let op ← arg.toNat?
        let (xs, rest) ← readExprs fuel rest
        let (ys, rest) ← readExprs fuel rest
        match xs, ys with
        | [x], [y] => pure ([.binary op x y], rest)
        | _, _ => none
      else if tag == "s" || tag == "c" then do
        let n ← arg.toNat?
        let rec many : Nat → List String → Option (List Expr × List String)
          | 0, r => some ([], r)
          | k + 1, r => do
            let (xs, r) ← readExprs fuel r
            let (more, r) ← many k r
            pure (xs ++ more, r)
        let (items, rest) ← many n rest
        pure ([if tag == "s" then .seq items else .choice items], rest)
      else none

def handleTplPrint (fields : List String) : String :=
  let ws := (fields.headD "").splitOn " "
  match readExprs (ws.length + 1) ws with
  | some ([e], []) =>
    dashIfEmpty (",".intercalate ((printE e).map fun t => toString t.kind ++ ":" ++ hexField t.lit))
  | _ => "bad-input"

/-! ### tplnew -/

/-- `c<hexlit>=E | c<hexlit>=<v>.<mb>.<tailEmpty>` and `s<hexlit>=E | s<hexlit>=<hex>` -/
structure UnqTab where
  chars : List (Bytes × CharUnq)
  strs : List (Bytes × Option Bytes)

def readUnqEntry (t : UnqTab) (w : String) : Option UnqTab :=
  match ((w.drop 1).toString).splitOn "=" with
  | [h, res] => do
    let lit ← bytesOfHex h
    if w.take 1 == "c" then
      if res = "E" then pure { t with chars := (lit, .err) :: t.chars }
      else match res.splitOn "." with
        | [v, mb, te] => do
          let v ← v.toNat?
          pure { t with chars := (lit, .ok v (mb == "1") (te == "1")) :: t.chars }
        | _ => none
    else if w.take 1 == "s" then
      if res = "E" then pure { t with strs := (lit, none) :: t.strs }
      else do
        let v ← bytesOfHex res
        pure { t with strs := (lit, some v) :: t.strs }
    else none
  | _ => none

def readUnqTab (field : String) : Option UnqTab :=
  (splitList (if field = "-" then "" else field) ",").foldlM readUnqEntry ⟨[], []⟩

def UnqTab.toUnq (t : UnqTab) : Unq where
  char := fun lit => ((t.chars.find? (·.1 = lit)).map (·.2)).getD .err
  str := fun lit => ((t.strs.find? (·.1 = lit)).map (·.2)).getD none

def showItems (fs : List FItem) : String :=
  dashIfEmpty ("+".intercalate (fs.map fun
    | .tok t => "t" ++ toString t
    | .mt t l => "m" ++ toString t ++ ":" ++ hexField l))

def showConflicts (cs : List Conflict) : String :=
  dashIfEmpty (",".intercalate (cs.map fun c =>
    toString c.i ++ "/" ++ toString c.at ++ "/" ++ showItems c.me ++ "/" ++ showItems c.next))

def showCErr : CErr → String
  | .dupRule n => "dup:" ++ hexField n
  | .undefined n => "undef:" ++ hexField n
  | .invalidLit l => "badlit:" ++ hexField l
  | .invalidTok l => "badtok:" ++ hexField l
  | .invalidOp => "badop"
  | .assigned n => "assigned:" ++ hexField n
  | .recursive n => "rec:" ++ hexField n

def showNewRes : NewRes → String
  | .parseErr => "PARSEERR"
  | .ok cs => "ok " ++ showConflicts cs
  | .noDoc => "NODOC"
  | .errs es cs => "err " ++ ",".intercalate (es.map showCErr) ++ " " ++ showConflicts cs
  | .panic => "PANIC"
  | .oof => "OUTOFFUEL"

/-- scanner errors: `-` or the token indices at which they were reported, `.`-separated -/
def readIdx (s : String) : Option (List Nat) :=
  if s = "-" then some [] else mapM? String.toNat? (s.splitOn ".")

/-- `tplnew <eofpos>;<toks>;<scanErrAt>;<unq>` -/
def handleTplNew (fields : List String) : String :=
  match (fields.headD "").splitOn ";" with
  | [eof, toks, nerr, unq] =>
    match readToks eof toks, readIdx nerr, readUnqTab unq with
    | some (_, ts), some n, some tab => showNewRes (tplNew tab.toUnq (ts.map (·.tok)) n)
    | _, _, _ => "bad-input"
  | _ => "bad-input"

mutual
def showGoErr : GoErr → String
  | .plain => "plain"
  | .scanError => "*scanner.Error"
  | .scanErrorList => "scanner.ErrorList"
  | .matcherError => "*matcher.Error"
  | .errorsList items => "errors.List[" ++ showGoErrs items ++ "]"
def showGoErrs : List GoErr → String
  | [] => ""
  | [e] => showGoErr e
  | e :: rest => showGoErr e ++ "," ++ showGoErrs rest
end

def showFromFileRes : FromFileRes → String
  | .ok => "ok"
  | .err e => "err " ++ showGoErr e
  | .panic => "PANIC"
  | .oof => "OUTOFFUEL"

/-- `tplnewex <eofpos>;<toks>;<scanErrs>;<unq>;<srcOk>`: dynamic type of the error `tpl.NewEx` returns,
followed by the one `tpl.FromFile` returns (before Relocate). -/
def handleTplNewEx (fields : List String) : String :=
  match (fields.headD "").splitOn ";" with
  | [eof, toks, nerr, unq, srcOk] =>
    match readToks eof toks, readIdx nerr, readUnqTab unq with
    | some (_, ts), some n, some tab =>
      let ts := ts.map (·.tok)
      showFromFileRes (tplNewEx tab.toUnq (srcOk == "1") ts n) ++ " / " ++
        showFromFileRes (fromFile tab.toUnq (srcOk == "1") ts n)
    | _, _, _ => "bad-input"
  | _ => "bad-input"

/-- `tplcl <eofpos>;<toks>;<unq>`: `cl.NewEx` on whatever the parser returned (errors ignored); used only
to exercise the model's panic branches against the real compiler. -/
def handleTplCl (fields : List String) : String :=
  match (fields.headD "").splitOn ";" with
  | [eof, toks, unq] =>
    match readToks eof toks, readUnqTab unq with
    | some (_, ts), some tab =>
      match parseFile (ts.map (·.tok)) with
      | none => "OUTOFFUEL"
      | some r => showNewRes (newEx tab.toUnq r.rules)
    | _, _ => "bad-input"
  | _ => "bad-input"

end GopModel.Driver
