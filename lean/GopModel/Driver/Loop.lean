/- The IO loop shared by every line-protocol driver executable: one line in, one line out.
The only `partial def` in the project (it is IO, no theorem depends on it). -/
namespace GopModel.Driver

partial def loopLines (hin hout : IO.FS.Stream) (dispatch : String → String) : IO Unit := do
  let line ← hin.getLine
  if line.isEmpty then return ()
  let l := if line.endsWith "\n" then (line.dropEnd 1).toString else line
  hout.putStrLn (dispatch l)
  loopLines hin hout dispatch

def runDriver (dispatch : String → String) : IO Unit := do
  let hin ← IO.getStdin
  let hout ← IO.getStdout
  loopLines hin hout dispatch
  hout.flush

/-- Dispatch on the first tab-separated field. -/
def dispatchWith (handlers : List (String × (List String → String))) (line : String) : String :=
  match line.splitOn "\t" with
  | [] => "bad-op"
  | op :: fields =>
    match handlers.lookup op with
    | some h => h fields
    | none => "bad-op"

end GopModel.Driver
