/-
Line-protocol handler for the converter model (C37).

  togo <TAB> <tree>      tree = XGo `ast.File` value → <togo result | PANIC msg | ILLTYPED>
  conv <TAB> <tree>      tree = Go `ast.File` value (one or more declarations) as an s-expression
  →  <S1|S0> <TAB> <fromgo result | PANIC msg | ILLTYPED> <TAB> <togo(fromgo) result | … | -> <TAB> <HEQ|HNE|H->

Wire format of trees (tokens separated by one space):
  _            zero value (nil)          p<dec>  token.Pos        n<dec>  token/ChanDir/bool
  s<hex>       string                    o<tag>  opaque reference
  (Kind F= v G= v … )   node             [ v v … ]   non-nil slice
Fields with zero value are omitted; on output fields are sorted by name.
-/
import GopModel.Model.Conv
import GopModel.Model.ConvSpec
import GopModel.Generated.Conv
import GopModel.Driver.Util
namespace GopModel.Driver
open GopModel.Conv

/-! ### parsing -/

inductive Frame where
  | node (kind : String) (rev : List (String × Tree)) (pending : Option String)
  | list (rev : List Tree)

structure PState where
  stack : List Frame := []
  result : Option Tree := none
  bad : Bool := false

def forestOfElems : List Tree → Forest
  | [] => .nil
  | t :: r => .cons "" t (forestOfElems r)

def attach (st : PState) (v : Tree) : PState :=
  match st.stack with
  | [] => if st.result.isSome then { st with bad := true } else { st with result := some v }
  | .node k rev (some name) :: rest => { st with stack := .node k ((name, v) :: rev) none :: rest }
  | .node _ _ none :: _ => { st with bad := true }
  | .list rev :: rest => { st with stack := .list (v :: rev) :: rest }

def parseNat? (s : String) : Option Nat := s.toNat?

def stepTok (st : PState) (tok : String) : PState :=
  if st.bad then st
  else if tok.isEmpty then { st with bad := true }
  else if tok.endsWith "=" then
    match st.stack with
    | .node k rev none :: rest => { st with stack := .node k rev (some (tok.dropEnd 1).toString) :: rest }
    | _ => { st with bad := true }
  else
    let c := tok.front
    let rest := (tok.drop 1).toString
    if tok == ")" then
      match st.stack with
      | .node k rev none :: up => attach { st with stack := up } (.node k (Forest.ofList rev.reverse))
      | _ => { st with bad := true }
    else if tok == "]" then
      match st.stack with
      | .list rev :: up => attach { st with stack := up } (.list (forestOfElems rev.reverse))
      | _ => { st with bad := true }
    else if tok == "[" then { st with stack := .list [] :: st.stack }
    else if tok == "_" then attach st .nil
    else if c == '(' then { st with stack := .node rest [] none :: st.stack }
    else if c == 'p' then
      match parseNat? rest with
      | some n => attach st (.pos n)
      | none => { st with bad := true }
    else if c == 'n' then
      match parseNat? rest with
      | some n => attach st (.num n)
      | none => { st with bad := true }
    else if c == 's' then attach st (.str rest)
    else if c == 'o' then attach st (.opaque rest)
    else { st with bad := true }

def parseTree (s : String) : Option Tree :=
  let st := (s.splitOn " ").foldl stepTok {}
  if st.bad || !st.stack.isEmpty then none else st.result

/-! ### printing -/

def isZeroTree : Tree → Bool
  | .nil => true
  | .pos 0 => true
  | .num 0 => true
  | .str s => s.isEmpty
  | _ => false

def insertSorted (x : String × List String) : List (String × List String) → List (String × List String)
  | [] => [x]
  | y :: r => if x.1 < y.1 then x :: y :: r else y :: insertSorted x r

def sortFields (l : List (String × List String)) : List (String × List String) :=
  l.foldr insertSorted []

mutual
/-- token list of a tree (reversed accumulation is avoided: trees are small). -/
def showTree : Tree → List String
  | .nil => ["_"]
  | .pos p => ["p" ++ toString p]
  | .num n => ["n" ++ toString n]
  | .str s => ["s" ++ s]
  | .opaque t => ["o" ++ t]
  | .node k fs =>
    ("(" ++ k) :: ((sortFields (showFields fs)).flatMap (fun p => (p.1 ++ "=") :: p.2)) ++ [")"]
  | .list xs => "[" :: showElems xs ++ ["]"]
def showFields : Forest → List (String × List String)
  | .nil => []
  | .cons n t r => if isZeroTree t then showFields r else (n, showTree t) :: showFields r
def showElems : Forest → List String
  | .nil => []
  | .cons _ t r => showTree t ++ showElems r
end

def renderTree (t : Tree) : String := " ".intercalate (showTree t)

def renderOutcome : Outcome Tree → String
  | .ok t => renderTree t
  | .panic m => "PANIC " ++ m
  | .illTyped => "ILLTYPED"

open GopModel.Generated.Conv in
def handleConv (fields : List String) : String :=
  match parseTree (fields.headD "") with
  | none => "bad-input"
  | some t =>
    let s := supported t
    let a := conv fromgoProg "ASTFile" .nil t
    let (b, h) :=
      match a with
      | .ok m =>
        let r := conv togoProg "ASTFile" .nil m
        let h := match r with
          | .ok r' => if s then (if hdr r' == hdr t then "HEQ" else "HNE") else "H-"
          | _ => "H-"
        (renderOutcome r, h)
      | _ => ("-", "H-")
    (if s then "S1" else "S0") ++ "\t" ++ renderOutcome a ++ "\t" ++ b ++ "\t" ++ h

/-- `togo <tree>`: the togo converter alone on an XGo file tree (any XGo node kinds). -/
def handleTogo (fields : List String) : String :=
  match parseTree (fields.headD "") with
  | none => "bad-input"
  | some t => renderOutcome (conv GopModel.Generated.Conv.togoProg "ASTFile" .nil t)

end GopModel.Driver
