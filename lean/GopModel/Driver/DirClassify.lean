import GopModel.Model.DirClassify
import GopModel.Driver.Util
namespace GopModel.Driver
open GopModel.DirClassify

/-! Line protocol for C34.
`c34dir <cfg> <ck> <entries>` / `c34ent <cfg> <ck> <entries>`
* cfg: letters `g` (ParseGoAsGoPlus), `c` (ParseGoPlusClass), `f` (filter present), or `-`
* ck: `nil` (defaultClassKind) or `-`/comma list of `hexname:<isProj><ok>` — the class-kind
  function as a finite table, `(false,false)` elsewhere
* entries: `-`/comma list of `hexname:<isDir>:<filterOk>:<kind 0-4>:hexpkg`; `ENOENT` = ReadDir fails
* any further field (raw mode, file-system implementation used by the harness) is ignored
-/

def bit? (s : String) : Option Bool :=
  if s = "1" then some true else if s = "0" then some false else none

def parseCk (s : String) : Option (Option ClassKindFn) :=
  if s = "nil" then some none
  else if s = "-" then some (some fun _ => (false, false))
  else do
    let tbl ← mapM? (fun (it : String) =>
      match it.splitOn ":" with
      | [h, pq] => do
        let n ← bytesOfHex h
        match pq.toList with
        | [p, q] => do
          let p ← bit? (String.singleton p)
          let q ← bit? (String.singleton q)
          pure (n, (p, q))
        | _ => none
      | _ => none) (splitList s ",")
    pure (some fun n => (tbl.lookup n).getD (false, false))

def ckindOf (s : String) : Option CKind :=
  match s with
  | "0" => some .plain | "1" => some .nonClassOnly | "2" => some .classOnly
  | "3" => some .broken | "4" => some .noPkgDecl | _ => none

def parseEntries? (s : String) : Option (List Entry) :=
  if s = "-" then some []
  else mapM? (fun (it : String) =>
    match it.splitOn ":" with
    | [h, d, f, k, p] => do
      let n ← bytesOfHex h
      let d ← bit? d
      let f ← bit? f
      let k ← ckindOf k
      let p ← bytesOfHex p
      pure (⟨n, d, f, ⟨p, k⟩⟩ : Entry)
    | _ => none) (splitList s ",")

def parseCfg (cfg ck : String) : Option Config := do
  let ckf ← parseCk ck
  pure ⟨cfg.contains 'g', cfg.contains 'c', cfg.contains 'f', ckf⟩

def b01 (b : Bool) : String := if b then "1" else "0"

def showSlot (p : Key × Flags) : String :=
  hexField p.1.pkg ++ ":" ++ hexField p.1.file ++ ":" ++
    (if p.1.isGo then "G" else "X" ++ b01 p.2.isProj ++ b01 p.2.isClass ++ b01 p.2.isNormalGox)

def showSlots (l : List (Key × Flags)) : String :=
  let ss := (l.map showSlot).mergeSort (fun a b => decide (a ≤ b))
  if ss.isEmpty then "-" else ",".intercalate ss

def handleC34Dir (fields : List String) : String :=
  match fields with
  | cfg :: ck :: ents :: _ =>
    match parseCfg cfg ck with
    | none => "bad-input"
    | some c =>
      if ents = "ENOENT" then "READDIR-ERR"
      else match parseEntries? ents with
        | none => "bad-input"
        | some l =>
          let r := parseDir c l
          "ok e" ++ b01 r.err ++ " " ++ showSlots r.slots
  | _ => "bad-input"

def handleC34Ent (fields : List String) : String :=
  match fields with
  | cfg :: ck :: ents :: _ =>
    match parseCfg cfg ck, parseEntries? ents with
    | some c, some l =>
      match parseEntries c l with
      | .unknownKind => "ERR unknown-file-kind"
      | .parseError => "ERR parse"
      | .ok s => "ok " ++ showSlots s
    | _, _ => "bad-input"
  | _ => "bad-input"

end GopModel.Driver
