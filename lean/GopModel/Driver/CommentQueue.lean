import GopModel.Model.CommentQueue
import GopModel.Driver.Util
/-
Line-protocol handler for the comment-queue model (C21):
  queue \t <size> \t <groups> \t <ops>         (see harness/cmd/c21/queue.go)
-/
namespace GopModel.Driver
open GopModel.CommentQueue

/-- payload of a comment in the driver: (id, len(Text)). -/
abbrev QC := Nat × Nat

def b01 (b : Bool) : String := if b then "1" else "0"

def parseBool (s : String) : Option Bool :=
  if s = "1" then some true else if s = "0" then some false else none

/-- `<offset>:<nl>:<len>+<len>…` with ids assigned from `firstId`. -/
def parseGroup (firstId : Nat) (s : String) : Option (Group QC × Nat) :=
  match s.splitOn ":" with
  | [o, nl, ls] => do
    let off ← o.toNat?
    let b ← parseBool nl
    let lens ← if ls = "-" then some [] else mapM? String.toNat? (ls.splitOn "+")
    let cs := (List.range lens.length).zip lens |>.map fun (i, l) => (firstId + i, l)
    pure (⟨off, b, cs⟩, firstId + lens.length)
  | _ => none

def parseGroups : Nat → List String → Option (List (Group QC))
  | _, [] => some []
  | k, s :: t => do
    let (g, k') ← parseGroup k s
    let r ← parseGroups k' t
    pure (g :: r)

def parseOp (s : String) : Option (Char × Nat × Bool) :=
  match s.toList with
  | [] => none
  | c :: rest =>
    match (String.ofList rest).splitOn ":" with
    | [n, b] => do
      let n ← n.toNat?
      let b ← parseBool b
      pure (c, n, b)
    | _ => none

def showSt (s : St QC) : String :=
  s!"{s.cindex},{s.commentOffset},{b01 s.commentNewline}"

/-- Runs the operations one by one, producing one item per op. `none` = the model stopped
(nil dereference / out of fuel): the item says which. -/
def runQueue (cs : List (Group QC)) : List (Char × Nat × Bool) → St QC → List String → (List String × Option (St QC))
  | [], s, acc => (acc.reverse, some s)
  | (k, n, b) :: ops, s, acc =>
    if k = 'p' then
      match flush cs n b s with
      | .ok s' => runQueue cs ops s' (s!"P{showSt s'},{s'.emitted.length}" :: acc)
      | .nilDeref => (("NIL" :: acc).reverse, none)
      | .outOfFuel => (("FUEL" :: acc).reverse, none)
    else if k = 's' then
      match commentSizeBefore cs (fun c => c.2) n b s with
      | (.size z, s') => runQueue cs ops s' (s!"S{z},{showSt s'},{s'.emitted.length}" :: acc)
      | (.nilDeref, _) => (("NIL" :: acc).reverse, none)
      | (.outOfFuel, _) => (("FUEL" :: acc).reverse, none)
    else if k = 'b' then
      runQueue cs ops s (("B" ++ b01 (commentBefore s n b)) :: acc)
    else (("BADOP" :: acc).reverse, none)

def handleQueue (fields : List String) : String :=
  match fields with
  | [_size, gs, os] =>
    let gl := if gs = "-" then [] else gs.splitOn ";"
    let ol := if os = "-" then [] else os.splitOn ";"
    match parseGroups 0 gl, mapM? parseOp ol with
    | some cs, some ops =>
      match runQueue cs ops (start cs) [] with
      | (items, none) => " ".intercalate items
      | (items, some s) =>
        match finish cs s with
        | .ok s' =>
          " ".intercalate (items ++ [s!"F{showSt s'}",
            "E" ++ ".".intercalate (s'.emitted.map fun c => toString c.1)])
        | .nilDeref => " ".intercalate (items ++ ["NIL"])
        | .outOfFuel => " ".intercalate (items ++ ["FUEL"])
    | _, _ => "bad-input"
  | _ => "bad-input"

end GopModel.Driver
