/- Line-protocol handlers for M1 (the scanner model).
   scan <dialect xgo|tpl|go> <mode: bit0 comments, bit1 noSemis> <hex src> <letters> <digits>
     letters/digits: comma-separated decimal runes ≥ 0x80 with unicode.IsLetter / IsDigit ("-" = none)
   → `<pos>:<kind>:<hexlit>,… | <off>:<msg>,… | done|panic|outOfFuel`
   scanx … same, tokens printed as `<pos>-<stop>:<kind>:<hexlit>` (debugging, spans) -/
import GopModel.Model.Scan
import GopModel.Model.ScanTokens
import GopModel.Model.ScanDomain
import GopModel.Driver.Util
namespace GopModel.Driver
open GopModel.Scan

def showLitName : LitName → String
  | .dec => "dec" | .hex => "hex" | .oct => "oct" | .bin => "bin"

def showMsg : Msg → String
  | .nul => "nul"
  | .badUtf8 => "utf8"
  | .bom => "bom"
  | .commentNotTerminated => "cmtnt"
  | .invalidLineNumber t => "line:" ++ hexField t
  | .invalidColumnNumber t => "col:" ++ hexField t
  | .radixPoint l => "radix:" ++ showLitName l
  | .noDigits l => "nodig:" ++ showLitName l
  | .expDecimal c => "expdec:" ++ toString c
  | .expHex c => "exphex:" ++ toString c
  | .expNoDigits => "expnodig"
  | .hexMantissaP => "hexp"
  | .invalidDigit d l => "baddig:" ++ toString d ++ ":" ++ showLitName l
  | .sepMustSeparate => "sep"
  | .escUnknown => "escunk"
  | .escNotTerminated => "escnt"
  | .escIllegalChar c => "escch:" ++ toString c
  | .escInvalidCodePoint => "esccp"
  | .runeNotTerminated => "runent"
  | .illegalRune => "runeill"
  | .stringNotTerminated => "strnt"
  | .rawStringNotTerminated => "rawnt"
  | .illegalChar c => "illch:" ++ toString c
  | .curlyQuote c => "curly:" ++ toString c

def parseNats (s : String) : Option (List Nat) :=
  if s = "-" then some [] else mapM? String.toNat? (splitList s ",")

def parseDialect : String → Option Dialect
  | "xgo" => some .xgo
  | "tpl" => some .tpl
  | "go" => some .go
  | _ => none

def showStatus : Status → String
  | .done => "done" | .panic => "panic" | .outOfFuel => "outOfFuel"

def scanHandler (withStop : Bool) (fields : List String) : String :=
  match fields with
  | [d, m, h, ls, ds] =>
    match parseDialect d, m.toNat?, bytesOfHex h, parseNats ls, parseNats ds with
    | some d, some m, some bs, some ls, some ds =>
      let cfg : Cfg := { d := d, comments := m % 2 = 1, noSemis := m / 2 % 2 = 1,
                         U := { isLetter := fun r => ls.contains r, isDigit := fun r => ds.contains r } }
      let out := scan cfg bs.toArray
      let showTok (t : Token) : String :=
        (if withStop then toString t.pos ++ "-" ++ toString t.stop else toString t.pos) ++ ":" ++
          toString t.kind ++ ":" ++ hexField t.lit
      ",".intercalate (out.toks.map showTok) ++ " | " ++
        ",".intercalate (out.errs.map fun e => toString e.off ++ ":" ++ showMsg e.msg) ++ " | " ++
        showStatus out.status
    | _, _, _, _, _ => "bad-input"
  | _ => "bad-input"

def handleScan : List String → String := scanHandler false
def handleScanX : List String → String := scanHandler true

/-- `tokinfo <xgo|tpl> <code>` → `str=<hex> isop=<0|1> iskw=<0|1> islit=<0|1> prec=<n>` (xgo) /
`str=<hex> len=<n>` (tpl) -/
def handleTokInfo (fields : List String) : String :=
  let b (x : Bool) : String := if x then "1" else "0"
  match fields with
  | [d, c] =>
    match c.toNat? with
    | none => "bad-input"
    | some n =>
      if d = "xgo" then
        let T := GopModel.Generated.Tokens.XGo.tokens
        "str=" ++ hexField (TokFns.tokenString GopModel.Generated.Tokens.XGo.stringGuard T n).toUTF8.toList ++
        " isop=" ++ b (GopModel.Generated.Tokens.XGo.isOperator n) ++
        " iskw=" ++ b (GopModel.Generated.Tokens.XGo.isKeyword n) ++
        " islit=" ++ b (GopModel.Generated.Tokens.XGo.isLiteral n) ++
        " prec=" ++ toString (TokFns.precedence GopModel.Generated.Tokens.XGo.precCases GopModel.Generated.Tokens.XGo.precDefault n)
      else if d = "tpl" then
        "str=" ++ hexField (TokFns.tokenString GopModel.Generated.Tokens.Tpl.stringGuard GopModel.Generated.Tokens.Tpl.tokens n).toUTF8.toList ++
        " len=" ++ toString (TokFns.tplLen n)
      else "bad-input"
  | _ => "bad-input"

/-- `golex <mode> <hex src> <letters> <digits>` → `in|out agree|differ` : C16 domain decision and whether the
xgo and go models agree (tokens incl. inserted semicolons, errors) in the given mode.
`shlex …` likewise for C32 (tpl vs xgo; tokens only). -/
def domainHandler (is16 : Bool) (fields : List String) : String :=
  match fields with
  | [m, h, ls, ds] =>
    match m.toNat?, bytesOfHex h, parseNats ls, parseNats ds with
    | some m, some bs, some ls, some ds =>
      let U : UCls := { isLetter := fun r => ls.contains r, isDigit := fun r => ds.contains r }
      let src := bs.toArray
      let mk (d : Dialect) : Cfg := { d := d, comments := m % 2 = 1, noSemis := m / 2 % 2 = 1, U := U }
      if is16 then
        (if goLexemesOnly U (m % 2 = 1) (m / 2 % 2 = 1) src then "in " else "out ") ++
          (if agree16 (scan (mk .xgo) src) (scan (mk .go) src) then "agree" else "differ")
      else
        (if sharedLexemesOnly U (m % 2 = 1) (m / 2 % 2 = 1) src then "in " else "out ") ++
          (if agree32 (scan (mk .tpl) src) (scan (mk .xgo) src) then "agree" else "differ")
    | _, _, _, _ => "bad-input"
  | _ => "bad-input"

def handleGoLex : List String → String := domainHandler true
def handleShLex : List String → String := domainHandler false

end GopModel.Driver
