import GopModel.Model.Scope
import GopModel.Driver.Util
/-! `scope <pkg> <toks>`: `pkg` = `name@pos,…` (package block: package-level declarations and imports),
`toks` = space-separated events `d<name>@<pos>`, `u<name>@<pos>`, `(`, `)`.
Answer: for every use in source order `pos>declpos` or `pos>U` (universe), comma-separated. -/
namespace GopModel.Driver
open GopModel.Scope

def parseBinding? (s : String) : Option (String × Nat) :=
  match s.splitOn "@" with
  | [n, p] => p.toNat?.map (fun q => (n, q))
  | _ => none

def parseTok? (s : String) : Option Tok :=
  if s = "(" then some .open
  else if s = ")" then some .close
  else if s.startsWith "d" then (parseBinding? (s.drop 1).toString).map (fun (n, p) => .decl n p)
  else if s.startsWith "u" then (parseBinding? (s.drop 1).toString).map (fun (n, p) => .use n p)
  else none

def handleScope (fields : List String) : String :=
  match fields with
  | [pkg, toks] =>
    match mapM? parseBinding? (splitList pkg ","), mapM? parseTok? (splitList toks " ") with
    | some pk, some ts =>
      match resolve pk ts with
      | .unbalanced => "UNBALANCED"
      | .ok r _ => ",".intercalate (r.uses.reverse.map (fun (u, d) =>
          toString u ++ ">" ++ (match d with | some q => toString q | none => "U")))
    | _, _ => "bad-input"
  | _ => "bad-input"

end GopModel.Driver
