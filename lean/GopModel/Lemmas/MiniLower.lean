/-
Lemmas for M4: THE correctness theorem of `lowerX` —
  for every source expression `e`:  evalE c (lowerX fn e) = evalE c e   (as functions of the
  environment and the trace), by structural induction over the expression syntax.
Core Lean only.
-/
import GopModel.Lemmas.MiniErr
namespace GopModel.Mini

theorem src_key {key : Option String}
    (h : (match key with | some k => !isTmp k | none => true) = true) :
    ∀ x, key = some x → isTmp x = false := by
  intro x hx; subst hx; simpa using h

theorem evalFilter_initCond_name (c : Ctx) (f : Filter) (hf : f.src = true) :
    ∀ x i cc, evalFilter c f = .initCond x i cc → isTmp x = false := by
  intro x i cc h
  cases f with
  | none => simp [evalFilter] at h
  | cond e => simp [evalFilter] at h
  | initCond y ie ce =>
    simp only [evalFilter, Doc.FilterSem.initCond.injEq] at h
    simp only [Filter.src, Bool.and_eq_true] at hf
    rw [← h.1]; simpa using hf.1.1

theorem readResults_single (R : String) (t : Ty) (v : Val) :
    readResults [(R, t)] (Frame.set (zeroFrame [(R, t)]) R v) = some [v] := by
  simp [readResults, zeroFrame, Frame.set, Frame.get, List.lookup]

mutual
theorem lowerX_eq (c : Ctx) (hc : CalleeOK c.callee) : ∀ (e : Expr), e.src = true →
    evalE c (lowerX c.fname e) = evalE c e
  | .lit v, _ => by simp only [lowerX]
  | .zero t, _ => by simp only [lowerX]
  | .var x, _ => by simp only [lowerX]
  | .bin op a b, h => by
    simp only [Expr.src, Bool.and_eq_true] at h
    simp only [lowerX, evalE, lowerX_eq c hc a h.1, lowerX_eq c hc b h.2]
  | .not a, h => by
    simp only [Expr.src] at h
    simp only [lowerX, evalE, lowerX_eq c hc a h]
  | .listLit t es, h => by
    simp only [Expr.src] at h
    simp only [lowerX, evalE, lowerXs_eq c hc es h]
  | .sliceLit t es, h => by
    simp only [Expr.src] at h
    simp only [lowerX, evalE, lowerXs_eq c hc es h]
  | .mapLit k v kvs, h => by
    simp only [Expr.src] at h
    simp only [lowerX, evalE, lowerKVs_eq c hc kvs h]
  | .xmapLit k v kvs, h => by
    simp only [Expr.src] at h
    simp only [lowerX, evalE, lowerKVs_eq c hc kvs h]
  | .index vt a i, h => by
    simp only [Expr.src, Bool.and_eq_true] at h
    simp only [lowerX, evalE, lowerX_eq c hc a h.1, lowerX_eq c hc i h.2]
  | .len a, h => by
    simp only [Expr.src] at h
    simp only [lowerX, evalE, lowerX_eq c hc a h]
  | .append a vs sp, h => by
    simp only [Expr.src, Bool.and_eq_true] at h
    simp only [lowerX, evalE, lowerX_eq c hc a h.1, lowerXs_eq c hc vs h.2]
  | .call f args, h => by
    simp only [Expr.src] at h
    simp only [lowerX, evalE, lowerXs_eq c hc args h]
  | .cmdCall f args, h => by
    simp only [Expr.src] at h
    simp only [lowerX, evalE, lowerXs_eq c hc args h]
  | .probe id e, h => by
    simp only [Expr.src] at h
    simp only [lowerX, evalE, lowerX_eq c hc e h]
  | .closure _ _, h => by simp [Expr.src] at h
  | .newFrame e code fn, h => by
    simp only [Expr.src] at h
    simp only [lowerX, evalE, lowerX_eq c hc e h]
  | .neNil e, h => by
    simp only [Expr.src] at h
    simp only [lowerX, evalE, lowerX_eq c hc e h]
  | .listCompr t elt fors, h => by
    simp only [Expr.src, Bool.and_eq_true] at h
    have hge := good_evalE c elt h.1
    have hgp := good_evalPhrases c fors h.2
    have hbody : ∀ acc : List Val, Good (fun env tr => (evalE c elt env tr).bind
        fun v env1 tr1 => Res.ok (Sum.inl (β := Empty) (acc ++ [v])) env1 tr1) :=
      fun acc => good_bind hge (fun v => good_ok _)
    have hsim := nest_sim c hc fors h.2 "_gop_ret" isTmp_gop_ret Val.list
      (fun (e : Empty) => nomatch e) _ _ hbody
      (fun acc => sim_inner_list c (lowerX_eq c hc elt h.1) hge acc) []
    have hspec := good_loops hbody _ (goodPhrases_reverse hgp) []
    funext env tr
    simp only [lowerX, evalE, closureSem_eq, evalSs_append, evalSs_ret_nil]
    rw [closure_of_sim (R := "_gop_ret") [("_gop_ret", .list t)] _ ([] : List Val)
      (tmp_frame_invisible _ (by simp [zeroFrame, isTmp_gop_ret])) (by rfl) hspec hsim
      (fun e => nomatch e) env tr]
    unfold Doc.listCompr
    cases hr : Doc.loops (evalPhrases c fors).reverse _ [] env tr with
    | ok a e' tr' =>
      have := hspec.ok_env hr; subst this
      cases a with
      | inl acc => simp [readResults_single, pack]
      | inr b => exact nomatch b
    | panic v t => rfl
    | ret vs e' t => exact absurd hr (hspec.noret _ _ _ _ _)
    | timeout t => rfl
    | stuck => rfl
  | .mapCompr kt vt k v fors, h => by
    simp only [Expr.src, Bool.and_eq_true] at h
    have hgk := good_evalE c k h.1.1
    have hgv := good_evalE c v h.1.2
    have hgp := good_evalPhrases c fors h.2
    have hbody : ∀ acc : List (Val × Val), Good (fun env tr => (evalE c k env tr).bind
        fun kv env1 tr1 => (evalE c v env1 tr1).bind fun vv env2 tr2 =>
          match mapInsert acc kv vv with
          | some acc' => Res.ok (Sum.inl (β := Empty) acc') env2 tr2
          | none => Res.stuck) := by
      intro acc
      refine good_bind hgk (fun kv => good_bind hgv (fun vv => ?_))
      cases mapInsert acc kv vv <;> first | exact good_ok _ | exact good_stuck
    have hsim := nest_sim c hc fors h.2 "_gop_ret" isTmp_gop_ret Val.map
      (fun (e : Empty) => nomatch e) _ _ hbody
      (fun acc => sim_inner_map c (lowerX_eq c hc k h.1.1) (lowerX_eq c hc v h.1.2) hgk hgv acc) []
    have hspec := good_loops hbody _ (goodPhrases_reverse hgp) []
    funext env tr
    simp only [lowerX, evalE, closureSem_eq]
    have hinit : evalS c (.assign ["_gop_ret"] [.mapLit kt vt []]) (zeroFrame [("_gop_ret", Ty.map kt vt)] :: env) tr
        = .ok () ([("_gop_ret", Val.map [])] :: env) tr := by
      simp [evalS, evalEs, evalE, evalKVs, mapOfPairs, mkMap, spreadVals, setAll, Env.set, zeroFrame,
        Frame.has, Frame.get, Frame.set, List.lookup, Ty.zero]
    rw [show evalSs c (Stmt.assign ["_gop_ret"] [Expr.mapLit kt vt []] ::
          (nestFors c.fname [Stmt.setIndex "_gop_ret" (lowerX c.fname k) (lowerX c.fname v)] fors ++ [Stmt.ret []]))
        = fun e t => (evalS c (.assign ["_gop_ret"] [.mapLit kt vt []]) e t).bind fun _ =>
            evalSs c (nestFors c.fname [Stmt.setIndex "_gop_ret" (lowerX c.fname k) (lowerX c.fname v)] fors ++ [Stmt.ret []])
        from by funext e t; simp only [evalSs]]
    rw [closureFrom_step _ _ _ _ _ env tr hinit]
    simp only [evalSs_append, evalSs_ret_nil]
    rw [closure_of_sim (R := "_gop_ret") [("_gop_ret", .map kt vt)] _ ([] : List (Val × Val))
      (tmp_frame_invisible _ (by simp [isTmp_gop_ret])) (by rfl) hspec hsim
      (fun e => nomatch e) env tr]
    unfold Doc.mapCompr
    cases hr : Doc.loops (evalPhrases c fors).reverse _ [] env tr with
    | ok a e' tr' =>
      have := hspec.ok_env hr; subst this
      cases a with
      | inl acc => simp [readResults, Frame.set, Frame.get, List.lookup, pack]
      | inr b => exact nomatch b
    | panic w t => rfl
    | ret vs e' t => exact absurd hr (hspec.noret _ _ _ _ _)
    | timeout t => rfl
    | stuck => rfl
  | .selCompr t elt fors two, h => by
    simp only [Expr.src, Bool.and_eq_true] at h
    have hge := good_evalE c elt h.1
    have hgp := good_evalPhrases c fors h.2
    have hbody : ∀ _u : Unit, Good (fun env tr => (evalE c elt env tr).bind
        fun v env1 tr1 => Res.ok (Sum.inr (α := Unit) v) env1 tr1) :=
      fun _ => good_bind hge (fun v => good_ok _)
    have hsim := nest_sim c hc fors h.2 "_gop_ret" isTmp_gop_ret (fun (_ : Unit) => t.zero)
      (fun v => v :: (if two then [Val.bool true] else [])) _ _ hbody
      (fun _ => sim_inner_sel c "_gop_ret" t.zero (lowerX_eq c hc elt h.1) hge two) ()
    have hspec := good_loops hbody _ (goodPhrases_reverse hgp) ()
    funext env tr
    simp only [lowerX, evalE, closureSem_eq, evalSs_append, evalSs_ret_nil]
    rw [closure_of_sim (R := "_gop_ret") _ _ ()
      (tmp_frame_invisible _ (by
        cases two <;> simp [zeroFrame, isTmp_gop_ret, isTmp_gop_ok]))
      (by cases two <;> rfl) hspec hsim
      (fun v => ⟨v, _, rfl⟩) env tr]
    unfold Doc.selCompr
    cases hr : Doc.loops (evalPhrases c fors).reverse _ () env tr with
    | ok a e' tr' =>
      have := hspec.ok_env hr; subst this
      cases a with
      | inl u =>
        cases two <;>
          simp [readResults, zeroFrame, Frame.set, Frame.get, List.lookup, pack, Ty.zero]
      | inr v => cases two <;> simp [pack]
    | panic w t => rfl
    | ret vs e' t => exact absurd hr (hspec.noret _ _ _ _ _)
    | timeout t => rfl
    | stuck => rfl
  | .existsCompr fors, h => by
    simp only [Expr.src] at h
    have hgp := good_evalPhrases c fors h
    have hbody : ∀ _u : Unit, Good (fun env tr => Res.ok (Sum.inr (α := Unit) ()) env tr) :=
      fun _ => good_ok _
    have hsim := nest_sim c hc fors h "_gop_ok" isTmp_gop_ok (fun (_ : Unit) => Val.bool false)
      (fun (_ : Unit) => [Val.bool true]) _ _ hbody
      (fun _ => sim_inner_exists c "_gop_ok" (Val.bool false)) ()
    have hspec := good_loops hbody _ (goodPhrases_reverse hgp) ()
    funext env tr
    simp only [lowerX, evalE, closureSem_eq, evalSs_append, evalSs_ret_nil]
    rw [closure_of_sim (R := "_gop_ok") [("_gop_ok", .bool)] _ ()
      (tmp_frame_invisible _ (by simp [zeroFrame, isTmp_gop_ok])) (by rfl) hspec hsim
      (fun _ => ⟨_, _, rfl⟩) env tr]
    unfold Doc.existsCompr
    cases hr : Doc.loops (evalPhrases c fors).reverse _ () env tr with
    | ok a e' tr' =>
      have := hspec.ok_env hr; subst this
      cases a with
      | inl u => simp [readResults, zeroFrame, Frame.set, Frame.get, List.lookup, pack, Ty.zero]
      | inr v => simp [pack]
    | panic w t => rfl
    | ret vs e' t => exact absurd hr (hspec.noret _ _ _ _ _)
    | timeout t => rfl
    | stuck => rfl
  | .errBang code f args tys, h => by
    simp only [Expr.src, Bool.and_eq_true, decide_eq_true_eq] at h
    have ha := lowerXs_eq c hc args h.2
    have hg := good_evalEs c args h.2
    simp only [lowerX]
    match tys, h.1 with
    | [], _ => rw [errBang0 c code f _ _ ha hg]; simp only [evalE, List.length_nil]
    | [t], _ => rw [errBang1 c hc code f _ _ ha hg t]; simp only [evalE, List.length_cons, List.length_nil]
    | [t1, t2], _ =>
      rw [errBang2 c hc code f _ _ ha hg t1 t2]; simp only [evalE, List.length_cons, List.length_nil]
    | _ :: _ :: _ :: _, h3 => simp at h3
  | .errQ _ _ _ _, h => by simp [Expr.src] at h
  | .errDflt f args t d, h => by
    simp only [Expr.src, Bool.and_eq_true] at h
    simp only [lowerX]
    rw [errDflt1 c hc f _ _ (lowerXs_eq c hc args h.1) (good_evalEs c args h.1) t _ _
      (lowerX_eq c hc d h.2) (good_evalE c d h.2)]
    simp only [evalE]
theorem lowerXs_eq (c : Ctx) (hc : CalleeOK c.callee) : ∀ (es : List Expr), srcEs es = true →
    evalEs c (lowerXs c.fname es) = evalEs c es
  | [], _ => by simp only [lowerXs]
  | e :: es, h => by
    simp only [srcEs, Bool.and_eq_true] at h
    simp only [lowerXs, evalEs, lowerX_eq c hc e h.1, lowerXs_eq c hc es h.2]
theorem lowerKVs_eq (c : Ctx) (hc : CalleeOK c.callee) : ∀ (kvs : List KV), srcKVs kvs = true →
    evalKVs c (lowerKVs c.fname kvs) = evalKVs c kvs
  | [], _ => by simp only [lowerKVs]
  | .mk k v :: r, h => by
    simp only [srcKVs, Bool.and_eq_true] at h
    simp only [lowerKVs, evalKVs, lowerX_eq c hc k h.1.1, lowerX_eq c hc v h.1.2, lowerKVs_eq c hc r h.2]
theorem lowerFilter_eq (c : Ctx) (hc : CalleeOK c.callee) : ∀ (f : Filter), f.src = true →
    evalFilter c (lowerFilter c.fname f) = evalFilter c f
  | .none, _ => by simp only [lowerFilter]
  | .cond e, h => by
    simp only [Filter.src] at h
    simp only [lowerFilter, evalFilter, lowerX_eq c hc e h]
  | .initCond x i e, h => by
    simp only [Filter.src, Bool.and_eq_true] at h
    simp only [lowerFilter, evalFilter, lowerX_eq c hc i h.1.2, lowerX_eq c hc e h.2]
/-- The loops emitted for the phrases simulate the documented nested iteration. -/
theorem nest_sim (c : Ctx) (hc : CalleeOK c.callee) : ∀ (fors : List Phrase), srcPhrases fors = true →
    ∀ {σ β : Type} (R : String) (_hR : isTmp R = true) (enc : σ → Val) (retv : β → List Val)
      (inner : List Stmt) (body : σ → Sem (σ ⊕ β)),
      (∀ s, Good (body s)) → (∀ s, SimAt R enc retv s (evalSs c inner) (body s)) →
      ∀ s, SimAt R enc retv s (evalSs c (nestFors c.fname inner fors))
        (Doc.loops (evalPhrases c fors).reverse body s)
  | [], _, _, _, _, _, _, _, _, _, _, hsim => by
    intro s
    simp only [nestFors, evalPhrases, List.reverse_nil]
    rw [loops_nil]
    exact hsim s
  | .mk key val x f :: ps, h, σ, β, R, hR, enc, retv, inner, body, hgb, hsim => by
    simp only [srcPhrases, Bool.and_eq_true] at h
    obtain ⟨⟨⟨⟨hkey, hval⟩, hx⟩, hf⟩, hps⟩ := h
    have hval' : isTmp val = false := by simpa using hval
    intro s
    simp only [nestFors, evalPhrases, List.reverse_cons]
    rw [loops_append]
    have hgx := good_evalE c x hx
    have hgf := good_evalFilter c f hf
    refine nest_sim c hc ps hps R hR enc retv _ _ ?_ ?_ s
    · intro s'
      exact good_loops hgb _ (fun p hp => by
        rcases List.mem_singleton.1 hp with rfl
        exact ⟨hgx, hgf⟩) s'
    · intro s'
      rw [evalSs_single]
      simp only [evalS, lowerX_eq c hc x hx, evalSs_filterWrap, lowerFilter_eq c hc f hf]
      exact sim_phrase hR key val (src_key hkey) hval' hgx hgf
        (evalFilter_initCond_name c f hf) hgb hsim s'
end

end GopModel.Mini
