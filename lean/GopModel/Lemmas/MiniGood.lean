/-
Lemmas for M4 (2/3): SOURCE expressions (what the parser can produce: no closure nodes, no
compiler-temporary names, no `?`) only READ the environment, agree on environments that agree on
non-temporary names, and never produce a `return` (`Good`).  Core Lean only.
-/
import GopModel.Lemmas.MiniBase
namespace GopModel.Mini

/-- `m` does not change the environment and depends on it only through non-temporary names. -/
def Resp (m : Sem α) : Prop := ∀ e1 e2 tr, Agree e1 e2 → m e1 tr = (m e2 tr).withEnv e1

def NoRet (m : Sem α) : Prop := ∀ e tr vs e' tr', m e tr ≠ .ret vs e' tr'

structure Good (m : Sem α) : Prop where
  resp : Resp m
  noret : NoRet m

theorem Good.env_eq {m : Sem α} (h : Good m) (e : Env) (tr : Trace) :
    m e tr = (m e tr).withEnv e := h.resp e e tr (Agree.refl e)

/-- A `Good` computation returns the environment it was given. -/
theorem Good.ok_env {m : Sem α} (h : Good m) {e e' : Env} {tr tr' : Trace} {a : α}
    (hm : m e tr = .ok a e' tr') : e' = e := by
  have := h.env_eq e tr
  rw [hm] at this
  simp at this
  exact this

theorem good_bind {m : Sem α} {k : α → Sem β} (hm : Good m) (hk : ∀ a, Good (k a)) :
    Good (fun env tr => (m env tr).bind k) := by
  constructor
  · intro e1 e2 tr h
    have h1 := hm.resp e1 e2 tr h
    have h2 := hm.env_eq e2 tr
    show (m e1 tr).bind k = ((m e2 tr).bind k).withEnv e1
    rw [h1]
    cases hr : m e2 tr with
    | ok a e' tr' =>
      rw [hr] at h2; simp at h2; subst h2
      simp only [Res.withEnv_ok, Res.bind_ok]
      exact (hk a).resp e1 e' tr' h
    | panic v tr' => rfl
    | ret vs e' tr' => exact absurd hr (hm.noret _ _ _ _ _)
    | timeout tr' => rfl
    | stuck => rfl
  · intro e tr vs e' tr' hc
    change (m e tr).bind k = _ at hc
    cases hr : m e tr with
    | ok a e'' tr'' => rw [hr] at hc; exact (hk a).noret _ _ _ _ _ hc
    | panic v t => rw [hr] at hc; cases hc
    | ret vs2 e2 t => exact hm.noret _ _ _ _ _ hr
    | timeout t => rw [hr] at hc; cases hc
    | stuck => rw [hr] at hc; cases hc

/-- Leaves: results that carry the given environment along unchanged. -/
theorem good_of_tr (g : Trace → Res α) (hg : ∀ tr vs e t, g tr ≠ .ret vs e t) :
    Good (fun env tr => (g tr).withEnv env) := by
  constructor
  · intro e1 e2 tr _
    show (g tr).withEnv e1 = ((g tr).withEnv e2).withEnv e1
    rw [Res.withEnv_withEnv]
  · intro e tr vs e' tr' hc
    change (g tr).withEnv e = _ at hc
    cases h : g tr with
    | ok a e2 t => rw [h] at hc; cases hc
    | panic v t => rw [h] at hc; cases hc
    | ret vs2 e2 t => exact hg _ _ _ _ h
    | timeout t => rw [h] at hc; cases hc
    | stuck => rw [h] at hc; cases hc

theorem good_ok (a : α) : Good (fun env tr => Res.ok a env tr) := by
  constructor
  · intro e1 e2 tr _; rfl
  · intro e tr vs e' tr' hc; cases hc

theorem good_okf (a : α) (f : Trace → Trace) : Good (fun env tr => Res.ok a env (f tr)) := by
  constructor
  · intro e1 e2 tr _; rfl
  · intro e tr vs e' tr' hc; cases hc

theorem good_stuck : Good (fun _ _ => (Res.stuck : Res α)) := by
  constructor
  · intro e1 e2 tr _; rfl
  · intro e tr vs e' tr' hc; cases hc

theorem good_panicf (v : Val) : Good (fun _ tr => (Res.panic v tr : Res α)) := by
  constructor
  · intro e1 e2 tr _; rfl
  · intro e tr vs e' tr' hc; cases hc

theorem good_prim (p : Prim) : Good p.toRes := by
  cases p with
  | val v => exact good_ok v
  | panic v => exact good_panicf v
  | stuck => exact good_stuck

theorem good_var (x : String) (hx : isTmp x = false) :
    Good (fun env tr => match env.get x with
      | some v => Res.ok v env tr
      | none => Res.stuck) := by
  constructor
  · intro e1 e2 tr h
    show (match e1.get x with | some v => Res.ok v e1 tr | none => Res.stuck)
      = (match e2.get x with | some v => Res.ok v e2 tr | none => Res.stuck).withEnv e1
    rw [h x hx]
    cases e2.get x <;> rfl
  · intro e tr vs e' tr' hc
    change (match e.get x with | some v => Res.ok v e tr | none => Res.stuck) = _ at hc
    cases h : e.get x <;> rw [h] at hc <;> cases hc

theorem good_inFrame (f : Frame) {m : Sem α} (hm : Good m) : Good (inFrame f m) := by
  constructor
  · intro e1 e2 tr h
    show (m (f :: e1) tr).pop = ((m (f :: e2) tr).pop).withEnv e1
    rw [hm.resp (f :: e1) (f :: e2) tr (h.push f), Res.pop_withEnv_cons, Res.withEnv_pop]
  · intro e tr vs e' tr' hc
    change (m (f :: e) tr).pop = _ at hc
    cases h : m (f :: e) tr with
    | ok a e2 t => rw [h] at hc; cases hc
    | panic v t => rw [h] at hc; cases hc
    | ret vs2 e2 t => exact hm.noret _ _ _ _ _ h
    | timeout t => rw [h] at hc; cases hc
    | stuck => rw [h] at hc; cases hc

theorem good_evalBin (op : BinOp) (va : Val) {mb : Sem Val} (hb : Good mb) : Good (evalBin op va mb) := by
  have hboolk : ∀ vb : Val, Good (fun env1 tr1 => match vb with
      | .bool _ => Res.ok vb env1 tr1
      | _ => Res.stuck) := by
    intro vb
    cases vb <;> first | exact good_ok _ | exact good_stuck
  have hstrict : Good (fun env tr => (mb env tr).bind fun vb env1 tr1 => (binop op va vb).toRes env1 tr1) :=
    good_bind hb (fun vb => good_prim _)
  have hshort : Good (fun env tr => (mb env tr).bind fun vb env1 tr1 => match vb with
      | .bool _ => Res.ok vb env1 tr1
      | _ => Res.stuck) := good_bind hb hboolk
  unfold evalBin
  cases op <;> first
    | exact hstrict
    | (cases va <;> first
        | exact good_stuck
        | (rename_i b; cases b <;> first | exact good_ok _ | exact hshort))

/-! ### documented sugar preserves `Good` -/

inductive GoodFilter : Doc.FilterSem → Prop where
  | none : GoodFilter .none
  | cond {c : Sem Val} : Good c → GoodFilter (.cond c)
  | initCond (x : String) {i c : Sem Val} : Good i → Good c → GoodFilter (.initCond x i c)

structure GoodPhrase (p : Doc.PhraseSem) : Prop where
  x : Good p.x
  filt : GoodFilter p.filt

theorem declare_cons_nil (e : Env) (x : String) (v : Val) :
    Env.declare ([] :: e) x v = some ([(x, v)] :: e) := rfl

theorem good_filter {f : Doc.FilterSem} (hf : GoodFilter f) (s : σ) {inner : Sem (σ ⊕ β)}
    (hi : Good inner) : Good (Doc.filter f s inner) := by
  cases hf with
  | none => exact hi
  | cond hc =>
    unfold Doc.filter
    refine good_bind hc (fun v => ?_)
    cases v <;> first
      | exact good_stuck
      | (rename_i b; cases b <;> first | exact hi | exact good_ok _)
  | initCond x hgi hgc =>
    rename_i i c
    -- inside the new scope `x` is declared in the (empty) innermost frame
    have key : ∀ (e : Env) (tr : Trace),
        Doc.filter (.initCond x i c) s inner e tr =
          ((i e tr).bind fun iv e1 tr1 =>
            inFrame [(x, iv)] (fun env tr => (c env tr).bind fun v env3 tr3 =>
              match v with
              | .bool true => inner env3 tr3
              | .bool false => .ok (.inl s) env3 tr3
              | _ => .stuck) e1 tr1) := by
      intro e tr
      show ((i ([] :: e) tr).bind _).pop = _
      rw [hgi.resp ([] :: e) e tr (Agree.push_nil (Agree.refl e))]
      cases hr : i e tr with
      | ok a e' tr' =>
        have := hgi.ok_env hr; subst this
        simp only [Res.withEnv_ok, Res.bind_ok, declare_cons_nil, inFrame]
        rfl
      | panic v t => rfl
      | ret vs e' t => exact absurd hr (hgi.noret _ _ _ _ _)
      | timeout t => rfl
      | stuck => rfl
    have hbody : ∀ iv, Good (inFrame [(x, iv)] (fun env tr => (c env tr).bind fun v env3 tr3 =>
              match v with
              | .bool true => inner env3 tr3
              | .bool false => .ok (.inl s) env3 tr3
              | _ => .stuck)) := by
      intro iv
      refine good_inFrame _ (good_bind hgc (fun v => ?_))
      cases v <;> first
        | exact good_stuck
        | (rename_i b; cases b <;> first | exact hi | exact good_ok _)
    have hg := good_bind hgi hbody
    constructor
    · intro e1 e2 tr h
      rw [key e1 tr, key e2 tr]
      exact hg.resp e1 e2 tr h
    · intro e tr vs e' tr' hc
      rw [key e tr] at hc
      exact hg.noret _ _ _ _ _ hc

theorem good_iter {step : Val → Val → σ → Sem (σ ⊕ β)} (hs : ∀ k v s, Good (step k v s)) :
    ∀ (es : List (Val × Val)) (s : σ), Good (Doc.iter step es s)
  | [], s => by unfold Doc.iter; exact good_ok _
  | (k, v) :: es, s => by
    unfold Doc.iter
    refine good_bind (hs k v s) (fun r => ?_)
    cases r with
    | inl s' => exact good_iter hs es s'
    | inr b => exact good_ok _

theorem good_loops {body : σ → Sem (σ ⊕ β)} (hb : ∀ s, Good (body s)) :
    ∀ (ps : List Doc.PhraseSem), (∀ p ∈ ps, GoodPhrase p) → ∀ s, Good (Doc.loops ps body s)
  | [], _, s => by unfold Doc.loops; exact hb s
  | p :: ps, hps, s => by
    unfold Doc.loops
    have hp := hps p (List.mem_cons_self ..)
    refine good_bind hp.x (fun c => ?_)
    cases entriesOf c with
    | none => exact good_stuck
    | some es =>
      refine good_iter (fun k v s' => good_inFrame _ (good_filter hp.filt s' ?_)) es s
      exact good_loops hb ps (fun q hq => hps q (List.mem_cons_of_mem _ hq)) s'

theorem goodPhrases_reverse {ps : List Doc.PhraseSem} (h : ∀ p ∈ ps, GoodPhrase p) :
    ∀ p ∈ ps.reverse, GoodPhrase p := fun p hp => h p (List.mem_reverse.1 hp)

theorem good_listCompr {elt : Sem Val} (he : Good elt) {fors : List Doc.PhraseSem}
    (hf : ∀ p ∈ fors, GoodPhrase p) : Good (Doc.listCompr elt fors) := by
  unfold Doc.listCompr
  refine good_bind (good_loops (fun acc => good_bind he (fun v => good_ok _)) _ (goodPhrases_reverse hf) _)
    (fun r => ?_)
  cases r with
  | inl acc => exact good_ok _
  | inr e => exact nomatch e

theorem good_mapCompr {k v : Sem Val} (hk : Good k) (hv : Good v) {fors : List Doc.PhraseSem}
    (hf : ∀ p ∈ fors, GoodPhrase p) : Good (Doc.mapCompr k v fors) := by
  unfold Doc.mapCompr
  refine good_bind (good_loops (fun acc => good_bind hk (fun kv => good_bind hv (fun vv => ?_))) _
    (goodPhrases_reverse hf) _) (fun r => ?_)
  · cases mapInsert acc kv vv <;> first | exact good_ok _ | exact good_stuck
  · cases r with
    | inl acc => exact good_ok _
    | inr e => exact nomatch e

theorem good_selCompr (t : Ty) {elt : Sem Val} (he : Good elt) {fors : List Doc.PhraseSem}
    (hf : ∀ p ∈ fors, GoodPhrase p) (two : Bool) : Good (Doc.selCompr t elt fors two) := by
  unfold Doc.selCompr
  refine good_bind (good_loops (fun _ => good_bind he (fun v => good_ok _)) _ (goodPhrases_reverse hf) _)
    (fun r => ?_)
  cases r <;> exact good_ok _

theorem good_existsCompr {fors : List Doc.PhraseSem} (hf : ∀ p ∈ fors, GoodPhrase p) :
    Good (Doc.existsCompr fors) := by
  unfold Doc.existsCompr
  refine good_bind (good_loops (fun _ => good_ok _) _ (goodPhrases_reverse hf) _) (fun r => ?_)
  cases r <;> exact good_ok _

theorem good_callSem (c : Ctx) (f : String) {args : Sem (List Val)} (ha : Good args) :
    Good (callSem c f args) := by
  unfold callSem
  refine good_bind ha (fun as => ?_)
  constructor
  · intro e1 e2 tr _
    show (c.callee f as tr).toRes e1 = ((c.callee f as tr).toRes e2).withEnv e1
    cases c.callee f as tr <;> rfl
  · intro e tr vs e' tr' hc
    change (c.callee f as tr).toRes e = _ at hc
    cases h : c.callee f as tr <;> rw [h] at hc <;> cases hc

/-- The part of a wrapped call after its arguments: run the callee, split off the error. -/
def afterArgs (callee : String → List Val → Trace → CallRes) (f : String) (as : List Val) :
    Sem (List Val × Val) := fun env1 tr1 =>
  match callee f as tr1 with
  | .vals vs tr2 => (match splitErr vs with
    | some r => .ok r env1 tr2
    | none => .stuck)
  | .panic v tr2 => .panic v tr2
  | .timeout tr2 => .timeout tr2
  | .stuck => .stuck

theorem wrappedCall_eq (callee : String → List Val → Trace → CallRes) (f : String)
    (args : Sem (List Val)) :
    Doc.wrappedCall callee f args = fun env tr => (args env tr).bind (afterArgs callee f) := rfl

theorem good_afterArgs (callee : String → List Val → Trace → CallRes) (f : String) (as : List Val) :
    Good (afterArgs callee f as) := by
  constructor
  · intro e1 e2 tr _
    unfold afterArgs
    split
    · split <;> rfl
    · rfl
    · rfl
    · rfl
  · intro e tr vs e' tr' hc
    unfold afterArgs at hc
    split at hc
    · split at hc <;> cases hc
    · cases hc
    · cases hc
    · cases hc

theorem good_wrappedCall (callee : String → List Val → Trace → CallRes) (f : String)
    {args : Sem (List Val)} (ha : Good args) : Good (Doc.wrappedCall callee f args) := by
  rw [wrappedCall_eq]
  exact good_bind ha (good_afterArgs callee f)

theorem good_errBang (callee : String → List Val → Trace → CallRes) (code fn f : String)
    {args : Sem (List Val)} (ha : Good args) (n : Nat) : Good (Doc.errBang callee code fn f args n) := by
  unfold Doc.errBang
  refine good_bind (good_wrappedCall callee f ha) (fun r => ?_)
  split
  · exact good_stuck
  · cases isNilVal r.2 with
    | none => exact good_stuck
    | some b => cases b <;> first | exact good_ok _ | exact good_panicf _

theorem good_errDflt (callee : String → List Val → Trace → CallRes) (f : String)
    {args : Sem (List Val)} (ha : Good args) {d : Sem Val} (hd : Good d) :
    Good (Doc.errDflt callee f args d) := by
  unfold Doc.errDflt
  refine good_bind (good_wrappedCall callee f ha) (fun r => ?_)
  obtain ⟨vs, e⟩ := r
  match vs, isNilVal e with
  | [v], some true => exact good_ok _
  | [_], some false => exact hd
  | [], _ => exact good_stuck
  | _ :: _ :: _, _ => exact good_stuck
  | [_], none => exact good_stuck

/-! ### source expressions -/

mutual
/-- What the parser can produce for an expression of the fragment: no closure node, no compiler
temporary as a name (used or bound), no `?`. -/
def Expr.src : Expr → Bool
  | .lit _ | .zero _ => true
  | .var x => !isTmp x
  | .bin _ a b => a.src && b.src
  | .not a => a.src
  | .listLit _ es | .sliceLit _ es => srcEs es
  | .mapLit _ _ kvs | .xmapLit _ _ kvs => srcKVs kvs
  | .index _ a i => a.src && i.src
  | .len a => a.src
  | .append a vs _ => a.src && srcEs vs
  | .call _ args | .cmdCall _ args => srcEs args
  | .probe _ e => e.src
  | .closure _ _ => false
  | .newFrame e _ _ => e.src
  | .neNil e => e.src
  | .listCompr _ elt fors => elt.src && srcPhrases fors
  | .mapCompr _ _ k v fors => k.src && v.src && srcPhrases fors
  | .selCompr _ elt fors _ => elt.src && srcPhrases fors
  | .existsCompr fors => srcPhrases fors
  | .errBang _ _ args tys => decide (tys.length ≤ 2) && srcEs args
  | .errQ _ _ _ _ => false
  | .errDflt _ args _ d => srcEs args && d.src
def srcEs : List Expr → Bool
  | [] => true
  | e :: es => e.src && srcEs es
def srcKVs : List KV → Bool
  | [] => true
  | .mk k v :: r => k.src && v.src && srcKVs r
def Filter.src : Filter → Bool
  | .none => true
  | .cond c => c.src
  | .initCond x i c => !isTmp x && i.src && c.src
def srcPhrases : List Phrase → Bool
  | [] => true
  | .mk key val x f :: r =>
    (match key with
     | some k => !isTmp k
     | none => true) && !isTmp val && x.src && f.src && srcPhrases r
end

mutual
theorem good_evalE (c : Ctx) : ∀ (e : Expr), e.src = true → Good (evalE c e)
  | .lit v, _ => by unfold evalE; exact good_ok v
  | .zero t, _ => by unfold evalE; exact good_ok _
  | .var x, h => by
    unfold evalE
    exact good_var x (by simpa [Expr.src] using h)
  | .bin op a b, h => by
    simp only [Expr.src, Bool.and_eq_true] at h
    unfold evalE
    exact good_bind (good_evalE c a h.1) (fun va => good_evalBin op va (good_evalE c b h.2))
  | .not a, h => by
    simp only [Expr.src] at h
    unfold evalE
    refine good_bind (good_evalE c a h) (fun va => ?_)
    cases va <;> first | exact good_ok _ | exact good_stuck
  | .listLit _ es, h => by
    simp only [Expr.src] at h
    unfold evalE
    exact good_bind (good_evalEs c es h) (fun vs => good_ok _)
  | .sliceLit _ es, h => by
    simp only [Expr.src] at h
    unfold evalE
    exact good_bind (good_evalEs c es h) (fun vs => good_ok _)
  | .mapLit _ _ kvs, h => by
    simp only [Expr.src] at h
    unfold evalE
    refine good_bind (good_evalKVs c kvs h) (fun ps => ?_)
    cases mapOfPairs ps <;> first | exact good_ok _ | exact good_stuck
  | .xmapLit _ _ kvs, h => by
    simp only [Expr.src] at h
    unfold evalE
    refine good_bind (good_evalKVs c kvs h) (fun ps => ?_)
    cases mapOfPairs ps <;> first | exact good_ok _ | exact good_stuck
  | .index vt a i, h => by
    simp only [Expr.src, Bool.and_eq_true] at h
    unfold evalE
    exact good_bind (good_evalE c a h.1) (fun va => good_bind (good_evalE c i h.2) (fun vi => good_prim _))
  | .len a, h => by
    simp only [Expr.src] at h
    unfold evalE
    refine good_bind (good_evalE c a h) (fun va => ?_)
    cases lenVal va <;> first | exact good_ok _ | exact good_stuck
  | .append a vs sp, h => by
    simp only [Expr.src, Bool.and_eq_true] at h
    unfold evalE
    refine good_bind (good_evalE c a h.1) (fun va => good_bind (good_evalEs c vs h.2) (fun ws => ?_))
    cases spreadArgs sp ws with
    | none => exact good_stuck
    | some xs =>
      show Good (fun env2 tr2 => match appendVals va xs with
        | some r => Res.ok r env2 tr2
        | none => Res.stuck)
      cases appendVals va xs <;> first | exact good_ok _ | exact good_stuck
  | .call f args, h => by
    simp only [Expr.src] at h
    unfold evalE
    exact good_callSem c f (good_evalEs c args h)
  | .cmdCall f args, h => by
    simp only [Expr.src] at h
    unfold evalE
    exact good_callSem c f (good_evalEs c args h)
  | .probe id e, h => by
    simp only [Expr.src] at h
    unfold evalE
    exact good_bind (good_evalE c e h) (fun v => good_okf v (fun t => t ++ [(id, v)]))
  | .closure _ _, h => by simp [Expr.src] at h
  | .newFrame e code fn, h => by
    simp only [Expr.src] at h
    unfold evalE
    exact good_bind (good_evalE c e h) (fun v => good_ok _)
  | .neNil e, h => by
    simp only [Expr.src] at h
    unfold evalE
    refine good_bind (good_evalE c e h) (fun v => ?_)
    cases isNilVal v <;> first | exact good_ok _ | exact good_stuck
  | .listCompr _ elt fors, h => by
    simp only [Expr.src, Bool.and_eq_true] at h
    unfold evalE
    exact good_listCompr (good_evalE c elt h.1) (good_evalPhrases c fors h.2)
  | .mapCompr _ _ k v fors, h => by
    simp only [Expr.src, Bool.and_eq_true] at h
    unfold evalE
    exact good_mapCompr (good_evalE c k h.1.1) (good_evalE c v h.1.2) (good_evalPhrases c fors h.2)
  | .selCompr t elt fors two, h => by
    simp only [Expr.src, Bool.and_eq_true] at h
    unfold evalE
    exact good_selCompr t (good_evalE c elt h.1) (good_evalPhrases c fors h.2) two
  | .existsCompr fors, h => by
    simp only [Expr.src] at h
    unfold evalE
    exact good_existsCompr (good_evalPhrases c fors h)
  | .errBang code f args tys, h => by
    simp only [Expr.src, Bool.and_eq_true] at h
    unfold evalE
    exact good_errBang _ _ _ _ (good_evalEs c args h.2) _
  | .errQ _ _ _ _, h => by simp [Expr.src] at h
  | .errDflt f args _ d, h => by
    simp only [Expr.src, Bool.and_eq_true] at h
    unfold evalE
    exact good_errDflt _ _ (good_evalEs c args h.1) (good_evalE c d h.2)
theorem good_evalEs (c : Ctx) : ∀ (es : List Expr), srcEs es = true → Good (evalEs c es)
  | [], _ => by unfold evalEs; exact good_ok _
  | e :: es, h => by
    simp only [srcEs, Bool.and_eq_true] at h
    unfold evalEs
    exact good_bind (good_evalE c e h.1) (fun v => good_bind (good_evalEs c es h.2) (fun vs => good_ok _))
theorem good_evalKVs (c : Ctx) : ∀ (kvs : List KV), srcKVs kvs = true → Good (evalKVs c kvs)
  | [], _ => by unfold evalKVs; exact good_ok _
  | .mk k v :: r, h => by
    simp only [srcKVs, Bool.and_eq_true] at h
    unfold evalKVs
    exact good_bind (good_evalE c k h.1.1) (fun kv => good_bind (good_evalE c v h.1.2)
      (fun vv => good_bind (good_evalKVs c r h.2) (fun ps => good_ok _)))
theorem good_evalFilter (c : Ctx) : ∀ (f : Filter), f.src = true → GoodFilter (evalFilter c f)
  | .none, _ => by unfold evalFilter; exact .none
  | .cond e, h => by
    simp only [Filter.src] at h
    unfold evalFilter
    exact .cond (good_evalE c e h)
  | .initCond x i e, h => by
    simp only [Filter.src, Bool.and_eq_true] at h
    unfold evalFilter
    exact .initCond x (good_evalE c i h.1.2) (good_evalE c e h.2)
theorem good_evalPhrases (c : Ctx) : ∀ (ps : List Phrase), srcPhrases ps = true →
    ∀ p ∈ evalPhrases c ps, GoodPhrase p
  | [], _ => by unfold evalPhrases; intro p hp; cases hp
  | .mk key val x f :: r, h => by
    simp only [srcPhrases, Bool.and_eq_true] at h
    unfold evalPhrases
    intro p hp
    rcases List.mem_cons.1 hp with rfl | hp
    · exact ⟨good_evalE c x h.1.1.2, good_evalFilter c f h.1.2⟩
    · exact good_evalPhrases c r h.2 p hp
end

end GopModel.Mini
