/- C41 helper: the protocol layer (request/response cycle in the trace, return values, no transfer
after close) is preserved by every step. -/
import GopModel.Lemmas.FakenetDefs
namespace GopModel.C41
open GopModel.TS GopModel.Generated.SyncFakenet

set_option hygiene false in
macro "finv_fin" : tactic => `(tactic| (
  refine ⟨?_, ?_, ?_, ?_, ?_, ?_, ?_, ?_⟩ <;> simp only [State.setThread, State.emit, State.doPanic, List.getElem?_set, Thread.putOpt, Thread.put, Thread.get, goto] <;>
    grind [goto, Valid, Thread.put, Thread.get, Thread.putOpt, phase_xfer0, phase_call, phase_xfer1, phase_ret, phase_closed, phase_spawn, gotBuf_got, owner_got, gotBuf_idle, calledRes_idle, owner_idle, lastRecv, RetOk, XferBeforeClose]))

set_option hygiene false in
macro "finv_tac" : tactic => `(tactic| (
  simp only [exec] at hex
  repeat' (split at hex)
  all_goals first
    | (cases hex; done)
    | (cases hex; finv_fin)))

set_option maxHeartbeats 8000000 in
theorem finv_step {s s' : State} {l : Label} (B : Basic s) (I : FInv s) (h : next sys s l = some s') : FInv s' := by
  cases l with
  | thread j k p v =>
    obtain ⟨hp, t, ht, hst, ins, hins, hex⟩ := next_thread h
    have hv := B.valid j t ht
    obtain ⟨_, hne, hval, hrun, h1, h2, hc1, hc2, hc3, hc4, hflag, hc5⟩ := B
    obtain ⟨f1, f2, f3, f4, f5, f6, f7, f8⟩ := I
    have hjl := getElem?_lt ht
    rcases instr_cases hv hins with ⟨hfn, hpc, rfl⟩ | ⟨hfn, hpc, rfl⟩ | ⟨hfn, hpc, rfl⟩ | ⟨hfn, hpc, rfl⟩ | ⟨hfn, hpc, rfl⟩ | ⟨hfn, hpc, rfl⟩ | ⟨hfn, hpc, rfl⟩ | ⟨hfn, hpc, rfl⟩ | ⟨hfn, hpc, rfl⟩ | ⟨hfn, hpc, rfl⟩ | ⟨hfn, hpc, rfl⟩ | ⟨hfn, hpc, rfl⟩ | ⟨hfn, hpc, rfl⟩ | ⟨hfn, hpc, rfl⟩ | ⟨hfn, hpc, rfl⟩ | ⟨hfn, hpc, rfl⟩
    · sel_cases finv_fin
    · finv_tac
    · sel_cases finv_fin
    · finv_tac
    · finv_tac
    · sel_cases finv_fin
    · finv_tac
    · finv_tac
    · sel_cases finv_fin
    · finv_tac
    · finv_tac
    · finv_tac
    · finv_tac
    · -- close(f.done)
      have hps := no_parked_sender_done hval
      rcases exec_close hex with ⟨hc, rfl⟩ | ⟨hc, hs, rfl⟩ | ⟨hc, hs, rfl⟩
      · have := hc4 j t ht hfn hpc
        simp at hc; exact absurd hc this
      · rw [hps] at hs; cases hs
      · have hj0 : j ≠ 0 := by
          intro e; subst e
          have := (hrun 0 t ht).2 rfl
          omega
        have h0 : ∀ r', ((s.threads.map (claimClosed sys 2)).set j (goto t 4))[0]? = some r' →
            ∃ r, s.threads[0]? = some r ∧ r' = claimClosed sys 2 r := by
          intro r' hr'
          rcases close_threads hr' with ⟨e, _⟩ | ⟨_, ti, hti, rfl⟩
          · exact absurd e.symm hj0
          · exact ⟨ti, hti, rfl⟩
        refine ⟨?_, ?_, ?_, ?_, ?_, ?_, ?_, ?_⟩ <;> simp only [State.setThread, State.emit, phase_closed]
        · intro r' hr' hpc'
          obtain ⟨r, hr, rfl⟩ := h0 r' hr'
          have hr1 := (hrun 0 r hr).2 rfl
          have hf := f1 r hr
          rcases claim_pc (hval 0 r hr) with e | ⟨ea, eb, _, e1, e2⟩
          · rw [e] at hpc'; (try rw [e]); exact hf hpc'
          · first
              | (exfalso; omega)
              | (rw [eb]; apply hf; omega)
              | (apply hf; omega)
        · intro r' hr' hpc'
          obtain ⟨r, hr, rfl⟩ := h0 r' hr'
          have hr1 := (hrun 0 r hr).2 rfl
          have hf := f2 r hr
          rcases claim_pc (hval 0 r hr) with e | ⟨ea, eb, _, e1, e2⟩
          · rw [e] at hpc'; (try rw [e]); exact hf hpc'
          · first
              | (exfalso; omega)
              | (rw [eb]; apply hf; omega)
              | (apply hf; omega)
        · intro r' hr' hpc'
          obtain ⟨r, hr, rfl⟩ := h0 r' hr'
          have hr1 := (hrun 0 r hr).2 rfl
          have hf := f3 r hr
          rcases claim_pc (hval 0 r hr) with e | ⟨ea, eb, _, e1, e2⟩
          · rw [e] at hpc'; (try rw [e]); exact hf hpc'
          · first
              | (exfalso; omega)
              | (rw [eb]; apply hf; omega)
              | (apply hf; omega)
        · intro i t' hi hf2 hp2
          rcases close_threads hi with ⟨rfl, rfl⟩ | ⟨hne', ti, hti, rfl⟩
          · simp [goto] at hf2; omega
          · rcases claim_pc (hval i ti hti) with e | ⟨ea, eb, ef, e1, e2⟩
            · rw [e] at hf2 hp2; exact f4 i ti hti hf2 hp2
            · exfalso; omega
        · intro i t' hi hf2 hp2
          rcases close_threads hi with ⟨rfl, rfl⟩ | ⟨hne', ti, hti, rfl⟩
          · simp [goto] at hf2; omega
          · simp only [lastRecv]
            rcases claim_pc (hval i ti hti) with e | ⟨ea, eb, ef, e1, e2⟩
            · rw [e] at hf2 hp2; (try rw [e]); exact f5 i ti hti hf2 hp2
            · exfalso; omega
        · simpa [RetOk] using f6
        · simpa [XferBeforeClose] using f7
        · intro ch _; simp
    · finv_tac
    · finv_tac
  | spawn fn a b =>
    obtain ⟨_, hne, hval, hrun, h1, h2, hc1, hc2, hc3, hc4, hflag, hc5⟩ := B
    obtain ⟨f1, f2, f3, f4, f5, f6, f7, f8⟩ := I
    obtain ⟨hp, hsp, f, hf, rfl⟩ := next_spawn h
    have hfn := spawn_cases hsp hf
    have hlen : 0 < s.threads.length := by
      obtain ⟨r, hr0, _⟩ := hne
      exact getElem?_lt hr0
    refine ⟨?_, ?_, ?_, ?_, ?_, ?_, ?_, ?_⟩ <;> simp only [State.emit, List.getElem?_append, FnDef.mkThread, phase_spawn] <;>
      grind [doFn, closeFn, regInit, lastRecv, RetOk, XferBeforeClose]
  | spurious j =>
    obtain ⟨f1, f2, f3, f4, f5, f6, f7, f8⟩ := I
    obtain ⟨hp, _, rfl⟩ := next_spurious h
    exact ⟨f1, f2, f3, f4, f5, f6, f7, f8⟩

end GopModel.C41
