/-
Lemmas for C32, part 2: token kinds of the two dialects, the operator tries, `finish`.
-/
import GopModel.Lemmas.ScanC32a
namespace GopModel.Scan
open GopModel.Generated

variable {src : Array UInt8}

def cfgT (U : UCls) (c n : Bool) : Cfg := { d := .tpl, comments := c, noSemis := n, U := U }
def cfgX' (U : UCls) (c n : Bool) : Cfg := { d := .xgo, comments := c, noSemis := n, U := U }

/-- a tpl token kind and an xgo token kind that denote the same token: same `String()`, and
both or neither are EOF -/
def kindRelB (kt kx : Nat) : Bool :=
  kindName .tpl kt == kindName .xgo kx && (kindName .tpl kt).isSome &&
    ((kt == Tokens.Tpl.EOF) == (kx == Tokens.XGo.EOF))

def KindRel (kt kx : Nat) : Prop := kindRelB kt kx = true

theorem KindRel.eof {kt kx : Nat} (h : KindRel kt kx) : kt = Tokens.Tpl.EOF ↔ kx = Tokens.XGo.EOF := by
  unfold KindRel kindRelB at h
  simp only [Bool.and_eq_true, beq_iff_eq] at h
  have := h.2
  constructor
  · intro h1; simpa [h1] using this
  · intro h1; simpa [h1] using this

theorem KindRel.name {kt kx : Nat} (h : KindRel kt kx) :
    kindName .tpl kt = kindName .xgo kx ∧ (kindName .tpl kt).isSome = true := by
  unfold KindRel kindRelB at h
  simp only [Bool.and_eq_true, beq_iff_eq] at h
  exact ⟨h.1.1, h.1.2⟩

/-- the relation between the two returned tokens -/
def TokRel : Option Token → Option Token → Prop
  | none, none => True
  | some a, some b => a.pos = b.pos ∧ a.stop = b.stop ∧ a.lit = b.lit ∧ KindRel a.kind b.kind
  | _, _ => False

/-- the two results of one pass through `Scan` from the same state -/
structure Leaf32 (T X : St × Option Token) : Prop where
  st : T.1 = X.1
  tok : TokRel T.2 X.2

theorem kinds32 :
    KindRel (codes .tpl).ILLEGAL (codes .xgo).ILLEGAL ∧ KindRel (codes .tpl).EOF (codes .xgo).EOF ∧
    KindRel (codes .tpl).COMMENT (codes .xgo).COMMENT ∧ KindRel (codes .tpl).IDENT (codes .xgo).IDENT ∧
    KindRel (codes .tpl).INT (codes .xgo).INT ∧ KindRel (codes .tpl).FLOAT (codes .xgo).FLOAT ∧
    KindRel (codes .tpl).IMAG (codes .xgo).IMAG ∧ KindRel (codes .tpl).CHAR (codes .xgo).CHAR ∧
    KindRel (codes .tpl).STRING (codes .xgo).STRING ∧ KindRel (codes .tpl).RAT (codes .xgo).RAT ∧
    KindRel (codes .tpl).UNIT (codes .xgo).UNIT ∧ KindRel (codes .tpl).SEMICOLON (codes .xgo).SEMICOLON ∧
    KindRel (codes .tpl).PERIOD (codes .xgo).PERIOD ∧ KindRel (codes .tpl).ELLIPSIS (codes .xgo).ELLIPSIS := by
  unfold KindRel
  decide +kernel

theorem finish32 (U : UCls) (c n : Bool) (st : St) (pos kt kx : Nat) (lit : List UInt8) (s : Bool)
    (hk : KindRel kt kx) :
    Leaf32 (finish (cfgT U c n) st pos kt lit s) (finish (cfgX' U c n) st pos kx lit s) := by
  unfold finish mkTok cfgT cfgX'
  exact ⟨rfl, ⟨rfl, rfl, rfl, hk⟩⟩

theorem autoSemi32 (U : UCls) (c n : Bool) (st : St) (pos : Nat) :
    Leaf32 (autoSemi (cfgT U c n) st pos) (autoSemi (cfgX' U c n) st pos) := by
  unfold autoSemi mkTok cfgT cfgX'
  simp only [reduceCtorEq, if_false]
  exact ⟨rfl, ⟨rfl, rfl, rfl, kinds32.2.2.2.2.2.2.2.2.2.2.2.1⟩⟩

/-! ### the operator tries -/

/-- same shape, same flags, leaves with the same spelling, none of them EOF -/
def sameTrie32 : Trie → Trie → Bool
  | .leaf a s1 p1, .leaf b s2 p2 =>
    s1 == s2 && p1 == p2 && kindName .tpl a == kindName .xgo b && (kindName .tpl a).isSome &&
      a != Tokens.Tpl.EOF && b != Tokens.XGo.EOF
  | .test c1 y1 n1, .test c2 y2 n2 => c1 == c2 && sameTrie32 y1 y2 && sameTrie32 n1 n2
  | _, _ => false

theorem walk32 : ∀ (tT tX : Trie) (st : St), sameTrie32 tT tX = true →
    (walk src tT st).1 = (walk src tX st).1 ∧ KindRel (walk src tT st).2.1 (walk src tX st).2.1 ∧
      (walk src tT st).2.2 = (walk src tX st).2.2
  | .leaf a s1 p1, .leaf b s2 p2, st, h => by
    simp only [sameTrie32, Bool.and_eq_true, beq_iff_eq, bne_iff_ne, ne_eq] at h
    obtain ⟨⟨⟨⟨⟨h1, h2⟩, h3⟩, h4⟩, h5⟩, h6⟩ := h
    simp only [walk]
    refine ⟨by first | rfl | trivial, ?_, by rw [h1, h2]⟩
    unfold KindRel kindRelB
    have e5 : (a == Tokens.Tpl.EOF) = false := by simpa using h5
    have e6 : (b == Tokens.XGo.EOF) = false := by simpa using h6
    rw [h3] at h4 ⊢
    simp only [e5, e6, beq_self_eq_true, h4, Bool.and_self]
  | .test c1 y1 n1, .test c2 y2 n2, st, h => by
    simp only [sameTrie32, Bool.and_eq_true, beq_iff_eq] at h
    obtain ⟨⟨h1, h2⟩, h3⟩ := h
    simp only [walk]
    rw [h1]
    split
    · exact walk32 y1 y2 _ h2
    · exact walk32 n1 n2 _ h3
  | .leaf _ _ _, .test _ _ _, _, h => by simp [sameTrie32] at h
  | .test _ _ _, .leaf _ _ _, _, h => by simp [sameTrie32] at h

/-- for every first byte but `*` that the xgo switch knows, the tpl switch decides alike -/
theorem switch32 {ch : Nat} {tX : Trie} (h : (codes .xgo).ops.lookup ch = some tX) (hne : ch ≠ 0x2A) :
    ∃ tT, (codes .tpl).ops.lookup ch = some tT ∧ sameTrie32 tT tX = true := by
  have hall : (ScanSwitch.xgoOps.all fun e => e.1 == 0x2A ||
      match ScanSwitch.tplOps.lookup e.1 with
      | some t => sameTrie32 t e.2
      | none => false) = true := by decide +kernel
  have := (List.all_eq_true.mp hall) _ (mem_of_lookup h)
  simp only [Bool.or_eq_true, beq_iff_eq] at this
  rcases this with h1 | h1
  · exact absurd h1 hne
  · cases hl : ScanSwitch.tplOps.lookup ch with
    | none => rw [hl] at h1; cases h1
    | some t => rw [hl] at h1; exact ⟨t, hl, h1⟩

/-- the `*` case -/
theorem switch32_star :
    (codes .xgo).ops.lookup 0x2A = some (.test 0x3D (.leaf Tokens.XGo.MUL_ASSIGN false 0) (.leaf Tokens.XGo.MUL false 0)) ∧
    (codes .tpl).ops.lookup 0x2A = some (.test 0x3D (.leaf Tokens.Tpl.MUL_ASSIGN false 0)
      (.test 0x2A (.leaf Tokens.Tpl.POW false 0) (.leaf Tokens.Tpl.MUL false 0))) ∧
    KindRel Tokens.Tpl.MUL_ASSIGN Tokens.XGo.MUL_ASSIGN ∧ KindRel Tokens.Tpl.MUL Tokens.XGo.MUL := by
  unfold KindRel
  decide +kernel

end GopModel.Scan
