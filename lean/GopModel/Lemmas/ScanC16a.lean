/-
Lemmas for C16, part 1: the relation between the xgo and the go scanner state, white space under
a pending-semicolon mismatch, the comment scanner of the two dialects.
-/
import GopModel.Lemmas.ScanCongr
import GopModel.Model.ScanDomain
namespace GopModel.Scan
open GopModel.Generated

variable {src : Array UInt8}

/-! ### blanks -/

def isBlankByte (b : Nat) : Prop := b = 0x20 ∨ b = 0x09 ∨ b = 0x0D

instance (b : Nat) : Decidable (isBlankByte b) := by unfold isBlankByte; infer_instance

theorem afterBlanks_spec : ∀ (f i : Nat), src.size ≤ f + i →
    i ≤ afterBlanks src f i ∧ (∀ k, i ≤ k → k < afterBlanks src f i → isBlankByte (byteAt src k)) ∧
    (src.size ≤ afterBlanks src f i ∨ ¬ isBlankByte (byteAt src (afterBlanks src f i))) := by
  intro f
  induction f with
  | zero =>
    intro i h
    simp only [afterBlanks]
    exact ⟨Nat.le_refl _, fun k h1 h2 => by omega, Or.inl (by omega)⟩
  | succ f ih =>
    intro i h
    simp only [afterBlanks]
    split
    · rename_i hc
      have := ih (i + 1) (by omega)
      refine ⟨by omega, ?_, this.2.2⟩
      intro k h1 h2
      by_cases hk : k = i
      · subst hk; exact hc.2
      · exact this.2.1 k (by omega) h2
    · rename_i hc
      refine ⟨Nat.le_refl _, fun k h1 h2 => by omega, ?_⟩
      by_cases hs : i < src.size
      · right; intro hb; exact hc ⟨hs, hb⟩
      · left; omega

/-- what `¬ lineEndOrComment src i` says: behind blanks there is a byte that is neither a
newline nor the beginning of a comment -/
theorem not_lineEnd_spec {i : Nat} (h : lineEndOrComment src i = false) :
    ∃ j, i ≤ j ∧ (∀ k, i ≤ k → k < j → isBlankByte (byteAt src k)) ∧ j < src.size ∧
      ¬ isBlankByte (byteAt src j) ∧ byteAt src j ≠ 0x0A ∧
      ¬ (byteAt src j = 0x2F ∧ (byteAt src (j + 1) = 0x2F ∨ byteAt src (j + 1) = 0x2A)) := by
  have hs := afterBlanks_spec (src := src) src.size i (by omega)
  unfold lineEndOrComment at h
  simp only [Bool.or_eq_false_iff, decide_eq_false_iff_not, Bool.and_eq_false_iff] at h
  obtain ⟨⟨h1, h2⟩, h3⟩ := h
  refine ⟨afterBlanks src src.size i, hs.1, hs.2.1, by omega, ?_, by simpa using h2, ?_⟩
  · rcases hs.2.2 with h | h
    · omega
    · exact h
  · intro ⟨ha, hb⟩
    rcases h3 with h | h
    · simp [ha] at h
    · rcases hb with hb | hb <;> simp [hb] at h

/-- `skipWhitespace` up to a non-blank, non-newline byte does not depend on `insertSemi` -/
theorem skipWs_to (j : Nat) : ∀ (fuel : Nat) {a b : St}, Same a b → Inv src a → a.off ≤ j →
    (∀ k, a.off ≤ k → k < j → isBlankByte (byteAt src k)) → j < src.size →
    ¬ isBlankByte (byteAt src j) → byteAt src j ≠ 0x0A → src.size - a.off < fuel →
    Same (skipWs src fuel a) (skipWs src fuel b) ∧ (skipWs src fuel a).off = j := by
  intro fuel
  induction fuel with
  | zero => intro a b _ _ _ _ _ _ _ h; omega
  | succ f ih =>
    intro a b h hi hle hbl hj hnb hnl hf
    have hdec := hi.decoded
    simp only [skipWs]
    rw [← h.ch]
    by_cases hlt : a.off < j
    · -- a blank byte: both continue
      have hb := hbl a.off (Nat.le_refl _) hlt
      have hsz : a.off < src.size := by omega
      have hch : a.ch = byteAt src a.off := by
        rw [hdec]; unfold runeAt
        have : byteAt src a.off < 0x80 := by unfold isBlankByte at hb; omega
        simp [hsz, this]
      have hc : a.ch = 0x20 ∨ a.ch = 0x09 ∨ (a.ch = 0x0A ∧ a.insertSemi = false) ∨ a.ch = 0x0D := by
        rw [hch]; unfold isBlankByte at hb
        rcases hb with h | h | h
        · exact Or.inl h
        · exact Or.inr (Or.inl h)
        · exact Or.inr (Or.inr (Or.inr h))
      have hc' : a.ch = 0x20 ∨ a.ch = 0x09 ∨ (a.ch = 0x0A ∧ b.insertSemi = false) ∨ a.ch = 0x0D := by
        rcases hc with h | h | ⟨h, _⟩ | h
        · exact Or.inl h
        · exact Or.inr (Or.inl h)
        · exfalso; rw [hch] at h; unfold isBlankByte at hb; omega
        · exact Or.inr (Or.inr (Or.inr h))
      rw [if_pos hc, if_pos hc']
      have hlt' : a.ch < 0x80 := by rcases hc with h | h | ⟨h, _⟩ | h <;> omega
      have e1 := next_off_ascii hi hlt'
      exact ih (Same.next (src := src) h) (next_inv hi) (by omega)
        (fun k h1 h2 => hbl k (by omega) h2) hj hnb hnl (by omega)
    · have he : a.off = j := by omega
      have hch : a.ch ≠ 0x20 ∧ a.ch ≠ 0x09 ∧ a.ch ≠ 0x0A ∧ a.ch ≠ 0x0D := by
        rw [hdec, he]; unfold runeAt
        simp only [hj, if_true]
        split
        · unfold isBlankByte at hnb; omega
        · rename_i hge
          have := decodeRune_nonascii src j (by omega)
          omega
      have hn : ¬ (a.ch = 0x20 ∨ a.ch = 0x09 ∨ (a.ch = 0x0A ∧ a.insertSemi = false) ∨ a.ch = 0x0D) := by
        intro h; rcases h with h | h | ⟨h, _⟩ | h <;> simp_all
      have hn' : ¬ (a.ch = 0x20 ∨ a.ch = 0x09 ∨ (a.ch = 0x0A ∧ b.insertSemi = false) ∨ a.ch = 0x0D) := by
        intro h; rcases h with h | h | ⟨h, _⟩ | h <;> simp_all
      rw [if_neg hn, if_neg hn']
      exact ⟨h, he⟩


/-! ### the comment scanner: go and xgo coincide on `//` and `/*` -/

/-- for `//…` and `/*…*/` the literal has at least two more bytes than counted CRs -/
theorem commentLoops_len (fuel : Nat) (st : St) (hi : Inv src st) (hf : src.size - st.off < fuel)
    (hc : st.ch = 0x2F ∨ st.ch = 0x2A) :
    (commentLoops .xgo src fuel st).numCR + st.off + 1 ≤ (commentLoops .xgo src fuel st).st.off := by
  have hlt : st.ch < 0x80 := by rcases hc with h | h <;> omega
  have hne := lt_ne_eof hlt
  have e1 := next_off_ascii hi hlt
  have hf' : src.size - (next src st).off < fuel := by omega
  unfold commentLoops
  simp only []
  split
  · have := lineCommentLoop_count (src := src) fuel (next src st) 0 (next_inv hi) hf'
    simp only; omega
  · rename_i h1
    have hstar : st.ch = 0x2A := by rcases hc with h | h; exact absurd h h1; exact h
    simp only [hstar, or_true, if_true]
    have := blockCommentLoop_count (src := src) fuel (next src st) 0 0 (next_inv hi) hf'
    split
    · omega
    · simp only [error_off]; omega

theorem scanCommentXG_go_eq_xgo (fuel : Nat) (st : St) (hi : Inv src st) (hf : src.size - st.off < fuel)
    (h1 : 1 ≤ st.off) (hc : st.ch = 0x2F ∨ st.ch = 0x2A) :
    scanCommentXG .go src fuel st = scanCommentXG .xgo src fuel st := by
  have hloops : commentLoops .go src fuel st = commentLoops .xgo src fuel st := by
    unfold commentLoops
    simp only []
    rcases hc with h | h
    · simp [h]
    · simp [h]
  have hlen := commentLoops_len fuel st hi hf hc
  obtain ⟨ha, _, _⟩ := commentLoops_ok fuel st hi hf
  unfold scanCommentXG
  have h0 : ¬ st.off = 0 := by omega
  simp only [h0, if_false]
  rw [hloops]
  generalize commentLoops .xgo src fuel st = r at ha hlen ⊢
  have hle : st.off - 1 ≤ r.st.off := by have := ha.off_le; omega
  have hrs := ha.inv.off_le_size
  rw [sliceP_eq r.st hle hrs]
  simp only []
  have hl := slice_length (src := src) hle hrs
  have hs1 := commentStrip1_ok r.numCR (slice src (st.off - 1) r.st.off) (by rw [hl]; omega)
  have h2 : 2 ≤ (commentStrip1 r.numCR (slice src (st.off - 1) r.st.off)).1.length := by
    unfold commentStrip1
    split
    · rename_i hcond
      simp only [List.length_dropLast, hl]; omega
    · simp only [hl]; omega
  have : commentDirective .go r.st (st.off - 1) (commentStrip1 r.numCR (slice src (st.off - 1) r.st.off)).1 r.terminated =
      commentDirective .xgo r.st (st.off - 1) (commentStrip1 r.numCR (slice src (st.off - 1) r.st.off)).1 r.terminated := by
    unfold commentDirective
    simp [h2]
  rw [this]

end GopModel.Scan
