/-
Lemmas for C16, part 2: the relation `R16` between the two scanner states and the branches
of `Scan` (identifier, number, comment, operators).
-/
import GopModel.Lemmas.ScanC16a
namespace GopModel.Scan
open GopModel.Generated

variable {src : Array UInt8}

def cfgX (U : UCls) (c n : Bool) : Cfg := { d := .xgo, comments := c, noSemis := n, U := U }
def cfgG (U : UCls) (c n : Bool) : Cfg := { d := .go, comments := c, noSemis := n, U := U }

/-- the pending-semicolon flags agree, or — after `!` / `...` — XGo has one pending, go has
none, and neither a line end nor a comment follows -/
def SemiRel (src : Array UInt8) (noSemis : Bool) (sx sg : St) : Prop :=
  sx.insertSemi = sg.insertSemi ∨
    (noSemis = false ∧ sx.insertSemi = true ∧ sg.insertSemi = false ∧ lineEndOrComment src sx.off = false)

/-- the xgo scanner state `sx` and the go scanner state `sg` between two calls of `Scan` -/
structure R16 (src : Array UInt8) (noSemis : Bool) (sx sg : St) : Prop where
  same : Same sx sg
  good : Good src sx
  unit : sx.unitVal = []
  nl : sg.nlPos = none
  semi : SemiRel src noSemis sx sg

/-- what the two results of one pass through `Scan` must satisfy -/
structure Leaf16 (src : Array UInt8) (noSemis : Bool) (X G : St × Option Token) : Prop where
  tok : X.2 = G.2
  same : Same X.1 G.1
  unit : X.1.unitVal = []
  nl : G.1.nlPos = none
  semi : SemiRel src noSemis X.1 G.1

/-- the token codes used by the hand-written cases coincide -/
theorem codes16 :
    (codes .xgo).ILLEGAL = (codes .go).ILLEGAL ∧ (codes .xgo).EOF = (codes .go).EOF ∧
    (codes .xgo).COMMENT = (codes .go).COMMENT ∧ (codes .xgo).IDENT = (codes .go).IDENT ∧
    (codes .xgo).INT = (codes .go).INT ∧ (codes .xgo).FLOAT = (codes .go).FLOAT ∧
    (codes .xgo).IMAG = (codes .go).IMAG ∧ (codes .xgo).CHAR = (codes .go).CHAR ∧
    (codes .xgo).STRING = (codes .go).STRING ∧ (codes .xgo).SEMICOLON = (codes .go).SEMICOLON ∧
    (codes .xgo).PERIOD = (codes .go).PERIOD ∧ (codes .xgo).ELLIPSIS = (codes .go).ELLIPSIS ∧
    (codes .xgo).keywords = (codes .go).keywords ∧ (codes .xgo).semiKw = (codes .go).semiKw := by
  decide +kernel

theorem finish16 (U : UCls) (c n : Bool) {a b : St} (h : Same a b) (hu : a.unitVal = []) (hn : b.nlPos = none)
    (pos kind : Nat) (lit : List UInt8) (sx sg : Bool)
    (hprev : n = true → a.insertSemi = b.insertSemi)
    (hs : sx = sg ∨ (sx = true ∧ sg = false ∧ lineEndOrComment src a.off = false)) :
    Leaf16 src n (finish (cfgX U c n) a pos kind lit sx) (finish (cfgG U c n) b pos kind lit sg) := by
  unfold finish mkTok cfgX cfgG
  simp only []
  cases n with
  | true =>
    simp only [if_true]
    exact ⟨by rw [h.off, h.unitVal], h, hu, hn, Or.inl (hprev rfl)⟩
  | false =>
    simp only [Bool.false_eq_true, if_false]
    refine ⟨by simp only [h.off, h.unitVal], ?_, hu, hn, ?_⟩
    · exact ((Same.semi a sx).symm.trans h).trans (Same.semi b sg)
    · rcases hs with h1 | ⟨h1, h2, h3⟩
      · exact Or.inl h1
      · exact Or.inr ⟨rfl, h1, h2, h3⟩

theorem autoSemi16 (U : UCls) (c n : Bool) {a b : St} (h : Same a b) (hu : a.unitVal = []) (hn : b.nlPos = none)
    (pos : Nat) : Leaf16 src n (autoSemi (cfgX U c n) a pos) (autoSemi (cfgG U c n) b pos) := by
  unfold autoSemi mkTok cfgX cfgG
  simp only [reduceCtorEq, if_false, if_true]
  refine ⟨by simp only [h.off, h.unitVal, codes16.2.2.2.2.2.2.2.2.2.1], ?_, hu, hn, Or.inl rfl⟩
  exact ((Same.flags a 0 false).symm.trans h).trans (Same.flags b b.nParen false)


/-! ### what the domain says about single tokens -/

theorem goTokOK_ident {U : UCls} {p s : Nat} {lit : List UInt8}
    (h : goTokOK U src ⟨p, s, Tokens.Go.IDENT, lit⟩ = true) (hl : lit = strC ∨ lit = strCC ∨ lit = strPy) :
    runeAt src s ≠ 0x22 := by
  intro hq
  unfold goTokOK at h
  simp only [hq] at h
  rcases hl with h1 | h1 | h1 <;> simp [h1, strC, strCC, strPy, Tokens.Go.IDENT, Tokens.Go.ILLEGAL, Tokens.Go.INT,
    Tokens.Go.FLOAT, Tokens.Go.IMAG] at h

theorem goTokOK_not_illegal {U : UCls} {t : Token} (h : goTokOK U src t = true) : t.kind ≠ Tokens.Go.ILLEGAL := by
  unfold goTokOK at h
  simp only [Bool.and_eq_true, bne_iff_ne, ne_eq] at h
  exact h.1.1.1.1.1

theorem goTokOK_number {U : UCls} {t : Token} (h : goTokOK U src t = true)
    (hk : t.kind = Tokens.Go.INT ∨ t.kind = Tokens.Go.FLOAT) : isLetter U (runeAt src t.stop) = false := by
  unfold goTokOK at h
  simp only [Bool.and_eq_true, Bool.not_eq_true', Bool.and_eq_false_iff, Bool.or_eq_false_iff] at h
  have := h.1.1.1.1.2
  rcases this with h1 | h1
  · rcases hk with hk | hk <;> simp [hk] at h1
  · exact h1

theorem goTokOK_imag {U : UCls} {t : Token} (h : goTokOK U src t = true) (hk : t.kind = Tokens.Go.IMAG) :
    isLetter U (runeAt src t.stop) = false ∧ isDigit U (runeAt src t.stop) = false := by
  unfold goTokOK at h
  simp only [Bool.and_eq_true, Bool.not_eq_true', Bool.and_eq_false_iff, Bool.or_eq_false_iff] at h
  have := h.1.1.1.2
  rcases this with h1 | h1
  · simp [hk] at h1
  · exact h1

theorem goTokOK_arrow {U : UCls} {t : Token} (h : goTokOK U src t = true)
    (hk : t.kind = Tokens.Go.SUB ∨ t.kind = Tokens.Go.ASSIGN ∨ t.kind = Tokens.Go.LSS) : runeAt src t.stop ≠ 0x3E := by
  unfold goTokOK at h
  simp only [Bool.and_eq_true, Bool.not_eq_true', Bool.and_eq_false_iff, Bool.or_eq_false_iff] at h
  have := h.1.2
  intro hq
  rcases this with h1 | h1
  · rcases hk with hk | hk | hk <;> simp [hk] at h1
  · simp [hq] at h1

theorem goTokOK_lenient {U : UCls} {t : Token} (h : goTokOK U src t = true)
    (hk : t.kind = Tokens.Go.NOT ∨ t.kind = Tokens.Go.ELLIPSIS) : lineEndOrComment src t.stop = false := by
  unfold goTokOK at h
  simp only [Bool.and_eq_true, Bool.not_eq_true', Bool.and_eq_false_iff, Bool.or_eq_false_iff] at h
  have := h.2
  rcases this with h1 | h1
  · rcases hk with hk | hk <;> simp [hk] at h1
  · exact h1

/-! ### identifiers -/

theorem Inv.ofSame {a b : St} (hi : Inv src a) (h : Same a b) : Inv src b :=
  hi.congr h.ch.symm h.off.symm h.rdOff.symm

theorem ident16 (U : UCls) (c n : Bool) (F : Nat) (hF : src.size < F) {a b : St} (h : Same a b) (hi : Inv src a)
    (hu : a.unitVal = []) (hn : b.nlPos = none) (hprev : n = true → a.insertSemi = b.insertSemi)
    (hok : ∀ t, (scanIdentTok (cfgG U c n) src F b b.off).2 = some t → goTokOK U src t = true) :
    Leaf16 src n (scanIdentTok (cfgX U c n) src F a a.off) (scanIdentTok (cfgG U c n) src F b b.off) := by
  have hf : src.size - a.off < F := by omega
  have hib := hi.ofSame h
  have hfb : src.size - b.off < F := by omega
  have hadv := identLoop_adv U F a hi hf
  have hadvb := identLoop_adv U F b hib hfb
  have heq := scanIdentifier_eq U F a hi hf
  have heqb := scanIdentifier_eq U F b hib hfb
  have hS := Same.scanIdentifier (src := src) U F h
  have hoff := h.off
  unfold scanIdentTok at hok ⊢
  simp only [cfgX, cfgG, reduceCtorEq, if_false, false_and, true_and] at hok ⊢
  rw [← hoff] at hok ⊢
  have hadv' : Adv src a (scanIdentifier U src F a).1 := by rw [heq]; exact hadv
  have hadvb' : Adv src b (scanIdentifier U src F b).1 := by rw [heqb]; exact hadvb
  generalize scanIdentifier U src F a = ra at hS hadv' hok ⊢
  generalize scanIdentifier U src F b = rb at hS hadvb' hok ⊢
  obtain ⟨hs1, hs2⟩ := hS
  rw [← hs2] at hok ⊢
  have hu1 : ra.1.unitVal = [] := hadv'.unit.trans hu
  have hub : rb.1.unitVal = [] := by rw [← hs1.unitVal]; exact hu1
  have hnb : rb.1.nlPos = none := hadvb'.nl.trans hn
  have hprev1 : n = true → ra.1.insertSemi = rb.1.insertSemi := by
    intro hn'
    rw [hadv'.semi, hadvb'.semi]; exact hprev hn'
  have hdec := hadv'.inv.decoded
  -- the go token when the result is a plain identifier
  have hgo : ∀ (semi : Bool), (finish { d := Dialect.go, comments := c, noSemis := n, U := U } rb.1 a.off (codes .go).IDENT ra.2 semi).2 =
      some ⟨a.off, ra.1.off, Tokens.Go.IDENT, ra.2⟩ := by
    intro semi
    rw [(finish_fst _ rb.1 a.off _ ra.2 semi).2]
    unfold frontier
    rw [hub, ← hs1.off]
    rfl
  obtain ⟨_, _, _, k4, _, _, _, _, _, _, _, _, k13, k14⟩ := codes16
  rw [k13, k14, k4]
  have plain : ∀ (kind : Nat) (semi : Bool),
      Leaf16 src n (finish { d := Dialect.xgo, comments := c, noSemis := n, U := U } ra.1 a.off kind ra.2 semi)
        (finish { d := Dialect.go, comments := c, noSemis := n, U := U } rb.1 a.off kind ra.2 semi) :=
    fun kind semi => finish16 U c n hs1 hu1 hnb a.off kind ra.2 semi semi hprev1 (Or.inl rfl)
  by_cases h1 : 1 < ra.2.length
  · simp only [h1, if_true] at hok ⊢
    cases hk : List.lookup ra.2 (codes Dialect.go).keywords with
    | some kw =>
      simp only [hk] at hok ⊢
      exact plain _ _
    | none =>
      simp only [hk] at hok ⊢
      split
      · rename_i hpy
        exfalso
        have h2 := hok _ (hgo true)
        have h3 := goTokOK_ident h2 (Or.inr (Or.inr hpy.1))
        rw [← hdec] at h3
        exact h3 hpy.2
      · exact plain _ _
  · simp only [h1, if_false] at hok ⊢
    split
    · rename_i hcq
      exfalso
      have h2 := hok _ (hgo true)
      have h3 := goTokOK_ident h2 (by
        rcases hcq.1 with h | h
        · exact Or.inl h
        · exact Or.inr (Or.inl h))
      rw [← hdec] at h3
      exact h3 hcq.2
    · exact plain _ _


/-! ### numbers -/

/-- an identifier that consists of one letter: `scanIdentifier` is one `next` -/
theorem identLoop_one (U : UCls) (F : Nat) (st : St) (hF : 2 ≤ F) (h1 : isLetter U st.ch = true)
    (h2 : isLetter U (next src st).ch = false) (h3 : isDigit U (next src st).ch = false) :
    identLoop U src F st = next src st := by
  obtain ⟨f, rfl⟩ : ∃ f, F = f + 2 := ⟨F - 2, by omega⟩
  simp [identLoop, h1, h2, h3]

theorem numFinish_state {st0 : St} {numEnd : Nat} {ns : NS} (h : SufOK src st0 numEnd ns) (hle : st0.off ≤ numEnd) :
    (numFinish src st0.off ns).1.off = ns.st.off ∧ (numFinish src st0.off ns).1.unitVal = ns.st.unitVal ∧
      (numFinish src st0.off ns).2.1 = ns.tok := by
  have hsz := h.inv.off_le_size
  have h1 := h.numEnd_le
  have hs := sliceP_eq (src := src) ns.st (a := st0.off) (b := ns.st.off - ns.st.unitVal.length) (by omega) (by omega)
  have hlen := slice_length (src := src) (a := st0.off) (b := ns.st.off - ns.st.unitVal.length) (by omega) (by omega)
  unfold numFinish
  simp only [hs]
  have sb := (numInvalidErr_same ns.st st0.off (slice src st0.off (ns.st.off - ns.st.unitVal.length)) ns
      (by intro v hv; have := h.inval v hv; rw [hlen]; omega)).trans
    (numSepErr_same (numInvalidErr ns.st st0.off (slice src st0.off (ns.st.off - ns.st.unitVal.length)) ns) st0.off
      (slice src st0.off (ns.st.off - ns.st.unitVal.length)) ns)
  exact ⟨sb.off, sb.unit, by first | rfl | trivial⟩

theorem number16 (U : UCls) (c n : Bool) (F : Nat) (hF : src.size < F) {a b : St} (h : Same a b) (hi : Inv src a)
    (hu : a.unitVal = []) (hn : b.nlPos = none) (hprev : n = true → a.insertSemi = b.insertSemi)
    (hok : ∀ t, (finish (cfgG U c n) (scanNumber .go U src F b).1 b.off
        (numKindCode (codes .go) (scanNumber .go U src F b).2.1) (scanNumber .go U src F b).2.2 true).2 = some t →
        goTokOK U src t = true) :
    Leaf16 src n
      (finish (cfgX U c n) (scanNumber .xgo U src F a).1 a.off
        (numKindCode (codes .xgo) (scanNumber .xgo U src F a).2.1) (scanNumber .xgo U src F a).2.2 true)
      (finish (cfgG U c n) (scanNumber .go U src F b).1 b.off
        (numKindCode (codes .go) (scanNumber .go U src F b).2.1) (scanNumber .go U src F b).2.2 true) := by
  have hf : src.size - a.off < F := by omega
  have hib := hi.ofSame h
  have hub : b.unitVal = [] := by rw [← h.unitVal]; exact hu
  have hbo : b.off = a.off := h.off.symm
  rw [hbo] at hok ⊢
  -- the numeric part (dialect independent)
  have oka := (numExp_ok F (numFrac_ok F (numInt_ok F a hi hf) hf).1 hf).1
  have okb := (numExp_ok F (numFrac_ok F (numInt_ok F b hib (by rw [hbo]; exact hf)) (by rw [hbo]; exact hf)).1 (by rw [hbo]; exact hf)).1
  have hsame := SameNS.numExp (src := src) F (SameNS.numFrac (src := src) F (SameNS.numInt (src := src) F h))
  unfold scanNumber at hok ⊢
  rw [hbo] at hok ⊢
  generalize numExp src F (numFrac src F (numInt src F a)) = nsa at oka hsame hok ⊢
  generalize numExp src F (numFrac src F (numInt src F b)) = nsb at okb hsame hok ⊢
  have hia := oka.adv.inv
  have hdec := hia.decoded
  have hch := hsame.st.ch
  -- the suffix on the go side and what the domain says about it
  have sufb := (numSuffix_ok .go U F okb (by rw [hbo]; exact hf) hub).1
  have stb := numFinish_state sufb (okb.adv.off_le)
  have finb := (numFinish_ok sufb (okb.adv.off_le)).1
  have sufa := (numSuffix_ok .xgo U F oka hf hu).1
  have sta := numFinish_state sufa (oka.adv.off_le)
  have fina := (numFinish_ok sufa (oka.adv.off_le)).1
  rw [hbo] at stb
  have finb_nl := finb.nl
  have finb_semi := finb.semi
  rw [hbo] at finb_nl finb_semi
  -- the go token
  have hgo : (finish (cfgG U c n) (numFinish src a.off (numSuffix .go U src F nsb)).1 a.off
      (numKindCode (codes .go) (numFinish src a.off (numSuffix .go U src F nsb)).2.1)
      (numFinish src a.off (numSuffix .go U src F nsb)).2.2 true).2 =
      some ⟨a.off, (numSuffix .go U src F nsb).st.off - (numSuffix .go U src F nsb).st.unitVal.length,
        numKindCode (codes .go) (numSuffix .go U src F nsb).tok, (numFinish src a.off (numSuffix .go U src F nsb)).2.2⟩ := by
    rw [(finish_fst _ _ _ _ _ _).2]
    unfold frontier
    rw [stb.1, stb.2.1, stb.2.2]
  have hgok := hok _ hgo
  -- it suffices that the suffix step gives `SameNS` results
  suffices hsuf : SameNS (numSuffix .xgo U src F nsa) (numSuffix .go U src F nsb) ∧
      numKindCode (codes .xgo) (numSuffix .go U src F nsb).tok = numKindCode (codes .go) (numSuffix .go U src F nsb).tok by
    have hfin := hsuf.1.numFinish (src := src) a.off
    have hk : numKindCode (codes .xgo) (numFinish src a.off (numSuffix .xgo U src F nsa)).2.1 =
        numKindCode (codes .go) (numFinish src a.off (numSuffix .go U src F nsb)).2.1 := by
      rw [sta.2.2, stb.2.2, hsuf.1.tok]; exact hsuf.2
    rw [hk, ← hfin.2]
    have hux : (numFinish src a.off (numSuffix .xgo U src F nsa)).1.unitVal = [] := by
      rw [hfin.1.unitVal, stb.2.1]
      -- the go suffix never sets a unit
      unfold numSuffix
      simp only [if_true]
      split
      · simp only [next_unitVal]; exact okb.adv.unit.trans hub
      · exact okb.adv.unit.trans hub
    refine finish16 U c n hfin.1 hux (finb_nl.trans hn) a.off _ _ true true ?_ (Or.inl rfl)
    intro hn'
    rw [fina.semi, finb_semi]; exact hprev hn'
  -- the suffix
  obtain ⟨_, _, _, _, k5, k6, k7, _⟩ := codes16
  unfold numSuffix at hgok ⊢
  simp only [reduceCtorEq, if_true, if_false] at hgok ⊢
  obtain ⟨s', hs', rfl⟩ := hsame.elim
  simp only at hgok hch ⊢
  rw [← hch] at hgok ⊢
  by_cases hiq : nsa.st.ch = 0x69
  · -- imaginary literal: the identifier scanned by xgo is exactly "i"
    simp only [hiq, if_true] at hgok ⊢
    have him := goTokOK_imag hgok (by simp only [numKindCode]; rfl)
    simp only [next_unitVal] at him
    have hub' : s'.unitVal = [] := by rw [← hs'.unitVal]; exact oka.adv.unit.trans hu
    rw [hub'] at him
    simp only [List.length_nil, Nat.sub_zero] at him
    have hib' := hia.ofSame hs'
    rw [← (next_inv hib').decoded, ← (Same.next (src := src) hs').ch] at him
    have hlet0 : isLetter U 105 = true := by simp [isLetter, isAsciiLetter]
    have hlet : isLetter U nsa.st.ch = true := by rw [hiq]; exact hlet0
    have hsz : nsa.st.off < src.size := by
      have := hia.adv (lt_ne_eof (by omega)); have := hia.rd_le; omega
    rw [if_pos hlet0]
    have hfa : src.size - nsa.st.off < F := by omega
    rw [scanIdentifier_eq U F nsa.st hia hfa, identLoop_one U F nsa.st (by omega) hlet him.1 him.2]
    have e1 := next_off_ascii hia (show nsa.st.ch < 0x80 by omega)
    have hb := (hia.ascii (show nsa.st.ch < 0x80 by omega)).1
    have hsl : slice src nsa.st.off (next src nsa.st).off = [0x69] := by
      rw [e1, slice_one_byte hsz (hb.trans hiq)]; rfl
    simp only [hsl, if_true]
    exact ⟨⟨Same.next (src := src) hs', rfl, rfl, rfl, rfl, rfl, rfl⟩, by simp only [numKindCode]; exact k7⟩
  · simp only [hiq, if_false] at hgok ⊢
    have hub' : s'.unitVal = [] := by rw [← hs'.unitVal]; exact oka.adv.unit.trans hu
    rw [hub'] at hgok
    simp only [List.length_nil, Nat.sub_zero] at hgok
    -- whatever the kind, no letter follows
    have hnl : isLetter U nsa.st.ch = false ∧
        numKindCode (codes .xgo) nsa.tok = numKindCode (codes .go) nsa.tok := by
      rw [hdec, hs'.off]
      cases ht : nsa.tok with
      | illegal =>
        exfalso
        rw [ht] at hgok
        exact goTokOK_not_illegal hgok rfl
      | rat =>
        exfalso
        rw [ht] at hgok
        exact goTokOK_not_illegal hgok rfl
      | int =>
        rw [ht] at hgok
        exact ⟨goTokOK_number hgok (Or.inl rfl), by simp only [numKindCode]; exact k5⟩
      | float =>
        rw [ht] at hgok
        exact ⟨goTokOK_number hgok (Or.inr rfl), by simp only [numKindCode]; exact k6⟩
      | imag =>
        rw [ht] at hgok
        exact ⟨(goTokOK_imag hgok rfl).1, by simp only [numKindCode]; exact k7⟩
    simp only [hnl.1, Bool.false_eq_true, if_false]
    exact ⟨⟨hs', rfl, rfl, rfl, rfl, rfl, rfl⟩, hnl.2⟩

end GopModel.Scan
