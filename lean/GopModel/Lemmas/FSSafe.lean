/-
`SafeSeq`: a decidable structural condition on event traces of the FS model (an abstract
interpretation), and its soundness: a trace that satisfies it leaves `path` holding the
complete original or the complete formatted content at every crash point, for all contents,
modes, stale temp files, umasks and partial-write lengths.
-/
import GopModel.Model.FS
namespace GopModel.FS

/-- abstract mode: `orig` = equals the original permission bits; `other` = anything -/
inductive AM where
  | orig | other
  deriving DecidableEq, Repr

/-- abstract content of the temp file -/
inductive TC where
  | empty | full | junk
  deriving DecidableEq, Repr

inductive ATmp where
  | top
  | file (c : TC) (m : AM)
  deriving DecidableEq, Repr

/-- abstract descriptor: closed; on the temp file at offset 0; on the temp file at some
offset; on the file named `path`; unknown -/
inductive AFd where
  | closed | tmp0 | tmpN | path | top
  deriving DecidableEq, Repr

structure Abs where
  /-- `path` holds the formatted (true) or the original (false) content, completely -/
  pc : Bool
  pm : AM
  tmp : ATmp
  fd : AFd
  /-- the remembered permission bits are the original ones -/
  stat : Bool
  deriving DecidableEq, Repr

def Abs.init : Abs := { pc := false, pm := .orig, tmp := .top, fd := .closed, stat := false }

def absMode (a : Abs) : ModeE → AM
  | .const _ => .other
  | .origPerm => if a.stat then .orig else .other

def ATmp.setMode : ATmp → AM → ATmp
  | .top, _ => .top
  | .file c _, m => .file c m

def ATmp.junk : ATmp → ATmp
  | .top => .top
  | .file _ m => .file .junk m

/-- Abstract effect of a failing (or interrupted) operation; `none` = not shown safe. -/
def absFail (o : Op) (a : Abs) : Option Abs :=
  match o with
  | .write =>
    match a.fd with
    | .closed => some a
    | .tmp0 => some { a with tmp := a.tmp.junk, fd := .tmpN }
    | .tmpN => some { a with tmp := a.tmp.junk, fd := .tmpN }
    | .path => none
    | .top => none
  | _ => some a

/-- Abstract effect of a successful operation; `none` = not shown safe. -/
def absOk (o : Op) (a : Abs) : Option Abs :=
  match o with
  | .stat => some { a with stat := (a.pm == .orig) }
  | .lstat => some { a with stat := false }  -- may describe a symbolic link, not the file
  | .createTemp _ => some { a with tmp := .file .empty .other, fd := .tmp0 }
  | .openW r creat excl trunc _ =>
    match r with
    | .path => none
    | .tmp =>
      if creat && !excl && trunc then some { a with tmp := .file .empty .other, fd := .tmp0 }
      else none
  | .write =>
    match a.fd with
    | .closed => some a
    | .tmp0 =>
      match a.tmp with
      | .file .empty m => some { a with tmp := .file .full m, fd := .tmpN }
      | t => some { a with tmp := t.junk, fd := .tmpN }
    | .tmpN => some { a with tmp := a.tmp.junk, fd := .tmpN }
    | .path => none
    | .top => none
  | .chmodFd m =>
    match a.fd with
    | .closed => some a
    | .tmp0 => some { a with tmp := a.tmp.setMode (absMode a m) }
    | .tmpN => some { a with tmp := a.tmp.setMode (absMode a m) }
    | .path => some { a with pm := absMode a m }
    | .top => none
  | .chmodName r m =>
    match r with
    | .path => some { a with pm := absMode a m }
    | .tmp => some { a with tmp := a.tmp.setMode (absMode a m) }
  | .sync => some a
  | .close => some { a with fd := .closed }
  | .remove r =>
    match r with
    | .path => none
    | .tmp =>
      some { a with tmp := .top,
                    fd := match a.fd with
                      | .closed => .closed
                      | .path => .path
                      | _ => .top }
  | .rename src dst =>
    match src, dst with
    | .path, .path => some a
    | .tmp, .tmp => some a
    | .path, .tmp => none
    | .tmp, .path =>
      match a.tmp with
      | .file .full m =>
        some { a with pc := true, pm := m, tmp := .top,
                      fd := match a.fd with
                        | .closed => .closed
                        | .tmp0 => .path
                        | .tmpN => .path
                        | _ => .top }
      | _ => none

def absEv : Ev → Abs → Option Abs
  | .ok o, a => absOk o a
  | .fail o, a => absFail o a

/-- Abstract run; every event must also be safe to be interrupted (`absFail`). -/
def absRun : List Ev → Abs → Option Abs
  | [], a => some a
  | e :: es, a =>
    match absFail e.op a, absEv e a with
    | some _, some a' => absRun es a'
    | _, _ => none

/-- **SafeSeq**: the decidable structural condition on a trace. -/
def SafeSeq (t : List Ev) : Bool := (absRun t Abs.init).isSome

/-- SafeSeq and, at the end of the trace, `path` holds the formatted content with the
original permission bits. -/
def SafeSeqMode (t : List Ev) : Bool :=
  match absRun t Abs.init with
  | some a => a.pc && (a.pm == .orig)
  | none => false

/-- abstract run that additionally requires `path` to have the original permission bits in
every state a crash can leave behind -/
def absRunM : List Ev → Abs → Bool
  | [], a => a.pm == .orig
  | e :: es, a =>
    (a.pm == .orig) &&
    match absFail e.op a, absEv e a with
    | some af, some a' => (af.pm == .orig) && absRunM es a'
    | _, _ => false

/-- Stronger than C26 asks: the permission bits of `path` are the original ones at EVERY crash
point (not only after a complete run).  Reported by the driver, not required by the property. -/
def ModeSafeSeq (t : List Ev) : Bool := absRunM t Abs.init

/-! ## Concretisation -/

section
variable (orig fmt : Bytes) (mode : Nat)

def modeOK : AM → Nat → Prop
  | .orig, m => m = mode
  | .other, _ => True

def contOK : TC → Bytes → Prop
  | .empty, c => c = []
  | .full, c => c = fmt
  | .junk, _ => True

def tmpOK : ATmp → Option File → Prop
  | .top, _ => True
  | .file c m, some f => contOK fmt c f.content ∧ modeOK mode m f.mode
  | .file _ _, none => False

def fdOK : AFd → Option (Loc × Nat) → Prop
  | .closed, fd => fd = none
  | .tmp0, fd => fd = some (.atTmp, 0)
  | .tmpN, fd => ∃ n, fd = some (.atTmp, n)
  | .path, fd => ∃ n, fd = some (.atPath, n)
  | .top, _ => True

def pathOK (pc : Bool) (pm : AM) : Option File → Prop
  | some f => f.content = (if pc then fmt else orig) ∧ modeOK mode pm f.mode
  | none => False

structure Rel (a : Abs) (s : St) : Prop where
  path : pathOK orig fmt mode a.pc a.pm s.path
  tmp : tmpOK fmt mode a.tmp s.tmp
  fd : fdOK a.fd s.fd
  stat : a.stat = true → s.perm = some mode

/-- The crash-safety predicate of C26 on a state. -/
def Safe (s : St) : Prop :=
  ∃ f, s.path = some f ∧ (f.content = orig ∨ f.content = fmt)

theorem Rel.safe {a : Abs} {s : St} (h : Rel orig fmt mode a s) : Safe orig fmt s := by
  have hp := h.path
  cases hs : s.path with
  | none => simp [hs, pathOK] at hp
  | some f =>
    simp only [hs, pathOK] at hp
    refine ⟨f, hs, ?_⟩
    cases hpc : a.pc <;> simp [hpc] at hp
    · exact Or.inl hp.1
    · exact Or.inr hp.1

theorem rel_init (stale : Option File) (umask : Nat) (link : Option Nat) :
    Rel orig fmt mode Abs.init (init orig mode stale umask link) := by
  constructor <;> simp [Abs.init, init, pathOK, modeOK, tmpOK, fdOK]

theorem overwrite_nil (d : Bytes) : overwrite [] 0 d = d := by
  simp [overwrite]

theorem tmpOK_junk {t : ATmp} {f : File} (h : tmpOK fmt mode t (some f)) (c : Bytes) :
    tmpOK fmt mode t.junk (some { f with content := c }) := by
  cases t with
  | top => trivial
  | file tc m => exact ⟨trivial, h.2⟩

theorem tmpOK_setMode_orig {t : ATmp} {f : File} (h : tmpOK fmt mode t (some f)) :
    tmpOK fmt mode (t.setMode .orig) (some { f with mode := mode }) := by
  cases t with
  | top => trivial
  | file tc m => exact ⟨h.1, rfl⟩

theorem tmpOK_setMode_other {t : ATmp} {f : File} (h : tmpOK fmt mode t (some f)) (v : Nat) :
    tmpOK fmt mode (t.setMode .other) (some { f with mode := v }) := by
  cases t with
  | top => trivial
  | file tc m => exact ⟨h.1, trivial⟩

theorem tmpOK_setMode_none {t : ATmp} (h : tmpOK fmt mode t none) (m : AM) :
    tmpOK fmt mode (t.setMode m) none := by
  cases t with
  | top => trivial
  | file tc m' => exact h.elim

/-- a write through a descriptor on the temp file only changes the temp file's content -/
theorem writeBytes_tmp (d : Bytes) (s : St) (off : Nat) (hfd : s.fd = some (.atTmp, off)) :
    (writeBytes d s).path = s.path ∧ (writeBytes d s).perm = s.perm ∧
    (writeBytes d s).fd = some (.atTmp, off + d.length) ∧
    (writeBytes d s).tmp = s.tmp.map (fun f => { f with content := overwrite f.content off d }) := by
  unfold writeBytes
  rw [hfd]
  cases ht : s.tmp <;> simp [St.getLoc, St.setLoc, ht]

theorem rel_write_tmp {a : Abs} {s : St} (d : Bytes) (off : Nat)
    (h : Rel orig fmt mode a s) (hfd : s.fd = some (.atTmp, off)) :
    Rel orig fmt mode { a with tmp := a.tmp.junk, fd := .tmpN } (writeBytes d s) := by
  obtain ⟨h1, h2, h3, h4⟩ := writeBytes_tmp d s off hfd
  constructor
  · simpa [h1] using h.path
  · show tmpOK fmt mode a.tmp.junk (writeBytes d s).tmp
    rw [h4]
    cases ht : s.tmp with
    | none =>
      have := h.tmp; rw [ht] at this
      cases hat : a.tmp with
      | top => trivial
      | file c m => rw [hat] at this; exact this.elim
    | some f =>
      have := h.tmp; rw [ht] at this
      exact tmpOK_junk fmt mode this _
  · exact ⟨_, h3⟩
  · intro hs; rw [h2]; exact h.stat hs

theorem absFail_sound {a a' : Abs} {s : St} (o : Op) (n : Nat)
    (h : Rel orig fmt mode a s) (ha : absFail o a = some a') :
    Rel orig fmt mode a' (applyFail fmt n o s) := by
  cases o with
  | write =>
    simp only [absFail] at ha
    simp only [applyFail]
    cases hfd : a.fd <;> simp [hfd] at ha
    · subst ha
      have := h.fd; simp [hfd, fdOK] at this
      simpa [writeBytes, this] using h
    · subst ha
      have := h.fd; simp only [hfd, fdOK] at this
      exact rel_write_tmp orig fmt mode _ 0 h this
    · subst ha
      have := h.fd; simp only [hfd, fdOK] at this
      obtain ⟨k, hk⟩ := this
      exact rel_write_tmp orig fmt mode _ k h hk
  | _ => simp only [absFail, Option.some.injEq] at ha; subst ha; simpa [applyFail] using h

theorem modeOK_absMode {a : Abs} {s : St} (h : Rel orig fmt mode a s) (m : ModeE) (v : Nat)
    (hv : evalMode s m = some v) : modeOK mode (absMode a m) v := by
  cases m with
  | const c => trivial
  | origPerm =>
    simp only [absMode]
    cases hs : a.stat with
    | false => trivial
    | true =>
      have := h.stat hs
      simp only [evalMode, this, Option.some.injEq] at hv
      simp [modeOK, hv.symm]

theorem tmpOK_chmod {a : Abs} {s : St} (h : Rel orig fmt mode a s) (m : ModeE) (v : Nat)
    (hv : evalMode s m = some v) (f : File) (hf : s.tmp = some f) :
    tmpOK fmt mode (a.tmp.setMode (absMode a m)) (some { f with mode := v }) := by
  have hm := modeOK_absMode orig fmt mode h m v hv
  have ht := h.tmp; rw [hf] at ht
  cases hat : a.tmp with
  | top => trivial
  | file c m' =>
    rw [hat] at ht
    exact ⟨ht.1, hm⟩

theorem absOk_sound {a a' : Abs} {s : St} (o : Op)
    (h : Rel orig fmt mode a s) (ha : absOk o a = some a') :
    Rel orig fmt mode a' (apply fmt o s) := by
  obtain ⟨hpath, htmp, hfd, hstat⟩ := h
  have h : Rel orig fmt mode a s := ⟨hpath, htmp, hfd, hstat⟩
  cases o with
  | stat =>
    simp only [absOk, Option.some.injEq] at ha; subst ha
    cases hp : s.path with
    | none => simp [hp, pathOK] at hpath
    | some f =>
      simp only [apply, hp]
      refine ⟨by simpa [hp] using hpath, htmp, hfd, ?_⟩
      intro hs
      simp only [beq_iff_eq] at hs
      simp only [hp, pathOK, hs, modeOK] at hpath
      simp [hpath.2]
  | lstat =>
    simp only [absOk, Option.some.injEq] at ha; subst ha
    simp only [apply]
    split
    · exact ⟨hpath, htmp, hfd, by intro h; cases h⟩
    · split
      · exact ⟨hpath, htmp, hfd, by intro h; cases h⟩
      · exact ⟨hpath, htmp, hfd, by intro h; cases h⟩
  | createTemp m =>
    simp only [absOk, Option.some.injEq] at ha; subst ha
    exact ⟨hpath, ⟨rfl, trivial⟩, rfl, hstat⟩
  | openW r creat excl trunc m =>
    cases r with
    | path => simp [absOk] at ha
    | tmp =>
      simp only [absOk] at ha
      split at ha
      · rename_i hc
        simp only [Bool.and_eq_true, Bool.not_eq_true'] at hc
        obtain ⟨⟨hc1, hc2⟩, hc3⟩ := hc
        subst hc1 hc2 hc3
        simp only [Option.some.injEq] at ha; subst ha
        cases ht : s.tmp with
        | none =>
          simp only [apply, St.get, ht, St.set, Ref.loc]
          exact ⟨hpath, ⟨rfl, trivial⟩, rfl, hstat⟩
        | some f =>
          simp only [apply, St.get, ht, St.set, Ref.loc]
          exact ⟨hpath, ⟨rfl, trivial⟩, rfl, hstat⟩
      · cases ha
  | write =>
    simp only [absOk] at ha
    simp only [apply]
    cases hafd : a.fd <;> simp only [hafd] at ha
    · simp only [Option.some.injEq] at ha; subst ha
      have := hfd; simp [hafd, fdOK] at this
      simpa [writeBytes, this] using h
    · have hfd0 := hfd; simp only [hafd, fdOK] at hfd0
      obtain ⟨h1, h2, h3, h4⟩ := writeBytes_tmp fmt s 0 hfd0
      split at ha
      · rename_i m hat
        simp only [Option.some.injEq] at ha; subst ha
        refine ⟨by simpa [h1] using hpath, ?_, ⟨_, h3⟩, by intro hs; rw [h2]; exact hstat hs⟩
        show tmpOK fmt mode (.file .full m) (writeBytes fmt s).tmp
        rw [h4]
        cases ht : s.tmp with
        | none => rw [hat, ht] at htmp; exact htmp.elim
        | some f =>
          rw [hat, ht] at htmp
          simp only [Option.map_some, tmpOK, contOK]
          refine ⟨?_, htmp.2⟩
          have : f.content = [] := htmp.1
          rw [this, overwrite_nil]
      · simp only [Option.some.injEq] at ha; subst ha
        exact rel_write_tmp orig fmt mode _ 0 h hfd0
    · simp only [Option.some.injEq] at ha; subst ha
      have := hfd; simp only [hafd, fdOK] at this
      obtain ⟨k, hk⟩ := this
      exact rel_write_tmp orig fmt mode _ k h hk
    · cases ha
    · cases ha
  | chmodFd m =>
    simp only [absOk] at ha
    cases hafd : a.fd <;> simp only [hafd] at ha
    · simp only [Option.some.injEq] at ha; subst ha
      have := hfd; simp [hafd, fdOK] at this
      simpa [apply, this] using h
    · simp only [Option.some.injEq] at ha; subst ha
      have hfd0 := hfd; simp only [hafd, fdOK] at hfd0
      simp only [apply, hfd0]
      cases hv : evalMode s m with
      | none =>
        simp only
        cases m with
        | const c => simp [evalMode] at hv
        | origPerm =>
          have : a.stat = false := by
            cases hs : a.stat with
            | false => rfl
            | true => have := hstat hs; simp [evalMode, this] at hv
          refine ⟨hpath, ?_, by simpa [hafd, fdOK] using hfd0, hstat⟩
          simp only [absMode, this]
          cases ht : s.tmp with
          | none => rw [ht] at htmp; exact tmpOK_setMode_none fmt mode htmp _
          | some f =>
            rw [ht] at htmp
            have := tmpOK_setMode_other fmt mode htmp f.mode
            simpa using this
      | some v =>
        simp only [St.getLoc]
        cases ht : s.tmp with
        | none =>
          simp only
          rw [ht] at htmp
          exact ⟨hpath, by rw [ht]; exact tmpOK_setMode_none fmt mode htmp _,
                 by simpa [hafd, fdOK] using hfd0, hstat⟩
        | some f =>
          simp only [St.setLoc]
          exact ⟨hpath, tmpOK_chmod orig fmt mode h m v hv f ht,
                 by simpa [hafd, fdOK] using hfd0, hstat⟩
    · simp only [Option.some.injEq] at ha; subst ha
      have hfdn := hfd; simp only [hafd, fdOK] at hfdn
      obtain ⟨k, hk⟩ := hfdn
      simp only [apply, hk]
      cases hv : evalMode s m with
      | none =>
        simp only
        cases m with
        | const c => simp [evalMode] at hv
        | origPerm =>
          have : a.stat = false := by
            cases hs : a.stat with
            | false => rfl
            | true => have := hstat hs; simp [evalMode, this] at hv
          refine ⟨hpath, ?_, by simp only [fdOK]; exact ⟨k, hk⟩, hstat⟩
          simp only [absMode, this]
          cases ht : s.tmp with
          | none => rw [ht] at htmp; exact tmpOK_setMode_none fmt mode htmp _
          | some f =>
            rw [ht] at htmp
            have := tmpOK_setMode_other fmt mode htmp f.mode
            simpa using this
      | some v =>
        simp only [St.getLoc]
        cases ht : s.tmp with
        | none =>
          simp only
          rw [ht] at htmp
          exact ⟨hpath, by rw [ht]; exact tmpOK_setMode_none fmt mode htmp _,
                 by simp only [fdOK]; exact ⟨k, hk⟩, hstat⟩
        | some f =>
          simp only [St.setLoc]
          exact ⟨hpath, tmpOK_chmod orig fmt mode h m v hv f ht,
                 by simp only [fdOK]; exact ⟨k, hk⟩, hstat⟩
    · simp only [Option.some.injEq] at ha; subst ha
      have hfdn := hfd; simp only [hafd, fdOK] at hfdn
      obtain ⟨k, hk⟩ := hfdn
      simp only [apply, hk]
      cases hv : evalMode s m with
      | none => simp only; exact ⟨by
          cases hp : s.path with
          | none => simp [hp, pathOK] at hpath
          | some f =>
            simp only [hp, pathOK] at hpath ⊢
            refine ⟨hpath.1, ?_⟩
            cases m with
            | const c => trivial
            | origPerm =>
              have : a.stat = false := by
                cases hs : a.stat with
                | false => rfl
                | true => have := hstat hs; simp [evalMode, this] at hv
              simp [absMode, this, modeOK], htmp, by simp only [fdOK]; exact ⟨k, hk⟩, hstat⟩
      | some v =>
        simp only [St.getLoc]
        cases hp : s.path with
        | none => simp [hp, pathOK] at hpath
        | some f =>
          simp only [St.setLoc]
          simp only [hp, pathOK] at hpath
          exact ⟨⟨hpath.1, modeOK_absMode orig fmt mode h m v hv⟩, htmp,
                 by simp only [fdOK]; exact ⟨k, hk⟩, hstat⟩
    · cases ha
  | chmodName r m =>
    cases r with
    | path =>
      simp only [absOk, Option.some.injEq] at ha; subst ha
      simp only [apply]
      cases hv : evalMode s m with
      | none =>
        simp only
        refine ⟨?_, htmp, hfd, hstat⟩
        cases hp : s.path with
        | none => simp [hp, pathOK] at hpath
        | some f =>
          simp only [hp, pathOK] at hpath ⊢
          refine ⟨hpath.1, ?_⟩
          cases m with
          | const c => trivial
          | origPerm =>
            have : a.stat = false := by
              cases hs : a.stat with
              | false => rfl
              | true => have := hstat hs; simp [evalMode, this] at hv
            simp [absMode, this, modeOK]
      | some v =>
        cases hp : s.path with
        | none => simp [hp, pathOK] at hpath
        | some f =>
          simp only [St.get, St.set, hp, chmodFile, Option.map_some]
          simp only [hp, pathOK] at hpath
          exact ⟨⟨hpath.1, modeOK_absMode orig fmt mode h m v hv⟩, htmp, hfd, hstat⟩
    | tmp =>
      simp only [absOk, Option.some.injEq] at ha; subst ha
      simp only [apply]
      cases hv : evalMode s m with
      | none =>
        simp only
        refine ⟨hpath, ?_, hfd, hstat⟩
        cases m with
        | const c => simp [evalMode] at hv
        | origPerm =>
          have : a.stat = false := by
            cases hs : a.stat with
            | false => rfl
            | true => have := hstat hs; simp [evalMode, this] at hv
          simp only [absMode, this]
          cases ht : s.tmp with
          | none => rw [ht] at htmp; exact tmpOK_setMode_none fmt mode htmp _
          | some f =>
            rw [ht] at htmp
            have := tmpOK_setMode_other fmt mode htmp f.mode
            simpa using this
      | some v =>
        cases ht : s.tmp with
        | none =>
          simp only [St.get, St.set, ht, chmodFile, Option.map_none]
          rw [ht] at htmp
          exact ⟨hpath, tmpOK_setMode_none fmt mode htmp _, hfd, hstat⟩
        | some f =>
          simp only [St.get, St.set, ht, chmodFile, Option.map_some]
          exact ⟨hpath, tmpOK_chmod orig fmt mode h m v hv f ht, hfd, hstat⟩
  | sync =>
    simp only [absOk, Option.some.injEq] at ha; subst ha
    exact h
  | close =>
    simp only [absOk, Option.some.injEq] at ha; subst ha
    exact ⟨hpath, htmp, rfl, hstat⟩
  | remove r =>
    cases r with
    | path => simp [absOk] at ha
    | tmp =>
      simp only [absOk, Option.some.injEq] at ha; subst ha
      simp only [apply, St.get]
      cases ht : s.tmp with
      | none =>
        simp only
        refine ⟨hpath, trivial, ?_, hstat⟩
        cases hafd : a.fd <;> simp only [hafd] at hfd ⊢ <;> first | exact hfd | trivial
      | some f =>
        simp only [St.set, Ref.loc]
        cases hsfd : s.fd with
        | none =>
          simp only
          refine ⟨hpath, trivial, ?_, hstat⟩
          cases hafd : a.fd <;> simp only [hafd, hsfd, fdOK] at hfd ⊢ <;>
            first | trivial | (simp at hfd)
        | some lo =>
          obtain ⟨loc, off⟩ := lo
          simp only
          cases loc with
          | atTmp =>
            simp only [if_true]
            refine ⟨hpath, trivial, ?_, hstat⟩
            cases hafd : a.fd <;> simp only [hafd, hsfd, fdOK] at hfd ⊢ <;>
              first | trivial | (simp at hfd)
          | atPath =>
            simp only [reduceCtorEq, if_false]
            refine ⟨hpath, trivial, ?_, hstat⟩
            cases hafd : a.fd <;> simp only [hafd, hsfd, fdOK] at hfd ⊢ <;>
              first | trivial | exact hfd | (simp at hfd)
          | orphan =>
            simp only [reduceCtorEq, if_false]
            refine ⟨hpath, trivial, ?_, hstat⟩
            cases hafd : a.fd <;> simp only [hafd, hsfd, fdOK] at hfd ⊢ <;>
              first | trivial | exact hfd | (simp at hfd)
  | rename src dst =>
    cases src <;> cases dst
    · simp only [absOk, Option.some.injEq] at ha; subst ha; simpa [apply] using h
    · simp [absOk] at ha
    · simp only [absOk] at ha
      split at ha
      · rename_i m hat
        simp only [Option.some.injEq] at ha; subst ha
        cases ht : s.tmp with
        | none => rw [hat, ht] at htmp; exact htmp.elim
        | some f =>
          rw [hat, ht] at htmp
          simp only [apply, reduceCtorEq, if_false, St.get, ht, St.set, Ref.loc]
          have hp : pathOK orig fmt mode true m (some f) := ⟨by simpa [contOK] using htmp.1, htmp.2⟩
          cases hsfd : s.fd with
          | none =>
            simp only
            refine ⟨hp, trivial, ?_, hstat⟩
            cases hafd : a.fd <;> simp only [hafd, hsfd, fdOK] at hfd ⊢ <;>
              first | trivial | (simp at hfd)
          | some lo =>
            obtain ⟨loc, off⟩ := lo
            simp only
            cases loc with
            | atTmp =>
              simp only [if_true]
              refine ⟨hp, trivial, ?_, hstat⟩
              cases hafd : a.fd <;> simp only [hafd, hsfd, fdOK] at hfd ⊢ <;>
                first | trivial | exact ⟨off, rfl⟩ | (simp at hfd)
            | atPath =>
              simp only [reduceCtorEq, if_false, if_true]
              refine ⟨hp, trivial, ?_, hstat⟩
              cases hafd : a.fd <;> simp only [hafd, hsfd, fdOK] at hfd ⊢ <;>
                first | trivial | (simp at hfd)
            | orphan =>
              simp only [reduceCtorEq, if_false]
              refine ⟨hp, trivial, ?_, hstat⟩
              cases hafd : a.fd <;> simp only [hafd, hsfd, fdOK] at hfd ⊢ <;>
                first | trivial | (simp at hfd)
      · cases ha
    · simp only [absOk, Option.some.injEq] at ha; subst ha; simpa [apply] using h

theorem Rel.set_link {a : Abs} {s : St} (h : Rel orig fmt mode a s) (l : Option Nat) :
    Rel orig fmt mode a { s with link := l } := ⟨h.path, h.tmp, h.fd, h.stat⟩

theorem absOkL_sound {a a' : Abs} {s : St} (o : Op)
    (h : Rel orig fmt mode a s) (ha : absOk o a = some a') :
    Rel orig fmt mode a' (applyL fmt o s) := by
  have h0 := absOk_sound orig fmt mode o h ha
  unfold applyL
  split
  · exact h0.set_link orig fmt mode none
  · exact h0.set_link orig fmt mode none
  · exact h0

theorem absEv_sound {a a' : Abs} {s : St} (e : Ev) (n : Nat)
    (h : Rel orig fmt mode a s) (ha : absEv e a = some a') :
    Rel orig fmt mode a' (applyEv fmt n e s) := by
  cases e with
  | ok o => exact absOkL_sound orig fmt mode o h ha
  | fail o => exact absFail_sound orig fmt mode o n h ha

/-- Soundness of the abstract run for complete traces. -/
theorem absRun_sound : ∀ (t : List Ev) (a a' : Abs) (s : St) (pw : Nat → Nat),
    Rel orig fmt mode a s → absRun t a = some a' →
    Rel orig fmt mode a' (runEvs fmt t pw s)
  | [], a, a', s, pw, h, ha => by
    simp only [absRun, Option.some.injEq] at ha; subst ha; exact h
  | e :: es, a, a', s, pw, h, ha => by
    simp only [absRun] at ha
    split at ha
    · rename_i af a1 hf he
      exact absRun_sound es a1 a' _ _ (absEv_sound orig fmt mode e _ h he) ha
    · cases ha

/-- Soundness at every crash point. -/
theorem absRun_crash_safe : ∀ (t : List Ev) (a a' : Abs) (s : St) (k : Nat) (mid : Option Nat)
    (pw : Nat → Nat),
    Rel orig fmt mode a s → absRun t a = some a' →
    Safe orig fmt (runUntilCrash fmt t k mid pw s)
  | [], a, a', s, k, mid, pw, h, _ => by
    simp only [runUntilCrash]; exact h.safe
  | e :: es, a, a', s, 0, mid, pw, h, ha => by
    simp only [absRun] at ha
    split at ha
    · rename_i af a1 hf he
      cases mid with
      | none => simp only [runUntilCrash]; exact h.safe
      | some n =>
        simp only [runUntilCrash]
        exact (absFail_sound orig fmt mode e.op n h hf).safe
    · cases ha
  | e :: es, a, a', s, k + 1, mid, pw, h, ha => by
    simp only [absRun] at ha
    split at ha
    · rename_i af a1 hf he
      simp only [runUntilCrash]
      exact absRun_crash_safe es a1 a' _ k mid _ (absEv_sound orig fmt mode e _ h he) ha
    · cases ha

theorem Rel.mode_orig {a : Abs} {s : St} (h : Rel orig fmt mode a s) (hpm : a.pm = .orig) :
    ∃ f, s.path = some f ∧ f.mode = mode := by
  have hp := h.path
  cases hs : s.path with
  | none => simp [hs, pathOK] at hp
  | some f =>
    simp only [hs, pathOK, hpm, modeOK] at hp
    exact ⟨f, rfl, hp.2⟩

theorem absRunM_crash_mode : ∀ (t : List Ev) (a : Abs) (s : St) (k : Nat) (mid : Option Nat)
    (pw : Nat → Nat),
    Rel orig fmt mode a s → absRunM t a = true →
    ∃ f, (runUntilCrash fmt t k mid pw s).path = some f ∧ f.mode = mode
  | [], a, s, k, mid, pw, h, ha => by
    simp only [absRunM, beq_iff_eq] at ha
    simp only [runUntilCrash]; exact h.mode_orig orig fmt mode ha
  | e :: es, a, s, 0, mid, pw, h, ha => by
    simp only [absRunM, Bool.and_eq_true, beq_iff_eq] at ha
    obtain ⟨hpm, ha⟩ := ha
    split at ha
    · rename_i af a1 hf he
      simp only [Bool.and_eq_true, beq_iff_eq] at ha
      cases mid with
      | none => simp only [runUntilCrash]; exact h.mode_orig orig fmt mode hpm
      | some n =>
        simp only [runUntilCrash]
        exact (absFail_sound orig fmt mode e.op n h hf).mode_orig orig fmt mode ha.1
    · cases ha
  | e :: es, a, s, k + 1, mid, pw, h, ha => by
    simp only [absRunM, Bool.and_eq_true, beq_iff_eq] at ha
    obtain ⟨hpm, ha⟩ := ha
    split at ha
    · rename_i af a1 hf he
      simp only [Bool.and_eq_true, beq_iff_eq] at ha
      simp only [runUntilCrash]
      exact absRunM_crash_mode es a1 _ k mid _ (absEv_sound orig fmt mode e _ h he) ha.2
    · cases ha

end

/-- **Generic crash-safety theorem**: a trace satisfying `SafeSeq` leaves, at every crash
point (after `k` events, possibly inside event `k` with a partial write of `n` bytes), the
complete original or the complete formatted content at `path` — for all contents, modes,
stale temp files, umasks and partial-write lengths of earlier failed writes. -/
theorem crash_safe_of_safeSeq (t : List Ev) (hs : SafeSeq t = true)
    (orig fmt : Bytes) (mode : Nat) (stale : Option File) (umask : Nat)
    (k : Nat) (mid : Option Nat) (pw : Nat → Nat) (link : Option Nat := none) :
    Safe orig fmt (runUntilCrash fmt t k mid pw (init orig mode stale umask link)) := by
  unfold SafeSeq at hs
  cases hr : absRun t Abs.init with
  | none => simp [hr] at hs
  | some a' =>
    exact absRun_crash_safe orig fmt mode t _ a' _ k mid pw (rel_init orig fmt mode stale umask link) hr

/-- **Generic mode theorem**: a trace satisfying `SafeSeqMode` ends with `path` holding
exactly the formatted content and the original permission bits. -/
theorem mode_kept_of_safeSeqMode (t : List Ev) (hs : SafeSeqMode t = true)
    (orig fmt : Bytes) (mode : Nat) (stale : Option File) (umask : Nat) (pw : Nat → Nat)
    (link : Option Nat := none) :
    (runEvs fmt t pw (init orig mode stale umask link)).path = some ⟨fmt, mode⟩ := by
  unfold SafeSeqMode at hs
  cases hr : absRun t Abs.init with
  | none => simp [hr] at hs
  | some a' =>
    simp only [hr, Bool.and_eq_true, beq_iff_eq] at hs
    have h := absRun_sound orig fmt mode t _ a' _ pw (rel_init orig fmt mode stale umask link) hr
    have hp := h.path
    cases hsp : (runEvs fmt t pw (init orig mode stale umask link)).path with
    | none => simp [hsp, pathOK] at hp
    | some f =>
      simp only [hsp, pathOK, hs.1, hs.2, modeOK, if_true] at hp
      cases f; simp_all

/-- Generic theorem, stronger than C26 requires: a trace satisfying `ModeSafeSeq` leaves `path`
with its original permission bits at every crash point. -/
theorem crash_mode_of_modeSafeSeq (t : List Ev) (hs : ModeSafeSeq t = true)
    (orig fmt : Bytes) (mode : Nat) (stale : Option File) (umask : Nat)
    (k : Nat) (mid : Option Nat) (pw : Nat → Nat) (link : Option Nat := none) :
    ∃ f, (runUntilCrash fmt t k mid pw (init orig mode stale umask link)).path = some f ∧ f.mode = mode :=
  absRunM_crash_mode orig fmt mode t _ _ k mid pw (rel_init orig fmt mode stale umask link) hs

end GopModel.FS
