/-
Lemmas for M4 (1/3): result monad, environments, agreement of environments up to compiler
temporaries.  Core Lean only.
-/
import GopModel.Model.Lower
namespace GopModel.Mini

/-! ### Res -/

@[simp] theorem Res.bind_ok (a : α) (env : Env) (tr : Trace) (f : α → Sem β) :
    (Res.ok a env tr).bind f = f a env tr := rfl
@[simp] theorem Res.bind_panic (v : Val) (tr : Trace) (f : α → Sem β) :
    (Res.panic v tr : Res α).bind f = .panic v tr := rfl
@[simp] theorem Res.bind_ret (vs : List Val) (env : Env) (tr : Trace) (f : α → Sem β) :
    (Res.ret vs env tr : Res α).bind f = .ret vs env tr := rfl
@[simp] theorem Res.bind_timeout (tr : Trace) (f : α → Sem β) :
    (Res.timeout tr : Res α).bind f = .timeout tr := rfl
@[simp] theorem Res.bind_stuck (f : α → Sem β) : (Res.stuck : Res α).bind f = .stuck := rfl

@[simp] theorem Res.pop_ok (a : α) (env : Env) (tr : Trace) :
    (Res.ok a env tr).pop = .ok a env.tail tr := rfl
@[simp] theorem Res.pop_ret (vs : List Val) (env : Env) (tr : Trace) :
    (Res.ret vs env tr : Res α).pop = .ret vs env.tail tr := rfl
@[simp] theorem Res.pop_panic (v : Val) (tr : Trace) : (Res.panic v tr : Res α).pop = .panic v tr := rfl
@[simp] theorem Res.pop_timeout (tr : Trace) : (Res.timeout tr : Res α).pop = .timeout tr := rfl
@[simp] theorem Res.pop_stuck : (Res.stuck : Res α).pop = .stuck := rfl

/-- Replace the environment carried by a result. -/
def Res.withEnv : Res α → Env → Res α
  | .ok a _ tr, e => .ok a e tr
  | .ret vs _ tr, e => .ret vs e tr
  | .panic v tr, _ => .panic v tr
  | .timeout tr, _ => .timeout tr
  | .stuck, _ => .stuck

@[simp] theorem Res.withEnv_ok (a : α) (env e : Env) (tr : Trace) :
    (Res.ok a env tr).withEnv e = .ok a e tr := rfl
@[simp] theorem Res.withEnv_ret (vs : List Val) (env e : Env) (tr : Trace) :
    (Res.ret vs env tr : Res α).withEnv e = .ret vs e tr := rfl
@[simp] theorem Res.withEnv_panic (v : Val) (tr : Trace) (e : Env) :
    (Res.panic v tr : Res α).withEnv e = .panic v tr := rfl
@[simp] theorem Res.withEnv_timeout (tr : Trace) (e : Env) :
    (Res.timeout tr : Res α).withEnv e = .timeout tr := rfl
@[simp] theorem Res.withEnv_stuck (e : Env) : (Res.stuck : Res α).withEnv e = .stuck := rfl

theorem Res.withEnv_withEnv (r : Res α) (e1 e2 : Env) : (r.withEnv e1).withEnv e2 = r.withEnv e2 := by
  cases r <;> rfl

theorem Res.pop_withEnv_cons (r : Res α) (f : Frame) (e : Env) :
    (r.withEnv (f :: e)).pop = r.withEnv e := by
  cases r <;> rfl

theorem Res.withEnv_pop (r : Res α) (e : Env) : r.pop.withEnv e = r.withEnv e := by
  cases r <;> rfl

/-! ### frames and environments -/

theorem isTmp_gop_ret : isTmp "_gop_ret" = true := by decide
theorem isTmp_gop_ok : isTmp "_gop_ok" = true := by decide
theorem isTmp_gop_err : isTmp "_gop_err" = true := by decide

@[simp] theorem Frame.get_nil (x : String) : Frame.get [] x = none := rfl
@[simp] theorem Frame.has_nil (x : String) : Frame.has [] x = false := rfl

theorem Frame.get_cons (y : String) (w : Val) (r : Frame) (x : String) :
    Frame.get ((y, w) :: r) x = if x = y then some w else Frame.get r x := by
  unfold Frame.get
  by_cases h : x = y
  · subst h; simp [List.lookup]
  · have : (x == y) = false := by simpa using h
    simp [List.lookup, this, h]

theorem Frame.has_eq (f : Frame) (x : String) : f.has x = (f.get x).isSome := rfl

theorem Frame.has_false_iff (f : Frame) (x : String) : f.has x = false ↔ f.get x = none := by
  unfold Frame.has Frame.get
  cases List.lookup x f <;> simp

theorem Frame.get_set_same : ∀ (f : Frame) (x : String) (v : Val), f.has x = true →
    (f.set x v).get x = some v
  | [], x, v, h => by simp at h
  | (y, w) :: r, x, v, h => by
    by_cases hy : y = x
    · subst hy; simp [Frame.set, Frame.get_cons]
    · have hxy : ¬ x = y := fun e => hy e.symm
      have hr : Frame.has r x = true := by
        rw [Frame.has_eq, Frame.get_cons] at h
        simpa [hxy, Frame.has_eq] using h
      simp [Frame.set, hy, Frame.get_cons, hxy, Frame.get_set_same r x v hr]

theorem Frame.get_set_other : ∀ (f : Frame) (x y : String) (v : Val), y ≠ x →
    (f.set x v).get y = f.get y
  | [], _, _, _, _ => rfl
  | (z, w) :: r, x, y, v, h => by
    by_cases hz : z = x
    · subst hz
      have : ¬ y = z := h
      simp [Frame.set, Frame.get_cons, this]
    · simp [Frame.set, hz, Frame.get_cons, Frame.get_set_other r x y v h]

theorem Frame.has_set (f : Frame) (x y : String) (v : Val) : (f.set x v).has y = f.has y := by
  by_cases h : y = x
  · subst h
    cases hh : f.has y
    · -- set on a frame without the name changes nothing
      have : ∀ (g : Frame), g.has y = false → g.set y v = g := by
        intro g
        induction g with
        | nil => intro _; rfl
        | cons p r ih =>
          obtain ⟨z, w⟩ := p
          intro hg
          rw [Frame.has_false_iff, Frame.get_cons] at hg
          by_cases hz : y = z
          · simp [hz] at hg
          · have hz' : ¬ z = y := fun e => hz e.symm
            simp only [hz, if_false] at hg
            simp [Frame.set, hz', ih ((Frame.has_false_iff _ _).2 hg)]
      rw [this f hh, hh]
    · rw [Frame.has_eq, Frame.get_set_same f y v hh]; rfl
  · rw [Frame.has_eq, Frame.get_set_other f x y v h, ← Frame.has_eq]

@[simp] theorem Env.get_nil (x : String) : Env.get [] x = none := rfl

theorem Env.get_cons (f : Frame) (r : Env) (x : String) :
    Env.get (f :: r) x = match f.get x with
      | some v => some v
      | none => Env.get r x := rfl

theorem Env.get_cons_of_none (f : Frame) (r : Env) (x : String) (h : f.get x = none) :
    Env.get (f :: r) x = Env.get r x := by rw [Env.get_cons, h]

@[simp] theorem Env.get_cons_nil (r : Env) (x : String) : Env.get ([] :: r) x = Env.get r x := rfl

/-- Total version of assignment: update the innermost binding of `x` (no-op when unbound). -/
def Env.upd : Env → String → Val → Env
  | [], _, _ => []
  | f :: r, x, v => if f.has x then f.set x v :: r else f :: Env.upd r x v

theorem Env.upd_cons_of_none (f : Frame) (r : Env) (x : String) (v : Val) (h : f.get x = none) :
    Env.upd (f :: r) x v = f :: Env.upd r x v := by
  have : f.has x = false := (Frame.has_false_iff f x).2 h
  simp [Env.upd, this]

@[simp] theorem Env.upd_cons_nil (r : Env) (x : String) (v : Val) :
    Env.upd ([] :: r) x v = [] :: Env.upd r x v := by simp [Env.upd]

theorem Env.set_eq_upd : ∀ (e : Env) (x : String) (v w : Val), e.get x = some w →
    e.set x v = some (e.upd x v)
  | [], _, _, _, h => by simp at h
  | f :: r, x, v, w, h => by
    cases hf : f.has x
    · have hn : f.get x = none := (Frame.has_false_iff f x).1 hf
      rw [Env.get_cons_of_none f r x hn] at h
      simp [Env.set, Env.upd, hf, Env.set_eq_upd r x v w h]
    · simp [Env.set, Env.upd, hf]

theorem Env.get_upd_same : ∀ (e : Env) (x : String) (v w : Val), e.get x = some w →
    (e.upd x v).get x = some v
  | [], _, _, _, h => by simp at h
  | f :: r, x, v, w, h => by
    cases hf : f.has x
    · have hn : f.get x = none := (Frame.has_false_iff f x).1 hf
      rw [Env.get_cons_of_none f r x hn] at h
      simp only [Env.upd, hf, Bool.false_eq_true, if_false]
      rw [Env.get_cons_of_none f _ x hn]
      exact Env.get_upd_same r x v w h
    · simp only [Env.upd, hf, if_true]
      rw [Env.get_cons, Frame.get_set_same f x v hf]

theorem Env.get_upd_other : ∀ (e : Env) (x y : String) (v : Val), y ≠ x →
    (e.upd x v).get y = e.get y
  | [], _, _, _, _ => rfl
  | f :: r, x, y, v, h => by
    cases hf : f.has x
    · simp only [Env.upd, hf, Bool.false_eq_true, if_false]
      rw [Env.get_cons, Env.get_cons, Env.get_upd_other r x y v h]
    · simp only [Env.upd, hf, if_true]
      rw [Env.get_cons, Env.get_cons, Frame.get_set_other f x y v h]

theorem Env.upd_upd : ∀ (e : Env) (x : String) (v w : Val), (e.upd x v).upd x w = e.upd x w
  | [], _, _, _ => rfl
  | f :: r, x, v, w => by
    cases hf : f.has x
    · simp [Env.upd, hf, Env.upd_upd r x v w]
    · have h2 : (f.set x v).has x = true := by rw [Frame.has_set]; exact hf
      have h3 : ∀ (g : Frame), (g.set x v).set x w = g.set x w := by
        intro g
        induction g with
        | nil => rfl
        | cons p t ih =>
          obtain ⟨z, u⟩ := p
          by_cases hz : z = x
          · simp [Frame.set, hz]
          · simp [Frame.set, hz, ih]
      simp [Env.upd, hf, h2, h3]

theorem Frame.set_same_val : ∀ (f : Frame) (x : String) (v : Val), f.get x = some v → f.set x v = f
  | [], _, _, _ => rfl
  | (y, w) :: r, x, v, h => by
    by_cases hy : y = x
    · subst hy
      rw [Frame.get_cons] at h
      simp at h
      simp [Frame.set, h]
    · have hxy : ¬ x = y := fun e => hy e.symm
      rw [Frame.get_cons] at h
      simp only [hxy, if_false] at h
      simp [Frame.set, hy, Frame.set_same_val r x v h]

theorem Env.upd_same_val : ∀ (e : Env) (x : String) (v : Val), e.get x = some v → e.upd x v = e
  | [], _, _, _ => rfl
  | f :: r, x, v, h => by
    cases hf : f.has x
    · have hn : f.get x = none := (Frame.has_false_iff f x).1 hf
      rw [Env.get_cons_of_none f r x hn] at h
      simp [Env.upd, hf, Env.upd_same_val r x v h]
    · have : f.get x = some v := by
        rw [Env.get_cons] at h
        rw [Frame.has_eq] at hf
        cases hg : f.get x with
        | none => rw [hg] at hf; simp at hf
        | some u => rw [hg] at h; simpa using h
      simp [Env.upd, hf, Frame.set_same_val f x v this]

/-! ### agreement up to compiler temporaries -/

/-- The two environments give every non-temporary name the same value. -/
def Agree (e1 e2 : Env) : Prop := ∀ x, isTmp x = false → e1.get x = e2.get x

theorem Agree.refl (e : Env) : Agree e e := fun _ _ => rfl

theorem Agree.push (f : Frame) {e1 e2 : Env} (h : Agree e1 e2) : Agree (f :: e1) (f :: e2) := by
  intro x hx
  rw [Env.get_cons, Env.get_cons, h x hx]

/-- A frame that binds only temporaries is invisible. -/
theorem Agree.push_left (f : Frame) {e1 e2 : Env} (hf : ∀ x, isTmp x = false → f.get x = none)
    (h : Agree e1 e2) : Agree (f :: e1) e2 := by
  intro x hx
  rw [Env.get_cons_of_none f e1 x (hf x hx)]
  exact h x hx

theorem Agree.push_nil {e1 e2 : Env} (h : Agree e1 e2) : Agree ([] :: e1) e2 :=
  Agree.push_left [] (fun _ _ => rfl) h

theorem Agree.upd_left {e1 e2 : Env} (h : Agree e1 e2) (R : String) (hR : isTmp R = true) (v : Val) :
    Agree (e1.upd R v) e2 := by
  intro x hx
  have : x ≠ R := by
    intro e; subst e; rw [hR] at hx; cases hx
  rw [Env.get_upd_other e1 R x v this]
  exact h x hx

theorem Agree.trans {e1 e2 e3 : Env} (h1 : Agree e1 e2) (h2 : Agree e2 e3) : Agree e1 e3 :=
  fun x hx => (h1 x hx).trans (h2 x hx)

theorem Agree.symm {e1 e2 : Env} (h : Agree e1 e2) : Agree e2 e1 := fun x hx => (h x hx).symm

end GopModel.Mini
