/-
M3 lemmas, part 1: the token stream of the printer model without blanks (`toks`), its
independence of `depth`, and its unfolding equations.
-/
import GopModel.Model.ExprSyntax
namespace GopModel.ExprSyntax
open Gen

/-- Tokens of an item list: blanks dropped (`bad` items are dropped too; see `hasBad`). -/
def strip : List PTok → List Tok
  | [] => []
  | .t x :: r => x :: strip r
  | .blank :: r => strip r
  | .bad :: r => strip r

@[simp] theorem strip_nil : strip [] = [] := rfl
@[simp] theorem strip_t (x : Tok) (r : List PTok) : strip (.t x :: r) = x :: strip r := rfl
@[simp] theorem strip_blank (r : List PTok) : strip (.blank :: r) = strip r := rfl
@[simp] theorem strip_bad (r : List PTok) : strip (.bad :: r) = strip r := rfl
@[simp] theorem strip_pop (o : Op) (r : List PTok) : strip (pop o :: r) = .op o :: strip r := rfl

@[simp] theorem strip_append (a b : List PTok) : strip (a ++ b) = strip a ++ strip b := by
  induction a with
  | nil => rfl
  | cons h t ih => cases h <;> simp [ih]

@[simp] theorem strip_optBlank (b : Bool) : strip (optBlank b) = [] := by
  cases b <;> rfl

theorem strip_identToks_eq (l : List Str) :
    strip (identToks l) = strip (identToks l) := rfl

mutual
theorem strip_printE_depth : ∀ (e : XExpr) (p d d' : Nat),
    strip (printE e p d) = strip (printE e p d')
  | .ident _, _, _, _ => by simp [printE]
  | .lit _ _, _, _, _ => by simp [printE]
  | .numUnit _ _ _, _, _, _ => by simp [printE]
  | .binary op x y, p, d, d' => by
    simp only [printE]
    by_cases h : prec op < p <;>
      simp [h, strip_printE_depth x (prec op) _ 1, strip_printE_depth y (prec op + 1) _ 1]
  | .unary op x, p, d, d' => by
    simp only [printE]
    split <;> simp [strip_printE_depth x unaryPrec d d']
  | .star x, p, d, d' => by simp [printE]
  | .paren x, p, d, d' => by
    simp only [printE]
    split
    · exact strip_printE_depth x lowestPrec d d'
    · simp [strip_printE_depth x lowestPrec (reduceDepth d) (reduceDepth d')]
  | .selector x s, p, d, d' => by simp [printE, strip_printE_depth x highestPrec d d']
  | .index x i, p, d, d' => by simp [printE, strip_printE_depth i lowestPrec (d + 1) (d' + 1)]
  | .slice x lo hi mx s3, p, d, d' => by
    cases mx with
    | none =>
      simp [printE, strip_printO_depth lo lowestPrec (d + 1) (d' + 1), strip_printO_depth hi lowestPrec (d + 1) (d' + 1)]
    | some m =>
      simp [printE, strip_printO_depth lo lowestPrec (d + 1) (d' + 1), strip_printO_depth hi lowestPrec (d + 1) (d' + 1),
        strip_printE_depth m lowestPrec (d + 1) (d' + 1)]
  | .call f args ell cmd, p, d, d' => by
    simp only [printE]
    simp only [strip_append]
    rw [strip_printE_depth f highestPrec _ 1, strip_printL_depth args _ 1]
    rw [strip_printE_depth f highestPrec (if args.length > 1 then d' + 1 else d') 1,
      strip_printL_depth args (if cmd = true then (if args.length > 1 then d' + 1 else d') + 1 else (if args.length > 1 then d' + 1 else d')) 1]
  | .composite ty elts, p, d, d' => by simp [printE, strip_printO_depth ty highestPrec d d']
  | .kv k v, _, _, _ => by simp [printE]
  | .sliceLit elts, p, d, d' => by simp [printE, strip_printL_depth elts (d + 1) (d' + 1)]
  | .lambda lhs _ rhs _, _, _, _ => by cases lhs <;> cases rhs <;> simp [printE]
  | .errWrap _ _ dflt, _, _, _ => by cases dflt <;> simp [printE]
  | .env _ _, _, _, _ => by simp [printE]
  | .typeAssert x ty, p, d, d' => by cases ty <;> simp [printE, strip_printE_depth x highestPrec d d']
  | .range _ _ e3, _, _, _ => by cases e3 <;> simp [printE]
  | .tuple _ _, _, _, _ => by simp [printE]
  | .bad, _, _, _ => by simp [printE]
theorem strip_printL_depth : ∀ (l : List XExpr) (d d' : Nat),
    strip (printL l d) = strip (printL l d')
  | [], _, _ => by simp [printL]
  | [e], d, d' => by simp [printL, strip_printE_depth e lowestPrec d d']
  | e :: e2 :: r, d, d' => by
    simp [printL, strip_printE_depth e lowestPrec d d', strip_printL_depth (e2 :: r) d d']
theorem strip_printO_depth : ∀ (o : Option XExpr) (p d d' : Nat),
    strip (printO o p d) = strip (printO o p d')
  | none, _, _, _ => by simp [printO]
  | some e, p, d, d' => by simp [printO, strip_printE_depth e p d d']
end

/-! ## `toks`: the printed token stream -/

/-- Tokens printed for `e` in a context of precedence `p` (independent of `depth`). -/
def toks (e : XExpr) (p : Nat) : List Tok := strip (printE e p 1)
def toksL (l : List XExpr) : List Tok := strip (printL l 1)

theorem strip_printE (e : XExpr) (p d : Nat) : strip (printE e p d) = toks e p :=
  strip_printE_depth e p d 1
theorem strip_printL (l : List XExpr) (d : Nat) : strip (printL l d) = toksL l :=
  strip_printL_depth l d 1

/-- Parenthesised token list. -/
def wrapT (b : Bool) (l : List Tok) : List Tok :=
  if b then .op .LPAREN :: l ++ [.op .RPAREN] else l

theorem toks_ident (s : Str) (p : Nat) : toks (.ident s) p = [.ident s] := by simp [toks, printE]
theorem toks_lit (k : LitKind) (v : Str) (p : Nat) : toks (.lit k v) p = [.lit k v] := by simp [toks, printE]
theorem toks_numUnit (k : LitKind) (v u : Str) (p : Nat) :
    toks (.numUnit k v u) p = [.lit k v, .unit u] := by simp [toks, printE]
theorem toks_env (s : Str) (b : Bool) (p : Nat) :
    toks (.env s b) p = if b then [.op .ENV, .op .LBRACE, .ident s, .op .RBRACE] else [.op .ENV, .ident s] := by
  cases b <;> simp [toks, printE, pop]

theorem toks_binary (op : Op) (x y : XExpr) (p : Nat) :
    toks (.binary op x y) p =
      wrapT (decide (prec op < p)) (toks x (prec op) ++ .op op :: toks y (prec op + 1)) := by
  rw [toks]; simp only [printE, wrapT]
  by_cases h : prec op < p <;> simp [h, strip_printE]

theorem toks_unary (op : Op) (x : XExpr) (p : Nat) :
    toks (.unary op x) p = wrapT (decide (unaryPrec < p)) (.op op :: toks x unaryPrec) := by
  rw [toks]; simp only [printE, wrapT]
  by_cases h : unaryPrec < p <;> simp [h, strip_printE]

theorem toks_star (x : XExpr) (p : Nat) :
    toks (.star x) p = wrapT (decide (unaryPrec < p)) (.op .MUL :: toks x unaryPrec) := by
  rw [toks]; simp only [printE, wrapT]
  by_cases h : unaryPrec < p <;> simp [h, strip_printE]

theorem toks_paren (x : XExpr) (p : Nat) :
    toks (.paren x) p = if isParenNode x then toks x lowestPrec else wrapT true (toks x lowestPrec) := by
  rw [toks]; simp only [printE, wrapT]
  split <;> simp [strip_printE]

theorem toks_selector (x : XExpr) (s : Str) (p : Nat) :
    toks (.selector x s) p = toks x highestPrec ++ [.op .PERIOD, .ident s] := by
  rw [toks]; simp [printE, strip_printE, pop]

theorem toks_index (x i : XExpr) (p : Nat) :
    toks (.index x i) p = toks x highestPrec ++ .op .LBRACK :: (toks i lowestPrec ++ [.op .RBRACK]) := by
  rw [toks]; simp [printE, strip_printE]

theorem toks_call (f : XExpr) (args : List XExpr) (ell : Bool) (p : Nat) :
    toks (.call f args ell false) p =
      toks f highestPrec ++ .op .LPAREN :: (toksL args ++ ((if ell then [.op .ELLIPSIS] else []) ++ [.op .RPAREN])) := by
  rw [toks]; cases ell <;> simp [printE, strip_printE, strip_printL, pop]

theorem toks_errWrap_none (x : XExpr) (tok : Op) (p : Nat) :
    toks (.errWrap x tok none) p = toks x highestPrec ++ [.op tok] := by
  rw [toks]; simp [printE, strip_printE, isSome', pop]

theorem toks_errWrap_some (x d : XExpr) (tok : Op) (p : Nat) :
    toks (.errWrap x tok (some d)) p =
      wrapT (decide (unaryPrec < p)) (toks x highestPrec ++ .op tok :: .op .COLON :: toks d unaryPrec) := by
  rw [toks]; simp only [printE, wrapT, isSome']
  by_cases h : unaryPrec < p <;> simp [h, strip_printE, pop]

theorem toksL_nil : toksL [] = [] := by simp [toksL, printL]
theorem toksL_one (e : XExpr) : toksL [e] = toks e lowestPrec := by rw [toksL]; simp [printL, strip_printE]
theorem toksL_cons2 (e e2 : XExpr) (r : List XExpr) :
    toksL (e :: e2 :: r) = toks e lowestPrec ++ .op .COMMA :: toksL (e2 :: r) := by
  rw [toksL]; simp [printL, strip_printE, strip_printL, pop]

theorem toks_typeAssert_some (x t : XExpr) (p : Nat) :
    toks (.typeAssert x (some t)) p =
      toks x highestPrec ++ .op .PERIOD :: .op .LPAREN :: (toks t lowestPrec ++ [.op .RPAREN]) := by
  rw [toks]; simp [printE, strip_printE, pop]

theorem toks_typeAssert_none (x : XExpr) (p : Nat) :
    toks (.typeAssert x none) p =
      toks x highestPrec ++ [.op .PERIOD, .op .LPAREN, .kw kwType, .op .RPAREN] := by
  rw [toks]; simp [printE, strip_printE, pop]

/-- Tokens of the parameter part of a lambda. -/
def lhsT (lhs : List Str) (lp : Bool) : List Tok :=
  if lp then .op .LPAREN :: (strip (identToks lhs) ++ [.op .RPAREN])
  else match lhs with
    | [] => []
    | s :: _ => [.ident s]

/-- Tokens of the result part of a lambda. -/
def rhsT (rhs : List XExpr) (rp : Bool) : List Tok :=
  if rp then .op .LPAREN :: (toksL rhs ++ [.op .RPAREN])
  else match rhs with
    | [] => []
    | e :: _ => toks e lowestPrec

theorem toks_lambda (lhs : List Str) (lp : Bool) (rhs : List XExpr) (rp : Bool) (p : Nat) :
    toks (.lambda lhs lp rhs rp) p =
      wrapT (decide (lowestPrec < p)) (lhsT lhs lp ++ .op .DRARROW :: rhsT rhs rp) := by
  rw [toks]
  cases lhs <;> cases rhs <;> cases lp <;> cases rp <;>
    by_cases h : lowestPrec < p <;>
    simp [printE, wrapT, lhsT, rhsT, h, strip_printE, strip_printL, pop]

theorem strip_identToks_nil : strip (identToks []) = [] := rfl
theorem strip_identToks_one (s : Str) : strip (identToks [s]) = [.ident s] := rfl
theorem strip_identToks_cons2 (s s2 : Str) (r : List Str) :
    strip (identToks (s :: s2 :: r)) = .ident s :: .op .COMMA :: strip (identToks (s2 :: r)) := by
  simp [identToks, pop]

end GopModel.ExprSyntax
