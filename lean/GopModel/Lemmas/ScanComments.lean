/-
Lemmas for M1, part 4: comments — `scanComment` (xgo), `updateLineInfo`, the tpl comment
scanners: advance, no panic, literal = source text up to carriage returns.
-/
import GopModel.Lemmas.ScanLoops2
namespace GopModel.Scan

variable {src : Array UInt8}

/-- the text without carriage returns -/
def noCR (l : List UInt8) : List UInt8 := l.filter (· ≠ 0x0D)

theorem noCR_append (a b : List UInt8) : noCR (a ++ b) = noCR a ++ noCR b := by
  unfold noCR; simp

theorem stripCRAux_noCR (c : Bool) : ∀ (l acc : List UInt8),
    noCR (stripCRAux c l acc) = noCR acc.reverse ++ noCR l := by
  intro l
  induction l with
  | nil => intro acc; simp [stripCRAux, noCR]
  | cons x rest ih =>
    intro acc
    simp only [stripCRAux]
    split
    · rename_i hx
      rw [ih]
      simp only [List.reverse_cons, noCR_append]
      simp [noCR, hx]
    · rename_i hx
      have hx' : x = 0x0D := by simpa using hx
      split
      · rw [ih]
        simp only [List.reverse_cons, noCR_append]
        simp [noCR, hx']
      · rw [ih]
        simp [noCR, hx']

theorem stripCR_noCR (l : List UInt8) (c : Bool) : noCR (stripCR l c) = noCR l := by
  unfold stripCR; rw [stripCRAux_noCR]; simp [noCR]

theorem stripCRAux_id (c : Bool) : ∀ (l acc : List UInt8), (∀ b ∈ l, b ≠ 0x0D) →
    stripCRAux c l acc = acc.reverse ++ l := by
  intro l
  induction l with
  | nil => intro acc _; simp [stripCRAux]
  | cons x rest ih =>
    intro acc h
    have hx : x ≠ 0x0D := h x (by simp)
    simp only [stripCRAux, hx, ne_eq, not_false_eq_true, if_true]
    rw [ih _ (fun b hb => h b (by simp [hb]))]
    simp

theorem stripCR_id (l : List UInt8) (c : Bool) (h : ∀ b ∈ l, b ≠ 0x0D) : stripCR l c = l := by
  unfold stripCR; rw [stripCRAux_id c l [] h]; simp

theorem stripCRAll_noCR (l : List UInt8) : noCR (stripCRAll l) = noCR l := by
  unfold stripCRAll noCR; simp

theorem stripCRAll_id (l : List UInt8) (h : ∀ b ∈ l, b ≠ 0x0D) : stripCRAll l = l := by
  unfold stripCRAll
  apply List.filter_eq_self.mpr
  intro b hb; simpa using h b hb

theorem noCR_dropLast (l : List UInt8) (h : l.getLast? = some 0x0D) : noCR l.dropLast = noCR l := by
  have : l = l.dropLast ++ [0x0D] := by
    cases hl : l with
    | nil => simp [hl] at h
    | cons a t =>
      rw [← hl]
      have hne : l ≠ [] := by simp [hl]
      have := List.dropLast_concat_getLast hne
      rw [List.getLast?_eq_some_getLast hne] at h
      simp only [Option.some.injEq] at h
      rw [h] at this
      exact this.symm
  conv => rhs; rw [this]
  rw [noCR_append]; simp [noCR]

/-- CR-insensitive equality of a literal with a source span, exact when the span has no CR -/
structure TextCR (lit span : List UInt8) : Prop where
  noCR : noCR lit = noCR span
  exact : (∀ b ∈ span, b ≠ 0x0D) → lit = span

theorem TextCR.rfl' (l : List UInt8) : TextCR l l := ⟨rfl, fun _ => rfl⟩

theorem TextCR.stripCR {lit span : List UInt8} (h : TextCR lit span) (c : Bool) : TextCR (stripCR lit c) span := by
  refine ⟨by rw [stripCR_noCR]; exact h.noCR, fun hs => ?_⟩
  have := h.exact hs
  rw [this]; exact stripCR_id _ _ hs

theorem TextCR.stripCRAll {lit span : List UInt8} (h : TextCR lit span) : TextCR (stripCRAll lit) span := by
  refine ⟨by rw [stripCRAll_noCR]; exact h.noCR, fun hs => ?_⟩
  have := h.exact hs
  rw [this]; exact stripCRAll_id _ hs

theorem TextCR.dropLast (l : List UInt8) (h : l.getLast? = some 0x0D) : TextCR l.dropLast l := by
  refine ⟨noCR_dropLast l h, fun hs => ?_⟩
  exfalso
  have hm : (0x0D : UInt8) ∈ l := List.mem_of_getLast? h
  exact hs _ hm rfl

/-! ### counting carriage returns: every counted CR is a consumed byte -/

theorem lineCommentLoop_count : ∀ (fuel : Nat) (st : St) (n : Nat), Inv src st →
    src.size - st.off < fuel →
    (lineCommentLoop src fuel st n).2 + st.off ≤ (lineCommentLoop src fuel st n).1.off + n := by
  intro fuel
  induction fuel with
  | zero => intro st _ _ h; omega
  | succ f ih =>
    intro st n hi hf
    simp only [lineCommentLoop]
    split
    · rename_i hc
      have := ih (next src st) (if st.ch = 0x0D then n + 1 else n) (next_inv hi) (loop_step hi hc.2 hf)
      have h1 := next_off_lt hi hc.2
      by_cases hcr : st.ch = 0x0D <;> simp only [hcr, if_true, if_false] at this ⊢ <;> omega
    · simp only []; omega

theorem blockCommentLoop_count : ∀ (fuel : Nat) (st : St) (n nl : Nat), Inv src st →
    src.size - st.off < fuel →
    (blockCommentLoop src fuel st n nl).numCR + st.off ≤ (blockCommentLoop src fuel st n nl).st.off + n := by
  intro fuel
  induction fuel with
  | zero => intro st _ _ _ h; omega
  | succ f ih =>
    intro st n nl hi hf
    simp only [blockCommentLoop]
    split
    · simp only; omega
    · rename_i hc
      have h1 := next_off_lt hi hc
      split
      · simp only
        have := next_off_le (next_inv hi)
        split <;> omega
      · have := ih (next src st) (if st.ch = 0x0D then n + 1 else n) (if st.ch = 0x0A ∧ nl = 0 then st.off else nl)
          (next_inv hi) (loop_step hi hc hf)
        by_cases hcr : st.ch = 0x0D <;> simp only [hcr, if_true, if_false] at this ⊢ <;> omega

/-- a terminated general comment ends in `*/`, and the `*` was read inside the loop -/
theorem blockCommentLoop_term : ∀ (fuel : Nat) (st : St) (n nl : Nat), Inv src st →
    src.size - st.off < fuel → (blockCommentLoop src fuel st n nl).terminated = true →
    st.off + 2 ≤ (blockCommentLoop src fuel st n nl).st.off ∧
      byteAt src ((blockCommentLoop src fuel st n nl).st.off - 2) = 0x2A := by
  intro fuel
  induction fuel with
  | zero => intro st _ _ _ h; omega
  | succ f ih =>
    intro st n nl hi hf
    simp only [blockCommentLoop]
    split
    · intro h; simp at h
    · rename_i hc
      split
      · rename_i h2
        intro _
        simp only
        have hstar : st.ch < 0x80 := by omega
        have hb := (hi.ascii hstar).1
        have e1 := next_off_ascii hi hstar
        have hsl : (next src st).ch < 0x80 := by omega
        have e2 := next_off_ascii (next_inv hi) hsl
        rw [e2, e1]
        refine ⟨by omega, ?_⟩
        have : st.off + 1 + 1 - 2 = st.off := by omega
        rw [this, hb]; exact h2.1
      · intro ht
        have := ih _ _ _ (next_inv hi) (loop_step hi hc hf) ht
        have h1 := next_off_lt hi hc
        exact ⟨by omega, this.2⟩

/-! ### slices and bytes -/

theorem slice_getElem? {a b k : Nat} (h1 : a + k < b) (h2 : b ≤ src.size) :
    (slice src a b)[k]? = some src[a + k] := by
  unfold slice
  rw [List.getElem?_take]
  have : k < b - a := by omega
  simp only [this, if_true]
  rw [List.getElem?_drop]
  simp [Array.getElem?_toList, Array.getElem?_eq_getElem (show a + k < src.size by omega)]

theorem slice_getElem?_byte {a b k : Nat} {x : UInt8} (h1 : a + k < b) (h2 : b ≤ src.size)
    (h : (slice src a b)[k]? = some x) : byteAt src (a + k) = x.toNat := by
  rw [slice_getElem? h1 h2] at h
  simp only [Option.some.injEq] at h
  rw [byteAt_eq (by omega), h]


/-! ### updateLineInfo, scanComment -/

/-- `updateLineInfo` only reports errors (its slicing cannot go out of range on a comment text
that starts with `//line ` or `/*line ` and, in the second case, ends with `*/`) -/
theorem updateLineInfo_same (st : St) (offs : Nat) (text0 : List UInt8) (h7 : 7 ≤ text0.length)
    (hblock : text0[1]? = some 0x2A → 9 ≤ text0.length) : SameBut st (updateLineInfo st offs text0) := by
  unfold updateLineInfo
  have h2 : 1 < text0.length := by omega
  rw [List.getElem?_eq_getElem h2]
  simp only []
  have hA : ¬ (text0[1] = 0x2A ∧ text0.length < 2) := by omega
  have hB : ¬ ((if text0[1] = 0x2A then text0.take (text0.length - 2) else text0).length < 7) := by
    split
    · rename_i hc
      have := hblock (by rw [List.getElem?_eq_getElem h2, hc])
      simp only [List.length_take]; omega
    · omega
  rw [if_neg hA, if_neg hB]
  repeat' split
  all_goals first | exact SameBut.rfl' _ | exact SameBut.err _ _ _


/-- the byte under the cursor is `ch` when `ch` is ASCII; it is ≥ 0x80 for other runes -/
theorem Inv.byte_ne {st : St} (hi : Inv src st) {c : Nat} (hc : c < 0x80) (hne : st.ch ≠ c)
    (he : st.ch ≠ eofCh) : byteAt src st.off ≠ c := by
  by_cases hlt : st.ch < 0x80
  · rw [(hi.ascii hlt).1]; exact hne
  · have := hi.nonascii (by omega) he; omega

/-- bytes 2..6 of a text that continues with "line " after two bytes -/
theorem linePrefix_bytes {l : List UInt8} (h : linePrefix.isPrefixOf (l.drop 2) = true) :
    7 ≤ l.length ∧ ∀ k, 2 ≤ k → k < 7 → ∃ x : UInt8, l[k]? = some x ∧ x ≠ 0x2A := by
  rw [List.isPrefixOf_iff_prefix] at h
  obtain ⟨t, ht⟩ := h
  have hlen : (l.drop 2).length = 5 + t.length := by rw [← ht]; simp [linePrefix]; omega
  have hl : 7 ≤ l.length := by simp only [List.length_drop] at hlen; omega
  refine ⟨hl, ?_⟩
  intro k h2 h7
  have e : l[k]? = (l.drop 2)[k - 2]? := by
    rw [List.getElem?_drop]; congr 1; omega
  rw [e, ← ht]
  have hk : k - 2 < linePrefix.length := by simp [linePrefix]; omega
  rw [List.getElem?_append_left hk]
  have : k - 2 = 0 ∨ k - 2 = 1 ∨ k - 2 = 2 ∨ k - 2 = 3 ∨ k - 2 = 4 := by omega
  rcases this with h | h | h | h | h <;> rw [h] <;> simp [linePrefix]

/-- facts about the result of a comment scanner started behind the first byte of the comment -/
structure CommentOK (src : Array UInt8) (st : St) (c : CommentRes) : Prop where
  adv : Adv src st c.st
  text : TextCR c.lit (slice src (st.off - 1) c.st.off)

/-- the three loops: advance, every counted CR is a consumed byte, and a terminated general
comment ends in `*/` at least three bytes behind its second byte -/
theorem commentLoops_ok (fuel : Nat) (st : St) (hi : Inv src st) (hf : src.size - st.off < fuel) :
    Adv src st (commentLoops .xgo src fuel st).st ∧
    (commentLoops .xgo src fuel st).numCR + st.off ≤ (commentLoops .xgo src fuel st).st.off ∧
    ((commentLoops .xgo src fuel st).terminated = true → byteAt src st.off = 0x2A →
      st.off + 3 ≤ (commentLoops .xgo src fuel st).st.off ∧
      byteAt src ((commentLoops .xgo src fuel st).st.off - 2) = 0x2A) := by
  unfold commentLoops
  simp only []
  split
  · rename_i hc
    have hne : st.ch ≠ eofCh := lt_ne_eof (by omega)
    have e1 := next_off_ascii hi (show st.ch < 0x80 by omega)
    have hf' : src.size - (next src st).off < fuel := by omega
    refine ⟨(Adv.ofNext hi).trans (lineCommentLoop_adv fuel _ 0 (next_inv hi) hf'), ?_, ?_⟩
    · have := lineCommentLoop_count (src := src) fuel (next src st) 0 (next_inv hi) hf'
      simp only; omega
    · intro _ hb
      have := (hi.ascii (show st.ch < 0x80 by omega)).1
      omega
  · split
    · rename_i hns hc
      have hstar : st.ch = 0x2A := by simpa using hc
      have hne : st.ch ≠ eofCh := lt_ne_eof (by omega)
      have e1 := next_off_ascii hi (show st.ch < 0x80 by omega)
      have hf' : src.size - (next src st).off < fuel := by omega
      have ha := (Adv.ofNext hi).trans (blockCommentLoop_adv fuel _ 0 0 (next_inv hi) hf')
      have hcnt := blockCommentLoop_count (src := src) fuel (next src st) 0 0 (next_inv hi) hf'
      split
      · rename_i ht
        refine ⟨ha, by omega, ?_⟩
        intro _ _
        have := blockCommentLoop_term (src := src) fuel (next src st) 0 0 (next_inv hi) hf' ht
        exact ⟨by omega, this.2⟩
      · rename_i ht
        refine ⟨ha.withError _ _, by simp only [error_off]; omega, ?_⟩
        intro h; simp only at h; exact absurd h ht
    · rename_i hns hc
      have hnstar : st.ch ≠ 0x2A := by intro h; exact hc (Or.inr h)
      refine ⟨lineCommentLoop_adv fuel _ 0 hi hf, ?_, ?_⟩
      · have := lineCommentLoop_count (src := src) fuel st 0 hi hf
        simp only; omega
      · intro _ hb
        exfalso
        by_cases he : st.ch = eofCh
        · have := hi.eof he
          unfold byteAt at hb
          simp [this] at hb
        · exact hi.byte_ne (by decide) hnstar he hb

theorem commentStrip1_ok (numCR : Nat) (lit0 : List UInt8) (h : numCR + 1 ≤ lit0.length) :
    TextCR (commentStrip1 numCR lit0).1 lit0 ∧
      (commentStrip1 numCR lit0).2 + 1 ≤ (commentStrip1 numCR lit0).1.length ∧
      ((commentStrip1 numCR lit0).1 = lit0 ∨
        ((commentStrip1 numCR lit0).1 = lit0.dropLast ∧ lit0[1]? = some (0x2F : UInt8))) := by
  unfold commentStrip1
  split
  · rename_i hc
    exact ⟨TextCR.dropLast _ hc.2.2.2, by simp only [List.length_dropLast]; omega, Or.inr ⟨rfl, hc.2.2.1⟩⟩
  · exact ⟨TextCR.rfl' _, by omega, Or.inl rfl⟩

/-- the line-directive check only reports errors, provided a general comment with the
"line " prefix is long enough to lop off its `*/` -/
theorem commentDirective_same (st : St) (offs : Nat) (lit1 : List UInt8) (t : Bool)
    (hblock : t = true → lit1[1]? = some 0x2A → linePrefix.isPrefixOf (lit1.drop 2) = true → 9 ≤ lit1.length) :
    SameBut st (commentDirective .xgo st offs lit1 t) := by
  unfold commentDirective
  split
  · rename_i ht
    split
    · rename_i h2
      have h2' : 2 ≤ lit1.length := by simpa using h2
      rw [List.getElem?_eq_getElem (show 1 < lit1.length by omega)]
      simp only []
      split
      · rename_i hcond
        have hp := linePrefix_bytes hcond.2
        apply updateLineInfo_same _ _ _ hp.1
        intro hstar
        exact hblock ht hstar hcond.2
      · exact SameBut.rfl' _
    · exact SameBut.rfl' _
  · exact SameBut.rfl' _

theorem commentStripCR_ok (st : St) (numCR : Nat) (lit1 : List UInt8) (nl : Nat)
    (h : 0 < numCR → 2 ≤ lit1.length) :
    (commentStripCR st numCR lit1 nl).st = st ∧ TextCR (commentStripCR st numCR lit1 nl).lit lit1 := by
  unfold commentStripCR
  split
  · rename_i hpos
    have := h hpos
    rw [List.getElem?_eq_getElem (show 1 < lit1.length by omega)]
    exact ⟨rfl, (TextCR.rfl' _).stripCR _⟩
  · exact ⟨rfl, TextCR.rfl' _⟩

theorem TextCR.trans {a b c : List UInt8} (h1 : TextCR a b) (h2 : TextCR b c) : TextCR a c := by
  refine ⟨h1.noCR.trans h2.noCR, fun hc => ?_⟩
  have hb := h2.exact hc
  have ha := h1.exact (by rw [hb]; exact hc)
  exact ha.trans hb

theorem scanCommentXG_ok' (fuel : Nat) (st : St) (hi : Inv src st) (hf : src.size - st.off < fuel)
    (h1 : 1 ≤ st.off) : CommentOK src st (scanCommentXG .xgo src fuel st) ∧
      (scanCommentXG .xgo src fuel st).st.off = (commentLoops .xgo src fuel st).st.off := by
  have hsz := hi.off_le_size
  obtain ⟨ha, hcnt, hterm⟩ := commentLoops_ok fuel st hi hf
  unfold scanCommentXG
  have h0 : ¬ st.off = 0 := by omega
  simp only [h0, if_false]
  generalize commentLoops .xgo src fuel st = r at ha hcnt hterm ⊢
  have hle : st.off - 1 ≤ r.st.off := by have := ha.off_le; omega
  have hrs := ha.inv.off_le_size
  rw [sliceP_eq r.st hle hrs]
  simp only []
  have hlen := slice_length (src := src) hle hrs
  have hs1 := commentStrip1_ok r.numCR (slice src (st.off - 1) r.st.off) (by rw [hlen]; omega)
  -- the line directive check
  have hsame := commentDirective_same r.st (st.off - 1) (commentStrip1 r.numCR (slice src (st.off - 1) r.st.off)).1 r.terminated
    (by
      intro ht hstar hpre
      -- a general comment: the closing `*/` lies behind the "line " prefix
      have hp := linePrefix_bytes hpre
      rcases hs1.2.2 with heq | heq
      · rw [heq] at hstar hpre hp ⊢
        have hb1 : byteAt src st.off = 0x2A := by
          have := slice_getElem?_byte (src := src) (a := st.off - 1) (b := r.st.off) (k := 1) (by omega) hrs hstar
          have e : st.off - 1 + 1 = st.off := by omega
          rw [e] at this; rw [this]; rfl
        have ht2 := hterm ht hb1
        rw [hlen]
        -- if the comment were shorter than 9 bytes its `*` would be one of "line "
        by_cases h9 : 9 ≤ r.st.off - (st.off - 1)
        · exact h9
        · exfalso
          have hk : 2 ≤ r.st.off - 2 - (st.off - 1) ∧ r.st.off - 2 - (st.off - 1) < 7 := by omega
          obtain ⟨x, hx, hne⟩ := hp.2 _ hk.1 hk.2
          have := slice_getElem?_byte (src := src) (a := st.off - 1) (b := r.st.off) (k := r.st.off - 2 - (st.off - 1)) (by omega) hrs hx
          have e : st.off - 1 + (r.st.off - 2 - (st.off - 1)) = r.st.off - 2 := by omega
          rw [e, ht2.2] at this
          apply hne
          apply UInt8.toNat_inj.mp
          rw [← this]; rfl
      · -- the final CR was removed: then the second byte is '/', not '*'
        exfalso
        rw [heq.1, List.getElem?_dropLast] at hstar
        split at hstar
        · rw [heq.2] at hstar
          simp at hstar
        · simp at hstar)
  generalize commentStrip1 r.numCR (slice src (st.off - 1) r.st.off) = l at hs1 hsame ⊢
  have hfin := commentStripCR_ok (commentDirective .xgo r.st (st.off - 1) l.1 r.terminated) l.2 l.1 r.nlOffset
    (by intro h; omega)
  generalize commentDirective .xgo r.st (st.off - 1) l.1 r.terminated = st1 at hsame hfin ⊢
  have hadv1 : Adv src st st1 :=
    ⟨ha.inv.congr hsame.ch hsame.off hsame.rdOff, by rw [hsame.off]; exact ha.off_le, hsame.fail.trans ha.fail_eq,
     hsame.semi.trans ha.semi, hsame.paren.trans ha.paren, hsame.unit.trans ha.unit, hsame.nl.trans ha.nl⟩
  refine ⟨⟨by rw [hfin.1]; exact hadv1, ?_⟩, by rw [hfin.1, hsame.off]⟩
  rw [hfin.1, hsame.off]
  exact hfin.2.trans hs1.1

theorem scanCommentXG_ok (fuel : Nat) (st : St) (hi : Inv src st) (hf : src.size - st.off < fuel)
    (h1 : 1 ≤ st.off) : CommentOK src st (scanCommentXG .xgo src fuel st) :=
  (scanCommentXG_ok' fuel st hi hf h1).1

/-- the offset behind an xgo comment is the one the comment loop reached -/
theorem scanCommentXG_off (fuel : Nat) (st : St) (hi : Inv src st) (hf : src.size - st.off < fuel)
    (h1 : 1 ≤ st.off) : (scanCommentXG .xgo src fuel st).st.off = (commentLoops .xgo src fuel st).st.off :=
  (scanCommentXG_ok' fuel st hi hf h1).2


theorem scanCommentTpl_ok (fuel : Nat) (st : St) (hi : Inv src st) (hf : src.size - st.off < fuel)
    (h1 : 1 ≤ st.off) : CommentOK src st (scanCommentTpl src fuel st) := by
  unfold scanCommentTpl
  have h0 : ¬ st.off = 0 := by omega
  simp only [h0, if_false]
  have key : ∀ r : BlockRes, Adv src st r.st →
      CommentOK src st ⟨(sliceP src r.st (st.off - 1) r.st.off).1,
        if 0 < r.numCR then stripCRAll (sliceP src r.st (st.off - 1) r.st.off).2 else (sliceP src r.st (st.off - 1) r.st.off).2, 0⟩ := by
    intro r ha
    rw [sliceP_eq r.st (by have := ha.off_le; omega) ha.inv.off_le_size]
    refine ⟨ha, ?_⟩
    simp only []
    split
    · exact (TextCR.rfl' _).stripCRAll
    · exact TextCR.rfl' _
  split
  · exact key _ ((Adv.ofNext hi).trans (lineCommentLoop_adv fuel _ 0 (next_inv hi) ((Adv.ofNext hi).fuel hf)))
  · have ha := (Adv.ofNext hi).trans (blockCommentLoop_adv fuel _ 0 0 (next_inv hi) ((Adv.ofNext hi).fuel hf))
    split
    · exact key _ ha
    · exact key _ (ha.withError _ _)

theorem scanSharpCommentTpl_ok (fuel : Nat) (st : St) (hi : Inv src st) (hf : src.size - st.off < fuel)
    (h1 : 1 ≤ st.off) : CommentOK src st (scanSharpCommentTpl src fuel st) := by
  unfold scanSharpCommentTpl
  have h0 : ¬ st.off = 0 := by omega
  simp only [h0, if_false]
  have ha := sharpLoop_adv (src := src) fuel st hi hf
  rw [sliceP_eq _ (by have := ha.off_le; omega) ha.inv.off_le_size]
  exact ⟨ha, TextCR.rfl' _⟩

end GopModel.Scan
