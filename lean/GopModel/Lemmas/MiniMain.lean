/-
Lemmas for M4: correctness of `lowerX` on source expressions —
`evalE c (lowerX fn e) = evalE c e` for every source expression `e` (structural induction;
comprehensions through the simulation of MiniSim, `!`/`?:` by unfolding the closure).
Core Lean only.
-/
import GopModel.Lemmas.MiniSim
namespace GopModel.Mini

/-! ### one phrase, nested phrases -/

theorem loops_nil {σ β : Type} (body : σ → Sem (σ ⊕ β)) (s : σ) : Doc.loops [] body s = body s := by
  unfold Doc.loops; rfl

theorem loops_append {σ β : Type} (p : Doc.PhraseSem) (body : σ → Sem (σ ⊕ β)) :
    ∀ (qs : List Doc.PhraseSem), Doc.loops (qs ++ [p]) body = Doc.loops qs (Doc.loops [p] body)
  | [] => by
    funext s
    rw [loops_nil]; rfl
  | q :: qs => by
    funext s
    have ih := loops_append p body qs
    show Doc.loops (q :: (qs ++ [p])) body s = Doc.loops (q :: qs) (Doc.loops [p] body) s
    generalize Doc.loops [p] body = G at ih ⊢
    simp only [Doc.loops]
    rw [ih]

theorem sim_phrase {σ β : Type} {R : String} (hR : isTmp R = true) {enc : σ → Val} {retv : β → List Val}
    (key : Option String) (val : String)
    (hk : ∀ x, key = some x → isTmp x = false) (hv : isTmp val = false)
    {px : Sem Val} (hpx : Good px) {pf : Doc.FilterSem} (hpf : GoodFilter pf)
    (hfx : ∀ x i c, pf = .initCond x i c → isTmp x = false)
    {low : Sem Unit} {body : σ → Sem (σ ⊕ β)} (hb : ∀ s, Good (body s))
    (h : ∀ s, SimAt R enc retv s low (body s)) :
    ∀ s, SimAt R enc retv s (Doc.rangeSem (some (key.getD "_")) (some val) px (filtSem pf low))
      (Doc.loops [⟨key, val, px, pf⟩] body s) := by
  intro s eL eS tr hA hg
  unfold Doc.rangeSem Doc.loops
  simp only
  rw [hpx.resp eL eS tr hA]
  cases hr : px eS tr with
  | ok cv e' tr' =>
    have := hpx.ok_env hr; subst this
    simp only [Res.withEnv_ok, Res.bind_ok]
    cases entriesOf cv with
    | none => simp [SimRes]
    | some es =>
      simp only
      refine sim_range hR (some (key.getD "_")) (some val) (inFrame [] (filtSem pf low))
        (stepS := fun k v s' => inFrame (loopFrame key (some val) k v)
          (Doc.filter pf s' (Doc.loops [] body s'))) ?_ ?_ es s eL e' tr' hA hg
      · intro k v s'
        refine good_inFrame _ (good_filter hpf s' ?_)
        rw [loops_nil]; exact hb s'
      · intro k v s' eL2 eS2 tr2 hA2 hg2
        rw [loopFrame_getD]
        have hfr := loopFrame_get_tmp key val k v R hR hk hv
        show SimRes eL2 R enc retv
          ((filtSem pf low ([] :: loopFrame key (some val) k v :: eL2) tr2).pop.pop)
          ((Doc.filter pf s' (Doc.loops [] body s') (loopFrame key (some val) k v :: eS2) tr2).pop)
        apply simres_spec_pop
        apply simres_pop hfr
        apply simres_pop (f := []) rfl
        rw [loops_nil]
        refine sim_filt hR s' hpf hfx (h s') _ _ tr2 ((hA2.push _).push_nil) ?_
        rw [Env.get_cons_nil, Env.get_cons_of_none _ _ _ hfr]
        exact hg2
  | panic v t => simp [SimRes]
  | ret vs e' t => exact absurd hr (hpx.noret _ _ _ _ _)
  | timeout t => simp [SimRes]
  | stuck => simp [SimRes]

/-! ### closures -/

/-- `closureSem` started from an arbitrary result frame. -/
def closureFrom (rs : List (String × Ty)) (F : Frame) (body : Sem Unit) : Sem Val := fun env tr =>
  match body (F :: env) tr with
  | .ok _ env' tr' => if rs.isEmpty then .ok (.tuple []) env'.tail tr' else .stuck
  | .ret [] env' tr' =>
    (match env' with
     | f :: rest => match readResults rs f with
       | some vs => .ok (pack vs) rest tr'
       | none => .stuck
     | [] => .stuck)
  | .ret vs env' tr' => if vs.length = rs.length then .ok (pack vs) env'.tail tr' else .stuck
  | .panic v tr' => .panic v tr'
  | .timeout tr' => .timeout tr'
  | .stuck => .stuck

theorem closureSem_eq (rs : List (String × Ty)) (body : Sem Unit) :
    closureSem rs body = closureFrom rs (zeroFrame rs) body := rfl

theorem closureFrom_step (rs : List (String × Ty)) (F F1 : Frame) (m rest : Sem Unit) (env : Env)
    (tr : Trace) (hm : m (F :: env) tr = .ok () (F1 :: env) tr) :
    closureFrom rs F (fun e t => (m e t).bind fun _ => rest) env tr = closureFrom rs F1 rest env tr := by
  unfold closureFrom
  simp only [hm, Res.bind_ok]

theorem evalSs_append (c : Ctx) : ∀ (a b : List Stmt),
    evalSs c (a ++ b) = fun env tr => (evalSs c a env tr).bind fun _ => evalSs c b
  | [], b => by funext env tr; simp [evalSs]
  | s :: a, b => by
    funext env tr
    simp only [List.cons_append, evalSs, evalSs_append c a b]
    cases evalS c s env tr <;> rfl

theorem evalSs_ret_nil (c : Ctx) : evalSs c [.ret []] = fun env tr => Res.ret [] env tr := by
  funext env tr
  simp [evalSs, evalS, evalEs]

/-- The closure built around simulated loops: what it returns. -/
theorem closure_of_sim {σ β : Type} {R : String} {enc : σ → Val} {retv : β → List Val}
    (rs : List (String × Ty)) (F : Frame) (s0 : σ)
    (hF : ∀ x, isTmp x = false → F.get x = none) (hR0 : F.get R = some (enc s0))
    {low : Sem Unit} {spec : Sem (σ ⊕ β)} (hspec : Good spec) (hsim : SimAt R enc retv s0 low spec)
    (hret : ∀ b, ∃ hd tl, retv b = hd :: tl) (env : Env) (tr : Trace) :
    closureFrom rs F (fun e t => (low e t).bind fun _ e' t' => Res.ret [] e' t') env tr =
      match spec env tr with
      | .ok (.inl s') _ tr' => (match readResults rs (F.set R (enc s')) with
        | some vs => .ok (pack vs) env tr'
        | none => .stuck)
      | .ok (.inr b) _ tr' =>
        if (retv b).length = rs.length then .ok (pack (retv b)) env tr' else .stuck
      | .panic v tr' => .panic v tr'
      | .ret _ _ _ => .stuck
      | .timeout tr' => .timeout tr'
      | .stuck => .stuck := by
  have hA : Agree (F :: env) env := Agree.push_left F hF (Agree.refl env)
  have hg : Env.get (F :: env) R = some (enc s0) := by rw [Env.get_cons, hR0]
  have hhas : F.has R = true := by rw [Frame.has_eq, hR0]; rfl
  have hupd : ∀ v, Env.upd (F :: env) R v = F.set R v :: env := by
    intro v; simp [Env.upd, hhas]
  have h := hsim (F :: env) env tr hA hg
  unfold closureFrom
  cases hr : spec env tr with
  | ok a e' tr' =>
    rw [hr] at h
    cases a with
    | inl s' =>
      simp only [SimRes] at h
      simp only [h, hupd, Res.bind_ok]
    | inr b =>
      simp only [SimRes] at h
      obtain ⟨v, hv⟩ := h
      obtain ⟨hd, tl, hb⟩ := hret b
      simp only [hv, hupd, Res.bind_ret, hb, List.tail_cons]
  | panic v t => rw [hr] at h; simp only [SimRes] at h; simp only [h, Res.bind_panic]
  | ret vs e' t => exact absurd hr (hspec.noret _ _ _ _ _)
  | timeout t => rw [hr] at h; simp only [SimRes] at h; simp only [h, Res.bind_timeout]
  | stuck => rw [hr] at h; simp only [SimRes] at h; simp only [h, Res.bind_stuck]

/-! ### innermost statements -/

theorem gop_ret_ne_blank : ("_gop_ret" = "_") = False := by decide

theorem sim_inner_list (c : Ctx) {eltL : Expr} {elt : Sem Val} (he : evalE c eltL = elt) (hg : Good elt)
    (acc : List Val) :
    SimAt "_gop_ret" Val.list (fun (e : Empty) => nomatch e) acc
      (evalSs c [.assign ["_gop_ret"] [.append (.var "_gop_ret") [eltL] false]])
      (fun env tr => (elt env tr).bind fun v env1 tr1 => .ok (.inl (acc ++ [v])) env1 tr1) := by
  intro eL eS tr hA hR
  rw [evalSs_single]
  simp only [evalS, evalEs, evalE, he, hR, Res.bind_ok]
  rw [hg.resp eL eS tr hA]
  cases hr : elt eS tr with
  | ok v e' tr' =>
    simp [spreadArgs, appendVals, spreadVals, setAll, Env.set_eq_upd eL "_gop_ret" _ _ hR, SimRes]
  | panic v t => simp [SimRes]
  | ret vs e' t => exact absurd hr (hg.noret _ _ _ _ _)
  | timeout t => simp [SimRes]
  | stuck => simp [SimRes]

theorem sim_inner_map (c : Ctx) {kL vL : Expr} {k v : Sem Val} (hk : evalE c kL = k) (hv : evalE c vL = v)
    (hgk : Good k) (hgv : Good v) (acc : List (Val × Val)) :
    SimAt "_gop_ret" Val.map (fun (e : Empty) => nomatch e) acc
      (evalSs c [.setIndex "_gop_ret" kL vL])
      (fun env tr => (k env tr).bind fun kv env1 tr1 => (v env1 tr1).bind fun vv env2 tr2 =>
        match mapInsert acc kv vv with
        | some acc' => .ok (.inl acc') env2 tr2
        | none => .stuck) := by
  intro eL eS tr hA hR
  rw [evalSs_single]
  simp only [evalS, hk, hv]
  rw [hgk.resp eL eS tr hA]
  cases hr : k eS tr with
  | ok kv e' tr' =>
    have := hgk.ok_env hr; subst this
    simp only [Res.withEnv_ok, Res.bind_ok]
    rw [hgv.resp eL e' tr' hA]
    cases hr2 : v e' tr' with
    | ok vv e'' tr'' =>
      simp only [Res.withEnv_ok, Res.bind_ok, hR]
      cases mapInsert acc kv vv with
      | none => simp [SimRes]
      | some acc' =>
        simp only
        rw [Env.set_eq_upd eL "_gop_ret" _ _ hR]
        simp [SimRes]
    | panic w t => simp [SimRes]
    | ret vs e'' t => exact absurd hr2 (hgv.noret _ _ _ _ _)
    | timeout t => simp [SimRes]
    | stuck => simp [SimRes]
  | panic w t => simp [SimRes]
  | ret vs e' t => exact absurd hr (hgk.noret _ _ _ _ _)
  | timeout t => simp [SimRes]
  | stuck => simp [SimRes]

theorem sim_inner_sel (c : Ctx) (R : String) (z : Val) {eltL : Expr} {elt : Sem Val} (he : evalE c eltL = elt)
    (hg : Good elt) (two : Bool) :
    SimAt R (fun (_ : Unit) => z) (fun v => v :: (if two then [Val.bool true] else [])) ()
      (evalSs c [.ret (eltL :: (if two then [.lit (.bool true)] else []))])
      (fun env tr => (elt env tr).bind fun v env1 tr1 => .ok (.inr v) env1 tr1) := by
  intro eL eS tr hA hR
  rw [evalSs_single]
  cases two with
  | false =>
    simp only [evalS, evalEs, he, Bool.false_eq_true, if_false]
    rw [hg.resp eL eS tr hA]
    cases hr : elt eS tr with
    | ok v e' tr' =>
      simp only [Res.withEnv_ok, Res.bind_ok, SimRes]
      exact ⟨z, by rw [Env.upd_same_val eL R z hR]⟩
    | panic v t => simp [SimRes]
    | ret vs e' t => exact absurd hr (hg.noret _ _ _ _ _)
    | timeout t => simp [SimRes]
    | stuck => simp [SimRes]
  | true =>
    simp only [evalS, evalEs, evalE, he, if_true]
    rw [hg.resp eL eS tr hA]
    cases hr : elt eS tr with
    | ok v e' tr' =>
      simp only [Res.withEnv_ok, Res.bind_ok, SimRes]
      exact ⟨z, by rw [Env.upd_same_val eL R z hR]⟩
    | panic v t => simp [SimRes]
    | ret vs e' t => exact absurd hr (hg.noret _ _ _ _ _)
    | timeout t => simp [SimRes]
    | stuck => simp [SimRes]

theorem sim_inner_exists (c : Ctx) (R : String) (z : Val) :
    SimAt R (fun (_ : Unit) => z) (fun (_ : Unit) => [Val.bool true]) ()
      (evalSs c [.ret [.lit (.bool true)]])
      (fun env tr => .ok (.inr ()) env tr) := by
  intro eL eS tr _ hR
  rw [evalSs_single]
  simp only [evalS, evalEs, evalE, Res.bind_ok, SimRes]
  exact ⟨z, by rw [Env.upd_same_val eL R z hR]⟩

end GopModel.Mini
