/-
M3 lemmas, part 5: blanks.  In the output of the printer model no two adjacent tokens combine
into a different token sequence: wherever two tokens that would combine meet without an explicit
blank, `printer.print` inserts one (`mayCombine`).  Hence `lex (emit (printE e p d)) = toks e p`.
-/
import GopModel.Lemmas.ExprRound
namespace GopModel.ExprSyntax
open Gen

/-- Two tokens may stand next to each other in the printer's item list. -/
def pairOK (a b : Tok) : Bool := !combines a b || mayCombine a b

def pairLast (last : Option Tok) (x : Tok) : Bool :=
  match last with
  | some l => pairOK l x
  | none => true

/-- No `bad` item, and every directly adjacent token pair is `pairOK`. -/
def soundAux : Option Tok → List PTok → Bool
  | _, [] => true
  | _, .blank :: r => soundAux none r
  | _, .bad :: _ => false
  | last, .t x :: r => pairLast last x && soundAux (some x) r

/-- The `lastTok` state after the items `l`. -/
def endState : Option Tok → List PTok → Option Tok
  | last, [] => last
  | _, .blank :: r => endState none r
  | _, .bad :: r => endState none r
  | _, .t x :: r => endState (some x) r

theorem soundAux_append (last : Option Tok) (a b : List PTok) :
    soundAux last (a ++ b) = (soundAux last a && soundAux (endState last a) b) := by
  induction a generalizing last with
  | nil => simp [soundAux, endState]
  | cons h t ih =>
    cases h with
    | t x => simp [soundAux, endState, ih, Bool.and_assoc]
    | blank => simp [soundAux, endState, ih]
    | bad => simp [soundAux]

theorem endState_append (last : Option Tok) (a b : List PTok) :
    endState last (a ++ b) = endState (endState last a) b := by
  induction a generalizing last with
  | nil => rfl
  | cons h t ih => cases h <;> simp [endState, ih]

/-- What `lex ∘ emit` computes on a sound item list. -/
theorem lex_emit_aux : ∀ (l : List PTok) (last : Option Tok), soundAux last l = true →
    lexAux last (emitAux last l) = some (strip l)
  | [], _, _ => by simp [emitAux, lexAux]
  | .blank :: r, last, h => by
    simp only [soundAux] at h
    simp [emitAux, lexAux, lex_emit_aux r none h]
  | .bad :: r, last, h => by simp [soundAux] at h
  | .t x :: r, last, h => by
    simp only [soundAux, Bool.and_eq_true] at h
    obtain ⟨hp, hr⟩ := h
    have ih := lex_emit_aux r (some x) hr
    cases last with
    | none => simp [emitAux, lexAux, ih]
    | some l =>
      simp only [emitAux]
      by_cases hm : mayCombine l x = true
      · simp [hm, lexAux, ih]
      · have hc : combines l x = false := by
          simp [pairLast, pairOK, hm] at hp
          exact hp
        simp [hm, lexAux, hc, ih]

theorem lex_emit {l : List PTok} (h : soundAux none l = true) : lex (emit l) = some (strip l) :=
  lex_emit_aux l none h

/-! ### Token classes at the joints -/

/-- Tokens that end an expression of the fragment. -/
def isEnd : Tok → Bool
  | .ident _ => true
  | .lit _ _ => true
  | .unit _ => true
  | .op o => o == .RPAREN || o == .RBRACK || o == .RBRACE || o == .NOT || o == .QUESTION
  | _ => false

/-- Operator tokens after which the printer starts an expression without a blank. -/
def isBefore : Tok → Bool
  | .op o => isBinOp o || isUnaryOp o || o == .ARROW || o == .MUL || o == .LPAREN || o == .LBRACK
      || o == .COLON || o == .LBRACE
  | _ => false

def okBefore : Option Tok → Bool
  | none => true
  | some a => isBefore a

/-- Operator tokens the printer puts directly after an expression (postfix forms, closers,
separators). -/
def isAfterOp (o : Op) : Bool :=
  o == .PERIOD || o == .LBRACK || o == .LPAREN || o == .RPAREN || o == .RBRACK || o == .RBRACE
    || o == .COMMA || o == .COLON || o == .NOT || o == .QUESTION || o == .ELLIPSIS

theorem pairOK_before_start {a f : Tok} (ha : isBefore a = true) (hf : isStart f = true) :
    pairOK a f = true := by
  cases a with
  | op o =>
    cases f with
    | op o' =>
      cases o <;> simp [isBefore, isBinOp, isUnaryOp, prec, precedence, unaryPrec] at ha <;>
        cases o' <;> simp [isStart] at hf <;> decide
    | ident s => simp [pairOK, combines]
    | lit k v => cases o <;> simp [isBefore, isBinOp, isUnaryOp, prec, precedence, unaryPrec] at ha <;> simp [pairOK, combines]
    | unit u => simp [isStart] at hf
    | kw s => simp [isStart] at hf
  | _ => simp [isBefore] at ha

theorem pairLast_before_start {last : Option Tok} {f : Tok} (hl : okBefore last = true)
    (hf : isStart f = true) : pairLast last f = true := by
  cases last with
  | none => rfl
  | some a => exact pairOK_before_start hl hf

theorem pairOK_end_after {a : Tok} {o : Op} (ha : isEnd a = true) (ho : isAfterOp o = true) :
    pairOK a (.op o) = true := by
  cases a with
  | op oa =>
    cases oa <;> simp [isEnd] at ha <;> cases o <;> simp [isAfterOp] at ho <;> decide
  | ident s => simp [pairOK, combines]
  | unit u => simp [pairOK, combines]
  | lit k v =>
    cases k <;> cases o <;> simp [isAfterOp] at ho <;>
      simp [pairOK, combines, mayCombine, mayCombineLit, Op.first]
  | kw s => simp [isEnd] at ha

/-- A binary operator printed without blanks (precedence ≥ 4) directly after an expression. -/
theorem pairOK_end_binop {a : Tok} {o : Op} (ha : isEnd a = true) (ho : isBinOp o = true)
    (h4 : 4 ≤ prec o) : pairOK a (.op o) = true := by
  cases a with
  | op oa =>
    cases oa <;> simp [isEnd] at ha <;>
      cases o <;> simp [isBinOp, prec, precedence, unaryPrec] at ho h4 <;> decide
  | ident s => simp [pairOK, combines]
  | unit u => simp [pairOK, combines]
  | lit k v =>
    cases k <;> cases o <;> simp [isBinOp, prec, precedence, unaryPrec] at ho h4 <;>
      simp [pairOK, combines, mayCombine, mayCombineLit, Op.first]
  | kw s => simp [isEnd] at ha

end GopModel.ExprSyntax
