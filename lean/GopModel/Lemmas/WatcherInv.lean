/- C40 helper: the set/trace/wake-up invariant is preserved by every step. -/
import GopModel.Lemmas.WatcherBasic
namespace GopModel.C40
open GopModel.TS GopModel.Generated.SyncWatcher

set_option hygiene false in
macro "inv_tac" : tactic => `(tactic| (
  simp only [exec] at hex
  repeat' (split at hex)
  all_goals first
    | (cases hex; done)
    | (cases hex
       refine ⟨?_, ?_, ?_, ?_, ?_, ?_, ?_⟩ <;> simp only [State.setThread, State.emit, State.doPanic, List.getElem?_set] <;> grind [holds, goto, Valid, Thread.put, Thread.get, pend, WfTrace, List.length_eq_zero_iff])))

set_option maxHeartbeats 4000000 in
theorem inv_step {s s' : State} {l : Label} (B : Basic s) (I : Inv s) (h : next sys s l = some s') : Inv s' := by
  cases l with
  | thread j k p v =>
    obtain ⟨hp, t, ht, hst, ins, hins, hex⟩ := next_thread h
    have hv := B.valid j t ht
    obtain ⟨_, hval, h1, h2⟩ := B
    obtain ⟨i1, i2, i3, i4, i5, i6, i7⟩ := I
    have hjl := getElem?_lt ht
    rcases instr_cases hv hins with ⟨hfn, hpc, rfl⟩ | ⟨hfn, hpc, rfl⟩ | ⟨hfn, hpc, rfl⟩ | ⟨hfn, hpc, rfl⟩ | ⟨hfn, hpc, rfl⟩ | ⟨hfn, hpc, rfl⟩ | ⟨hfn, hpc, rfl⟩ | ⟨hfn, hpc, rfl⟩ | ⟨hfn, hpc, rfl⟩ | ⟨hfn, hpc, rfl⟩ | ⟨hfn, hpc, rfl⟩ | ⟨hfn, hpc, rfl⟩ | ⟨hfn, hpc, rfl⟩ | ⟨hfn, hpc, rfl⟩ | ⟨hfn, hpc, rfl⟩ | ⟨hfn, hpc, rfl⟩ | ⟨hfn, hpc, rfl⟩
    · inv_tac -- case 0
    · inv_tac -- case 1
    · inv_tac -- case 2
    · inv_tac -- case 3
    · inv_tac -- case 4
    · inv_tac -- case 5
    · inv_tac -- case 6
    · inv_tac -- case 7
    · inv_tac -- case 8
    · inv_tac -- case 9
    · inv_tac -- case 10
    · inv_tac -- case 11
    · inv_tac -- case 12
    · inv_tac -- case 13
    · inv_tac -- case 14
    · inv_tac -- case 15
    · inv_tac -- case 16
  | spawn fn a b =>
    obtain ⟨_, hval, h1, h2⟩ := B
    obtain ⟨i1, i2, i3, i4, i5, i6, i7⟩ := I
    obtain ⟨hp, hsp, f, hf, rfl⟩ := next_spawn h
    have hfn := spawn_cases hsp hf
    refine ⟨?_, ?_, ?_, ?_, ?_, ?_, ?_⟩ <;> simp only [State.emit, List.getElem?_append, FnDef.mkThread] <;>
      grind [holds, Valid, fetchFn, fileChangedFn, regInit, pend, WfTrace]
  | spurious j =>
    obtain ⟨i1, i2, i3, i4, i5, i6, i7⟩ := I
    obtain ⟨hp, _, rfl⟩ := next_spurious h
    refine ⟨i1, i2, i3, ?_, i5, i6, i7⟩
    intro hs hn
    apply i4 hs
    intro h0
    simp [h0] at hn

end GopModel.C40
