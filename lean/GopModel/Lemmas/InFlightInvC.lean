/- C39: `done` is closed exactly when nothing is left to do (the second invariant `l3`). -/
import GopModel.Lemmas.InFlightInvB
set_option linter.unusedSimpArgs false
set_option linter.unnecessarySimpa false
namespace GopModel.InFlight

theorem retire_st (m : M) (e : Call × ID) : (retire m e).st = m.st := by
  unfold retire; split <;> rfl

theorem retireAll_st : ∀ (es : List (Call × ID)) (m : M), (retireAll es m).st = m.st
  | [], _ => rfl
  | e :: es, m => by
    simp only [retireAll, List.foldl_cons]
    have := retireAll_st es (retire m e)
    simp only [retireAll] at this
    rw [this, retire_st]

theorem fire_st (t : Args → St → St × Out) (a : Args) (m : M) : (fire t a m).1.st = (update t a m.st).1 := by
  simp only [fire, retireAll_st]

/-- "Not done although nothing is left to do". -/
def St.stuck (s : St) : Bool := !s.done && s.idle && s.shuttingDown.isSome && !s.reading

/-- After `updateInFlight` the connection is never left idle, shutting down, reader gone and
not done — provided the closure does not touch `done` and a panicking closure changes nothing. -/
theorem update_not_stuck (t : Args → St → St × Out) (a : Args) (s : St)
    (hs : s.stuck = false) (hd : (t a s).1.done = s.done)
    (hp : (t a s).2.panic = true → (t a s).1 = s) : (update t a s).1.stuck = false := by
  simp only [update]
  split
  · rename_i h; rw [hp h]; exact hs
  · simp only [St.stuck, epi_done, epi_idle, epi_shuttingDown, epi_reading, St.fin]
    cases (t a s).1.done <;> cases (t a s).1.idle <;> cases (t a s).1.shuttingDown.isSome <;>
      cases (t a s).1.reading <;> rfl

/-- The closures never touch `done`, and only processResult#1 can panic (changing nothing). -/
theorem t_facts : ∀ e ∈ transitions, ∀ (a : Args) (s : St),
    (e.2 a s).1.done = s.done ∧ ((e.2 a s).2.panic = true → (e.2 a s).1 = s) := by
  intro e he a s
  simp only [transitions, List.mem_cons, List.mem_nil_iff, or_false] at he
  rcases he with rfl | rfl | rfl | rfl | rfl | rfl | rfl | rfl | rfl | rfl | rfl | rfl | rfl | rfl | rfl | rfl | rfl | rfl
  · simp only [tStart]; split <;> simp
  · simp [tNotifyExit]
  · simp only [tNotifyEnter]; split <;> simp
  · simp only [tCallRegister]; split <;> simp
  · simp only [tCallWriteFailed]; split <;> simp
  · simp [tLookup]
  · simp [tLookup]
  · simp [tWait]
  · simp [tClose]
  · simp only [tResponse]; split <;> simp
  · simp [tReaderExit]
  · simp only [tAccept]; split <;> (try split) <;> simp
  · simp only [tEnqueue]; split <;> simp
  · simp only [tDequeue]; split <;> simp
  · simp [tHandleCancelled]
  · simp [tPrDelete]
  · simp only [tPrFinish]; split <;> simp
  · simp only [tWriteFailed]; split <;> simp

theorem fire_not_stuck {name : String} {t : Args → St → St × Out} (ht : (name, t) ∈ transitions)
    (a : Args) (m : M) (hs : m.st.stuck = false) : (fire t a m).1.st.stuck = false := by
  rw [fire_st]
  have := t_facts _ ht a m.st
  exact update_not_stuck t a m.st hs this.1 this.2


theorem setPhase_st (m : M) (r : Req) (p : Phase) : (setPhase m r p).st = m.st := rfl
theorem dropReq_st (m : M) (r : Req) : (dropReq m r).st = m.st := rfl

theorem fire_not_stuck' {t : Args → St → St × Out} (ht : t ∈ transitions.map (·.2))
    (a : Args) (m : M) (hs : m.st.stuck = false) : (fire t a m).1.st.stuck = false := by
  obtain ⟨e, he, rfl⟩ := List.mem_map.mp ht
  exact fire_not_stuck (name := e.1) he a m hs

theorem not_stuck_step {m m' : M} (a : Act) (h : m.st.stuck = false) (hs : step a m = some m') :
    m'.st.stuck = false := by
  unfold step at hs
  split at hs
  · cases hs
  · cases a <;> simp only at hs <;> (repeat' split at hs) <;> (try cases hs) <;>
      (try simp only [setPhase_st, dropReq_st, retire_st]) <;>
      first
        | exact h
        | (apply fire_not_stuck' (by simp [transitions]); exact h)

theorem update_done_mono (t : Args → St → St × Out) (a : Args) (s : St)
    (hs : s.done = true) (hd : (t a s).1.done = s.done)
    (hp : (t a s).2.panic = true → (t a s).1 = s) : (update t a s).1.done = true := by
  simp only [update]
  split
  · rename_i h; rw [hp h]; exact hs
  · simp [epi_done, hd, hs]

theorem fire_done_mono {t : Args → St → St × Out} (ht : t ∈ transitions.map (·.2))
    (a : Args) (m : M) (hs : m.st.done = true) : (fire t a m).1.st.done = true := by
  obtain ⟨e, he, rfl⟩ := List.mem_map.mp ht
  rw [fire_st]
  have := t_facts _ he a m.st
  exact update_done_mono _ a m.st hs this.1 this.2

/-- `done` is never reopened. -/
theorem done_mono_step {m m' : M} (a : Act) (h : m.st.done = true) (hs : step a m = some m') :
    m'.st.done = true := by
  unfold step at hs
  split at hs
  · cases hs
  · cases a <;> simp only at hs <;> (repeat' split at hs) <;> (try cases hs) <;>
      (try simp only [setPhase_st, dropReq_st, retire_st]) <;>
      first
        | exact h
        | (apply fire_done_mono (by simp [transitions]); exact h)

theorem not_stuck_reachable {m : M} (h : Reachable m) : m.st.stuck = false := by
  induction h with
  | init => rfl
  | step a _ hs ih => exact not_stuck_step a ih hs

end GopModel.InFlight
