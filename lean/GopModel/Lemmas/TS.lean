/- Generic lemmas about the transition system M6 (Model/TS.lean). Core only. -/
import GopModel.Model.TS
namespace GopModel.TS

theorem set_getElem?_cases {α} {l : List α} {j i : Nat} {x y : α}
    (h : (l.set j x)[i]? = some y) : (i = j ∧ y = x ∧ j < l.length) ∨ (i ≠ j ∧ l[i]? = some y) := by
  rw [List.getElem?_set] at h
  split at h
  · rename_i hij
    split at h
    · left; exact ⟨hij.symm, by cases h; rfl, by assumption⟩
    · cases h
  · rename_i hij
    right; exact ⟨fun e => hij e.symm, h⟩

theorem append_getElem?_cases {α} {l : List α} {i : Nat} {x y : α}
    (h : (l ++ [x])[i]? = some y) : (i = l.length ∧ y = x) ∨ (i < l.length ∧ l[i]? = some y) := by
  rcases Nat.lt_trichotomy i l.length with hlt | heq | hgt
  · right; rw [List.getElem?_append_left hlt] at h; exact ⟨hlt, h⟩
  · left; subst heq; simp at h; exact ⟨rfl, h.symm⟩
  · rw [List.getElem?_eq_none (by simp; omega)] at h; cases h

/-- Unfolding of a thread step. -/
theorem next_thread {sys : Sys} {s s' : State} {j k p : Nat} {v : Val}
    (h : next sys s (.thread j k p v) = some s') :
    s.panic = false ∧ ∃ t, s.threads[j]? = some t ∧ t.st = .run ∧
      ∃ ins, instrAt sys t = some ins ∧ exec sys s j t k p v ins = some s' := by
  simp only [next] at h
  split at h
  · cases h
  · rename_i hp
    split at h
    · cases h
    · rename_i t ht
      split at h
      · cases h
      · rename_i hst
        split at h
        · cases h
        · rename_i ins hins
          exact ⟨by simpa using hp, t, ht, by simpa using hst, ins, hins, h⟩

theorem next_spawn {sys : Sys} {s s' : State} {fn : Nat} {a b : Val}
    (h : next sys s (.spawn fn a b) = some s') :
    s.panic = false ∧ sys.spawnable.contains fn = true ∧ ∃ f, sys.fns[fn]? = some f ∧
      s' = { s with threads := s.threads ++ [f.mkThread fn a b] }.emit (.spawn s.threads.length fn a b) := by
  simp only [next] at h
  split at h
  · cases h
  · rename_i hp
    split at h
    · rename_i hsp
      split at h
      · cases h
      · rename_i f hf
        cases h
        exact ⟨by simpa using hp, hsp, f, hf, rfl⟩
    · cases h

theorem next_spurious {sys : Sys} {s s' : State} {j : Nat}
    (h : next sys s (.spurious j) = some s') :
    s.panic = false ∧ s.notify.contains j = true ∧ s' = { s with notify := s.notify.erase j } := by
  simp only [next] at h
  split at h
  · cases h
  · rename_i hp
    split at h
    · rename_i hc
      cases h
      exact ⟨by simpa using hp, hc, rfl⟩
    · cases h

/-- The five ways a `select` step can happen. -/
theorem exec_select {sys : Sys} {s s' : State} {j k p : Nat} {t : Thread} {v : Val} {cs : List SelCase}
    (h : exec sys s j t k p v (.select cs) = some s') :
    (cs[k]? = none ∧ k = cs.length ∧ (∀ c ∈ cs, caseReady sys s c = false) ∧
      s' = s.setThread j { t with st := .parked }) ∨
    (∃ ch r n, cs[k]? = some (.recv ch r n) ∧ s.closed.contains ch = true ∧
      s' = s.setThread j (goto (t.putOpt r (.nat 0)) n)) ∨
    (∃ ch r n tp rp np, cs[k]? = some (.recv ch r n) ∧ s.closed.contains ch = false ∧
      s.threads[p]? = some tp ∧ findSend ch (parkedCases sys tp) = some (rp, np) ∧
      s' = ((s.setThread p { tp with pc := np, st := .run }).setThread j
              (goto (t.putOpt r (tp.get rp)) n)).emit (.xfer ch p j (tp.get rp))) ∨
    (∃ ch r n, cs[k]? = some (.send ch r n) ∧ s.closed.contains ch = true ∧ s' = s.doPanic) ∨
    (∃ ch r n tp rp np, cs[k]? = some (.send ch r n) ∧ s.closed.contains ch = false ∧
      s.threads[p]? = some tp ∧ findRecv ch (parkedCases sys tp) = some (rp, np) ∧
      s' = ((s.setThread p { (tp.putOpt rp (t.get r)) with pc := np, st := .run }).setThread j
              (goto t n)).emit (.xfer ch j p (t.get r))) := by
  simp only [exec] at h
  split at h
  · rename_i hk
    split at h
    · rename_i hc
      cases h
      left
      refine ⟨hk, hc.1, ?_, rfl⟩
      intro c hcm
      have := hc.2
      simp only [List.all_eq_true] at this
      simpa using this c hcm
    · cases h
  · rename_i ch r n hk
    split at h
    · rename_i hc
      cases h
      right; left
      exact ⟨ch, r, n, hk, hc, rfl⟩
    · rename_i hc
      split at h
      · cases h
      · rename_i tp htp
        split at h
        · cases h
        · rename_i rp np hf
          cases h
          right; right; left
          exact ⟨ch, r, n, tp, rp, np, hk, by simpa using hc, htp, hf, rfl⟩
  · rename_i ch r n hk
    split at h
    · rename_i hc
      cases h
      right; right; right; left
      exact ⟨ch, r, n, hk, hc, rfl⟩
    · rename_i hc
      split at h
      · cases h
      · rename_i tp htp
        split at h
        · cases h
        · rename_i rp np hf
          cases h
          right; right; right; right
          exact ⟨ch, r, n, tp, rp, np, hk, by simpa using hc, htp, hf, rfl⟩

/-- The ways a `close` step can happen. -/
theorem exec_close {sys : Sys} {s s' : State} {j k p : Nat} {t : Thread} {v : Val} {ch n : Nat}
    (h : exec sys s j t k p v (.close ch n) = some s') :
    (s.closed.contains ch = true ∧ s' = s.doPanic) ∨
    (s.closed.contains ch = false ∧ s.threads.any (parkedSender sys ch) = true ∧ s' = s.doPanic) ∨
    (s.closed.contains ch = false ∧ s.threads.any (parkedSender sys ch) = false ∧
      s' = (({ s with closed := ch :: s.closed, threads := s.threads.map (claimClosed sys ch) }.setThread j
              (goto t n)).emit (.closed ch))) := by
  simp only [exec] at h
  split at h
  · rename_i hc; cases h; left; exact ⟨hc, rfl⟩
  · rename_i hc
    split at h
    · rename_i hs; cases h; right; left; exact ⟨by simpa using hc, hs, rfl⟩
    · rename_i hs; cases h; right; right; exact ⟨by simpa using hc, by simpa using hs, rfl⟩

theorem getElem?_lt {α} {l : List α} {i : Nat} {x : α} (h : l[i]? = some x) : i < l.length := by
  rcases Nat.lt_or_ge i l.length with h' | h'
  · exact h'
  · rw [List.getElem?_eq_none h'] at h; cases h

end GopModel.TS
