/- Generic lemmas about the transition system M6 (Model/TS.lean). Core only. -/
import GopModel.Model.TS
namespace GopModel.TS

theorem set_getElem?_cases {α} {l : List α} {j i : Nat} {x y : α}
    (h : (l.set j x)[i]? = some y) : (i = j ∧ y = x ∧ j < l.length) ∨ (i ≠ j ∧ l[i]? = some y) := by
  rw [List.getElem?_set] at h
  split at h
  · rename_i hij
    split at h
    · left; exact ⟨hij.symm, by cases h; rfl, by assumption⟩
    · cases h
  · rename_i hij
    right; exact ⟨fun e => hij e.symm, h⟩

theorem append_getElem?_cases {α} {l : List α} {i : Nat} {x y : α}
    (h : (l ++ [x])[i]? = some y) : (i = l.length ∧ y = x) ∨ (i < l.length ∧ l[i]? = some y) := by
  rcases Nat.lt_trichotomy i l.length with hlt | heq | hgt
  · right; rw [List.getElem?_append_left hlt] at h; exact ⟨hlt, h⟩
  · left; subst heq; simp at h; exact ⟨rfl, h.symm⟩
  · rw [List.getElem?_eq_none (by simp; omega)] at h; cases h

/-- Unfolding of a thread step. -/
theorem next_thread {sys : Sys} {s s' : State} {j k p : Nat} {v : Val}
    (h : next sys s (.thread j k p v) = some s') :
    s.panic = false ∧ ∃ t, s.threads[j]? = some t ∧ t.st = .run ∧
      ∃ ins, instrAt sys t = some ins ∧ exec sys s j t k p v ins = some s' := by
  simp only [next] at h
  split at h
  · cases h
  · rename_i hp
    split at h
    · cases h
    · rename_i t ht
      split at h
      · cases h
      · rename_i hst
        split at h
        · cases h
        · rename_i ins hins
          exact ⟨by simpa using hp, t, ht, by simpa using hst, ins, hins, h⟩

theorem next_spawn {sys : Sys} {s s' : State} {fn : Nat} {a b : Val}
    (h : next sys s (.spawn fn a b) = some s') :
    s.panic = false ∧ sys.spawnable.contains fn = true ∧ ∃ f, sys.fns[fn]? = some f ∧
      s' = { s with threads := s.threads ++ [f.mkThread fn a b] }.emit (.spawn s.threads.length fn a b) := by
  simp only [next] at h
  split at h
  · cases h
  · rename_i hp
    split at h
    · rename_i hsp
      split at h
      · cases h
      · rename_i f hf
        cases h
        exact ⟨by simpa using hp, hsp, f, hf, rfl⟩
    · cases h

theorem next_spurious {sys : Sys} {s s' : State} {j : Nat}
    (h : next sys s (.spurious j) = some s') :
    s.panic = false ∧ s.notify.contains j = true ∧ s' = { s with notify := s.notify.erase j } := by
  simp only [next] at h
  split at h
  · cases h
  · rename_i hp
    split at h
    · rename_i hc
      cases h
      exact ⟨by simpa using hp, hc, rfl⟩
    · cases h

theorem getElem?_lt {α} {l : List α} {i : Nat} {x : α} (h : l[i]? = some x) : i < l.length := by
  rcases Nat.lt_or_ge i l.length with h' | h'
  · exact h'
  · rw [List.getElem?_eq_none h'] at h; cases h

end GopModel.TS
