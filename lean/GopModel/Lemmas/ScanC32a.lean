/-
Lemmas for C32, part 1: the comment scanners of tpl and xgo coincide on comments without
carriage returns, line-directive text and the `#/` `#*` quirk; numbers; kinds.
-/
import GopModel.Lemmas.ScanRun
import GopModel.Model.ScanDomain
namespace GopModel.Scan
open GopModel.Generated

variable {src : Array UInt8}

theorem scanNumber_tpl_eq_xgo (U : UCls) (F : Nat) (st : St) :
    scanNumber .tpl U src F st = scanNumber .xgo U src F st := by
  unfold scanNumber numSuffix
  simp

/-- no CR byte in the scanned range: the CR counter of the `//` loop does not move -/
theorem lineCommentLoop_noCR : ∀ (fuel : Nat) (st : St) (n : Nat), Inv src st → src.size - st.off < fuel →
    (∀ k, st.off ≤ k → k < (lineCommentLoop src fuel st n).1.off → byteAt src k ≠ 0x0D) →
    (lineCommentLoop src fuel st n).2 = n := by
  intro fuel
  induction fuel with
  | zero => intro st _ _ h; omega
  | succ f ih =>
    intro st n hi hf hno
    simp only [lineCommentLoop] at hno ⊢
    split
    · rename_i hc
      rw [if_pos hc] at hno
      have hlt := next_off_lt hi hc.2
      have hadv := lineCommentLoop_adv (src := src) f (next src st) (if st.ch = 0x0D then n + 1 else n)
        (next_inv hi) (loop_step hi hc.2 hf)
      have hncr : st.ch ≠ 0x0D := by
        intro h
        have hb := (hi.ascii (by omega)).1
        exact hno st.off (Nat.le_refl _) (by have := hadv.off_le; omega) (by rw [hb]; exact h)
      simp only [hncr, if_false] at hno ⊢
      exact ih _ _ (next_inv hi) (loop_step hi hc.2 hf) (fun k h1 h2 => hno k (by omega) h2)
    · rfl

theorem blockCommentLoop_noCR : ∀ (fuel : Nat) (st : St) (n nl : Nat), Inv src st → src.size - st.off < fuel →
    (∀ k, st.off ≤ k → k < (blockCommentLoop src fuel st n nl).st.off → byteAt src k ≠ 0x0D) →
    (blockCommentLoop src fuel st n nl).numCR = n := by
  intro fuel
  induction fuel with
  | zero => intro st _ _ _ h; omega
  | succ f ih =>
    intro st n nl hi hf hno
    simp only [blockCommentLoop] at hno ⊢
    split
    · rfl
    · rename_i hc
      rw [if_neg hc] at hno
      have hlt := next_off_lt hi hc
      have hncr : st.ch ≠ 0x0D := by
        intro h
        have hb := (hi.ascii (by omega)).1
        apply hno st.off (Nat.le_refl _) _ (by rw [hb]; exact h)
        split
        · have h3 := next_off_le (src := src) (next_inv hi)
          show st.off < (next src (next src st)).off
          omega
        · exact Nat.lt_of_lt_of_le hlt
            (blockCommentLoop_adv (src := src) f (next src st) _ _ (next_inv hi) (loop_step hi hc hf)).off_le
      simp only [hncr, if_false] at hno ⊢
      split
      · rfl
      · rename_i h2
        rw [if_neg h2] at hno
        exact ih _ _ _ (next_inv hi) (loop_step hi hc hf) (fun k h1 h2 => hno k (by omega) h2)

theorem lineCommentLoop_sharp : ∀ (fuel : Nat) (st : St) (n : Nat),
    (lineCommentLoop src fuel st n).1 = sharpLoop src fuel st := by
  intro fuel
  induction fuel with
  | zero => intro st n; rfl
  | succ f ih =>
    intro st n
    simp only [lineCommentLoop, sharpLoop]
    by_cases hc : st.ch ≠ 0x0A ∧ st.ch ≠ eofCh
    · have hc' : ¬ (st.ch = 0x0A ∨ st.ch = eofCh) := by intro h; rcases h with h | h; exact hc.1 h; exact hc.2 h
      rw [if_pos hc, if_neg hc']
      exact ih _ _
    · have hc' : st.ch = 0x0A ∨ st.ch = eofCh := by
        by_cases h1 : st.ch = 0x0A
        · exact Or.inl h1
        · by_cases h2 : st.ch = eofCh
          · exact Or.inr h2
          · exact absurd ⟨h1, h2⟩ hc
      rw [if_neg hc, if_pos hc']

/-- without the "line " text the line-directive check does nothing -/
theorem commentDirective_noPrefix (st : St) (offs : Nat) (lit : List UInt8) (t : Bool)
    (h : linePrefix.isPrefixOf (lit.drop 2) = false) : commentDirective .xgo st offs lit t = st := by
  unfold commentDirective
  split
  · split
    · rename_i h2
      have h2' : 2 ≤ lit.length := by simpa using h2
      rw [List.getElem?_eq_getElem (show 1 < lit.length by omega)]
      simp [h]
    · rfl
  · rfl

/-- the source span of a comment as the domain predicate sees it -/
theorem commentSpanOK_spec {p e : Nat} (h : commentSpanOK src p e = true) :
    ((byteAt src p = 0x23 ∨ byteAt src (p + 1) = 0x2A) → ∀ b ∈ slice src p e, b ≠ 0x0D) ∧
      linePrefix.isPrefixOf ((slice src p e).drop 2) = false ∧
      ¬ (byteAt src p = 0x23 ∧ (byteAt src (p + 1) = 0x2F ∨ byteAt src (p + 1) = 0x2A)) := by
  unfold commentSpanOK at h
  simp only [Bool.and_eq_true, Bool.not_eq_true'] at h
  obtain ⟨⟨h1, h2⟩, h3⟩ := h
  refine ⟨?_, h2, ?_⟩
  · intro hc b hb heq
    subst heq
    have hcb : (byteAt src p == 0x23 || byteAt src (p + 1) == 0x2A) = true := by
      rcases hc with hc | hc <;> simp [hc]
    rw [hcb, Bool.true_and] at h1
    have : (List.take (e - p) (List.drop p src.toList)).contains 0x0D = true := by
      simpa [slice] using hb
    rw [this] at h1
    cases h1
  · intro ⟨ha, hb⟩
    have : (byteAt src p == 0x23 && (byteAt src (p + 1) == 0x2F || byteAt src (p + 1) == 0x2A)) = true := by
      rcases hb with hb | hb <;> simp [ha, hb]
    rw [this] at h3
    cases h3

theorem slice_mem_byte {a b k : Nat} (h1 : a ≤ k) (h2 : k < b) (h3 : b ≤ src.size) :
    src[k]'(by omega) ∈ slice src a b := by
  have := slice_getElem? (src := src) (a := a) (b := b) (k := k - a) (by omega) h3
  have e : a + (k - a) = k := by omega
  simp only [e] at this
  exact List.mem_of_getElem? this

/-- no CR in the slice: no CR byte in the range -/
theorem noCR_bytes {a b : Nat} (hb : b ≤ src.size) (h : ∀ x ∈ slice src a b, x ≠ 0x0D) :
    ∀ k, a ≤ k → k < b → byteAt src k ≠ 0x0D := by
  intro k h1 h2 heq
  have hm := slice_mem_byte (src := src) h1 h2 hb
  have := h _ hm
  apply this
  rw [byteAt_eq (by omega)] at heq
  apply UInt8.toNat_inj.mp
  rw [heq]; rfl


/-- xgo `scanComment` when the text has neither a CR nor the "line " continuation: the state is
the one behind the comment loop, the literal is the source span -/
theorem scanCommentXG_plain (F : Nat) (st : St) (hi : Inv src st) (hf : src.size - st.off < F) (h1 : 1 ≤ st.off)
    (hnum : (commentLoops .xgo src F st).numCR = 0)
    (hpre : linePrefix.isPrefixOf ((slice src (st.off - 1) (commentLoops .xgo src F st).st.off).drop 2) = false) :
    (scanCommentXG .xgo src F st).st = (commentLoops .xgo src F st).st ∧
      (scanCommentXG .xgo src F st).lit = slice src (st.off - 1) (commentLoops .xgo src F st).st.off := by
  obtain ⟨ha, _, _⟩ := commentLoops_ok F st hi hf
  unfold scanCommentXG
  have h0 : ¬ st.off = 0 := by omega
  simp only [h0, if_false]
  generalize commentLoops .xgo src F st = r at ha hnum hpre ⊢
  have hle : st.off - 1 ≤ r.st.off := by have := ha.off_le; omega
  rw [sliceP_eq r.st hle ha.inv.off_le_size]
  simp only [hnum]
  have hs : commentStrip1 0 (slice src (st.off - 1) r.st.off) = (slice src (st.off - 1) r.st.off, 0) := by
    unfold commentStrip1; simp
  rw [hs]
  simp only []
  rw [commentDirective_noPrefix _ _ _ _ hpre]
  unfold commentStripCR
  simp

/-- no CR byte behind the first byte of the comment: the comment loops count none -/
theorem commentLoops_noCR (F : Nat) (st : St) (hi : Inv src st) (hf : src.size - st.off < F)
    (hno : ∀ k, st.off ≤ k → k < (commentLoops .xgo src F st).st.off → byteAt src k ≠ 0x0D) :
    (commentLoops .xgo src F st).numCR = 0 := by
  unfold commentLoops at hno ⊢
  simp only [] at hno ⊢
  by_cases hs : st.ch = 0x2F
  · have hlt : st.ch < 0x80 := by omega
    have e1 := next_off_ascii hi hlt
    simp only [hs, if_true] at hno ⊢
    exact lineCommentLoop_noCR (src := src) F (next src st) 0 (next_inv hi) (by omega)
      (fun k h1 h2 => hno k (by omega) h2)
  · simp only [hs, if_false, reduceCtorEq, false_or] at hno ⊢
    by_cases hstar : st.ch = 0x2A
    · have hlt : st.ch < 0x80 := by omega
      have e1 := next_off_ascii hi hlt
      simp only [hstar, if_true] at hno ⊢
      have hb : (blockCommentLoop src F (next src st) 0 0).numCR = 0 := by
        apply blockCommentLoop_noCR (src := src) F (next src st) 0 0 (next_inv hi) (by omega)
        intro k h1 h2
        apply hno k (by omega)
        split
        · exact h2
        · simpa using h2
      split
      · exact hb
      · simpa using hb
    · simp only [hstar, if_false] at hno ⊢
      exact lineCommentLoop_noCR (src := src) F st 0 hi hf hno

/-- the tpl `scanComment` written with the (shared) comment loops -/
theorem scanCommentTpl_eq (F : Nat) (st : St) (h1 : 1 ≤ st.off) (hc : st.ch = 0x2F ∨ st.ch = 0x2A) :
    scanCommentTpl src F st =
      ⟨(sliceP src (commentLoops .xgo src F st).st (st.off - 1) (commentLoops .xgo src F st).st.off).1,
       if 0 < (commentLoops .xgo src F st).numCR then
         stripCRAll (sliceP src (commentLoops .xgo src F st).st (st.off - 1) (commentLoops .xgo src F st).st.off).2
       else (sliceP src (commentLoops .xgo src F st).st (st.off - 1) (commentLoops .xgo src F st).st.off).2, 0⟩ := by
  have h0 : ¬ st.off = 0 := by omega
  unfold scanCommentTpl commentLoops
  simp only [h0, if_false]
  rcases hc with h | h
  · simp [h]
  · have hns : ¬ st.ch = 0x2F := by omega
    simp [h]

theorem scanSharpCommentTpl_eq (F : Nat) (st : St) (h1 : 1 ≤ st.off) (hs : st.ch ≠ 0x2F) (hstar : st.ch ≠ 0x2A) :
    scanSharpCommentTpl src F st =
      ⟨(sliceP src (commentLoops .xgo src F st).st (st.off - 1) (commentLoops .xgo src F st).st.off).1,
       (sliceP src (commentLoops .xgo src F st).st (st.off - 1) (commentLoops .xgo src F st).st.off).2, 0⟩ := by
  have h0 : ¬ st.off = 0 := by omega
  unfold scanSharpCommentTpl commentLoops
  simp only [h0, if_false, hs, hstar, reduceCtorEq, or_self]
  rw [← lineCommentLoop_sharp (src := src) F st 0]

/-! ### counting carriage returns exactly -/

/-- the continuation bytes of a multi-byte rune are ≥ 0x80 -/
theorem decodeRune_cont (i : Nat) : ∀ k, 1 ≤ k → k < (decodeRune src i).2 → 0x80 ≤ byteAt src (i + k) := by
  intro k hk1 hk2
  generalize hr : decodeRune src i = r at hk2
  unfold decodeRune at hr
  simp only [] at hr
  repeat' split at hr
  all_goals (subst hr; simp only [] at hk2)
  all_goals first
    | omega
    | (have : k = 1 ∨ k = 2 ∨ k = 3 := by omega
       rcases this with rfl | rfl | rfl <;> omega)

/-- bytes of the character under the cursor: no CR unless the character is CR -/
theorem char_bytes_noCR {st : St} (hi : Inv src st) (hne : st.ch ≠ eofCh) (hcr : st.ch ≠ 0x0D) :
    ∀ k, st.off ≤ k → k < st.rdOff → byteAt src k ≠ 0x0D := by
  intro k h1 h2
  have hw := hi.width hne
  have hdec := hi.decoded
  have hsz : st.off < src.size := by have := hi.adv hne; have := hi.rd_le; omega
  by_cases hb : byteAt src st.off < 0x80
  · simp only [hb, if_true] at hw
    have hk : k = st.off := by omega
    subst hk
    unfold runeAt at hdec
    simp only [hsz, if_true, hb] at hdec
    rw [← hdec]; exact hcr
  · simp only [hb, if_false] at hw
    by_cases hk : k = st.off
    · subst hk; omega
    · have := decodeRune_cont (src := src) st.off (k - st.off) (by omega) (by omega)
      have e : st.off + (k - st.off) = k := by omega
      rw [e] at this
      omega

theorem mem_slice {a b : Nat} {x : UInt8} (hb : b ≤ src.size) (h : x ∈ slice src a b) :
    ∃ k, a ≤ k ∧ k < b ∧ byteAt src k = x.toNat := by
  obtain ⟨i, hi, hx⟩ := List.mem_iff_getElem.mp h
  by_cases hab : a ≤ b
  · rw [slice_length hab hb] at hi
    have := slice_getElem? (src := src) (a := a) (b := b) (k := i) (by omega) hb
    rw [List.getElem?_eq_getElem (by rw [slice_length hab hb]; exact hi)] at this
    simp only [Option.some.injEq] at this
    refine ⟨a + i, by omega, by omega, ?_⟩
    rw [byteAt_eq (by omega), ← this, hx]
  · exfalso
    unfold slice at hi
    simp only [List.length_take, List.length_drop, Array.length_toList] at hi
    omega

theorem count_zero_of_bytes {a b : Nat} (hb : b ≤ src.size) (h : ∀ k, a ≤ k → k < b → byteAt src k ≠ 0x0D) :
    (slice src a b).count 0x0D = 0 := by
  apply List.count_eq_zero.mpr
  intro hm
  obtain ⟨k, h1, h2, h3⟩ := mem_slice hb hm
  exact h k h1 h2 (by rw [h3]; rfl)

/-- the `//` loop counts exactly the CR bytes it passes -/
theorem lineCommentLoop_count_eq : ∀ (fuel : Nat) (st : St) (n : Nat), Inv src st → src.size - st.off < fuel →
    (lineCommentLoop src fuel st n).2 = n + (slice src st.off (lineCommentLoop src fuel st n).1.off).count 0x0D := by
  intro fuel
  induction fuel with
  | zero => intro st _ _ h; omega
  | succ f ih =>
    intro st n hi hf
    simp only [lineCommentLoop]
    split
    · rename_i hc
      have hoffeq := next_off_eq hi
      have hlt := next_off_lt hi hc.2
      have hadv := lineCommentLoop_adv (src := src) f (next src st) (if st.ch = 0x0D then n + 1 else n)
        (next_inv hi) (loop_step hi hc.2 hf)
      have := ih (next src st) (if st.ch = 0x0D then n + 1 else n) (next_inv hi) (loop_step hi hc.2 hf)
      rw [this, ← slice_append (src := src) (a := st.off) (b := (next src st).off) (Nat.le_of_lt hlt) hadv.off_le,
        List.count_append]
      by_cases hcr : st.ch = 0x0D
      · have e1 := next_off_ascii hi (show st.ch < 0x80 by omega)
        have hb := (hi.ascii (show st.ch < 0x80 by omega)).1
        have hsz : st.off < src.size := by have := hi.adv hc.2; have := hi.rd_le; omega
        rw [e1, slice_one_byte hsz (hb.trans hcr)]
        simp only [hcr, if_true]
        have : List.count (0x0D : UInt8) [UInt8.ofNat 0x0D] = 1 := by decide
        rw [this]; omega
      · have hz := count_zero_of_bytes (src := src) (a := st.off) (b := (next src st).off) (next_inv hi).off_le_size
          (by rw [hoffeq]; exact char_bytes_noCR hi hc.2 hcr)
        simp only [hcr, if_false, hz]; omega
    · simp only [slice_self]; simp


/-! ### `//` comments with carriage returns -/

theorem stripCRAux_false_eq : ∀ (l acc : List UInt8), stripCRAux false l acc = acc.reverse ++ stripCRAll l := by
  intro l
  induction l with
  | nil => intro acc; simp [stripCRAux, stripCRAll]
  | cons x rest ih =>
    intro acc
    simp only [stripCRAux, Bool.false_and, Bool.false_eq_true, if_false]
    by_cases hx : x = 0x0D
    · subst hx
      simp only [ne_eq, not_true_eq_false, if_false, ih]
      simp [stripCRAll]
    · simp only [ne_eq, hx, not_false_eq_true, if_true, ih]
      simp [stripCRAll, hx]

theorem stripCR_false_eq (l : List UInt8) : stripCR l false = stripCRAll l := by
  unfold stripCR; rw [stripCRAux_false_eq]; simp

theorem stripCRAll_dropLast (l : List UInt8) (h : l.getLast? = some 0x0D) : stripCRAll l = stripCRAll l.dropLast := by
  have : l = l.dropLast ++ [0x0D] := by
    cases hl : l with
    | nil => simp [hl] at h
    | cons a t =>
      rw [← hl]
      have hne : l ≠ [] := by simp [hl]
      have h2 := List.dropLast_concat_getLast hne
      rw [List.getLast?_eq_some_getLast hne] at h
      simp only [Option.some.injEq] at h
      rw [h] at h2
      exact h2.symm
  conv => lhs; rw [this]
  simp [stripCRAll]

theorem count_dropLast (l : List UInt8) (h : l.getLast? = some 0x0D) : l.count 0x0D = l.dropLast.count 0x0D + 1 := by
  have : l = l.dropLast ++ [0x0D] := by
    cases hl : l with
    | nil => simp [hl] at h
    | cons a t =>
      rw [← hl]
      have hne : l ≠ [] := by simp [hl]
      have h2 := List.dropLast_concat_getLast hne
      rw [List.getLast?_eq_some_getLast hne] at h
      simp only [Option.some.injEq] at h
      rw [h] at h2
      exact h2.symm
  conv => lhs; rw [this]
  simp

theorem prefix_of_dropLast (p l : List UInt8) (h : p.isPrefixOf (l.dropLast.drop 2) = true) :
    p.isPrefixOf (l.drop 2) = true := by
  rw [List.isPrefixOf_iff_prefix] at h ⊢
  have h1 : l.dropLast.drop 2 <+: l.drop 2 := by
    rw [List.dropLast_eq_take, List.drop_take]
    exact List.take_prefix _ _
  exact h.trans h1

/-- xgo `scanComment` on a `//` comment: all CRs are removed, as the TPL scanner does -/
theorem commentXG_eq_tpl_line (F : Nat) (st : St) (hi : Inv src st) (hf : src.size - st.off < F) (h1 : 1 ≤ st.off)
    (hc : st.ch = 0x2F) (hb0 : byteAt src (st.off - 1) = 0x2F)
    (hpre : linePrefix.isPrefixOf ((slice src (st.off - 1) (commentLoops .xgo src F st).st.off).drop 2) = false) :
    (scanCommentXG .xgo src F st).st = (scanCommentTpl src F st).st ∧
      (scanCommentXG .xgo src F st).lit = (scanCommentTpl src F st).lit := by
  obtain ⟨ha, _, _⟩ := commentLoops_ok F st hi hf
  have hlt : st.ch < 0x80 := by omega
  have hne := lt_ne_eof hlt
  have e1 := next_off_ascii hi hlt
  have hb1 := (hi.ascii hlt).1
  have hf' : src.size - (next src st).off < F := by omega
  have hsz : st.off < src.size := by have := hi.adv hne; have := hi.rd_le; omega
  -- the loop and its exact CR count
  have hcl : commentLoops .xgo src F st =
      ⟨(lineCommentLoop src F (next src st) 0).1, (lineCommentLoop src F (next src st) 0).2, 0, true⟩ := by
    unfold commentLoops; simp [hc]
  have hcnt := lineCommentLoop_count_eq (src := src) F (next src st) 0 (next_inv hi) hf'
  rw [scanCommentTpl_eq F st h1 (Or.inl hc)]
  unfold scanCommentXG
  have h0 : ¬ st.off = 0 := by omega
  simp only [h0, if_false]
  rw [hcl] at ha hpre ⊢
  simp only [] at ha hpre ⊢
  generalize hE : (lineCommentLoop src F (next src st) 0).1 = rst at ha hpre hcnt ⊢
  generalize hN : (lineCommentLoop src F (next src st) 0).2 = numCR at hcnt ⊢
  have hle : st.off - 1 ≤ rst.off := by have := ha.off_le; omega
  have hrs := ha.inv.off_le_size
  rw [sliceP_eq rst hle hrs]
  simp only []
  -- the literal: two slashes, then the scanned text
  have hoffn : (next src st).off ≤ rst.off := by
    have := (lineCommentLoop_adv (src := src) F (next src st) 0 (next_inv hi) hf').off_le
    rw [hE] at this; exact this
  have hsplit : slice src (st.off - 1) rst.off = [0x2F, 0x2F] ++ slice src (next src st).off rst.off := by
    rw [← slice_append (src := src) (a := st.off - 1) (b := st.off) (by omega) (by omega),
      ← slice_append (src := src) (a := st.off) (b := (next src st).off) (by omega) hoffn]
    have e0 : st.off - 1 + 1 = st.off := by omega
    have s0 : slice src (st.off - 1) st.off = [0x2F] := by
      have := slice_one_byte (src := src) (i := st.off - 1) (c := 0x2F) (by omega) hb0
      rw [e0] at this; rw [this]; rfl
    have s1 : slice src st.off (next src st).off = [0x2F] := by
      rw [e1, slice_one_byte hsz (hb1.trans hc)]; rfl
    rw [s0, s1]; rfl
  have hlen2 : 2 ≤ (slice src (st.off - 1) rst.off).length := by rw [hsplit]; simp
  have hsec : (slice src (st.off - 1) rst.off)[1]? = some (0x2F : UInt8) := by rw [hsplit]; rfl
  have hcount : (slice src (st.off - 1) rst.off).count 0x0D = numCR := by
    rw [hsplit, List.count_append]
    have : List.count (0x0D : UInt8) [0x2F, 0x2F] = 0 := by decide
    simp [this, hcnt]
  have hcl2 : (slice src (st.off - 1) rst.off).count 0x0D + 2 ≤ (slice src (st.off - 1) rst.off).length := by
    rw [hsplit, List.count_append, List.length_append]
    have : List.count (0x0D : UInt8) [0x2F, 0x2F] = 0 := by decide
    have h2 : (slice src (next src st).off rst.off).count 0x0D ≤ (slice src (next src st).off rst.off).length :=
      List.count_le_length
    simp only [this, List.length_cons, List.length_nil]
    omega
  generalize slice src (st.off - 1) rst.off = lit0 at hpre hlen2 hsec hcount hcl2 ⊢
  -- strip1, directive, stripCR
  unfold commentStrip1
  by_cases hpos : 0 < numCR
  · by_cases hlast : lit0.getLast? = some (0x0D : UInt8)
    · have hcond : 0 < numCR ∧ 2 ≤ lit0.length ∧ lit0[1]? = some (0x2F : UInt8) ∧ lit0.getLast? = some (0x0D : UInt8) :=
        ⟨hpos, hlen2, hsec, hlast⟩
      simp only [hcond, and_self, if_true]
      have hpre' : linePrefix.isPrefixOf (lit0.dropLast.drop 2) = false := by
        cases hp : linePrefix.isPrefixOf (lit0.dropLast.drop 2) with
        | false => rfl
        | true => rw [prefix_of_dropLast _ _ hp] at hpre; cases hpre
      rw [commentDirective_noPrefix _ _ _ _ hpre']
      have hsec' : lit0.dropLast[1]? = some (0x2F : UInt8) ∨ lit0.dropLast.length < 2 := by
        by_cases hl : 1 < lit0.length - 1
        · left; rw [List.getElem?_dropLast]; simp [hl, hsec]
        · right; simp only [List.length_dropLast]; omega
      unfold commentStripCR
      by_cases hpos2 : 0 < numCR - 1
      · simp only [hpos2, if_true]
        have hl3 : 1 < lit0.dropLast.length := by
          -- at least "//" and two CRs
          have := count_dropLast lit0 hlast
          have hc2 : lit0.dropLast.count 0x0D ≤ lit0.dropLast.length := List.count_le_length
          have : 2 ≤ lit0.length := hlen2
          simp only [List.length_dropLast]
          omega
        rw [List.getElem?_eq_getElem hl3]
        simp only []
        refine ⟨by first | rfl | trivial, ?_⟩
        have hx : lit0.dropLast[1] = (0x2F : UInt8) := by
          rcases hsec' with h | h
          · rw [List.getElem?_eq_getElem hl3] at h; exact Option.some.inj h
          · omega
        simp only [hx]
        have : decide ((0x2F : UInt8) = 0x2A) = false := by decide
        rw [this, stripCR_false_eq, ← stripCRAll_dropLast lit0 hlast]
      · simp only [hpos2, if_false]
        refine ⟨by first | rfl | trivial, ?_⟩
        -- exactly one CR, the last byte: nothing else to strip
        have hone : lit0.dropLast.count 0x0D = 0 := by
          have := count_dropLast lit0 hlast; omega
        rw [stripCRAll_dropLast lit0 hlast]
        exact (stripCRAll_id _ (fun b hb heq => by
          subst heq; exact absurd hb (List.count_eq_zero.mp hone))).symm
    · have hcond : ¬ (0 < numCR ∧ 2 ≤ lit0.length ∧ lit0[1]? = some (0x2F : UInt8) ∧ lit0.getLast? = some (0x0D : UInt8)) :=
        fun h => hlast h.2.2.2
      simp only [hcond, if_false]
      rw [commentDirective_noPrefix _ _ _ _ hpre]
      unfold commentStripCR
      simp only [hpos, if_true]
      rw [List.getElem?_eq_getElem (show 1 < lit0.length by omega)]
      simp only []
      refine ⟨by first | rfl | trivial, ?_⟩
      have hx : lit0[1] = (0x2F : UInt8) := by
        rw [List.getElem?_eq_getElem (show 1 < lit0.length by omega)] at hsec; exact Option.some.inj hsec
      simp only [hx]
      have : decide ((0x2F : UInt8) = 0x2A) = false := by decide
      rw [this, stripCR_false_eq]
  · have hcond : ¬ (0 < numCR ∧ 2 ≤ lit0.length ∧ lit0[1]? = some (0x2F : UInt8) ∧ lit0.getLast? = some (0x0D : UInt8)) :=
      fun h => hpos h.1
    simp only [hcond, if_false]
    rw [commentDirective_noPrefix _ _ _ _ hpre]
    unfold commentStripCR
    simp only [hpos, if_false]
    exact ⟨by first | rfl | trivial, by first | rfl | trivial⟩


/-- `//…` and `/*…*/`: the two scanners agree -/
theorem commentXG_eq_tpl (F : Nat) (st : St) (hi : Inv src st) (hf : src.size - st.off < F) (h1 : 1 ≤ st.off)
    (hc : st.ch = 0x2F ∨ st.ch = 0x2A) (hb0 : byteAt src (st.off - 1) = 0x2F)
    (hok : commentSpanOK src (st.off - 1) (commentLoops .xgo src F st).st.off = true) :
    (scanCommentXG .xgo src F st).st = (scanCommentTpl src F st).st ∧
      (scanCommentXG .xgo src F st).lit = (scanCommentTpl src F st).lit := by
  obtain ⟨hcr, hpre, _⟩ := commentSpanOK_spec hok
  rcases hc with hc | hc
  · exact commentXG_eq_tpl_line F st hi hf h1 hc hb0 hpre
  · obtain ⟨ha, _, _⟩ := commentLoops_ok F st hi hf
    have e : st.off - 1 + 1 = st.off := by omega
    have hb1 := (hi.ascii (show st.ch < 0x80 by omega)).1
    have hcr' := hcr (Or.inr (by rw [e, hb1]; exact hc))
    have hbytes := noCR_bytes (src := src) ha.inv.off_le_size hcr'
    have hnum := commentLoops_noCR F st hi hf (fun k h1 h2 => hbytes k (by omega) h2)
    have hx := scanCommentXG_plain F st hi hf h1 hnum hpre
    rw [scanCommentTpl_eq F st h1 (Or.inr hc), hnum]
    have hle : st.off - 1 ≤ (commentLoops .xgo src F st).st.off := by have := ha.off_le; omega
    rw [sliceP_eq _ hle ha.inv.off_le_size]
    exact ⟨hx.1, by simpa using hx.2⟩

/-- `#…`: the two scanners agree -/
theorem commentXG_eq_sharp (F : Nat) (st : St) (hi : Inv src st) (hf : src.size - st.off < F) (h1 : 1 ≤ st.off)
    (hb : byteAt src (st.off - 1) = 0x23)
    (hok : commentSpanOK src (st.off - 1) (commentLoops .xgo src F st).st.off = true) :
    (scanCommentXG .xgo src F st).st = (scanSharpCommentTpl src F st).st ∧
      (scanCommentXG .xgo src F st).lit = (scanSharpCommentTpl src F st).lit := by
  obtain ⟨hcr, hpre, hq⟩ := commentSpanOK_spec hok
  obtain ⟨ha, _, _⟩ := commentLoops_ok F st hi hf
  have hbytes := noCR_bytes (src := src) ha.inv.off_le_size (hcr (Or.inl hb))
  have e : st.off - 1 + 1 = st.off := by omega
  have hns : st.ch ≠ 0x2F := by
    intro h
    have := (hi.ascii (by omega)).1
    apply hq
    rw [e]
    exact ⟨hb, Or.inl (this.trans h)⟩
  have hnstar : st.ch ≠ 0x2A := by
    intro h
    have := (hi.ascii (by omega)).1
    apply hq
    rw [e]
    exact ⟨hb, Or.inr (this.trans h)⟩
  have hnum := commentLoops_noCR F st hi hf (fun k h1 h2 => hbytes k (by omega) h2)
  have hx := scanCommentXG_plain F st hi hf h1 hnum hpre
  rw [scanSharpCommentTpl_eq F st h1 hns hnstar]
  have hle : st.off - 1 ≤ (commentLoops .xgo src F st).st.off := by have := ha.off_le; omega
  rw [sliceP_eq _ hle ha.inv.off_le_size]
  exact ⟨hx.1, hx.2⟩

end GopModel.Scan
