/-
Lemmas for C32, part 1: the comment scanners of tpl and xgo coincide on comments without
carriage returns, line-directive text and the `#/` `#*` quirk; numbers; kinds.
-/
import GopModel.Lemmas.ScanRun
import GopModel.Model.ScanDomain
namespace GopModel.Scan
open GopModel.Generated

variable {src : Array UInt8}

theorem scanNumber_tpl_eq_xgo (U : UCls) (F : Nat) (st : St) :
    scanNumber .tpl U src F st = scanNumber .xgo U src F st := by
  unfold scanNumber numSuffix
  simp

/-- no CR byte in the scanned range: the CR counter of the `//` loop does not move -/
theorem lineCommentLoop_noCR : ∀ (fuel : Nat) (st : St) (n : Nat), Inv src st → src.size - st.off < fuel →
    (∀ k, st.off ≤ k → k < (lineCommentLoop src fuel st n).1.off → byteAt src k ≠ 0x0D) →
    (lineCommentLoop src fuel st n).2 = n := by
  intro fuel
  induction fuel with
  | zero => intro st _ _ h; omega
  | succ f ih =>
    intro st n hi hf hno
    simp only [lineCommentLoop] at hno ⊢
    split
    · rename_i hc
      rw [if_pos hc] at hno
      have hlt := next_off_lt hi hc.2
      have hadv := lineCommentLoop_adv (src := src) f (next src st) (if st.ch = 0x0D then n + 1 else n)
        (next_inv hi) (loop_step hi hc.2 hf)
      have hncr : st.ch ≠ 0x0D := by
        intro h
        have hb := (hi.ascii (by omega)).1
        exact hno st.off (Nat.le_refl _) (by have := hadv.off_le; omega) (by rw [hb]; exact h)
      simp only [hncr, if_false] at hno ⊢
      exact ih _ _ (next_inv hi) (loop_step hi hc.2 hf) (fun k h1 h2 => hno k (by omega) h2)
    · rfl

theorem blockCommentLoop_noCR : ∀ (fuel : Nat) (st : St) (n nl : Nat), Inv src st → src.size - st.off < fuel →
    (∀ k, st.off ≤ k → k < (blockCommentLoop src fuel st n nl).st.off → byteAt src k ≠ 0x0D) →
    (blockCommentLoop src fuel st n nl).numCR = n := by
  intro fuel
  induction fuel with
  | zero => intro st _ _ _ h; omega
  | succ f ih =>
    intro st n nl hi hf hno
    simp only [blockCommentLoop] at hno ⊢
    split
    · rfl
    · rename_i hc
      rw [if_neg hc] at hno
      have hlt := next_off_lt hi hc
      have hncr : st.ch ≠ 0x0D := by
        intro h
        have hb := (hi.ascii (by omega)).1
        apply hno st.off (Nat.le_refl _) _ (by rw [hb]; exact h)
        split
        · have h3 := next_off_le (src := src) (next_inv hi)
          show st.off < (next src (next src st)).off
          omega
        · exact Nat.lt_of_lt_of_le hlt
            (blockCommentLoop_adv (src := src) f (next src st) _ _ (next_inv hi) (loop_step hi hc hf)).off_le
      simp only [hncr, if_false] at hno ⊢
      split
      · rfl
      · rename_i h2
        rw [if_neg h2] at hno
        exact ih _ _ _ (next_inv hi) (loop_step hi hc hf) (fun k h1 h2 => hno k (by omega) h2)

theorem lineCommentLoop_sharp : ∀ (fuel : Nat) (st : St) (n : Nat),
    (lineCommentLoop src fuel st n).1 = sharpLoop src fuel st := by
  intro fuel
  induction fuel with
  | zero => intro st n; rfl
  | succ f ih =>
    intro st n
    simp only [lineCommentLoop, sharpLoop]
    by_cases hc : st.ch ≠ 0x0A ∧ st.ch ≠ eofCh
    · have hc' : ¬ (st.ch = 0x0A ∨ st.ch = eofCh) := by intro h; rcases h with h | h; exact hc.1 h; exact hc.2 h
      rw [if_pos hc, if_neg hc']
      exact ih _ _
    · have hc' : st.ch = 0x0A ∨ st.ch = eofCh := by
        by_cases h1 : st.ch = 0x0A
        · exact Or.inl h1
        · by_cases h2 : st.ch = eofCh
          · exact Or.inr h2
          · exact absurd ⟨h1, h2⟩ hc
      rw [if_neg hc, if_pos hc']

/-- without the "line " text the line-directive check does nothing -/
theorem commentDirective_noPrefix (st : St) (offs : Nat) (lit : List UInt8) (t : Bool)
    (h : linePrefix.isPrefixOf (lit.drop 2) = false) : commentDirective .xgo st offs lit t = st := by
  unfold commentDirective
  split
  · split
    · rename_i h2
      have h2' : 2 ≤ lit.length := by simpa using h2
      rw [List.getElem?_eq_getElem (show 1 < lit.length by omega)]
      simp [h]
    · rfl
  · rfl

/-- the source span of a comment as the domain predicate sees it -/
theorem commentSpanOK_spec {p e : Nat} (h : commentSpanOK src p e = true) :
    ((byteAt src p = 0x23 ∨ byteAt src (p + 1) = 0x2A) → ∀ b ∈ slice src p e, b ≠ 0x0D) ∧
      linePrefix.isPrefixOf ((slice src p e).drop 2) = false ∧
      ¬ (byteAt src p = 0x23 ∧ (byteAt src (p + 1) = 0x2F ∨ byteAt src (p + 1) = 0x2A)) := by
  unfold commentSpanOK at h
  simp only [Bool.and_eq_true, Bool.not_eq_true'] at h
  obtain ⟨⟨h1, h2⟩, h3⟩ := h
  refine ⟨?_, h2, ?_⟩
  · intro hc b hb heq
    subst heq
    have hcb : (byteAt src p == 0x23 || byteAt src (p + 1) == 0x2A) = true := by
      rcases hc with hc | hc <;> simp [hc]
    rw [hcb, Bool.true_and] at h1
    have : (List.take (e - p) (List.drop p src.toList)).contains 0x0D = true := by
      simpa [slice] using hb
    rw [this] at h1
    cases h1
  · intro ⟨ha, hb⟩
    have : (byteAt src p == 0x23 && (byteAt src (p + 1) == 0x2F || byteAt src (p + 1) == 0x2A)) = true := by
      rcases hb with hb | hb <;> simp [ha, hb]
    rw [this] at h3
    cases h3

theorem slice_mem_byte {a b k : Nat} (h1 : a ≤ k) (h2 : k < b) (h3 : b ≤ src.size) :
    src[k]'(by omega) ∈ slice src a b := by
  have := slice_getElem? (src := src) (a := a) (b := b) (k := k - a) (by omega) h3
  have e : a + (k - a) = k := by omega
  simp only [e] at this
  exact List.mem_of_getElem? this

/-- no CR in the slice: no CR byte in the range -/
theorem noCR_bytes {a b : Nat} (hb : b ≤ src.size) (h : ∀ x ∈ slice src a b, x ≠ 0x0D) :
    ∀ k, a ≤ k → k < b → byteAt src k ≠ 0x0D := by
  intro k h1 h2 heq
  have hm := slice_mem_byte (src := src) h1 h2 hb
  have := h _ hm
  apply this
  rw [byteAt_eq (by omega)] at heq
  apply UInt8.toNat_inj.mp
  rw [heq]; rfl


/-- xgo `scanComment` when the text has neither a CR nor the "line " continuation: the state is
the one behind the comment loop, the literal is the source span -/
theorem scanCommentXG_plain (F : Nat) (st : St) (hi : Inv src st) (hf : src.size - st.off < F) (h1 : 1 ≤ st.off)
    (hnum : (commentLoops .xgo src F st).numCR = 0)
    (hpre : linePrefix.isPrefixOf ((slice src (st.off - 1) (commentLoops .xgo src F st).st.off).drop 2) = false) :
    (scanCommentXG .xgo src F st).st = (commentLoops .xgo src F st).st ∧
      (scanCommentXG .xgo src F st).lit = slice src (st.off - 1) (commentLoops .xgo src F st).st.off := by
  obtain ⟨ha, _, _⟩ := commentLoops_ok F st hi hf
  unfold scanCommentXG
  have h0 : ¬ st.off = 0 := by omega
  simp only [h0, if_false]
  generalize commentLoops .xgo src F st = r at ha hnum hpre ⊢
  have hle : st.off - 1 ≤ r.st.off := by have := ha.off_le; omega
  rw [sliceP_eq r.st hle ha.inv.off_le_size]
  simp only [hnum]
  have hs : commentStrip1 0 (slice src (st.off - 1) r.st.off) = (slice src (st.off - 1) r.st.off, 0) := by
    unfold commentStrip1; simp
  rw [hs]
  simp only []
  rw [commentDirective_noPrefix _ _ _ _ hpre]
  unfold commentStripCR
  simp

/-- no CR byte behind the first byte of the comment: the comment loops count none -/
theorem commentLoops_noCR (F : Nat) (st : St) (hi : Inv src st) (hf : src.size - st.off < F)
    (hno : ∀ k, st.off ≤ k → k < (commentLoops .xgo src F st).st.off → byteAt src k ≠ 0x0D) :
    (commentLoops .xgo src F st).numCR = 0 := by
  unfold commentLoops at hno ⊢
  simp only [] at hno ⊢
  by_cases hs : st.ch = 0x2F
  · have hlt : st.ch < 0x80 := by omega
    have e1 := next_off_ascii hi hlt
    simp only [hs, if_true] at hno ⊢
    exact lineCommentLoop_noCR (src := src) F (next src st) 0 (next_inv hi) (by omega)
      (fun k h1 h2 => hno k (by omega) h2)
  · simp only [hs, if_false, reduceCtorEq, false_or] at hno ⊢
    by_cases hstar : st.ch = 0x2A
    · have hlt : st.ch < 0x80 := by omega
      have e1 := next_off_ascii hi hlt
      simp only [hstar, if_true] at hno ⊢
      have hb : (blockCommentLoop src F (next src st) 0 0).numCR = 0 := by
        apply blockCommentLoop_noCR (src := src) F (next src st) 0 0 (next_inv hi) (by omega)
        intro k h1 h2
        apply hno k (by omega)
        split
        · exact h2
        · simpa using h2
      split
      · exact hb
      · simpa using hb
    · simp only [hstar, if_false] at hno ⊢
      exact lineCommentLoop_noCR (src := src) F st 0 hi hf hno

/-- the tpl `scanComment` written with the (shared) comment loops -/
theorem scanCommentTpl_eq (F : Nat) (st : St) (h1 : 1 ≤ st.off) (hc : st.ch = 0x2F ∨ st.ch = 0x2A) :
    scanCommentTpl src F st =
      ⟨(sliceP src (commentLoops .xgo src F st).st (st.off - 1) (commentLoops .xgo src F st).st.off).1,
       if 0 < (commentLoops .xgo src F st).numCR then
         stripCRAll (sliceP src (commentLoops .xgo src F st).st (st.off - 1) (commentLoops .xgo src F st).st.off).2
       else (sliceP src (commentLoops .xgo src F st).st (st.off - 1) (commentLoops .xgo src F st).st.off).2, 0⟩ := by
  have h0 : ¬ st.off = 0 := by omega
  unfold scanCommentTpl commentLoops
  simp only [h0, if_false]
  rcases hc with h | h
  · simp [h]
  · have hns : ¬ st.ch = 0x2F := by omega
    simp [h]

theorem scanSharpCommentTpl_eq (F : Nat) (st : St) (h1 : 1 ≤ st.off) (hs : st.ch ≠ 0x2F) (hstar : st.ch ≠ 0x2A) :
    scanSharpCommentTpl src F st =
      ⟨(sliceP src (commentLoops .xgo src F st).st (st.off - 1) (commentLoops .xgo src F st).st.off).1,
       (sliceP src (commentLoops .xgo src F st).st (st.off - 1) (commentLoops .xgo src F st).st.off).2, 0⟩ := by
  have h0 : ¬ st.off = 0 := by omega
  unfold scanSharpCommentTpl commentLoops
  simp only [h0, if_false, hs, hstar, reduceCtorEq, or_self]
  rw [← lineCommentLoop_sharp (src := src) F st 0]

/-! ### counting carriage returns exactly -/

/-- the continuation bytes of a multi-byte rune are ≥ 0x80 -/
theorem decodeRune_cont (i : Nat) : ∀ k, 1 ≤ k → k < (decodeRune src i).2 → 0x80 ≤ byteAt src (i + k) := by
  intro k hk1 hk2
  generalize hr : decodeRune src i = r at hk2
  unfold decodeRune at hr
  simp only [] at hr
  repeat' split at hr
  all_goals (subst hr; simp only [] at hk2)
  all_goals first
    | omega
    | (have : k = 1 ∨ k = 2 ∨ k = 3 := by omega
       rcases this with rfl | rfl | rfl <;> omega)

/-- bytes of the character under the cursor: no CR unless the character is CR -/
theorem char_bytes_noCR {st : St} (hi : Inv src st) (hne : st.ch ≠ eofCh) (hcr : st.ch ≠ 0x0D) :
    ∀ k, st.off ≤ k → k < st.rdOff → byteAt src k ≠ 0x0D := by
  intro k h1 h2
  have hw := hi.width hne
  have hdec := hi.decoded
  have hsz : st.off < src.size := by have := hi.adv hne; have := hi.rd_le; omega
  by_cases hb : byteAt src st.off < 0x80
  · simp only [hb, if_true] at hw
    have hk : k = st.off := by omega
    subst hk
    unfold runeAt at hdec
    simp only [hsz, if_true, hb] at hdec
    rw [← hdec]; exact hcr
  · simp only [hb, if_false] at hw
    by_cases hk : k = st.off
    · subst hk; omega
    · have := decodeRune_cont (src := src) st.off (k - st.off) (by omega) (by omega)
      have e : st.off + (k - st.off) = k := by omega
      rw [e] at this
      omega

theorem mem_slice {a b : Nat} {x : UInt8} (hb : b ≤ src.size) (h : x ∈ slice src a b) :
    ∃ k, a ≤ k ∧ k < b ∧ byteAt src k = x.toNat := by
  obtain ⟨i, hi, hx⟩ := List.mem_iff_getElem.mp h
  by_cases hab : a ≤ b
  · rw [slice_length hab hb] at hi
    have := slice_getElem? (src := src) (a := a) (b := b) (k := i) (by omega) hb
    rw [List.getElem?_eq_getElem (by rw [slice_length hab hb]; exact hi)] at this
    simp only [Option.some.injEq] at this
    refine ⟨a + i, by omega, by omega, ?_⟩
    rw [byteAt_eq (by omega), ← this, hx]
  · exfalso
    unfold slice at hi
    simp only [List.length_take, List.length_drop, Array.length_toList] at hi
    omega

theorem count_zero_of_bytes {a b : Nat} (hb : b ≤ src.size) (h : ∀ k, a ≤ k → k < b → byteAt src k ≠ 0x0D) :
    (slice src a b).count 0x0D = 0 := by
  apply List.count_eq_zero.mpr
  intro hm
  obtain ⟨k, h1, h2, h3⟩ := mem_slice hb hm
  exact h k h1 h2 (by rw [h3]; rfl)

/-- the `//` loop counts exactly the CR bytes it passes -/
theorem lineCommentLoop_count_eq : ∀ (fuel : Nat) (st : St) (n : Nat), Inv src st → src.size - st.off < fuel →
    (lineCommentLoop src fuel st n).2 = n + (slice src st.off (lineCommentLoop src fuel st n).1.off).count 0x0D := by
  intro fuel
  induction fuel with
  | zero => intro st _ _ h; omega
  | succ f ih =>
    intro st n hi hf
    simp only [lineCommentLoop]
    split
    · rename_i hc
      have hoffeq := next_off_eq hi
      have hlt := next_off_lt hi hc.2
      have hadv := lineCommentLoop_adv (src := src) f (next src st) (if st.ch = 0x0D then n + 1 else n)
        (next_inv hi) (loop_step hi hc.2 hf)
      have := ih (next src st) (if st.ch = 0x0D then n + 1 else n) (next_inv hi) (loop_step hi hc.2 hf)
      rw [this, ← slice_append (src := src) (a := st.off) (b := (next src st).off) (Nat.le_of_lt hlt) hadv.off_le,
        List.count_append]
      by_cases hcr : st.ch = 0x0D
      · have e1 := next_off_ascii hi (show st.ch < 0x80 by omega)
        have hb := (hi.ascii (show st.ch < 0x80 by omega)).1
        have hsz : st.off < src.size := by have := hi.adv hc.2; have := hi.rd_le; omega
        rw [e1, slice_one_byte hsz (hb.trans hcr)]
        simp only [hcr, if_true]
        have : List.count (0x0D : UInt8) [UInt8.ofNat 0x0D] = 1 := by decide
        rw [this]; omega
      · have hz := count_zero_of_bytes (src := src) (a := st.off) (b := (next src st).off) (next_inv hi).off_le_size
          (by rw [hoffeq]; exact char_bytes_noCR hi hc.2 hcr)
        simp only [hcr, if_false, hz]; omega
    · simp only [slice_self]; simp

end GopModel.Scan
