/-
M3 lemmas, part 4a: the statement of the main induction (`Main e`: the four statements
`StA/StB/StG'/StE` for the printed forms of `e`; `MainL`: argument lists), the derivations per
precedence class, and the lemmas about parameter lists and result lists of lambdas.
-/
import GopModel.Lemmas.ExprRound
namespace GopModel.ExprSyntax
open Gen

structure Main (e : XExpr) : Prop where
  a : StA (toks e highestPrec) (norm e highestPrec) (cost e + 8)
  b : StB (toks e unaryPrec) (norm e unaryPrec) (cost e + 8)
  g : ∀ q, 1 ≤ q → q ≤ unaryPrec → StG' (toks e q) (norm e q) q (cost e + 8)
  e : StE (toks e lowestPrec) (norm e lowestPrec) (cost e + 8)

/-- Argument lists: `parseArgs` on the printed list followed by the optional `...` and `)`. -/
def MainL (l : List XExpr) : Prop :=
  ∀ (acc : List XExpr) (ell : Bool) (r : List Tok), (ell = true → l ≠ []) →
    ∀ n, costL l + 2 ≤ n →
      parseArgs n acc (toksL l ++ ((if ell then [.op .ELLIPSIS] else []) ++ .op .RPAREN :: r)) =
        .ok ((acc.reverse ++ normL l, ell), r)

theorem hconsts : lowestPrec = 0 ∧ unaryPrec = 6 ∧ highestPrec = 7 := ⟨rfl, rfl, rfl⟩

/-- Operand-level nodes: everything follows from the native `StA`. -/
theorem main_of_A (e : XExpr) (hwf : wf e = true) (hp : exprPrec e = highestPrec) (c : Nat)
    (hc : c ≤ cost e) (hA : StA (toks e highestPrec) (norm e highestPrec) c) : Main e := by
  obtain ⟨h0, h6, h7⟩ := hconsts
  obtain ⟨t, tl, hT, _, hs', hps⟩ := toks_head e hwf highestPrec (Nat.le_refl _)
  have hs := hs' (Or.inl (by omega))
  have hpt := hps (Or.inr hp)
  have hx := norm_not_tuple e hwf highestPrec
  have hB : StB (toks e highestPrec) (norm e highestPrec) (c + 3) := StB_of_StA hA hT hpt
  have hG : StG (toks e highestPrec) (norm e highestPrec) (c + 4) := StG_of_StB hB hx
  have hE : StE (toks e highestPrec) (norm e highestPrec) (c + 6) :=
    StE_of_StG' (hG.weak 1) (Nat.le_refl _) hT hs hx
  have eqq : ∀ q, q ≤ highestPrec → toks e q = toks e highestPrec ∧ norm e q = norm e highestPrec :=
    fun q hq => toks_nowrap hwf (by omega) (by omega)
  refine ⟨hA.mono (by omega), ?_, ?_, ?_⟩
  · obtain ⟨e1, e2⟩ := eqq unaryPrec (by omega)
    rw [e1, e2]; exact hB.mono (by omega)
  · intro q _ hq
    obtain ⟨e1, e2⟩ := eqq q (by omega)
    rw [e1, e2]; exact (hG.weak q).mono (by omega)
  · obtain ⟨e1, e2⟩ := eqq lowestPrec (by omega)
    rw [e1, e2]; exact hE.mono (by omega)

/-- Nodes below operand level (`exprPrec e = P < 7`): everything follows from `StG'` at all
`q ≤ P` and, when `P = unaryPrec`, `StB`. -/
theorem main_of_G (e : XExpr) (hwf : wf e = true) (P : Nat) (hp : exprPrec e = P) (hP1 : 1 ≤ P)
    (hP6 : P ≤ unaryPrec) (c : Nat) (hc : c + 8 ≤ cost e + 8)
    (hG : ∀ q, q ≤ P → StG' (toks e q) (norm e q) q c)
    (hB : P = unaryPrec → StB (toks e unaryPrec) (norm e unaryPrec) (cost e + 8)) : Main e := by
  obtain ⟨h0, h6, h7⟩ := hconsts
  -- E from G at 1
  obtain ⟨t, tl, hT, _, hs', _⟩ := toks_head e hwf 1 (by omega)
  have hs := hs' (Or.inl (Nat.le_refl _))
  have hE1 : StE (toks e 1) (norm e 1) (c + 2) :=
    StE_of_StG' (hG 1 hP1) (Nat.le_refl _) hT hs (norm_not_tuple e hwf 1)
  obtain ⟨e01, e02⟩ := toks_nowrap (p := lowestPrec) (p' := 1) hwf (by omega) (by omega)
  have hE : StE (toks e lowestPrec) (norm e lowestPrec) (c + 2) := by rw [e01, e02]; exact hE1
  -- A: wrapped at 7
  obtain ⟨t0, tl0, hT0, hs0, _, _⟩ := toks_head e hwf lowestPrec (by omega)
  obtain ⟨w1, w2⟩ := toks_wrap (p := highestPrec) hwf (by omega) (Nat.le_refl _)
  have hA : StA (toks e highestPrec) (norm e highestPrec) (c + 4) := by
    rw [w1, w2]; exact StA_paren_of_StE hE hT0 hs0
  -- B at 7 (wrapped), then G for wrapped q
  have hB7 : StB (toks e highestPrec) (norm e highestPrec) (c + 7) :=
    StB_of_StA hA (by rw [w1]) rfl
  have hG7 : StG (toks e highestPrec) (norm e highestPrec) (c + 8) :=
    StG_of_StB hB7 (norm_not_tuple e hwf highestPrec)
  have wrapq : ∀ q, P < q → q ≤ highestPrec →
      toks e q = toks e highestPrec ∧ norm e q = norm e highestPrec := by
    intro q h1 h2
    obtain ⟨a1, a2⟩ := toks_wrap (p := q) hwf (by omega) h2
    rw [a1, a2, w1, w2]; exact ⟨rfl, rfl⟩
  refine ⟨hA.mono (by omega), ?_, ?_, hE.mono (by omega)⟩
  · by_cases h : P = unaryPrec
    · exact hB h
    · obtain ⟨a1, a2⟩ := wrapq unaryPrec (by omega) (by omega)
      rw [a1, a2]; exact hB7.mono (by omega)
  · intro q _ hq
    by_cases h : q ≤ P
    · exact (hG q h).mono (by omega)
    · obtain ⟨a1, a2⟩ := wrapq q (by omega) (by omega)
      rw [a1, a2]; exact (hG7.weak q).mono (by omega)

theorem paren_indep {x : XExpr} (hpn : isParenNode x = true) (q q' : Nat) :
    toks x q = toks x q' ∧ norm x q = norm x q' := by
  cases x <;> simp [isParenNode] at hpn
  simp [toks_paren, norm]

/-- Unary-level nodes: everything follows from the native `StB`. -/
theorem main_of_B (e : XExpr) (hwf : wf e = true) (hp : exprPrec e = unaryPrec) (c : Nat)
    (hc : c + 9 ≤ cost e + 8) (hB : StB (toks e unaryPrec) (norm e unaryPrec) c) : Main e := by
  obtain ⟨h0, h6, h7⟩ := hconsts
  refine main_of_G e hwf unaryPrec hp (by omega) (Nat.le_refl _) (c + 1) (by omega) ?_ (fun _ => hB.mono (by omega))
  intro q hq
  obtain ⟨a1, a2⟩ := toks_nowrap (p := q) (p' := unaryPrec) hwf (by omega) (by omega)
  rw [a1, a2]
  exact (StG_of_StB hB (norm_not_tuple e hwf unaryPrec)).weak q

theorem stopsTop_rbrack (r : List Tok) : stopsTop (.op .RBRACK :: r) = true := by
  simp [stopsTop, stopsPrimary, headPrec, headIs, tokPrec, prec, precedence]
theorem stopsTop_comma (r : List Tok) : stopsTop (.op .COMMA :: r) = true := by
  simp [stopsTop, stopsPrimary, headPrec, headIs, tokPrec, prec, precedence]
theorem stopsTop_ellipsis (r : List Tok) : stopsTop (.op .ELLIPSIS :: r) = true := by
  simp [stopsTop, stopsPrimary, headPrec, headIs, tokPrec, prec, precedence]

theorem stopsPrimary_binop {o : Op} (h : isBinOp o = true) (r : List Tok) :
    stopsPrimary (.op o :: r) = true := by
  cases o <;> simp [isBinOp, prec, precedence] at h <;> simp [stopsPrimary]

theorem headPrec_binop {o : Op} (h : isBinOp o = true) (r : List Tok) :
    headPrec (.op o :: r) = prec o := by
  simp [headPrec, (tokPrec_binOp h).1]

theorem costL_cons (e : XExpr) (l : List XExpr) : costL (e :: l) = cost e + 40 + costL l := by
  simp [costL, cost, sizeL]; omega

/-- Lambda expressions (`exprPrec = 0`): everything follows from the native `StE`; every other
context prints them in parentheses. -/
theorem main_of_E (e : XExpr) (hwf : wf e = true) (hp : exprPrec e = lowestPrec) (c : Nat)
    (hc : c + 6 ≤ cost e + 8) (hE : StE (toks e lowestPrec) (norm e lowestPrec) c) : Main e := by
  obtain ⟨h0, h6, h7⟩ := hconsts
  obtain ⟨t0, tl0, hT0, hs0, _, _⟩ := toks_head e hwf lowestPrec (by omega)
  obtain ⟨w1, w2⟩ := toks_wrap (p := highestPrec) hwf (by omega) (Nat.le_refl _)
  have hA : StA (toks e highestPrec) (norm e highestPrec) (c + 2) := by
    rw [w1, w2]; exact StA_paren_of_StE hE hT0 hs0
  have hB7 : StB (toks e highestPrec) (norm e highestPrec) (c + 5) := StB_of_StA hA (by rw [w1]) rfl
  have hG7 : StG (toks e highestPrec) (norm e highestPrec) (c + 6) :=
    StG_of_StB hB7 (norm_not_tuple e hwf highestPrec)
  have wrapq : ∀ q, 1 ≤ q → q ≤ highestPrec →
      toks e q = toks e highestPrec ∧ norm e q = norm e highestPrec := by
    intro q h1 h2
    obtain ⟨a1, a2⟩ := toks_wrap (p := q) hwf (by omega) h2
    rw [a1, a2, w1, w2]; exact ⟨rfl, rfl⟩
  refine ⟨hA.mono (by omega), ?_, ?_, hE.mono (by omega)⟩
  · obtain ⟨a1, a2⟩ := wrapq unaryPrec (by omega) (by omega)
    rw [a1, a2]; exact hB7.mono (by omega)
  · intro q hq1 hq
    obtain ⟨a1, a2⟩ := wrapq q hq1 (by omega)
    rw [a1, a2]; exact (hG7.weak q).mono (by omega)

/-- `, s1, s2, …` -/
def commaIdents : List Str → List Tok
  | [] => []
  | s :: l => .op .COMMA :: .ident s :: commaIdents l

theorem strip_identToks_cons : ∀ (s : Str) (l : List Str),
    strip (identToks (s :: l)) = .ident s :: commaIdents l
  | s, [] => rfl
  | s, s2 :: l => by rw [strip_identToks_cons2, strip_identToks_cons s2 l]; rfl

theorem toIdents_map_ident : ∀ (l : List Str), toIdents? (l.map XExpr.ident) = some l
  | [] => rfl
  | s :: l => by simp [toIdents?, toIdent?, toIdents_map_ident l]

theorem stopsTop_commaIdents (l : List Str) (r : List Tok) :
    stopsTop (commaIdents l ++ .op .RPAREN :: r) = true := by
  cases l with
  | nil => exact stopsTop_rparen r
  | cons s l => exact stopsTop_comma _

theorem main_ident (s : Str) : Main (.ident s) :=
  main_of_A _ rfl rfl 2 (by simp [cost, size]) (by
    intro lhs tup r res M ho hk n hn
    obtain ⟨n', rfl⟩ : ∃ n', n = n' + 2 := ⟨n - 2, by omega⟩
    simp only [toks_ident, norm, List.cons_append, List.nil_append] at hk ⊢
    rw [parsePrimary_step (parseOperand_ident n' lhs tup s r ho) rfl]
    exact hk (n' + 1) (by omega))

/-- An identifier as a complete expression. -/
theorem identE (s : Str) (r : List Tok) (hr : stopsTop r = true) (n : Nat) (hn : 48 ≤ n) :
    parseLambda n false (.ident s :: r) = .ok (.ident s, r) := by
  have := (main_ident s).e r hr n (by simp [cost, size]; omega)
  simpa [toks_ident, norm] using this

theorem parseTupleItems_idents : ∀ (l : List Str) (acc : List XExpr) (r : List Tok) (n : Nat),
    49 + l.length ≤ n →
    parseTupleItems n acc (commaIdents l ++ .op .RPAREN :: r) =
      .ok (.tuple (acc.reverse ++ l.map XExpr.ident) false, r)
  | [], acc, r, n, hn => by
    obtain ⟨n', rfl⟩ : ∃ n', n = n' + 1 := ⟨n - 1, by omega⟩
    simp [commaIdents, parseTupleItems_rparen]
  | s :: l, acc, r, n, hn => by
    obtain ⟨n', rfl⟩ : ∃ n', n = n' + 1 := ⟨n - 1, by omega⟩
    simp only [List.length_cons] at hn
    have h := identE s (commaIdents l ++ .op .RPAREN :: r) (stopsTop_commaIdents l r) n' (by omega)
    simp only [commaIdents, List.cons_append]
    rw [parseTupleItems_comma h, parseTupleItems_idents l (.ident s :: acc) r n' (by omega)]
    simp

theorem stopsPrimary_arrow (R : List Tok) : stopsPrimary (.op .DRARROW :: R) = true := by
  simp [stopsPrimary]

/-- The parameter part of a lambda, parsed by `parseBinaryExpr` with allowTuple, and what the
end of `parseLambdaExpr` makes of it. -/
theorem parse_lhs (lhs : List Str) (lp : Bool) (hl : lp = true ∨ lhs.length ≤ 1)
    (hne : ¬ (lp = false ∧ lhs = [])) (R : List Tok) (n : Nat) (hn : 60 + lhs.length ≤ n) :
    ∃ x, parseBinary n false 1 true (lhsT lhs lp ++ .op .DRARROW :: R) = .ok (x, .op .DRARROW :: R) ∧
      ∀ rl rp r3, lamOf (some x) rl rp r3 = .ok (.lambda lhs lp rl rp, r3) := by
  have hstop : ∀ m x, binaryLoop (m + 1) 1 x (.op .DRARROW :: R) = .ok (x, .op .DRARROW :: R) :=
    fun m x => binaryLoop_stop m 1 x _ rfl (by simp [headPrec, tokPrec, prec, precedence])
  cases lp with
  | false =>
    -- a single identifier
    cases lhs with
    | nil => exact absurd ⟨rfl, rfl⟩ hne
    | cons s rest =>
      cases rest with
      | cons s2 r2 => rcases hl with h | h <;> simp at h
      | nil =>
        refine ⟨.ident s, ?_, fun rl rp r3 => by simp [lamOf, toIdent?]⟩
        have := (main_ident s).g 1 (Nat.le_refl _) (by decide) false true 1 (.op .DRARROW :: R)
          (.ok (.ident s, .op .DRARROW :: R)) 1 (Nat.le_refl _) (stopsPrimary_arrow R)
          (by simp [headPrec, tokPrec, prec, precedence])
          (fun m hm => by
            obtain ⟨m', rfl⟩ : ∃ m', m = m' + 1 := ⟨m - 1, by omega⟩
            exact hstop m' _)
          n (by simp [cost, size]; simp at hn; omega)
        simpa [toks_ident, norm, lhsT] using this
  | true =>
    obtain ⟨n3, rfl⟩ : ∃ n3, n = n3 + 6 := ⟨n - 6, by omega⟩
    cases lhs with
    | nil =>
      refine ⟨.tuple [] false, ?_, fun rl rp r3 => by simp [lamOf, toIdents?]⟩
      simp only [lhsT, if_true, strip_identToks_nil, List.nil_append, List.cons_append]
      have h1 : parseOperand (n3 + 2) false true (.op .LPAREN :: .op .RPAREN :: .op .DRARROW :: R) =
          .ok (.tuple [] false, .op .DRARROW :: R) := parseOperand_unit (n3 + 1) false _
      have h2 : parsePrimary (n3 + 3) false true (.op .LPAREN :: .op .RPAREN :: .op .DRARROW :: R) =
          .ok (.tuple [] false, .op .DRARROW :: R) := parsePrimary_tuple h1 rfl
      have h3 : parseErrWrap (n3 + 4) false true (.op .LPAREN :: .op .RPAREN :: .op .DRARROW :: R) =
          .ok (.tuple [] false, .op .DRARROW :: R) := parseErrWrap_tuple h2
      have h4 : parseUnary (n3 + 5) false true (.op .LPAREN :: .op .RPAREN :: .op .DRARROW :: R) =
          .ok (.tuple [] false, .op .DRARROW :: R) := by
        rw [parseUnary_prim (by rfl)]; exact h3
      exact parseBinary_tuple h4 rfl
    | cons s rest =>
      cases rest with
      | nil =>
        refine ⟨.paren (.ident s), ?_, fun rl rp r3 => by simp [lamOf, toIdent?, unparen]⟩
        simp only [lhsT, if_true, strip_identToks_one, List.cons_append, List.nil_append]
        simp only [List.length_cons, List.length_nil] at hn
        have hi := identE s (.op .RPAREN :: .op .DRARROW :: R) (stopsTop_rparen _) (n3 + 1) (by omega)
        have h1 : parseOperand (n3 + 2) false true (.op .LPAREN :: .ident s :: .op .RPAREN :: .op .DRARROW :: R) =
            .ok (.paren (.ident s), .op .DRARROW :: R) := parseOperand_paren (by rfl) hi
        have h2 : parsePrimary (n3 + 3) false true (.op .LPAREN :: .ident s :: .op .RPAREN :: .op .DRARROW :: R) =
            .ok (.paren (.ident s), .op .DRARROW :: R) := by
          rw [parsePrimary_step h1 rfl]
          exact primaryLoop_stop (n3 + 1) _ _ (stopsLoop_of_stopsPrimary (stopsPrimary_arrow R))
        have h3 : parseErrWrap (n3 + 4) false true (.op .LPAREN :: .ident s :: .op .RPAREN :: .op .DRARROW :: R) =
            .ok (.paren (.ident s), .op .DRARROW :: R) := parseErrWrap_plain h2 (stopsPrimary_arrow R)
        have h4 : parseUnary (n3 + 5) false true (.op .LPAREN :: .ident s :: .op .RPAREN :: .op .DRARROW :: R) =
            .ok (.paren (.ident s), .op .DRARROW :: R) := by
          rw [parseUnary_prim (by rfl)]; exact h3
        rw [parseBinary_step h4 rfl]
        exact hstop _ _
      | cons s2 r2 =>
        refine ⟨.tuple ((s :: s2 :: r2).map XExpr.ident) false, ?_, fun rl rp r3 => by
          simp only [lamOf]; rw [toIdents_map_ident]⟩
        simp only [lhsT, if_true, strip_identToks_cons, commaIdents, List.cons_append, List.append_assoc,
          List.nil_append]
        simp only [List.length_cons] at hn
        have hi := identE s (.op .COMMA :: .ident s2 :: (commaIdents r2 ++ .op .RPAREN :: .op .DRARROW :: R))
          (stopsTop_comma _) (n3 + 1) (by omega)
        have ht := parseTupleItems_idents (s2 :: r2) [.ident s] (.op .DRARROW :: R) (n3 + 1)
          (by simp only [List.length_cons]; omega)
        simp only [commaIdents, List.cons_append] at ht
        have h1 : parseOperand (n3 + 2) false true
            (.op .LPAREN :: .ident s :: .op .COMMA :: .ident s2 :: (commaIdents r2 ++ .op .RPAREN :: .op .DRARROW :: R)) =
            .ok (.tuple (.ident s :: .ident s2 :: r2.map XExpr.ident) false, .op .DRARROW :: R) := by
          rw [parseOperand_tuple (by rfl) hi, ht]; simp
        have h2 : parsePrimary (n3 + 3) false true
            (.op .LPAREN :: .ident s :: .op .COMMA :: .ident s2 :: (commaIdents r2 ++ .op .RPAREN :: .op .DRARROW :: R)) =
            .ok (.tuple (.ident s :: .ident s2 :: r2.map XExpr.ident) false, .op .DRARROW :: R) :=
          parsePrimary_tuple h1 rfl
        have h3 : parseErrWrap (n3 + 4) false true
            (.op .LPAREN :: .ident s :: .op .COMMA :: .ident s2 :: (commaIdents r2 ++ .op .RPAREN :: .op .DRARROW :: R)) =
            .ok (.tuple (.ident s :: .ident s2 :: r2.map XExpr.ident) false, .op .DRARROW :: R) :=
          parseErrWrap_tuple h2
        have h4 : parseUnary (n3 + 5) false true
            (.op .LPAREN :: .ident s :: .op .COMMA :: .ident s2 :: (commaIdents r2 ++ .op .RPAREN :: .op .DRARROW :: R)) =
            .ok (.tuple (.ident s :: .ident s2 :: r2.map XExpr.ident) false, .op .DRARROW :: R) := by
          rw [parseUnary_prim (by rfl)]; exact h3
        have h5 := parseBinary_tuple (p1 := 1) h4 rfl
        simpa using h5

/-- Parenthesised result list of a lambda. -/
theorem mainLR : ∀ (l : List XExpr), (∀ e ∈ l, wf e = true ∧ Main e) → l ≠ [] →
    ∀ (acc : List XExpr) (r : List Tok) (n : Nat), costL l + 2 ≤ n →
      parseLamRhs n acc (toksL l ++ .op .RPAREN :: r) = .ok (acc.reverse ++ normL l, r)
  | [], _, hne, _, _, _, _ => absurd rfl hne
  | [e], h, _, acc, r, n, hn => by
    obtain ⟨h0, h6, h7⟩ := hconsts
    rw [costL_cons] at hn
    obtain ⟨n', rfl⟩ : ∃ n', n = n' + 1 := ⟨n - 1, by omega⟩
    have hl := (h e (by simp)).2.e (.op .RPAREN :: r) (stopsTop_rparen r) n' (by omega)
    rw [toksL_one, parseLamRhs_last hl]
    simp [normL]
  | e :: e2 :: rest, h, _, acc, r, n, hn => by
    obtain ⟨h0, h6, h7⟩ := hconsts
    rw [costL_cons] at hn
    obtain ⟨n', rfl⟩ : ∃ n', n = n' + 1 := ⟨n - 1, by omega⟩
    have hl := (h e (by simp)).2.e (.op .COMMA :: (toksL (e2 :: rest) ++ .op .RPAREN :: r)) (stopsTop_comma _) n' (by omega)
    rw [toksL_cons2]
    simp only [List.append_assoc, List.cons_append]
    rw [parseLamRhs_comma hl,
      mainLR (e2 :: rest) (fun x hx => h x (by simp at hx ⊢; exact Or.inr hx)) (by simp) _ r n' (by omega)]
    simp [normL]

theorem size_pos : ∀ (e : XExpr), 1 ≤ size e
  | .paren x => by
    have := size_pos x
    simp only [size]; split <;> omega
  | .binary .. => by simp [size]
  | .unary .. => by simp [size]
  | .star _ => by simp [size]
  | .selector .. => by simp [size]
  | .index .. => by simp [size]
  | .call .. => by simp [size]
  | .errWrap _ _ none => by simp [size]
  | .errWrap _ _ (some _) => by simp [size]
  | .typeAssert .. => by simp [size]
  | .lambda .. => by simp [size]
  | .ident _ => by simp [size]
  | .lit .. => by simp [size]
  | .numUnit .. => by simp [size]
  | .env .. => by simp [size]
  | .slice .. => by simp [size]
  | .composite .. => by simp [size]
  | .kv .. => by simp [size]
  | .sliceLit .. => by simp [size]
  | .range .. => by simp [size]
  | .tuple .. => by simp [size]
  | .bad => by simp [size]

end GopModel.ExprSyntax
