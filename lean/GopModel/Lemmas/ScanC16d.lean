/-
Lemmas for C16, part 4: one pass through `Scan` of the two scanners from related states.
-/
import GopModel.Lemmas.ScanC16c
namespace GopModel.Scan
open GopModel.Generated

variable {src : Array UInt8}

/-- what the two states look like behind `skipWhitespace` -/
structure After16 (src : Array UInt8) (n : Bool) (ax ag : St) : Prop where
  same : Same ax ag
  inv : Inv src ax
  unit : ax.unitVal = []
  nl : ag.nlPos = none
  semi : ax.insertSemi = ag.insertSemi ∨
    (n = false ∧ ax.insertSemi = true ∧ ag.insertSemi = false ∧ ax.ch ≠ eofCh ∧ ax.ch ≠ 0x0A ∧
      ¬ (ax.ch = 0x2F ∧ ((next src ax).ch = 0x2F ∨ (next src ax).ch = 0x2A)))

theorem skipWs16 (n : Bool) (F : Nat) (hF : src.size < F) {sx sg : St} (hR : R16 src n sx sg) :
    After16 src n (skipWs src F sx) (skipWs src F sg) ∧ sx.off ≤ (skipWs src F sx).off ∧
      (skipWs src F sg).insertSemi = sg.insertSemi := by
  have hi := hR.good.inv
  have hib := hi.ofSame hR.same
  have hf : src.size - sx.off < F := by omega
  have hfb : src.size - sg.off < F := by omega
  have ax := skipWs_adv (src := src) F sx hi hf
  have ag := skipWs_adv (src := src) F sg hib hfb
  refine ⟨?_, ax.off_le, ag.semi⟩
  rcases hR.semi with heq | ⟨hn, h1, h2, h3⟩
  · exact ⟨Same.skipWs F hR.same heq, ax.inv, ax.unit.trans hR.unit, ag.nl.trans hR.nl,
      Or.inl (by rw [ax.semi, ag.semi]; exact heq)⟩
  · obtain ⟨j, hj1, hj2, hj3, hj4, hj5, hj6⟩ := not_lineEnd_spec h3
    have hto := skipWs_to (src := src) j F hR.same hi hj1 hj2 hj3 hj4 hj5 hf
    refine ⟨hto.1, ax.inv, ax.unit.trans hR.unit, ag.nl.trans hR.nl, Or.inr ⟨hn, ?_, ?_, ?_, ?_, ?_⟩⟩
    · rw [ax.semi]; exact h1
    · rw [ag.semi]; exact h2
    · intro he; have := ax.inv.eof he; omega
    · intro he
      have hb := (ax.inv.ascii (by omega)).1
      rw [hto.2, he] at hb
      exact hj5 hb
    · intro ⟨hc1, hc2⟩
      apply hj6
      have hb := (ax.inv.ascii (by omega)).1
      rw [hto.2, hc1] at hb
      refine ⟨hb, ?_⟩
      have e1 := next_off_ascii ax.inv (show (skipWs src F sx).ch < 0x80 by omega)
      have hin := next_inv ax.inv
      rcases hc2 with hc | hc
      · have hb2 := (hin.ascii (by omega)).1
        rw [e1, hto.2, hc] at hb2
        exact Or.inl hb2
      · have hb2 := (hin.ascii (by omega)).1
        rw [e1, hto.2, hc] at hb2
        exact Or.inr hb2


theorem leaf_ite {n : Bool} {c : Prop} [Decidable c] {X1 X2 G1 G2 : St × Option Token}
    {Q : St × Option Token → Prop} (hq : Q (if c then G1 else G2))
    (h1 : c → Q G1 → Leaf16 src n X1 G1) (h2 : ¬c → Q G2 → Leaf16 src n X2 G2) :
    Leaf16 src n (if c then X1 else X2) (if c then G1 else G2) := by
  by_cases hc : c
  · simp only [hc, if_true] at hq ⊢; exact h1 hc hq
  · simp only [hc, if_false] at hq ⊢; exact h2 hc hq

theorem goStepOK_tok {U : UCls} {sg : St} {r : St × Option Token} (h : goStepOK U src sg r = true) :
    ∀ t, r.2 = some t → goTokOK U src t = true := by
  intro t ht
  unfold goStepOK at h
  rw [ht] at h
  simp only [Bool.and_eq_true] at h
  exact h.1

theorem goStepOK_comment {U : UCls} {sg : St} {r : St × Option Token} (h : goStepOK U src sg r = true)
    (hc : r.2 = none ∨ ∃ t, r.2 = some t ∧ t.kind = Tokens.Go.COMMENT) : sg.insertSemi = false := by
  unfold goStepOK at h
  rcases hc with hc | ⟨t, ht, hk⟩
  · rw [hc] at h; simpa using h
  · rw [ht] at h
    simp only [Bool.and_eq_true, Bool.not_eq_true', Bool.and_eq_false_iff] at h
    rcases h.2 with h2 | h2
    · simp [hk] at h2
    · exact h2

theorem scanCommentTok_go_shape (U : UCls) (c n : Bool) (F : Nat) (st : St) (pos : Nat) :
    (scanCommentTok (cfgG U c n) src F st pos false).2 = none ∨
      ∃ t, (scanCommentTok (cfgG U c n) src F st pos false).2 = some t ∧ t.kind = Tokens.Go.COMMENT := by
  unfold scanCommentTok
  simp only [cfgG, if_true]
  cases c with
  | true =>
    simp only [if_true]
    right
    exact ⟨_, (finish_fst _ _ _ _ _ _).2, rfl⟩
  | false =>
    simp only [Bool.false_eq_true, if_false]
    left; trivial

/-- an operator-switch result of go on a byte it does not know is ILLEGAL: outside the domain -/
theorem go_illegal16 {U : UCls} {c n : Bool} {sg st1 : St} {pos ch : Nat} (hl : (codes .go).ops.lookup ch = none)
    (hu : st1.unitVal = []) (hok : goStepOK U src sg (opFinish (cfgG U c n) src st1 pos ch) = true) : False := by
  have ht := goStepOK_tok hok
  unfold opFinish at ht
  simp only [cfgG, hl] at ht
  have key : ∀ st2 : St, st2.unitVal = [] →
      (∀ t, (finish { d := Dialect.go, comments := c, noSemis := n, U := U } st2 pos (codes Dialect.go).ILLEGAL
        (encodeRune ch) st2.insertSemi).2 = some t → goTokOK U src t = true) → False := by
    intro st2 hu2 hk
    have := hk _ (finish_tok_go _ st2 pos _ _ _ hu2)
    exact goTokOK_not_illegal this rfl
  refine key _ ?_ ht
  split
  · exact hu
  · split <;> simp [hu]

theorem step16 (U : UCls) (c n : Bool) {sx sg : St} (hR : R16 src n sx sg)
    (hok : goStepOK U src sg (scanStep (cfgG U c n) src (src.size + 1) sg) = true) :
    Leaf16 src n (scanStep (cfgX U c n) src (src.size + 1) sx) (scanStep (cfgG U c n) src (src.size + 1) sg) := by
  obtain ⟨hA, hoffle, hsemig⟩ := skipWs16 (src := src) n (src.size + 1) (Nat.lt_succ_self _) hR
  have hux := hR.unit
  have hug : sg.unitVal = [] := by rw [← hR.same.unitVal]; exact hux
  unfold scanStep at hok ⊢
  simp only [cfgX, cfgG, reduceCtorEq, if_false, if_true, hR.nl, hux, hug, ne_eq, not_true_eq_false, and_false,
    not_false_eq_true, and_true] at hok ⊢
  generalize skipWs src (src.size + 1) sx = ax at hA hoffle hok ⊢
  generalize skipWs src (src.size + 1) sg = ag at hA hsemig hok ⊢
  have hS := hA.same
  have hi := hA.inv
  have hig := hi.ofSame hS
  have huA := hA.unit
  have hugA : ag.unitVal = [] := by rw [← hS.unitVal]; exact huA
  have hF : src.size < src.size + 1 := Nat.lt_succ_self _
  have hprev : n = true → ax.insertSemi = ag.insertSemi := by
    intro hn
    rcases hA.semi with h | ⟨h, _⟩
    · exact h
    · rw [hn] at h; cases h
  -- align the go side with the xgo side
  have hch : ag.ch = ax.ch := hS.ch.symm
  have hoff : ag.off = ax.off := hS.off.symm
  have hpk : peek src ag = peek src ax := by unfold peek; rw [hS.rdOff]
  have hSn := Same.next (src := src) hS
  have hnch : (next src ag).ch = (next src ax).ch := hSn.ch.symm
  have hnpk : peek src (next src ag) = peek src (next src ax) := by unfold peek; rw [hSn.rdOff]
  simp only [huA, hugA, not_true_eq_false, if_false] at hok ⊢
  rw [hch, hoff, hpk, hnch, hnpk] at hok
  rw [hch, hoff, hpk, hnch, hnpk]
  -- `finish` on states reached from the two aligned states
  have fin : ∀ (sa sb : St) (k : Nat) (lit : List UInt8) (s : Bool), Same sa sb → Adv src ax sa → Adv src ag sb →
      Leaf16 src n (finish { d := Dialect.xgo, comments := c, noSemis := n, U := U } sa ax.off k lit s)
        (finish { d := Dialect.go, comments := c, noSemis := n, U := U } sb ax.off k lit s) := by
    intro sa sb k lit s hs aa ab
    refine finish16 U c n hs (aa.unit.trans huA) (ab.nl.trans hA.nl) ax.off k lit s s ?_ (Or.inl rfl)
    intro hn; rw [aa.semi, ab.semi]; exact hprev hn
  obtain ⟨k1, k2, k3, k4, k5, k6, k7, k8, k9, k10, k11, k12, k13, k14⟩ := codes16
  have a1x := Adv.ofNext hi
  have a1g := Adv.ofNext hig
  refine leaf_ite (Q := fun r => goStepOK U src sg r = true) hok ?_ ?_
  · -- identifier
    intro _ hq
    have := ident16 U c n (src.size + 1) hF hS hi huA hA.nl hprev (by rw [hoff]; exact goStepOK_tok hq)
    rw [hoff] at this
    exact this
  · intro _ hok
    refine leaf_ite (Q := fun r => goStepOK U src sg r = true) hok ?_ ?_
    · -- number
      intro _ hq
      have := number16 U c n (src.size + 1) hF hS hi huA hA.nl hprev (by rw [hoff]; exact goStepOK_tok hq)
      rw [hoff] at this
      exact this
    · intro _ hok
      refine leaf_ite (Q := fun r => goStepOK U src sg r = true) hok ?_ ?_
      · -- end of file
        intro heof hq
        have hse : ax.insertSemi = ag.insertSemi := by
          rcases hA.semi with h | ⟨_, _, _, h, _⟩
          · exact h
          · exact absurd heof h
        simp only [next_insertSemi, hse] at hq ⊢
        refine leaf_ite (Q := fun r => goStepOK U src sg r = true) hq ?_ ?_
        · intro _ _
          exact autoSemi16 U c n hSn (by rw [next_unitVal]; exact huA) (by rw [next_nlPos]; exact hA.nl) ax.off
        · intro _ _
          rw [k2]
          exact fin _ _ _ _ _ hSn a1x a1g
      · intro heof hok
        refine leaf_ite (Q := fun r => goStepOK U src sg r = true) hok ?_ ?_
        · -- newline
          intro _ _
          exact autoSemi16 U c n hSn (by rw [next_unitVal]; exact huA) (by rw [next_nlPos]; exact hA.nl) ax.off
        · intro _ hok
          have hfa : src.size - (next src ax).off < src.size + 1 := by omega
          have hfg : src.size - (next src ag).off < src.size + 1 := by omega
          have hoff1 : 1 ≤ (next src ax).off := by have := next_off_lt hi heof; omega
          have hoff1g : 1 ≤ (next src ag).off := by rw [← hSn.off]; exact hoff1
          refine leaf_ite (Q := fun r => goStepOK U src sg r = true) hok ?_ ?_
          · -- string
            intro _ _
            have hs := Same.scanString (src := src) (src.size + 1) hSn
            rw [← hs.2, k9]
            exact fin _ _ _ _ _ hs.1 (a1x.trans (scanString_ok (src.size + 1) _ a1x.inv hfa).1)
              (a1g.trans (scanString_ok (src.size + 1) _ a1g.inv hfg).1)
          · intro _ hok
            refine leaf_ite (Q := fun r => goStepOK U src sg r = true) hok ?_ ?_
            · -- rune
              intro _ _
              have hs := Same.scanRune (src := src) (src.size + 1) hSn
              rw [← hs.2, k8]
              exact fin _ _ _ _ _ hs.1 (a1x.trans (scanRune_ok (src.size + 1) _ a1x.inv hfa hoff1).1)
                (a1g.trans (scanRune_ok (src.size + 1) _ a1g.inv hfg hoff1g).1)
            · intro _ hok
              refine leaf_ite (Q := fun r => goStepOK U src sg r = true) hok ?_ ?_
              · -- raw string
                intro _ _
                have hs := Same.scanRawString (src := src) (src.size + 1) hSn
                rw [← hs.2, k9]
                exact fin _ _ _ _ _ hs.1 (a1x.trans (scanRawString_ok (src.size + 1) _ a1x.inv hfa).1)
                  (a1g.trans (scanRawString_ok (src.size + 1) _ a1g.inv hfg).1)
              · intro _ hok
                refine leaf_ite (Q := fun r => goStepOK U src sg r = true) hok ?_ ?_
                · -- '.'
                  intro _ hq
                  refine leaf_ite (Q := fun r => goStepOK U src sg r = true) hq ?_ ?_
                  · -- '...'
                    intro _ hq
                    have hS3 := Same.next (src := src) (Same.next (src := src) hSn)
                    have a3x := a1x.thenNext.thenNext
                    have a3g := a1g.thenNext.thenNext
                    rw [k12]
                    simp only [false_and, decide_false, true_and] at hq ⊢
                    have hlen : lineEndOrComment src (next src (next src (next src ax))).off = false := by
                      have ht := goStepOK_tok hq _ (finish_tok_go _ _ _ _ _ _ (a3g.unit.trans hugA))
                      have := goTokOK_lenient ht (Or.inr rfl)
                      simp only at this
                      rw [← hS3.off] at this
                      exact this
                    have key : ∀ (s : Bool),
                        Leaf16 src n (finish { d := Dialect.xgo, comments := c, noSemis := n, U := U } (next src (next src (next src ax))) ax.off (codes Dialect.go).ELLIPSIS [] s)
                          (finish { d := Dialect.go, comments := c, noSemis := n, U := U } (next src (next src (next src ag))) ax.off (codes Dialect.go).ELLIPSIS [] false) := by
                      intro s
                      refine finish16 U c n hS3 (a3x.unit.trans huA) (a3g.nl.trans hA.nl) ax.off _ _ s false ?_ ?_
                      · intro hn; rw [a3x.semi, a3g.semi]; exact hprev hn
                      · cases s with
                        | false => exact Or.inl rfl
                        | true => exact Or.inr ⟨rfl, rfl, hlen⟩
                    exact key _
                  · intro _ _
                    rw [k11]
                    exact fin _ _ _ _ _ hSn a1x a1g
                · intro _ hok
                  refine leaf_ite (Q := fun r => goStepOK U src sg r = true) hok ?_ ?_
                  · -- ';'
                    intro _ _
                    rw [k10]
                    refine finish16 (src := src) U c n ?_ ?_ ?_ ax.off _ _ false false ?_ (Or.inl rfl)
                    · exact Same.mk' rfl hSn.off hSn.rdOff hSn.lineOff hSn.unitVal hSn.nlPos hSn.errs hSn.fail
                    · simp only [next_unitVal]; exact huA
                    · simp only [next_nlPos]; exact hA.nl
                    · intro hn; simp only [next_insertSemi]; exact hprev hn
                  · intro hsc hok
                    have hu1x : (next src ax).unitVal = [] := by rw [next_unitVal]; exact huA
                    have hu1g : (next src ag).unitVal = [] := by rw [next_unitVal]; exact hugA
                    have hn1g : (next src ag).nlPos = none := by rw [next_nlPos]; exact hA.nl
                    have hprev1 : n = true → (next src ax).insertSemi = (next src ag).insertSemi := by
                      intro hn; simp only [next_insertSemi]; exact hprev hn
                    by_cases h35 : ax.ch = 35
                    · -- '#': an illegal character for go/scanner
                      exfalso
                      have hc47 : ¬ (ax.ch = 47 ∧ ((next src ax).ch = 47 ∨ (next src ax).ch = 42)) := by
                        rw [h35]; intro h; omega
                      rw [if_neg hc47] at hok
                      have hok' : goStepOK U src sg (opFinish (cfgG U c n) src (next src ag) ax.off ax.ch) = true := by
                        simpa only [cfgG] using hok
                      exact go_illegal16 (by rw [h35]; decide +kernel) hu1g hok'
                    · rw [if_neg h35]
                      refine leaf_ite (Q := fun r => goStepOK U src sg r = true) hok ?_ ?_
                      · -- comment: no semicolon is pending
                        intro hcm hq
                        have hsg : sg.insertSemi = false := by
                          apply goStepOK_comment hq
                          have := scanCommentTok_go_shape (src := src) U c n (src.size + 1) (next src ag) ax.off
                          simp only [cfgG] at this
                          exact this
                        have hagf : ag.insertSemi = false := hsemig.trans hsg
                        have haxf : ax.insertSemi = false := by
                          rcases hA.semi with h | ⟨_, _, _, _, _, h⟩
                          · rw [h]; exact hagf
                          · exact absurd hcm h
                        have := comment16 U c n (src.size + 1) hF hS hi huA hA.nl hcm.1 hcm.2 haxf hagf
                        simp only [cfgX, cfgG, hoff] at this
                        exact this
                      · -- operators
                        intro _ hq
                        have hq' : goStepOK U src sg (opFinish (cfgG U c n) src (next src ag) ax.off ax.ch) = true := by
                          simpa only [cfgG] using hq
                        have := ops16 U c n hSn a1x.inv hu1x hn1g hprev1 ax.off ax.ch (goStepOK_tok hq')
                        simpa only [cfgX, cfgG] using this

end GopModel.Scan
