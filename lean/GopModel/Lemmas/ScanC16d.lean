/-
Lemmas for C16, part 4: one pass through `Scan` of the two scanners from related states.
-/
import GopModel.Lemmas.ScanC16c
namespace GopModel.Scan
open GopModel.Generated

variable {src : Array UInt8}

/-- what the two states look like behind `skipWhitespace` -/
structure After16 (src : Array UInt8) (n : Bool) (ax ag : St) : Prop where
  same : Same ax ag
  inv : Inv src ax
  unit : ax.unitVal = []
  nl : ag.nlPos = none
  semi : ax.insertSemi = ag.insertSemi ∨
    (n = false ∧ ax.insertSemi = true ∧ ag.insertSemi = false ∧ ax.ch ≠ eofCh ∧ ax.ch ≠ 0x0A ∧
      ¬ (ax.ch = 0x2F ∧ ((next src ax).ch = 0x2F ∨ (next src ax).ch = 0x2A)))

theorem skipWs16 (n : Bool) (F : Nat) (hF : src.size < F) {sx sg : St} (hR : R16 src n sx sg) :
    After16 src n (skipWs src F sx) (skipWs src F sg) ∧ sx.off ≤ (skipWs src F sx).off ∧
      (skipWs src F sg).insertSemi = sg.insertSemi := by
  have hi := hR.good.inv
  have hib := hi.ofSame hR.same
  have hf : src.size - sx.off < F := by omega
  have hfb : src.size - sg.off < F := by omega
  have ax := skipWs_adv (src := src) F sx hi hf
  have ag := skipWs_adv (src := src) F sg hib hfb
  refine ⟨?_, ax.off_le, ag.semi⟩
  rcases hR.semi with heq | ⟨hn, h1, h2, h3⟩
  · exact ⟨Same.skipWs F hR.same heq, ax.inv, ax.unit.trans hR.unit, ag.nl.trans hR.nl,
      Or.inl (by rw [ax.semi, ag.semi]; exact heq)⟩
  · obtain ⟨j, hj1, hj2, hj3, hj4, hj5, hj6⟩ := not_lineEnd_spec h3
    have hto := skipWs_to (src := src) j F hR.same hi hj1 hj2 hj3 hj4 hj5 hf
    refine ⟨hto.1, ax.inv, ax.unit.trans hR.unit, ag.nl.trans hR.nl, Or.inr ⟨hn, ?_, ?_, ?_, ?_, ?_⟩⟩
    · rw [ax.semi]; exact h1
    · rw [ag.semi]; exact h2
    · intro he; have := ax.inv.eof he; omega
    · intro he
      have hb := (ax.inv.ascii (by omega)).1
      rw [hto.2, he] at hb
      exact hj5 hb
    · intro ⟨hc1, hc2⟩
      apply hj6
      have hb := (ax.inv.ascii (by omega)).1
      rw [hto.2, hc1] at hb
      refine ⟨hb, ?_⟩
      have e1 := next_off_ascii ax.inv (show (skipWs src F sx).ch < 0x80 by omega)
      have hin := next_inv ax.inv
      rcases hc2 with hc | hc
      · have hb2 := (hin.ascii (by omega)).1
        rw [e1, hto.2, hc] at hb2
        exact Or.inl hb2
      · have hb2 := (hin.ascii (by omega)).1
        rw [e1, hto.2, hc] at hb2
        exact Or.inr hb2

end GopModel.Scan
