/-
Lemmas for M1, part 7: the token loop (`scanLoop`, `scan`) for the dialects xgo and tpl:
it ends with `done` and the produced tokens form a `Seq` (ordered, well-formed, gap = white space).
-/
import GopModel.Lemmas.ScanStep2
namespace GopModel.Scan
open GopModel.Generated

variable {src : Array UInt8}

/-- facts about one returned token, relative to the frontier `f` before it -/
structure TokFacts (cfg : Cfg) (src : Array UInt8) (f : Nat) (t : Token) : Prop where
  pos_ge : f ≤ t.pos
  pos_le : t.pos ≤ t.stop
  stop_le : t.stop ≤ src.size
  gap : ∀ i, f ≤ i → i < t.pos → isWsByte (byteAt src i)
  ok : TokOK cfg.d src t

/-- the tokens produced from frontier `f` until EOF -/
inductive Seq (cfg : Cfg) (src : Array UInt8) : Nat → List Token → Prop where
  | last (f : Nat) (t : Token) : TokFacts cfg src f t → t.kind = (codes cfg.d).EOF → t.pos = src.size →
      Seq cfg src f [t]
  | cons (f : Nat) (t : Token) (ts : List Token) : TokFacts cfg src f t → t.kind ≠ (codes cfg.d).EOF →
      Seq cfg src t.stop ts → Seq cfg src f (t :: ts)
  | skip (f f' : Nat) (ts : List Token) : f ≤ f' → cfg.comments = false → Seq cfg src f' ts → Seq cfg src f ts

theorem scanLoop_spec (cfg : Cfg) (hd : cfg.d ≠ .go) : ∀ (fuel : Nat) (st : St) (acc : List Token),
    Good src st → mu src st < fuel →
    ∃ ts errs, scanLoop cfg src fuel st acc = ⟨acc.reverse ++ ts, errs, .done⟩ ∧ Seq cfg src (frontier st) ts := by
  intro fuel
  induction fuel with
  | zero => intro st acc _ h; omega
  | succ f ih =>
    intro st acc hg hmu
    have hs := scanStep_spec cfg hd (src.size + 1) (Nat.lt_succ_self _) hg
    simp only [scanLoop]
    generalize scanStep cfg src (src.size + 1) st = r at hs ⊢
    have hok := hs.good.ok
    rw [hok]
    simp only []
    cases hr : r.2 with
    | none =>
      simp only []
      have hprog : mu src r.1 < mu src st := by
        rcases hs.progress with ⟨t, ht, _⟩ | h
        · rw [hr] at ht; cases ht
        · exact h
      obtain ⟨ts, errs, he, hseq⟩ := ih r.1 acc hs.good (by omega)
      exact ⟨ts, errs, he, Seq.skip _ _ _ hs.front (hs.skip hr) hseq⟩
    | some t =>
      simp only []
      obtain ⟨h1, h2, h3, h4, h5⟩ := hs.tok t hr
      have hfacts : TokFacts cfg src (frontier st) t :=
        ⟨h1, h2, by rw [h3]; exact hs.good.frontier_le, h4, h5⟩
      by_cases hk : t.kind = (codes cfg.d).EOF
      · simp only [hk, if_true]
        refine ⟨[t], r.1.errs.reverse, by simp, ?_⟩
        exact Seq.last _ _ hfacts hk (h5.eof_pos hd hk)
      · simp only [hk, if_false]
        have hprog : mu src r.1 < mu src st := by
          rcases hs.progress with ⟨t', ht', hk', _⟩ | h
          · rw [hr] at ht'; cases ht'; exact absurd hk' hk
          · exact h
        obtain ⟨ts, errs, he, hseq⟩ := ih r.1 (t :: acc) hs.good (by omega)
        refine ⟨t :: ts, errs, by rw [he]; simp, ?_⟩
        rw [← h3] at hseq
        exact Seq.cons _ _ _ hfacts hk hseq


/-- `scan` finishes (dialects xgo, tpl): neither out of fuel nor a panic -/
theorem scan_done (cfg : Cfg) (hd : cfg.d ≠ .go) (src : Array UInt8) : (scan cfg src).status = .done := by
  have hg : Good src (initSt src) := ⟨initSt_inv src, initSt_fail src, by simp, by simp [slice_self]⟩
  have hmu : mu src (initSt src) < scanFuel src := by
    unfold mu scanFuel; simp; omega
  obtain ⟨ts, errs, he, _⟩ := scanLoop_spec cfg hd (scanFuel src) (initSt src) [] hg hmu
  unfold scan
  rw [he]

end GopModel.Scan
