/-
M3 lemmas, part 6: the item list printed for a well-formed tree is sound (`soundAux`).
-/
import GopModel.Lemmas.ExprBlank
namespace GopModel.ExprSyntax
open Gen

/-- The values `walkBinary` gives to `maxProblem`. -/
def mpOK (n : Nat) : Prop := n = 0 ∨ 4 ≤ n

theorem mpOK_merge {a b : WB} (ha : mpOK a.maxProblem) (hb : mpOK b.maxProblem) :
    mpOK (wbMerge a b).maxProblem := by
  simp only [wbMerge]; split <;> assumption

theorem mpOK_left {p : Nat} {w0 wx : WB} {x : XExpr} (h0 : mpOK w0.maxProblem) (hx : mpOK wx.maxProblem) :
    mpOK (wbLeft p w0 x wx).maxProblem := by
  cases x <;> simp only [wbLeft] <;> try assumption
  split
  · assumption
  · exact mpOK_merge h0 hx

theorem mpOK_right {op : Op} {p : Nat} {w1 wy : WB} {y : XExpr} (h1 : mpOK w1.maxProblem)
    (hy : mpOK wy.maxProblem) : mpOK (wbRight op p w1 y wy).maxProblem := by
  cases y <;> simp only [wbRight] <;> try assumption
  · split
    · assumption
    · exact mpOK_merge h1 hy
  · split
    · exact Or.inr (by simp)
    · split
      · split
        · exact Or.inr (by simp)
        · assumption
      · assumption
  · split
    · exact Or.inr (by simp)
    · assumption

theorem walkBinary_maxProblem : ∀ (e : XExpr), mpOK (walkBinary e).maxProblem
  | .binary op x y => by
    simp only [walkBinary]
    exact mpOK_right (mpOK_left (Or.inl rfl) (walkBinary_maxProblem x)) (walkBinary_maxProblem y)
  | .ident _ => by simp [walkBinary, mpOK]
  | .lit _ _ => by simp [walkBinary, mpOK]
  | .numUnit _ _ _ => by simp [walkBinary, mpOK]
  | .unary _ _ => by simp [walkBinary, mpOK]
  | .star _ => by simp [walkBinary, mpOK]
  | .paren _ => by simp [walkBinary, mpOK]
  | .selector _ _ => by simp [walkBinary, mpOK]
  | .index _ _ => by simp [walkBinary, mpOK]
  | .slice .. => by simp [walkBinary, mpOK]
  | .call .. => by simp [walkBinary, mpOK]
  | .composite .. => by simp [walkBinary, mpOK]
  | .kv .. => by simp [walkBinary, mpOK]
  | .sliceLit .. => by simp [walkBinary, mpOK]
  | .lambda .. => by simp [walkBinary, mpOK]
  | .errWrap .. => by simp [walkBinary, mpOK]
  | .env .. => by simp [walkBinary, mpOK]
  | .typeAssert .. => by simp [walkBinary, mpOK]
  | .range .. => by simp [walkBinary, mpOK]
  | .tuple .. => by simp [walkBinary, mpOK]
  | .bad => by simp [walkBinary, mpOK]

theorem cutoff_ge (e : XExpr) (d : Nat) : 4 ≤ cutoff e d := by
  have h := walkBinary_maxProblem e
  simp only [cutoff]
  split
  · rcases h with h | h <;> omega
  · split <;> split <;> omega

/-- Parenthesised item list. -/
def wrapI (b : Bool) (l : List PTok) : List PTok :=
  if b then pop .LPAREN :: l ++ [pop .RPAREN] else l

/-- Shape of the BinaryExpr case: the depths and the blank decision are hidden, except that
blanks are omitted only around operators of precedence ≥ 4. -/
theorem printE_binary_shape (op : Op) (x y : XExpr) (p d0 : Nat) :
    ∃ d1 d2 bl, (bl = false → 4 ≤ prec op) ∧
      printE (.binary op x y) p d0 =
        wrapI (decide (prec op < p))
          (printE x (prec op) d1 ++ optBlank bl ++ [pop op] ++ optBlank bl ++ printE y (prec op + 1) d2) := by
  simp only [printE, wrapI]
  refine ⟨_, _, _, ?_, rfl⟩
  intro hbl
  have := cutoff_ge (.binary op x y)
    (if decide (prec op < p) = true then ratAdj y (reduceDepth (ratAdj y d0)) else ratAdj y d0)
  simp at hbl
  omega

/-- What the induction establishes for an item list `l` printed after state `last`. -/
def SoundFrom (last : Option Tok) (l : List PTok) : Prop :=
  soundAux last l = true ∧ ∃ lt, endState last l = some lt ∧ isEnd lt = true

theorem soundFrom_single {last : Option Tok} {x : Tok} (hl : okBefore last = true)
    (hs : isStart x = true) (he : isEnd x = true) : SoundFrom last [.t x] :=
  ⟨by simp [soundAux, pairLast_before_start hl hs], x, rfl, he⟩

/-- Sequencing: `a`, then items `b` whose soundness is known from the end state of `a`. -/
theorem soundFrom_append {last : Option Tok} {a b : List PTok}
    (ha : SoundFrom last a)
    (hb : ∀ lt, isEnd lt = true → SoundFrom (some lt) b) : SoundFrom last (a ++ b) := by
  obtain ⟨h1, lt, h2, h3⟩ := ha
  obtain ⟨h4, lt', h5, h6⟩ := hb lt h3
  refine ⟨by rw [soundAux_append, h1, h2, h4]; rfl, lt', by rw [endState_append, h2, h5], h6⟩

/-- After an expression: a closing / postfix operator token `o`, then nothing. -/
theorem soundFrom_after {lt : Tok} {o : Op} (hlt : isEnd lt = true) (ho : isAfterOp o = true)
    (he : isEnd (.op o) = true) : SoundFrom (some lt) [pop o] :=
  ⟨by simp [soundAux, pop, pairLast, pairOK_end_after hlt ho], .op o, rfl, he⟩

theorem soundFrom_wrap {last : Option Tok} {l : List PTok} (b : Bool) (hl : okBefore last = true)
    (h : ∀ last', okBefore last' = true → SoundFrom last' l) : SoundFrom last (wrapI b l) := by
  cases b with
  | false => exact h last hl
  | true =>
    simp only [wrapI, if_true]
    have h1 : SoundFrom last ([pop .LPAREN] ++ (l ++ [pop .RPAREN])) := by
      refine soundFrom_append ?_ ?_
      · exact ⟨by simp [soundAux, pop, pairLast_before_start hl (by rfl : isStart (.op .LPAREN) = true)],
          .op .LPAREN, rfl, ?_⟩
        sorry
      · sorry
    simpa using h1

end GopModel.ExprSyntax
