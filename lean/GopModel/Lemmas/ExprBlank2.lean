/-
M3 lemmas, part 6: the item list printed for a well-formed tree is sound (`soundAux`).
-/
import GopModel.Lemmas.ExprBlank
namespace GopModel.ExprSyntax
open Gen

/-- The values `walkBinary` gives to `maxProblem`. -/
def mpOK (n : Nat) : Prop := n = 0 ∨ 4 ≤ n

theorem mpOK_merge {a b : WB} (ha : mpOK a.maxProblem) (hb : mpOK b.maxProblem) :
    mpOK (wbMerge a b).maxProblem := by
  simp only [wbMerge]; split <;> assumption

theorem mpOK_left {p : Nat} {w0 wx : WB} {x : XExpr} (h0 : mpOK w0.maxProblem) (hx : mpOK wx.maxProblem) :
    mpOK (wbLeft p w0 x wx).maxProblem := by
  cases x <;> simp only [wbLeft] <;> try assumption
  split
  · assumption
  · exact mpOK_merge h0 hx

theorem mpOK_right {op : Op} {p : Nat} {w1 wy : WB} {y : XExpr} (h1 : mpOK w1.maxProblem)
    (hy : mpOK wy.maxProblem) : mpOK (wbRight op p w1 y wy).maxProblem := by
  cases y <;> simp only [wbRight] <;> try assumption
  · split
    · assumption
    · exact mpOK_merge h1 hy
  · split
    · exact Or.inr (by simp)
    · split
      · split
        · exact Or.inr (by simp)
        · assumption
      · assumption
  · split
    · exact Or.inr (by simp)
    · assumption

theorem walkBinary_maxProblem : ∀ (e : XExpr), mpOK (walkBinary e).maxProblem
  | .binary op x y => by
    simp only [walkBinary]
    exact mpOK_right (mpOK_left (Or.inl rfl) (walkBinary_maxProblem x)) (walkBinary_maxProblem y)
  | .ident _ => by simp [walkBinary, mpOK]
  | .lit _ _ => by simp [walkBinary, mpOK]
  | .numUnit _ _ _ => by simp [walkBinary, mpOK]
  | .unary _ _ => by simp [walkBinary, mpOK]
  | .star _ => by simp [walkBinary, mpOK]
  | .paren _ => by simp [walkBinary, mpOK]
  | .selector _ _ => by simp [walkBinary, mpOK]
  | .index _ _ => by simp [walkBinary, mpOK]
  | .slice .. => by simp [walkBinary, mpOK]
  | .call .. => by simp [walkBinary, mpOK]
  | .composite .. => by simp [walkBinary, mpOK]
  | .kv .. => by simp [walkBinary, mpOK]
  | .sliceLit .. => by simp [walkBinary, mpOK]
  | .lambda .. => by simp [walkBinary, mpOK]
  | .errWrap .. => by simp [walkBinary, mpOK]
  | .env .. => by simp [walkBinary, mpOK]
  | .typeAssert .. => by simp [walkBinary, mpOK]
  | .range .. => by simp [walkBinary, mpOK]
  | .tuple .. => by simp [walkBinary, mpOK]
  | .bad => by simp [walkBinary, mpOK]

theorem cutoff_ge (e : XExpr) (d : Nat) : 4 ≤ cutoff e d := by
  have h := walkBinary_maxProblem e
  simp only [cutoff]
  split
  · rcases h with h | h <;> omega
  · split <;> split <;> omega

/-- Parenthesised item list. -/
def wrapI (b : Bool) (l : List PTok) : List PTok :=
  if b then pop .LPAREN :: l ++ [pop .RPAREN] else l

/-- Shape of the BinaryExpr case: the depths and the blank decision are hidden, except that
blanks are omitted only around operators of precedence ≥ 4. -/
theorem printE_binary_shape (op : Op) (x y : XExpr) (p d0 : Nat) :
    ∃ d1 d2 bl, (bl = false → 4 ≤ prec op) ∧
      printE (.binary op x y) p d0 =
        wrapI (decide (prec op < p))
          (printE x (prec op) d1 ++ optBlank bl ++ [pop op] ++ optBlank bl ++ printE y (prec op + 1) d2) := by
  simp only [printE, wrapI]
  refine ⟨_, _, _, ?_, rfl⟩
  intro hbl
  simp only [decide_eq_false_iff_not, Nat.not_lt] at hbl
  exact Nat.le_trans (cutoff_ge _ _) hbl

/-- `l`, printed after state `last`, is sound and leaves state `st`. -/
def SoundTo (last : Option Tok) (l : List PTok) (st : Option Tok) : Prop :=
  soundAux last l = true ∧ endState last l = st

/-- What the induction establishes for the items of an expression printed after `last`. -/
def SoundFrom (last : Option Tok) (l : List PTok) : Prop :=
  ∃ lt, SoundTo last l (some lt) ∧ isEnd lt = true

theorem SoundTo.append {last st st' : Option Tok} {a b : List PTok}
    (ha : SoundTo last a st) (hb : SoundTo st b st') : SoundTo last (a ++ b) st' :=
  ⟨by rw [soundAux_append, ha.1, ha.2, hb.1]; rfl, by rw [endState_append, ha.2, hb.2]⟩

theorem soundTo_tok {last : Option Tok} {x : Tok} (h : pairLast last x = true) :
    SoundTo last [.t x] (some x) := ⟨by simp [soundAux, h], rfl⟩

theorem soundTo_blank (last : Option Tok) : SoundTo last [.blank] none := ⟨rfl, rfl⟩
theorem soundTo_nil (last : Option Tok) : SoundTo last [] last := ⟨rfl, rfl⟩

theorem soundTo_start {last : Option Tok} {x : Tok} (hl : okBefore last = true)
    (hs : isStart x = true) : SoundTo last [.t x] (some x) :=
  soundTo_tok (pairLast_before_start hl hs)

theorem soundTo_after {lt : Tok} {o : Op} (hlt : isEnd lt = true) (ho : isAfterOp o = true) :
    SoundTo (some lt) [pop o] (some (.op o)) :=
  soundTo_tok (by simp [pairLast, pairOK_end_after hlt ho])

theorem SoundFrom.then {last st : Option Tok} {a b : List PTok} (ha : SoundFrom last a)
    (hb : ∀ lt, isEnd lt = true → SoundTo (some lt) b st) : SoundTo last (a ++ b) st := by
  obtain ⟨lt, h1, h2⟩ := ha
  exact h1.append (hb lt h2)

theorem soundFrom_wrap {last : Option Tok} {l : List PTok} (b : Bool) (hl : okBefore last = true)
    (hin : b = true → SoundFrom (some (.op .LPAREN)) l) (hout : b = false → SoundFrom last l) :
    SoundFrom last (wrapI b l) := by
  cases b with
  | false => exact hout rfl
  | true =>
    simp only [wrapI, if_true]
    have h1 : SoundTo last ([pop .LPAREN] ++ (l ++ [pop .RPAREN])) (some (.op .RPAREN)) :=
      (soundTo_start hl (by rfl)).append
        ((hin rfl).then (fun lt hlt => soundTo_after hlt (by rfl)))
    exact ⟨.op .RPAREN, by simpa using h1, rfl⟩

theorem isBefore_unop {o : Op} (h : (isUnaryOp o || o == .ARROW) = true) : isBefore (.op o) = true := by
  cases o <;> simp [isUnaryOp] at h <;> simp [isBefore, isUnaryOp]

theorem isBefore_binop {o : Op} (h : isBinOp o = true) : isBefore (.op o) = true := by
  simp [isBefore, h]

theorem pairOK_op_word (o : Op) (s : Str) : pairOK (.op o) (.ident s) = true := by
  simp [pairOK, combines]

theorem pairOK_ident_op (s : Str) (o : Op) : pairOK (.ident s) (.op o) = true := by
  simp [pairOK, combines]

theorem pairOK_lit_unit (k : LitKind) (v u : Str) : pairOK (.lit k v) (.unit u) = true := by
  cases k <;> simp [pairOK, combines]

/-- The printed form starts with `=>` (a lambda without parameters, not parenthesised). -/
def startsArrow : XExpr → Nat → Bool
  | .lambda [] false _ _, p => p == lowestPrec
  | _, _ => false

/-- Delimiters after which the printer writes an expression at the lowest precedence. -/
def okDelim : Option Tok → Bool
  | none => true
  | some (.op o) => o == .LPAREN || o == .LBRACK || o == .COLON
  | _ => false

/-- The state before printing `e` at precedence `p` is acceptable. -/
def OkFor (e : XExpr) (p : Nat) (last : Option Tok) : Prop :=
  okBefore last = true ∧ (startsArrow e p = true → okDelim last = true)

theorem okBefore_of_okDelim {last : Option Tok} (h : okDelim last = true) : okBefore last = true := by
  cases last with
  | none => rfl
  | some t =>
    cases t with
    | op o => cases o <;> simp [okDelim] at h <;> simp [okBefore, isBefore]
    | _ => simp [okDelim] at h

theorem okFor_delim {e : XExpr} {p : Nat} {last : Option Tok} (h : okDelim last = true) : OkFor e p last :=
  ⟨okBefore_of_okDelim h, fun _ => h⟩

theorem okFor_pos {e : XExpr} {p : Nat} {last : Option Tok} (hp : 1 ≤ p) (h : okBefore last = true) :
    OkFor e p last := by
  refine ⟨h, fun hc => ?_⟩
  cases e <;> simp [startsArrow] at hc
  rename_i lhs lp rhs rp
  cases lhs <;> cases lp <;> simp [lowestPrec] at hc
  omega

theorem okFor_notArrow {e : XExpr} {p : Nat} {last : Option Tok} (hn : startsArrow e p = false)
    (h : okBefore last = true) : OkFor e p last :=
  ⟨h, fun hc => by rw [hn] at hc; cases hc⟩

theorem pairLast_delim_arrow {last : Option Tok} (h : okDelim last = true) :
    pairLast last (.op .DRARROW) = true := by
  cases last with
  | none => rfl
  | some t =>
    cases t with
    | op o => cases o <;> simp [okDelim] at h <;> decide
    | _ => simp [okDelim] at h

/-- Parameter names separated by `, `. -/
theorem soundTo_identToks : ∀ (s : Str) (l : List Str) (last : Option Tok), pairLast last (.ident s) = true →
    ∃ s', SoundTo last (identToks (s :: l)) (some (.ident s'))
  | s, [], last, h => ⟨s, soundTo_tok h⟩
  | s, s2 :: l, last, h => by
    obtain ⟨s', hs'⟩ := soundTo_identToks s2 l none rfl
    refine ⟨s', ?_⟩
    have := (soundTo_tok (x := .ident s) h).append
      ((soundTo_tok (last := some (.ident s)) (x := .op .COMMA) (by simp [pairLast, pairOK_ident_op])).append
        ((soundTo_blank _).append hs'))
    simpa [identToks, pop] using this

/-- Items of the parameter part / result part of a lambda (as in the LambdaExpr case of `printE`). -/
def lamLhsI (lhs : List Str) (lp : Bool) : List PTok :=
  if lp = true then pop .LPAREN :: identToks lhs ++ [pop .RPAREN, .blank]
  else match lhs with
    | [] => []
    | s :: _ => [.t (.ident s), .blank]

def lamRhsI (rhs : List XExpr) (rp : Bool) : List PTok :=
  if rp = true then pop .LPAREN :: printL rhs 1 ++ [pop .RPAREN]
  else match rhs with
    | [] => [.bad]
    | e :: _ => printE e lowestPrec 1

theorem printE_lambda_shape (lhs : List Str) (lp : Bool) (rhs : List XExpr) (rp : Bool) (p d : Nat) :
    printE (.lambda lhs lp rhs rp) p d =
      wrapI (decide (lowestPrec < p)) (lamLhsI lhs lp ++ [pop .DRARROW, .blank] ++ lamRhsI rhs rp) := by
  cases lhs <;> cases rhs <;> cases lp <;> cases rp <;> simp [printE, wrapI, lamLhsI, lamRhsI]

theorem startsArrow_paren {x : XExpr} (h : isParenNode x = true) (p : Nat) : startsArrow x p = false := by
  cases x <;> simp [isParenNode] at h
  rfl

mutual
theorem sound_printE : ∀ (e : XExpr), wf e = true → ∀ (p d : Nat) (last : Option Tok),
    OkFor e p last → SoundFrom last (printE e p d)
  | .ident s, _, p, d, last, hl => by
    simp only [printE]; exact ⟨_, soundTo_start hl.1 rfl, rfl⟩
  | .lit k v, _, p, d, last, hl => by
    simp only [printE]; exact ⟨_, soundTo_start hl.1 rfl, rfl⟩
  | .numUnit k v u, _, p, d, last, hl => by
    simp only [printE]
    exact ⟨.unit u, (soundTo_start (x := .lit k v) hl.1 rfl).append
      (soundTo_tok (by simp [pairLast, pairOK_lit_unit])), rfl⟩
  | .env s b, _, p, d, last, hl => by
    simp only [printE]
    cases b
    · exact ⟨.ident s, (soundTo_start (x := .op .ENV) hl.1 rfl).append
        (soundTo_tok (by simp [pairLast, pairOK_op_word])), rfl⟩
    · simp only [if_true]
      exact ⟨.op .RBRACE, (soundTo_start (x := .op .ENV) hl.1 rfl).append
        ((soundTo_tok (x := .op .LBRACE) (by decide)).append
          ((soundTo_tok (x := .ident s) (by simp [pairLast, pairOK_op_word])).append
            (soundTo_tok (x := .op .RBRACE) (by simp [pairLast, pairOK_ident_op])))), rfl⟩
  | .binary op x y, h, p, d, last, hl => by
    have h' := h
    simp only [wf, Bool.and_eq_true] at h'
    obtain ⟨⟨hop, hx⟩, hy⟩ := h'
    have hP : 1 ≤ prec op ∧ prec op < unaryPrec := by simpa [isBinOp] using hop
    obtain ⟨d1, d2, bl, hbl, heq⟩ := printE_binary_shape op x y p d
    rw [heq]
    have body : ∀ last', okBefore last' = true →
        SoundFrom last' (printE x (prec op) d1 ++ optBlank bl ++ [pop op] ++ optBlank bl ++ printE y (prec op + 1) d2) := by
      intro last' hl'
      have ihx := sound_printE x hx (prec op) d1 last' (okFor_pos hP.1 hl')
      simp only [List.append_assoc]
      cases bl with
      | true =>
        obtain ⟨lty, hy1, hy2⟩ := sound_printE y hy (prec op + 1) d2 none (okFor_pos (by omega) rfl)
        exact ⟨lty, ihx.then (fun lt _ => (soundTo_blank _).append
          ((soundTo_tok (x := .op op) rfl).append ((soundTo_blank _).append hy1))), hy2⟩
      | false =>
        obtain ⟨lty, hy1, hy2⟩ := sound_printE y hy (prec op + 1) d2 (some (.op op))
          (okFor_pos (by omega) (isBefore_binop hop))
        exact ⟨lty, ihx.then (fun lt hlt => (soundTo_nil _).append
          ((soundTo_tok (x := .op op) (by
            have h4 : 4 ≤ prec op := hbl rfl
            simp [pairLast, pairOK_end_binop hlt hop h4])).append ((soundTo_nil _).append hy1))), hy2⟩
    exact soundFrom_wrap _ hl.1 (fun _ => body _ (by rfl)) (fun _ => body _ hl.1)
  | .unary op x, h, p, d, last, hl => by
    have h' := h
    simp only [wf, Bool.and_eq_true] at h'
    obtain ⟨hop, hx⟩ := h'
    have h6 : 1 ≤ unaryPrec := by decide
    simp only [printE]
    split
    · obtain ⟨lt, h1, h2⟩ := sound_printE x hx unaryPrec 1 (some (.op op)) (okFor_pos h6 (isBefore_unop hop))
      have := (soundTo_start (x := .op .LPAREN) hl.1 rfl).append
        ((soundTo_tok (x := .op op) (pairLast_before_start (last := some (.op .LPAREN)) rfl (isStart_unop hop))).append
          (h1.append (soundTo_after h2 (o := .RPAREN) rfl)))
      exact ⟨.op .RPAREN, by simpa [pop] using this, rfl⟩
    · obtain ⟨lt, h1, h2⟩ := sound_printE x hx unaryPrec d (some (.op op)) (okFor_pos h6 (isBefore_unop hop))
      have := (soundTo_start (x := .op op) hl.1 (isStart_unop hop)).append h1
      exact ⟨lt, by simpa [pop] using this, h2⟩
  | .star x, h, p, d, last, hl => by
    have hx : wf x = true := by simpa [wf] using h
    have h6 : 1 ≤ unaryPrec := by decide
    simp only [printE]
    obtain ⟨lt, h1, h2⟩ := sound_printE x hx unaryPrec 1 (some (.op .MUL)) (okFor_pos h6 (by rfl))
    split
    · have := (soundTo_start (x := .op .LPAREN) hl.1 rfl).append
        ((soundTo_tok (x := .op .MUL) (by decide)).append
          (h1.append (soundTo_after h2 (o := .RPAREN) rfl)))
      exact ⟨.op .RPAREN, by simpa [pop] using this, rfl⟩
    · have := (soundTo_start (x := .op .MUL) hl.1 rfl).append h1
      exact ⟨lt, by simpa [pop] using this, h2⟩
  | .paren x, h, p, d, last, hl => by
    have hx : wf x = true := by simpa [wf] using h
    simp only [printE]
    split
    · rename_i hpn
      exact sound_printE x hx lowestPrec d last (okFor_notArrow (startsArrow_paren hpn _) hl.1)
    · exact soundFrom_wrap true hl.1
        (fun _ => sound_printE x hx lowestPrec (reduceDepth d) _ (okFor_delim (by rfl)))
        (fun hc => by cases hc)
  | .selector x s, h, p, d, last, hl => by
    have hx : wf x = true := by simpa [wf] using h
    simp only [printE]
    exact ⟨.ident s, (sound_printE x hx highestPrec d last (okFor_pos (by decide) hl.1)).then (fun lt hlt =>
      (soundTo_after hlt (o := .PERIOD) rfl).append
        (soundTo_tok (x := .ident s) (by simp [pairLast, pairOK_op_word]))), rfl⟩
  | .index x i, h, p, d, last, hl => by
    have h' : wf x = true ∧ wf i = true := by simpa [wf] using h
    simp only [printE, List.append_assoc]
    obtain ⟨lti, hi1, hi2⟩ := sound_printE i h'.2 lowestPrec (d + 1) (some (.op .LBRACK)) (okFor_delim (by rfl))
    exact ⟨.op .RBRACK, (sound_printE x h'.1 highestPrec 1 last (okFor_pos (by decide) hl.1)).then (fun lt hlt =>
      (soundTo_after hlt (o := .LBRACK) rfl).append (hi1.append (soundTo_after hi2 (o := .RBRACK) rfl))), rfl⟩
  | .call f args ell cmd, h, p, d, last, hl => by
    have h' := h
    simp only [wf, Bool.and_eq_true, Bool.not_eq_true', Bool.or_eq_true, List.isEmpty_eq_false_iff] at h'
    obtain ⟨⟨⟨hc, hf⟩, hargs⟩, hell⟩ := h'
    subst hc
    simp only [printE, List.append_assoc, Bool.false_eq_true, if_false]
    have ihf := sound_printE f hf highestPrec (if args.length > 1 then d + 1 else d) last (okFor_pos (by decide) hl.1)
    cases args with
    | nil =>
      have he : ell = false := by
        rcases hell with h1 | h1
        · exact h1
        · exact absurd rfl h1
      subst he
      simp only [printL, Bool.false_eq_true, if_false, List.nil_append]
      exact ⟨.op .RPAREN, ihf.then (fun lt hlt => (soundTo_after hlt (o := .LPAREN) rfl).append
        (soundTo_tok (x := .op .RPAREN) (by decide))), rfl⟩
    | cons a as =>
      obtain ⟨ltl, hl1, hl2⟩ := sound_printL (a :: as) hargs (by simp)
        (if (a :: as).length > 1 then d + 1 else d) (some (.op .LPAREN)) (by rfl)
      cases ell with
      | false =>
        simp only [Bool.false_eq_true, if_false, List.nil_append]
        exact ⟨.op .RPAREN, ihf.then (fun lt hlt => (soundTo_after hlt (o := .LPAREN) rfl).append
          (hl1.append (soundTo_after hl2 (o := .RPAREN) rfl))), rfl⟩
      | true =>
        simp only [if_true]
        exact ⟨.op .RPAREN, ihf.then (fun lt hlt => (soundTo_after hlt (o := .LPAREN) rfl).append
          (hl1.append ((soundTo_after hl2 (o := .ELLIPSIS) rfl).append
            (soundTo_tok (x := .op .RPAREN) (by decide))))), rfl⟩
  | .errWrap x tok none, h, p, d, last, hl => by
    obtain ⟨htok, hx⟩ := wf_errWrap_none h
    simp only [printE, isSome', Bool.false_and, Bool.false_eq_true, if_false, List.append_nil]
    have ihx := sound_printE x hx highestPrec 1 last (okFor_pos (by decide) hl.1)
    rcases htok with rfl | rfl
    · exact ⟨.op .NOT, ihx.then (fun lt hlt => soundTo_after hlt (o := .NOT) rfl), rfl⟩
    · exact ⟨.op .QUESTION, ihx.then (fun lt hlt => soundTo_after hlt (o := .QUESTION) rfl), rfl⟩
  | .errWrap x tok (some dd), h, p, d, last, hl => by
    obtain ⟨htok, hx, hd⟩ := wf_errWrap_some h
    simp only [printE, isSome', Bool.true_and]
    have body : ∀ last', okBefore last' = true →
        SoundFrom last' (printE x highestPrec 1 ++ [pop tok] ++ (pop .COLON :: printE dd unaryPrec 1)) := by
      intro last' hl'
      simp only [List.append_assoc]
      obtain ⟨ltd, hd1, hd2⟩ := sound_printE dd hd unaryPrec 1 (some (.op .COLON)) (okFor_pos (by decide) (by rfl))
      have hcol : SoundTo (some (.op tok)) (pop .COLON :: printE dd unaryPrec 1) (some ltd) := by
        have := (soundTo_tok (last := some (.op tok)) (x := .op .COLON) (by
          rcases htok with rfl | rfl <;> decide)).append hd1
        simpa [pop] using this
      have ihx := sound_printE x hx highestPrec 1 last' (okFor_pos (by decide) hl')
      rcases htok with rfl | rfl
      · exact ⟨ltd, ihx.then (fun lt hlt => (soundTo_after hlt (o := .NOT) rfl).append hcol), hd2⟩
      · exact ⟨ltd, ihx.then (fun lt hlt => (soundTo_after hlt (o := .QUESTION) rfl).append hcol), hd2⟩
    exact soundFrom_wrap (decide (unaryPrec < p)) hl.1 (fun _ => body _ (by rfl)) (fun _ => body _ hl.1)
  | .typeAssert x ty, h, p, d, last, hl => by
    have hx : wf x = true := by
      cases ty with
      | none => simpa [wf] using h
      | some t => cases t <;> simp [wf] at h; exact h
    have ihx := sound_printE x hx highestPrec d last (okFor_pos (by decide) hl.1)
    cases ty with
    | none =>
      simp only [printE, List.append_assoc]
      exact ⟨.op .RPAREN, ihx.then (fun lt hlt => (soundTo_after hlt (o := .PERIOD) rfl).append
        ((soundTo_tok (x := .op .LPAREN) (by decide)).append
          ((soundTo_tok (x := .kw kwType) (by simp [pairLast, pairOK, combines])).append
            (soundTo_tok (x := .op .RPAREN) (by simp [pairLast, pairOK, combines]))))), rfl⟩
    | some t =>
      cases t <;> simp [wf] at h
      rename_i a
      simp only [printE, List.append_assoc]
      exact ⟨.op .RPAREN, ihx.then (fun lt hlt => (soundTo_after hlt (o := .PERIOD) rfl).append
        ((soundTo_tok (x := .op .LPAREN) (by decide)).append
          ((soundTo_tok (x := .ident a) (by simp [pairLast, pairOK_op_word])).append
            (soundTo_tok (x := .op .RPAREN) (by simp [pairLast, pairOK_ident_op]))))), rfl⟩
  | .lambda lhs lp rhs rp, h, p, d, last, hl => by
    have h' := h
    simp only [wf, Bool.and_eq_true, Bool.or_eq_true, decide_eq_true_eq] at h'
    obtain ⟨hlhs, hr⟩ := h'
    -- right-hand side, printed after `=> `
    have hrhs : SoundFrom none
        (lamRhsI rhs rp) := by
      cases rp with
      | true =>
        simp only [lamRhsI, if_true, Bool.and_eq_true, Bool.not_eq_true', List.isEmpty_eq_false_iff] at hr ⊢
        obtain ⟨ltl, hl1, hl2⟩ := sound_printL rhs hr.2 hr.1 1 (some (.op .LPAREN)) (by rfl)
        have := (soundTo_tok (last := none) (x := .op .LPAREN) rfl).append
          (hl1.append (soundTo_after hl2 (o := .RPAREN) rfl))
        exact ⟨.op .RPAREN, by simpa [pop] using this, rfl⟩
      | false =>
        simp only [lamRhsI, Bool.false_eq_true, if_false] at hr ⊢
        cases rhs with
        | nil => simp [wfB] at hr
        | cons b rest =>
          cases rest with
          | cons b2 r2 => simp [wfB] at hr
          | nil =>
            simp only [wfB, Bool.and_eq_true] at hr
            exact sound_printE b hr.1 lowestPrec 1 none (okFor_delim rfl)
    -- `=> ` and the right-hand side, after the state `st`
    have harrow : ∀ st, pairLast st (.op .DRARROW) = true → ∀ R, SoundFrom none R →
        SoundFrom st ([pop .DRARROW, .blank] ++ R) := by
      intro st hst R hR
      obtain ⟨lt, h1, h2⟩ := hR
      exact ⟨lt, (soundTo_tok (x := .op .DRARROW) hst).append ((soundTo_blank _).append h1), h2⟩
    have body : ∀ last', okBefore last' = true → (lp = false → lhs = [] → okDelim last' = true) →
        SoundFrom last'
          ((lamLhsI lhs lp) ++ [pop .DRARROW, .blank] ++
            (lamRhsI rhs rp)) := by
      intro last' hl' hdel
      simp only [List.append_assoc]
      cases lp with
      | true =>
        simp only [lamLhsI, if_true]
        obtain ⟨lt, h1, h2⟩ := harrow none rfl _ hrhs
        cases lhs with
        | nil =>
          have := (soundTo_start (x := .op .LPAREN) hl' rfl).append
            ((soundTo_tok (last := some (.op .LPAREN)) (x := .op .RPAREN) (by decide)).append
              ((soundTo_blank _).append h1))
          exact ⟨lt, by simpa [identToks, pop] using this, h2⟩
        | cons s l =>
          obtain ⟨s', hs'⟩ := soundTo_identToks s l (some (.op .LPAREN)) (by simp [pairLast, pairOK_op_word])
          have := (soundTo_start (x := .op .LPAREN) hl' rfl).append
            (hs'.append ((soundTo_tok (last := some (.ident s')) (x := .op .RPAREN)
              (by simp [pairLast, pairOK_ident_op])).append ((soundTo_blank _).append h1)))
          exact ⟨lt, by simpa [pop] using this, h2⟩
      | false =>
        simp only [lamLhsI, Bool.false_eq_true, if_false]
        cases lhs with
        | nil =>
          obtain ⟨lt, h1, h2⟩ := harrow last' (pairLast_delim_arrow (hdel rfl rfl)) _ hrhs
          exact ⟨lt, by simpa using h1, h2⟩
        | cons s l =>
          obtain ⟨lt, h1, h2⟩ := harrow none rfl _ hrhs
          have := (soundTo_start (x := .ident s) hl' rfl).append ((soundTo_blank _).append h1)
          exact ⟨lt, by simpa using this, h2⟩
    have heq := printE_lambda_shape lhs lp rhs rp p d
    rw [heq]
    refine soundFrom_wrap _ hl.1 (fun _ => body _ (by rfl) (fun _ _ => by rfl)) (fun hw => body _ hl.1 ?_)
    intro h1 h2
    subst h1; subst h2
    apply hl.2
    have : ¬ lowestPrec < p := by simpa using hw
    have hp0 : p = lowestPrec := by have : lowestPrec = 0 := rfl; omega
    simp [startsArrow, hp0]
  | .slice .., h, _, _, _, _ => by simp [wf] at h
  | .composite .., h, _, _, _, _ => by simp [wf] at h
  | .kv .., h, _, _, _, _ => by simp [wf] at h
  | .sliceLit .., h, _, _, _, _ => by simp [wf] at h
  | .range .., h, _, _, _, _ => by simp [wf] at h
  | .tuple .., h, _, _, _, _ => by simp [wf] at h
  | .bad, h, _, _, _, _ => by simp [wf] at h
theorem sound_printL : ∀ (l : List XExpr), wfL l = true → l ≠ [] → ∀ (d : Nat) (last : Option Tok),
    okDelim last = true → SoundFrom last (printL l d)
  | [], _, hne, _, _, _ => absurd rfl hne
  | [e], h, _, d, last, hl => by
    have he : wf e = true := by simpa [wfL] using h
    simp only [printL]
    exact sound_printE e he lowestPrec d last (okFor_delim hl)
  | e :: e2 :: rest, h, _, d, last, hl => by
    have h' := h
    simp only [wfL, Bool.and_eq_true] at h'
    have hrest : wfL (e2 :: rest) = true := by simp only [wfL, Bool.and_eq_true]; exact h'.2
    simp only [printL, List.append_assoc]
    obtain ⟨ltl, hl1, hl2⟩ := sound_printL (e2 :: rest) hrest (by simp) d none rfl
    exact ⟨ltl, (sound_printE e h'.1 lowestPrec d last (okFor_delim hl)).then (fun lt hlt =>
      (soundTo_after hlt (o := .COMMA) rfl).append ((soundTo_blank _).append hl1)), hl2⟩
end

end GopModel.ExprSyntax
