/-
Termination of `matchF` for grammars that pass the compile-time checks
(zero-width soundness of `First`'s mayEmpty, then the fuel bound).  Core Lean only.
-/
import GopModel.Lemmas.TplMatch
namespace GopModel.Tpl

variable {α : Type}

/-! ## structural facts -/

theorem wf_choice (env : Env) (opts : List G) (stops : List Bool) :
    (G.choice opts stops).wf env = G.wf.wfL env opts := by simp [G.wf]
theorem wf_seq (env : Env) (items : List G) :
    (G.seq items).wf env = (!items.isEmpty && G.wf.wfL env items) := by simp [G.wf]
theorem wf_rep0 (env : Env) (g : G) : (G.rep0 g).wf env = g.wf env := by simp [G.wf]
theorem wf_rep1 (env : Env) (g : G) : (G.rep1 g).wf env = g.wf env := by simp [G.wf]
theorem wf_rep01 (env : Env) (g : G) : (G.rep01 g).wf env = g.wf env := by simp [G.wf]
theorem wf_adjoin (env : Env) (a b : G) : (G.adjoin a b).wf env = (a.wf env && b.wf env) := by simp [G.wf]
theorem wf_var (env : Env) (x : Bytes) : (G.var x).wf env = (env.find x).isSome := by simp [G.wf]

theorem wfL_mem {env : Env} : ∀ {items : List G}, G.wf.wfL env items = true →
    ∀ g ∈ items, g.wf env = true := by
  intro items
  induction items with
  | nil => intro _ g hg; simp at hg
  | cons a rest ih =>
    intro h g hg
    simp only [G.wf.wfL, Bool.and_eq_true] at h
    simp only [List.mem_cons] at hg
    rcases hg with rfl | hg
    · exact h.1
    · exact ih h.2 g hg

theorem size_choice (opts : List G) (stops : List Bool) :
    (G.choice opts stops).size = 1 + G.size.sizeL opts := by simp [G.size]
theorem size_seq (items : List G) : (G.seq items).size = 1 + G.size.sizeL items := by simp [G.size]
theorem size_rep0 (g : G) : (G.rep0 g).size = 1 + g.size := by simp [G.size]
theorem size_rep1 (g : G) : (G.rep1 g).size = 1 + g.size := by simp [G.size]
theorem size_rep01 (g : G) : (G.rep01 g).size = 1 + g.size := by simp [G.size]
theorem size_adjoin (a b : G) : (G.adjoin a b).size = 1 + a.size + b.size := by simp [G.size]

theorem size_pos (g : G) : 1 ≤ g.size := by
  cases g <;> simp [G.size] <;> omega

theorem sizeL_mem : ∀ {items : List G}, ∀ g ∈ items, g.size ≤ G.size.sizeL items := by
  intro items
  induction items with
  | nil => intro g hg; simp at hg
  | cons a rest ih =>
    intro g hg
    simp only [List.mem_cons] at hg
    simp only [G.size.sizeL]
    rcases hg with rfl | hg
    · omega
    · have := ih g hg; omega

/-! ## zero-width successes are announced by `First` (`mayEmpty`) -/

theorem firstChoice_mem (mf : G → FRes) : ∀ (opts : List G) (fs : List FI) (me : Bool),
    firstChoice mf opts = .ok fs me →
    ∀ g ∈ opts, ∃ f1 me1, mf g = .ok f1 me1 ∧ (me1 = true → me = true) := by
  intro opts
  induction opts with
  | nil => intro fs me _ g hg; simp at hg
  | cons a rest ih =>
    intro fs me heq g hg
    cases hm : mf a with
    | ok f1 me1 =>
      cases hr : firstChoice mf rest with
      | ok f2 me2 =>
        simp only [firstChoice, hm, hr, FRes.ok.injEq] at heq
        simp only [List.mem_cons] at hg
        rcases hg with rfl | hg
        · exact ⟨f1, me1, hm, fun h => by rw [← heq.2, h]; simp⟩
        · obtain ⟨f3, me3, h3, h4⟩ := ih f2 me2 hr g hg
          exact ⟨f3, me3, h3, fun h => by rw [← heq.2, h4 h]; simp⟩
      | recur n => simp [firstChoice, hm, hr] at heq
      | fuel => simp [firstChoice, hm, hr] at heq
    | recur n => simp [firstChoice, hm] at heq
    | fuel => simp [firstChoice, hm] at heq

/-- Shape of a successful `firstSeq` on a non-empty list. -/
theorem firstSeq_cons (mf : G → FRes) (g : G) (gs : List G) (fs : List FI) (me : Bool)
    (heq : firstSeq mf (g :: gs) = .ok fs me) :
    ∃ f1 me1, mf g = .ok f1 me1 ∧
      ((me1 = false ∧ me = false) ∨
       (me1 = true ∧ gs = [] ∧ me = true) ∨
       (me1 = true ∧ gs ≠ [] ∧ ∃ f2, firstSeq mf gs = .ok f2 me)) := by
  cases hm : mf g with
  | ok f1 me1 =>
    refine ⟨f1, me1, rfl, ?_⟩
    cases me1 with
    | false =>
      simp only [firstSeq, hm, Bool.false_eq_true, if_false, FRes.ok.injEq] at heq
      exact Or.inl ⟨rfl, heq.2.symm⟩
    | true =>
      cases gs with
      | nil =>
        simp only [firstSeq, hm, if_true, FRes.ok.injEq] at heq
        exact Or.inr (Or.inl ⟨rfl, rfl, heq.2.symm⟩)
      | cons g2 rest =>
        cases hr : firstSeq mf (g2 :: rest) with
        | ok f2 me2 =>
          simp only [firstSeq, hm, if_true] at heq
          simp only [firstSeq] at hr
          simp only [hr, FRes.ok.injEq] at heq
          refine Or.inr (Or.inr ⟨rfl, by simp, f2, ?_⟩)
          rw [← heq.2]
        | recur n =>
          simp only [firstSeq, hm, if_true] at heq
          simp only [firstSeq] at hr
          simp [hr] at heq
        | fuel =>
          simp only [firstSeq, hm, if_true] at heq
          simp only [firstSeq] at hr
          simp [hr] at heq
  | recur n => simp [firstSeq, hm] at heq
  | fuel => simp [firstSeq, hm] at heq

theorem seqLoop_zero (m : G → Nat → Out (V α)) (mf : G → FRes) (p : Nat) :
    ∀ (items : List G), items ≠ [] →
    (∀ g ∈ items, ∀ r l, m g p = (.ok 0 r, l) → ∀ fs me, mf g = .ok fs me → me = true) →
    ∀ rs l, seqLoop m items p = (.ok 0 rs, l) →
    ∀ fs me, firstSeq mf items = .ok fs me → me = true := by
  intro items
  induction items with
  | nil => intro h; exact absurd rfl h
  | cons g gs ih =>
    intro _ h rs l heq fs me hfs
    rcases hm : m g p with ⟨r1, l1⟩
    cases r1 with
    | ok n1 v1 =>
      rcases hr : seqLoop m gs (p + n1) with ⟨r2, l2⟩
      cases r2 with
      | ok n2 rs2 =>
        simp only [seqLoop, hm, hr, Prod.mk.injEq, Res.ok.injEq] at heq
        have hn1 : n1 = 0 := by omega
        have hn2 : n2 = 0 := by omega
        subst hn1; subst hn2
        obtain ⟨f1, me1, hmf, hcase⟩ := firstSeq_cons mf g gs fs me hfs
        have hme1 : me1 = true := h g (by simp) v1 l1 hm f1 me1 hmf
        rcases hcase with ⟨h1, _⟩ | ⟨_, _, h3⟩ | ⟨_, hne, f2, h4⟩
        · rw [hme1] at h1; cases h1
        · exact h3
        · exact ih hne (fun g' hg' => h g' (by simp [hg'])) rs2 l2 (by simpa using hr) f2 me h4
      | fail n2 e => simp [seqLoop, hm, hr] at heq
      | abort a => simp [seqLoop, hm, hr] at heq
    | fail n1 e => simp [seqLoop, hm] at heq
    | abort a => simp [seqLoop, hm] at heq

/-- If `g` matches without consuming a token then `g.First` reports `mayEmpty`.
(`env'`: the rule table seen by `First`, with the variables under visit removed.) -/
theorem matchF_zero_width (c : Cx α)
    (henv : ∀ x b, c.env.find x = some b → b.wf c.env = true) :
    ∀ f g i r l, g.wf c.env = true → matchF c f g i = (.ok 0 r, l) →
      ∀ f' env' fs me, SubEnv env' c.env → firstF f' env' g = .ok fs me → me = true := by
  intro f
  induction f with
  | zero => intro g i r l _ heq; simp [matchF_zero] at heq
  | succ f ih =>
    intro g i r l hwf heq f' env' fs me hsub hfs
    cases f' with
    | zero => simp [firstF_zero] at hfs
    | succ f' =>
    cases g with
    | tru => simp only [firstF, FRes.ok.injEq] at hfs; exact hfs.2.symm
    | ws => simp only [firstF, FRes.ok.injEq] at hfs; exact hfs.2.symm
    | str q =>
      simp only [matchF] at heq
      split at heq
      · simp at heq
      · split at heq
        · simp at heq
        · split at heq
          · simp at heq
          · split at heq <;> simp at heq
    | tok k label =>
      simp only [matchF] at heq
      split at heq
      · simp at heq
      · split at heq <;> simp at heq
    | lit k lt =>
      simp only [matchF] at heq
      split at heq
      · simp at heq
      · split at heq <;> simp at heq
    | choice opts stops =>
      rw [matchF_choice] at heq
      rw [firstF_choice] at hfs
      obtain ⟨g', hg', l', hm⟩ := choiceLoop_ok _ _ _ _ _ _ _ _ _ heq
      obtain ⟨f1, me1, h1, h2⟩ := firstChoice_mem _ opts fs me hfs g' hg'
      rw [wf_choice] at hwf
      exact h2 (ih g' i r l' (wfL_mem hwf g' hg') hm f' env' f1 me1 hsub h1)
    | seq items =>
      rw [matchF_seq] at heq
      rw [firstF_seq] at hfs
      rw [wf_seq] at hwf
      simp only [Bool.and_eq_true, Bool.not_eq_true', List.isEmpty_eq_false_iff] at hwf
      obtain ⟨rs, hrs, _⟩ := mapOut_ok _ _ _ _ _ heq
      exact seqLoop_zero _ _ i items hwf.1
        (fun g' hg' r' l' hm fs' me' hf' => ih g' i r' l' (wfL_mem hwf.2 g' hg') hm f' env' fs' me' hsub hf')
        rs l hrs fs me hfs
    | rep0 g =>
      rw [firstF_rep0] at hfs
      cases hm : firstF f' env' g with
      | ok f1 me1 => rw [hm] at hfs; simp only [FRes.ok.injEq] at hfs; exact hfs.2.symm
      | recur n => rw [hm] at hfs; simp at hfs
      | fuel => rw [hm] at hfs; simp at hfs
    | rep01 g =>
      rw [firstF_rep01] at hfs
      cases hm : firstF f' env' g with
      | ok f1 me1 => rw [hm] at hfs; simp only [FRes.ok.injEq] at hfs; exact hfs.2.symm
      | recur n => rw [hm] at hfs; simp at hfs
      | fuel => rw [hm] at hfs; simp at hfs
    | rep1 g =>
      rw [matchF_rep1] at heq
      rw [firstF_rep1] at hfs
      rw [wf_rep1] at hwf
      rcases hm : matchF c f g i with ⟨r1, l1⟩
      rw [hm] at heq
      cases r1 with
      | ok n1 v1 =>
        simp only at heq
        rcases hr : repLoop (fun p => matchF c f g p) c.N f (i + n1) with ⟨r2, l2⟩
        rw [hr] at heq
        cases r2 with
        | ok n2 rs2 =>
          simp only [Prod.mk.injEq, Res.ok.injEq] at heq
          have hn1 : n1 = 0 := by omega
          subst hn1
          exact ih g i v1 l1 hwf hm f' env' fs me hsub hfs
        | fail n2 e => simp at heq
        | abort a => simp at heq
      | fail n1 e => simp at heq
      | abort a => simp at heq
    | adjoin a b =>
      rw [matchF_adjoin] at heq
      rcases hm : matchF c f a i with ⟨r1, l1⟩
      rw [hm] at heq
      cases r1 with
      | ok n1 v1 =>
        simp only at heq
        by_cases hn : n1 = 0
        · simp [hn] at heq
        · simp only [hn, if_false] at heq
          rcases hb : matchF c f b (i + n1) with ⟨r2, l2⟩
          rw [hb] at heq
          cases r2 with
          | ok n2 v2 =>
            simp only at heq
            by_cases hn2 : n2 = 0
            · simp [hn2] at heq
            · simp only [hn2, if_false] at heq
              split at heq
              · split at heq
                · simp at heq
                · simp only [Prod.mk.injEq, Res.ok.injEq] at heq; omega
              · simp at heq
          | fail n2 e => simp at heq
          | abort ab => simp at heq
      | fail n1 e => simp at heq
      | abort ab => simp at heq
    | var name =>
      rw [matchF_var] at heq
      rw [firstF_var] at hfs
      cases hf' : env'.find name with
      | none => simp [hf'] at hfs
      | some body =>
        have hf := hsub name body hf'
        simp only [hf'] at hfs
        simp only [hf] at heq
        rcases hm : matchF c f body i with ⟨r1, l1⟩
        rw [hm] at heq
        cases r1 with
        | ok n1 v1 =>
          simp only [Prod.mk.injEq, Res.ok.injEq] at heq
          have hn1 : n1 = 0 := heq.1.1
          subst hn1
          refine ih body i v1 l1 (henv name body hf) hm f' _ fs me ?_ hfs
          intro y b hy
          exact hsub y b (SubEnv.filter_self env' name y b hy)
        | fail n1 e =>
          simp only at heq
          split at heq <;> simp at heq
        | abort ab => simp at heq

/-! ## first-set soundness: a match that makes progress starts with a token of `First` -/

/-- A first-set element accepts a token. -/
def FI.accepts (fi : FI) (t : Tok) : Bool :=
  match fi with
  | .tok k => t.kind == k
  | .lit k l => t.kind == k && t.lit == l

/-- The outcome consumed at least one token (successfully, or before failing). -/
def Progress {β : Type} (r : Res β) : Prop :=
  (∃ n v, r = .ok n v ∧ 0 < n) ∨ (∃ n e, r = .fail n e ∧ 0 < n)

/-- The token at `i` is accepted by an element of `fs`. -/
def Starts (c : Cx α) (i : Nat) (fs : List FI) : Prop :=
  ∃ t, c.toks[i]? = some t ∧ ∃ fi ∈ fs, fi.accepts t = true

theorem Starts.mono {c : Cx α} {i : Nat} {fs fs' : List FI} (h : Starts c i fs) (hsub : ∀ x ∈ fs, x ∈ fs') :
    Starts c i fs' := by
  obtain ⟨t, ht, fi, hfi, hacc⟩ := h
  exact ⟨t, ht, fi, hsub fi hfi, hacc⟩

theorem firstChoice_sub (mf : G → FRes) : ∀ (opts : List G) (fs : List FI) (me : Bool),
    firstChoice mf opts = .ok fs me →
    ∀ g ∈ opts, ∃ f1 me1, mf g = .ok f1 me1 ∧ ∀ x ∈ f1, x ∈ fs := by
  intro opts
  induction opts with
  | nil => intro fs me _ g hg; simp at hg
  | cons a rest ih =>
    intro fs me heq g hg
    cases hm : mf a with
    | ok f1 me1 =>
      cases hr : firstChoice mf rest with
      | ok f2 me2 =>
        simp only [firstChoice, hm, hr, FRes.ok.injEq] at heq
        simp only [List.mem_cons] at hg
        rcases hg with rfl | hg
        · exact ⟨f1, me1, hm, fun x hx => by rw [← heq.1]; simp [hx]⟩
        · obtain ⟨f3, me3, h3, h4⟩ := ih f2 me2 hr g hg
          exact ⟨f3, me3, h3, fun x hx => by rw [← heq.1]; simp [h4 x hx]⟩
      | recur n => simp [firstChoice, hm, hr] at heq
      | fuel => simp [firstChoice, hm, hr] at heq
    | recur n => simp [firstChoice, hm] at heq
    | fuel => simp [firstChoice, hm] at heq

/-- A failing choice reports its initial `nMax` or the count of one of its options. -/
theorem choiceLoop_fail (m : G → Out (V α)) : ∀ (opts : List G) stops nMax errMax multi n e l,
    choiceLoop m opts stops nMax errMax multi = (.fail n e, l) →
    n = nMax ∨ ∃ g ∈ opts, ∃ e' l', m g = (.fail n e', l') := by
  intro opts
  induction opts with
  | nil =>
    intro stops nMax errMax multi n e l h
    simp only [choiceLoop, Prod.mk.injEq, Res.fail.injEq] at h
    exact Or.inl h.1.1.symm
  | cons g gs ih =>
    intro stops nMax errMax multi n e l h
    rcases hm : m g with ⟨r1, l1⟩
    cases r1 with
    | ok n1 v1 => simp [choiceLoop, hm] at h
    | abort a => simp [choiceLoop, hm] at h
    | fail n1 e1 =>
      simp only [choiceLoop, hm] at h
      have hrest : ∀ st, (choiceLoop m gs st (choiceUpd nMax errMax multi n1 e1).1
          (choiceUpd nMax errMax multi n1 e1).2.1 (choiceUpd nMax errMax multi n1 e1).2.2).1 = .fail n e →
          n = nMax ∨ ∃ g' ∈ g :: gs, ∃ e' l', m g' = (.fail n e', l') := by
        intro st hr
        rcases hc : choiceLoop m gs st (choiceUpd nMax errMax multi n1 e1).1
          (choiceUpd nMax errMax multi n1 e1).2.1 (choiceUpd nMax errMax multi n1 e1).2.2 with ⟨r2, l2⟩
        rw [hc] at hr
        simp only at hr
        subst hr
        rcases ih _ _ _ _ _ _ _ hc with h1 | ⟨g', hg', e', l', hm'⟩
        · unfold choiceUpd at h1
          split at h1
          · split at h1
            · exact Or.inl h1
            · exact Or.inr ⟨g, by simp, e1, l1, by rw [hm, h1]⟩
          · exact Or.inl h1
        · exact Or.inr ⟨g', by simp [hg'], e', l', hm'⟩
      by_cases hn : n1 > 0
      · simp only [hn, if_true] at h
        cases stops with
        | nil => simp at h
        | cons s st =>
          cases s with
          | true =>
            simp only [if_true, Prod.mk.injEq, Res.fail.injEq] at h
            exact Or.inr ⟨g, by simp, e1, l1, by rw [hm, h.1.1]⟩
          | false =>
            simp only [Bool.false_eq_true, if_false, Prod.mk.injEq] at h
            exact hrest _ h.1
      · simp only [hn, if_false, Prod.mk.injEq] at h
        exact hrest _ h.1

theorem mapOut_progress {β γ : Type} (f : β → γ) (o : Out β) :
    Progress (mapOut f o).1 ↔ Progress o.1 := by
  rcases o with ⟨r, l⟩
  cases r with
  | ok n v =>
    simp only [mapOut, Progress]
    constructor
    · rintro (⟨n', v', h, hp⟩ | ⟨n', e', h, _⟩)
      · simp only [Res.ok.injEq] at h; exact Or.inl ⟨n, v, rfl, by omega⟩
      · cases h
    · rintro (⟨n', v', h, hp⟩ | ⟨n', e', h, _⟩)
      · simp only [Res.ok.injEq] at h; exact Or.inl ⟨n, f v, rfl, by omega⟩
      · cases h
  | fail n e => simp [mapOut, Progress]
  | abort a => simp [mapOut, Progress]

/-- Progress of a sequence comes from an item that `firstSeq` visits. -/
theorem seqLoop_progress (c : Cx α) (m : G → Nat → Out (V α)) (mf : G → FRes) (p : Nat) :
    ∀ (items : List G),
    (∀ g ∈ items, ∀ r l, m g p = (.ok 0 r, l) → ∀ fs me, mf g = .ok fs me → me = true) →
    (∀ g ∈ items, Progress (m g p).1 → ∀ fs me, mf g = .ok fs me → Starts c p fs) →
    Progress (seqLoop m items p).1 →
    ∀ fs me, firstSeq mf items = .ok fs me → Starts c p fs := by
  intro items
  induction items with
  | nil =>
    intro _ _ hp
    simp [seqLoop, Progress] at hp
  | cons g gs ih =>
    intro hzero hstart hp fs me hfs
    obtain ⟨f1, me1, hmf, hcase⟩ := firstSeq_cons mf g gs fs me hfs
    have hsub1 : ∀ x ∈ f1, x ∈ fs := by
      cases me1 with
      | false =>
        simp only [firstSeq, hmf, Bool.false_eq_true, if_false, FRes.ok.injEq] at hfs
        intro x hx; rw [← hfs.1]; exact hx
      | true =>
        cases gs with
        | nil =>
          simp only [firstSeq, hmf, if_true, FRes.ok.injEq] at hfs
          intro x hx; rw [← hfs.1]; exact hx
        | cons g2 rest =>
          rcases hcase with ⟨h1, _⟩ | ⟨_, h2, _⟩ | ⟨_, _, f2, h4⟩
          · cases h1
          · cases h2
          · simp only [firstSeq, hmf, if_true] at hfs
            simp only [firstSeq] at h4
            simp only [h4, FRes.ok.injEq] at hfs
            intro x hx; rw [← hfs.1]; simp [hx]
    rcases hm : m g p with ⟨r1, l1⟩
    cases r1 with
    | ok n1 v1 =>
      by_cases hn : n1 = 0
      · subst hn
        have hme1 : me1 = true := hzero g (by simp) v1 l1 hm f1 me1 hmf
        -- progress comes from the rest, at the same position
        have hp2 : Progress (seqLoop m gs p).1 := by
          simp only [seqLoop, hm, Nat.add_zero] at hp
          rcases hr : seqLoop m gs p with ⟨r2, l2⟩
          rw [hr] at hp
          cases r2 with
          | ok n2 rs2 =>
            rcases hp with ⟨n', v', h, hpos⟩ | ⟨n', e', h, _⟩
            · simp only [Res.ok.injEq] at h
              exact Or.inl ⟨n2, rs2, rfl, by omega⟩
            · cases h
          | fail n2 e2 =>
            rcases hp with ⟨n', v', h, _⟩ | ⟨n', e', h, hpos⟩
            · cases h
            · simp only [Res.fail.injEq] at h
              exact Or.inr ⟨n2, e2, rfl, by omega⟩
          | abort a => simp [Progress] at hp
        rcases hcase with ⟨h1, _⟩ | ⟨_, hnil, _⟩ | ⟨_, _, f2, h4⟩
        · rw [hme1] at h1; cases h1
        · subst hnil; simp [seqLoop, Progress] at hp2
        · have hsub2 : ∀ x ∈ f2, x ∈ fs := by
            cases gs with
            | nil => simp [seqLoop, Progress] at hp2
            | cons g2 rest =>
              simp only [firstSeq, hmf, hme1, if_true] at hfs
              simp only [firstSeq] at h4
              simp only [h4, FRes.ok.injEq] at hfs
              intro x hx; rw [← hfs.1]; simp [hx]
          exact (ih (fun g' hg' => hzero g' (by simp [hg'])) (fun g' hg' => hstart g' (by simp [hg']))
            hp2 f2 me h4).mono hsub2
      · have : Progress (m g p).1 := by rw [hm]; exact Or.inl ⟨n1, v1, rfl, by omega⟩
        exact (hstart g (by simp) this f1 me1 hmf).mono hsub1
    | fail n1 e1 =>
      simp only [seqLoop, hm] at hp
      have : Progress (m g p).1 := by
        rw [hm]
        rcases hp with ⟨n', v', h, _⟩ | ⟨n', e', h, hpos⟩
        · cases h
        · simp only [Res.fail.injEq] at h
          exact Or.inr ⟨n1, e1, rfl, by omega⟩
      exact (hstart g (by simp) this f1 me1 hmf).mono hsub1
    | abort a => simp [seqLoop, hm, Progress] at hp

/-- If the loop of `*R` consumes anything, its first iteration does. -/
theorem repLoop_progress (m : Nat → Out (V α)) (N : Nat) : ∀ (k p : Nat),
    Progress (repLoop m N k p).1 → Progress (m p).1 := by
  intro k
  cases k with
  | zero => intro p h; simp [repLoop, Progress] at h
  | succ k =>
    intro p h
    rcases hm : m p with ⟨r1, l1⟩
    cases r1 with
    | ok n1 v1 =>
      by_cases hn : n1 = 0
      · simp [repLoop, hm, hn, Progress] at h
      · exact Or.inl ⟨n1, v1, rfl, by omega⟩
    | fail n1 e1 => simp [repLoop, hm, Progress] at h
    | abort a => simp [repLoop, hm, Progress] at h

theorem repLoop_zero_first (m : Nat → Out (V α)) (N : Nat) (p : Nat) (v : V α) (l : Log)
    (hm : m p = (.ok 0 v, l)) : ∀ k, ¬ Progress (repLoop m N k p).1 := by
  intro k
  cases k with
  | zero => simp [repLoop, Progress]
  | succ k => simp [repLoop, hm, Progress]

/-- **First-set soundness.**  If `g` consumes at least one token at position `i` (whether it
then succeeds or fails), the token at `i` is accepted by an element of `g.First`. -/
theorem matchF_first_sound (c : Cx α)
    (henv : ∀ x b, c.env.find x = some b → b.wf c.env = true) :
    ∀ f g i, g.wf c.env = true → Progress (matchF c f g i).1 →
      ∀ f' env' fs me, SubEnv env' c.env → firstF f' env' g = .ok fs me → Starts c i fs := by
  intro f
  induction f with
  | zero => intro g i _ hp; simp [matchF_zero, Progress] at hp
  | succ f ih =>
    intro g i hwf hp f' env' fs me hsub hfs
    cases f' with
    | zero => simp [firstF_zero] at hfs
    | succ f' =>
    cases g with
    | tru => simp [matchF, Progress] at hp
    | ws =>
      simp only [matchF] at hp
      repeat' split at hp
      all_goals simp [Progress] at hp
    | str q =>
      simp only [matchF] at hp
      cases ht : c.toks[i]? with
      | none => simp [ht, Progress] at hp
      | some t =>
        simp only [ht] at hp
        by_cases hk : t.kind = tokSTRING
        · simp only [firstF, FRes.ok.injEq] at hfs
          exact ⟨t, ht, .tok tokSTRING, by rw [← hfs.1]; simp, by simp [FI.accepts, hk]⟩
        · simp [hk, Progress] at hp
    | tok k label =>
      simp only [matchF] at hp
      cases ht : c.toks[i]? with
      | none => simp [ht, Progress] at hp
      | some t =>
        simp only [ht] at hp
        by_cases hk : t.kind = k
        · simp only [firstF, FRes.ok.injEq] at hfs
          exact ⟨t, ht, .tok k, by rw [← hfs.1]; simp, by simp [FI.accepts, hk]⟩
        · simp [hk, Progress] at hp
    | lit k lt =>
      simp only [matchF] at hp
      cases ht : c.toks[i]? with
      | none => simp [ht, Progress] at hp
      | some t =>
        simp only [ht] at hp
        by_cases hk : t.kind = k ∧ t.lit = lt
        · simp only [firstF, FRes.ok.injEq] at hfs
          exact ⟨t, ht, .lit k lt, by rw [← hfs.1]; simp, by simp [FI.accepts, hk.1, hk.2]⟩
        · have : t.kind ≠ k ∨ t.lit ≠ lt := by
            by_cases h1 : t.kind = k
            · right; intro h2; exact hk ⟨h1, h2⟩
            · left; exact h1
          simp [this, Progress] at hp
    | choice opts stops =>
      rw [matchF_choice] at hp
      rw [firstF_choice] at hfs
      rw [wf_choice] at hwf
      rcases hr : choiceLoop (fun g => matchF c f g i) opts stops (-1) .multi true with ⟨r, l⟩
      rw [hr] at hp
      have hopt : ∃ g ∈ opts, Progress (matchF c f g i).1 := by
        rcases hp with ⟨n, v, h, hpos⟩ | ⟨n, e, h, hpos⟩
        · simp only at h; subst h
          obtain ⟨g, hg, l', hm⟩ := choiceLoop_ok _ _ _ _ _ _ _ _ _ hr
          exact ⟨g, hg, by rw [hm]; exact Or.inl ⟨n, v, rfl, hpos⟩⟩
        · simp only at h; subst h
          rcases choiceLoop_fail _ _ _ _ _ _ _ _ _ hr with h1 | ⟨g, hg, e', l', hm⟩
          · omega
          · exact ⟨g, hg, by rw [hm]; exact Or.inr ⟨n, e', rfl, hpos⟩⟩
      obtain ⟨g, hg, hpg⟩ := hopt
      obtain ⟨f1, me1, h1, hsubf⟩ := firstChoice_sub _ opts fs me hfs g hg
      exact (ih g i (wfL_mem hwf g hg) hpg f' env' f1 me1 hsub h1).mono hsubf
    | seq items =>
      rw [matchF_seq] at hp
      rw [firstF_seq] at hfs
      rw [wf_seq] at hwf
      simp only [Bool.and_eq_true] at hwf
      rw [mapOut_progress] at hp
      exact seqLoop_progress c _ (fun g => firstF f' env' g) i items
        (fun g' hg' r l hm fs' me' hf' =>
          matchF_zero_width c henv f g' i r l (wfL_mem hwf.2 g' hg') hm f' env' fs' me' hsub hf')
        (fun g' hg' hpg fs' me' hf' => ih g' i (wfL_mem hwf.2 g' hg') hpg f' env' fs' me' hsub hf')
        hp fs me hfs
    | rep0 g' =>
      rw [matchF_rep0] at hp
      rw [firstF_rep0] at hfs
      rw [wf_rep0] at hwf
      rw [mapOut_progress] at hp
      have hp1 := repLoop_progress _ _ _ _ hp
      cases hm : firstF f' env' g' with
      | ok f1 me1 =>
        rw [hm] at hfs
        simp only [FRes.ok.injEq] at hfs
        rw [← hfs.1]
        exact ih g' i hwf hp1 f' env' f1 me1 hsub hm
      | recur n => rw [hm] at hfs; simp at hfs
      | fuel => rw [hm] at hfs; simp at hfs
    | rep1 g' =>
      rw [matchF_rep1] at hp
      rw [firstF_rep1] at hfs
      rw [wf_rep1] at hwf
      rcases hm : matchF c f g' i with ⟨r1, l1⟩
      rw [hm] at hp
      cases r1 with
      | ok n1 v1 =>
        by_cases hn : n1 = 0
        · subst hn
          simp only at hp
          have hnp := repLoop_zero_first (fun p => matchF c f g' p) c.N i v1 l1 hm f
          simp only [Nat.add_zero] at hp
          rcases hr : repLoop (fun p => matchF c f g' p) c.N f i with ⟨r2, l2⟩
          rw [hr] at hp hnp
          cases r2 with
          | ok n2 rs2 =>
            exfalso
            apply hnp
            rcases hp with ⟨n', v', h, hpos⟩ | ⟨n', e', h, _⟩
            · simp only [Res.ok.injEq] at h
              exact Or.inl ⟨n2, rs2, rfl, by omega⟩
            · cases h
          | fail n2 e2 =>
            exfalso
            apply hnp
            rcases hp with ⟨n', v', h, _⟩ | ⟨n', e', h, hpos⟩
            · cases h
            · simp only [Res.fail.injEq] at h
              exact Or.inr ⟨n2, e2, rfl, by omega⟩
          | abort a => simp [Progress] at hp
        · have : Progress (matchF c f g' i).1 := by rw [hm]; exact Or.inl ⟨n1, v1, rfl, by omega⟩
          exact ih g' i hwf this f' env' fs me hsub hfs
      | fail n1 e1 =>
        have : Progress (matchF c f g' i).1 := by rw [hm]; exact hp
        exact ih g' i hwf this f' env' fs me hsub hfs
      | abort a => simp [Progress] at hp
    | rep01 g' =>
      rw [matchF_rep01] at hp
      rw [firstF_rep01] at hfs
      rw [wf_rep01] at hwf
      rcases hm : matchF c f g' i with ⟨r1, l1⟩
      rw [hm] at hp
      cases hmf : firstF f' env' g' with
      | ok f1 me1 =>
        rw [hmf] at hfs
        simp only [FRes.ok.injEq] at hfs
        rw [← hfs.1]
        cases r1 with
        | ok n1 v1 =>
          have : Progress (matchF c f g' i).1 := by rw [hm]; exact hp
          exact ih g' i hwf this f' env' f1 me1 hsub hmf
        | fail n1 e1 => simp [Progress] at hp
        | abort a => simp [Progress] at hp
      | recur n => rw [hmf] at hfs; simp at hfs
      | fuel => rw [hmf] at hfs; simp at hfs
    | adjoin a b =>
      rw [matchF_adjoin] at hp
      rw [firstF_adjoin] at hfs
      rw [wf_adjoin] at hwf
      simp only [Bool.and_eq_true] at hwf
      cases hmf : firstF f' env' a with
      | ok f1 me1 =>
        rw [hmf] at hfs
        simp only [FRes.ok.injEq] at hfs
        rw [← hfs.1]
        rcases hm : matchF c f a i with ⟨r1, l1⟩
        rw [hm] at hp
        cases r1 with
        | ok n1 v1 =>
          by_cases hn : n1 = 0
          · simp [hn, Progress] at hp
          · have : Progress (matchF c f a i).1 := by rw [hm]; exact Or.inl ⟨n1, v1, rfl, by omega⟩
            exact ih a i hwf.1 this f' env' f1 me1 hsub hmf
        | fail n1 e1 =>
          have : Progress (matchF c f a i).1 := by rw [hm]; exact hp
          exact ih a i hwf.1 this f' env' f1 me1 hsub hmf
        | abort ab => simp [Progress] at hp
      | recur n => rw [hmf] at hfs; simp at hfs
      | fuel => rw [hmf] at hfs; simp at hfs
    | var x =>
      rw [matchF_var] at hp
      rw [firstF_var] at hfs
      cases hf' : env'.find x with
      | none => simp [hf'] at hfs
      | some body =>
        have hf := hsub x body hf'
        simp only [hf'] at hfs
        simp only [hf] at hp
        rcases hm : matchF c f body i with ⟨r1, l1⟩
        rw [hm] at hp
        have hpb : Progress (matchF c f body i).1 := by
          rw [hm]
          cases r1 with
          | ok n1 v1 =>
            rcases hp with ⟨n', v', h, hpos⟩ | ⟨n', e', h, _⟩
            · simp only [Res.ok.injEq] at h
              exact Or.inl ⟨n1, v1, rfl, by omega⟩
            · cases h
          | fail n1 e1 =>
            rcases hp with ⟨n', v', h, _⟩ | ⟨n', e', h, hpos⟩
            · simp only at h; split at h <;> cases h
            · simp only at h
              split at h <;> (simp only [Res.fail.injEq] at h; exact Or.inr ⟨n1, e1, rfl, by omega⟩)
          | abort ab => simp [Progress] at hp
        refine ih body i (henv x body hf) hpb f' _ fs me ?_ hfs
        intro y b hy
        exact hsub y b (SubEnv.filter_self env' x y b hy)

/-! ## every well-formed matcher passes `First` once every rule does -/

def FirstOk (env : Env) (f : Nat) (g : G) : Prop := ∃ fs me, firstF f env g = .ok fs me

theorem FirstOk.mono {env : Env} {f f' : Nat} {g : G} (h : FirstOk env f g) (hle : f ≤ f') :
    FirstOk env f' g := by
  obtain ⟨fs, me, h⟩ := h
  exact ⟨fs, me, firstF_mono f env env g fs me (SubEnv.refl env) h f' hle⟩

theorem firstChoice_ok_of_all (mf : G → FRes) : ∀ (opts : List G),
    (∀ g ∈ opts, ∃ fs me, mf g = .ok fs me) → ∃ fs me, firstChoice mf opts = .ok fs me := by
  intro opts
  induction opts with
  | nil => intro _; exact ⟨[], false, rfl⟩
  | cons g gs ih =>
    intro h
    obtain ⟨f1, me1, h1⟩ := h g (by simp)
    obtain ⟨f2, me2, h2⟩ := ih (fun g' hg' => h g' (by simp [hg']))
    exact ⟨f1 ++ f2, me1 || me2, by simp [firstChoice, h1, h2]⟩

theorem firstSeq_ok_of_all (mf : G → FRes) : ∀ (items : List G),
    (∀ g ∈ items, ∃ fs me, mf g = .ok fs me) → ∃ fs me, firstSeq mf items = .ok fs me := by
  intro items
  induction items with
  | nil => intro _; exact ⟨[], false, rfl⟩
  | cons g gs ih =>
    intro h
    obtain ⟨f1, me1, h1⟩ := h g (by simp)
    obtain ⟨f2, me2, h2⟩ := ih (fun g' hg' => h g' (by simp [hg']))
    cases me1 with
    | false => exact ⟨f1, false, by simp [firstSeq, h1]⟩
    | true =>
      cases gs with
      | nil => exact ⟨f1, true, by simp [firstSeq, h1]⟩
      | cons g2 rest =>
        refine ⟨f1 ++ f2, me2, ?_⟩
        simp only [firstSeq, h1, if_true]
        simp only [firstSeq] at h2
        simp only [h2]

theorem firstOk_of_wf (env : Env) (F : Nat)
    (hrules : ∀ x b, env.find x = some b → FirstOk env F (.var x)) :
    ∀ n (g : G), g.size ≤ n → g.wf env = true → FirstOk env (F + g.size) g := by
  intro n
  induction n with
  | zero => intro g hs; have := size_pos g; omega
  | succ n ih =>
    intro g hs hwf
    have hpos := size_pos g
    obtain ⟨k, hk⟩ : ∃ k, F + g.size = k + 1 := ⟨F + g.size - 1, by omega⟩
    rw [hk]
    cases g with
    | tru => exact ⟨_, _, rfl⟩
    | ws => exact ⟨_, _, rfl⟩
    | str q => exact ⟨_, _, rfl⟩
    | tok k' label => exact ⟨_, _, rfl⟩
    | lit k' l => exact ⟨_, _, rfl⟩
    | choice opts stops =>
      rw [size_choice] at hs hk
      rw [wf_choice] at hwf
      unfold FirstOk
      rw [firstF_choice]
      apply firstChoice_ok_of_all
      intro g' hg'
      have hsz := sizeL_mem g' hg'
      exact (ih g' (by omega) (wfL_mem hwf g' hg')).mono (by omega)
    | seq items =>
      rw [size_seq] at hs hk
      rw [wf_seq] at hwf
      simp only [Bool.and_eq_true] at hwf
      unfold FirstOk
      rw [firstF_seq]
      apply firstSeq_ok_of_all
      intro g' hg'
      have hsz := sizeL_mem g' hg'
      exact (ih g' (by omega) (wfL_mem hwf.2 g' hg')).mono (by omega)
    | rep0 g' =>
      rw [size_rep0] at hs hk
      rw [wf_rep0] at hwf
      obtain ⟨fs, me, h⟩ := (ih g' (by omega) hwf).mono (show F + g'.size ≤ k by omega)
      exact ⟨fs, true, by rw [firstF_rep0, h]⟩
    | rep1 g' =>
      rw [size_rep1] at hs hk
      rw [wf_rep1] at hwf
      obtain ⟨fs, me, h⟩ := (ih g' (by omega) hwf).mono (show F + g'.size ≤ k by omega)
      exact ⟨fs, me, by rw [firstF_rep1, h]⟩
    | rep01 g' =>
      rw [size_rep01] at hs hk
      rw [wf_rep01] at hwf
      obtain ⟨fs, me, h⟩ := (ih g' (by omega) hwf).mono (show F + g'.size ≤ k by omega)
      exact ⟨fs, true, by rw [firstF_rep01, h]⟩
    | adjoin a b =>
      rw [size_adjoin] at hs hk
      rw [wf_adjoin] at hwf
      simp only [Bool.and_eq_true] at hwf
      obtain ⟨fs, me, h⟩ := (ih a (by omega) hwf.1).mono (show F + a.size ≤ k by omega)
      exact ⟨fs, false, by rw [firstF_adjoin, h]⟩
    | var x =>
      rw [wf_var] at hwf
      cases hf : env.find x with
      | none => simp [hf] at hwf
      | some b =>
        have := (hrules x b hf).mono (show F ≤ k + 1 by omega)
        exact this

/-! ## the loops return when every call they make returns -/

theorem seqLoop_term_later (m : G → Nat → Out (V α)) (N i : Nat)
    (hle : ∀ g p n r l, p ≤ N → m g p = (.ok n r, l) → p + n ≤ N) :
    ∀ (items : List G) (p : Nat), i < p → p ≤ N →
    (∀ g ∈ items, ∀ p', i < p' → p' ≤ N → (m g p').1 ≠ .abort .fuel) →
    (seqLoop m items p).1 ≠ .abort .fuel := by
  intro items
  induction items with
  | nil => intro p _ _ _; simp [seqLoop]
  | cons g gs ih =>
    intro p hip hpN h
    have h1 := h g (by simp) p hip hpN
    rcases hm : m g p with ⟨r1, l1⟩
    rw [hm] at h1
    cases r1 with
    | ok n1 v1 =>
      have hle1 := hle g p n1 v1 l1 hpN hm
      have h2 := ih (p + n1) (by omega) hle1 (fun g' hg' => h g' (by simp [hg']))
      rcases hr : seqLoop m gs (p + n1) with ⟨r2, l2⟩
      rw [hr] at h2
      cases r2 with
      | ok n2 rs2 => simp [seqLoop, hm, hr]
      | fail n2 e => simp [seqLoop, hm, hr]
      | abort a => simpa [seqLoop, hm, hr] using h2
    | fail n1 e => simp [seqLoop, hm]
    | abort a => simpa [seqLoop, hm] using h1

theorem seqLoop_term_here (m : G → Nat → Out (V α)) (mf : G → FRes) (N i : Nat) (hi : i ≤ N)
    (hle : ∀ g p n r l, p ≤ N → m g p = (.ok n r, l) → p + n ≤ N) :
    ∀ (items : List G),
    (∀ g ∈ items, (∃ fs me, mf g = .ok fs me) → (m g i).1 ≠ .abort .fuel) →
    (∀ g ∈ items, ∀ p', i < p' → p' ≤ N → (m g p').1 ≠ .abort .fuel) →
    (∀ g ∈ items, ∀ r l, m g i = (.ok 0 r, l) → ∀ fs me, mf g = .ok fs me → me = true) →
    (∃ fs me, firstSeq mf items = .ok fs me) →
    (seqLoop m items i).1 ≠ .abort .fuel := by
  intro items
  induction items with
  | nil => intro _ _ _ _; simp [seqLoop]
  | cons g gs ih =>
    intro hhere hlater hzero hfs
    obtain ⟨fs, me, hfs⟩ := hfs
    obtain ⟨f1, me1, hmf, hcase⟩ := firstSeq_cons mf g gs fs me hfs
    have h1 := hhere g (by simp) ⟨f1, me1, hmf⟩
    rcases hm : m g i with ⟨r1, l1⟩
    rw [hm] at h1
    cases r1 with
    | ok n1 v1 =>
      have hle1 := hle g i n1 v1 l1 hi hm
      have h2 : (seqLoop m gs (i + n1)).1 ≠ .abort .fuel := by
        by_cases hn : n1 = 0
        · subst hn
          have hme1 : me1 = true := hzero g (by simp) v1 l1 hm f1 me1 hmf
          rcases hcase with ⟨h1', _⟩ | ⟨_, hnil, _⟩ | ⟨_, _, f2, h4⟩
          · rw [hme1] at h1'; cases h1'
          · subst hnil; simp [seqLoop]
          · exact ih (fun g' hg' => hhere g' (by simp [hg'])) (fun g' hg' => hlater g' (by simp [hg']))
              (fun g' hg' => hzero g' (by simp [hg'])) ⟨f2, me, h4⟩
        · exact seqLoop_term_later m N i hle gs (i + n1) (by omega) hle1
            (fun g' hg' => hlater g' (by simp [hg']))
      rcases hr : seqLoop m gs (i + n1) with ⟨r2, l2⟩
      rw [hr] at h2
      cases r2 with
      | ok n2 rs2 => simp [seqLoop, hm, hr]
      | fail n2 e => simp [seqLoop, hm, hr]
      | abort a => simpa [seqLoop, hm, hr] using h2
    | fail n1 e => simp [seqLoop, hm]
    | abort a => simpa [seqLoop, hm] using h1

theorem repLoop_term (m : Nat → Out (V α)) (N : Nat)
    (hle : ∀ p n r l, p ≤ N → m p = (.ok n r, l) → p + n ≤ N) :
    ∀ (k p : Nat), p ≤ N → N - p < k →
    (∀ p', p ≤ p' → p' ≤ N → (m p').1 ≠ .abort .fuel) →
    (repLoop m N k p).1 ≠ .abort .fuel := by
  intro k
  induction k with
  | zero => intro p _ h; omega
  | succ k ih =>
    intro p hp hk h
    have h1 := h p (Nat.le_refl p) hp
    rcases hm : m p with ⟨r1, l1⟩
    rw [hm] at h1
    cases r1 with
    | ok n1 v1 =>
      by_cases hn : n1 = 0
      · simp [repLoop, hm, hn]
      · have hle1 := hle p n1 v1 l1 hp hm
        have h2 := ih (p + n1) hle1 (by omega) (fun p' hp' hp'N => h p' (by omega) hp'N)
        rcases hr : repLoop m N k (p + n1) with ⟨r2, l2⟩
        rw [hr] at h2
        cases r2 with
        | ok n2 rs2 => simp [repLoop, hm, hn, hr]
        | fail n2 e => simp [repLoop, hm, hn, hr]
        | abort a => simpa [repLoop, hm, hn, hr] using h2
    | fail n1 e => simp [repLoop, hm]
    | abort a => simpa [repLoop, hm] using h1

theorem choiceLoop_term (m : G → Out (V α)) : ∀ (opts : List G) stops nMax errMax multi,
    (∀ g ∈ opts, (m g).1 ≠ .abort .fuel) →
    (choiceLoop m opts stops nMax errMax multi).1 ≠ .abort .fuel := by
  intro opts
  induction opts with
  | nil => intros; simp [choiceLoop]
  | cons g gs ih =>
    intro stops nMax errMax multi h
    have h1 := h g (by simp)
    rcases hm : m g with ⟨r1, l1⟩
    rw [hm] at h1
    cases r1 with
    | ok n v => simp [choiceLoop, hm]
    | abort a => simpa [choiceLoop, hm] using h1
    | fail n e =>
      simp only [choiceLoop, hm]
      have hrest := fun st nm em mu => ih st nm em mu (fun g' hg' => h g' (by simp [hg']))
      by_cases hn : n > 0
      · simp only [hn, if_true]
        cases stops with
        | nil => simp
        | cons s st =>
          cases s with
          | true => simp
          | false =>
            simp only [Bool.false_eq_true, if_false]
            exact hrest _ _ _ _
      · simp only [hn, if_false]
        exact hrest _ _ _ _

/-! ## the fuel bound -/

/-- What the compile-time checks (and the shape of compiled grammars) provide. -/
structure TermHyp (c : Cx α) (F S : Nat) : Prop where
  rules : ∀ x b, c.env.find x = some b → FirstOk c.env F (.var x)
  wf : ∀ x b, c.env.find x = some b → b.wf c.env = true
  size : ∀ x b, c.env.find x = some b → b.size ≤ S

theorem firstOk_pos {env : Env} {f : Nat} {g : G} (h : FirstOk env f g) : 1 ≤ f := by
  cases f with
  | zero => obtain ⟨fs, me, h⟩ := h; simp [firstF_zero] at h
  | succ f => omega

theorem firstOk_sub {env : Env} {f : Nat} {g : G} {me : Bool} {fs' : List FI} {me' : Bool}
    (h : (match firstF f env g with | .ok fs _ => FRes.ok fs me | o => o) = .ok fs' me') :
    FirstOk env f g := by
  cases hm : firstF f env g with
  | ok f1 me1 => exact ⟨f1, me1, hm⟩
  | recur n => rw [hm] at h; simp at h
  | fuel => rw [hm] at h; simp at h

theorem matchF_terminates_aux (c : Cx α) (F S : Nat) (H : TermHyp c F S) :
    ∀ r f g i, g.wf c.env = true → g.size ≤ S → i ≤ c.N → c.N - i ≤ r → FirstOk c.env f g →
      (matchF c (r * (F + S + 1) + f) g i).1 ≠ .abort .fuel := by
  intro r
  induction r using Nat.strongRecOn with
  | _ r ihr =>
  have hlater : ∀ f g' p, g'.wf c.env = true → g'.size ≤ S → p ≤ c.N → c.N - p < r →
      (matchF c (r * (F + S + 1) + f) g' p).1 ≠ .abort .fuel := by
    intro f g' p hwf hsz hp hlt
    obtain ⟨r', rfl⟩ : ∃ r', r = r' + 1 := ⟨r - 1, by omega⟩
    have hok : FirstOk c.env (F + S) g' :=
      (firstOk_of_wf c.env F H.rules g'.size g' (Nat.le_refl _) hwf).mono (by omega)
    have h1 := ihr r' (by omega) (F + S) g' p hwf hsz hp (by omega) hok
    have hle : r' * (F + S + 1) + (F + S) ≤ (r' + 1) * (F + S + 1) + f := by
      rw [Nat.succ_mul]; omega
    rw [matchF_mono_le c g' p hle h1]
    exact h1
  intro f
  induction f with
  | zero => intro g i _ _ _ _ hok; have := firstOk_pos hok; omega
  | succ f ihf =>
    intro g i hwf hsz hi hr hok
    show (matchF c ((r * (F + S + 1) + f) + 1) g i).1 ≠ .abort .fuel
    have hle : ∀ g p n v l, p ≤ c.N → matchF c (r * (F + S + 1) + f) g p = (.ok n v, l) → p + n ≤ c.N :=
      fun g p n v l hp h => matchF_le c _ g p n v l hp h
    -- a call at a position ≥ i: here by the inner induction, later by the outer one
    have hany : ∀ g' p, g'.wf c.env = true → g'.size ≤ S → FirstOk c.env f g' → i ≤ p → p ≤ c.N →
        (matchF c (r * (F + S + 1) + f) g' p).1 ≠ .abort .fuel := by
      intro g' p hwf' hsz' hok' hip hpN
      by_cases hpi : p = i
      · subst hpi; exact ihf g' p hwf' hsz' hpN hr hok'
      · exact hlater f g' p hwf' hsz' hpN (by omega)
    cases g with
    | tru => simp [matchF]
    | ws =>
      simp only [matchF]
      repeat' split
      all_goals simp
    | str q =>
      simp only [matchF]
      repeat' split
      all_goals simp
    | tok k label =>
      simp only [matchF]
      repeat' split
      all_goals simp
    | lit k lt =>
      simp only [matchF]
      repeat' split
      all_goals simp
    | choice opts stops =>
      rw [matchF_choice]
      obtain ⟨fs, me, hfs⟩ := hok
      rw [firstF_choice] at hfs
      rw [wf_choice] at hwf
      rw [size_choice] at hsz
      apply choiceLoop_term
      intro g' hg'
      obtain ⟨f1, me1, h1, _⟩ := firstChoice_mem _ opts fs me hfs g' hg'
      have := sizeL_mem g' hg'
      exact ihf g' i (wfL_mem hwf g' hg') (by omega) hi hr ⟨f1, me1, h1⟩
    | seq items =>
      rw [matchF_seq]
      intro hc
      rw [mapOut_fst_ne_fuel] at hc
      revert hc
      obtain ⟨fs, me, hfs⟩ := hok
      rw [firstF_seq] at hfs
      rw [wf_seq] at hwf
      simp only [Bool.and_eq_true] at hwf
      rw [size_seq] at hsz
      apply seqLoop_term_here _ (fun g => firstF f c.env g) c.N i hi hle items
      · intro g' hg' hok'
        have := sizeL_mem g' hg'
        exact ihf g' i (wfL_mem hwf.2 g' hg') (by omega) hi hr hok'
      · intro g' hg' p' hip hpN
        have := sizeL_mem g' hg'
        exact hlater f g' p' (wfL_mem hwf.2 g' hg') (by omega) hpN (by omega)
      · intro g' hg' v l hm fs' me' hmf
        exact matchF_zero_width c H.wf _ g' i v l (wfL_mem hwf.2 g' hg') hm f c.env fs' me'
          (SubEnv.refl _) hmf
      · exact ⟨fs, me, hfs⟩
    | rep0 g' =>
      rw [matchF_rep0]
      intro hc
      rw [mapOut_fst_ne_fuel] at hc
      revert hc
      obtain ⟨fs, me, hfs⟩ := hok
      rw [firstF_rep0] at hfs
      have hok' : FirstOk c.env f g' := firstOk_sub hfs
      have hf1 := firstOk_pos hok'
      rw [wf_rep0] at hwf
      rw [size_rep0] at hsz
      have hrK : r ≤ r * (F + S + 1) := Nat.le_mul_of_pos_right r (by omega)
      apply repLoop_term _ c.N (fun p n v l hp h => hle g' p n v l hp h) _ i hi (by omega)
      intro p' hip hpN
      exact hany g' p' hwf (by omega) hok' hip hpN
    | rep1 g' =>
      rw [matchF_rep1]
      obtain ⟨fs, me, hfs⟩ := hok
      rw [firstF_rep1] at hfs
      have hok' : FirstOk c.env f g' := ⟨fs, me, hfs⟩
      have hf1 := firstOk_pos hok'
      rw [wf_rep1] at hwf
      rw [size_rep1] at hsz
      have hrK : r ≤ r * (F + S + 1) := Nat.le_mul_of_pos_right r (by omega)
      have h1 := ihf g' i hwf (by omega) hi hr hok'
      rcases hm : matchF c (r * (F + S + 1) + f) g' i with ⟨r1, l1⟩
      rw [hm] at h1
      cases r1 with
      | ok n1 v1 =>
        have hle1 := hle g' i n1 v1 l1 hi hm
        have h2 := repLoop_term (fun p => matchF c (r * (F + S + 1) + f) g' p) c.N
          (fun p n v l hp h => hle g' p n v l hp h) (r * (F + S + 1) + f) (i + n1) hle1 (by omega)
          (fun p' hip hpN => hany g' p' hwf (by omega) hok' (by omega) hpN)
        simp only
        rcases hr2 : repLoop (fun p => matchF c (r * (F + S + 1) + f) g' p) c.N
          (r * (F + S + 1) + f) (i + n1) with ⟨r2, l2⟩
        rw [hr2] at h2
        cases r2 with
        | ok n2 rs2 => simp
        | fail n2 e => simp
        | abort a => simpa using h2
      | fail n1 e => simp
      | abort a => simpa using h1
    | rep01 g' =>
      rw [matchF_rep01]
      obtain ⟨fs, me, hfs⟩ := hok
      rw [firstF_rep01] at hfs
      have hok' : FirstOk c.env f g' := firstOk_sub hfs
      rw [wf_rep01] at hwf
      rw [size_rep01] at hsz
      have h1 := ihf g' i hwf (by omega) hi hr hok'
      rcases hm : matchF c (r * (F + S + 1) + f) g' i with ⟨r1, l1⟩
      rw [hm] at h1
      cases r1 with
      | ok n1 v1 => simp
      | fail n1 e => simp
      | abort a => simpa using h1
    | adjoin a b =>
      rw [matchF_adjoin]
      obtain ⟨fs, me, hfs⟩ := hok
      rw [firstF_adjoin] at hfs
      have hok' : FirstOk c.env f a := firstOk_sub hfs
      rw [wf_adjoin] at hwf
      simp only [Bool.and_eq_true] at hwf
      rw [size_adjoin] at hsz
      have h1 := ihf a i hwf.1 (by omega) hi hr hok'
      rcases hm : matchF c (r * (F + S + 1) + f) a i with ⟨r1, l1⟩
      rw [hm] at h1
      cases r1 with
      | ok n1 v1 =>
        have hle1 := hle a i n1 v1 l1 hi hm
        simp only
        by_cases hn : n1 = 0
        · simp [hn]
        · simp only [hn, if_false]
          have h2 := hlater f b (i + n1) hwf.2 (by omega) hle1 (by omega)
          rcases hb : matchF c (r * (F + S + 1) + f) b (i + n1) with ⟨r2, l2⟩
          rw [hb] at h2
          cases r2 with
          | ok n2 v2 =>
            simp only
            repeat' split
            all_goals simp
          | fail n2 e => simp
          | abort ab => simpa using h2
      | fail n1 e => simp
      | abort ab => simpa using h1
    | var x =>
      rw [matchF_var]
      cases hf : c.env.find x with
      | none => simp
      | some body =>
        simp only
        obtain ⟨fs, me, hfs⟩ := hok
        rw [firstF_var, hf] at hfs
        simp only at hfs
        have hok' : FirstOk c.env f body :=
          ⟨fs, me, firstF_mono f _ c.env body fs me (SubEnv.filter_self c.env x) hfs f (Nat.le_refl f)⟩
        have h1 := ihf body i (H.wf x body hf) (H.size x body hf) hi hr hok'
        rcases hm : matchF c (r * (F + S + 1) + f) body i with ⟨r1, l1⟩
        rw [hm] at h1
        cases r1 with
        | ok n1 v1 => simp
        | fail n1 e =>
          simp only
          split <;> simp
        | abort ab => simpa using h1

/-! ## the fuel of the compile-time check is adequate (`firstF` never reports `fuel`) -/

theorem firstChoice_no_fuel (mf : G → FRes) : ∀ (opts : List G),
    (∀ g ∈ opts, mf g ≠ .fuel) → firstChoice mf opts ≠ .fuel := by
  intro opts
  induction opts with
  | nil => intro _; simp [firstChoice]
  | cons g gs ih =>
    intro h
    have h1 := h g (by simp)
    have h2 := ih (fun g' hg' => h g' (by simp [hg']))
    cases hm : mf g with
    | ok f1 me1 =>
      cases hr : firstChoice mf gs with
      | ok f2 me2 => simp [firstChoice, hm, hr]
      | recur n => simp [firstChoice, hm, hr]
      | fuel => exact absurd hr h2
    | recur n => simp [firstChoice, hm]
    | fuel => exact absurd hm h1

theorem firstSeq_no_fuel (mf : G → FRes) : ∀ (items : List G),
    (∀ g ∈ items, mf g ≠ .fuel) → firstSeq mf items ≠ .fuel := by
  intro items
  induction items with
  | nil => intro _; simp [firstSeq]
  | cons g gs ih =>
    intro h
    have h1 := h g (by simp)
    have h2 := ih (fun g' hg' => h g' (by simp [hg']))
    cases hm : mf g with
    | ok f1 me1 =>
      cases me1 with
      | false => simp [firstSeq, hm]
      | true =>
        cases gs with
        | nil => simp [firstSeq, hm]
        | cons g2 rest =>
          cases hr : firstSeq mf (g2 :: rest) with
          | ok f2 me2 =>
            simp only [firstSeq, hm, if_true]
            simp only [firstSeq] at hr
            simp [hr]
          | recur n =>
            simp only [firstSeq, hm, if_true]
            simp only [firstSeq] at hr
            simp [hr]
          | fuel => exact absurd hr h2
    | recur n => simp [firstSeq, hm]
    | fuel => exact absurd hm h1

theorem filter_length_lt : ∀ (env : Env) (x : Bytes) (b : G), (x, b) ∈ env →
    (env.filter (fun e => e.1 != x)).length < env.length := by
  intro env
  induction env with
  | nil => intro x b h; simp at h
  | cons e rest ih =>
    intro x b h
    simp only [List.mem_cons] at h
    by_cases hk : e.1 = x
    · have : (e.1 != x) = false := by simp [hk]
      simp only [List.filter, this, List.length_cons]
      have := List.length_filter_le (fun e => e.1 != x) rest
      omega
    · have hne : (e.1 != x) = true := by simpa using hk
      simp only [List.filter, hne, List.length_cons]
      rcases h with h | h
      · exact absurd (by rw [← h]) hk
      · have := ih x b h; omega

theorem lookup_mem {env : Env} {x : Bytes} {b : G} (h : env.find x = some b) : (x, b) ∈ env := by
  induction env with
  | nil => simp [Env.find, List.lookup] at h
  | cons e rest ih =>
    rcases e with ⟨k, v⟩
    simp only [Env.find, List.lookup] at h
    split at h
    · rename_i heq
      have hk : x = k := by simpa using heq
      simp only [Option.some.injEq] at h
      subst hk; subst h
      simp
    · simp only [List.mem_cons]
      exact Or.inr (ih h)

theorem firstF_no_fuel (S : Nat) : ∀ (f : Nat) (env : Env) (g : G),
    (∀ x b, (x, b) ∈ env → b.size ≤ S) → env.length * (S + 1) + g.size ≤ f →
    firstF f env g ≠ .fuel := by
  intro f
  induction f with
  | zero => intro env g _ h; have := size_pos g; omega
  | succ f ih =>
    intro env g hS hf
    cases g with
    | tru => simp [firstF]
    | ws => simp [firstF]
    | str q => simp [firstF]
    | tok k l => simp [firstF]
    | lit k l => simp [firstF]
    | choice opts stops =>
      rw [firstF_choice]
      rw [size_choice] at hf
      apply firstChoice_no_fuel
      intro g' hg'
      have := sizeL_mem g' hg'
      exact ih env g' hS (by omega)
    | seq items =>
      rw [firstF_seq]
      rw [size_seq] at hf
      apply firstSeq_no_fuel
      intro g' hg'
      have := sizeL_mem g' hg'
      exact ih env g' hS (by omega)
    | rep0 g' =>
      rw [firstF_rep0]
      rw [size_rep0] at hf
      have := ih env g' hS (by omega)
      cases hm : firstF f env g' with
      | ok f1 me1 => simp
      | recur n => simp
      | fuel => exact absurd hm this
    | rep1 g' =>
      rw [firstF_rep1]
      rw [size_rep1] at hf
      exact ih env g' hS (by omega)
    | rep01 g' =>
      rw [firstF_rep01]
      rw [size_rep01] at hf
      have := ih env g' hS (by omega)
      cases hm : firstF f env g' with
      | ok f1 me1 => simp
      | recur n => simp
      | fuel => exact absurd hm this
    | adjoin a b =>
      rw [firstF_adjoin]
      rw [size_adjoin] at hf
      have := ih env a hS (by omega)
      cases hm : firstF f env a with
      | ok f1 me1 => simp
      | recur n => simp
      | fuel => exact absurd hm this
    | var x =>
      rw [firstF_var]
      cases hx : env.find x with
      | none => simp
      | some body =>
        simp only
        have hmem := lookup_mem hx
        have hlt := filter_length_lt env x body hmem
        have hb := hS x body hmem
        apply ih
        · intro y b hy
          exact hS y b (List.mem_filter.mp hy).1
        · have h1 : ((env.filter (fun e => e.1 != x)).length + 1) * (S + 1) ≤ env.length * (S + 1) :=
            Nat.mul_le_mul_right _ (by omega)
          rw [Nat.succ_mul] at h1
          simp only [G.size] at hf
          omega

theorem choicesL_mem : ∀ {items : List G} {opts : List G}, opts ∈ G.choices.choicesL items →
    ∃ g ∈ items, opts ∈ g.choices := by
  intro items
  induction items with
  | nil => intro opts h; simp [G.choices.choicesL] at h
  | cons a rest ih =>
    intro opts h
    simp only [G.choices.choicesL, List.mem_append] at h
    rcases h with h | h
    · exact ⟨a, by simp, h⟩
    · obtain ⟨g, hg, hg'⟩ := ih h
      exact ⟨g, by simp [hg], hg'⟩

/-- The options of every choice inside `g` are smaller than `g`. -/
theorem choices_size : ∀ (n : Nat) (g : G), g.size ≤ n → ∀ opts ∈ g.choices, ∀ g' ∈ opts, g'.size < g.size := by
  intro n
  induction n with
  | zero => intro g h; have := size_pos g; omega
  | succ n ih =>
    intro g hs opts hopts g' hg'
    cases g with
    | tru => simp [G.choices] at hopts
    | ws => simp [G.choices] at hopts
    | str q => simp [G.choices] at hopts
    | tok k l => simp [G.choices] at hopts
    | lit k l => simp [G.choices] at hopts
    | var x => simp [G.choices] at hopts
    | choice opts0 stops =>
      rw [size_choice] at hs ⊢
      simp only [G.choices, List.mem_append, List.mem_singleton] at hopts
      rcases hopts with h | h
      · obtain ⟨g0, hg0, h0⟩ := choicesL_mem h
        have := sizeL_mem g0 hg0
        have := ih g0 (by omega) opts h0 g' hg'
        omega
      · subst h
        have := sizeL_mem g' hg'
        omega
    | seq items =>
      rw [size_seq] at hs ⊢
      simp only [G.choices] at hopts
      obtain ⟨g0, hg0, h0⟩ := choicesL_mem hopts
      have := sizeL_mem g0 hg0
      have := ih g0 (by omega) opts h0 g' hg'
      omega
    | rep0 g0 =>
      rw [size_rep0] at hs ⊢
      simp only [G.choices] at hopts
      have := ih g0 (by omega) opts hopts g' hg'
      omega
    | rep1 g0 =>
      rw [size_rep1] at hs ⊢
      simp only [G.choices] at hopts
      have := ih g0 (by omega) opts hopts g' hg'
      omega
    | rep01 g0 =>
      rw [size_rep01] at hs ⊢
      simp only [G.choices] at hopts
      have := ih g0 (by omega) opts hopts g' hg'
      omega
    | adjoin a b =>
      rw [size_adjoin] at hs ⊢
      simp only [G.choices, List.mem_append] at hopts
      rcases hopts with h | h
      · have := ih a (by omega) opts h g' hg'; omega
      · have := ih b (by omega) opts h g' hg'; omega

end GopModel.Tpl
