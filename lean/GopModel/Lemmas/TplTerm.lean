/-
Termination of `matchF` for grammars that pass the compile-time checks
(zero-width soundness of `First`'s mayEmpty, then the fuel bound).  Core Lean only.
-/
import GopModel.Lemmas.TplMatch
namespace GopModel.Tpl

variable {α : Type}

/-! ## structural facts -/

theorem wf_choice (env : Env) (opts : List G) (stops : List Bool) :
    (G.choice opts stops).wf env = G.wf.wfL env opts := by simp [G.wf]
theorem wf_seq (env : Env) (items : List G) :
    (G.seq items).wf env = (!items.isEmpty && G.wf.wfL env items) := by simp [G.wf]
theorem wf_rep0 (env : Env) (g : G) : (G.rep0 g).wf env = g.wf env := by simp [G.wf]
theorem wf_rep1 (env : Env) (g : G) : (G.rep1 g).wf env = g.wf env := by simp [G.wf]
theorem wf_rep01 (env : Env) (g : G) : (G.rep01 g).wf env = g.wf env := by simp [G.wf]
theorem wf_adjoin (env : Env) (a b : G) : (G.adjoin a b).wf env = (a.wf env && b.wf env) := by simp [G.wf]
theorem wf_var (env : Env) (x : Bytes) : (G.var x).wf env = (env.find x).isSome := by simp [G.wf]

theorem wfL_mem {env : Env} : ∀ {items : List G}, G.wf.wfL env items = true →
    ∀ g ∈ items, g.wf env = true := by
  intro items
  induction items with
  | nil => intro _ g hg; simp at hg
  | cons a rest ih =>
    intro h g hg
    simp only [G.wf.wfL, Bool.and_eq_true] at h
    simp only [List.mem_cons] at hg
    rcases hg with rfl | hg
    · exact h.1
    · exact ih h.2 g hg

theorem size_choice (opts : List G) (stops : List Bool) :
    (G.choice opts stops).size = 1 + G.size.sizeL opts := by simp [G.size]
theorem size_seq (items : List G) : (G.seq items).size = 1 + G.size.sizeL items := by simp [G.size]
theorem size_rep0 (g : G) : (G.rep0 g).size = 1 + g.size := by simp [G.size]
theorem size_rep1 (g : G) : (G.rep1 g).size = 1 + g.size := by simp [G.size]
theorem size_rep01 (g : G) : (G.rep01 g).size = 1 + g.size := by simp [G.size]
theorem size_adjoin (a b : G) : (G.adjoin a b).size = 1 + a.size + b.size := by simp [G.size]

theorem size_pos (g : G) : 1 ≤ g.size := by
  cases g <;> simp [G.size] <;> omega

theorem sizeL_mem : ∀ {items : List G}, ∀ g ∈ items, g.size ≤ G.size.sizeL items := by
  intro items
  induction items with
  | nil => intro g hg; simp at hg
  | cons a rest ih =>
    intro g hg
    simp only [List.mem_cons] at hg
    simp only [G.size.sizeL]
    rcases hg with rfl | hg
    · omega
    · have := ih g hg; omega

/-! ## zero-width successes are announced by `First` (`mayEmpty`) -/

theorem firstChoice_mem (mf : G → FRes) : ∀ (opts : List G) (fs : List FI) (me : Bool),
    firstChoice mf opts = .ok fs me →
    ∀ g ∈ opts, ∃ f1 me1, mf g = .ok f1 me1 ∧ (me1 = true → me = true) := by
  intro opts
  induction opts with
  | nil => intro fs me _ g hg; simp at hg
  | cons a rest ih =>
    intro fs me heq g hg
    cases hm : mf a with
    | ok f1 me1 =>
      cases hr : firstChoice mf rest with
      | ok f2 me2 =>
        simp only [firstChoice, hm, hr, FRes.ok.injEq] at heq
        simp only [List.mem_cons] at hg
        rcases hg with rfl | hg
        · exact ⟨f1, me1, hm, fun h => by rw [← heq.2, h]; simp⟩
        · obtain ⟨f3, me3, h3, h4⟩ := ih f2 me2 hr g hg
          exact ⟨f3, me3, h3, fun h => by rw [← heq.2, h4 h]; simp⟩
      | recur n => simp [firstChoice, hm, hr] at heq
      | fuel => simp [firstChoice, hm, hr] at heq
    | recur n => simp [firstChoice, hm] at heq
    | fuel => simp [firstChoice, hm] at heq

/-- Shape of a successful `firstSeq` on a non-empty list. -/
theorem firstSeq_cons (mf : G → FRes) (g : G) (gs : List G) (fs : List FI) (me : Bool)
    (heq : firstSeq mf (g :: gs) = .ok fs me) :
    ∃ f1 me1, mf g = .ok f1 me1 ∧
      ((me1 = false ∧ me = false) ∨
       (me1 = true ∧ gs = [] ∧ me = true) ∨
       (me1 = true ∧ gs ≠ [] ∧ ∃ f2, firstSeq mf gs = .ok f2 me)) := by
  cases hm : mf g with
  | ok f1 me1 =>
    refine ⟨f1, me1, rfl, ?_⟩
    cases me1 with
    | false =>
      simp only [firstSeq, hm, Bool.false_eq_true, if_false, FRes.ok.injEq] at heq
      exact Or.inl ⟨rfl, heq.2.symm⟩
    | true =>
      cases gs with
      | nil =>
        simp only [firstSeq, hm, if_true, FRes.ok.injEq] at heq
        exact Or.inr (Or.inl ⟨rfl, rfl, heq.2.symm⟩)
      | cons g2 rest =>
        cases hr : firstSeq mf (g2 :: rest) with
        | ok f2 me2 =>
          simp only [firstSeq, hm, if_true] at heq
          simp only [firstSeq] at hr
          simp only [hr, FRes.ok.injEq] at heq
          refine Or.inr (Or.inr ⟨rfl, by simp, f2, ?_⟩)
          rw [← heq.2]
          simp only [firstSeq]
          exact hr
        | recur n =>
          simp only [firstSeq, hm, if_true] at heq
          simp only [firstSeq] at hr
          simp [hr] at heq
        | fuel =>
          simp only [firstSeq, hm, if_true] at heq
          simp only [firstSeq] at hr
          simp [hr] at heq
  | recur n => simp [firstSeq, hm] at heq
  | fuel => simp [firstSeq, hm] at heq

theorem seqLoop_zero (m : G → Nat → Out (V α)) (mf : G → FRes) (p : Nat) :
    ∀ (items : List G), items ≠ [] →
    (∀ g ∈ items, ∀ r l, m g p = (.ok 0 r, l) → ∀ fs me, mf g = .ok fs me → me = true) →
    ∀ rs l, seqLoop m items p = (.ok 0 rs, l) →
    ∀ fs me, firstSeq mf items = .ok fs me → me = true := by
  intro items
  induction items with
  | nil => intro h; exact absurd rfl h
  | cons g gs ih =>
    intro _ h rs l heq fs me hfs
    rcases hm : m g p with ⟨r1, l1⟩
    cases r1 with
    | ok n1 v1 =>
      rcases hr : seqLoop m gs (p + n1) with ⟨r2, l2⟩
      cases r2 with
      | ok n2 rs2 =>
        simp only [seqLoop, hm, hr, Prod.mk.injEq, Res.ok.injEq] at heq
        have hn1 : n1 = 0 := by omega
        have hn2 : n2 = 0 := by omega
        subst hn1; subst hn2
        obtain ⟨f1, me1, hmf, hcase⟩ := firstSeq_cons mf g gs fs me hfs
        have hme1 : me1 = true := h g (by simp) v1 l1 hm f1 me1 hmf
        rcases hcase with ⟨h1, _⟩ | ⟨_, _, h3⟩ | ⟨_, hne, f2, h4⟩
        · rw [hme1] at h1; cases h1
        · exact h3
        · exact ih hne (fun g' hg' => h g' (by simp [hg'])) rs2 l2 (by simpa using hr) f2 me h4
      | fail n2 e => simp [seqLoop, hm, hr] at heq
      | abort a => simp [seqLoop, hm, hr] at heq
    | fail n1 e => simp [seqLoop, hm] at heq
    | abort a => simp [seqLoop, hm] at heq

/-- If `g` matches without consuming a token then `g.First` reports `mayEmpty`.
(`env'`: the rule table seen by `First`, with the variables under visit removed.) -/
theorem matchF_zero_width (c : Cx α)
    (henv : ∀ x b, c.env.find x = some b → b.wf c.env = true) :
    ∀ f g i r l, g.wf c.env = true → matchF c f g i = (.ok 0 r, l) →
      ∀ f' env' fs me, SubEnv env' c.env → firstF f' env' g = .ok fs me → me = true := by
  intro f
  induction f with
  | zero => intro g i r l _ heq; simp [matchF_zero] at heq
  | succ f ih =>
    intro g i r l hwf heq f' env' fs me hsub hfs
    cases f' with
    | zero => simp [firstF_zero] at hfs
    | succ f' =>
    cases g with
    | tru => simp only [firstF, FRes.ok.injEq] at hfs; exact hfs.2.symm
    | ws => simp only [firstF, FRes.ok.injEq] at hfs; exact hfs.2.symm
    | str q =>
      simp only [matchF] at heq
      split at heq
      · simp at heq
      · split at heq
        · simp at heq
        · split at heq
          · simp at heq
          · split at heq <;> simp at heq
    | tok k label =>
      simp only [matchF] at heq
      split at heq
      · simp at heq
      · split at heq <;> simp at heq
    | lit k lt =>
      simp only [matchF] at heq
      split at heq
      · simp at heq
      · split at heq <;> simp at heq
    | choice opts stops =>
      rw [matchF_choice] at heq
      rw [firstF_choice] at hfs
      obtain ⟨g', hg', l', hm⟩ := choiceLoop_ok _ _ _ _ _ _ _ _ _ heq
      obtain ⟨f1, me1, h1, h2⟩ := firstChoice_mem _ opts fs me hfs g' hg'
      rw [wf_choice] at hwf
      exact h2 (ih g' i r l' (wfL_mem hwf g' hg') hm f' env' f1 me1 hsub h1)
    | seq items =>
      rw [matchF_seq] at heq
      rw [firstF_seq] at hfs
      rw [wf_seq] at hwf
      simp only [Bool.and_eq_true, Bool.not_eq_true', List.isEmpty_eq_false_iff] at hwf
      obtain ⟨rs, hrs, _⟩ := mapOut_ok _ _ _ _ _ heq
      exact seqLoop_zero _ _ i items hwf.1
        (fun g' hg' r' l' hm fs' me' hf' => ih g' i r' l' (wfL_mem hwf.2 g' hg') hm f' env' fs' me' hsub hf')
        rs l hrs fs me hfs
    | rep0 g =>
      rw [firstF_rep0] at hfs
      cases hm : firstF f' env' g with
      | ok f1 me1 => rw [hm] at hfs; simp only [FRes.ok.injEq] at hfs; exact hfs.2.symm
      | recur n => rw [hm] at hfs; simp at hfs
      | fuel => rw [hm] at hfs; simp at hfs
    | rep01 g =>
      rw [firstF_rep01] at hfs
      cases hm : firstF f' env' g with
      | ok f1 me1 => rw [hm] at hfs; simp only [FRes.ok.injEq] at hfs; exact hfs.2.symm
      | recur n => rw [hm] at hfs; simp at hfs
      | fuel => rw [hm] at hfs; simp at hfs
    | rep1 g =>
      rw [matchF_rep1] at heq
      rw [firstF_rep1] at hfs
      rw [wf_rep1] at hwf
      rcases hm : matchF c f g i with ⟨r1, l1⟩
      rw [hm] at heq
      cases r1 with
      | ok n1 v1 =>
        simp only at heq
        rcases hr : repLoop (fun p => matchF c f g p) c.N f (i + n1) with ⟨r2, l2⟩
        rw [hr] at heq
        cases r2 with
        | ok n2 rs2 =>
          simp only [Prod.mk.injEq, Res.ok.injEq] at heq
          have hn1 : n1 = 0 := by omega
          subst hn1
          exact ih g i v1 l1 hwf hm f' env' fs me hsub hfs
        | fail n2 e => simp at heq
        | abort a => simp at heq
      | fail n1 e => simp at heq
      | abort a => simp at heq
    | adjoin a b =>
      rw [matchF_adjoin] at heq
      rcases hm : matchF c f a i with ⟨r1, l1⟩
      rw [hm] at heq
      cases r1 with
      | ok n1 v1 =>
        simp only at heq
        by_cases hn : n1 = 0
        · simp [hn] at heq
        · simp only [hn, if_false] at heq
          rcases hb : matchF c f b (i + n1) with ⟨r2, l2⟩
          rw [hb] at heq
          cases r2 with
          | ok n2 v2 =>
            simp only at heq
            by_cases hn2 : n2 = 0
            · simp [hn2] at heq
            · simp only [hn2, if_false] at heq
              split at heq
              · split at heq
                · simp at heq
                · simp only [Prod.mk.injEq, Res.ok.injEq] at heq; omega
              · simp at heq
          | fail n2 e => simp at heq
          | abort ab => simp at heq
      | fail n1 e => simp at heq
      | abort ab => simp at heq
    | var name =>
      rw [matchF_var] at heq
      rw [firstF_var] at hfs
      cases hf' : env'.find name with
      | none => simp [hf'] at hfs
      | some body =>
        have hf := hsub name body hf'
        simp only [hf'] at hfs
        simp only [hf] at heq
        rcases hm : matchF c f body i with ⟨r1, l1⟩
        rw [hm] at heq
        cases r1 with
        | ok n1 v1 =>
          simp only [Prod.mk.injEq, Res.ok.injEq] at heq
          have hn1 : n1 = 0 := heq.1.1
          subst hn1
          refine ih body i v1 l1 (henv name body hf) hm f' _ fs me ?_ hfs
          intro y b hy
          exact hsub y b (SubEnv.filter_self env' name y b hy)
        | fail n1 e =>
          simp only at heq
          split at heq <;> simp at heq
        | abort ab => simp at heq

end GopModel.Tpl
