/-
Helper lemmas about `GopModel.Tpl.matchF` / `firstF` (Model/TplMatch.lean):
fuel monotonicity, consumed-count bounds, zero-width soundness of `First`'s `mayEmpty`,
monotonicity of `firstF` in fuel and rule table.  Core Lean only.
-/
import GopModel.Model.TplMatch
namespace GopModel.Tpl

variable {α : Type}

/-! ## fuel monotonicity of `matchF` -/

theorem mapOut_fst_ne_fuel {β γ : Type} (f : β → γ) (o : Out β) :
    (mapOut f o).1 = .abort .fuel ↔ o.1 = .abort .fuel := by
  rcases o with ⟨r, l⟩
  cases r <;> simp [mapOut]

theorem seqLoop_mono (m m' : G → Nat → Out (V α))
    (h : ∀ g p, (m g p).1 ≠ .abort .fuel → m' g p = m g p) :
    ∀ items p, (seqLoop m items p).1 ≠ .abort .fuel → seqLoop m' items p = seqLoop m items p := by
  intro items
  induction items with
  | nil => intro p _; rfl
  | cons g rest ih =>
    intro p hne
    rcases hm : m g p with ⟨r, l⟩
    cases r with
    | ok n1 r1 =>
      have h1 : m' g p = m g p := h g p (by rw [hm]; simp)
      rcases hr : seqLoop m rest (p + n1) with ⟨r2, l2⟩
      have hne2 : (seqLoop m rest (p + n1)).1 ≠ .abort .fuel := by
        intro hc
        apply hne
        simp only [seqLoop, hm]
        rw [hr] at hc
        simp only at hc
        subst hc
        simp [hr]
      have h2 := ih (p + n1) hne2
      simp only [seqLoop, h1, hm, h2]
    | fail n1 e =>
      have h1 : m' g p = m g p := h g p (by rw [hm]; simp)
      simp only [seqLoop, h1, hm]
    | abort a =>
      have ha : a ≠ .fuel := by
        intro hc; subst hc; apply hne; simp [seqLoop, hm]
      have h1 : m' g p = m g p := h g p (by rw [hm]; simp [ha])
      simp only [seqLoop, h1, hm]

theorem repLoop_mono (m m' : Nat → Out (V α)) (N : Nat)
    (h : ∀ p, (m p).1 ≠ .abort .fuel → m' p = m p) :
    ∀ k p, (repLoop m N k p).1 ≠ .abort .fuel → repLoop m' N (k + 1) p = repLoop m N k p := by
  intro k
  induction k with
  | zero => intro p hne; simp [repLoop] at hne
  | succ k ih =>
    intro p hne
    rcases hm : m p with ⟨r, l⟩
    cases r with
    | ok n1 r1 =>
      have h1 : m' p = m p := h p (by rw [hm]; simp)
      by_cases hn : n1 = 0
      · subst hn
        rw [repLoop, h1, hm]
        simp [repLoop, hm]
      · rcases hr : repLoop m N k (p + n1) with ⟨r2, l2⟩
        have hne2 : (repLoop m N k (p + n1)).1 ≠ .abort .fuel := by
          intro hc
          apply hne
          rw [repLoop, hm]
          rw [hr] at hc
          simp only at hc
          subst hc
          simp [hn, hr]
        have h2 := ih (p + n1) hne2
        rw [repLoop, h1, hm]
        simp only [hn, if_false, h2]
        conv => rhs; rw [repLoop, hm]
        simp only [hn, if_false]
    | fail n1 e =>
      have h1 : m' p = m p := h p (by rw [hm]; simp)
      rw [repLoop, h1, hm]
      conv => rhs; rw [repLoop, hm]
    | abort a =>
      have ha : a ≠ .fuel := by
        intro hc; subst hc; apply hne; simp [repLoop, hm]
      have h1 : m' p = m p := h p (by rw [hm]; simp [ha])
      rw [repLoop, h1, hm]
      conv => rhs; rw [repLoop, hm]

/-! one-step unfolding equations of `matchF` -/
theorem matchF_zero (c : Cx α) (g : G) (i : Nat) : matchF c 0 g i = (.abort .fuel, []) := rfl
theorem matchF_choice (c : Cx α) (f : Nat) (opts : List G) (stops : List Bool) (i : Nat) :
    matchF c (f + 1) (.choice opts stops) i =
      choiceLoop (fun g => matchF c f g i) opts stops (-1) .multi true := rfl
theorem matchF_seq (c : Cx α) (f : Nat) (items : List G) (i : Nat) :
    matchF c (f + 1) (.seq items) i = mapOut V.list (seqLoop (fun g p => matchF c f g p) items i) := rfl
theorem matchF_rep0 (c : Cx α) (f : Nat) (g : G) (i : Nat) :
    matchF c (f + 1) (.rep0 g) i = mapOut V.list (repLoop (fun p => matchF c f g p) c.N f i) := rfl
theorem matchF_rep1 (c : Cx α) (f : Nat) (g : G) (i : Nat) :
    matchF c (f + 1) (.rep1 g) i =
      match matchF c f g i with
      | (.ok n r0, l0) =>
        match repLoop (fun p => matchF c f g p) c.N f (i + n) with
        | (.ok n2 rs, l2) => (.ok (n + n2) (.list (r0 :: rs)), l0 ++ l2)
        | (.fail n2 e, l2) => (.fail n2 e, l0 ++ l2)
        | (.abort a, l2) => (.abort a, l0 ++ l2)
      | o => o := rfl
theorem matchF_rep01 (c : Cx α) (f : Nat) (g : G) (i : Nat) :
    matchF c (f + 1) (.rep01 g) i =
      match matchF c f g i with
      | (.fail _ _, l) => (.ok 0 .nil, l)
      | o => o := rfl
theorem matchF_adjoin (c : Cx α) (f : Nat) (a b : G) (i : Nat) :
    matchF c (f + 1) (.adjoin a b) i =
      match matchF c f a i with
      | (.ok n r0, l0) =>
        if n = 0 then (.fail 0 .adjoinEmpty, l0)
        else
          match matchF c f b (i + n) with
          | (.ok n1 r1, l1) =>
            if n1 = 0 then (.fail n .adjoinEmpty, l0 ++ l1)
            else
              match c.toks[i + n - 1]?, c.toks[i + n]? with
              | some t0, some t1 =>
                if t0.endp ≠ t1.pos then (.fail n (.notAdjoin t1.pos), l0 ++ l1)
                else (.ok (n + n1) (.list [r0, r1]), l0 ++ l1)
              | _, _ => (.abort .panic, l0 ++ l1)
          | (.fail _ e, l1) => (.fail n e, l0 ++ l1)
          | (.abort ab, l1) => (.abort ab, l0 ++ l1)
      | o => o := rfl
theorem matchF_var (c : Cx α) (f : Nat) (name : Bytes) (i : Nat) :
    matchF c (f + 1) (.var name) i =
      match c.env.find name with
      | none => (.fail 0 (.unassigned name), [])
      | some body =>
        match matchF c f body i with
        | (.ok n r, l) =>
          (.ok n (match c.procs name with | some p => p r | none => r), l)
        | (.fail n e, l) =>
          if e = .multi then (.fail n (.expect name (c.posAt i)), l) else (.fail n e, l)
        | o => o := rfl

theorem choiceLoop_mono (m m' : G → Out (V α))
    (h : ∀ g, (m g).1 ≠ .abort .fuel → m' g = m g) :
    ∀ opts stops nMax errMax multi, (choiceLoop m opts stops nMax errMax multi).1 ≠ .abort .fuel →
      choiceLoop m' opts stops nMax errMax multi = choiceLoop m opts stops nMax errMax multi := by
  intro opts
  induction opts with
  | nil => intros; rfl
  | cons g gs ih =>
    intro stops nMax errMax multi hne
    rcases hm : m g with ⟨r, l⟩
    cases r with
    | ok n r1 =>
      have h1 : m' g = m g := h g (by rw [hm]; simp)
      simp only [choiceLoop, h1, hm]
    | abort a =>
      have ha : a ≠ .fuel := by
        intro hc; subst hc; apply hne; simp [choiceLoop, hm]
      have h1 : m' g = m g := h g (by rw [hm]; simp [ha])
      simp only [choiceLoop, h1, hm]
    | fail n e =>
      have h1 : m' g = m g := h g (by rw [hm]; simp)
      simp only [choiceLoop, hm] at hne
      simp only [choiceLoop, h1, hm]
      by_cases hn : n > 0
      · simp only [hn, if_true] at hne ⊢
        cases stops with
        | nil => rfl
        | cons s st =>
          cases s with
          | true => rfl
          | false =>
            simp only [Bool.false_eq_true, if_false] at hne ⊢
            rw [ih _ _ _ _ hne]
      · simp only [hn, if_false] at hne ⊢
        rw [ih _ _ _ _ hne]

theorem matchF_succ (c : Cx α) : ∀ f g i, (matchF c f g i).1 ≠ .abort .fuel →
    matchF c (f + 1) g i = matchF c f g i := by
  intro f
  induction f with
  | zero => intro g i hne; simp [matchF_zero] at hne
  | succ f ih =>
    intro g i hne
    cases g with
    | tru => rfl
    | ws => rfl
    | str q => rfl
    | tok k label => rfl
    | lit k l => rfl
    | choice opts stops =>
      rw [matchF_choice] at hne
      rw [matchF_choice c (f + 1), matchF_choice c f]
      exact choiceLoop_mono _ _ (fun g hg => ih g i hg) _ _ _ _ _ hne
    | seq items =>
      rw [matchF_seq] at hne
      rw [matchF_seq c (f + 1), matchF_seq c f]
      have hne' := mt (mapOut_fst_ne_fuel V.list _).mpr hne
      rw [seqLoop_mono _ _ (fun g p hg => ih g p hg) _ _ hne']
    | rep0 g =>
      rw [matchF_rep0] at hne
      rw [matchF_rep0 c (f + 1), matchF_rep0 c f]
      have hne' := mt (mapOut_fst_ne_fuel V.list _).mpr hne
      rw [repLoop_mono _ _ _ (fun p hg => ih g p hg) _ _ hne']
    | rep1 g =>
      rw [matchF_rep1] at hne
      rw [matchF_rep1 c (f + 1), matchF_rep1 c f]
      rcases hm : matchF c f g i with ⟨r, l⟩
      rw [hm] at hne
      cases r with
      | ok n r0 =>
        have h1 := ih g i (by rw [hm]; simp)
        simp only at hne
        have hne2 : (repLoop (fun p => matchF c f g p) c.N f (i + n)).1 ≠ .abort .fuel := by
          intro hc
          apply hne
          rcases hr : repLoop (fun p => matchF c f g p) c.N f (i + n) with ⟨r2, l2⟩
          rw [hr] at hc
          simp only at hc
          subst hc
          rfl
        rw [h1, hm]
        simp only
        rw [repLoop_mono _ _ _ (fun p hg => ih g p hg) _ _ hne2]
      | fail n e =>
        have h1 := ih g i (by rw [hm]; simp)
        rw [h1, hm]
      | abort a =>
        have ha : a ≠ .fuel := by intro hc; subst hc; simp at hne
        have h1 := ih g i (by rw [hm]; simp [ha])
        rw [h1, hm]
    | rep01 g =>
      rw [matchF_rep01] at hne
      rw [matchF_rep01 c (f + 1), matchF_rep01 c f]
      rcases hm : matchF c f g i with ⟨r, l⟩
      rw [hm] at hne
      cases r with
      | ok n r0 =>
        have h1 := ih g i (by rw [hm]; simp)
        rw [h1, hm]
      | fail n e =>
        have h1 := ih g i (by rw [hm]; simp)
        rw [h1, hm]
      | abort a =>
        have ha : a ≠ .fuel := by intro hc; subst hc; simp at hne
        have h1 := ih g i (by rw [hm]; simp [ha])
        rw [h1, hm]
    | adjoin a b =>
      rw [matchF_adjoin] at hne
      rw [matchF_adjoin c (f + 1), matchF_adjoin c f]
      rcases hm : matchF c f a i with ⟨r, l⟩
      rw [hm] at hne
      cases r with
      | ok n r0 =>
        have h1 := ih a i (by rw [hm]; simp)
        rw [h1, hm]
        simp only at hne ⊢
        by_cases hn : n = 0
        · simp [hn]
        · simp only [hn, if_false] at hne ⊢
          rcases hb : matchF c f b (i + n) with ⟨r2, l2⟩
          rw [hb] at hne
          cases r2 with
          | ok n1 r1 =>
            have h2 := ih b (i + n) (by rw [hb]; simp)
            rw [h2, hb]
          | fail n1 e =>
            have h2 := ih b (i + n) (by rw [hb]; simp)
            rw [h2, hb]
          | abort ab =>
            have ha : ab ≠ .fuel := by intro hc; subst hc; simp at hne
            have h2 := ih b (i + n) (by rw [hb]; simp [ha])
            rw [h2, hb]
      | fail n e =>
        have h1 := ih a i (by rw [hm]; simp)
        rw [h1, hm]
      | abort ab =>
        have ha : ab ≠ .fuel := by intro hc; subst hc; simp at hne
        have h1 := ih a i (by rw [hm]; simp [ha])
        rw [h1, hm]
    | var name =>
      rw [matchF_var] at hne
      rw [matchF_var c (f + 1), matchF_var c f]
      cases hf : c.env.find name with
      | none => rfl
      | some body =>
        simp only [hf] at hne ⊢
        rcases hm : matchF c f body i with ⟨r, l⟩
        rw [hm] at hne
        cases r with
        | ok n r0 =>
          have h1 := ih body i (by rw [hm]; simp)
          rw [h1, hm]
        | fail n e =>
          have h1 := ih body i (by rw [hm]; simp)
          rw [h1, hm]
        | abort ab =>
          have ha : ab ≠ .fuel := by intro hc; subst hc; simp at hne
          have h1 := ih body i (by rw [hm]; simp [ha])
          rw [h1, hm]

theorem matchF_mono (c : Cx α) (f : Nat) (g : G) (i : Nat)
    (hne : (matchF c f g i).1 ≠ .abort .fuel) : ∀ k, matchF c (f + k) g i = matchF c f g i := by
  intro k
  induction k with
  | zero => rfl
  | succ k ih =>
    rw [← Nat.add_assoc, matchF_succ c (f + k) g i (by rw [ih]; exact hne), ih]

theorem matchF_mono_le (c : Cx α) {f f' : Nat} (g : G) (i : Nat) (hle : f ≤ f')
    (hne : (matchF c f g i).1 ≠ .abort .fuel) : matchF c f' g i = matchF c f g i := by
  obtain ⟨k, rfl⟩ := Nat.exists_eq_add_of_le hle
  exact matchF_mono c f g i hne k

/-! ## a successful match never consumes more than the remaining tokens -/

theorem tok_lt {c : Cx α} {i : Nat} {t : Tok} (h : c.toks[i]? = some t) : i < c.N := by
  obtain ⟨hlt, _⟩ := List.getElem?_eq_some_iff.mp h
  exact hlt

theorem seqLoop_le (m : G → Nat → Out (V α)) (N : Nat)
    (h : ∀ g p n r l, p ≤ N → m g p = (.ok n r, l) → p + n ≤ N) :
    ∀ items p n rs l, p ≤ N → seqLoop m items p = (.ok n rs, l) → p + n ≤ N := by
  intro items
  induction items with
  | nil =>
    intro p n rs l hp heq
    simp only [seqLoop, Prod.mk.injEq, Res.ok.injEq] at heq
    omega
  | cons g rest ih =>
    intro p n rs l hp heq
    rcases hm : m g p with ⟨r, l1⟩
    cases r with
    | ok n1 r1 =>
      have h1 := h g p n1 r1 l1 hp hm
      rcases hr : seqLoop m rest (p + n1) with ⟨r2, l2⟩
      cases r2 with
      | ok n2 rs2 =>
        have h2 := ih (p + n1) n2 rs2 l2 h1 hr
        simp only [seqLoop, hm, hr, Prod.mk.injEq, Res.ok.injEq] at heq
        omega
      | fail n2 e => simp [seqLoop, hm, hr] at heq
      | abort a => simp [seqLoop, hm, hr] at heq
    | fail n1 e => simp [seqLoop, hm] at heq
    | abort a => simp [seqLoop, hm] at heq

theorem repLoop_le (m : Nat → Out (V α)) (N : Nat)
    (h : ∀ p n r l, p ≤ N → m p = (.ok n r, l) → p + n ≤ N) :
    ∀ k p n rs l, p ≤ N → repLoop m N k p = (.ok n rs, l) → p + n ≤ N := by
  intro k
  induction k with
  | zero => intro p n rs l _ heq; simp [repLoop] at heq
  | succ k ih =>
    intro p n rs l hp heq
    rcases hm : m p with ⟨r, l1⟩
    cases r with
    | ok n1 r1 =>
      have h1 := h p n1 r1 l1 hp hm
      by_cases hn : n1 = 0
      · simp only [repLoop, hm, hn, if_true, Prod.mk.injEq, Res.ok.injEq] at heq
        omega
      · rcases hr : repLoop m N k (p + n1) with ⟨r2, l2⟩
        cases r2 with
        | ok n2 rs2 =>
          have h2 := ih (p + n1) n2 rs2 l2 h1 hr
          simp only [repLoop, hm, hn, if_false, hr, Prod.mk.injEq, Res.ok.injEq] at heq
          omega
        | fail n2 e => simp [repLoop, hm, hn, hr] at heq
        | abort a => simp [repLoop, hm, hn, hr] at heq
    | fail n1 e =>
      simp only [repLoop, hm, Prod.mk.injEq, Res.ok.injEq] at heq
      omega
    | abort a => simp [repLoop, hm] at heq

/-- The loops of `*R` / `+R` never fail. -/
theorem repLoop_not_fail (m : Nat → Out (V α)) (N : Nat) :
    ∀ k p n e l, repLoop m N k p ≠ (.fail n e, l) := by
  intro k
  induction k with
  | zero => intro p n e l; simp [repLoop]
  | succ k ih =>
    intro p n e l heq
    rcases hm : m p with ⟨r, l1⟩
    cases r with
    | ok n1 r1 =>
      by_cases hn : n1 = 0
      · simp [repLoop, hm, hn] at heq
      · rcases hr : repLoop m N k (p + n1) with ⟨r2, l2⟩
        cases r2 with
        | ok n2 rs2 => simp [repLoop, hm, hn, hr] at heq
        | fail n2 e2 => exact ih _ _ _ _ hr
        | abort a => simp [repLoop, hm, hn, hr] at heq
    | fail n1 e1 => simp [repLoop, hm] at heq
    | abort a => simp [repLoop, hm] at heq

theorem choiceLoop_ok (m : G → Out (V α)) :
    ∀ opts stops nMax errMax multi n r l,
      choiceLoop m opts stops nMax errMax multi = (.ok n r, l) →
      ∃ g ∈ opts, ∃ l', m g = (.ok n r, l') := by
  intro opts
  induction opts with
  | nil => intro stops nMax errMax multi n r l heq; simp [choiceLoop] at heq
  | cons g gs ih =>
    intro stops nMax errMax multi n r l heq
    rcases hm : m g with ⟨r1, l1⟩
    cases r1 with
    | ok n1 v1 =>
      simp only [choiceLoop, hm, Prod.mk.injEq, Res.ok.injEq] at heq
      obtain ⟨⟨rfl, rfl⟩, rfl⟩ := heq
      exact ⟨g, by simp, l1, hm⟩
    | abort a => simp [choiceLoop, hm] at heq
    | fail n1 e =>
      simp only [choiceLoop, hm] at heq
      by_cases hn : n1 > 0
      · simp only [hn, if_true] at heq
        cases stops with
        | nil => simp at heq
        | cons s st =>
          cases s with
          | true => simp at heq
          | false =>
            simp only [Bool.false_eq_true, if_false, Prod.mk.injEq] at heq
            obtain ⟨g', hg', l', hl'⟩ := ih _ _ _ _ n r _ (Prod.ext heq.1 rfl)
            exact ⟨g', by simp [hg'], l', hl'⟩
      · simp only [hn, if_false, Prod.mk.injEq] at heq
        obtain ⟨g', hg', l', hl'⟩ := ih _ _ _ _ n r _ (Prod.ext heq.1 rfl)
        exact ⟨g', by simp [hg'], l', hl'⟩

theorem mapOut_ok {β γ : Type} (f : β → γ) (o : Out β) (n : Nat) (r : γ) (l : Log)
    (h : mapOut f o = (.ok n r, l)) : ∃ r', o = (.ok n r', l) ∧ r = f r' := by
  rcases o with ⟨ro, lo⟩
  cases ro with
  | ok n' r' =>
    simp only [mapOut, Prod.mk.injEq, Res.ok.injEq] at h
    obtain ⟨⟨rfl, rfl⟩, rfl⟩ := h
    exact ⟨r', rfl, rfl⟩
  | fail n' e => simp [mapOut] at h
  | abort a => simp [mapOut] at h

theorem matchF_le (c : Cx α) : ∀ f g i n r l, i ≤ c.N → matchF c f g i = (.ok n r, l) → i + n ≤ c.N := by
  intro f
  induction f with
  | zero => intro g i n r l _ heq; simp [matchF_zero] at heq
  | succ f ih =>
    intro g i n r l hi heq
    cases g with
    | tru =>
      simp only [matchF, Prod.mk.injEq, Res.ok.injEq] at heq
      omega
    | ws =>
      simp only [matchF] at heq
      split at heq
      · simp at heq
      · split at heq
        · split at heq
          · split at heq
            · simp only [Prod.mk.injEq, Res.ok.injEq] at heq; omega
            · simp at heq
          · simp at heq
        · simp at heq
    | str q =>
      simp only [matchF] at heq
      split at heq
      · simp at heq
      · rename_i t ht
        have := tok_lt ht
        split at heq
        · simp at heq
        · split at heq
          · simp at heq
          · split at heq
            · simp at heq
            · simp only [Prod.mk.injEq, Res.ok.injEq] at heq; omega
    | tok k label =>
      simp only [matchF] at heq
      split at heq
      · simp at heq
      · rename_i t ht
        have := tok_lt ht
        split at heq
        · simp at heq
        · simp only [Prod.mk.injEq, Res.ok.injEq] at heq; omega
    | lit k lt =>
      simp only [matchF] at heq
      split at heq
      · simp at heq
      · rename_i t ht
        have := tok_lt ht
        split at heq
        · simp at heq
        · simp only [Prod.mk.injEq, Res.ok.injEq] at heq; omega
    | choice opts stops =>
      rw [matchF_choice] at heq
      obtain ⟨g, _, l', hg⟩ := choiceLoop_ok _ _ _ _ _ _ _ _ _ heq
      exact ih g i n r l' hi hg
    | seq items =>
      rw [matchF_seq] at heq
      obtain ⟨rs, hrs, _⟩ := mapOut_ok _ _ _ _ _ heq
      exact seqLoop_le _ c.N (fun g p n r l hp h => ih g p n r l hp h) items i n rs l hi hrs
    | rep0 g =>
      rw [matchF_rep0] at heq
      obtain ⟨rs, hrs, _⟩ := mapOut_ok _ _ _ _ _ heq
      exact repLoop_le _ c.N (fun p n r l hp h => ih g p n r l hp h) f i n rs l hi hrs
    | rep1 g =>
      rw [matchF_rep1] at heq
      rcases hm : matchF c f g i with ⟨r1, l1⟩
      rw [hm] at heq
      cases r1 with
      | ok n1 v1 =>
        have h1 := ih g i n1 v1 l1 hi hm
        simp only at heq
        rcases hr : repLoop (fun p => matchF c f g p) c.N f (i + n1) with ⟨r2, l2⟩
        rw [hr] at heq
        cases r2 with
        | ok n2 rs2 =>
          have h2 := repLoop_le _ c.N (fun p n r l hp h => ih g p n r l hp h) f (i + n1) n2 rs2 l2 h1 hr
          simp only [Prod.mk.injEq, Res.ok.injEq] at heq
          omega
        | fail n2 e => simp at heq
        | abort a => simp at heq
      | fail n1 e => simp at heq
      | abort a => simp at heq
    | rep01 g =>
      rw [matchF_rep01] at heq
      rcases hm : matchF c f g i with ⟨r1, l1⟩
      rw [hm] at heq
      cases r1 with
      | ok n1 v1 =>
        have h1 := ih g i n1 v1 l1 hi hm
        simp only [Prod.mk.injEq, Res.ok.injEq] at heq
        omega
      | fail n1 e =>
        simp only [Prod.mk.injEq, Res.ok.injEq] at heq
        omega
      | abort a => simp at heq
    | adjoin a b =>
      rw [matchF_adjoin] at heq
      rcases hm : matchF c f a i with ⟨r1, l1⟩
      rw [hm] at heq
      cases r1 with
      | ok n1 v1 =>
        have h1 := ih a i n1 v1 l1 hi hm
        simp only at heq
        by_cases hn : n1 = 0
        · simp [hn] at heq
        · simp only [hn, if_false] at heq
          rcases hb : matchF c f b (i + n1) with ⟨r2, l2⟩
          rw [hb] at heq
          cases r2 with
          | ok n2 v2 =>
            have h2 := ih b (i + n1) n2 v2 l2 h1 hb
            simp only at heq
            by_cases hn2 : n2 = 0
            · simp [hn2] at heq
            · simp only [hn2, if_false] at heq
              split at heq
              · split at heq
                · simp at heq
                · simp only [Prod.mk.injEq, Res.ok.injEq] at heq; omega
              · simp at heq
          | fail n2 e => simp at heq
          | abort ab => simp at heq
      | fail n1 e => simp at heq
      | abort ab => simp at heq
    | var name =>
      rw [matchF_var] at heq
      cases hf : c.env.find name with
      | none => simp [hf] at heq
      | some body =>
        simp only [hf] at heq
        rcases hm : matchF c f body i with ⟨r1, l1⟩
        rw [hm] at heq
        cases r1 with
        | ok n1 v1 =>
          have h1 := ih body i n1 v1 l1 hi hm
          simp only [Prod.mk.injEq, Res.ok.injEq] at heq
          omega
        | fail n1 e =>
          simp only at heq
          split at heq <;> simp at heq
        | abort ab => simp at heq

/-! ## `firstF`: unfolding, monotonicity in fuel and rule table -/

theorem firstF_zero (env : Env) (g : G) : firstF 0 env g = .fuel := rfl
theorem firstF_choice (f : Nat) (env : Env) (opts : List G) (stops : List Bool) :
    firstF (f + 1) env (.choice opts stops) = firstChoice (fun g => firstF f env g) opts := rfl
theorem firstF_seq (f : Nat) (env : Env) (items : List G) :
    firstF (f + 1) env (.seq items) = firstSeq (fun g => firstF f env g) items := rfl
theorem firstF_rep0 (f : Nat) (env : Env) (g : G) :
    firstF (f + 1) env (.rep0 g) = match firstF f env g with | .ok fs _ => .ok fs true | o => o := rfl
theorem firstF_rep1 (f : Nat) (env : Env) (g : G) :
    firstF (f + 1) env (.rep1 g) = firstF f env g := rfl
theorem firstF_rep01 (f : Nat) (env : Env) (g : G) :
    firstF (f + 1) env (.rep01 g) = match firstF f env g with | .ok fs _ => .ok fs true | o => o := rfl
theorem firstF_adjoin (f : Nat) (env : Env) (a b : G) :
    firstF (f + 1) env (.adjoin a b) = match firstF f env a with | .ok fs _ => .ok fs false | o => o := rfl
theorem firstF_var (f : Nat) (env : Env) (name : Bytes) :
    firstF (f + 1) env (.var name) =
      match env.find name with
      | none => .recur name
      | some body => firstF f (env.filter (fun e => e.1 != name)) body := rfl

/-- `e'` binds fewer variables than `e`, to the same elements. -/
def SubEnv (e' e : Env) : Prop := ∀ x b, e'.find x = some b → e.find x = some b

theorem SubEnv.refl (e : Env) : SubEnv e e := fun _ _ h => h

theorem find_filter (env : Env) (x y : Bytes) :
    Env.find (env.filter (fun e => e.1 != x)) y = if y = x then none else env.find y := by
  induction env with
  | nil => simp [Env.find, List.lookup]
  | cons e rest ih =>
    rcases e with ⟨k, b⟩
    simp only [Env.find] at ih ⊢
    by_cases hk : k = x
    · subst hk
      simp only [List.filter, bne_self_eq_false, ih, List.lookup]
      by_cases hy : y = k
      · simp [hy]
      · have : (y == k) = false := by simpa using hy
        simp [hy, this]
    · have hkx : (k != x) = true := by simpa using hk
      simp only [List.filter, hkx, List.lookup, ih]
      by_cases hy : y = k
      · subst hy
        simp [hk]
      · have : (y == k) = false := by simpa using hy
        simp [this]

theorem SubEnv.filter_self (e : Env) (x : Bytes) : SubEnv (e.filter (fun p => p.1 != x)) e := by
  intro y b h
  rw [find_filter] at h
  split at h
  · simp at h
  · exact h

theorem SubEnv.filter {e' e : Env} (h : SubEnv e' e) (x : Bytes) :
    SubEnv (e'.filter (fun p => p.1 != x)) (e.filter (fun p => p.1 != x)) := by
  intro y b hy
  rw [find_filter] at hy ⊢
  split at hy
  · simp at hy
  · rename_i hne
    simp only [hne, if_false]
    exact h y b hy

theorem firstChoice_mono (m m' : G → FRes) (opts : List G)
    (h : ∀ g ∈ opts, ∀ fs me, m g = .ok fs me → m' g = .ok fs me) :
    ∀ fs me, firstChoice m opts = .ok fs me → firstChoice m' opts = .ok fs me := by
  induction opts with
  | nil => intro fs me heq; exact heq
  | cons g gs ih =>
    intro fs me heq
    cases hm : m g with
    | ok f1 me1 =>
      have h1 := h g (by simp) f1 me1 hm
      cases hr : firstChoice m gs with
      | ok f2 me2 =>
        have h2 := ih (fun g' hg' => h g' (by simp [hg'])) f2 me2 hr
        simp only [firstChoice, hm, hr] at heq
        simp only [firstChoice, h1, h2]
        exact heq
      | recur n => simp [firstChoice, hm, hr] at heq
      | fuel => simp [firstChoice, hm, hr] at heq
    | recur n => simp [firstChoice, hm] at heq
    | fuel => simp [firstChoice, hm] at heq

theorem firstSeq_mono (m m' : G → FRes) (items : List G)
    (h : ∀ g ∈ items, ∀ fs me, m g = .ok fs me → m' g = .ok fs me) :
    ∀ fs me, firstSeq m items = .ok fs me → firstSeq m' items = .ok fs me := by
  induction items with
  | nil => intro fs me heq; exact heq
  | cons g gs ih =>
    intro fs me heq
    cases hm : m g with
    | ok f1 me1 =>
      have h1 := h g (by simp) f1 me1 hm
      cases me1 with
      | false =>
        simp only [firstSeq, hm] at heq
        simp only [firstSeq, h1]
        exact heq
      | true =>
        cases gs with
        | nil =>
          simp only [firstSeq, hm] at heq
          simp only [firstSeq, h1]
          exact heq
        | cons g2 rest =>
          cases hr : firstSeq m (g2 :: rest) with
          | ok f2 me2 =>
            have h2 := ih (fun g' hg' => h g' (by simp [hg'])) f2 me2 hr
            simp only [firstSeq, hm, if_true] at heq
            simp only [firstSeq] at hr
            simp only [hr] at heq
            simp only [firstSeq, h1, if_true]
            simp only [firstSeq] at h2
            simp only [h2]
            exact heq
          | recur n =>
            simp only [firstSeq, hm, if_true] at heq
            simp only [firstSeq] at hr
            simp [hr] at heq
          | fuel =>
            simp only [firstSeq, hm, if_true] at heq
            simp only [firstSeq] at hr
            simp [hr] at heq
    | recur n => simp [firstSeq, hm] at heq
    | fuel => simp [firstSeq, hm] at heq

theorem firstF_mono : ∀ (f : Nat) (env' env : Env) (g : G) (fs : List FI) (me : Bool),
    SubEnv env' env → firstF f env' g = .ok fs me → ∀ f', f ≤ f' → firstF f' env g = .ok fs me := by
  intro f
  induction f with
  | zero => intro env' env g fs me _ heq; simp [firstF_zero] at heq
  | succ f ih =>
    intro env' env g fs me hsub heq f' hle
    obtain ⟨f'', rfl⟩ : ∃ f'', f' = f'' + 1 := ⟨f' - 1, by omega⟩
    have hle' : f ≤ f'' := by omega
    cases g with
    | tru => exact heq
    | ws => exact heq
    | str q => exact heq
    | tok k label => exact heq
    | lit k l => exact heq
    | choice opts stops =>
      rw [firstF_choice] at heq ⊢
      exact firstChoice_mono _ _ opts (fun g _ fs me hg => ih env' env g fs me hsub hg f'' hle') fs me heq
    | seq items =>
      rw [firstF_seq] at heq ⊢
      exact firstSeq_mono _ _ items (fun g _ fs me hg => ih env' env g fs me hsub hg f'' hle') fs me heq
    | rep0 g =>
      rw [firstF_rep0] at heq ⊢
      cases hm : firstF f env' g with
      | ok f1 me1 =>
        rw [ih env' env g f1 me1 hsub hm f'' hle']
        rw [hm] at heq
        exact heq
      | recur n => rw [hm] at heq; simp at heq
      | fuel => rw [hm] at heq; simp at heq
    | rep1 g =>
      rw [firstF_rep1] at heq ⊢
      exact ih env' env g fs me hsub heq f'' hle'
    | rep01 g =>
      rw [firstF_rep01] at heq ⊢
      cases hm : firstF f env' g with
      | ok f1 me1 =>
        rw [ih env' env g f1 me1 hsub hm f'' hle']
        rw [hm] at heq
        exact heq
      | recur n => rw [hm] at heq; simp at heq
      | fuel => rw [hm] at heq; simp at heq
    | adjoin a b =>
      rw [firstF_adjoin] at heq ⊢
      cases hm : firstF f env' a with
      | ok f1 me1 =>
        rw [ih env' env a f1 me1 hsub hm f'' hle']
        rw [hm] at heq
        exact heq
      | recur n => rw [hm] at heq; simp at heq
      | fuel => rw [hm] at heq; simp at heq
    | var name =>
      rw [firstF_var] at heq ⊢
      cases hf : env'.find name with
      | none => simp [hf] at heq
      | some body =>
        simp only [hf] at heq
        rw [hsub name body hf]
        exact ih _ _ body fs me (hsub.filter name) heq f'' hle'

/-! ## no panic: index expressions of the matchers stay in range -/

theorem stopsLen_choice (opts : List G) (stops : List Bool) :
    (G.choice opts stops).stopsLen = (stops.length == opts.length && G.stopsLen.stopsLenL opts) := by
  simp [G.stopsLen]
theorem stopsLen_seq (items : List G) : (G.seq items).stopsLen = G.stopsLen.stopsLenL items := by
  simp [G.stopsLen]
theorem stopsLen_rep0 (g : G) : (G.rep0 g).stopsLen = g.stopsLen := by simp [G.stopsLen]
theorem stopsLen_rep1 (g : G) : (G.rep1 g).stopsLen = g.stopsLen := by simp [G.stopsLen]
theorem stopsLen_rep01 (g : G) : (G.rep01 g).stopsLen = g.stopsLen := by simp [G.stopsLen]
theorem stopsLen_adjoin (a b : G) : (G.adjoin a b).stopsLen = (a.stopsLen && b.stopsLen) := by
  simp [G.stopsLen]

theorem stopsLenL_mem : ∀ {items : List G}, G.stopsLen.stopsLenL items = true →
    ∀ g ∈ items, g.stopsLen = true := by
  intro items
  induction items with
  | nil => intro _ g hg; simp at hg
  | cons a rest ih =>
    intro h g hg
    simp only [G.stopsLen.stopsLenL, Bool.and_eq_true] at h
    simp only [List.mem_cons] at hg
    rcases hg with rfl | hg
    · exact h.1
    · exact ih h.2 g hg

theorem env_stopsLen_find : ∀ {env : Env}, env.stopsLen = true → ∀ x b, env.find x = some b →
    b.stopsLen = true := by
  intro env
  induction env with
  | nil => intro _ x b h; simp [Env.find, List.lookup] at h
  | cons e rest ih =>
    intro hs x b h
    rcases e with ⟨k, v⟩
    simp only [Env.stopsLen, Bool.and_eq_true] at hs
    simp only [Env.find, List.lookup] at h
    split at h
    · simp only [Option.some.injEq] at h; subst h; exact hs.1
    · exact ih hs.2 x b h

theorem toksOk_get : ∀ {toks : List Tok}, toksOk toks = true → ∀ (i : Nat) (t : Tok), toks[i]? = some t →
    t.kind = tokSTRING → t.lit ≠ [] := by
  intro toks
  induction toks with
  | nil => intro _ i t h; simp at h
  | cons a rest ih =>
    intro hok i t h hk
    simp only [toksOk, Bool.and_eq_true, Bool.or_eq_true, bne_iff_ne, ne_eq, Bool.not_eq_true',
      List.isEmpty_eq_false_iff] at hok
    cases i with
    | zero =>
      simp only [List.getElem?_cons_zero, Option.some.injEq] at h
      subst h
      rcases hok.1 with h1 | h1
      · exact absurd hk h1
      · exact h1
    | succ i => exact ih hok.2 i t (by simpa using h) hk

theorem seqLoop_no_panic (m : G → Nat → Out (V α)) (N : Nat)
    (hle : ∀ g p n r l, p ≤ N → m g p = (.ok n r, l) → p + n ≤ N) :
    ∀ (items : List G) (p : Nat), p ≤ N →
    (∀ g ∈ items, ∀ p', p' ≤ N → (m g p').1 ≠ .abort .panic) →
    (seqLoop m items p).1 ≠ .abort .panic := by
  intro items
  induction items with
  | nil => intro p _ _; simp [seqLoop]
  | cons g gs ih =>
    intro p hp h
    have h1 := h g (by simp) p hp
    rcases hm : m g p with ⟨r1, l1⟩
    rw [hm] at h1
    cases r1 with
    | ok n1 v1 =>
      have hle1 := hle g p n1 v1 l1 hp hm
      have h2 := ih (p + n1) hle1 (fun g' hg' => h g' (by simp [hg']))
      rcases hr : seqLoop m gs (p + n1) with ⟨r2, l2⟩
      rw [hr] at h2
      cases r2 with
      | ok n2 rs2 => simp [seqLoop, hm, hr]
      | fail n2 e => simp [seqLoop, hm, hr]
      | abort a => simpa [seqLoop, hm, hr] using h2
    | fail n1 e => simp [seqLoop, hm]
    | abort a => simpa [seqLoop, hm] using h1

theorem repLoop_no_panic (m : Nat → Out (V α)) (N : Nat)
    (hle : ∀ p n r l, p ≤ N → m p = (.ok n r, l) → p + n ≤ N)
    (h : ∀ p, p ≤ N → (m p).1 ≠ .abort .panic) :
    ∀ (k p : Nat), p ≤ N → (repLoop m N k p).1 ≠ .abort .panic := by
  intro k
  induction k with
  | zero => intro p _; simp [repLoop]
  | succ k ih =>
    intro p hp
    have h1 := h p hp
    rcases hm : m p with ⟨r1, l1⟩
    rw [hm] at h1
    cases r1 with
    | ok n1 v1 =>
      by_cases hn : n1 = 0
      · simp [repLoop, hm, hn]
      · have hle1 := hle p n1 v1 l1 hp hm
        have h2 := ih (p + n1) hle1
        rcases hr : repLoop m N k (p + n1) with ⟨r2, l2⟩
        rw [hr] at h2
        cases r2 with
        | ok n2 rs2 => simp [repLoop, hm, hn, hr]
        | fail n2 e => simp [repLoop, hm, hn, hr]
        | abort a => simpa [repLoop, hm, hn, hr] using h2
    | fail n1 e => simp [repLoop, hm]
    | abort a => simpa [repLoop, hm] using h1

theorem choiceLoop_no_panic (m : G → Out (V α)) : ∀ (opts : List G) (stops : List Bool) nMax errMax multi,
    stops.length = opts.length → (∀ g ∈ opts, (m g).1 ≠ .abort .panic) →
    (choiceLoop m opts stops nMax errMax multi).1 ≠ .abort .panic := by
  intro opts
  induction opts with
  | nil => intros; simp [choiceLoop]
  | cons g gs ih =>
    intro stops nMax errMax multi hlen h
    have h1 := h g (by simp)
    rcases hm : m g with ⟨r1, l1⟩
    rw [hm] at h1
    cases stops with
    | nil => simp at hlen
    | cons s st =>
      have hlen' : st.length = gs.length := by simpa using hlen
      have hrest := fun nm em mu => ih st nm em mu hlen' (fun g' hg' => h g' (by simp [hg']))
      cases r1 with
      | ok n v => simp [choiceLoop, hm]
      | abort a => simpa [choiceLoop, hm] using h1
      | fail n e =>
        simp only [choiceLoop, hm, List.tail_cons]
        by_cases hn : n > 0
        · simp only [hn, if_true]
          cases s with
          | true => simp
          | false =>
            simp only [Bool.false_eq_true, if_false]
            exact hrest _ _ _
        · simp only [hn, if_false]
          exact hrest _ _ _

theorem matchF_no_panic (c : Cx α) (henv : c.env.stopsLen = true) (htoks : toksOk c.toks = true) :
    ∀ f g i, i ≤ c.N → g.stopsLen = true → (matchF c f g i).1 ≠ .abort .panic := by
  intro f
  induction f with
  | zero => intro g i _ _; simp [matchF_zero]
  | succ f ih =>
    intro g i hi hg
    have hle : ∀ g p n v l, p ≤ c.N → matchF c f g p = (.ok n v, l) → p + n ≤ c.N :=
      fun g p n v l hp h => matchF_le c f g p n v l hp h
    cases g with
    | tru => simp [matchF]
    | ws =>
      simp only [matchF]
      cases ht : c.toks[i]? with
      | none => simp
      | some t =>
        simp only
        by_cases hi0 : i > 0
        · simp only [hi0, if_true]
          have hlt := tok_lt ht
          have : i - 1 < c.toks.length := by unfold Cx.N at hlt; omega
          rw [List.getElem?_eq_getElem this]
          simp only
          split <;> simp
        · simp [hi0]
    | str q =>
      simp only [matchF]
      cases ht : c.toks[i]? with
      | none => simp
      | some t =>
        simp only
        by_cases hk : t.kind = tokSTRING
        · simp only [hk, ne_eq, not_true_eq_false, if_false]
          have hl := toksOk_get htoks i t ht hk
          cases hlit : t.lit with
          | nil => exact absurd hlit hl
          | cons b r => simp only; split <;> simp
        · simp [hk]
    | tok k label =>
      simp only [matchF]
      repeat' split
      all_goals simp
    | lit k lt =>
      simp only [matchF]
      repeat' split
      all_goals simp
    | choice opts stops =>
      rw [matchF_choice]
      rw [stopsLen_choice] at hg
      simp only [Bool.and_eq_true, beq_iff_eq] at hg
      exact choiceLoop_no_panic _ opts stops _ _ _ hg.1
        (fun g' hg' => ih g' i hi (stopsLenL_mem hg.2 g' hg'))
    | seq items =>
      rw [matchF_seq]
      rw [stopsLen_seq] at hg
      intro hc
      have : (seqLoop (fun g p => matchF c f g p) items i).1 = .abort .panic := by
        rcases hr : seqLoop (fun g p => matchF c f g p) items i with ⟨r, l⟩
        rw [hr] at hc
        cases r <;> simp_all [mapOut]
      exact seqLoop_no_panic _ c.N hle items i hi
        (fun g' hg' p' hp' => ih g' p' hp' (stopsLenL_mem hg g' hg')) this
    | rep0 g' =>
      rw [matchF_rep0]
      rw [stopsLen_rep0] at hg
      intro hc
      have : (repLoop (fun p => matchF c f g' p) c.N f i).1 = .abort .panic := by
        rcases hr : repLoop (fun p => matchF c f g' p) c.N f i with ⟨r, l⟩
        rw [hr] at hc
        cases r <;> simp_all [mapOut]
      exact repLoop_no_panic _ c.N (fun p n v l hp h => hle g' p n v l hp h)
        (fun p hp => ih g' p hp hg) f i hi this
    | rep1 g' =>
      rw [matchF_rep1]
      rw [stopsLen_rep1] at hg
      have h1 := ih g' i hi hg
      rcases hm : matchF c f g' i with ⟨r1, l1⟩
      rw [hm] at h1
      cases r1 with
      | ok n1 v1 =>
        have hle1 := hle g' i n1 v1 l1 hi hm
        have h2 := repLoop_no_panic (fun p => matchF c f g' p) c.N (fun p n v l hp h => hle g' p n v l hp h)
          (fun p hp => ih g' p hp hg) f (i + n1) hle1
        simp only
        rcases hr : repLoop (fun p => matchF c f g' p) c.N f (i + n1) with ⟨r2, l2⟩
        rw [hr] at h2
        cases r2 with
        | ok n2 rs2 => simp
        | fail n2 e => simp
        | abort a => simpa using h2
      | fail n1 e => simp
      | abort a => simpa using h1
    | rep01 g' =>
      rw [matchF_rep01]
      rw [stopsLen_rep01] at hg
      have h1 := ih g' i hi hg
      rcases hm : matchF c f g' i with ⟨r1, l1⟩
      rw [hm] at h1
      cases r1 with
      | ok n1 v1 => simp
      | fail n1 e => simp
      | abort a => simpa using h1
    | adjoin a b =>
      rw [matchF_adjoin]
      rw [stopsLen_adjoin] at hg
      simp only [Bool.and_eq_true] at hg
      have h1 := ih a i hi hg.1
      rcases hm : matchF c f a i with ⟨r1, l1⟩
      rw [hm] at h1
      cases r1 with
      | ok n1 v1 =>
        have hle1 := hle a i n1 v1 l1 hi hm
        simp only
        by_cases hn : n1 = 0
        · simp [hn]
        · simp only [hn, if_false]
          have h2 := ih b (i + n1) hle1 hg.2
          rcases hb : matchF c f b (i + n1) with ⟨r2, l2⟩
          rw [hb] at h2
          cases r2 with
          | ok n2 v2 =>
            have hle2 := hle b (i + n1) n2 v2 l2 hle1 hb
            simp only
            by_cases hn2 : n2 = 0
            · simp [hn2]
            · simp only [hn2, if_false]
              have hA : i + n1 - 1 < c.toks.length := by unfold Cx.N at hle2; omega
              have hB : i + n1 < c.toks.length := by unfold Cx.N at hle2; omega
              rw [List.getElem?_eq_getElem hA, List.getElem?_eq_getElem hB]
              simp only
              split <;> simp
          | fail n2 e => simp
          | abort ab => simpa using h2
      | fail n1 e => simp
      | abort ab => simpa using h1
    | var x =>
      rw [matchF_var]
      cases hf : c.env.find x with
      | none => simp
      | some body =>
        simp only
        have h1 := ih body i hi (env_stopsLen_find henv x body hf)
        rcases hm : matchF c f body i with ⟨r1, l1⟩
        rw [hm] at h1
        cases r1 with
        | ok n1 v1 => simp
        | fail n1 e => simp only; split <;> simp
        | abort ab => simpa using h1

end GopModel.Tpl
