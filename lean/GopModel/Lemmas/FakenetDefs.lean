/- C41 helper: invariants of the fakenet feeder system (definitions) and the case-analysis tactics. -/
import GopModel.Lemmas.TS
import GopModel.Generated.SyncFakenet
namespace GopModel.C41
open GopModel.TS GopModel.Generated.SyncFakenet

/-- between `f.mu.Lock()` and `f.mu.Unlock()` of `close` -/
def holds (t : Thread) : Bool :=
  t.fn == 2 && (t.pc == 1 || t.pc == 2 || t.pc == 3 || t.pc == 4)

def Valid (t : Thread) : Prop :=
  (t.fn = 0 ∧ t.pc < 5 ∧ (t.st = .parked → t.pc = 0 ∨ t.pc = 2) ∧ (t.st = .done → t.pc = 1 ∨ t.pc = 3 ∨ t.pc = 4)) ∨
  (t.fn = 1 ∧ t.pc < 5 ∧ (t.st = .parked → t.pc = 0 ∨ t.pc = 3) ∧ (t.st = .done → t.pc = 1 ∨ t.pc = 4)) ∨
  (t.fn = 2 ∧ t.pc < 6 ∧ t.st ≠ .parked ∧ (t.st = .done → t.pc = 5))

theorem instr_cases {t : Thread} {ins : Instr} (hv : Valid t) (h : instrAt sys t = some ins) :
    (t.fn = 0 ∧ t.pc = 0 ∧ ins = .select [.send 0 .a 2, .recv 2 none 1]) ∨
    (t.fn = 0 ∧ t.pc = 1 ∧ ins = .ret .eof) ∨
    (t.fn = 0 ∧ t.pc = 2 ∧ ins = .select [.recv 1 (some .b) 3, .recv 2 none 4]) ∨
    (t.fn = 0 ∧ t.pc = 3 ∧ ins = .ret (.reg .b)) ∨
    (t.fn = 0 ∧ t.pc = 4 ∧ ins = .ret .eof) ∨
    (t.fn = 1 ∧ t.pc = 0 ∧ ins = .select [.recv 0 (some .a) 2, .recv 2 none 1]) ∨
    (t.fn = 1 ∧ t.pc = 1 ∧ ins = .ret .unit) ∨
    (t.fn = 1 ∧ t.pc = 2 ∧ ins = .call .a .b 3) ∨
    (t.fn = 1 ∧ t.pc = 3 ∧ ins = .select [.send 1 .b 0, .recv 2 none 4]) ∨
    (t.fn = 1 ∧ t.pc = 4 ∧ ins = .ret .unit) ∨
    (t.fn = 2 ∧ t.pc = 0 ∧ ins = .lock 1) ∨
    (t.fn = 2 ∧ t.pc = 1 ∧ ins = .brFlag 4 2) ∨
    (t.fn = 2 ∧ t.pc = 2 ∧ ins = .setFlag 3) ∨
    (t.fn = 2 ∧ t.pc = 3 ∧ ins = .close 2 4) ∨
    (t.fn = 2 ∧ t.pc = 4 ∧ ins = .unlock 5) ∨
    (t.fn = 2 ∧ t.pc = 5 ∧ ins = .ret .unit) := by
  rcases hv with ⟨hfn, hpc, _⟩ | ⟨hfn, hpc, _⟩ | ⟨hfn, hpc, _⟩
  · have : t.pc = 0 ∨ t.pc = 1 ∨ t.pc = 2 ∨ t.pc = 3 ∨ t.pc = 4 := by omega
    rcases this with e|e|e|e|e <;>
      simp [instrAt, sys, hfn, e, doFn, doCode] at h <;> simp [hfn, e, h]
  · have : t.pc = 0 ∨ t.pc = 1 ∨ t.pc = 2 ∨ t.pc = 3 ∨ t.pc = 4 := by omega
    rcases this with e|e|e|e|e <;>
      simp [instrAt, sys, hfn, e, runFn, runCode] at h <;> simp [hfn, e, h]
  · have : t.pc = 0 ∨ t.pc = 1 ∨ t.pc = 2 ∨ t.pc = 3 ∨ t.pc = 4 ∨ t.pc = 5 := by omega
    rcases this with e|e|e|e|e|e <;>
      simp [instrAt, sys, hfn, e, closeFn, closeCode] at h <;> simp [hfn, e, h]

/-- the select cases a valid thread is parked in -/
theorem parked_cases {t : Thread} (hv : Valid t) :
    (t.st ≠ .parked ∧ parkedCases sys t = []) ∨
    (t.st = .parked ∧ t.fn = 0 ∧ t.pc = 0 ∧ parkedCases sys t = [.send 0 .a 2, .recv 2 none 1]) ∨
    (t.st = .parked ∧ t.fn = 0 ∧ t.pc = 2 ∧ parkedCases sys t = [.recv 1 (some .b) 3, .recv 2 none 4]) ∨
    (t.st = .parked ∧ t.fn = 1 ∧ t.pc = 0 ∧ parkedCases sys t = [.recv 0 (some .a) 2, .recv 2 none 1]) ∨
    (t.st = .parked ∧ t.fn = 1 ∧ t.pc = 3 ∧ parkedCases sys t = [.send 1 .b 0, .recv 2 none 4]) := by
  by_cases hp : t.st = .parked
  · right
    rcases hv with ⟨hfn, _, h1, _⟩ | ⟨hfn, _, h1, _⟩ | ⟨hfn, _, h1, _⟩
    · rcases h1 hp with e | e <;> simp [parkedCases, hp, instrAt, sys, hfn, e, doFn, doCode]
    · rcases h1 hp with e | e <;> simp [parkedCases, hp, instrAt, sys, hfn, e, runFn, runCode]
    · exact absurd hp h1
  · left; exact ⟨hp, by simp [parkedCases, hp]⟩

/-- what `close(f.done)` does to one thread -/
theorem claim_props {t : Thread} (hv : Valid t) :
    Valid (claimClosed sys 2 t) ∧ (claimClosed sys 2 t).fn = t.fn ∧ (claimClosed sys 2 t).st ≠ .parked ∧
    (t.st ≠ .parked → claimClosed sys 2 t = t) ∧
    (t.st = .parked → (claimClosed sys 2 t).st = .run ∧ (claimClosed sys 2 t).a = t.a ∧ (claimClosed sys 2 t).b = t.b ∧
      ((t.pc = 0 ∧ (claimClosed sys 2 t).pc = 1) ∨ (t.pc = 2 ∧ t.fn = 0 ∧ (claimClosed sys 2 t).pc = 4) ∨
       (t.pc = 3 ∧ t.fn = 1 ∧ (claimClosed sys 2 t).pc = 4))) := by
  rcases parked_cases hv with ⟨h0, hc⟩ | ⟨h0, hf, hp, hc⟩ | ⟨h0, hf, hp, hc⟩ | ⟨h0, hf, hp, hc⟩ | ⟨h0, hf, hp, hc⟩
  · have : claimClosed sys 2 t = t := by simp [claimClosed, hc, findRecv]
    rw [this]; exact ⟨hv, rfl, h0, fun _ => rfl, fun h => absurd h h0⟩
  all_goals (simp [claimClosed, hc, findRecv, Thread.putOpt, Valid, h0, hf, hp])

theorem claim_pc {t : Thread} (hv : Valid t) :
    claimClosed sys 2 t = t ∨
    ((claimClosed sys 2 t).a = t.a ∧ (claimClosed sys 2 t).b = t.b ∧ (claimClosed sys 2 t).fn = t.fn ∧
      ((claimClosed sys 2 t).pc = 1 ∨ (claimClosed sys 2 t).pc = 4) ∧
      ((t.pc = 0 ∧ (claimClosed sys 2 t).pc = 1) ∨ (t.pc = 2 ∧ t.fn = 0 ∧ (claimClosed sys 2 t).pc = 4) ∨
       (t.pc = 3 ∧ t.fn = 1 ∧ (claimClosed sys 2 t).pc = 4))) := by
  have h := claim_props hv
  by_cases hq : t.st = .parked
  · right
    obtain ⟨_, hf, _, _, h5⟩ := h
    obtain ⟨_, ha, hb, hpc⟩ := h5 hq
    refine ⟨ha, hb, hf, ?_, ?_⟩ <;> omega
  · left; exact h.2.2.2.1 hq

theorem no_parked_sender_done {s : State} (hval : ∀ (i : Nat) t, s.threads[i]? = some t → Valid t) :
    s.threads.any (parkedSender sys 2) = false := by
  rw [List.any_eq_false]
  intro ti hti
  obtain ⟨i, hi, rfl⟩ := List.getElem_of_mem hti
  have hti' : s.threads[i]? = some s.threads[i] := List.getElem?_eq_getElem hi
  rcases parked_cases (hval i _ hti') with ⟨h0, hc⟩ | ⟨h0, hf, hp, hc⟩ | ⟨h0, hf, hp, hc⟩ | ⟨h0, hf, hp, hc⟩ | ⟨h0, hf, hp, hc⟩ <;>
    simp [parkedSender, hc, findSend]

/-- threads after the `close(f.done)` step of thread `j` -/
theorem close_threads {s : State} {j i : Nat} {t t' : Thread}
    (h : ((s.threads.map (claimClosed sys 2)).set j t)[i]? = some t') :
    (i = j ∧ t' = t) ∨ (i ≠ j ∧ ∃ ti, s.threads[i]? = some ti ∧ t' = claimClosed sys 2 ti) := by
  rcases set_getElem?_cases h with ⟨rfl, rfl, _⟩ | ⟨hne, hi⟩
  · left; exact ⟨rfl, rfl⟩
  · right
    rw [List.getElem?_map] at hi
    cases hs : s.threads[i]? with
    | none => rw [hs] at hi; cases hi
    | some ti => rw [hs] at hi; simp at hi; exact ⟨hne, ti, rfl, hi.symm⟩

theorem spawn_cases {fn : Nat} {f : FnDef} (hsp : sys.spawnable.contains fn = true)
    (hf : sys.fns[fn]? = some f) : (fn = 0 ∧ f = doFn) ∨ (fn = 2 ∧ f = closeFn) := by
  simp [sys] at hsp hf
  rcases hsp with rfl | rfl <;> simp at hf <;> simp [hf]

structure Basic (s : State) : Prop where
  noPanic : s.panic = false
  run0 : ∃ t, s.threads[0]? = some t ∧ t.fn = 1
  valid : ∀ (i : Nat) t, s.threads[i]? = some t → Valid t
  runner : ∀ (i : Nat) t, s.threads[i]? = some t → (t.fn = 1 ↔ i = 0)
  hold1 : ∀ (i : Nat) t, s.threads[i]? = some t → holds t = true → s.holder = some i
  hold2 : ∀ (i : Nat), s.holder = some i → ∃ t, s.threads[i]? = some t ∧ holds t = true
  closedOnly : ∀ ch ∈ s.closed, ch = 2
  flagClosed : 2 ∈ s.closed → s.flag = true
  atSet : ∀ (i : Nat) t, s.threads[i]? = some t → t.fn = 2 → t.pc = 2 → s.flag = false
  atClose : ∀ (i : Nat) t, s.threads[i]? = some t → t.fn = 2 → t.pc = 3 → 2 ∉ s.closed
  atCloseFlag : ∀ (i : Nat) t, s.threads[i]? = some t → t.fn = 2 → t.pc = 3 → s.flag = true
  awake : 2 ∈ s.closed → ∀ (i : Nat) t, s.threads[i]? = some t → t.st ≠ .parked

set_option hygiene false in
macro "sel_partner" fin:tactic : tactic => `(tactic| (
  have hpk := parked_cases (hval p tp htp)
  have hpl := getElem?_lt htp
  rcases k with _ | _ | k <;> simp at hk
  all_goals (
    obtain ⟨rfl, rfl, rfl⟩ := hk
    rcases hpk with ⟨h0, hc⟩ | ⟨h0, hf', hp', hc⟩ | ⟨h0, hf', hp', hc⟩ | ⟨h0, hf', hp', hc⟩ | ⟨h0, hf', hp', hc⟩ <;>
      simp [hc, findSend, findRecv] at hf
    all_goals (
      obtain ⟨rfl, rfl⟩ := hf
      have hp0 := hrun p tp htp
      have hj0 := hrun j t ht
      simp [hf', hfn] at hp0 hj0
      (try subst hp0)
      (try subst hj0)
      $fin))))

set_option hygiene false in
macro "sel_cases" fin:tactic : tactic => `(tactic| (
  rcases exec_select hex with ⟨hk, hkl, hall, rfl⟩ | ⟨ch, r, n, hk, hcl, rfl⟩ | ⟨ch, r, n, tp, rp, np, hk, hcl, htp, hf, rfl⟩ | ⟨ch, r, n, hk, hcl, rfl⟩ | ⟨ch, r, n, tp, rp, np, hk, hcl, htp, hf, rfl⟩
  · simp [caseReady] at hall
    $fin
  · rcases k with _ | _ | k <;> simp at hk
    all_goals (obtain ⟨rfl, rfl, rfl⟩ := hk; $fin)
  · sel_partner $fin
  · rcases k with _ | _ | k <;> simp at hk
    all_goals (obtain ⟨rfl, rfl, rfl⟩ := hk; $fin)
  · sel_partner $fin))

/-! ### layer 2: the request/response protocol seen in the trace -/

/-- where the feeder protocol stands: idle, a buffer received from `do` thread `j`, or the
source called on it with result `r` (not yet handed back) -/
inductive Phase where
  | idle
  | got (j : Nat) (b : Val)
  | called (j : Nat) (b r : Val)
  deriving DecidableEq, Repr

/-- Replays the trace (newest first); `none` = the events do not follow the cycle
input-transfer → source call → result-transfer. -/
def phase : List Ev → Option Phase
  | [] => some .idle
  | .xfer ch sj rj x :: t =>
    if ch = 0 then
      match phase t with
      | some .idle => some (.got sj x)
      | _ => none
    else if ch = 1 then
      match phase t with
      | some (.called j _ r) => if rj = j ∧ x = r then some .idle else none
      | _ => none
    else phase t
  | .call _ b r :: t =>
    match phase t with
    | some (.got j b') => if b = b' then some (.called j b r) else none
    | _ => none
  | _ :: t => phase t

/-- projections of the phase (binder-free forms of the invariants) -/
def gotBuf : Option Phase → Option Val
  | some (.got _ b) => some b
  | _ => none
def calledRes : Option Phase → Option Val
  | some (.called _ _ r) => some r
  | _ => none
def owner : Option Phase → Option Nat
  | some (.got j _) => some j
  | some (.called j _ _) => some j
  | _ => none

theorem phase_xfer0 {t : List Ev} {sj rj : Nat} {x : Val} (h : phase t = some .idle) :
    phase (.xfer 0 sj rj x :: t) = some (.got sj x) := by simp [phase, h]
theorem phase_call {t : List Ev} {i : Nat} {b r : Val} (h : gotBuf (phase t) = some b) :
    calledRes (phase (.call i b r :: t)) = some r ∧ owner (phase (.call i b r :: t)) = owner (phase t) := by
  cases hp : phase t with
  | none => simp [hp, gotBuf] at h
  | some φ =>
    cases φ with
    | idle => simp [hp, gotBuf] at h
    | called => simp [hp, gotBuf] at h
    | got j b' =>
      simp [hp, gotBuf] at h; subst h
      simp [phase, hp, calledRes, owner]
theorem phase_xfer1 {t : List Ev} {sj j : Nat} {r : Val} (h : calledRes (phase t) = some r)
    (ho : owner (phase t) = some j) : phase (.xfer 1 sj j r :: t) = some .idle := by
  cases hp : phase t with
  | none => simp [hp, calledRes] at h
  | some φ =>
    cases φ with
    | idle => simp [hp, calledRes] at h
    | got => simp [hp, calledRes] at h
    | called j' b r' =>
      simp [hp, calledRes] at h; simp [hp, owner] at ho; subst h; subst ho
      simp [phase, hp]
@[simp] theorem phase_ret {t : List Ev} {i fn : Nat} {o : Out} : phase (.ret i fn o :: t) = phase t := rfl
@[simp] theorem phase_closed {t : List Ev} {ch : Nat} : phase (.closed ch :: t) = phase t := rfl
@[simp] theorem phase_spawn {t : List Ev} {i fn : Nat} {a b : Val} : phase (.spawn i fn a b :: t) = phase t := rfl
@[simp] theorem gotBuf_got {j : Nat} {b : Val} : gotBuf (some (.got j b)) = some b := rfl
@[simp] theorem owner_got {j : Nat} {b : Val} : owner (some (.got j b)) = some j := rfl
@[simp] theorem gotBuf_idle : gotBuf (some .idle) = none := rfl
@[simp] theorem calledRes_idle : calledRes (some .idle) = none := rfl
@[simp] theorem owner_idle : owner (some .idle) = none := rfl

/-- the value most recently received on the result channel by thread `i` -/
def lastRecv (i : Nat) : List Ev → Option Val
  | [] => none
  | .xfer ch _ rj x :: t => if ch = 1 ∧ rj = i then some x else lastRecv i t
  | _ :: t => lastRecv i t

/-- every `do` that returns a value returns the one it received on the result channel -/
def RetOk : List Ev → Prop
  | [] => True
  | .ret i fn o :: t => (fn = 0 → ∀ v, o = .val v → lastRecv i t = some v) ∧ RetOk t
  | _ :: t => RetOk t

/-- no channel transfer happens after a close -/
def XferBeforeClose : List Ev → Prop
  | [] => True
  | .xfer _ _ _ _ :: t => (∀ ch, Ev.closed ch ∉ t) ∧ XferBeforeClose t
  | _ :: t => XferBeforeClose t

structure FInv (s : State) : Prop where
  run01 : ∀ r, s.threads[0]? = some r → (r.pc = 0 ∨ r.pc = 1) → phase s.trace = some .idle
  run2 : ∀ r, s.threads[0]? = some r → r.pc = 2 → gotBuf (phase s.trace) = some r.a
  run34 : ∀ r, s.threads[0]? = some r → (r.pc = 3 ∨ r.pc = 4) → calledRes (phase s.trace) = some r.b
  doWait : ∀ (i : Nat) t, s.threads[i]? = some t → t.fn = 0 → t.pc = 2 → owner (phase s.trace) = some i
  doHas : ∀ (i : Nat) t, s.threads[i]? = some t → t.fn = 0 → t.pc = 3 → lastRecv i s.trace = some t.b
  retOk : RetOk s.trace
  xbc : XferBeforeClose s.trace
  closedEv : ∀ ch, Ev.closed ch ∈ s.trace → 2 ∈ s.closed

end GopModel.C41
