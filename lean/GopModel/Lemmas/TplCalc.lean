/-
"Eventually evaluates" toolkit for concrete grammars: `Evals c g i n r` says that `g` matches
`n` tokens at position `i` with result `r` for every sufficiently large fuel.  Composition
lemmas for token, choice (two options), sequence (two items), `*R`, and rule references.
Used by Props/C30.lean for the README calculator.  Core Lean only.
-/
import GopModel.Lemmas.TplMatch
import GopModel.Model.TplHelpers
namespace GopModel.Tpl

variable {α : Type}

def Evals (c : Cx α) (g : G) (i n : Nat) (r : V α) : Prop :=
  ∃ f0, ∀ f, f0 ≤ f → (matchF c f g i).1 = .ok n r

/-- `g` fails at `i` (reporting count `n`) for every sufficiently large fuel. -/
def Fails (c : Cx α) (g : G) (i : Nat) (n : Int) : Prop :=
  ∃ f0, ∀ f, f0 ≤ f → ∃ e, (matchF c f g i).1 = .fail n e

theorem evals_of_one {c : Cx α} {g : G} {i n : Nat} {r : V α} {f : Nat}
    (h : (matchF c f g i).1 = .ok n r) : Evals c g i n r :=
  ⟨f, fun f' hle => by rw [matchF_mono_le c g i hle (by rw [h]; simp)]; exact h⟩

theorem fails_of_one {c : Cx α} {g : G} {i : Nat} {n : Int} {e : Err} {f : Nat}
    (h : (matchF c f g i).1 = .fail n e) : Fails c g i n :=
  ⟨f, fun f' hle => ⟨e, by rw [matchF_mono_le c g i hle (by rw [h]; simp)]; exact h⟩⟩

theorem evals_tok {c : Cx α} {k : Nat} {lbl : Bytes} {i : Nat} {t : Tok}
    (ht : c.toks[i]? = some t) (hk : t.kind = k) : Evals c (.tok k lbl) i 1 (.tok i) :=
  evals_of_one (f := 1) (by simp [matchF, ht, hk])

theorem fails_tok_kind {c : Cx α} {k : Nat} {lbl : Bytes} {i : Nat} {t : Tok}
    (ht : c.toks[i]? = some t) (hk : t.kind ≠ k) : Fails c (.tok k lbl) i 0 :=
  fails_of_one (f := 1) (e := .expect lbl t.pos) (by simp [matchF, ht, hk])

theorem fails_tok_eof {c : Cx α} {k : Nat} {lbl : Bytes} {i : Nat}
    (ht : c.toks[i]? = none) : Fails c (.tok k lbl) i 0 :=
  fails_of_one (f := 1) (e := .expect lbl c.fileEnd) (by simp [matchF, ht])

/-- First option of a two-way choice succeeds. -/
theorem evals_choice_left {c : Cx α} {a b : G} {st : List Bool} {i n : Nat} {r : V α}
    (ha : Evals c a i n r) : Evals c (.choice [a, b] st) i n r := by
  obtain ⟨f0, h⟩ := ha
  refine ⟨f0 + 1, fun f hle => ?_⟩
  obtain ⟨f', rfl⟩ : ∃ f', f = f' + 1 := ⟨f - 1, by omega⟩
  have h1 := h f' (by omega)
  rw [matchF_choice]
  rcases hm : matchF c f' a i with ⟨ra, la⟩
  rw [hm] at h1
  simp only at h1
  subst h1
  simp [choiceLoop, hm]

/-- First option fails without consuming, second succeeds. -/
theorem evals_choice_right {c : Cx α} {a b : G} {st : List Bool} {i n : Nat} {r : V α}
    (ha : Fails c a i 0) (hb : Evals c b i n r) : Evals c (.choice [a, b] st) i n r := by
  obtain ⟨fa, ha⟩ := ha
  obtain ⟨fb, hb⟩ := hb
  refine ⟨max fa fb + 1, fun f hle => ?_⟩
  obtain ⟨f', rfl⟩ : ∃ f', f = f' + 1 := ⟨f - 1, by omega⟩
  obtain ⟨e, h1⟩ := ha f' (by omega)
  have h2 := hb f' (by omega)
  rw [matchF_choice]
  rcases hma : matchF c f' a i with ⟨ra, la⟩
  rw [hma] at h1
  simp only at h1
  subst h1
  rcases hmb : matchF c f' b i with ⟨rb, lb⟩
  rw [hmb] at h2
  simp only at h2
  subst h2
  simp [choiceLoop, hma, hmb]

/-- Both options fail without consuming: the choice fails without consuming. -/
theorem fails_choice {c : Cx α} {a b : G} {st : List Bool} {i : Nat}
    (ha : Fails c a i 0) (hb : Fails c b i 0) : Fails c (.choice [a, b] st) i 0 := by
  obtain ⟨fa, ha⟩ := ha
  obtain ⟨fb, hb⟩ := hb
  refine ⟨max fa fb + 1, fun f hle => ?_⟩
  obtain ⟨f', rfl⟩ : ∃ f', f = f' + 1 := ⟨f - 1, by omega⟩
  obtain ⟨e1, h1⟩ := ha f' (by omega)
  obtain ⟨e2, h2⟩ := hb f' (by omega)
  rw [matchF_choice]
  rcases hma : matchF c f' a i with ⟨ra, la⟩
  rw [hma] at h1
  simp only at h1
  subst h1
  rcases hmb : matchF c f' b i with ⟨rb, lb⟩
  rw [hmb] at h2
  simp only at h2
  subst h2
  exact ⟨.multi, by simp [choiceLoop, hma, hmb, choiceUpd]⟩

theorem evals_var {c : Cx α} {x : Bytes} {body : G} {i n : Nat} {r : V α}
    (hx : c.env.find x = some body) (hb : Evals c body i n r) :
    Evals c (.var x) i n (match c.procs x with | some p => p r | none => r) := by
  obtain ⟨f0, h⟩ := hb
  refine ⟨f0 + 1, fun f hle => ?_⟩
  obtain ⟨f', rfl⟩ : ∃ f', f = f' + 1 := ⟨f - 1, by omega⟩
  have h1 := h f' (by omega)
  rw [matchF_var, hx]
  simp only
  rcases hm : matchF c f' body i with ⟨rb, lb⟩
  rw [hm] at h1
  simp only at h1
  subst h1
  rfl

theorem fails_var {c : Cx α} {x : Bytes} {body : G} {i : Nat} {n : Int}
    (hx : c.env.find x = some body) (hb : Fails c body i n) : Fails c (.var x) i n := by
  obtain ⟨f0, h⟩ := hb
  refine ⟨f0 + 1, fun f hle => ?_⟩
  obtain ⟨f', rfl⟩ : ∃ f', f = f' + 1 := ⟨f - 1, by omega⟩
  obtain ⟨e, h1⟩ := h f' (by omega)
  rw [matchF_var, hx]
  simp only
  rcases hm : matchF c f' body i with ⟨rb, lb⟩
  rw [hm] at h1
  simp only at h1
  subst h1
  simp only
  split
  · exact ⟨_, rfl⟩
  · exact ⟨_, rfl⟩

theorem evals_seq2 {c : Cx α} {a b : G} {i n1 n2 : Nat} {r1 r2 : V α}
    (ha : Evals c a i n1 r1) (hb : Evals c b (i + n1) n2 r2) :
    Evals c (.seq [a, b]) i (n1 + n2) (.list [r1, r2]) := by
  obtain ⟨fa, ha⟩ := ha
  obtain ⟨fb, hb⟩ := hb
  refine ⟨max fa fb + 1, fun f hle => ?_⟩
  obtain ⟨f', rfl⟩ : ∃ f', f = f' + 1 := ⟨f - 1, by omega⟩
  have h1 := ha f' (by omega)
  have h2 := hb f' (by omega)
  rw [matchF_seq]
  rcases hma : matchF c f' a i with ⟨ra, la⟩
  rw [hma] at h1
  simp only at h1
  subst h1
  rcases hmb : matchF c f' b (i + n1) with ⟨rb, lb⟩
  rw [hmb] at h2
  simp only at h2
  subst h2
  simp [seqLoop, hma, hmb, mapOut]

theorem fails_seq2_first {c : Cx α} {a b : G} {i : Nat} {n : Int}
    (ha : Fails c a i n) : Fails c (.seq [a, b]) i n := by
  obtain ⟨fa, ha⟩ := ha
  refine ⟨fa + 1, fun f hle => ?_⟩
  obtain ⟨f', rfl⟩ : ∃ f', f = f' + 1 := ⟨f - 1, by omega⟩
  obtain ⟨e, h1⟩ := ha f' (by omega)
  rw [matchF_seq]
  rcases hma : matchF c f' a i with ⟨ra, la⟩
  rw [hma] at h1
  simp only at h1
  subst h1
  exact ⟨e, by simp [seqLoop, hma, mapOut]⟩

/-- `RepsE c g p n rs`: `g` matches with progress `rs.length` times from `p` and then fails. -/
inductive RepsE (c : Cx α) (g : G) : Nat → Nat → List (V α) → Prop where
  | stop (p : Nat) (n : Int) : Fails c g p n → RepsE c g p 0 []
  | step (p n1 : Nat) (r1 : V α) (n2 : Nat) (rs : List (V α)) :
      Evals c g p n1 r1 → n1 > 0 → RepsE c g (p + n1) n2 rs → RepsE c g p (n1 + n2) (r1 :: rs)

theorem repLoop_of_repsE {c : Cx α} {g : G} {p n : Nat} {rs : List (V α)} (h : RepsE c g p n rs) :
    ∃ f0, ∀ f, f0 ≤ f → ∀ k, rs.length < k →
      (repLoop (fun q => matchF c f g q) c.N k p).1 = .ok n rs := by
  induction h with
  | stop p n hf =>
    obtain ⟨f0, hf⟩ := hf
    refine ⟨f0, fun f hle k hk => ?_⟩
    obtain ⟨k', rfl⟩ : ∃ k', k = k' + 1 := ⟨k - 1, by simp at hk; omega⟩
    obtain ⟨e, h1⟩ := hf f hle
    rcases hm : matchF c f g p with ⟨rg, lg⟩
    rw [hm] at h1
    simp only at h1
    subst h1
    simp [repLoop, hm]
  | step p n1 r1 n2 rs he hpos _ ih =>
    obtain ⟨f1, he⟩ := he
    obtain ⟨f2, ih⟩ := ih
    refine ⟨max f1 f2, fun f hle k hk => ?_⟩
    obtain ⟨k', rfl⟩ : ∃ k', k = k' + 1 := ⟨k - 1, by simp at hk; omega⟩
    have h1 := he f (by omega)
    have h2 := ih f (by omega) k' (by simp at hk; omega)
    rcases hm : matchF c f g p with ⟨rg, lg⟩
    rw [hm] at h1
    simp only at h1
    subst h1
    rcases hr : repLoop (fun q => matchF c f g q) c.N k' (p + n1) with ⟨rr, lr⟩
    rw [hr] at h2
    simp only at h2
    subst h2
    have hne : n1 ≠ 0 := by omega
    simp [repLoop, hm, hne, hr]

theorem evals_rep0 {c : Cx α} {g : G} {p n : Nat} {rs : List (V α)} (h : RepsE c g p n rs) :
    Evals c (.rep0 g) p n (.list rs) := by
  obtain ⟨f0, h⟩ := repLoop_of_repsE h
  refine ⟨max f0 (rs.length + 1) + 1, fun f hle => ?_⟩
  obtain ⟨f', rfl⟩ : ∃ f', f = f' + 1 := ⟨f - 1, by omega⟩
  have h1 := h f' (by omega) f' (by omega)
  rw [matchF_rep0]
  rcases hr : repLoop (fun q => matchF c f' g q) c.N f' p with ⟨rr, lr⟩
  rw [hr] at h1
  simp only at h1
  subst h1
  rfl

/-- Transfer to a given fuel at which the matcher is known to return. -/
theorem Evals.at_fuel {c : Cx α} {g : G} {i n : Nat} {r : V α} (h : Evals c g i n r) (f : Nat)
    (hne : (matchF c f g i).1 ≠ .abort .fuel) : (matchF c f g i).1 = .ok n r := by
  obtain ⟨f0, h⟩ := h
  have h1 := h (max f0 f) (by omega)
  rw [matchF_mono_le c g i (show f ≤ max f0 f by omega) hne] at h1
  exact h1

/-! ## arithmetic expressions: syntax, lexing, value -/

/-- operand: a number or a negated operand -/
inductive Opd (α : Type) where
  | num (a : α)
  | neg (o : Opd α)

def Opd.lex : Opd α → List (ATok α)
  | .num a => [.num a]
  | .neg o => .sub :: o.lex

def Opd.eval (A : Arith α) : Opd α → α
  | .num a => a
  | .neg o => A.neg (o.eval A)

theorem Opd.lex_pos (o : Opd α) : 1 ≤ o.lex.length := by cases o <;> simp [Opd.lex]

def mulTok (q : Bool) : ATok α := if q then .quo else .mul
def addTok (s : Bool) : ATok α := if s then .sub else .add
def mulOp (A : Arith α) (q : Bool) : α → α → α := if q then A.quo else A.mul
def addOp (A : Arith α) (s : Bool) : α → α → α := if s then A.sub else A.add

/-- `(op, operand)*` spelled out. -/
def lexOps {β : Type} (tk : Bool → ATok α) (lx : β → List (ATok α)) : List (Bool × β) → List (ATok α)
  | [] => []
  | p :: rest => tk p.1 :: (lx p.2 ++ lexOps tk lx rest)

/-- term: operand (("*"|"/") operand)* -/
abbrev Term (α : Type) := Opd α × List (Bool × Opd α)
def Term.lex (t : Term α) : List (ATok α) := t.1.lex ++ lexOps mulTok Opd.lex t.2
def Term.eval (A : Arith α) (t : Term α) : α :=
  t.2.foldl (fun acc p => mulOp A p.1 acc (p.2.eval A)) (t.1.eval A)

/-- expression: term (("+"|"-") term)* -/
abbrev AExpr (α : Type) := Term α × List (Bool × Term α)
def AExpr.lex (e : AExpr α) : List (ATok α) := e.1.lex ++ lexOps addTok Term.lex e.2
def AExpr.eval (A : Arith α) (e : AExpr α) : α :=
  e.2.foldl (fun acc p => addOp A p.1 acc (p.2.eval A)) (e.1.eval A)

theorem Term.lex_pos (t : Term α) : 1 ≤ t.lex.length := by
  have := t.1.lex_pos; simp [Term.lex]; omega

theorem lexOps_length_ge {β : Type} (tk : Bool → ATok α) (lx : β → List (ATok α)) (ops : List (Bool × β)) :
    ops.length ≤ (lexOps tk lx ops).length := by
  induction ops with
  | nil => simp [lexOps]
  | cons p rest ih => simp [lexOps]; omega

/-- the next token is not a multiplicative operator -/
def NotMul (rest : List (ATok α)) : Prop := ∀ a, rest.head? = some a → a.prec ≠ 2
/-- the next token is not a binary operator -/
def NotOp (rest : List (ATok α)) : Prop := ∀ a, rest.head? = some a → a.prec = 0

theorem NotOp.notMul {rest : List (ATok α)} (h : NotOp rest) : NotMul rest :=
  fun a ha => by rw [h a ha]; omega

theorem prec_le_two (a : ATok α) : a.prec ≤ 2 := by cases a <;> simp [ATok.prec]
theorem prec_mulTok (q : Bool) : (mulTok q : ATok α).prec = 2 := by cases q <;> rfl
theorem prec_addTok (s : Bool) : (addTok s : ATok α).prec = 1 := by cases s <;> rfl
theorem apply_mulTok (A : Arith α) (q : Bool) (a b : α) : (mulTok q : ATok α).apply A a b = mulOp A q a b := by
  cases q <;> rfl
theorem apply_addTok (A : Arith α) (s : Bool) (a b : α) : (addTok s : ATok α).apply A a b = addOp A s a b := by
  cases s <;> rfl

theorem notMul_addOps (ops : List (Bool × Term α)) (rest : List (ATok α)) (h : NotOp rest) :
    NotMul (lexOps addTok Term.lex ops ++ rest) := by
  cases ops with
  | nil => exact h.notMul
  | cons p r =>
    intro a ha
    simp only [lexOps, List.cons_append, List.head?_cons, Option.some.injEq] at ha
    rw [← ha, prec_addTok]; omega

/-! ## the reference evaluator on lexed expressions -/

theorem pcUnary_opd (A : Arith α) (o : Opd α) : ∀ (rest : List (ATok α)) (f : Nat), o.lex.length ≤ f →
    pcUnary A f (o.lex ++ rest) = some (o.eval A, rest) := by
  induction o with
  | num a =>
    intro rest f hf
    obtain ⟨f', rfl⟩ : ∃ f', f = f' + 1 := ⟨f - 1, by simp [Opd.lex] at hf; omega⟩
    simp [Opd.lex, pcUnary, Opd.eval]
  | neg o ih =>
    intro rest f hf
    obtain ⟨f', rfl⟩ : ∃ f', f = f' + 1 := ⟨f - 1, by simp [Opd.lex] at hf; omega⟩
    simp only [Opd.lex, List.cons_append, pcUnary, Opd.eval]
    rw [ih rest f' (by simp [Opd.lex] at hf; omega)]

theorem pcLoop_stop (A : Arith α) (f mp : Nat) (lhs : α) (rest : List (ATok α))
    (h : ∀ a, rest.head? = some a → ¬ (a.prec ≥ mp ∧ a.prec > 0)) :
    pcLoop A (f + 1) mp lhs rest = some (lhs, rest) := by
  cases rest with
  | nil => simp [pcLoop]
  | cons a r =>
    have := h a rfl
    simp [pcLoop, this]

/-- an operand as right operand of `*` / `/` -/
theorem pcExpr_opd (A : Arith α) (o : Opd α) (rest : List (ATok α)) (f : Nat) (hf : o.lex.length + 2 ≤ f) :
    pcExpr A f 3 (o.lex ++ rest) = some (o.eval A, rest) := by
  obtain ⟨f', rfl⟩ : ∃ f', f = f' + 2 := ⟨f - 2, by omega⟩
  rw [pcExpr, pcUnary_opd A o rest (f' + 1) (by omega)]
  simp only
  apply pcLoop_stop
  intro a _ hc
  have := prec_le_two a
  omega

theorem pcLoop_mulOps (A : Arith α) (mp : Nat) (hmp : mp ≤ 2) : ∀ (ops : List (Bool × Opd α)) (lhs : α)
    (rest : List (ATok α)) (f : Nat), (lexOps mulTok Opd.lex ops).length + 2 ≤ f →
    pcLoop A (f + ops.length) mp lhs (lexOps mulTok Opd.lex ops ++ rest) =
      pcLoop A f mp (ops.foldl (fun acc p => mulOp A p.1 acc (p.2.eval A)) lhs) rest := by
  intro ops
  induction ops with
  | nil => intro lhs rest f _; rfl
  | cons p ops ih =>
    intro lhs rest f hf
    simp only [lexOps, List.length_cons, List.length_append] at hf
    have e1 : f + (p :: ops).length = (f + ops.length) + 1 := by simp; omega
    rw [e1]
    simp only [lexOps, List.cons_append, List.append_assoc, pcLoop, prec_mulTok]
    rw [if_pos ⟨by omega, by omega⟩]
    rw [pcExpr_opd A p.2 _ (f + ops.length) (by omega)]
    simp only [apply_mulTok, List.foldl_cons]
    exact ih _ rest f (by omega)

/-- a term as right operand of `+` / `-` (or at the top) -/
theorem pcExpr_term (A : Arith α) (t : Term α) (rest : List (ATok α)) (hrest : NotMul rest) (f : Nat)
    (hf : 2 * t.lex.length + 3 ≤ f) : pcExpr A f 2 (t.lex ++ rest) = some (t.eval A, rest) := by
  obtain ⟨o, ops⟩ := t
  simp only [Term.lex, List.length_append] at hf
  have hk := lexOps_length_ge (α := α) mulTok Opd.lex ops
  have ho := o.lex_pos
  obtain ⟨f2, rfl⟩ : ∃ f2, f = (f2 + 1 + ops.length) + 1 := ⟨f - 2 - ops.length, by omega⟩
  rw [pcExpr]
  simp only [Term.lex, List.append_assoc]
  rw [pcUnary_opd A o _ _ (by omega)]
  simp only
  rw [pcLoop_mulOps A 2 (by omega) ops _ rest (f2 + 1) (by omega)]
  apply pcLoop_stop
  intro a ha hc
  have := hrest a ha
  have := prec_le_two a
  omega

theorem pcLoop_addOps (A : Arith α) : ∀ (ops : List (Bool × Term α)) (lhs : α)
    (rest : List (ATok α)) (f : Nat), NotOp rest → 2 * (lexOps addTok Term.lex ops).length + 3 ≤ f →
    pcLoop A (f + ops.length) 1 lhs (lexOps addTok Term.lex ops ++ rest) =
      pcLoop A f 1 (ops.foldl (fun acc p => addOp A p.1 acc (p.2.eval A)) lhs) rest := by
  intro ops
  induction ops with
  | nil => intro lhs rest f _ _; rfl
  | cons p ops ih =>
    intro lhs rest f hrest hf
    simp only [lexOps, List.length_cons, List.length_append] at hf
    have e1 : f + (p :: ops).length = (f + ops.length) + 1 := by simp; omega
    rw [e1]
    simp only [lexOps, List.cons_append, List.append_assoc, pcLoop, prec_addTok]
    rw [if_pos ⟨by omega, by omega⟩]
    rw [pcExpr_term A p.2 _ (notMul_addOps ops rest hrest) (f + ops.length) (by omega)]
    simp only [apply_addTok, List.foldl_cons]
    exact ih _ rest f hrest (by omega)

/-- The reference evaluator computes `e.eval` on the lexed expression. -/
theorem pcExpr_expr (A : Arith α) (e : AExpr α) (rest : List (ATok α)) (hrest : NotOp rest) (f : Nat)
    (hf : 3 * e.lex.length + 3 ≤ f) : pcExpr A f 1 (e.lex ++ rest) = some (e.eval A, rest) := by
  obtain ⟨⟨o, mops⟩, aops⟩ := e
  simp only [AExpr.lex, Term.lex, List.length_append] at hf
  have hk1 := lexOps_length_ge (α := α) mulTok Opd.lex mops
  have hk2 := lexOps_length_ge (α := α) addTok Term.lex aops
  have ho := o.lex_pos
  obtain ⟨f3, rfl⟩ : ∃ f3, f = (((f3 + 1) + aops.length) + mops.length) + 1 :=
    ⟨f - 2 - aops.length - mops.length, by omega⟩
  rw [pcExpr]
  simp only [AExpr.lex, Term.lex, List.append_assoc]
  rw [pcUnary_opd A o _ _ (by omega)]
  simp only
  rw [pcLoop_mulOps A 1 (by omega) mops _ _ _ (by omega)]
  rw [pcLoop_addOps A aops _ rest (f3 + 1) hrest (by omega)]
  apply pcLoop_stop
  intro a ha hc
  have := hrest a ha
  omega

/-! ## the calculator grammar on lexed expressions -/

section Calc
variable (A : Arith α) (num : Tok → α) (toks : List Tok) (fileEnd : Nat)

/-- abstract view of the tokens from position `i` on -/
def atFrom (i : Nat) : List (ATok α) := (toks.drop i).map (abstr num)

theorem atFrom_cons {i : Nat} {a : ATok α} {rest : List (ATok α)} (h : atFrom num toks i = a :: rest) :
    ∃ t, toks[i]? = some t ∧ abstr num t = a ∧ atFrom num toks (i + 1) = rest := by
  unfold atFrom at h
  cases hd : toks.drop i with
  | nil => rw [hd] at h; simp at h
  | cons t tl =>
    rw [hd] at h
    simp only [List.map_cons, List.cons.injEq] at h
    refine ⟨t, ?_, h.1, ?_⟩
    · have := List.getElem?_drop (xs := toks) (i := i) (j := 0)
      simp [hd] at this
      exact this.symm
    · unfold atFrom
      rw [← List.drop_drop, hd]
      exact h.2

theorem atFrom_nil {i : Nat} (h : atFrom num toks i = []) : toks[i]? = none := by
  unfold atFrom at h
  simp only [List.map_eq_nil_iff, List.drop_eq_nil_iff] at h
  exact List.getElem?_eq_none h

theorem atFrom_append {i : Nat} : ∀ {xs ys : List (ATok α)}, atFrom num toks i = xs ++ ys →
    atFrom num toks (i + xs.length) = ys := by
  intro xs
  induction xs generalizing i with
  | nil => intro ys h; simpa using h
  | cons x xs ih =>
    intro ys h
    obtain ⟨t, _, _, h'⟩ := atFrom_cons num toks h
    have := ih h'
    simpa [Nat.add_assoc, Nat.add_comm 1] using this

theorem abstr_num {t : Tok} {a : α} (h : abstr num t = .num a) :
    (t.kind = kINT ∨ t.kind = kFLOAT) ∧ num t = a := by
  unfold abstr at h
  split at h
  · rename_i hk
    simp only [ATok.num.injEq] at h
    exact ⟨hk, h⟩
  · repeat' split at h
    all_goals cases h

theorem abstr_kind {t : Tok} {a : ATok α} (h : abstr num t = a) :
    (a = .add → t.kind = kADD) ∧ (a = .sub → t.kind = kSUB) ∧ (a = .mul → t.kind = kMUL) ∧
    (a = .quo → t.kind = kQUO) ∧
    (a.prec ≠ 2 → t.kind ≠ kMUL ∧ t.kind ≠ kQUO) ∧ (a.prec = 0 → t.kind ≠ kADD ∧ t.kind ≠ kSUB) ∧
    ((a = .add ∨ a = .sub ∨ a = .mul ∨ a = .quo) → t.kind ≠ kINT ∧ t.kind ≠ kFLOAT) := by
  subst h
  unfold abstr
  by_cases h1 : t.kind = kINT ∨ t.kind = kFLOAT
  · simp only [h1, if_true, ATok.prec]
    rcases h1 with h1 | h1 <;> simp [h1, kINT, kFLOAT, kADD, kSUB, kMUL, kQUO]
  · simp only [h1, if_false]
    have h1' : t.kind ≠ kINT ∧ t.kind ≠ kFLOAT := by
      constructor <;> intro hc <;> exact h1 (by simp [hc])
    by_cases h2 : t.kind = kADD
    · simp [h2, ATok.prec, kADD, kSUB, kMUL, kQUO, kINT, kFLOAT]
    · by_cases h3 : t.kind = kSUB
      · simp [h3, ATok.prec, kADD, kSUB, kMUL, kQUO, kINT, kFLOAT]
      · by_cases h4 : t.kind = kMUL
        · simp [h4, ATok.prec, kADD, kSUB, kMUL, kQUO, kINT, kFLOAT]
        · by_cases h5 : t.kind = kQUO
          · simp [h5, ATok.prec, kADD, kSUB, kMUL, kQUO, kINT, kFLOAT]
          · simp [h2, h3, h4, h5, ATok.prec, h1'.1, h1'.2]

abbrev cc := calcCx A num toks fileEnd

theorem find_expr : (cc A num toks fileEnd).env.find bExpr =
    some (G.listOf (G.listOf (.var bOperand) gMulOp) gAddOp) := rfl
theorem find_operand : (cc A num toks fileEnd).env.find bOperand =
    some (.choice [.var bBasicLit, .var bUnaryExpr] [true, true]) := rfl
theorem find_unary : (cc A num toks fileEnd).env.find bUnaryExpr =
    some (.seq [.tok kSUB [0x2d], .var bOperand]) := rfl
theorem find_basic : (cc A num toks fileEnd).env.find bBasicLit =
    some (.choice [.tok kINT [0x49, 0x4e, 0x54], .tok kFLOAT [0x46, 0x4c, 0x4f, 0x41, 0x54]] [true, true]) := rfl

/-- `basicLit` on a number token. -/
theorem evals_basicLit {i : Nat} {t : Tok} (ht : toks[i]? = some t) (hk : t.kind = kINT ∨ t.kind = kFLOAT) :
    Evals (cc A num toks fileEnd) (.var bBasicLit) i 1 (.leaf (num t)) := by
  have ht' : (cc A num toks fileEnd).toks[i]? = some t := ht
  have hbody : Evals (cc A num toks fileEnd)
      (.choice [.tok kINT [0x49, 0x4e, 0x54], .tok kFLOAT [0x46, 0x4c, 0x4f, 0x41, 0x54]] [true, true]) i 1 (.tok i) := by
    rcases hk with hk | hk
    · exact evals_choice_left (evals_tok ht' hk)
    · exact evals_choice_right (fails_tok_kind ht' (by rw [hk]; decide)) (evals_tok ht' hk)
  have := evals_var (find_basic A num toks fileEnd) hbody
  have hp : (cc A num toks fileEnd).procs bBasicLit = calcProcs A num toks bBasicLit := rfl
  simp only [hp, calcProcs] at this
  simpa [bBasicLit, bExpr, bUnaryExpr, ht] using this

/-- `basicLit` fails without consuming on anything that is not a number token. -/
theorem fails_basicLit {i : Nat} (h : ∀ t, toks[i]? = some t → t.kind ≠ kINT ∧ t.kind ≠ kFLOAT) :
    Fails (cc A num toks fileEnd) (.var bBasicLit) i 0 := by
  apply fails_var (find_basic A num toks fileEnd)
  cases ht : toks[i]? with
  | none => exact fails_choice (fails_tok_eof ht) (fails_tok_eof ht)
  | some t =>
    have := h t ht
    exact fails_choice (fails_tok_kind ht this.1) (fails_tok_kind ht this.2)

theorem procs_operand : (cc A num toks fileEnd).procs bOperand = none := rfl

/-- `operand` on a lexed operand. -/
theorem evals_operand (o : Opd α) : ∀ (i : Nat) (rest : List (ATok α)),
    atFrom num toks i = o.lex ++ rest →
    Evals (cc A num toks fileEnd) (.var bOperand) i o.lex.length (.leaf (o.eval A)) := by
  induction o with
  | num a =>
    intro i rest h
    obtain ⟨t, ht, hab, _⟩ := atFrom_cons num toks (by simpa [Opd.lex] using h)
    obtain ⟨hk, hn⟩ := abstr_num num hab
    have h1 := evals_basicLit A num toks fileEnd ht hk
    have h2 := evals_var (find_operand A num toks fileEnd) (evals_choice_left (b := .var bUnaryExpr) (st := [true, true]) h1)
    rw [procs_operand] at h2
    simpa [Opd.lex, Opd.eval, hn] using h2
  | neg o ih =>
    intro i rest h
    obtain ⟨t, ht, hab, h'⟩ := atFrom_cons num toks (by simpa [Opd.lex] using h)
    have hk := abstr_kind num hab
    have hsub : t.kind = kSUB := hk.2.1 rfl
    have hnn := hk.2.2.2.2.2.2 (Or.inr (Or.inl rfl))
    have hb := fails_basicLit A num toks fileEnd (i := i) (by intro t' ht'; rw [ht] at ht'; cases ht'; exact hnn)
    have ht' : (cc A num toks fileEnd).toks[i]? = some t := ht
    have hu := evals_seq2 (evals_tok (lbl := [0x2d]) ht' hsub) (ih (i + 1) rest h')
    have hu2 := evals_var (find_unary A num toks fileEnd) hu
    have hp : (cc A num toks fileEnd).procs bUnaryExpr = calcProcs A num toks bUnaryExpr := rfl
    simp only [hp, calcProcs] at hu2
    have hu3 : Evals (cc A num toks fileEnd) (.var bUnaryExpr) i (1 + o.lex.length) (.leaf (A.neg (o.eval A))) := by
      simpa [bUnaryExpr, bExpr] using hu2
    have h2 := evals_var (find_operand A num toks fileEnd) (evals_choice_right (st := [true, true]) hb hu3)
    rw [procs_operand] at h2
    simpa [Opd.lex, Opd.eval, Nat.add_comm] using h2

/-- result of `(("*"|"/") operand)*` starting at token `p` -/
def mulPairs : Nat → List (Bool × Opd α) → List (V α)
  | _, [] => []
  | p, q :: rest => .list [.tok p, .leaf (q.2.eval A)] :: mulPairs (p + 1 + q.2.lex.length) rest

/-- result of `operand % ("*"|"/")` starting at token `i` -/
def termRes (i : Nat) (t : Term α) : V α :=
  .list [.leaf (t.1.eval A), .list (mulPairs A (i + t.1.lex.length) t.2)]

def addPairs : Nat → List (Bool × Term α) → List (V α)
  | _, [] => []
  | p, q :: rest => .list [.tok p, termRes A (p + 1) q.2] :: addPairs (p + 1 + q.2.lex.length) rest

def exprRes (i : Nat) (e : AExpr α) : V α :=
  .list [termRes A i e.1, .list (addPairs A (i + e.1.lex.length) e.2)]

/-- a binary-operator choice fails without consuming when the next token is neither operator -/
theorem fails_opChoice {k1 k2 : Nat} {l1 l2 : Bytes} {i : Nat}
    (h : ∀ t, toks[i]? = some t → t.kind ≠ k1 ∧ t.kind ≠ k2) :
    Fails (cc A num toks fileEnd) (.choice [.tok k1 l1, .tok k2 l2] [true, true]) i 0 := by
  cases ht : toks[i]? with
  | none => exact fails_choice (fails_tok_eof ht) (fails_tok_eof ht)
  | some t =>
    have := h t ht
    exact fails_choice (fails_tok_kind ht this.1) (fails_tok_kind ht this.2)

theorem evals_opChoice {k1 k2 : Nat} {l1 l2 : Bytes} {i : Nat} {t : Tok} (ht : toks[i]? = some t)
    (hk : t.kind = k1 ∨ (t.kind ≠ k1 ∧ t.kind = k2)) :
    Evals (cc A num toks fileEnd) (.choice [.tok k1 l1, .tok k2 l2] [true, true]) i 1 (.tok i) := by
  have ht' : (cc A num toks fileEnd).toks[i]? = some t := ht
  rcases hk with hk | ⟨hk1, hk2⟩
  · exact evals_choice_left (evals_tok ht' hk)
  · exact evals_choice_right (fails_tok_kind ht' hk1) (evals_tok ht' hk2)

theorem repsE_mulOps : ∀ (ops : List (Bool × Opd α)) (p : Nat) (rest : List (ATok α)),
    atFrom num toks p = lexOps mulTok Opd.lex ops ++ rest → NotMul rest →
    RepsE (cc A num toks fileEnd) (.seq [gMulOp, .var bOperand]) p
      (lexOps mulTok Opd.lex ops).length (mulPairs A p ops) := by
  intro ops
  induction ops with
  | nil =>
    intro p rest h hrest
    simp only [lexOps, List.nil_append] at h
    refine RepsE.stop p 0 (fails_seq2_first (fails_opChoice A num toks fileEnd ?_))
    intro t ht
    cases hr : rest with
    | nil => rw [hr] at h; have := atFrom_nil num toks h; rw [ht] at this; cases this
    | cons a r =>
      rw [hr] at h
      obtain ⟨t', ht', hab, _⟩ := atFrom_cons num toks h
      rw [ht] at ht'; cases ht'
      exact (abstr_kind num hab).2.2.2.2.1 (hrest a (by rw [hr]; rfl))
  | cons q ops ih =>
    intro p rest h hrest
    simp only [lexOps, List.cons_append, List.append_assoc] at h
    obtain ⟨t, ht, hab, h'⟩ := atFrom_cons num toks h
    have hk := abstr_kind num hab
    have hop : Evals (cc A num toks fileEnd) gMulOp p 1 (.tok p) := by
      apply evals_opChoice A num toks fileEnd ht
      cases hq : q.1 with
      | false => left; exact hk.2.2.1 (by simp [mulTok, hq])
      | true =>
        right
        have := hk.2.2.2.1 (by simp [mulTok, hq])
        exact ⟨by rw [this]; decide, this⟩
    have hopd := evals_operand A num toks fileEnd q.2 (p + 1) _ h'
    have hstep := evals_seq2 hop hopd
    have h'' := atFrom_append num toks h'
    have hrec := ih (p + 1 + q.2.lex.length) rest h'' hrest
    have heq : (lexOps mulTok Opd.lex (q :: ops)).length =
        (1 + q.2.lex.length) + (lexOps mulTok Opd.lex ops).length := by
      simp [lexOps]; omega
    rw [heq]
    exact RepsE.step p (1 + q.2.lex.length) _ _ _ hstep (by omega) (by rw [← Nat.add_assoc]; exact hrec)

/-- `operand % ("*"|"/")` on a lexed term. -/
theorem evals_term (t : Term α) (i : Nat) (rest : List (ATok α))
    (h : atFrom num toks i = t.lex ++ rest) (hrest : NotMul rest) :
    Evals (cc A num toks fileEnd) (G.listOf (.var bOperand) gMulOp) i t.lex.length (termRes A i t) := by
  obtain ⟨o, ops⟩ := t
  simp only [Term.lex, List.append_assoc] at h
  have h1 := evals_operand A num toks fileEnd o i _ h
  have h2 := evals_rep0 (repsE_mulOps A num toks fileEnd ops (i + o.lex.length) rest (atFrom_append num toks h) hrest)
  have := evals_seq2 h1 h2
  simpa [G.listOf, Term.lex, termRes] using this

theorem repsE_addOps : ∀ (ops : List (Bool × Term α)) (p : Nat) (rest : List (ATok α)),
    atFrom num toks p = lexOps addTok Term.lex ops ++ rest → NotOp rest →
    RepsE (cc A num toks fileEnd) (.seq [gAddOp, G.listOf (.var bOperand) gMulOp]) p
      (lexOps addTok Term.lex ops).length (addPairs A p ops) := by
  intro ops
  induction ops with
  | nil =>
    intro p rest h hrest
    simp only [lexOps, List.nil_append] at h
    refine RepsE.stop p 0 (fails_seq2_first (fails_opChoice A num toks fileEnd ?_))
    intro t ht
    cases hr : rest with
    | nil => rw [hr] at h; have := atFrom_nil num toks h; rw [ht] at this; cases this
    | cons a r =>
      rw [hr] at h
      obtain ⟨t', ht', hab, _⟩ := atFrom_cons num toks h
      rw [ht] at ht'; cases ht'
      exact (abstr_kind num hab).2.2.2.2.2.1 (hrest a (by rw [hr]; rfl))
  | cons q ops ih =>
    intro p rest h hrest
    simp only [lexOps, List.cons_append, List.append_assoc] at h
    obtain ⟨t, ht, hab, h'⟩ := atFrom_cons num toks h
    have hk := abstr_kind num hab
    have hop : Evals (cc A num toks fileEnd) gAddOp p 1 (.tok p) := by
      apply evals_opChoice A num toks fileEnd ht
      cases hq : q.1 with
      | false => left; exact hk.1 (by simp [addTok, hq])
      | true =>
        right
        have := hk.2.1 (by simp [addTok, hq])
        exact ⟨by rw [this]; decide, this⟩
    have htm := evals_term A num toks fileEnd q.2 (p + 1) _ h' (notMul_addOps ops rest hrest)
    have hstep := evals_seq2 hop htm
    have h'' := atFrom_append num toks h'
    have hrec := ih (p + 1 + q.2.lex.length) rest h'' hrest
    have heq : (lexOps addTok Term.lex (q :: ops)).length =
        (1 + q.2.lex.length) + (lexOps addTok Term.lex ops).length := by
      simp [lexOps]; omega
    rw [heq]
    exact RepsE.step p (1 + q.2.lex.length) _ _ _ hstep (by omega) (by rw [← Nat.add_assoc]; exact hrec)

/-- the body of rule `expr` on a lexed expression -/
theorem evals_exprBody (e : AExpr α) (i : Nat) (rest : List (ATok α))
    (h : atFrom num toks i = e.lex ++ rest) (hrest : NotOp rest) :
    Evals (cc A num toks fileEnd) (G.listOf (G.listOf (.var bOperand) gMulOp) gAddOp) i e.lex.length
      (exprRes A i e) := by
  obtain ⟨t, ops⟩ := e
  simp only [AExpr.lex, List.append_assoc] at h
  have h1 := evals_term A num toks fileEnd t i _ h (notMul_addOps ops rest hrest)
  have h2 := evals_rep0 (repsE_addOps A num toks fileEnd ops (i + t.lex.length) rest (atFrom_append num toks h) hrest)
  have := evals_seq2 h1 h2
  simpa [G.listOf, AExpr.lex, exprRes] using this

end Calc

end GopModel.Tpl
