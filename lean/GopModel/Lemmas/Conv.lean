/-
Lemmas about the converter interpreter (`Model/Conv.lean`) and the header specification
(`Model/ConvSpec.lean`) used by `Props/C37.lean`.

Part 1: the interpreter satisfies the natural recursive equations
  conv P f ctx (node k fs) = node c.dst [ d := via(fs.get s) | ⟨d, s, via⟩ ∈ c.fields ]
(`conv_node_eq`), i.e. the "convert the present fields first, then pick" organisation that makes
`conv` structurally recursive is extensionally the obvious one.
-/
import GopModel.Model.Conv
import GopModel.Model.ConvSpec
namespace GopModel.Conv

/-! ## Part 1: recursive equations of `conv` -/

/-- Value of a destination field, stated directly on the source node. -/
def fieldValueSpec (P : Prog) (fs : Forest) (fc : FieldConv) : Outcome Tree :=
  match fc.via with
  | .copy => .ok (fs.get fc.src)
  | .const w => .ok (.opaque w)
  | .call f => conv P f fs (fs.get fc.src)

def assembleSpec (P : Prog) (fs : Forest) (fcs : List FieldConv) : Outcome Forest :=
  assembleWith (fieldValueSpec P fs) fcs

theorem conv_nil (P : Prog) (f : String) (ctx : Forest) : conv P f ctx .nil = convNil P f := by
  simp [conv]

theorem mem_callPairs {fcs : List FieldConv} {fc : FieldConv} {f : String}
    (h : fc ∈ fcs) (hv : fc.via = .call f) : (fc.src, f) ∈ callPairs fcs := by
  induction fcs with
  | nil => cases h
  | cons a r ih =>
    simp only [callPairs]
    rcases List.mem_cons.mp h with rfl | h'
    · rw [hv]; exact List.mem_cons_self
    · cases ha : a.via with
      | call g => exact List.mem_cons_of_mem _ (ih h')
      | copy => exact ih h'
      | const w => exact ih h'

/-- `find?` with a key predicate over results that all carry the key of their source pair. -/
theorem lookupR_map_filter (pairs : List (String × String)) (name : String) (g : String × String → Outcome Tree)
    (p : String × String) :
    lookupR ((List.filter (fun q => q.1 == name) pairs).map (fun q => (q, g q))) p =
      if p ∈ pairs ∧ p.1 = name then some (g p) else none := by
  induction pairs with
  | nil => simp [lookupR]
  | cons a r ih =>
    simp only [List.filter]
    by_cases ha : (a.1 == name) = true
    · simp only [ha, List.map_cons]
      by_cases hap : a = p
      · subst hap
        have : a.1 = name := by simpa using ha
        simp [lookupR, this]
      · have hne : ((a == p) = false) := by simpa using hap
        have : lookupR ((a, g a) :: (List.filter (fun q => q.1 == name) r).map (fun q => (q, g q))) p
            = lookupR ((List.filter (fun q => q.1 == name) r).map (fun q => (q, g q))) p := by
          simp [lookupR, List.find?, hne]
        rw [this, ih]
        have hpa : ¬ p = a := fun h => hap h.symm
        simp [hpa]
    · have ha' : (a.1 == name) = false := by simpa using ha
      simp only [ha']
      rw [ih]
      by_cases hpa : p = a
      · subst hpa
        have : ¬ p.1 = name := by simpa using ha'
        simp [this]
      · simp [hpa]

theorem lookupR_append (a b : Results) (p : String × String) :
    lookupR (a ++ b) p = match lookupR a p with
      | some o => some o
      | none => lookupR b p := by
  simp only [lookupR, List.find?_append]
  cases h : List.find? (fun r => r.1 == p) a <;> simp

/-- Lemma A: looking up a needed pair in the converted present fields gives the conversion of
the field's value (of nil if the field is absent). -/
theorem lookupR_convFields (P : Prog) (pairs : List (String × String)) (ctx : Forest)
    (p : String × String) (hp : p ∈ pairs) :
    ∀ fs : Forest, orNilArg (lookupR (convFields P pairs ctx fs) p) (convNil P p.2)
      = conv P p.2 ctx (fs.get p.1)
  | .nil => by simp [convFields, lookupR, Forest.get, conv_nil, orNilArg]
  | .cons name v rest => by
    have ih := lookupR_convFields P pairs ctx p hp rest
    simp only [convFields]
    rw [lookupR_append, lookupR_map_filter pairs name (fun q => conv P q.2 ctx v) p]
    by_cases hn : p.1 = name
    · have : (name == p.1) = true := by simp [hn]
      simp [hp, hn, Forest.get, orNilArg]
    · have : (name == p.1) = false := by
        simp; exact fun h => hn h.symm
      simp only [hn, and_false, if_false, Forest.get, this]
      exact ih

theorem fieldValue_eq (P : Prog) (fs : Forest) (all : List FieldConv) (fc : FieldConv)
    (h : fc ∈ all) :
    fieldValue P fs (convFields P (callPairs all) fs fs) fc = fieldValueSpec P fs fc := by
  unfold fieldValue fieldValueSpec
  cases hv : fc.via with
  | copy => rfl
  | const w => rfl
  | call f =>
    exact lookupR_convFields P (callPairs all) fs (fc.src, f) (mem_callPairs h hv) fs

theorem assembleWith_congr (v1 v2 : FieldConv → Outcome Tree) :
    ∀ fcs : List FieldConv, (∀ fc ∈ fcs, v1 fc = v2 fc) → assembleWith v1 fcs = assembleWith v2 fcs
  | [], _ => rfl
  | fc :: r, h => by
    have ih := assembleWith_congr v1 v2 r (fun x hx => h x (List.mem_cons_of_mem _ hx))
    simp only [assembleWith]
    rw [h fc List.mem_cons_self, ih]

/-- The natural equation for a node accepted by a `switch` function. -/
theorem conv_node_eq (P : Prog) (f : String) (ctx : Forest) (k : String) (fs : Forest)
    (onNil : NilBeh) (cases : List KindCase) (dflt : Option String) (c : KindCase)
    (hf : P.find f = some (.switch onNil cases dflt)) (hc : findCase cases k = some c) :
    conv P f ctx (.node k fs) = mkNode c.dst (assembleSpec P fs c.fields) := by
  simp only [conv, hf, hc, assemble, assembleSpec]
  rw [assembleWith_congr _ _ c.fields (fun fc h => fieldValue_eq P fs c.fields fc h)]

def findDst (fcs : List FieldConv) (d : String) : Option FieldConv :=
  List.find? (fun fc => fc.dst == d) fcs

/-- Lemma B: the assembled node holds, under each destination name, the value of the first
field conversion with that destination. -/
theorem assembleSpec_get (P : Prog) (fs : Forest) :
    ∀ (fcs : List FieldConv) (out : Forest), assembleSpec P fs fcs = .ok out →
      ∀ d : String, match findDst fcs d with
        | some fc => fieldValueSpec P fs fc = .ok (out.get d)
        | none => out.get d = .nil
  | [], out, h, d => by
    simp only [assembleSpec, assembleWith] at h
    cases h
    simp [findDst, Forest.get]
  | fc :: r, out, h, d => by
    simp only [assembleSpec, assembleWith] at h
    cases hv : fieldValueSpec P fs fc with
    | ok v =>
      rw [hv] at h
      cases hr : assembleWith (fieldValueSpec P fs) r with
      | ok out' =>
        rw [hr] at h
        simp only [Outcome.ok.injEq] at h
        subst h
        have ih := assembleSpec_get P fs r out' hr d
        simp only [findDst, List.find?]
        by_cases hd : (fc.dst == d) = true
        · simp [hd, Forest.get, hv]
        · have hd' : (fc.dst == d) = false := by simpa using hd
          simp only [hd', Forest.get]
          exact ih
      | panic m => rw [hr] at h; cases h
      | illTyped => rw [hr] at h; cases h
    | panic m => rw [hv] at h; cases h
    | illTyped => rw [hv] at h; cases h

theorem assembleSpec_ok (P : Prog) (fs : Forest) :
    ∀ fcs : List FieldConv, (∀ fc ∈ fcs, ∃ v, fieldValueSpec P fs fc = .ok v) →
      ∃ out, assembleSpec P fs fcs = .ok out
  | [], _ => ⟨.nil, rfl⟩
  | fc :: r, h => by
    obtain ⟨v, hv⟩ := h fc List.mem_cons_self
    obtain ⟨out, ho⟩ := assembleSpec_ok P fs r (fun x hx => h x (List.mem_cons_of_mem _ hx))
    refine ⟨.cons fc.dst v out, ?_⟩
    simp only [assembleSpec] at ho
    simp [assembleSpec, assembleWith, hv, ho]

theorem findDst_mem {fcs : List FieldConv} {d : String} {fc : FieldConv}
    (h : findDst fcs d = some fc) : fc ∈ fcs := List.mem_of_find?_eq_some h

/-! ## Part 2: the header specification, field by field -/

/-- Header normalisation of one field value according to its role. -/
def normF : FSpec → Tree → Tree
  | .flag, v => v.flagNorm
  | .atom, v => v.atomNorm
  | .sub _, v => hdr v
  | .subs _, v => hdrList v
  | .specs, v => hdrList v

theorem normF_nil (s : FSpec) : normF s .nil = .nil := by
  cases s <;> simp [normF, Tree.flagNorm, Tree.atomNorm, hdr, hdrList]

/-- Lemma H: the normalised present fields, read by name. -/
theorem hdrFs_get (spec : List (String × FSpec)) (n : String) :
    ∀ fs : Forest, (hdrFs spec fs).get n =
      match specOf spec n with
      | some s => normF s (fs.get n)
      | none => .nil
  | .nil => by
    cases h : specOf spec n <;> simp [hdrFs, Forest.get, normF_nil]
  | .cons m v r => by
    have ih := hdrFs_get spec n r
    by_cases hmn : (m == n) = true
    · have hmn' : m = n := by simpa using hmn
      subst hmn'
      cases hs : specOf spec m with
      | none =>
        simp only [hdrFs, hs]
        rw [ih, hs]
      | some s =>
        cases s <;> simp [hdrFs, hs, Forest.get, normF]
    · have hmn' : (m == n) = false := by simpa using hmn
      cases hs : specOf spec m with
      | none =>
        simp only [hdrFs, hs, Forest.get, hmn']
        exact ih
      | some s =>
        cases s <;> simp only [hdrFs, hs, Forest.get, hmn'] <;> exact ih

theorem pickFields_congr (a b : Forest) :
    ∀ spec : List (String × FSpec), (∀ e ∈ spec, a.get e.1 = b.get e.1) →
      pickFields a spec = pickFields b spec
  | [], _ => rfl
  | (f, s) :: r, h => by
    simp only [pickFields]
    rw [h (f, s) List.mem_cons_self,
      pickFields_congr a b r (fun e he => h e (List.mem_cons_of_mem _ he))]

/-- Two nodes of the same kind have the same header if their header fields agree after
normalisation. -/
theorem hdr_node_congr (k : String) (fs fs' : Forest)
    (h : ∀ e ∈ hdrFields k, specOf (hdrFields k) e.1 = some e.2 →
      normF e.2 (fs'.get e.1) = normF e.2 (fs.get e.1))
    (huniq : ∀ e ∈ hdrFields k, specOf (hdrFields k) e.1 = some e.2) :
    hdr (.node k fs') = hdr (.node k fs) := by
  simp only [hdr]
  congr 1
  apply pickFields_congr
  intro e he
  rw [hdrFs_get, hdrFs_get, huniq e he]
  exact h e he (huniq e he)

/-- What `sup` says about one field. -/
def supFieldOK (ctx : Forest) : FSpec → Tree → Bool
  | .flag, v => v.isFlag
  | .atom, v => v.isAtom
  | .sub c, v => sup c v
  | .subs c, v => supList c v
  | .specs, v =>
    match specClsOf ctx with
    | some c => supList c v
    | none => false

/-- Lemma S (present fields). -/
theorem supFields_get (spec : List (String × FSpec)) (ctx : Forest) (n : String) (s : FSpec)
    (hs : specOf spec n = some s) :
    ∀ fs : Forest, supFields spec ctx fs = true →
      supFieldOK ctx s (fs.get n) = true ∨ fs.get n = .nil
  | .nil, _ => Or.inr rfl
  | .cons m v r, h => by
    simp only [supFields, Bool.and_eq_true] at h
    by_cases hmn : (m == n) = true
    · have hmn' : m = n := by simpa using hmn
      subst hmn'
      left
      simp only [Forest.get, beq_self_eq_true, if_true]
      have h1 := h.1
      rw [hs] at h1
      cases s with
      | flag => simpa [supFieldOK] using h1
      | atom => simpa [supFieldOK] using h1
      | sub c => simpa [supFieldOK] using h1
      | subs c => simpa [supFieldOK] using h1
      | specs =>
        simp only [supFieldOK]
        cases hc : specClsOf ctx with
        | none => rw [hc] at h1; simp at h1
        | some c' => rw [hc] at h1; simpa using h1
    · have hmn' : (m == n) = false := by simpa using hmn
      simp only [Forest.get, hmn']
      exact supFields_get spec ctx n s hs r h.2

theorem requiredOK_mem (fs : Forest) :
    ∀ (spec : List (String × FSpec)) (e : String × FSpec), e ∈ spec → requiredOK fs spec = true →
      match e.2 with
      | .sub c => fs.get e.1 = .nil → c.nilable = true
      | .specs => (specClsOf fs).isSome = true
      | _ => True
  | [], e, he, _ => by cases he
  | (f, s) :: r, e, he, h => by
    rcases List.mem_cons.mp he with rfl | he'
    · cases s with
      | sub c =>
        simp only [requiredOK, Bool.and_eq_true] at h
        intro hnil
        have h1 := h.1
        rw [hnil] at h1
        exact h1
      | specs =>
        simp only [requiredOK, Bool.and_eq_true] at h
        exact h.1
      | flag => trivial
      | atom => trivial
      | subs c => trivial
    · have hr : requiredOK fs r = true := by
        cases s <;> simp only [requiredOK, Bool.and_eq_true] at h <;> first | exact h.2 | exact h
      exact requiredOK_mem fs r e he' hr

/-- Lemma S: every header field of a supported node is a supported value of its role. -/
theorem sup_node_field (c : Cls) (k : String) (fs : Forest) (h : sup c (.node k fs) = true)
    (e : String × FSpec) (he : e ∈ hdrFields k) (hs : specOf (hdrFields k) e.1 = some e.2) :
    supFieldOK fs e.2 (fs.get e.1) = true := by
  simp only [sup, Bool.and_eq_true] at h
  obtain ⟨_, hf, hr⟩ := h
  have hreq := requiredOK_mem fs (hdrFields k) e he hr
  rcases supFields_get (hdrFields k) fs e.1 e.2 hs fs hf with h1 | h1
  · exact h1
  · rw [h1]
    cases hs2 : e.2 with
    | flag => simp [supFieldOK, Tree.isFlag]
    | atom => simp [supFieldOK, Tree.isAtom]
    | sub c' =>
      rw [hs2] at hreq
      simp only [supFieldOK, sup]
      exact hreq h1
    | subs c' => simp [supFieldOK, supList]
    | specs =>
      rw [hs2] at hreq
      simp only [supFieldOK]
      cases hc : specClsOf fs with
      | none => rw [hc] at hreq; simp at hreq
      | some c' => simp [supList]

theorem sup_node_kind (c : Cls) (k : String) (fs : Forest) (h : sup c (.node k fs) = true) :
    k ∈ c.kinds := by
  simp only [sup, Bool.and_eq_true] at h
  exact List.contains_iff_mem.mp h.1

end GopModel.Conv
