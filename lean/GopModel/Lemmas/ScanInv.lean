/-
Lemmas for M1 (scanner model), part 1: the reading invariant `Inv`, `next`, the advance
relation `Adv`, byte slices.
-/
import GopModel.Model.Scan
namespace GopModel.Scan

/-- What is always true of `(ch, offset, rdOffset)` after `Init`: `ch` is the character decoded
at `offset`, `rdOffset` is just behind it; at EOF `offset = len(src)`. -/
structure Inv (src : Array UInt8) (st : St) : Prop where
  off_le : st.off ≤ st.rdOff
  rd_le : st.rdOff ≤ src.size
  eof : st.ch = eofCh → st.off = src.size
  adv : st.ch ≠ eofCh → st.off < st.rdOff
  ascii : st.ch < 0x80 → byteAt src st.off = st.ch ∧ st.rdOff = st.off + 1
  nonascii : 0x80 ≤ st.ch → st.ch ≠ eofCh → 0x80 ≤ byteAt src st.off
  decoded : st.ch = runeAt src st.off
  width : st.ch ≠ eofCh →
    st.rdOff = st.off + (if byteAt src st.off < 0x80 then 1 else (decodeRune src st.off).2)

theorem byteAt_lt (src : Array UInt8) (i : Nat) : byteAt src i < 256 := by
  unfold byteAt
  split
  · exact UInt8.toNat_lt _
  · omega

theorem decodeRune_width (src : Array UInt8) (i : Nat) (h : i < src.size) :
    1 ≤ (decodeRune src i).2 ∧ i + (decodeRune src i).2 ≤ src.size := by
  unfold decodeRune
  simp only
  repeat' split
  all_goals (simp only []; omega)

theorem decodeRune_lt (src : Array UInt8) (i : Nat) : (decodeRune src i).1 < eofCh := by
  have hb := fun j => byteAt_lt src j
  unfold decodeRune
  simp only
  repeat' split
  all_goals (simp only [runeError, eofCh]; try omega)
  all_goals (have := hb i; have := hb (i+1); have := hb (i+2); have := hb (i+3); omega)

theorem decodeRune_nonascii (src : Array UInt8) (i : Nat) (h : 0x80 ≤ byteAt src i) :
    0x80 ≤ (decodeRune src i).1 := by
  unfold decodeRune
  simp only
  repeat' split
  all_goals (simp only [runeError]; omega)


/-! ### `next` -/

theorem next_off (src : Array UInt8) (st : St) :
    (next src st).off = if st.rdOff < src.size then st.rdOff else src.size := by
  unfold next; simp only []; repeat' split
  all_goals rfl

theorem next_rdOff (src : Array UInt8) (st : St) :
    (next src st).rdOff =
      if st.rdOff < src.size then
        (if byteAt src st.rdOff < 0x80 then st.rdOff + 1 else st.rdOff + (decodeRune src st.rdOff).2)
      else st.rdOff := by
  unfold next; simp only []; repeat' split
  all_goals ((try simp only []) <;> first | rfl | omega)

theorem next_ch (src : Array UInt8) (st : St) :
    (next src st).ch =
      if st.rdOff < src.size then
        (if byteAt src st.rdOff < 0x80 then byteAt src st.rdOff else (decodeRune src st.rdOff).1)
      else eofCh := by
  unfold next; simp only []; repeat' split
  all_goals ((try simp only []) <;> first | rfl | omega)

@[simp] theorem next_insertSemi (src : Array UInt8) (st : St) : (next src st).insertSemi = st.insertSemi := by
  unfold next; simp only []; repeat' split
  all_goals rfl
@[simp] theorem next_nParen (src : Array UInt8) (st : St) : (next src st).nParen = st.nParen := by
  unfold next; simp only []; repeat' split
  all_goals rfl
@[simp] theorem next_unitVal (src : Array UInt8) (st : St) : (next src st).unitVal = st.unitVal := by
  unfold next; simp only []; repeat' split
  all_goals rfl
@[simp] theorem next_nlPos (src : Array UInt8) (st : St) : (next src st).nlPos = st.nlPos := by
  unfold next; simp only []; repeat' split
  all_goals rfl
@[simp] theorem next_fail (src : Array UInt8) (st : St) : (next src st).fail = st.fail := by
  unfold next; simp only []; repeat' split
  all_goals rfl

theorem next_inv' {src : Array UInt8} {st : St} (hrd : st.rdOff ≤ src.size) : Inv src (next src st) := by
  refine ⟨?_, ?_, ?_, ?_, ?_, ?_, ?_, ?_⟩
  · rw [next_off, next_rdOff]
    split
    · rename_i hlt
      have hw := decodeRune_width src st.rdOff hlt
      split <;> omega
    · omega
  · rw [next_rdOff]
    split
    · rename_i hlt
      have hw := decodeRune_width src st.rdOff hlt
      split <;> omega
    · omega
  · rw [next_ch, next_off]
    split
    · rename_i hlt
      split
      · simp only [eofCh]; intro hc; omega
      · have := decodeRune_lt src st.rdOff
        intro hc; omega
    · intro _; rfl
  · rw [next_ch, next_off, next_rdOff]
    split
    · rename_i hlt
      have hw := decodeRune_width src st.rdOff hlt
      intro _; split <;> omega
    · intro hc; exact absurd rfl hc
  · rw [next_ch, next_off, next_rdOff]
    split
    · rename_i hlt
      split
      · intro _; exact ⟨rfl, rfl⟩
      · rename_i hb
        have := decodeRune_nonascii src st.rdOff (by omega)
        intro hc; omega
    · simp [eofCh]
  · rw [next_ch, next_off]
    split
    · rename_i hlt
      split
      · intro h1 _; omega
      · intro _ _; omega
    · intro _ h; exact absurd rfl h
  · rw [next_ch, next_off]
    unfold runeAt
    split
    · rfl
    · simp only [Nat.lt_irrefl, if_false]
  · rw [next_ch, next_off, next_rdOff]
    split
    · intro _; split <;> rfl
    · intro h; exact absurd rfl h

theorem next_inv {src : Array UInt8} {st : St} (h : Inv src st) : Inv src (next src st) :=
  next_inv' h.rd_le

/-- under the invariant `next` moves `offset` to the old `rdOffset` -/
theorem next_off_eq {src : Array UInt8} {st : St} (h : Inv src st) : (next src st).off = st.rdOff := by
  rw [next_off]; have := h.rd_le; split <;> omega

theorem next_off_lt {src : Array UInt8} {st : St} (h : Inv src st) (hc : st.ch ≠ eofCh) :
    st.off < (next src st).off := by
  rw [next_off_eq h]; exact h.adv hc

theorem next_off_le {src : Array UInt8} {st : St} (h : Inv src st) : st.off ≤ (next src st).off := by
  rw [next_off_eq h]; exact h.off_le

/-- consuming an ASCII character moves the offset by exactly one -/
theorem next_off_ascii {src : Array UInt8} {st : St} (h : Inv src st) (hc : st.ch < 0x80) :
    (next src st).off = st.off + 1 := by
  rw [next_off_eq h]; exact (h.ascii hc).2


/-! ### `error`, `setFail`, `Inv` under field updates -/

@[simp] theorem error_ch (st : St) (o : Nat) (m : Msg) : (st.error o m).ch = st.ch := rfl
@[simp] theorem error_off (st : St) (o : Nat) (m : Msg) : (st.error o m).off = st.off := rfl
@[simp] theorem error_rdOff (st : St) (o : Nat) (m : Msg) : (st.error o m).rdOff = st.rdOff := rfl
@[simp] theorem error_insertSemi (st : St) (o : Nat) (m : Msg) : (st.error o m).insertSemi = st.insertSemi := rfl
@[simp] theorem error_nParen (st : St) (o : Nat) (m : Msg) : (st.error o m).nParen = st.nParen := rfl
@[simp] theorem error_unitVal (st : St) (o : Nat) (m : Msg) : (st.error o m).unitVal = st.unitVal := rfl
@[simp] theorem error_nlPos (st : St) (o : Nat) (m : Msg) : (st.error o m).nlPos = st.nlPos := rfl
@[simp] theorem error_fail (st : St) (o : Nat) (m : Msg) : (st.error o m).fail = st.fail := rfl
@[simp] theorem error_lineOff (st : St) (o : Nat) (m : Msg) : (st.error o m).lineOff = st.lineOff := rfl

theorem Inv.error {src : Array UInt8} {st : St} (h : Inv src st) (o : Nat) (m : Msg) : Inv src (st.error o m) :=
  ⟨h.off_le, h.rd_le, h.eof, h.adv, h.ascii, h.nonascii, h.decoded, h.width⟩

/-- `Inv` only talks about `ch, off, rdOff` -/
theorem Inv.congr {src : Array UInt8} {st st' : St} (h : Inv src st)
    (h1 : st'.ch = st.ch) (h2 : st'.off = st.off) (h3 : st'.rdOff = st.rdOff) : Inv src st' :=
  ⟨by rw [h2, h3]; exact h.off_le, by rw [h3]; exact h.rd_le, by rw [h1, h2]; exact h.eof,
   by rw [h1, h2, h3]; exact h.adv, by rw [h1, h2, h3]; exact h.ascii, by rw [h1, h2]; exact h.nonascii,
   by rw [h1, h2]; exact h.decoded, by rw [h1, h2, h3]; exact h.width⟩

/-! ### the advance relation -/

/-- `st'` is reached from `st` by reading forward (and reporting errors): the invariant holds,
the offset did not go back, no failure was raised, and the scanning flags are untouched. -/
structure Adv (src : Array UInt8) (st st' : St) : Prop where
  inv : Inv src st'
  off_le : st.off ≤ st'.off
  fail_eq : st'.fail = st.fail
  semi : st'.insertSemi = st.insertSemi
  paren : st'.nParen = st.nParen
  unit : st'.unitVal = st.unitVal
  nl : st'.nlPos = st.nlPos

theorem Adv.refl {src : Array UInt8} {st : St} (h : Inv src st) : Adv src st st :=
  ⟨h, Nat.le_refl _, rfl, rfl, rfl, rfl, rfl⟩

theorem Adv.trans {src : Array UInt8} {a b c : St} (h1 : Adv src a b) (h2 : Adv src b c) : Adv src a c :=
  ⟨h2.inv, Nat.le_trans h1.off_le h2.off_le, h2.fail_eq.trans h1.fail_eq, h2.semi.trans h1.semi,
   h2.paren.trans h1.paren, h2.unit.trans h1.unit, h2.nl.trans h1.nl⟩

theorem Adv.ofNext {src : Array UInt8} {st : St} (h : Inv src st) : Adv src st (GopModel.Scan.next src st) :=
  ⟨next_inv h, next_off_le h, by simp, by simp, by simp, by simp, by simp⟩

theorem Adv.withError {src : Array UInt8} {a b : St} (h : Adv src a b) (o : Nat) (m : Msg) : Adv src a (b.error o m) :=
  ⟨h.inv.error o m, h.off_le, h.fail_eq, h.semi, h.paren, h.unit, h.nl⟩

theorem Adv.errorSelf {src : Array UInt8} {st : St} (h : Inv src st) (o : Nat) (m : Msg) : Adv src st (st.error o m) :=
  (Adv.refl h).withError o m

theorem Adv.thenNext {src : Array UInt8} {a b : St} (h : Adv src a b) : Adv src a (GopModel.Scan.next src b) :=
  h.trans (Adv.ofNext h.inv)

/-! ### slices -/

/-- `src[a:b]` for `a ≤ b ≤ len(src)` -/
def slice (src : Array UInt8) (a b : Nat) : List UInt8 := (src.toList.drop a).take (b - a)

theorem slice?_eq {src : Array UInt8} {a b : Nat} (h1 : a ≤ b) (h2 : b ≤ src.size) :
    slice? src a b = some (slice src a b) := by
  unfold slice? slice; simp [h1, h2]

theorem sliceP_eq {src : Array UInt8} (st : St) {a b : Nat} (h1 : a ≤ b) (h2 : b ≤ src.size) :
    sliceP src st a b = (st, slice src a b) := by
  unfold sliceP; rw [slice?_eq h1 h2]

theorem slice_length {src : Array UInt8} {a b : Nat} (h1 : a ≤ b) (h2 : b ≤ src.size) :
    (slice src a b).length = b - a := by
  unfold slice
  simp only [List.length_take, List.length_drop, Array.length_toList]
  omega

theorem slice_append {src : Array UInt8} {a b c : Nat} (h1 : a ≤ b) (h2 : b ≤ c) :
    slice src a b ++ slice src b c = slice src a c := by
  unfold slice
  have : (src.toList.drop b) = (src.toList.drop a).drop (b - a) := by
    rw [List.drop_drop]; congr 1; omega
  rw [this]
  have e : c - a = (b - a) + (c - b) := by omega
  rw [e, List.take_add]

theorem slice_self (src : Array UInt8) (a : Nat) : slice src a a = [] := by
  unfold slice; simp

/-- the byte at `i` as a one-element slice -/
theorem slice_one {src : Array UInt8} {i : Nat} (h : i < src.size) :
    slice src i (i + 1) = [src[i]] := by
  unfold slice
  have : i + 1 - i = 1 := by omega
  rw [this]
  rw [List.drop_eq_getElem_cons (by simpa using h)]
  simp

theorem byteAt_eq {src : Array UInt8} {i : Nat} (h : i < src.size) : byteAt src i = src[i].toNat := by
  unfold byteAt; simp [h]

/-! ### Init -/

theorem initSt_inv (src : Array UInt8) : Inv src (initSt src) := by
  unfold initSt
  simp only []
  split
  · exact next_inv (next_inv' (Nat.zero_le _))
  · exact next_inv' (Nat.zero_le _)

@[simp] theorem initSt_fail (src : Array UInt8) : (initSt src).fail = .ok := by
  unfold initSt; simp only []; split <;> simp
@[simp] theorem initSt_insertSemi (src : Array UInt8) : (initSt src).insertSemi = false := by
  unfold initSt; simp only []; split <;> simp
@[simp] theorem initSt_unitVal (src : Array UInt8) : (initSt src).unitVal = [] := by
  unfold initSt; simp only []; split <;> simp
@[simp] theorem initSt_nlPos (src : Array UInt8) : (initSt src).nlPos = none := by
  unfold initSt; simp only []; split <;> simp

end GopModel.Scan
