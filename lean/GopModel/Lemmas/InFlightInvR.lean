/- How each kind of update of the incoming-request bookkeeping preserves `ReqInv` (C39). -/
import GopModel.Lemmas.InFlightInv
set_option linter.unusedSimpArgs false
set_option linter.unnecessarySimpa false
namespace GopModel.InFlight

def setPh (reqs : List (Req × Phase)) (r : Req) (p : Phase) : List (Req × Phase) :=
  reqs.map (fun e => if e.1 = r then (e.1, p) else e)

def dropR (reqs : List (Req × Phase)) (r : Req) : List (Req × Phase) :=
  reqs.filter (fun e => e.1 != r)

theorem setPhase_eq (m : M) (r : Req) (p : Phase) : setPhase m r p = { m with reqs := setPh m.reqs r p } := rfl
theorem dropReq_eq (m : M) (r : Req) : dropReq m r = { m with reqs := dropR m.reqs r } := rfl

theorem refs_nodup_fst {l : List (Req × Phase)} (h : (l.map (·.1.ref)).Nodup) : (l.map (·.1)).Nodup := by
  induction l with
  | nil => simp
  | cons e t ih =>
    simp only [List.map_cons, List.nodup_cons] at h ⊢
    refine ⟨?_, ih h.2⟩
    intro hc
    obtain ⟨x, hx, hxe⟩ := List.mem_map.mp hc
    exact h.1 (List.mem_map.mpr ⟨x, hx, by rw [hxe]⟩)

theorem phase_unique {l : List (Req × Phase)} (h : (l.map (·.1.ref)).Nodup) {r : Req} {p1 p2 : Phase}
    (h1 : (r, p1) ∈ l) (h2 : (r, p2) ∈ l) : p1 = p2 := by
  induction l with
  | nil => cases h1
  | cons e t ih =>
    simp only [List.map_cons, List.nodup_cons] at h
    simp only [List.mem_cons] at h1 h2
    rcases h1 with rfl | h1 <;> rcases h2 with h2 | h2
    · exact (Prod.mk.inj h2).2.symm
    · exact absurd (List.mem_map.mpr ⟨(r, p2), h2, rfl⟩) h.1
    · subst h2; exact absurd (List.mem_map.mpr ⟨(r, p1), h1, rfl⟩) h.1
    · exact ih h.2 h1 h2

theorem lookup_eq_some {l : List (Req × Phase)} (h : (l.map (·.1.ref)).Nodup) {r : Req} {p : Phase} :
    List.lookup r l = some p ↔ (r, p) ∈ l := by
  induction l with
  | nil => simp [List.lookup]
  | cons e t ih =>
    obtain ⟨r1, p1⟩ := e
    simp only [List.map_cons, List.nodup_cons] at h
    simp only [List.lookup, List.mem_cons, Prod.mk.injEq]
    by_cases hr : r = r1
    · subst hr
      simp only [beq_self_eq_true, Option.some.injEq, true_and]
      constructor
      · intro h'; exact Or.inl h'.symm
      · rintro (h' | h')
        · exact h'.symm
        · exact absurd (List.mem_map.mpr ⟨(r, p), h', rfl⟩) h.1
    · have hb : (r == r1) = false := by simpa using hr
      simp [hb, hr, ih h.2]

theorem phaseOf_eq {m : M} (h : Inv m) {r : Req} {p : Phase} : phaseOf m r = some p ↔ (r, p) ∈ m.reqs :=
  lookup_eq_some h.reqsI.qNodup

theorem mem_setPh {l : List (Req × Phase)} {r q : Req} {p p' : Phase} :
    (q, p') ∈ setPh l r p ↔ (q ≠ r ∧ (q, p') ∈ l) ∨ (q = r ∧ p' = p ∧ ∃ p0, (r, p0) ∈ l) := by
  simp only [setPh, List.mem_map]
  constructor
  · rintro ⟨⟨q0, p0⟩, hm, he⟩
    by_cases hq : q0 = r
    · subst hq
      simp only [if_true, Prod.mk.injEq] at he
      exact Or.inr ⟨he.1.symm, he.2.symm, p0, hm⟩
    · simp only [hq, if_false, Prod.mk.injEq] at he
      obtain ⟨rfl, rfl⟩ := he
      exact Or.inl ⟨hq, hm⟩
  · rintro (⟨hq, hm⟩ | ⟨rfl, rfl, p0, hm⟩)
    · exact ⟨(q, p'), hm, by simp [hq]⟩
    · exact ⟨(q, p0), hm, by simp⟩

theorem setPh_refs (l : List (Req × Phase)) (r : Req) (p : Phase) :
    (setPh l r p).map (·.1.ref) = l.map (·.1.ref) := by
  simp only [setPh, List.map_map]
  apply List.map_congr_left
  intro e _
  simp only [Function.comp]
  split <;> rfl

theorem setPh_length (l : List (Req × Phase)) (r : Req) (p : Phase) : (setPh l r p).length = l.length := by
  simp [setPh]

theorem mem_dropR {l : List (Req × Phase)} {r q : Req} {p : Phase} :
    (q, p) ∈ dropR l r ↔ (q, p) ∈ l ∧ q ≠ r := by
  simp [dropR]

theorem dropR_length {l : List (Req × Phase)} (h : (l.map (·.1.ref)).Nodup) {r : Req} {p : Phase}
    (hm : (r, p) ∈ l) : ((dropR l r).length : Int) = l.length - 1 := by
  induction l with
  | nil => cases hm
  | cons e t ih =>
    simp only [List.map_cons, List.nodup_cons] at h
    simp only [List.mem_cons] at hm
    by_cases he : e.1 = r
    · have hnot : ∀ x ∈ t, x.1 ≠ r := by
        intro x hx hxr
        exact h.1 (List.mem_map.mpr ⟨x, hx, by rw [hxr, he]⟩)
      have : dropR t r = t := by
        simp only [dropR]
        apply List.filter_eq_self.mpr
        intro x hx; simpa using hnot x hx
      simp only [dropR, List.filter_cons, he, bne_self_eq_false, Bool.false_eq_true, if_false, List.length_cons]
      simp only [dropR] at this
      rw [this]; omega
    · have hm' : (r, p) ∈ t := by
        rcases hm with rfl | hm
        · exact absurd rfl he
        · exact hm
      have hb : (e.1 != r) = true := by simpa using he
      have := ih h.2 hm'
      simp only [dropR, List.filter_cons, hb, if_true, List.length_cons] at this ⊢
      have hpos : 0 < t.length := List.length_pos_of_mem hm'
      omega

namespace ReqInv
variable {inc : Int} {B : Map Req} {Q : List Req} {hr : Bool} {reqs : List (Req × Phase)} {next : Nat} {ans : List Req}

/-- A request that is not recorded in `incomingByID` is accepted (a notification, or a call
whose duplicate ID was cleared). -/
theorem acceptPlain (h : ReqInv inc B Q hr reqs next ans) {r : Req} {p : Phase}
    (hr1 : r.ref = next) (hnc : r.isCall = false) (hpq : p ≠ Phase.queued) (hpa : p ≠ Phase.async) :
    ReqInv (inc + 1) B Q hr ((r, p) :: reqs) (next + 1) ans := by
  have hfresh : ∀ p', (r, p') ∉ reqs := fun p' hm => by
    have := h.qFresh _ hm; simp only [hr1] at this; exact Nat.lt_irrefl _ this
  constructor
  case inc => simp [h.inc]
  case qNodup =>
    simp only [List.map_cons, List.nodup_cons]
    refine ⟨?_, h.qNodup⟩
    intro hc
    obtain ⟨e, he, heq⟩ := List.mem_map.mp hc
    have := h.qFresh e he
    rw [heq, hr1] at this; exact Nat.lt_irrefl _ this
  case qFresh =>
    intro e he
    simp only [List.mem_cons] at he
    rcases he with rfl | he
    · simp [hr1]
    · exact Nat.lt_succ_of_lt (h.qFresh e he)
  case bKeys => exact h.bKeys
  case bEnt =>
    intro k q
    rw [h.bEnt k q]
    constructor
    · rintro ⟨a, b, p', hm, hp⟩; exact ⟨a, b, p', List.mem_cons_of_mem _ hm, hp⟩
    · rintro ⟨a, b, p', hm, hp⟩
      simp only [List.mem_cons, Prod.mk.injEq] at hm
      rcases hm with ⟨rfl, rfl⟩ | hm
      · rw [hnc] at b; cases b
      · exact ⟨a, b, p', hm, hp⟩
  case queueN => exact h.queueN
  case queueM =>
    intro q
    rw [h.queueM q]
    simp only [List.mem_cons, Prod.mk.injEq]
    constructor
    · intro hm; exact Or.inr hm
    · rintro (⟨_, hp⟩ | hm)
      · exact absurd hp.symm hpq
      · exact hm
  case queueH => exact h.queueH
  case ansN => exact h.ansN
  case ansW =>
    intro r' hr'
    obtain ⟨a, b⟩ := h.ansW r' hr'
    refine ⟨Nat.lt_succ_of_lt a, ?_⟩
    intro p' hm
    simp only [List.mem_cons, Prod.mk.injEq] at hm
    rcases hm with ⟨rfl, _⟩ | hm
    · rw [hr1] at a; exact absurd a (Nat.lt_irrefl _)
    · exact b p' hm
  case asyncC =>
    intro q hq
    simp only [List.mem_cons, Prod.mk.injEq] at hq
    rcases hq with ⟨_, hp⟩ | hq
    · exact absurd hp.symm hpa
    · exact h.asyncC q hq

/-- A call with an unused ID is accepted and recorded in `incomingByID`. -/
theorem acceptCall (h : ReqInv inc B Q hr reqs next ans) {r : Req} {p : Phase}
    (hr1 : r.ref = next) (hcall : r.isCall = true) (hnew : Map.get B r.id = none)
    (hpq : p ≠ Phase.queued) (hpa : p ≠ Phase.async) (hp16 : p.pre16 = true) :
    ReqInv (inc + 1) (Map.put B r.id r) Q hr ((r, p) :: reqs) (next + 1) ans := by
  have hk : r.id ∉ Map.keys B := Map.get_eq_none.mp hnew
  constructor
  case inc => simp [h.inc]
  case qNodup =>
    simp only [List.map_cons, List.nodup_cons]
    refine ⟨?_, h.qNodup⟩
    intro hc
    obtain ⟨e, he, heq⟩ := List.mem_map.mp hc
    have := h.qFresh e he
    rw [heq, hr1] at this; exact Nat.lt_irrefl _ this
  case qFresh =>
    intro e he
    simp only [List.mem_cons] at he
    rcases he with rfl | he
    · simp [hr1]
    · exact Nat.lt_succ_of_lt (h.qFresh e he)
  case bKeys => exact Map.nodup_keys_put _ _ h.bKeys
  case bEnt =>
    intro k q
    rw [Map.mem_put]
    constructor
    · rintro (⟨rfl, rfl⟩ | ⟨hm, hne⟩)
      · exact ⟨rfl, hcall, p, by simp, hp16⟩
      · obtain ⟨a, b, p', hm', hp⟩ := (h.bEnt k q).mp hm
        exact ⟨a, b, p', List.mem_cons_of_mem _ hm', hp⟩
    · rintro ⟨a, b, p', hm, hp⟩
      simp only [List.mem_cons, Prod.mk.injEq] at hm
      rcases hm with ⟨rfl, rfl⟩ | hm
      · exact Or.inl ⟨a.symm, rfl⟩
      · have hin := (h.bEnt k q).mpr ⟨a, b, p', hm, hp⟩
        refine Or.inr ⟨hin, ?_⟩
        intro hkk; subst hkk
        exact hk (Map.mem_keys.mpr ⟨q, hin⟩)
  case queueN => exact h.queueN
  case queueM =>
    intro q
    rw [h.queueM q]
    simp only [List.mem_cons, Prod.mk.injEq]
    constructor
    · intro hm; exact Or.inr hm
    · rintro (⟨_, hp⟩ | hm)
      · exact absurd hp.symm hpq
      · exact hm
  case queueH => exact h.queueH
  case ansN => exact h.ansN
  case ansW =>
    intro r' hr'
    obtain ⟨a, b⟩ := h.ansW r' hr'
    refine ⟨Nat.lt_succ_of_lt a, ?_⟩
    intro p' hm
    simp only [List.mem_cons, Prod.mk.injEq] at hm
    rcases hm with ⟨rfl, _⟩ | hm
    · rw [hr1] at a; exact absurd a (Nat.lt_irrefl _)
    · exact b p' hm
  case asyncC =>
    intro q hq
    simp only [List.mem_cons, Prod.mk.injEq] at hq
    rcases hq with ⟨_, hp⟩ | hq
    · exact absurd hp.symm hpa
    · exact h.asyncC q hq

/-- A phase change that touches neither the queue, nor `incomingByID`, nor the answered log. -/
theorem setPlain (h : ReqInv inc B Q hr reqs next ans) {r : Req} {p0 p : Phase}
    (hm : (r, p0) ∈ reqs) (h0q : p0 ≠ Phase.queued) (hpq : p ≠ Phase.queued)
    (h0w : p0 ≠ Phase.writing) (h16 : r.isCall = true → p.pre16 = p0.pre16)
    (has : p = Phase.async → r.isCall = true) :
    ReqInv inc B Q hr (setPh reqs r p) next ans := by
  constructor
  case inc => rw [setPh_length]; exact h.inc
  case qNodup => rw [setPh_refs]; exact h.qNodup
  case qFresh =>
    intro e he
    obtain ⟨q, p'⟩ := e
    rcases mem_setPh.mp he with ⟨_, hm'⟩ | ⟨rfl, _, p1, hm'⟩
    · exact h.qFresh _ hm'
    · exact h.qFresh (_, p1) hm'
  case bKeys => exact h.bKeys
  case bEnt =>
    intro k q
    rw [h.bEnt k q]
    constructor
    · rintro ⟨a, b, p', hm', hp⟩
      by_cases hq : q = r
      · subst hq
        have := phase_unique h.qNodup hm hm'
        subst this
        exact ⟨a, b, p, mem_setPh.mpr (Or.inr ⟨rfl, rfl, p0, hm⟩), by rw [h16 b]; exact hp⟩
      · exact ⟨a, b, p', mem_setPh.mpr (Or.inl ⟨hq, hm'⟩), hp⟩
    · rintro ⟨a, b, p', hm', hp⟩
      rcases mem_setPh.mp hm' with ⟨_, hm''⟩ | ⟨rfl, rfl, _, _⟩
      · exact ⟨a, b, p', hm'', hp⟩
      · exact ⟨a, b, p0, hm, by rw [← h16 b]; exact hp⟩
  case queueN => exact h.queueN
  case queueM =>
    intro q
    rw [h.queueM q]
    constructor
    · intro hm'
      by_cases hq : q = r
      · subst hq; exact absurd (phase_unique h.qNodup hm hm') h0q
      · exact mem_setPh.mpr (Or.inl ⟨hq, hm'⟩)
    · intro hm'
      rcases mem_setPh.mp hm' with ⟨_, hm''⟩ | ⟨_, hp, _⟩
      · exact hm''
      · exact absurd hp.symm hpq
  case queueH => exact h.queueH
  case ansN => exact h.ansN
  case ansW =>
    intro r' hr'
    obtain ⟨a, b⟩ := h.ansW r' hr'
    refine ⟨a, ?_⟩
    intro p' hm'
    rcases mem_setPh.mp hm' with ⟨_, hm''⟩ | ⟨rfl, _, _, _⟩
    · exact b p' hm''
    · exact absurd (b p0 hm) h0w
  case asyncC =>
    intro q hq
    rcases mem_setPh.mp hq with ⟨_, hq'⟩ | ⟨rfl, hp, _⟩
    · exact h.asyncC q hq'
    · exact has hp.symm

/-- acceptRequest#1 succeeded: the request is appended to the handler queue. -/
theorem enqueue (h : ReqInv inc B Q hr reqs next ans) {r : Req}
    (hm : (r, Phase.accepted) ∈ reqs) :
    ReqInv inc B (Q ++ [r]) true (setPh reqs r Phase.queued) next ans := by
  have hnq : r ∉ Q := fun hq => by
    have := phase_unique h.qNodup hm ((h.queueM r).mp hq); cases this
  constructor
  case inc => rw [setPh_length]; exact h.inc
  case qNodup => rw [setPh_refs]; exact h.qNodup
  case qFresh =>
    intro e he
    obtain ⟨q, p'⟩ := e
    rcases mem_setPh.mp he with ⟨_, hm'⟩ | ⟨rfl, _, p1, hm'⟩
    · exact h.qFresh _ hm'
    · exact h.qFresh (_, p1) hm'
  case bKeys => exact h.bKeys
  case bEnt =>
    intro k q
    rw [h.bEnt k q]
    constructor
    · rintro ⟨a, b, p', hm', hp⟩
      by_cases hq : q = r
      · subst hq
        exact ⟨a, b, Phase.queued, mem_setPh.mpr (Or.inr ⟨rfl, rfl, _, hm⟩), rfl⟩
      · exact ⟨a, b, p', mem_setPh.mpr (Or.inl ⟨hq, hm'⟩), hp⟩
    · rintro ⟨a, b, p', hm', hp⟩
      rcases mem_setPh.mp hm' with ⟨_, hm''⟩ | ⟨rfl, rfl, _, _⟩
      · exact ⟨a, b, p', hm'', hp⟩
      · exact ⟨a, b, Phase.accepted, hm, rfl⟩
  case queueN =>
    rw [List.nodup_append]
    refine ⟨h.queueN, by simp, ?_⟩
    intro a ha b hb
    simp only [List.mem_singleton] at hb
    subst hb; intro hab; subst hab; exact hnq ha
  case queueM =>
    intro q
    simp only [List.mem_append, List.mem_singleton]
    constructor
    · rintro (hq | rfl)
      · have hm' := (h.queueM q).mp hq
        have hne : q ≠ r := fun he => hnq (he ▸ hq)
        exact mem_setPh.mpr (Or.inl ⟨hne, hm'⟩)
      · exact mem_setPh.mpr (Or.inr ⟨rfl, rfl, _, hm⟩)
    · intro hm'
      rcases mem_setPh.mp hm' with ⟨_, hm''⟩ | ⟨hq, _, _⟩
      · exact Or.inl ((h.queueM q).mpr hm'')
      · exact Or.inr hq
  case queueH => intro _; rfl
  case ansN => exact h.ansN
  case ansW =>
    intro r' hr'
    obtain ⟨a, b⟩ := h.ansW r' hr'
    refine ⟨a, ?_⟩
    intro p' hm'
    rcases mem_setPh.mp hm' with ⟨_, hm''⟩ | ⟨rfl, _, _, _⟩
    · exact b p' hm''
    · have := b _ hm; cases this
  case asyncC =>
    intro q hq
    rcases mem_setPh.mp hq with ⟨_, hq'⟩ | ⟨_, hp, _⟩
    · exact h.asyncC q hq'
    · cases hp

/-- handleAsync#0 with a non-empty queue: its head is handed to the handler. -/
theorem dequeue (h : ReqInv inc B (r :: Q) hr reqs next ans) :
    ReqInv inc B Q hr (setPh reqs r Phase.handling) next ans := by
  have hm : (r, Phase.queued) ∈ reqs := (h.queueM r).mp (by simp)
  have hN := h.queueN
  simp only [List.nodup_cons] at hN
  constructor
  case inc => rw [setPh_length]; exact h.inc
  case qNodup => rw [setPh_refs]; exact h.qNodup
  case qFresh =>
    intro e he
    obtain ⟨q, p'⟩ := e
    rcases mem_setPh.mp he with ⟨_, hm'⟩ | ⟨rfl, _, p1, hm'⟩
    · exact h.qFresh _ hm'
    · exact h.qFresh (_, p1) hm'
  case bKeys => exact h.bKeys
  case bEnt =>
    intro k q
    rw [h.bEnt k q]
    constructor
    · rintro ⟨a, b, p', hm', hp⟩
      by_cases hq : q = r
      · subst hq
        exact ⟨a, b, Phase.handling, mem_setPh.mpr (Or.inr ⟨rfl, rfl, _, hm⟩), rfl⟩
      · exact ⟨a, b, p', mem_setPh.mpr (Or.inl ⟨hq, hm'⟩), hp⟩
    · rintro ⟨a, b, p', hm', hp⟩
      rcases mem_setPh.mp hm' with ⟨_, hm''⟩ | ⟨rfl, rfl, _, _⟩
      · exact ⟨a, b, p', hm'', hp⟩
      · exact ⟨a, b, Phase.queued, hm, rfl⟩
  case queueN => exact hN.2
  case queueM =>
    intro q
    constructor
    · intro hq
      have hne : q ≠ r := fun he => hN.1 (he ▸ hq)
      exact mem_setPh.mpr (Or.inl ⟨hne, (h.queueM q).mp (List.mem_cons_of_mem _ hq)⟩)
    · intro hm'
      rcases mem_setPh.mp hm' with ⟨hne, hm''⟩ | ⟨_, hp, _⟩
      · have := (h.queueM q).mpr hm''
        simp only [List.mem_cons] at this
        rcases this with rfl | this
        · exact absurd rfl hne
        · exact this
      · cases hp
  case queueH => intro _; exact h.queueH (by simp)
  case ansN => exact h.ansN
  case ansW =>
    intro r' hr'
    obtain ⟨a, b⟩ := h.ansW r' hr'
    refine ⟨a, ?_⟩
    intro p' hm'
    rcases mem_setPh.mp hm' with ⟨_, hm''⟩ | ⟨rfl, _, _, _⟩
    · exact b p' hm''
    · have := b _ hm; cases this
  case asyncC =>
    intro q hq
    rcases mem_setPh.mp hq with ⟨_, hq'⟩ | ⟨_, hp, _⟩
    · exact h.asyncC q hq'
    · cases hp

/-- handleAsync#0 with an empty queue: the handler goroutine exits. -/
theorem handlerExit (h : ReqInv inc B [] hr reqs next ans) : ReqInv inc B [] false reqs next ans where
  inc := h.inc
  qNodup := h.qNodup
  qFresh := h.qFresh
  bKeys := h.bKeys
  bEnt := h.bEnt
  queueN := h.queueN
  queueM := h.queueM
  queueH := fun hne => absurd rfl hne
  ansN := h.ansN
  ansW := h.ansW
  asyncC := h.asyncC

/-- processResult#0: the call leaves `incomingByID`; its response is written next. -/
theorem prDelete (h : ReqInv inc B Q hr reqs next ans) {r : Req}
    (hm : (r, Phase.result) ∈ reqs) (hcall : r.isCall = true) :
    ReqInv inc (Map.del B r.id) Q hr (setPh reqs r Phase.writing) next (r :: ans) := by
  have hin : (r.id, r) ∈ B := (h.bEnt r.id r).mpr ⟨rfl, hcall, _, hm, rfl⟩
  constructor
  case inc => rw [setPh_length]; exact h.inc
  case qNodup => rw [setPh_refs]; exact h.qNodup
  case qFresh =>
    intro e he
    obtain ⟨q, p'⟩ := e
    rcases mem_setPh.mp he with ⟨_, hm'⟩ | ⟨rfl, _, p1, hm'⟩
    · exact h.qFresh _ hm'
    · exact h.qFresh (_, p1) hm'
  case bKeys => exact Map.nodup_keys_del _ h.bKeys
  case bEnt =>
    intro k q
    rw [Map.mem_del, h.bEnt k q]
    constructor
    · rintro ⟨⟨a, b, p', hm', hp⟩, hne⟩
      have hq : q ≠ r := fun he => hne (he ▸ a.symm)
      exact ⟨a, b, p', mem_setPh.mpr (Or.inl ⟨hq, hm'⟩), hp⟩
    · rintro ⟨a, b, p', hm', hp⟩
      rcases mem_setPh.mp hm' with ⟨hq, hm''⟩ | ⟨_, rfl, _⟩
      · refine ⟨⟨a, b, p', hm'', hp⟩, ?_⟩
        intro hk; subst hk
        have hq' : (r.id, q) ∈ B := (h.bEnt r.id q).mpr ⟨a, b, p', hm'', hp⟩
        have e1 := (Map.get_eq_some h.bKeys).mpr hq'
        have e2 := (Map.get_eq_some h.bKeys).mpr hin
        rw [e1] at e2; exact hq (Option.some.inj e2)
      · cases hp
  case queueN => exact h.queueN
  case queueM =>
    intro q
    rw [h.queueM q]
    constructor
    · intro hm'
      by_cases hq : q = r
      · subst hq; have := phase_unique h.qNodup hm hm'; cases this
      · exact mem_setPh.mpr (Or.inl ⟨hq, hm'⟩)
    · intro hm'
      rcases mem_setPh.mp hm' with ⟨_, hm''⟩ | ⟨_, hp, _⟩
      · exact hm''
      · cases hp
  case queueH => exact h.queueH
  case ansN =>
    simp only [List.nodup_cons]
    refine ⟨?_, h.ansN⟩
    intro hr'
    have := (h.ansW r hr').2 _ hm; cases this
  case ansW =>
    intro r' hr'
    simp only [List.mem_cons] at hr'
    rcases hr' with rfl | hr'
    · refine ⟨h.qFresh _ hm, ?_⟩
      intro p' hm'
      rcases mem_setPh.mp hm' with ⟨hne, _⟩ | ⟨_, hp, _⟩
      · exact absurd rfl hne
      · exact hp
    · obtain ⟨a, b⟩ := h.ansW r' hr'
      refine ⟨a, ?_⟩
      intro p' hm'
      rcases mem_setPh.mp hm' with ⟨_, hm''⟩ | ⟨_, hp, _⟩
      · exact b p' hm''
      · exact hp
  case asyncC =>
    intro q hq
    rcases mem_setPh.mp hq with ⟨_, hq'⟩ | ⟨_, hp, _⟩
    · exact h.asyncC q hq'
    · cases hp

/-- processResult#1: the request is finished. -/
theorem prFinish (h : ReqInv inc B Q hr reqs next ans) {r : Req} {p0 : Phase}
    (hm : (r, p0) ∈ reqs) (hp0 : p0 = Phase.writing ∨ (p0 = Phase.result ∧ r.isCall = false)) :
    ReqInv (inc - 1) B Q hr (dropR reqs r) next ans := by
  constructor
  case inc => rw [dropR_length h.qNodup hm, h.inc]
  case qNodup =>
    have : (dropR reqs r).map (·.1.ref) = ((reqs.filter (fun e => e.1 != r)).map (·.1.ref)) := rfl
    rw [this]
    exact (h.qNodup.sublist (List.Sublist.map _ List.filter_sublist))
  case qFresh =>
    intro e he
    exact h.qFresh e (List.mem_filter.mp he).1
  case bKeys => exact h.bKeys
  case bEnt =>
    intro k q
    rw [h.bEnt k q]
    constructor
    · rintro ⟨a, b, p', hm', hp⟩
      refine ⟨a, b, p', mem_dropR.mpr ⟨hm', ?_⟩, hp⟩
      intro hq; subst hq
      have := phase_unique h.qNodup hm hm'
      subst this
      rcases hp0 with rfl | ⟨_, hnc⟩
      · cases hp
      · rw [hnc] at b; cases b
    · rintro ⟨a, b, p', hm', hp⟩
      exact ⟨a, b, p', (mem_dropR.mp hm').1, hp⟩
  case queueN => exact h.queueN
  case queueM =>
    intro q
    rw [h.queueM q]
    constructor
    · intro hm'
      refine mem_dropR.mpr ⟨hm', ?_⟩
      intro hq; subst hq
      have := phase_unique h.qNodup hm hm'
      subst this
      rcases hp0 with h1 | ⟨h1, _⟩ <;> cases h1
    · intro hm'; exact (mem_dropR.mp hm').1
  case queueH => exact h.queueH
  case ansN => exact h.ansN
  case ansW =>
    intro r' hr'
    obtain ⟨a, b⟩ := h.ansW r' hr'
    exact ⟨a, fun p' hm' => b p' (mem_dropR.mp hm').1⟩
  case asyncC => exact fun q hq => h.asyncC q (mem_dropR.mp hq).1

end ReqInv
end GopModel.InFlight
