/-
Soundness of the canonical Pos()/End() bodies of SpanModel: for every layout, on every node that
supplies what the layout makes mandatory, `canonPos` evaluates to the start of the first element
present and `canonEnd` to the stop of the last one; and for a layout whose elements are in
source order, every element lies within [Pos, End) and elements do not overlap.  Core Lean only.
-/
import GopModel.Model.SpanModel
namespace GopModel.SpanModel
variable {K F : Type} [DecidableEq F]

theorem firstStart_cons (a : Nat × Nat) (l : List (Nat × Nat)) : firstStart (a :: l) = a.1 := rfl

theorem firstStart_append (a b : List (Nat × Nat)) :
    firstStart (a ++ b) = if a.isEmpty then firstStart b else firstStart a := by
  cases a <;> simp [firstStart]

theorem lastStop_append (a b : List (Nat × Nat)) :
    lastStop (a ++ b) = if b.isEmpty then lastStop a else lastStop b := by
  cases b with
  | nil => simp
  | cons x xs =>
    have : (x :: xs).getLast? = some ((x :: xs).getLast (by simp)) :=
      List.getLast?_eq_some_getLast (by simp)
    simp [lastStop, List.getLast?_append, this]

theorem evalP_addLens (vals : List (F × Nat)) (kids : List (Kid K F)) (gs : List F) :
    ∀ e : PExpr F, evalP vals kids (addLens e gs) =
      (evalP vals kids e).map fun a => gs.foldl (fun a g => a + val vals g) a := by
  induction gs with
  | nil => intro e; simp [addLens]
  | cons g gs ih =>
    intro e
    simp only [addLens, ih, evalP, List.foldl_cons, Option.map_map]
    rfl

/-- WF of all items of a layout on this node. -/
def layoutWF (kids : List (Kid K F)) (items : List (Item F)) : Bool := items.all (itemWF kids)

theorem canonPos_sound (opq : String → List (F × Nat) → List (Kid K F) → Option Nat)
    (vals : List (F × Nat)) (kids : List (Kid K F)) :
    ∀ items : List (Item F), layoutWF kids items = true →
      evalBody opq vals kids (canonPos items) = some (firstStart (elems vals kids items)) := by
  intro items
  induction items with
  | nil => intro _; simp [canonPos, evalBody, evalP, elems, firstStart]
  | cons it r ih =>
    intro hwf
    simp only [layoutWF, List.all_cons, Bool.and_eq_true] at hwf
    obtain ⟨hit, hr⟩ := hwf
    have ih' := ih (by simpa [layoutWF] using hr)
    simp only [elems, List.flatMap_cons] at ih' ⊢
    cases it with
    | tok f n => simp [canonPos, evalBody, evalP, itemSpans, firstStart]
    | tokStr f gs => simp [canonPos, evalBody, evalP, itemSpans, firstStart]
    | tokUnless f n fl => simp [canonPos, evalBody, evalP, itemSpans, firstStart]
    | tokStrUnless f g fl => simp [canonPos, evalBody, evalP, itemSpans, firstStart]
    | start f => simp [canonPos, evalBody, evalP, itemSpans, firstStart]
    | stop f => simp [canonPos, evalBody, evalP, itemSpans, firstStart]
    | tokOpt f n =>
      by_cases h : val vals f = 0
      · simp [canonPos, evalBody, evalC, itemSpans, h, ih']
      · simp [canonPos, evalBody, evalC, evalP, itemSpans, h, firstStart]
    | stopOpt f =>
      by_cases h : val vals f = 0
      · simp [canonPos, evalBody, evalC, itemSpans, h, ih']
      · simp [canonPos, evalBody, evalC, evalP, itemSpans, h, firstStart]
    | tokIfUnset f n g =>
      by_cases h : val vals g = 0
      · simp [canonPos, evalBody, evalC, evalP, itemSpans, h, firstStart]
      · simp [canonPos, evalBody, evalC, itemSpans, h, ih']
    | child f =>
      simp only [itemWF] at hit
      cases hk : kidsAt kids f with
      | nil => simp [hk] at hit
      | cons k ks =>
        simp only [hk, Bool.and_eq_true, Bool.not_eq_true', Option.isSome_iff_exists] at hit
        obtain ⟨⟨hn, ⟨p, hp⟩⟩, _⟩ := hit
        simp [canonPos, evalBody, evalP, kidGet, itemSpans, hk, hn, hp, kidSpan, firstStart]
    | list1 f =>
      simp only [itemWF, Bool.and_eq_true] at hit
      cases hk : kidsAt kids f with
      | nil => simp [hk] at hit
      | cons k ks =>
        have hall := hit.2
        simp only [hk, List.all_cons, Bool.and_eq_true, Bool.not_eq_true',
          Option.isSome_iff_exists] at hall
        obtain ⟨⟨⟨hn, ⟨p, hp⟩⟩, _⟩, _⟩ := hall
        simp [canonPos, evalBody, evalP, kidGet, itemSpans, hk, hn, hp, kidSpan, firstStart]
    | childOpt f =>
      simp only [itemWF] at hit
      cases hk : kidsAt kids f with
      | nil => simp [canonPos, evalBody, evalC, itemSpans, hk, ih']
      | cons k ks =>
        simp only [hk] at hit
        cases hn : k.null
        · simp only [hn, Bool.false_or, Bool.and_eq_true, Option.isSome_iff_exists] at hit
          obtain ⟨⟨p, hp⟩, _⟩ := hit
          simp [canonPos, evalBody, evalC, evalP, kidGet, itemSpans, hk, hn, hp, kidSpan, firstStart]
        · simp [canonPos, evalBody, evalC, itemSpans, hk, hn, ih']
    | list f =>
      simp only [itemWF] at hit
      cases hk : kidsAt kids f with
      | nil => simp [canonPos, evalBody, evalC, itemSpans, hk, ih']
      | cons k ks =>
        simp only [hk, List.all_cons, Bool.and_eq_true, Bool.not_eq_true',
          Option.isSome_iff_exists] at hit
        obtain ⟨⟨⟨hn, ⟨p, hp⟩⟩, _⟩, _⟩ := hit
        simp [canonPos, evalBody, evalC, evalP, kidGet, itemSpans, hk, hn, hp, kidSpan, firstStart]

omit [DecidableEq F] in
theorem lastStop_map_kidSpan (l : List (Kid K F)) (kl : Kid K F) (e : Nat)
    (hkl : l.getLast? = some kl) (he : kl.stop = some e) :
    lastStop (l.map kidSpan) = e := by
  simp [lastStop, List.getLast?_map, hkl, kidSpan, he]

theorem canonEndR_sound (opq : String → List (F × Nat) → List (Kid K F) → Option Nat)
    (vals : List (F × Nat)) (kids : List (Kid K F)) :
    ∀ ritems : List (Item F), layoutWF kids ritems = true →
      evalBody opq vals kids (canonEndR ritems) =
        some (lastStop (elems vals kids ritems.reverse)) := by
  intro ritems
  induction ritems with
  | nil => intro _; simp [canonEndR, evalBody, evalP, elems, lastStop]
  | cons it r ih =>
    intro hwf
    simp only [layoutWF, List.all_cons, Bool.and_eq_true] at hwf
    obtain ⟨hit, hr⟩ := hwf
    have ih' := ih (by simpa [layoutWF] using hr)
    simp only [elems, List.reverse_cons, List.flatMap_append, List.flatMap_cons, List.flatMap_nil,
      List.append_nil, lastStop_append] at ih' ⊢
    cases it with
    | tok f n => simp [canonEndR, evalBody, evalP, itemSpans, lastStop]
    | tokStr f gs => simp [canonEndR, evalBody, evalP, evalP_addLens, itemSpans, lastStop]
    | tokUnless f n fl =>
      by_cases h : val vals fl = 0 <;> simp [canonEndR, evalBody, evalC, evalP, itemSpans, lastStop, h]
    | tokStrUnless f g fl =>
      by_cases h : val vals fl = 0 <;> simp [canonEndR, evalBody, evalC, evalP, itemSpans, lastStop, h]
    | start f => simp [canonEndR, evalBody, evalP, itemSpans, lastStop]
    | stop f => simp [canonEndR, evalBody, evalP, itemSpans, lastStop]
    | tokOpt f n =>
      by_cases h : val vals f = 0
      · simp [canonEndR, evalBody, evalC, itemSpans, h, ih']
      · simp [canonEndR, evalBody, evalC, evalP, itemSpans, h, lastStop]
    | stopOpt f =>
      by_cases h : val vals f = 0
      · simp [canonEndR, evalBody, evalC, itemSpans, h, ih']
      · simp [canonEndR, evalBody, evalC, evalP, itemSpans, h, lastStop]
    | tokIfUnset f n g =>
      by_cases h : val vals g = 0
      · simp [canonEndR, evalBody, evalC, evalP, itemSpans, h, lastStop]
      · simp [canonEndR, evalBody, evalC, itemSpans, h, ih']
    | child f =>
      simp only [itemWF] at hit
      cases hk : kidsAt kids f with
      | nil => simp [hk] at hit
      | cons k ks =>
        simp only [hk, Bool.and_eq_true, Bool.not_eq_true', Option.isSome_iff_exists] at hit
        obtain ⟨⟨hn, _⟩, ⟨e, he⟩⟩ := hit
        simp [canonEndR, evalBody, evalP, kidGet, itemSpans, hk, hn, he, kidSpan, lastStop]
    | list1 f =>
      simp only [itemWF, Bool.and_eq_true] at hit
      cases hk : kidsAt kids f with
      | nil => simp [hk] at hit
      | cons k ks =>
        have hall := hit.2
        rw [hk] at hall
        have hlast : ∃ kl, (k :: ks).getLast? = some kl ∧ kl ∈ (k :: ks) := by
          refine ⟨(k :: ks).getLast (by simp), List.getLast?_eq_some_getLast (by simp), List.getLast_mem _⟩
        obtain ⟨kl, hkl, hmem⟩ := hlast
        have hkl' := List.all_eq_true.mp hall kl hmem
        simp only [Bool.and_eq_true, Bool.not_eq_true', Option.isSome_iff_exists] at hkl'
        obtain ⟨⟨hn, _⟩, ⟨e, he⟩⟩ := hkl'
        have hls := lastStop_map_kidSpan (k :: ks) kl e hkl he
        simp only [canonEndR, evalBody, evalP, itemSpans, hk, hkl, hn, he, hls]
        simp
    | childOpt f =>
      simp only [itemWF] at hit
      cases hk : kidsAt kids f with
      | nil => simp [canonEndR, evalBody, evalC, itemSpans, hk, ih']
      | cons k ks =>
        simp only [hk] at hit
        cases hn : k.null
        · simp only [hn, Bool.false_or, Bool.and_eq_true, Option.isSome_iff_exists] at hit
          obtain ⟨_, ⟨e, he⟩⟩ := hit
          simp [canonEndR, evalBody, evalC, evalP, kidGet, itemSpans, hk, hn, he, kidSpan, lastStop]
        · simp [canonEndR, evalBody, evalC, itemSpans, hk, hn, ih']
    | list f =>
      simp only [itemWF] at hit
      cases hk : kidsAt kids f with
      | nil => simp [canonEndR, evalBody, evalC, itemSpans, hk, ih']
      | cons k ks =>
        rw [hk] at hit
        have hlast : ∃ kl, (k :: ks).getLast? = some kl ∧ kl ∈ (k :: ks) := by
          refine ⟨(k :: ks).getLast (by simp), List.getLast?_eq_some_getLast (by simp), List.getLast_mem _⟩
        obtain ⟨kl, hkl, hmem⟩ := hlast
        have hkl' := List.all_eq_true.mp hit kl hmem
        simp only [Bool.and_eq_true, Bool.not_eq_true', Option.isSome_iff_exists] at hkl'
        obtain ⟨⟨hn, _⟩, ⟨e, he⟩⟩ := hkl'
        have hls := lastStop_map_kidSpan (k :: ks) kl e hkl he
        simp only [canonEndR, evalBody, evalC, evalP, itemSpans, hk, hkl, hn, he, hls]
        simp

theorem layoutWF_reverse (kids : List (Kid K F)) (items : List (Item F)) :
    layoutWF kids items.reverse = layoutWF kids items := by
  simp [layoutWF, List.all_reverse]

theorem canonEnd_sound (opq : String → List (F × Nat) → List (Kid K F) → Option Nat)
    (vals : List (F × Nat)) (kids : List (Kid K F)) (items : List (Item F))
    (hwf : layoutWF kids items = true) :
    evalBody opq vals kids (canonEnd items) = some (lastStop (elems vals kids items)) := by
  have := canonEndR_sound opq vals kids items.reverse (by rw [layoutWF_reverse]; exact hwf)
  simpa [canonEnd] using this

theorem mem_of_lookup {α β} [BEq α] [LawfulBEq α] (a : α) (b : β) :
    ∀ l : List (α × β), l.lookup a = some b → (a, b) ∈ l := by
  intro l
  induction l with
  | nil => intro h; simp [List.lookup] at h
  | cons p r ih =>
    intro h
    obtain ⟨x, y⟩ := p
    simp only [List.lookup] at h
    by_cases hx : a == x
    · simp only [hx] at h
      have : a = x := eq_of_beq hx
      cases h; subst this; exact List.mem_cons_self
    · simp only [hx] at h
      exact List.mem_cons_of_mem _ (ih h)

/-- `prune` does not change what a body evaluates to, as long as the recorded outcomes are the
actual ones. -/
theorem prune_sound (opq : String → List (F × Nat) → List (Kid K F) → Option Nat)
    (vals : List (F × Nat)) (kids : List (Kid K F)) :
    ∀ (b : Body F) (known : List (Cond F × Bool)),
      (∀ p ∈ known, evalC vals kids p.1 = p.2) →
      evalBody opq vals kids (prune known b) = evalBody opq vals kids b := by
  intro b
  induction b with
  | ret e => intro known _; rfl
  | «opaque» n => intro known _; rfl
  | ite c t e iht ihe =>
    intro known hk
    simp only [prune]
    cases hl : known.lookup c with
    | none =>
      simp only [evalBody]
      cases hc : evalC vals kids c
      · simp only [Bool.false_eq_true, if_false]
        apply ihe ((c, false) :: known)
        intro p hp
        cases hp with
        | head => exact hc
        | tail _ h => exact hk p h
      · simp only [if_true]
        apply iht ((c, true) :: known)
        intro p hp
        cases hp with
        | head => exact hc
        | tail _ h => exact hk p h
    | some v =>
      have hv : evalC vals kids c = v := hk (c, v) (mem_of_lookup c v known hl)
      cases v
      · simp only [evalBody, hv, Bool.false_eq_true, if_false]; exact ihe known hk
      · simp only [evalBody, hv, if_true]; exact iht known hk

/-! ### Elements in source order: nesting and non-overlap -/

theorem ordered_tail {a : Nat × Nat} {l : List (Nat × Nat)} (h : ordered (a :: l) = true) :
    ordered l = true := by
  cases l with
  | nil => rfl
  | cons b r => simp only [ordered, Bool.and_eq_true] at h; exact h.2

theorem ordered_head {a : Nat × Nat} {l : List (Nat × Nat)} (h : ordered (a :: l) = true) :
    a.1 ≤ a.2 := by
  cases l with
  | nil => simpa [ordered] using h
  | cons b r => simp only [ordered, Bool.and_eq_true, decide_eq_true_eq] at h; exact h.1.1

/-- In an ordered element list every element starts at or after the first start. -/
theorem ordered_first_le (l : List (Nat × Nat)) (h : ordered l = true) :
    ∀ e ∈ l, firstStart l ≤ e.1 ∧ e.1 ≤ e.2 := by
  induction l with
  | nil => intro e he; cases he
  | cons a r ih =>
    intro e he
    cases he with
    | head => exact ⟨Nat.le_refl _, ordered_head h⟩
    | tail _ hm =>
      have hr := ordered_tail h
      have := ih hr e hm
      refine ⟨?_, this.2⟩
      cases r with
      | nil => cases hm
      | cons b r' =>
        simp only [ordered, Bool.and_eq_true, decide_eq_true_eq] at h
        have h1 : a.1 ≤ b.1 := Nat.le_trans h.1.1 h.1.2
        have h2 : b.1 ≤ e.1 := by simpa [firstStart] using this.1
        simpa [firstStart] using Nat.le_trans h1 h2

/-- …and stops at or before the last stop. -/
theorem ordered_le_last (l : List (Nat × Nat)) (h : ordered l = true) :
    ∀ e ∈ l, e.2 ≤ lastStop l := by
  induction l with
  | nil => intro e he; cases he
  | cons a r ih =>
    intro e he
    cases r with
    | nil =>
      cases he with
      | head => simp [lastStop]
      | tail _ hm => cases hm
    | cons b r' =>
      have hr := ordered_tail h
      have hlast : lastStop (a :: b :: r') = lastStop (b :: r') := by
        simp [lastStop, List.getLast?_cons_cons]
      rw [hlast]
      cases he with
      | head =>
        simp only [ordered, Bool.and_eq_true, decide_eq_true_eq] at h
        have hb := ih hr b List.mem_cons_self
        have hb1 := (ordered_first_le (b :: r') hr b List.mem_cons_self).2
        exact Nat.le_trans h.1.2 (Nat.le_trans hb1 hb)
      | tail _ hm => exact ih hr e hm

/-- Consecutive or not, an earlier element stops before a later one starts. -/
theorem ordered_pairwise (l : List (Nat × Nat)) (h : ordered l = true) :
    l.Pairwise fun a b => a.2 ≤ b.1 := by
  induction l with
  | nil => exact List.Pairwise.nil
  | cons a r ih =>
    have hr := ordered_tail h
    refine List.Pairwise.cons ?_ (ih hr)
    intro e he
    cases r with
    | nil => cases he
    | cons b r' =>
      simp only [ordered, Bool.and_eq_true, decide_eq_true_eq] at h
      have := (ordered_first_le (b :: r') hr e he).1
      exact Nat.le_trans h.1.2 (by simpa [firstStart] using this)

end GopModel.SpanModel
