/- The inductive invariant of the C39 transition system (`Inv`), split into the part about
   outgoing calls (`CallInv`), the part about incoming requests (`ReqInv`) and the part about
   `done`/closer, with the lemmas saying how each kind of update preserves each part.
   Core Lean only; does not depend on Generated/. -/
import GopModel.Lemmas.InFlight
set_option linter.unusedSimpArgs false
set_option linter.unnecessarySimpa false
namespace GopModel.InFlight

/-- Outgoing calls: `O` = outgoingCalls, `R` = calls ever registered, `Y` = retired calls with
the ID of the response they got, `P` = calls created but not yet registered, `seq` = c.seq. -/
structure CallInv (O : Map Call) (R : List Call) (Y : List (Call × ID)) (P : List Call) (seq : Nat) : Prop where
  oKeys : (Map.keys O).Nodup
  oEnt : ∀ k c, (k, c) ∈ O → c.id = k ∧ c ∈ R ∧ c ∉ Y.map (·.1)
  oReg : ∀ c ∈ R, c ∈ Map.vals O ∨ c ∈ Y.map (·.1)
  rNodup : (Y.map (·.1)).Nodup
  rOwn : ∀ e ∈ Y, e.2 = e.1.id
  pNodup : P.Nodup
  pReg : ∀ c ∈ P, c ∉ R ∧ c ∉ Y.map (·.1) ∧ c.ref ≤ seq
  idRef : ∀ c, c ∈ P ∨ c ∈ R → c.id = ID.int (Int.ofNat c.ref)
  seqReg : ∀ c ∈ R, c.ref ≤ seq
  seqRdy : ∀ c ∈ Y.map (·.1), c.ref ≤ seq

/-- Incoming requests: `B` = incomingByID, `Q` = handlerQueue, `hr` = handlerRunning,
`reqs` = accepted requests with their phase, `next` = allocation counter, `ans` = answered. -/
structure ReqInv (incoming : Int) (B : Map Req) (Q : List Req) (hr : Bool)
    (reqs : List (Req × Phase)) (next : Nat) (ans : List Req) : Prop where
  inc : incoming = reqs.length
  qNodup : (reqs.map (·.1.ref)).Nodup
  qFresh : ∀ e ∈ reqs, e.1.ref < next
  bKeys : (Map.keys B).Nodup
  bEnt : ∀ k q, (k, q) ∈ B ↔ (q.id = k ∧ q.isCall = true ∧ ∃ p, (q, p) ∈ reqs ∧ p.pre16 = true)
  queueN : Q.Nodup
  queueM : ∀ q, q ∈ Q ↔ (q, Phase.queued) ∈ reqs
  queueH : Q ≠ [] → hr = true
  ansN : ans.Nodup
  ansW : ∀ r ∈ ans, r.ref < next ∧ ∀ p, (r, p) ∈ reqs → p = Phase.writing
  asyncC : ∀ q, (q, Phase.async) ∈ reqs → q.isCall = true

structure Inv (m : M) : Prop where
  np : m.panicked = false
  calls : CallInv m.st.outgoing m.registered m.ready m.pendingReg m.seq
  notif : m.st.outNotif = m.owedNotif
  reqsI : ReqInv m.st.incoming m.st.byID m.st.queue m.st.handlerRunning m.reqs m.nextReq m.answered
  d1 : m.st.done = true → m.st.idle = true ∧ m.st.reading = false ∧ m.st.closerOpen = false ∧ m.st.shuttingDown.isSome = true
  d2 : m.doneCloses = if m.st.done then 1 else 0
  d3 : m.closerCloses = if m.st.closerOpen then 0 else 1

theorem inv_init : Inv M.init := by
  constructor <;> (try constructor) <;> simp [M.init, St.init, Map.keys, Map.vals]

/-- `fire` when the closure does not panic and retires only calls that are not ready yet. -/
theorem fire_eq (t : Args → St → St × Out) (a : Args) (m : M)
    (hp : (t a m.st).2.panic = false)
    (hr : ∀ e ∈ (t a m.st).2.retired, e.1 ∉ m.ready.map (·.1))
    (hn : ((t a m.st).2.retired.map (·.1)).Nodup) :
    fire t a m =
      ({ m with
          st := (epilogue (t a m.st).1 (t a m.st).2).1
          closerCloses := m.closerCloses + (if (epilogue (t a m.st).1 (t a m.st).2).2.closedCloser then 1 else 0)
          doneCloses := m.doneCloses + (if (epilogue (t a m.st).1 (t a m.st).2).2.closedDone then 1 else 0)
          panicked := m.panicked || (epilogue (t a m.st).1 (t a m.st).2).2.panic
          ready := m.ready ++ (t a m.st).2.retired },
       (epilogue (t a m.st).1 (t a m.st).2).2) := by
  simp only [fire, update, hp, Bool.false_eq_true, if_false, epi_retired]
  refine Prod.ext ?_ rfl
  exact retireAll_ok _ _ hr hn

/-- The `done`/closer part of the invariant after any `updateInFlight` call whose closure keeps
a finished connection quiescent. -/
theorem epi_D' (s : St) (dc cc : Nat)
    (h1 : s.done = true → s.idle = true ∧ s.reading = false ∧ s.closerOpen = false ∧ s.shuttingDown.isSome = true)
    (h2 : dc = if s.done then 1 else 0) (h3 : cc = if s.closerOpen then 0 else 1)
    (s' : St) (o : Out)
    (hd : s'.done = s.done) (hc : s'.closerOpen = s.closerOpen)
    (hstab : s.done = true → s'.idle = true ∧ s'.reading = false ∧ s'.shuttingDown.isSome = true)
    (hop : o.panic = false) (hoc : o.closedCloser = false) (hod : o.closedDone = false) :
    let e := epilogue s' o
    (e.2.panic = false) ∧
    (e.1.done = true → e.1.idle = true ∧ e.1.reading = false ∧ e.1.closerOpen = false ∧ e.1.shuttingDown.isSome = true) ∧
    (dc + (if e.2.closedDone then 1 else 0) = if e.1.done then 1 else 0) ∧
    (cc + (if e.2.closedCloser then 1 else 0) = if e.1.closerOpen then 0 else 1) := by
  simp only [epi_panic, epi_done, epi_idle, epi_reading, epi_closerOpen, epi_shuttingDown, epi_closedDone,
    epi_closedCloser, hop, hoc, hod, St.fin, hd, hc]
  cases hdone : s.done
  · simp only [hdone, if_false, Bool.false_eq_true] at h2
    cases hco : s.closerOpen <;> simp only [hco, if_true, if_false, Bool.false_eq_true] at h3 <;>
    cases hi : s'.idle <;> cases hs : s'.shuttingDown.isSome <;> cases hr : s'.reading <;>
      simp [h2, h3, hi, hs, hr]
  · obtain ⟨a1, a2, a3, a4⟩ := h1 hdone
    obtain ⟨b1, b2, b3⟩ := hstab hdone
    simp only [hdone, if_true] at h2
    simp only [a3, if_false, Bool.false_eq_true] at h3
    simp [h2, h3, b1, b2, b3, a3]

theorem epi_D {m : M} (h : Inv m) (s' : St) (o : Out)
    (hd : s'.done = m.st.done) (hc : s'.closerOpen = m.st.closerOpen)
    (hstab : m.st.done = true → s'.idle = true ∧ s'.reading = false ∧ s'.shuttingDown.isSome = true)
    (hop : o.panic = false) (hoc : o.closedCloser = false) (hod : o.closedDone = false) :
    let e := epilogue s' o
    (e.2.panic = false) ∧
    (e.1.done = true → e.1.idle = true ∧ e.1.reading = false ∧ e.1.closerOpen = false ∧ e.1.shuttingDown.isSome = true) ∧
    (m.doneCloses + (if e.2.closedDone then 1 else 0) = if e.1.done then 1 else 0) ∧
    (m.closerCloses + (if e.2.closedCloser then 1 else 0) = if e.1.closerOpen then 0 else 1) :=
  epi_D' m.st m.doneCloses m.closerCloses h.d1 h.d2 h.d3 s' o hd hc hstab hop hoc hod

/-- Discharges a part of `Inv` that an action leaves alone. -/
syntax "unch " ident " [" Lean.Parser.Tactic.simpLemma,* "]" : tactic
macro_rules
  | `(tactic| unch $h [$ls,*]) => `(tactic| first
    | (simpa [epi_outgoing, $ls,*] using ($h).calls)
    | (simpa [epi_outNotif, $ls,*] using ($h).notif)
    | (simpa [epi_incoming, epi_byID, epi_queue, epi_handlerRunning, $ls,*] using ($h).reqsI))

/-- Finishes the parts of `Inv` that an action leaves alone (`e1…e4` from `epi_D`). -/
syntax "inv_rest " ident ident ident ident ident " [" Lean.Parser.Tactic.simpLemma,* "]" : tactic
macro_rules
  | `(tactic| inv_rest $h $e1 $e2 $e3 $e4 [$ls,*]) => `(tactic| all_goals first
    | (simpa [$e1:ident] using ($h).np)
    | exact $e2 | exact $e3 | exact $e4
    | unch $h [$ls,*])

theorem stab_same {m : M} (h : Inv m) :
    m.st.done = true → m.st.idle = true ∧ m.st.reading = false ∧ m.st.shuttingDown.isSome = true := by
  intro hd; have := h.d1 hd; exact ⟨this.1, this.2.1, this.2.2.2⟩

/-- What `done` implies (everything has drained). -/
theorem done_quiet {m : M} (h : Inv m) (hd : m.st.done = true) :
    m.st.outgoing = [] ∧ m.st.outNotif = 0 ∧ m.owedNotif = 0 ∧ m.st.incoming = 0 ∧ m.reqs = [] ∧ m.st.byID = [] ∧
    m.st.queue = [] ∧ m.st.handlerRunning = false ∧ m.st.reading = false ∧
    m.st.closerOpen = false ∧ m.st.shuttingDown.isSome = true := by
  obtain ⟨hi, hr, hc, hs⟩ := h.d1 hd
  obtain ⟨i1, i2, i3, i4⟩ := (idle_iff _).mp hi
  have hreqs : m.reqs = [] := by
    have := h.reqsI.inc; rw [i3] at this
    exact List.eq_nil_of_length_eq_zero (by omega)
  have hby : m.st.byID = [] := by
    apply List.eq_nil_iff_forall_not_mem.mpr
    rintro ⟨k, q⟩ hkq
    obtain ⟨_, _, p, hp, _⟩ := (h.reqsI.bEnt k q).mp hkq
    rw [hreqs] at hp; cases hp
  have hq : m.st.queue = [] := by
    apply List.eq_nil_iff_forall_not_mem.mpr
    intro q hq
    have := (h.reqsI.queueM q).mp hq
    rw [hreqs] at this; cases this
  have hn := h.notif
  exact ⟨i1, i2, by omega, i3, hreqs, hby, hq, i4, hr, hc, hs⟩

/-! ### Outgoing calls -/
namespace CallInv
variable {O : Map Call} {R : List Call} {Y : List (Call × ID)} {P : List Call} {seq : Nat}

theorem get_some (h : CallInv O R Y P seq) {k : ID} {c : Call} : Map.get O k = some c ↔ (k, c) ∈ O :=
  Map.get_eq_some h.oKeys

/-- `Call`: a fresh `AsyncCall` with the next sequence number. -/
theorem new (h : CallInv O R Y P seq) :
    CallInv O R Y (⟨seq + 1, ID.int (Int.ofNat (seq + 1))⟩ :: P) (seq + 1) where
  oKeys := h.oKeys
  oEnt := h.oEnt
  oReg := h.oReg
  rNodup := h.rNodup
  rOwn := h.rOwn
  pNodup := by
    simp only [List.nodup_cons]
    exact ⟨fun hc => Nat.not_succ_le_self _ (h.pReg _ hc).2.2, h.pNodup⟩
  pReg := by
    intro c hc
    simp only [List.mem_cons] at hc
    rcases hc with rfl | hc
    · exact ⟨fun hc => Nat.not_succ_le_self _ (h.seqReg _ hc),
        fun hc => Nat.not_succ_le_self _ (h.seqRdy _ hc), Nat.le_refl _⟩
    · have := h.pReg c hc; exact ⟨this.1, this.2.1, Nat.le_succ_of_le this.2.2⟩
  idRef := by
    intro c hc
    simp only [List.mem_cons] at hc
    rcases hc with (rfl | hc) | hc
    · rfl
    · exact h.idRef c (Or.inl hc)
    · exact h.idRef c (Or.inr hc)
  seqReg := fun c hc => Nat.le_succ_of_le (h.seqReg c hc)
  seqRdy := fun c hc => Nat.le_succ_of_le (h.seqRdy c hc)

/-- A pending (never registered) call is retired locally with its own ID. -/
theorem retirePending (h : CallInv O R Y P seq) {c : Call} (hc : c ∈ P) :
    CallInv O R (Y ++ [(c, c.id)]) (P.erase c) seq := by
  obtain ⟨p1, p2, p3⟩ := h.pReg c hc
  constructor
  case oKeys => exact h.oKeys
  case oEnt =>
    intro k c' hk
    obtain ⟨a1, a2, a3⟩ := h.oEnt k c' hk
    refine ⟨a1, a2, ?_⟩
    simp only [List.map_append, List.map_cons, List.map_nil, List.mem_append, List.mem_singleton, not_or]
    exact ⟨a3, fun hcc => p1 (hcc ▸ a2)⟩
  case oReg =>
    intro c' hc'
    rcases h.oReg c' hc' with h1 | h1
    · exact Or.inl h1
    · exact Or.inr (by simp only [List.map_append, List.mem_append]; exact Or.inl h1)
  case rNodup =>
    simp only [List.map_append, List.map_cons, List.map_nil]
    rw [List.nodup_append]
    refine ⟨h.rNodup, by simp, ?_⟩
    intro a ha b hb
    simp only [List.mem_singleton] at hb
    subst hb; intro hab; subst hab; exact p2 ha
  case rOwn =>
    intro e he
    simp only [List.mem_append, List.mem_singleton] at he
    rcases he with he | rfl
    · exact h.rOwn e he
    · rfl
  case pNodup => exact h.pNodup.erase _
  case pReg =>
    intro c' hc'
    have hm := List.mem_of_mem_erase hc'
    obtain ⟨a1, a2, a3⟩ := h.pReg c' hm
    refine ⟨a1, ?_, a3⟩
    simp only [List.map_append, List.map_cons, List.map_nil, List.mem_append, List.mem_singleton, not_or]
    refine ⟨a2, ?_⟩
    intro hcc; subst hcc
    exact (List.Nodup.mem_erase_iff h.pNodup).mp hc' |>.1 rfl
  case idRef =>
    intro c' hc'
    rcases hc' with hc' | hc'
    · exact h.idRef c' (Or.inl (List.mem_of_mem_erase hc'))
    · exact h.idRef c' (Or.inr hc')
  case seqReg => exact h.seqReg
  case seqRdy =>
    intro c' hc'
    simp only [List.map_append, List.map_cons, List.map_nil, List.mem_append, List.mem_singleton] at hc'
    rcases hc' with hc' | rfl
    · exact h.seqRdy c' hc'
    · exact p3

/-- Dropping a pending call from the bookkeeping (it is being processed by `callRegister`). -/
theorem erasePending (h : CallInv O R Y P seq) (c : Call) : CallInv O R Y (P.erase c) seq where
  oKeys := h.oKeys
  oEnt := h.oEnt
  oReg := h.oReg
  rNodup := h.rNodup
  rOwn := h.rOwn
  pNodup := h.pNodup.erase _
  pReg := fun c' hc' => h.pReg c' (List.mem_of_mem_erase hc')
  idRef := by
    intro c' hc'
    rcases hc' with hc' | hc'
    · exact h.idRef c' (Or.inl (List.mem_of_mem_erase hc'))
    · exact h.idRef c' (Or.inr hc')
  seqReg := h.seqReg
  seqRdy := h.seqRdy

/-- Call#0 succeeded: the pending call enters `outgoingCalls` under its own id. -/
theorem register (h : CallInv O R Y P seq) {c : Call} (hc : c ∈ P) :
    CallInv (Map.put O c.id c) (c :: R) Y (P.erase c) seq := by
  obtain ⟨p1, p2, p3⟩ := h.pReg c hc
  have hfresh : ∀ k c', (k, c') ∈ O → k ≠ c.id := by
    intro k c' hk hkc
    obtain ⟨a1, a2, _⟩ := h.oEnt k c' hk
    have e1 := h.idRef c (Or.inl hc)
    have e2 := h.idRef c' (Or.inr a2)
    have : c' = c := by
      cases c; cases c'
      simp only at a1 hkc e1 e2
      subst a1; subst hkc
      rw [e1] at e2
      simp only [ID.int.injEq] at e2
      have : _ := Int.ofNat.inj e2
      simp [this]
    exact p1 (this ▸ a2)
  constructor
  case oKeys => exact Map.nodup_keys_put _ _ h.oKeys
  case oEnt =>
    intro k c' hk
    rcases Map.mem_put.mp hk with ⟨rfl, rfl⟩ | ⟨hk, _⟩
    · exact ⟨rfl, by simp, p2⟩
    · obtain ⟨a1, a2, a3⟩ := h.oEnt k c' hk
      exact ⟨a1, List.mem_cons_of_mem _ a2, a3⟩
  case oReg =>
    intro c' hc'
    simp only [List.mem_cons] at hc'
    rcases hc' with rfl | hc'
    · exact Or.inl (Map.mem_vals.mpr ⟨c'.id, Map.mem_put.mpr (Or.inl ⟨rfl, rfl⟩)⟩)
    · rcases h.oReg c' hc' with h1 | h1
      · obtain ⟨k, hk⟩ := Map.mem_vals.mp h1
        exact Or.inl (Map.mem_vals.mpr ⟨k, Map.mem_put.mpr (Or.inr ⟨hk, hfresh k c' hk⟩)⟩)
      · exact Or.inr h1
  case rNodup => exact h.rNodup
  case rOwn => exact h.rOwn
  case pNodup => exact h.pNodup.erase _
  case pReg =>
    intro c' hc'
    have hm := List.mem_of_mem_erase hc'
    have hne : c' ≠ c := (List.Nodup.mem_erase_iff h.pNodup).mp hc' |>.1
    obtain ⟨a1, a2, a3⟩ := h.pReg c' hm
    refine ⟨?_, a2, a3⟩
    simp only [List.mem_cons, not_or]
    exact ⟨hne, a1⟩
  case idRef =>
    intro c' hc'
    simp only [List.mem_cons] at hc'
    rcases hc' with hc' | rfl | hc'
    · exact h.idRef c' (Or.inl (List.mem_of_mem_erase hc'))
    · exact h.idRef c' (Or.inl hc)
    · exact h.idRef c' (Or.inr hc')
  case seqReg =>
    intro c' hc'
    simp only [List.mem_cons] at hc'
    rcases hc' with rfl | hc'
    · exact p3
    · exact h.seqReg c' hc'
  case seqRdy => exact h.seqRdy

/-- An entry of `outgoingCalls` is deleted and its call retired with the entry's key. -/
theorem retireEntry (h : CallInv O R Y P seq) {k : ID} {c : Call} (hk : (k, c) ∈ O) :
    CallInv (Map.del O k) R (Y ++ [(c, k)]) P seq := by
  obtain ⟨c1, c2, c3⟩ := h.oEnt k c hk
  constructor
  case oKeys => exact Map.nodup_keys_del _ h.oKeys
  case oEnt =>
    intro k' c' hk'
    obtain ⟨hk', hne⟩ := Map.mem_del.mp hk'
    obtain ⟨a1, a2, a3⟩ := h.oEnt k' c' hk'
    refine ⟨a1, a2, ?_⟩
    simp only [List.map_append, List.map_cons, List.map_nil, List.mem_append, List.mem_singleton, not_or]
    refine ⟨a3, ?_⟩
    intro hcc; subst hcc
    exact hne (a1 ▸ c1)
  case oReg =>
    intro c' hc'
    rcases h.oReg c' hc' with h1 | h1
    · obtain ⟨k', hk'⟩ := Map.mem_vals.mp h1
      by_cases hkk : k' = k
      · subst hkk
        have : c' = c := by
          have e1 := (Map.get_eq_some h.oKeys).mpr hk'
          have e2 := (Map.get_eq_some h.oKeys).mpr hk
          rw [e1] at e2; exact Option.some.inj e2
        subst this
        exact Or.inr (by simp)
      · exact Or.inl (Map.mem_vals.mpr ⟨k', Map.mem_del.mpr ⟨hk', hkk⟩⟩)
    · exact Or.inr (by simp only [List.map_append, List.mem_append]; exact Or.inl h1)
  case rNodup =>
    simp only [List.map_append, List.map_cons, List.map_nil]
    rw [List.nodup_append]
    refine ⟨h.rNodup, by simp, ?_⟩
    intro a ha b hb
    simp only [List.mem_singleton] at hb
    subst hb; intro hab; subst hab; exact c3 ha
  case rOwn =>
    intro e he
    simp only [List.mem_append, List.mem_singleton] at he
    rcases he with he | rfl
    · exact h.rOwn e he
    · exact c1.symm
  case pNodup => exact h.pNodup
  case pReg =>
    intro c' hc'
    obtain ⟨a1, a2, a3⟩ := h.pReg c' hc'
    refine ⟨a1, ?_, a3⟩
    simp only [List.map_append, List.map_cons, List.map_nil, List.mem_append, List.mem_singleton, not_or]
    exact ⟨a2, fun hcc => a1 (hcc ▸ c2)⟩
  case idRef => exact h.idRef
  case seqReg => exact h.seqReg
  case seqRdy =>
    intro c' hc'
    simp only [List.map_append, List.map_cons, List.map_nil, List.mem_append, List.mem_singleton] at hc'
    rcases hc' with hc' | rfl
    · exact h.seqRdy c' hc'
    · exact h.seqReg _ c2

/-- The values of `outgoingCalls` are pairwise distinct. -/
theorem vals_nodup (h : CallInv O R Y P seq) : (O.map (fun e => (e.2, e.1))).map (·.1) |>.Nodup := by
  have hk := h.oKeys
  have hent := h.oEnt
  clear h
  induction O with
  | nil => simp
  | cons e t ih =>
    obtain ⟨k, c⟩ := e
    simp only [Map.keys, List.map_cons, List.nodup_cons] at hk
    simp only [List.map_cons, List.map_map, List.nodup_cons]
    refine ⟨?_, ?_⟩
    · intro hc
      simp only [List.mem_map, Function.comp] at hc
      obtain ⟨⟨k', c'⟩, hm, hcc⟩ := hc
      simp only at hcc; subst hcc
      have e1 := (hent k c' (by simp)).1
      have e2 := (hent k' c' (by simp [hm])).1
      exact hk.1 (List.mem_map.mpr ⟨(k', c'), hm, by simp [← e1, ← e2]⟩)
    · have := ih hk.2 (fun k' c' hm => hent k' c' (by simp [hm]))
      simpa [List.map_map] using this

/-- readIncoming#1: every entry is retired with its own key and the map is dropped. -/
theorem retireAllEntries (h : CallInv O R Y P seq) :
    CallInv [] R (Y ++ O.map (fun e => (e.2, e.1))) P seq := by
  have hv := h.vals_nodup
  constructor
  case oKeys => simp [Map.keys]
  case oEnt => intro k c hk; cases hk
  case oReg =>
    intro c hc
    rcases h.oReg c hc with h1 | h1
    · obtain ⟨k, hk⟩ := Map.mem_vals.mp h1
      refine Or.inr ?_
      simp only [List.map_append, List.map_map, List.mem_append, List.mem_map, Function.comp]
      exact Or.inr ⟨(k, c), hk, rfl⟩
    · exact Or.inr (by simp only [List.map_append, List.mem_append]; exact Or.inl h1)
  case rNodup =>
    simp only [List.map_append]
    rw [List.nodup_append]
    refine ⟨h.rNodup, hv, ?_⟩
    intro a ha b hb hab
    subst hab
    simp only [List.map_map, List.mem_map, Function.comp] at hb
    obtain ⟨⟨k, c⟩, hm, rfl⟩ := hb
    exact (h.oEnt k c hm).2.2 ha
  case rOwn =>
    intro e he
    simp only [List.mem_append, List.mem_map] at he
    rcases he with he | ⟨⟨k, c⟩, hm, rfl⟩
    · exact h.rOwn e he
    · exact (h.oEnt k c hm).1.symm
  case pNodup => exact h.pNodup
  case pReg =>
    intro c hc
    obtain ⟨a1, a2, a3⟩ := h.pReg c hc
    refine ⟨a1, ?_, a3⟩
    simp only [List.map_append, List.map_map, List.mem_append, List.mem_map, Function.comp, not_or]
    refine ⟨by simpa using a2, ?_⟩
    rintro ⟨⟨k, c'⟩, hm, rfl⟩
    exact a1 (h.oEnt k c' hm).2.1
  case idRef => exact h.idRef
  case seqReg => exact h.seqReg
  case seqRdy =>
    intro c hc
    simp only [List.map_append, List.map_map, List.mem_append, List.mem_map, Function.comp] at hc
    rcases hc with hc | ⟨⟨k, c'⟩, hm, rfl⟩
    · exact h.seqRdy c (by simpa using hc)
    · exact h.seqReg _ (h.oEnt k c' hm).2.1

end CallInv
end GopModel.InFlight
