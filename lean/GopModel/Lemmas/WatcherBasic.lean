/- C40 helper: definitions of the invariants of the watcher system, the mutex layer (Basic) and trace lemmas. -/
import GopModel.Lemmas.TS
import GopModel.Generated.SyncWatcher
namespace GopModel.C40
open GopModel.TS GopModel.Generated.SyncWatcher

/-- thread is inside the critical section (between Lock and Unlock / Wait) -/
def holds (t : Thread) : Bool :=
  (t.fn == 0 && (t.pc == 1 || t.pc == 2 || t.pc == 4 || t.pc == 5)) ||
  (t.fn == 1 && (t.pc == 2 || t.pc == 3 || t.pc == 4))

def Valid (t : Thread) : Prop :=
  ((t.fn = 0 ∧ t.pc < 9) ∨ (t.fn = 1 ∧ t.pc < 8)) ∧
  (t.st = .run ∨ (t.st = .done ∧ ((t.fn = 0 ∧ t.pc = 8) ∨ (t.fn = 1 ∧ t.pc = 7))))

/-- which instruction a valid thread is at -/
theorem instr_cases {t : Thread} {ins : Instr} (hv : Valid t) (h : instrAt sys t = some ins) :
    (t.fn = 0 ∧ t.pc = 0 ∧ ins = .lock 1) ∨
    (t.fn = 0 ∧ t.pc = 1 ∧ ins = .brEmpty 2 4) ∨
    (t.fn = 0 ∧ t.pc = 2 ∧ ins = .waitEnq 3) ∨
    (t.fn = 0 ∧ t.pc = 3 ∧ ins = .waitRelock 1) ∨
    (t.fn = 0 ∧ t.pc = 4 ∧ ins = .setPick .a 5) ∨
    (t.fn = 0 ∧ t.pc = 5 ∧ ins = .unlock 6) ∨
    (t.fn = 0 ∧ t.pc = 6 ∧ ins = .brZero .b 8 7) ∨
    (t.fn = 0 ∧ t.pc = 7 ∧ ins = .pure .addRoot .a .a 8) ∨
    (t.fn = 0 ∧ t.pc = 8 ∧ ins = .ret (.reg .a)) ∨
    (t.fn = 1 ∧ t.pc = 0 ∧ ins = .pure .pathDir .b .a 1) ∨
    (t.fn = 1 ∧ t.pc = 1 ∧ ins = .lock 2) ∨
    (t.fn = 1 ∧ t.pc = 2 ∧ ins = .setLen .c 3) ∨
    (t.fn = 1 ∧ t.pc = 3 ∧ ins = .setInsert .b 4) ∨
    (t.fn = 1 ∧ t.pc = 4 ∧ ins = .unlock 5) ∨
    (t.fn = 1 ∧ t.pc = 5 ∧ ins = .brZero .c 6 7) ∨
    (t.fn = 1 ∧ t.pc = 6 ∧ ins = .broadcast 7) ∨
    (t.fn = 1 ∧ t.pc = 7 ∧ ins = .ret .unit) := by
  obtain ⟨hv, _⟩ := hv
  rcases hv with ⟨hfn, hpc⟩ | ⟨hfn, hpc⟩
  · have : t.pc = 0 ∨ t.pc = 1 ∨ t.pc = 2 ∨ t.pc = 3 ∨ t.pc = 4 ∨ t.pc = 5 ∨ t.pc = 6 ∨ t.pc = 7 ∨ t.pc = 8 := by omega
    rcases this with e|e|e|e|e|e|e|e|e <;>
      simp [instrAt, sys, hfn, e, fetchFn, fetchCode] at h <;> simp [hfn, e, h]
  · have : t.pc = 0 ∨ t.pc = 1 ∨ t.pc = 2 ∨ t.pc = 3 ∨ t.pc = 4 ∨ t.pc = 5 ∨ t.pc = 6 ∨ t.pc = 7 := by omega
    rcases this with e|e|e|e|e|e|e|e <;>
      simp [instrAt, sys, hfn, e, fileChangedFn, fileChangedCode] at h <;> simp [hfn, e, h]

theorem spawn_cases {fn : Nat} {f : FnDef} (hsp : sys.spawnable.contains fn = true)
    (hf : sys.fns[fn]? = some f) : (fn = 0 ∧ f = fetchFn) ∨ (fn = 1 ∧ f = fileChangedFn) := by
  simp [sys] at hsp hf
  rcases hsp with rfl | rfl <;> simp at hf <;> simp [hf]

structure Basic (s : State) : Prop where
  noPanic : s.panic = false
  valid : ∀ (i : Nat) t, s.threads[i]? = some t → Valid t
  hold1 : ∀ (i : Nat) t, s.threads[i]? = some t → holds t = true → s.holder = some i
  hold2 : ∀ (i : Nat), s.holder = some i → ∃ t, s.threads[i]? = some t ∧ holds t = true

theorem basic_step {s s' : State} {l : Label} (I : Basic s) (h : next sys s l = some s') : Basic s' := by
  cases l with
  | thread j k p v =>
    obtain ⟨hp, t, ht, hst, ins, hins, hex⟩ := next_thread h
    have hv := I.valid j t ht
    rcases instr_cases hv hins with ⟨hfn, hpc, rfl⟩ | ⟨hfn, hpc, rfl⟩ | ⟨hfn, hpc, rfl⟩ | ⟨hfn, hpc, rfl⟩ | ⟨hfn, hpc, rfl⟩ | ⟨hfn, hpc, rfl⟩ | ⟨hfn, hpc, rfl⟩ | ⟨hfn, hpc, rfl⟩ | ⟨hfn, hpc, rfl⟩ | ⟨hfn, hpc, rfl⟩ | ⟨hfn, hpc, rfl⟩ | ⟨hfn, hpc, rfl⟩ | ⟨hfn, hpc, rfl⟩ | ⟨hfn, hpc, rfl⟩ | ⟨hfn, hpc, rfl⟩ | ⟨hfn, hpc, rfl⟩ | ⟨hfn, hpc, rfl⟩
    all_goals (
      obtain ⟨_, hval, h1, h2⟩ := I
      have hjl := getElem?_lt ht
      simp only [exec] at hex
      repeat' (split at hex)
      all_goals first
        | (cases hex; done)
        | (cases hex
           refine ⟨?_, ?_, ?_, ?_⟩ <;> simp only [State.setThread, State.emit, State.doPanic, List.getElem?_set] <;> grind [holds, goto, Valid, Thread.put]))
  | spawn fn a b =>
    obtain ⟨_, hval, h1, h2⟩ := I
    obtain ⟨hp, hsp, f, hf, rfl⟩ := next_spawn h
    have hfn := spawn_cases hsp hf
    refine ⟨?_, ?_, ?_, ?_⟩ <;> simp only [State.emit, List.getElem?_append, FnDef.mkThread] <;>
      grind [holds, Valid, fetchFn, fileChangedFn, regInit]
  | spurious j =>
    obtain ⟨_, hval, h1, h2⟩ := I
    obtain ⟨hp, _, rfl⟩ := next_spurious h
    exact ⟨hp, hval, h1, h2⟩

/-! ### set / trace / wake-up invariants -/

/-- does the `d`-projection of the trace (newest first) end with an insert of `d`? -/
def pend (d : Val) : List Ev → Bool
  | [] => false
  | .insert _ d' :: t => if d' = d then true else pend d t
  | .delete _ d' :: t => if d' = d then false else pend d t
  | _ :: t => pend d t

/-- every delete of `d` removes a `d` that is pending at that moment -/
def WfTrace : List Ev → Prop
  | [] => True
  | .delete _ d :: t => pend d t = true ∧ WfTrace t
  | _ :: t => WfTrace t

structure Inv (s : State) : Prop where
  emptyAtWait : ∀ (i : Nat) t, s.threads[i]? = some t → t.fn = 0 → t.pc = 2 → s.set = []
  nonEmptyAtPick : ∀ (i : Nat) t, s.threads[i]? = some t → t.fn = 0 → t.pc = 4 → s.set ≠ []
  lenReg : ∀ (i : Nat) t, s.threads[i]? = some t → t.fn = 1 → t.pc = 3 → t.c = .nat s.set.length
  wake : s.set ≠ [] → s.notify ≠ [] →
    ∃ (i : Nat) (t : Thread), s.threads[i]? = some t ∧ t.fn = 1 ∧ t.c = .nat 0 ∧ (t.pc = 4 ∨ t.pc = 5 ∨ t.pc = 6) ∧ t.st = .run
  setTrace : ∀ d, d ∈ s.set ↔ pend d s.trace = true
  wf : WfTrace s.trace
  nodup : s.set.Nodup

/-! ### the value returned by Fetch -/

/-- the directory most recently deleted from the set by thread `i` -/
def lastDel (i : Nat) : List Ev → Option Val
  | [] => none
  | .delete j d :: t => if j = i then some d else lastDel i t
  | _ :: t => lastDel i t

/-- every return of a Fetch thread returns the directory that thread deleted, possibly with the root prefix -/
def RetOk (root : List UInt8) : List Ev → Prop
  | [] => True
  | .ret i fn o :: t =>
    (fn = 0 → ∃ d, lastDel i t = some d ∧ (o = .val d ∨ o = .val (applyPure root .addRoot d))) ∧ RetOk root t
  | _ :: t => RetOk root t

structure RInv (s : State) : Prop where
  r56 : ∀ (i : Nat) t, s.threads[i]? = some t → t.fn = 0 → (t.pc = 5 ∨ t.pc = 6 ∨ t.pc = 7) → lastDel i s.trace = some t.a
  r8 : ∀ (i : Nat) t, s.threads[i]? = some t → t.fn = 0 → t.pc = 8 → t.st = .run →
    ∃ d, lastDel i s.trace = some d ∧ (t.a = d ∨ t.a = applyPure s.root .addRoot d)
  retOk : RetOk s.root s.trace

/-! ### trace lemmas -/

theorem wf_append {a b : List Ev} (h : WfTrace (a ++ b)) : WfTrace b := by
  induction a with
  | nil => exact h
  | cons e a ih =>
    cases e <;> simp only [List.cons_append, WfTrace] at h <;> first | exact ih h | exact ih h.2

theorem pend_true_insert {d : Val} {t : List Ev} (h : pend d t = true) : ∃ j, Ev.insert j d ∈ t := by
  induction t with
  | nil => simp [pend] at h
  | cons e t ih =>
    cases e with
    | insert j d' =>
      simp only [pend] at h
      split at h
      · rename_i e; subst e; exact ⟨j, by simp⟩
      · obtain ⟨j', hj⟩ := ih h; exact ⟨j', by simp [hj]⟩
    | delete j d' =>
      simp only [pend] at h
      split at h
      · cases h
      · obtain ⟨j', hj⟩ := ih h; exact ⟨j', by simp [hj]⟩
    | _ => simp only [pend] at h; obtain ⟨j', hj⟩ := ih h; exact ⟨j', by simp [hj]⟩

theorem pend_mid_insert {d : Val} {j : Nat} {mid pre : List Ev}
    (h : pend d (mid ++ Ev.delete j d :: pre) = true) : ∃ j', Ev.insert j' d ∈ mid := by
  induction mid with
  | nil => simp [pend] at h
  | cons e t ih =>
    cases e with
    | insert j2 d' =>
      simp only [List.cons_append, pend] at h
      split at h
      · rename_i e; subst e; exact ⟨j2, by simp⟩
      · obtain ⟨j', hj⟩ := ih h; exact ⟨j', by simp [hj]⟩
    | delete j2 d' =>
      simp only [List.cons_append, pend] at h
      split at h
      · cases h
      · obtain ⟨j', hj⟩ := ih h; exact ⟨j', by simp [hj]⟩
    | _ => simp only [List.cons_append, pend] at h; obtain ⟨j', hj⟩ := ih h; exact ⟨j', by simp [hj]⟩

theorem pend_or_deleted {d : Val} {j : Nat} (post pre : List Ev) :
    pend d (post ++ Ev.insert j d :: pre) = true ∨ ∃ j', Ev.delete j' d ∈ post := by
  induction post with
  | nil => left; simp [pend]
  | cons e t ih =>
    cases e with
    | insert j2 d' =>
      simp only [List.cons_append, pend]
      split
      · left; rfl
      · rcases ih with h | ⟨j', hj⟩
        · left; exact h
        · right; exact ⟨j', by simp [hj]⟩
    | delete j2 d' =>
      by_cases e : d' = d
      · subst e; right; exact ⟨j2, by simp⟩
      · simp only [List.cons_append, pend, e, if_false]
        rcases ih with h | ⟨j', hj⟩
        · left; exact h
        · right; exact ⟨j', by simp [hj]⟩
    | _ =>
      simp only [List.cons_append, pend]
      rcases ih with h | ⟨j', hj⟩
      · left; exact h
      · right; exact ⟨j', by simp [hj]⟩

theorem retOk_append {root : List UInt8} {a b : List Ev} (h : RetOk root (a ++ b)) : RetOk root b := by
  induction a with
  | nil => exact h
  | cons e a ih =>
    cases e <;> simp only [List.cons_append, RetOk] at h <;> first | exact ih h | exact ih h.2

end GopModel.C40
