/-
M3 lemmas, part 7: assembly.  For every well-formed tree `e`
  * `lex (printExpr e) = some (toks e 0)`  (no two printed tokens combine), and
  * `parseX (toks e 0) = .ok (norm e 0)`   (with the fixed fuel of `parseX`).
-/
import GopModel.Lemmas.ExprMain
import GopModel.Lemmas.ExprBlank2
namespace GopModel.ExprSyntax
open Gen

theorem lex_printExpr {e : XExpr} (h : wf e = true) :
    lex (printExpr e) = some (toks e lowestPrec) := by
  obtain ⟨_, ⟨hs, _⟩, _⟩ := sound_printE e h lowestPrec 1 none (okFor_delim rfl)
  rw [printExpr, lex_emit hs]
  rfl

mutual
theorem size_le_toks : ∀ (e : XExpr), wf e = true → ∀ p, size e ≤ (toks e p).length
  | .ident s, _, p => by simp [size, toks_ident]
  | .lit k v, _, p => by simp [size, toks_lit]
  | .numUnit k v u, _, p => by simp [size, toks_numUnit]
  | .env s b, _, p => by cases b <;> simp [size, toks_env]
  | .binary op x y, h, p => by
    have h' := h
    simp only [wf, Bool.and_eq_true] at h'
    have := size_le_toks x h'.1.2 (prec op)
    have := size_le_toks y h'.2 (prec op + 1)
    simp only [size, toks_binary, wrapT]
    split <;> simp <;> omega
  | .unary op x, h, p => by
    have h' := h
    simp only [wf, Bool.and_eq_true] at h'
    have := size_le_toks x h'.2 unaryPrec
    simp only [size, toks_unary, wrapT]
    split <;> simp <;> omega
  | .star x, h, p => by
    have := size_le_toks x (by simpa [wf] using h) unaryPrec
    simp only [size, toks_star, wrapT]
    split <;> simp <;> omega
  | .paren x, h, p => by
    have hx : wf x = true := by simpa [wf] using h
    have := size_le_toks x hx lowestPrec
    simp only [size, toks_paren, wrapT]
    by_cases hp : isParenNode x = true
    · simp [hp]; omega
    · simp [hp]; omega
  | .selector x s, h, p => by
    have := size_le_toks x (by simpa [wf] using h) highestPrec
    simp [size, toks_selector]; omega
  | .index x i, h, p => by
    have h' : wf x = true ∧ wf i = true := by simpa [wf] using h
    have := size_le_toks x h'.1 highestPrec
    have := size_le_toks i h'.2 lowestPrec
    simp [size, toks_index]; omega
  | .call f args ell cmd, h, p => by
    have h' := h
    simp only [wf, Bool.and_eq_true, Bool.not_eq_true'] at h'
    obtain ⟨⟨⟨hc, hf⟩, hargs⟩, _⟩ := h'
    subst hc
    have := size_le_toks f hf highestPrec
    have := sizeL_le_toksL args hargs
    simp only [size, toks_call]
    cases ell <;> simp <;> omega
  | .errWrap x tok none, h, p => by
    have := size_le_toks x (wf_errWrap_none h).2 highestPrec
    simp [size, toks_errWrap_none]; omega
  | .errWrap x tok (some d), h, p => by
    obtain ⟨_, hx, hd⟩ := wf_errWrap_some h
    have := size_le_toks x hx highestPrec
    have := size_le_toks d hd unaryPrec
    simp only [size, toks_errWrap_some, wrapT]
    split <;> simp <;> omega
  | .slice .., h, _ => by simp [wf] at h
  | .composite .., h, _ => by simp [wf] at h
  | .kv .., h, _ => by simp [wf] at h
  | .sliceLit .., h, _ => by simp [wf] at h
  | .typeAssert x ty, h, p => by
    have hx : wf x = true := by
      cases ty with
      | none => simpa [wf] using h
      | some t => cases t <;> simp [wf] at h; exact h
    have := size_le_toks x hx highestPrec
    cases ty <;> simp [size, toks_typeAssert_some, toks_typeAssert_none] <;> omega
  | .lambda lhs lp rhs rp, h, p => by
    have h' := h
    simp only [wf, Bool.and_eq_true, Bool.or_eq_true, decide_eq_true_eq] at h'
    obtain ⟨hl, hr⟩ := h'
    have hlhs : lhs.length ≤ (lhsT lhs lp).length := by
      cases lp with
      | true =>
        simp only [lhsT, if_true]
        cases lhs with
        | nil => simp
        | cons s l =>
          rw [strip_identToks_cons]
          have : ∀ l : List Str, l.length ≤ (commaIdents l).length := by
            intro l; induction l with
            | nil => simp [commaIdents]
            | cons a t ih => simp [commaIdents]; omega
          have := this l
          simp; omega
      | false =>
        rcases hl with hl | hl
        · cases hl
        · cases lhs with
          | nil => simp
          | cons s l =>
            cases l with
            | nil => simp [lhsT]
            | cons s2 l2 => simp at hl
    have hrhs : (if rp then sizeL rhs else sizeB rhs) ≤ (rhsT rhs rp).length := by
      cases rp with
      | true =>
        simp only [if_true, Bool.and_eq_true] at hr ⊢
        have := sizeL_le_toksL rhs hr.2
        simp [rhsT]; omega
      | false =>
        simp only [Bool.false_eq_true, if_false] at hr ⊢
        cases rhs with
        | nil => simp [wfB] at hr
        | cons b rest =>
          cases rest with
          | cons b2 r2 => simp [wfB] at hr
          | nil =>
            simp only [wfB, Bool.and_eq_true] at hr
            have hwfL : wfL [b] = true := by simp [wfL, hr.1]
            have := sizeL_le_toksL [b] hwfL
            simp only [sizeL, toksL_one] at this
            simp [sizeB, rhsT]; omega
    simp only [size, toks_lambda, wrapT]
    by_cases hw : lowestPrec < p <;> simp [hw] <;> omega
  | .range .., h, _ => by simp [wf] at h
  | .tuple .., h, _ => by simp [wf] at h
  | .bad, h, _ => by simp [wf] at h
theorem sizeL_le_toksL : ∀ (l : List XExpr), wfL l = true → sizeL l ≤ (toksL l).length + 1
  | [], _ => by simp [sizeL]
  | [e], h => by
    have := size_le_toks e (by simpa [wfL] using h) lowestPrec
    simp [sizeL, toksL_one]; omega
  | e :: e2 :: rest, h => by
    have h' := h
    simp only [wfL, Bool.and_eq_true] at h'
    have hrest : wfL (e2 :: rest) = true := by simp only [wfL, Bool.and_eq_true]; exact h'.2
    have := size_le_toks e h'.1 lowestPrec
    have := sizeL_le_toksL (e2 :: rest) hrest
    rw [toksL_cons2]
    simp only [sizeL] at this ⊢
    simp; omega
end

/-- The parser model, with the fuel fixed by `parseX`, returns `norm e` on the printed tokens. -/
theorem parseX_toks {e : XExpr} (h : wf e = true) :
    parseX (toks e lowestPrec) = .ok (norm e lowestPrec) := by
  have hsz := size_le_toks e h lowestPrec
  have hm := (main e h).e [] rfl (fuelFor (toks e lowestPrec)) (by
    simp only [fuelFor, cost]; omega)
  simp only [List.append_nil] at hm
  simp [parseX, hm]

/-! ## Removing parentheses; trees without parentheses -/

mutual
/-- `e` without any `paren` node. -/
def deparen : XExpr → XExpr
  | .paren x => deparen x
  | .binary op x y => .binary op (deparen x) (deparen y)
  | .unary op x => .unary op (deparen x)
  | .star x => .star (deparen x)
  | .selector x s => .selector (deparen x) s
  | .index x i => .index (deparen x) (deparen i)
  | .slice x lo hi mx s3 => .slice (deparen x) (deparenO lo) (deparenO hi) (deparenO mx) s3
  | .call f args ell cmd => .call (deparen f) (deparenL args) ell cmd
  | .composite ty elts => .composite (deparenO ty) (deparenL elts)
  | .kv k v => .kv (deparen k) (deparen v)
  | .sliceLit elts => .sliceLit (deparenL elts)
  | .lambda lhs lp rhs rp => .lambda lhs lp (deparenL rhs) rp
  | .errWrap x tok d => .errWrap (deparen x) tok (deparenO d)
  | .typeAssert x ty => .typeAssert (deparen x) (deparenO ty)
  | .range a b c => .range (deparenO a) (deparenO b) (deparenO c)
  | .tuple items ell => .tuple (deparenL items) ell
  | .ident s => .ident s
  | .lit k v => .lit k v
  | .numUnit k v u => .numUnit k v u
  | .env s b => .env s b
  | .bad => .bad
def deparenL : List XExpr → List XExpr
  | [] => []
  | e :: r => deparen e :: deparenL r
def deparenO : Option XExpr → Option XExpr
  | none => none
  | some e => some (deparen e)
end

mutual
/-- No `paren` node anywhere ("synthesized tree without explicit parentheses"). -/
def noParen : XExpr → Bool
  | .paren _ => false
  | .binary _ x y => noParen x && noParen y
  | .unary _ x => noParen x
  | .star x => noParen x
  | .selector x _ => noParen x
  | .index x i => noParen x && noParen i
  | .slice x lo hi mx _ => noParen x && noParenO lo && noParenO hi && noParenO mx
  | .call f args _ _ => noParen f && noParenL args
  | .composite ty elts => noParenO ty && noParenL elts
  | .kv k v => noParen k && noParen v
  | .sliceLit elts => noParenL elts
  | .lambda _ _ rhs _ => noParenL rhs
  | .errWrap x _ d => noParen x && noParenO d
  | .typeAssert x ty => noParen x && noParenO ty
  | .range a b c => noParenO a && noParenO b && noParenO c
  | .tuple items _ => noParenL items
  | _ => true
def noParenL : List XExpr → Bool
  | [] => true
  | e :: r => noParen e && noParenL r
def noParenO : Option XExpr → Bool
  | none => true
  | some e => noParen e
end

theorem deparen_wrapP (b : Bool) (e : XExpr) : deparen (wrapP b e) = deparen e := by
  cases b <;> simp [wrapP, deparen]

mutual
/-- The parentheses the printer inserts are the only difference between `norm e` and `e`. -/
theorem deparen_norm : ∀ (e : XExpr), wf e = true → noParen e = true → ∀ p, deparen (norm e p) = e
  | .ident _, _, _, _ => by simp [norm, deparen]
  | .lit _ _, _, _, _ => by simp [norm, deparen]
  | .numUnit _ _ _, _, _, _ => by simp [norm, deparen]
  | .env _ _, _, _, _ => by simp [norm, deparen]
  | .binary op x y, h, hn, p => by
    have h' := h
    simp only [wf, Bool.and_eq_true] at h'
    have hn' : noParen x = true ∧ noParen y = true := by simpa [noParen] using hn
    simp [norm, deparen_wrapP, deparen, deparen_norm x h'.1.2 hn'.1, deparen_norm y h'.2 hn'.2]
  | .unary op x, h, hn, p => by
    have h' := h
    simp only [wf, Bool.and_eq_true] at h'
    have hn' : noParen x = true := by simpa [noParen] using hn
    simp [norm, deparen_wrapP, deparen, deparen_norm x h'.2 hn']
  | .star x, h, hn, p => by
    have hx : wf x = true := by simpa [wf] using h
    have hn' : noParen x = true := by simpa [noParen] using hn
    simp [norm, deparen_wrapP, deparen, deparen_norm x hx hn']
  | .paren x, _, hn, _ => by simp [noParen] at hn
  | .selector x s, h, hn, p => by
    have hx : wf x = true := by simpa [wf] using h
    have hn' : noParen x = true := by simpa [noParen] using hn
    simp [norm, deparen, deparen_norm x hx hn']
  | .index x i, h, hn, p => by
    have h' : wf x = true ∧ wf i = true := by simpa [wf] using h
    have hn' : noParen x = true ∧ noParen i = true := by simpa [noParen] using hn
    simp [norm, deparen, deparen_norm x h'.1 hn'.1, deparen_norm i h'.2 hn'.2]
  | .call f args ell cmd, h, hn, p => by
    have h' := h
    simp only [wf, Bool.and_eq_true, Bool.not_eq_true'] at h'
    obtain ⟨⟨⟨_, hf⟩, hargs⟩, _⟩ := h'
    have hn' : noParen f = true ∧ noParenL args = true := by simpa [noParen] using hn
    simp [norm, deparen, deparen_norm f hf hn'.1, deparenL_normL args hargs hn'.2]
  | .errWrap x tok none, h, hn, p => by
    have hn' : noParen x = true := by simpa [noParen, noParenO] using hn
    simp [norm, deparen, deparenO, deparen_norm x (wf_errWrap_none h).2 hn']
  | .errWrap x tok (some d), h, hn, p => by
    obtain ⟨_, hx, hd⟩ := wf_errWrap_some h
    have hn' : noParen x = true ∧ noParen d = true := by simpa [noParen, noParenO] using hn
    simp [norm, deparen_wrapP, deparen, deparenO, deparen_norm x hx hn'.1, deparen_norm d hd hn'.2]
  | .slice .., h, _, _ => by simp [wf] at h
  | .composite .., h, _, _ => by simp [wf] at h
  | .kv .., h, _, _ => by simp [wf] at h
  | .sliceLit .., h, _, _ => by simp [wf] at h
  | .typeAssert x ty, h, hn, p => by
    have hx : wf x = true := by
      cases ty with
      | none => simpa [wf] using h
      | some t => cases t <;> simp [wf] at h; exact h
    cases ty with
    | none =>
      have hn' : noParen x = true := by simpa [noParen, noParenO] using hn
      simp [norm, deparen, deparenO, deparen_norm x hx hn']
    | some t =>
      cases t <;> simp [wf] at h
      have hn' : noParen x = true := by simpa [noParen, noParenO] using hn
      simp [norm, deparen, deparenO, deparen_norm x hx hn']
  | .lambda lhs lp rhs rp, h, hn, p => by
    have h' := h
    simp only [wf, Bool.and_eq_true, Bool.or_eq_true, decide_eq_true_eq] at h'
    obtain ⟨_, hr⟩ := h'
    have hn' : noParenL rhs = true := by simpa [noParen] using hn
    simp only [norm, deparen_wrapP, deparen]
    cases rp with
    | true =>
      simp only [if_true, Bool.and_eq_true] at hr ⊢
      rw [deparenL_normL rhs hr.2 hn']
    | false =>
      simp only [Bool.false_eq_true, if_false] at hr ⊢
      cases rhs with
      | nil => simp [wfB] at hr
      | cons b rest =>
        cases rest with
        | cons b2 r2 => simp [wfB] at hr
        | nil =>
          simp only [wfB, Bool.and_eq_true] at hr
          have hwfL : wfL [b] = true := by simp [wfL, hr.1]
          have e1 : deparen (norm b lowestPrec) = b := by
            have := deparenL_normL [b] hwfL hn'
            simpa [normL, deparenL] using this
          simp [normB, deparenL, e1]
  | .range .., h, _, _ => by simp [wf] at h
  | .tuple .., h, _, _ => by simp [wf] at h
  | .bad, h, _, _ => by simp [wf] at h
theorem deparenL_normL : ∀ (l : List XExpr), wfL l = true → noParenL l = true →
    deparenL (normL l) = l
  | [], _, _ => by simp [normL, deparenL]
  | e :: r, h, hn => by
    have h' := h
    simp only [wfL, Bool.and_eq_true] at h'
    have hn' : noParen e = true ∧ noParenL r = true := by simpa [noParenL] using hn
    simp [normL, deparenL, deparen_norm e h'.1 hn'.1, deparenL_normL r h'.2 hn'.2]
end

/-! ## Parser-shaped trees -/

mutual
/-- `e` carries an explicit `paren` node wherever a context of precedence `p` needs one, and no
directly nested parentheses: the shape of the trees the parser returns. -/
def shaped : XExpr → Nat → Bool
  | .binary op x y, p => decide (p ≤ prec op) && shaped x (prec op) && shaped y (prec op + 1)
  | .unary _ x, p => decide (p ≤ unaryPrec) && shaped x unaryPrec
  | .star x, p => decide (p ≤ unaryPrec) && shaped x unaryPrec
  | .paren x, _ => !isParenNode x && shaped x lowestPrec
  | .selector x _, _ => shaped x highestPrec
  | .index x i, _ => shaped x highestPrec && shaped i lowestPrec
  | .call f args _ _, _ => shaped f highestPrec && shapedL args
  | .errWrap x _ none, _ => shaped x highestPrec
  | .errWrap x _ (some d), p => decide (p ≤ unaryPrec) && shaped x highestPrec && shaped d unaryPrec
  | .typeAssert x _, _ => shaped x highestPrec
  | .lambda _ _ rhs rp, p => decide (p ≤ lowestPrec) && (if rp then shapedL rhs else shapedB rhs)
  | _, _ => true
def shapedL : List XExpr → Bool
  | [] => true
  | e :: r => shaped e lowestPrec && shapedL r
def shapedB : List XExpr → Bool
  | [b] => shaped b lowestPrec
  | _ => true
end

mutual
/-- On a parser-shaped tree the printer adds nothing: `norm e = e`. -/
theorem norm_shaped : ∀ (e : XExpr) (p : Nat), shaped e p = true → norm e p = e
  | .binary op x y, p, h => by
    have h' := h
    simp only [shaped, Bool.and_eq_true, decide_eq_true_eq] at h'
    simp [norm, wrapP, Nat.not_lt.mpr h'.1.1, norm_shaped x _ h'.1.2, norm_shaped y _ h'.2]
  | .unary op x, p, h => by
    have h' := h
    simp only [shaped, Bool.and_eq_true, decide_eq_true_eq] at h'
    simp [norm, wrapP, Nat.not_lt.mpr h'.1, norm_shaped x _ h'.2]
  | .star x, p, h => by
    have h' := h
    simp only [shaped, Bool.and_eq_true, decide_eq_true_eq] at h'
    simp [norm, wrapP, Nat.not_lt.mpr h'.1, norm_shaped x _ h'.2]
  | .paren x, p, h => by
    have h' := h
    simp only [shaped, Bool.and_eq_true, Bool.not_eq_true'] at h'
    simp [norm, h'.1, norm_shaped x _ h'.2]
  | .selector x s, p, h => by
    have h' : shaped x highestPrec = true := by simpa [shaped] using h
    simp [norm, norm_shaped x _ h']
  | .index x i, p, h => by
    have h' : shaped x highestPrec = true ∧ shaped i lowestPrec = true := by simpa [shaped] using h
    simp [norm, norm_shaped x _ h'.1, norm_shaped i _ h'.2]
  | .call f args ell cmd, p, h => by
    have h' : shaped f highestPrec = true ∧ shapedL args = true := by simpa [shaped] using h
    simp [norm, norm_shaped f _ h'.1, normL_shaped args h'.2]
  | .errWrap x tok none, p, h => by
    have h' : shaped x highestPrec = true := by simpa [shaped] using h
    simp [norm, norm_shaped x _ h']
  | .errWrap x tok (some d), p, h => by
    have h' := h
    simp only [shaped, Bool.and_eq_true, decide_eq_true_eq] at h'
    simp [norm, wrapP, Nat.not_lt.mpr h'.1.1, norm_shaped x _ h'.1.2, norm_shaped d _ h'.2]
  | .ident _, _, _ => by simp [norm]
  | .lit _ _, _, _ => by simp [norm]
  | .numUnit _ _ _, _, _ => by simp [norm]
  | .env _ _, _, _ => by simp [norm]
  | .slice .., _, _ => by simp [norm]
  | .composite .., _, _ => by simp [norm]
  | .kv .., _, _ => by simp [norm]
  | .sliceLit .., _, _ => by simp [norm]
  | .typeAssert x ty, p, h => by
    have h' : shaped x highestPrec = true := by simpa [shaped] using h
    simp [norm, norm_shaped x _ h']
  | .lambda lhs lp rhs rp, p, h => by
    have h' := h
    simp only [shaped, Bool.and_eq_true, decide_eq_true_eq] at h'
    simp only [norm, wrapP, Nat.not_lt.mpr h'.1, decide_false, Bool.false_eq_true, if_false]
    cases rp with
    | true =>
      simp only [if_true] at h' ⊢
      rw [normL_shaped rhs h'.2]
    | false =>
      simp only [Bool.false_eq_true, if_false] at h' ⊢
      cases rhs with
      | nil => rfl
      | cons b rest =>
        cases rest with
        | cons b2 r2 => rfl
        | nil =>
          have hb : shapedL [b] = true := by
            have := h'.2
            simp only [shapedB] at this
            simp [shapedL, this]
          have e1 : norm b lowestPrec = b := by
            have := normL_shaped [b] hb
            simpa [normL] using this
          simp [normB, e1]
  | .range .., _, _ => by simp [norm]
  | .tuple .., _, _ => by simp [norm]
  | .bad, _, _ => by simp [norm]
theorem normL_shaped : ∀ (l : List XExpr), shapedL l = true → normL l = l
  | [], _ => by simp [normL]
  | e :: r, h => by
    have h' : shaped e lowestPrec = true ∧ shapedL r = true := by simpa [shapedL] using h
    simp [normL, norm_shaped e _ h'.1, normL_shaped r h'.2]
end

end GopModel.ExprSyntax
