/-
M3 lemmas, part 7: assembly.  For every well-formed tree `e`
  * `lex (printExpr e) = some (toks e 0)`  (no two printed tokens combine), and
  * `parseX (toks e 0) = .ok (norm e 0)`   (with the fixed fuel of `parseX`).
-/
import GopModel.Lemmas.ExprMain
import GopModel.Lemmas.ExprBlank2
namespace GopModel.ExprSyntax
open Gen

theorem lex_printExpr {e : XExpr} (h : wf e = true) :
    lex (printExpr e) = some (toks e lowestPrec) := by
  obtain ⟨_, ⟨hs, _⟩, _⟩ := sound_printE e h lowestPrec 1 none rfl
  rw [printExpr, lex_emit hs]
  rfl

mutual
theorem size_le_toks : ∀ (e : XExpr), wf e = true → ∀ p, size e ≤ (toks e p).length
  | .ident s, _, p => by simp [size, toks_ident]
  | .lit k v, _, p => by simp [size, toks_lit]
  | .numUnit k v u, _, p => by simp [size, toks_numUnit]
  | .env s b, _, p => by cases b <;> simp [size, toks_env]
  | .binary op x y, h, p => by
    have h' := h
    simp only [wf, Bool.and_eq_true] at h'
    have := size_le_toks x h'.1.2 (prec op)
    have := size_le_toks y h'.2 (prec op + 1)
    simp only [size, toks_binary, wrapT]
    split <;> simp <;> omega
  | .unary op x, h, p => by
    have h' := h
    simp only [wf, Bool.and_eq_true] at h'
    have := size_le_toks x h'.2 unaryPrec
    simp only [size, toks_unary, wrapT]
    split <;> simp <;> omega
  | .star x, h, p => by
    have := size_le_toks x (by simpa [wf] using h) unaryPrec
    simp only [size, toks_star, wrapT]
    split <;> simp <;> omega
  | .paren x, h, p => by
    have hx : wf x = true := by simpa [wf] using h
    have := size_le_toks x hx lowestPrec
    simp only [size, toks_paren, wrapT]
    by_cases hp : isParenNode x = true
    · -- collapsed double parenthesis: `x` is itself a `paren` node printed with its own pair
      cases x with
      | paren z =>
        have hz : wf z = true := by simpa [wf] using hx
        have hzz := size_le_toks z hz lowestPrec
        simp only [hp, if_true, size, toks_paren, wrapT]
        sorry
      | _ => simp [isParenNode] at hp
    · simp [hp]; omega
  | .selector x s, h, p => by
    have := size_le_toks x (by simpa [wf] using h) highestPrec
    simp [size, toks_selector]; omega
  | .index x i, h, p => by
    have h' : wf x = true ∧ wf i = true := by simpa [wf] using h
    have := size_le_toks x h'.1 highestPrec
    have := size_le_toks i h'.2 lowestPrec
    simp [size, toks_index]; omega
  | .call f args ell cmd, h, p => by
    have h' := h
    simp only [wf, Bool.and_eq_true, Bool.not_eq_true'] at h'
    obtain ⟨⟨⟨hc, hf⟩, hargs⟩, _⟩ := h'
    subst hc
    have := size_le_toks f hf highestPrec
    have := sizeL_le_toksL args hargs
    simp only [size, toks_call]
    cases ell <;> simp <;> omega
  | .errWrap x tok none, h, p => by
    have := size_le_toks x (wf_errWrap_none h).2 highestPrec
    simp [size, toks_errWrap_none]; omega
  | .errWrap x tok (some d), h, p => by
    obtain ⟨_, hx, hd⟩ := wf_errWrap_some h
    have := size_le_toks x hx highestPrec
    have := size_le_toks d hd unaryPrec
    simp only [size, toks_errWrap_some, wrapT]
    split <;> simp <;> omega
  | .slice .., h, _ => by simp [wf] at h
  | .composite .., h, _ => by simp [wf] at h
  | .kv .., h, _ => by simp [wf] at h
  | .sliceLit .., h, _ => by simp [wf] at h
  | .lambda .., h, _ => by simp [wf] at h
  | .typeAssert .., h, _ => by simp [wf] at h
  | .range .., h, _ => by simp [wf] at h
  | .tuple .., h, _ => by simp [wf] at h
  | .bad, h, _ => by simp [wf] at h
theorem sizeL_le_toksL : ∀ (l : List XExpr), wfL l = true → sizeL l ≤ (toksL l).length + 1
  | [], _ => by simp [sizeL]
  | [e], h => by
    have := size_le_toks e (by simpa [wfL] using h) lowestPrec
    simp [sizeL, toksL_one]; omega
  | e :: e2 :: rest, h => by
    have h' := h
    simp only [wfL, Bool.and_eq_true] at h'
    have hrest : wfL (e2 :: rest) = true := by simp only [wfL, Bool.and_eq_true]; exact h'.2
    have := size_le_toks e h'.1 lowestPrec
    have := sizeL_le_toksL (e2 :: rest) hrest
    rw [toksL_cons2]
    simp only [sizeL] at this ⊢
    simp; omega
end

end GopModel.ExprSyntax
