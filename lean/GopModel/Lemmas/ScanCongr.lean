/-
Lemmas for M1, part 8 (for C16): the sub-scanners neither read nor write `nParen` and
`insertSemi` — two states that agree on everything else (`Same`) are mapped to such states, with
equal results.
-/
import GopModel.Lemmas.ScanRun
namespace GopModel.Scan

variable {src : Array UInt8}

/-- the part of the state the sub-scanners work on -/
def core (st : St) : St := { st with nParen := 0, insertSemi := false }

/-- equal up to `nParen` and `insertSemi` -/
def Same (a b : St) : Prop := core a = core b

namespace Same
variable {a b c : St}
theorem rfl' (a : St) : Same a a := Eq.refl _
theorem symm (h : Same a b) : Same b a := Eq.symm h
theorem trans (h1 : Same a b) (h2 : Same b c) : Same a c := Eq.trans h1 h2
theorem ch (h : Same a b) : a.ch = b.ch := by
  have : (core a).ch = (core b).ch := by rw [show core a = core b from h]
  exact this
theorem off (h : Same a b) : a.off = b.off := by
  have : (core a).off = (core b).off := by rw [show core a = core b from h]
  exact this
theorem rdOff (h : Same a b) : a.rdOff = b.rdOff := by
  have : (core a).rdOff = (core b).rdOff := by rw [show core a = core b from h]
  exact this
theorem lineOff (h : Same a b) : a.lineOff = b.lineOff := by
  have : (core a).lineOff = (core b).lineOff := by rw [show core a = core b from h]
  exact this
theorem unitVal (h : Same a b) : a.unitVal = b.unitVal := by
  have : (core a).unitVal = (core b).unitVal := by rw [show core a = core b from h]
  exact this
theorem nlPos (h : Same a b) : a.nlPos = b.nlPos := by
  have : (core a).nlPos = (core b).nlPos := by rw [show core a = core b from h]
  exact this
theorem errs (h : Same a b) : a.errs = b.errs := by
  have : (core a).errs = (core b).errs := by rw [show core a = core b from h]
  exact this
theorem fail (h : Same a b) : a.fail = b.fail := by
  have : (core a).fail = (core b).fail := by rw [show core a = core b from h]
  exact this
theorem mk' (h1 : a.ch = b.ch) (h2 : a.off = b.off) (h3 : a.rdOff = b.rdOff) (h4 : a.lineOff = b.lineOff)
    (h5 : a.unitVal = b.unitVal) (h6 : a.nlPos = b.nlPos) (h7 : a.errs = b.errs) (h8 : a.fail = b.fail) : Same a b := by
  cases a; cases b
  simp only [Same, core] at *
  simp [h1, h2, h3, h4, h5, h6, h7, h8]
/-- changing the two flags does not matter -/
theorem flags (a : St) (p : Int) (s : Bool) : Same a { a with nParen := p, insertSemi := s } := by
  cases a; rfl
theorem semi (a : St) (s : Bool) : Same a { a with insertSemi := s } := by cases a; rfl
theorem paren (a : St) (p : Int) : Same a { a with nParen := p } := by cases a; rfl
end Same

theorem Same.error {a b : St} (h : Same a b) (o : Nat) (m : Msg) : Same (a.error o m) (b.error o m) :=
  Same.mk' h.ch h.off h.rdOff h.lineOff h.unitVal h.nlPos (by simp [St.error, h.errs]) h.fail

theorem Same.setFail {a b : St} (h : Same a b) (f : Fail) : Same (a.setFail f) (b.setFail f) := by
  unfold St.setFail
  rw [h.fail]
  split
  · exact Same.mk' h.ch h.off h.rdOff h.lineOff h.unitVal h.nlPos h.errs rfl
  · exact h

theorem Same.next {a b : St} (h : Same a b) : Same (next src a) (next src b) := by
  apply Same.mk'
  · rw [next_ch, next_ch, h.rdOff]
  · rw [next_off, next_off, h.rdOff]
  · rw [next_rdOff, next_rdOff, h.rdOff]
  · unfold GopModel.Scan.next
    rw [h.rdOff, h.ch, h.lineOff]
    simp only []
    repeat' split
    all_goals rfl
  · simp [h.unitVal]
  · simp [h.nlPos]
  · unfold GopModel.Scan.next
    rw [h.rdOff, h.errs]
    simp only []
    repeat' split
    all_goals rfl
  · simp [h.fail]

theorem Same.sliceP {a b : St} (h : Same a b) (x y : Nat) :
    Same (sliceP src a x y).1 (sliceP src b x y).1 ∧ (sliceP src a x y).2 = (sliceP src b x y).2 := by
  unfold GopModel.Scan.sliceP
  split
  · exact ⟨h, rfl⟩
  · exact ⟨h.setFail _, rfl⟩

theorem Same.skipWs : ∀ (fuel : Nat) {a b : St}, Same a b → a.insertSemi = b.insertSemi →
    Same (skipWs src fuel a) (skipWs src fuel b) := by
  intro fuel
  induction fuel with
  | zero => intro a b h _; simp only [GopModel.Scan.skipWs]; exact h.setFail _
  | succ f ih =>
    intro a b h hs
    simp only [GopModel.Scan.skipWs]
    rw [h.ch, hs]
    split
    · exact ih h.next (by simp [hs])
    · exact h

theorem Same.identLoop (U : UCls) : ∀ (fuel : Nat) {a b : St}, Same a b →
    Same (identLoop U src fuel a) (identLoop U src fuel b) := by
  intro fuel
  induction fuel with
  | zero => intro a b h; simp only [GopModel.Scan.identLoop]; exact h.setFail _
  | succ f ih =>
    intro a b h
    simp only [GopModel.Scan.identLoop]
    rw [h.ch]
    split
    · exact ih h.next
    · exact h

theorem Same.scanIdentifier (U : UCls) (fuel : Nat) {a b : St} (h : Same a b) :
    Same (scanIdentifier U src fuel a).1 (scanIdentifier U src fuel b).1 ∧
      (scanIdentifier U src fuel a).2 = (scanIdentifier U src fuel b).2 := by
  unfold GopModel.Scan.scanIdentifier
  simp only []
  have h1 := Same.identLoop (src := src) U fuel h
  rw [h.off, h1.off]
  exact h1.sliceP _ _

/-! ### numbers -/

/-- number states that agree up to the two flags -/
structure SameNS (x y : NS) : Prop where
  st : Same x.st y.st
  tok : x.tok = y.tok
  base : x.base = y.base
  pfx : x.pfx = y.pfx
  invalid : x.invalid = y.invalid
  hasDig : x.hasDig = y.hasDig
  hasSep : x.hasSep = y.hasSep

theorem SameNS.elim {x y : NS} (h : SameNS x y) : ∃ s' : St, Same x.st s' ∧ y = { x with st := s' } := by
  obtain ⟨sx, a1, a2, a3, a4, a5, a6⟩ := x
  obtain ⟨sy, b1, b2, b3, b4, b5, b6⟩ := y
  obtain ⟨hst, h1, h2, h3, h4, h5, h6⟩ := h
  simp only at hst h1 h2 h3 h4 h5 h6
  subst h1 h2 h3 h4 h5 h6
  exact ⟨sy, hst, rfl⟩

theorem SameNS.of {x : NS} {s' : St} (h : Same x.st s') : SameNS x { x with st := s' } :=
  ⟨h, rfl, rfl, rfl, rfl, rfl, rfl⟩

theorem SameNS.digits (base : Nat) : ∀ (fuel : Nat) {x y : NS}, SameNS x y →
    SameNS (digits src base fuel x) (digits src base fuel y) := by
  intro fuel
  induction fuel with
  | zero =>
    intro x y h
    obtain ⟨s', hs, rfl⟩ := h.elim
    simp only [GopModel.Scan.digits]
    exact ⟨hs.setFail _, rfl, rfl, rfl, rfl, rfl, rfl⟩
  | succ f ih =>
    intro x y h
    obtain ⟨s', hs, rfl⟩ := h.elim
    simp only [GopModel.Scan.digits]
    rw [← hs.ch]
    split
    · split
      · split
        · exact ih ⟨hs.next, rfl, rfl, rfl, rfl, rfl, rfl⟩
        · exact ih ⟨hs.next, rfl, rfl, rfl, by simp only [hs.off], rfl, rfl⟩
      · exact ⟨hs, rfl, rfl, rfl, rfl, rfl, rfl⟩
    · split
      · split
        · exact ih ⟨hs.next, rfl, rfl, rfl, rfl, rfl, rfl⟩
        · exact ih ⟨hs.next, rfl, rfl, rfl, rfl, rfl, rfl⟩
      · exact ⟨hs, rfl, rfl, rfl, rfl, rfl, rfl⟩

theorem SameNS.numInt (fuel : Nat) {a b : St} (h : Same a b) :
    SameNS (numInt src fuel a) (numInt src fuel b) := by
  unfold GopModel.Scan.numInt
  simp only []
  rw [← h.ch, ← h.next.ch]
  have mk : ∀ (s1 s2 : St) (t : NumKind) (bs : Nat) (p : Pfx) (d : Bool), Same s1 s2 →
      SameNS ⟨s1, t, bs, p, none, d, false⟩ ⟨s2, t, bs, p, none, d, false⟩ :=
    fun _ _ _ _ _ _ hs => ⟨hs, rfl, rfl, rfl, rfl, rfl, rfl⟩
  split
  · split
    · split
      · exact SameNS.digits 16 fuel (mk _ _ _ _ _ _ h.next.next)
      · split
        · exact SameNS.digits 8 fuel (mk _ _ _ _ _ _ h.next.next)
        · split
          · exact SameNS.digits 2 fuel (mk _ _ _ _ _ _ h.next.next)
          · exact SameNS.digits 8 fuel (mk _ _ _ _ _ _ h.next)
    · exact SameNS.digits 10 fuel (mk _ _ _ _ _ _ h)
  · exact mk _ _ _ _ _ _ h

theorem SameNS.noDigits {u v : NS} (huv : SameNS u v) :
    SameNS (if u.hasDig = true then u else { u with st := u.st.error u.st.off (.noDigits (litname u.pfx)) })
           (if v.hasDig = true then v else { v with st := v.st.error v.st.off (.noDigits (litname v.pfx)) }) := by
  obtain ⟨s', hs, rfl⟩ := huv.elim
  simp only []
  split
  · exact ⟨hs, rfl, rfl, rfl, rfl, rfl, rfl⟩
  · refine ⟨?_, rfl, rfl, rfl, rfl, rfl, rfl⟩
    simp only [← hs.off]
    exact hs.error _ _

theorem SameNS.numFrac (fuel : Nat) {x y : NS} (h : SameNS x y) :
    SameNS (numFrac src fuel x) (numFrac src fuel y) := by
  obtain ⟨s', hs, rfl⟩ := h.elim
  unfold GopModel.Scan.numFrac
  simp only []
  rw [← hs.ch]
  split
  · apply SameNS.noDigits
    apply SameNS.digits
    refine ⟨?_, rfl, rfl, rfl, rfl, rfl, rfl⟩
    simp only [← hs.off]
    split
    · exact (hs.error _ _).next
    · exact hs.next
  · exact SameNS.noDigits ⟨hs, rfl, rfl, rfl, rfl, rfl, rfl⟩

theorem SameNS.numExp (fuel : Nat) {x y : NS} (h : SameNS x y) :
    SameNS (numExp src fuel x) (numExp src fuel y) := by
  obtain ⟨s', hs, rfl⟩ := h.elim
  unfold GopModel.Scan.numExp
  simp only []
  rw [← hs.ch, ← hs.off]
  split
  · -- exponent
    have h1 : Same
        (if (x.st.ch = 0x65 ∨ x.st.ch = 0x45) ∧ x.pfx ≠ .none ∧ x.pfx ≠ .zero then x.st.error x.st.off (.expDecimal x.st.ch)
          else if (x.st.ch = 0x70 ∨ x.st.ch = 0x50) ∧ x.pfx ≠ .x then x.st.error x.st.off (.expHex x.st.ch) else x.st)
        (if (x.st.ch = 0x65 ∨ x.st.ch = 0x45) ∧ x.pfx ≠ .none ∧ x.pfx ≠ .zero then s'.error x.st.off (.expDecimal x.st.ch)
          else if (x.st.ch = 0x70 ∨ x.st.ch = 0x50) ∧ x.pfx ≠ .x then s'.error x.st.off (.expHex x.st.ch) else s') := by
      split
      · exact hs.error _ _
      · split
        · exact hs.error _ _
        · exact hs
    generalize (if (x.st.ch = 0x65 ∨ x.st.ch = 0x45) ∧ x.pfx ≠ .none ∧ x.pfx ≠ .zero then x.st.error x.st.off (.expDecimal x.st.ch)
          else if (x.st.ch = 0x70 ∨ x.st.ch = 0x50) ∧ x.pfx ≠ .x then x.st.error x.st.off (.expHex x.st.ch) else x.st) = s1 at h1 ⊢
    generalize (if (x.st.ch = 0x65 ∨ x.st.ch = 0x45) ∧ x.pfx ≠ .none ∧ x.pfx ≠ .zero then s'.error x.st.off (.expDecimal x.st.ch)
          else if (x.st.ch = 0x70 ∨ x.st.ch = 0x50) ∧ x.pfx ≠ .x then s'.error x.st.off (.expHex x.st.ch) else s') = s2 at h1 ⊢
    have h2 := h1.next (src := src)
    generalize next src s1 = t1 at h2 ⊢
    generalize next src s2 = t2 at h2 ⊢
    have h3 : Same (if t1.ch = 0x2B ∨ t1.ch = 0x2D then next src t1 else t1) (if t2.ch = 0x2B ∨ t2.ch = 0x2D then next src t2 else t2) := by
      rw [← h2.ch]; split
      · exact h2.next
      · exact h2
    generalize (if t1.ch = 0x2B ∨ t1.ch = 0x2D then next src t1 else t1) = u1 at h3 ⊢
    generalize (if t2.ch = 0x2B ∨ t2.ch = 0x2D then next src t2 else t2) = u2 at h3 ⊢
    have h4 := SameNS.digits (src := src) 10 fuel
      (x := { x with st := u1, tok := .float, hasDig := false, hasSep := false })
      (y := { x with st := u2, tok := .float, hasDig := false, hasSep := false })
      ⟨h3, rfl, rfl, rfl, rfl, rfl, rfl⟩
    obtain ⟨d', hd', hdeq⟩ := h4.elim
    rw [hdeq]
    refine ⟨?_, rfl, rfl, rfl, rfl, rfl, rfl⟩
    simp only [← hd'.off]
    split
    · exact hd'
    · exact hd'.error _ _
  · split
    · exact ⟨hs.error _ _, rfl, rfl, rfl, rfl, rfl, rfl⟩
    · exact ⟨hs, rfl, rfl, rfl, rfl, rfl, rfl⟩

theorem Same.numInvalidErr {a b : St} (h : Same a b) (offs : Nat) (lit : List UInt8) {x y : NS} (hn : SameNS x y) :
    Same (numInvalidErr a offs lit x) (numInvalidErr b offs lit y) := by
  unfold GopModel.Scan.numInvalidErr
  rw [hn.invalid, hn.tok, hn.pfx]
  split
  · split
    · split
      · split
        · exact h.error _ _
        · exact h.setFail _
      · exact h.setFail _
    · exact h
  · exact h

theorem Same.numSepErr {a b : St} (h : Same a b) (offs : Nat) (lit : List UInt8) {x y : NS} (hn : SameNS x y) :
    Same (numSepErr a offs lit x) (numSepErr b offs lit y) := by
  unfold GopModel.Scan.numSepErr
  rw [hn.hasSep]
  split
  · split
    · exact h.error _ _
    · exact h
  · exact h

theorem SameNS.numFinish (offs : Nat) {x y : NS} (h : SameNS x y) :
    Same (numFinish src offs x).1 (numFinish src offs y).1 ∧ (numFinish src offs x).2 = (numFinish src offs y).2 := by
  unfold GopModel.Scan.numFinish
  simp only []
  rw [h.st.off, h.st.unitVal]
  have hs := h.st.sliceP (src := src) offs (y.st.off - y.st.unitVal.length)
  rw [hs.2]
  refine ⟨?_, by rw [h.tok]⟩
  exact (hs.1.numInvalidErr _ _ h).numSepErr _ _ h


theorem SameNS.numSuffix (d : Dialect) (U : UCls) (fuel : Nat) {x y : NS} (h : SameNS x y) :
    SameNS (Scan.numSuffix d U src fuel x) (Scan.numSuffix d U src fuel y) := by
  obtain ⟨s', hs, rfl⟩ := h.elim
  unfold GopModel.Scan.numSuffix
  simp only []
  rw [← hs.ch]
  split
  · split
    · exact ⟨(Same.next (src := src) hs), rfl, rfl, rfl, rfl, rfl, rfl⟩
    · exact ⟨hs, rfl, rfl, rfl, rfl, rfl, rfl⟩
  · split
    · have hi := Same.scanIdentifier (src := src) U fuel hs
      rw [← hi.2]
      split
      · exact ⟨hi.1, rfl, rfl, rfl, rfl, rfl, rfl⟩
      · split
        · exact ⟨hi.1, rfl, rfl, rfl, rfl, rfl, rfl⟩
        · refine ⟨?_, rfl, rfl, rfl, rfl, rfl, rfl⟩
          exact Same.mk' hi.1.ch hi.1.off hi.1.rdOff hi.1.lineOff rfl hi.1.nlPos hi.1.errs hi.1.fail
    · exact ⟨hs, rfl, rfl, rfl, rfl, rfl, rfl⟩

theorem Same.scanNumber (d : Dialect) (U : UCls) (fuel : Nat) {a b : St} (h : Same a b) :
    Same (Scan.scanNumber d U src fuel a).1 (Scan.scanNumber d U src fuel b).1 ∧
      (Scan.scanNumber d U src fuel a).2 = (Scan.scanNumber d U src fuel b).2 := by
  unfold GopModel.Scan.scanNumber
  rw [h.off]
  exact (((SameNS.numInt fuel h).numFrac fuel).numExp fuel |>.numSuffix d U fuel).numFinish _

/-! ### escapes, strings -/

theorem Same.escDigits (base : Nat) : ∀ (n x : Nat) {a b : St}, Same a b →
    Same (Scan.escDigits src base n x a).1 (Scan.escDigits src base n x b).1 ∧
      (Scan.escDigits src base n x a).2 = (Scan.escDigits src base n x b).2 := by
  intro n
  induction n with
  | zero => intro x a b h; simp only [GopModel.Scan.escDigits]; exact ⟨h, by first | rfl | trivial⟩
  | succ n ih =>
    intro x a b h
    simp only [GopModel.Scan.escDigits]
    rw [← h.ch, ← h.off]
    split
    · exact ⟨h.error _ _, rfl⟩
    · exact ih _ (Same.next (src := src) h)

theorem Same.escFinish (offs max : Nat) {r1 r2 : St × Option Nat} (h : Same r1.1 r2.1) (h2 : r1.2 = r2.2) :
    Same (Scan.escFinish offs max r1).1 (Scan.escFinish offs max r2).1 ∧ (Scan.escFinish offs max r1).2 = (Scan.escFinish offs max r2).2 := by
  unfold GopModel.Scan.escFinish
  rw [← h2]
  split
  · exact ⟨h, by first | rfl | trivial⟩
  · split
    · exact ⟨h.error _ _, rfl⟩
    · exact ⟨h, by first | rfl | trivial⟩

theorem Same.scanEscape (quote : Nat) {a b : St} (h : Same a b) :
    Same (Scan.scanEscape src quote a).1 (Scan.scanEscape src quote b).1 ∧
      (Scan.scanEscape src quote a).2 = (Scan.scanEscape src quote b).2 := by
  unfold GopModel.Scan.scanEscape
  simp only []
  rw [← h.ch, ← h.off]
  split
  · exact ⟨(Same.next (src := src) h), rfl⟩
  · split
    · have := Same.escDigits (src := src) 8 3 0 h
      exact Same.escFinish _ _ this.1 this.2
    · split
      · have := Same.escDigits (src := src) 16 2 0 (Same.next (src := src) h)
        exact Same.escFinish _ _ this.1 this.2
      · split
        · have := Same.escDigits (src := src) 16 4 0 (Same.next (src := src) h)
          exact Same.escFinish _ _ this.1 this.2
        · split
          · have := Same.escDigits (src := src) 16 8 0 (Same.next (src := src) h)
            exact Same.escFinish _ _ this.1 this.2
          · exact ⟨h.error _ _, rfl⟩

theorem Same.runeLoop (offs : Nat) : ∀ (fuel : Nat) {a b : St} (v : Bool) (n : Nat), Same a b →
    Same (Scan.runeLoop src offs fuel a v n).1 (Scan.runeLoop src offs fuel b v n).1 ∧
      (Scan.runeLoop src offs fuel a v n).2 = (Scan.runeLoop src offs fuel b v n).2 := by
  intro fuel
  induction fuel with
  | zero => intro a b v n h; simp only [GopModel.Scan.runeLoop]; exact ⟨h.setFail _, by first | rfl | trivial⟩
  | succ f ih =>
    intro a b v n h
    simp only [GopModel.Scan.runeLoop]
    rw [← h.ch]
    split
    · refine ⟨?_, rfl⟩
      split
      · exact h.error _ _
      · exact h
    · split
      · exact ⟨(Same.next (src := src) h), rfl⟩
      · split
        · have he := Same.scanEscape (src := src) 0x27 (Same.next (src := src) h)
          rw [← he.2]
          exact ih _ _ he.1
        · exact ih _ _ (Same.next (src := src) h)

theorem Same.scanRune (fuel : Nat) {a b : St} (h : Same a b) :
    Same (Scan.scanRune src fuel a).1 (Scan.scanRune src fuel b).1 ∧ (Scan.scanRune src fuel a).2 = (Scan.scanRune src fuel b).2 := by
  unfold GopModel.Scan.scanRune
  simp only []
  rw [← h.off]
  have hl := Same.runeLoop (src := src) (a.off - 1) fuel true 0 h
  rw [← hl.2]
  have h1 : Same (if (Scan.runeLoop src (a.off - 1) fuel a true 0).2.1 = true ∧ (Scan.runeLoop src (a.off - 1) fuel a true 0).2.2 ≠ 1
      then (Scan.runeLoop src (a.off - 1) fuel a true 0).1.error (a.off - 1) .illegalRune else (Scan.runeLoop src (a.off - 1) fuel a true 0).1)
      (if (Scan.runeLoop src (a.off - 1) fuel a true 0).2.1 = true ∧ (Scan.runeLoop src (a.off - 1) fuel a true 0).2.2 ≠ 1
      then (Scan.runeLoop src (a.off - 1) fuel b true 0).1.error (a.off - 1) .illegalRune else (Scan.runeLoop src (a.off - 1) fuel b true 0).1) := by
    split
    · exact hl.1.error _ _
    · exact hl.1
  rw [← h1.off]
  exact h1.sliceP _ _

theorem Same.stringLoop (offs : Nat) : ∀ (fuel : Nat) {a b : St}, Same a b →
    Same (Scan.stringLoop src offs fuel a) (Scan.stringLoop src offs fuel b) := by
  intro fuel
  induction fuel with
  | zero => intro a b h; simp only [GopModel.Scan.stringLoop]; exact h.setFail _
  | succ f ih =>
    intro a b h
    simp only [GopModel.Scan.stringLoop]
    rw [← h.ch]
    split
    · exact h.error _ _
    · split
      · exact (Same.next (src := src) h)
      · split
        · exact ih (Same.scanEscape (src := src) 0x22 (Same.next (src := src) h)).1
        · exact ih (Same.next (src := src) h)

theorem Same.scanString (fuel : Nat) {a b : St} (h : Same a b) :
    Same (Scan.scanString src fuel a).1 (Scan.scanString src fuel b).1 ∧ (Scan.scanString src fuel a).2 = (Scan.scanString src fuel b).2 := by
  unfold GopModel.Scan.scanString
  simp only []
  rw [← h.off]
  have hl := Same.stringLoop (src := src) (a.off - 1) fuel h
  rw [← hl.off]
  exact hl.sliceP _ _

theorem Same.rawStringLoop (offs : Nat) : ∀ (fuel : Nat) {a b : St} (c : Bool), Same a b →
    Same (Scan.rawStringLoop src offs fuel a c).1 (Scan.rawStringLoop src offs fuel b c).1 ∧
      (Scan.rawStringLoop src offs fuel a c).2 = (Scan.rawStringLoop src offs fuel b c).2 := by
  intro fuel
  induction fuel with
  | zero => intro a b c h; simp only [GopModel.Scan.rawStringLoop]; exact ⟨h.setFail _, by first | rfl | trivial⟩
  | succ f ih =>
    intro a b c h
    simp only [GopModel.Scan.rawStringLoop]
    rw [← h.ch]
    split
    · exact ⟨h.error _ _, rfl⟩
    · split
      · exact ⟨(Same.next (src := src) h), rfl⟩
      · exact ih _ (Same.next (src := src) h)

theorem Same.scanRawString (fuel : Nat) {a b : St} (h : Same a b) :
    Same (Scan.scanRawString src fuel a).1 (Scan.scanRawString src fuel b).1 ∧
      (Scan.scanRawString src fuel a).2 = (Scan.scanRawString src fuel b).2 := by
  unfold GopModel.Scan.scanRawString
  simp only []
  rw [← h.off]
  have hl := Same.rawStringLoop (src := src) (a.off - 1) fuel false h
  rw [← hl.2, ← hl.1.off]
  have hs := hl.1.sliceP (src := src) (a.off - 1) (Scan.rawStringLoop src (a.off - 1) fuel a false).1.off
  rw [← hs.2]
  exact ⟨hs.1, rfl⟩

/-! ### comments -/

theorem Same.lineCommentLoop : ∀ (fuel : Nat) {a b : St} (n : Nat), Same a b →
    Same (Scan.lineCommentLoop src fuel a n).1 (Scan.lineCommentLoop src fuel b n).1 ∧
      (Scan.lineCommentLoop src fuel a n).2 = (Scan.lineCommentLoop src fuel b n).2 := by
  intro fuel
  induction fuel with
  | zero => intro a b n h; simp only [GopModel.Scan.lineCommentLoop]; exact ⟨h.setFail _, by first | rfl | trivial⟩
  | succ f ih =>
    intro a b n h
    simp only [GopModel.Scan.lineCommentLoop]
    rw [← h.ch]
    split
    · exact ih _ (Same.next (src := src) h)
    · exact ⟨h, by first | rfl | trivial⟩

/-- results of the general-comment loop that agree up to the flags -/
structure SameBR (x y : BlockRes) : Prop where
  st : Same x.st y.st
  numCR : x.numCR = y.numCR
  nl : x.nlOffset = y.nlOffset
  term : x.terminated = y.terminated

theorem Same.blockCommentLoop : ∀ (fuel : Nat) {a b : St} (c nl : Nat), Same a b →
    SameBR (Scan.blockCommentLoop src fuel a c nl) (Scan.blockCommentLoop src fuel b c nl) := by
  intro fuel
  induction fuel with
  | zero => intro a b c nl h; simp only [GopModel.Scan.blockCommentLoop]; exact ⟨h.setFail _, rfl, rfl, rfl⟩
  | succ f ih =>
    intro a b c nl h
    simp only [GopModel.Scan.blockCommentLoop]
    rw [← h.ch, ← h.off, ← h.next.ch]
    split
    · exact ⟨h, rfl, rfl, rfl⟩
    · split
      · exact ⟨(Same.next (src := src) (Same.next (src := src) h)), rfl, rfl, rfl⟩
      · exact ih _ _ (Same.next (src := src) h)

theorem Same.commentLoops (d : Dialect) (fuel : Nat) {a b : St} (h : Same a b) :
    SameBR (Scan.commentLoops d src fuel a) (Scan.commentLoops d src fuel b) := by
  unfold GopModel.Scan.commentLoops
  simp only []
  rw [← h.ch, ← h.off]
  split
  · have := Same.lineCommentLoop (src := src) fuel 0 (Same.next (src := src) h)
    exact ⟨this.1, by simp only [this.2], rfl, rfl⟩
  · split
    · have := Same.blockCommentLoop (src := src) fuel 0 0 (Same.next (src := src) h)
      rw [← this.term]
      split
      · exact this
      · exact ⟨this.st.error _ _, this.numCR, this.nl, rfl⟩
    · have := Same.lineCommentLoop (src := src) fuel 0 h
      exact ⟨this.1, by simp only [this.2], rfl, rfl⟩

theorem Same.updateLineInfo {a b : St} (h : Same a b) (offs : Nat) (text : List UInt8) :
    Same (Scan.updateLineInfo a offs text) (Scan.updateLineInfo b offs text) := by
  unfold GopModel.Scan.updateLineInfo
  simp only []
  repeat' split
  all_goals first | exact h | exact h.setFail _ | exact h.error _ _

theorem Same.commentDirective (d : Dialect) {a b : St} (h : Same a b) (offs : Nat) (lit : List UInt8) (t : Bool) :
    Same (Scan.commentDirective d a offs lit t) (Scan.commentDirective d b offs lit t) := by
  unfold GopModel.Scan.commentDirective
  rw [← h.lineOff]
  repeat' split
  all_goals first | exact h | exact h.setFail _ | exact h.updateLineInfo _ _

theorem Same.commentStripCR {a b : St} (h : Same a b) (n : Nat) (lit : List UInt8) (nl : Nat) :
    Same (Scan.commentStripCR a n lit nl).st (Scan.commentStripCR b n lit nl).st ∧
      (Scan.commentStripCR a n lit nl).lit = (Scan.commentStripCR b n lit nl).lit ∧
      (Scan.commentStripCR a n lit nl).nlOffset = (Scan.commentStripCR b n lit nl).nlOffset := by
  unfold GopModel.Scan.commentStripCR
  repeat' split
  all_goals first | exact ⟨h, rfl, rfl⟩ | exact ⟨h.setFail _, rfl, rfl⟩

theorem Same.scanCommentXG (d : Dialect) (fuel : Nat) {a b : St} (h : Same a b) :
    Same (Scan.scanCommentXG d src fuel a).st (Scan.scanCommentXG d src fuel b).st ∧
      (Scan.scanCommentXG d src fuel a).lit = (Scan.scanCommentXG d src fuel b).lit ∧
      (Scan.scanCommentXG d src fuel a).nlOffset = (Scan.scanCommentXG d src fuel b).nlOffset := by
  unfold GopModel.Scan.scanCommentXG
  rw [← h.off]
  split
  · exact ⟨h.setFail _, rfl, rfl⟩
  · simp only []
    have hl := Same.commentLoops (src := src) d fuel h
    rw [← hl.numCR, ← hl.nl, ← hl.term, ← hl.st.off]
    have hs := hl.st.sliceP (src := src) (a.off - 1) (Scan.commentLoops d src fuel a).st.off
    rw [← hs.2]
    exact (hs.1.commentDirective d _ _ _).commentStripCR _ _ _

theorem Same.walk : ∀ (t : Trie) {a b : St}, Same a b →
    Same (Scan.walk src t a).1 (Scan.walk src t b).1 ∧ (Scan.walk src t a).2 = (Scan.walk src t b).2
  | .leaf _ _ _, a, b, h => by simp only [GopModel.Scan.walk]; exact ⟨h, by first | rfl | trivial⟩
  | .test c y n, a, b, h => by
    simp only [GopModel.Scan.walk]
    rw [← h.ch]
    split
    · exact Same.walk y (Same.next (src := src) h)
    · exact Same.walk n h

end GopModel.Scan
