/-
Helper lemmas about the TPL parser model (Model/TplParse.lean): fuel monotonicity, fuel
adequacy with progress, and the error/well-formedness invariant.  Used by Props/C31, Props/C27.
-/
import GopModel.Model.TplParse
namespace GopModel.Tpl

/-! ## 1. More fuel never changes a result -/

theorem mono_step : ∀ n,
    (∀ s r, pFactor n s = some r → pFactor (n+1) s = some r) ∧
    (∀ x s r, pTerm2Loop n x s = some r → pTerm2Loop (n+1) x s = some r) ∧
    (∀ s r, pTerm2 n s = some r → pTerm2 (n+1) s = some r) ∧
    (∀ x s r, pTermLoop n x s = some r → pTermLoop (n+1) x s = some r) ∧
    (∀ s r, pTerm n s = some r → pTerm (n+1) s = some r) ∧
    (∀ acc s r, pTermsLoop n acc s = some r → pTermsLoop (n+1) acc s = some r) ∧
    (∀ s r, pTermList n s = some r → pTermList (n+1) s = some r) ∧
    (∀ acc s r, pOptsLoop n acc s = some r → pOptsLoop (n+1) acc s = some r) ∧
    (∀ s r, pExpr n s = some r → pExpr (n+1) s = some r) := by
  intro n
  induction n with
  | zero => simp [pFactor, pTerm2Loop, pTerm2, pTermLoop, pTerm, pTermsLoop, pTermList, pOptsLoop, pExpr]
  | succ n ih =>
    obtain ⟨ihF, ihT2L, ihT2, ihTL, ihT, ihTsL, ihTList, ihOL, ihE⟩ := ih
    refine ⟨?_, ?_, ?_, ?_, ?_, ?_, ?_, ?_, ?_⟩
    · intro s r h
      rw [pFactor] at h ⊢
      by_cases h1 : s.tok = T.IDENT
      · rw [if_pos h1] at h ⊢; exact h
      · rw [if_neg h1] at h ⊢
        by_cases h2 : (decide (s.tok = T.CHAR) || decide (s.tok = T.STRING)) = true
        · rw [if_pos h2] at h ⊢; exact h
        · rw [if_neg h2] at h ⊢
          by_cases h3 : isUnaryOp s.tok = true
          · rw [if_pos h3] at h ⊢
            cases hq : pFactor n s.next with
            | none => simp [hq] at h
            | some v =>
              simp only [hq] at h
              simp only [ihF _ _ hq]
              exact h
          · rw [if_neg h3] at h ⊢
            by_cases h4 : s.tok = T.LPAREN
            · rw [if_pos h4] at h ⊢
              cases hq : pExpr n s.next with
              | none => simp [hq] at h
              | some v =>
                simp only [hq] at h
                simp only [ihE _ _ hq]
                exact h
            · rw [if_neg h4] at h ⊢; exact h
    · intro x s r h
      rw [pTerm2Loop] at h ⊢
      by_cases h1 : s.tok = T.INC
      · rw [if_pos h1] at h ⊢
        cases hq : pFactor n s.next with
        | none => simp [hq] at h
        | some v =>
          simp only [hq] at h
          simp only [ihF _ _ hq]
          obtain ⟨o, s1⟩ := v
          cases o with
          | none => exact h
          | some y => exact ihT2L _ _ _ h
      · rw [if_neg h1] at h ⊢; exact h
    · intro s r h
      rw [pTerm2] at h ⊢
      cases hq : pFactor n s with
      | none => simp [hq] at h
      | some v =>
        simp only [hq] at h
        simp only [ihF _ _ hq]
        obtain ⟨o, s1⟩ := v
        cases o with
        | none => exact h
        | some y => exact ihT2L _ _ _ h
    · intro x s r h
      rw [pTermLoop] at h ⊢
      by_cases h1 : s.tok = T.REM
      · rw [if_pos h1] at h ⊢
        cases hq : pTerm2 n s.next with
        | none => simp [hq] at h
        | some v =>
          simp only [hq] at h
          simp only [ihT2 _ _ hq]
          obtain ⟨o, s1⟩ := v
          cases o with
          | none => exact h
          | some y => exact ihTL _ _ _ h
      · rw [if_neg h1] at h ⊢; exact h
    · intro s r h
      rw [pTerm] at h ⊢
      cases hq : pTerm2 n s with
      | none => simp [hq] at h
      | some v =>
        simp only [hq] at h
        simp only [ihT2 _ _ hq]
        obtain ⟨o, s1⟩ := v
        cases o with
        | none => exact h
        | some y => exact ihTL _ _ _ h
    · intro acc s r h
      rw [pTermsLoop] at h ⊢
      cases hq : pTerm n s with
      | none => simp [hq] at h
      | some v =>
        simp only [hq] at h
        simp only [ihT _ _ hq]
        obtain ⟨o, s1⟩ := v
        cases o with
        | none => exact h
        | some y => exact ihTsL _ _ _ h
    · intro s r h
      rw [pTermList] at h ⊢
      cases hq : pTermsLoop n [] s with
      | none => simp [hq] at h
      | some v =>
        simp only [hq] at h
        simp only [ihTsL _ _ _ hq]
        exact h
    · intro acc s r h
      rw [pOptsLoop] at h ⊢
      by_cases h1 : s.tok = T.OR
      · rw [if_pos h1] at h ⊢
        cases hq : pTermList n s.next with
        | none => simp [hq] at h
        | some v =>
          simp only [hq] at h
          simp only [ihTList _ _ hq]
          exact ihOL _ _ _ h
      · rw [if_neg h1] at h ⊢; exact h
    · intro s r h
      rw [pExpr] at h ⊢
      cases hq : pTermList n s with
      | none => simp [hq] at h
      | some v =>
        simp only [hq] at h
        simp only [ihTList _ _ hq]
        obtain ⟨t, s1⟩ := v
        simp only at h ⊢
        by_cases h1 : s1.tok = T.OR
        · rw [if_pos h1] at h ⊢
          cases hq2 : pOptsLoop n [t] s1 with
          | none => simp [hq2] at h
          | some w =>
            simp only [hq2] at h
            simp only [ihOL _ _ _ hq2]
            exact h
        · rw [if_neg h1] at h ⊢; exact h

theorem pExpr_mono {n m : Nat} {s : PS} {r} (h : pExpr n s = some r) (hnm : n ≤ m) :
    pExpr m s = some r := by
  induction hnm with
  | refl => exact h
  | step _ ih => exact (mono_step _).2.2.2.2.2.2.2.2 _ _ ih

/-! ## 2. Basic facts about the parser state -/

@[simp] theorem PS.next_ts (s : PS) : s.next.ts = s.ts.tail := rfl
@[simp] theorem PS.next_errs (s : PS) : s.next.errs = s.errs := rfl
@[simp] theorem PS.err_ts (s : PS) (k) : (s.err k).ts = s.ts := rfl
@[simp] theorem PS.err_errs (s : PS) (k) : (s.err k).errs = ⟨s.ts.length, k⟩ :: s.errs := rfl

theorem PS.expect_ts (s : PS) (t : Nat) : (s.expect t).ts = s.ts.tail := by
  unfold PS.expect; split <;> rfl

theorem PS.tok_of_nil {s : PS} (h : s.ts = []) : s.tok = T.EOF := by
  unfold PS.tok; rw [h]

theorem PS.pos_of_tok_ne {s : PS} (h : s.tok ≠ T.EOF) : 0 < s.ts.length := by
  cases hs : s.ts with
  | nil => exact absurd (PS.tok_of_nil hs) h
  | cons a t => simp

/-! ## 3. The supplied fuel is enough; every function consumes what it returns -/

/-- result of a function returning `(Option Expr, PS)`: defined, does not grow the token list, and
consumed at least one token if it produced an expression -/
def GoodO (s : PS) (res : Option (Option Expr × PS)) : Prop :=
  ∃ r s', res = some (r, s') ∧ s'.ts.length ≤ s.ts.length ∧ (r.isSome → s'.ts.length < s.ts.length)

def GoodE {α : Type} (s : PS) (res : Option (α × PS)) : Prop :=
  ∃ r s', res = some (r, s') ∧ s'.ts.length ≤ s.ts.length

theorem adequate : ∀ fuel,
    (∀ s, 10 * s.ts.length + 1 ≤ fuel → GoodO s (pFactor fuel s)) ∧
    (∀ x s, 10 * s.ts.length + 2 ≤ fuel → GoodE s (pTerm2Loop fuel x s)) ∧
    (∀ s, 10 * s.ts.length + 3 ≤ fuel → GoodO s (pTerm2 fuel s)) ∧
    (∀ x s, 10 * s.ts.length + 4 ≤ fuel → GoodE s (pTermLoop fuel x s)) ∧
    (∀ s, 10 * s.ts.length + 5 ≤ fuel → GoodO s (pTerm fuel s)) ∧
    (∀ acc s, 10 * s.ts.length + 6 ≤ fuel → GoodE s (pTermsLoop fuel acc s)) ∧
    (∀ s, 10 * s.ts.length + 7 ≤ fuel → GoodE s (pTermList fuel s)) ∧
    (∀ acc s, 10 * s.ts.length + 8 ≤ fuel → GoodE s (pOptsLoop fuel acc s)) ∧
    (∀ s, 10 * s.ts.length + 9 ≤ fuel → GoodE s (pExpr fuel s)) := by
  intro fuel
  induction fuel with
  | zero => refine ⟨?_, ?_, ?_, ?_, ?_, ?_, ?_, ?_, ?_⟩ <;> intros <;> omega
  | succ n ih =>
    obtain ⟨ihF, ihT2L, ihT2, ihTL, ihT, ihTsL, ihTList, ihOL, ihE⟩ := ih
    refine ⟨?_, ?_, ?_, ?_, ?_, ?_, ?_, ?_, ?_⟩
    · intro s hf
      rw [pFactor]
      by_cases h1 : s.tok = T.IDENT
      · have hp := PS.pos_of_tok_ne (s := s) (by rw [h1]; decide)
        rw [if_pos h1]
        exact ⟨_, _, rfl, by simp, fun _ => by simp; omega⟩
      · rw [if_neg h1]
        by_cases h2 : (decide (s.tok = T.CHAR) || decide (s.tok = T.STRING)) = true
        · have hp : 0 < s.ts.length := by
            apply PS.pos_of_tok_ne
            intro he; rw [he] at h2; revert h2; decide
          rw [if_pos h2]
          exact ⟨_, _, rfl, by simp, fun _ => by simp; omega⟩
        · rw [if_neg h2]
          by_cases h3 : isUnaryOp s.tok = true
          · have hp : 0 < s.ts.length := by
              apply PS.pos_of_tok_ne
              intro he; rw [he] at h3; revert h3; decide
            rw [if_pos h3]
            obtain ⟨r, s1, hq, hle, _⟩ := ihF s.next (by simp; omega)
            rw [hq]
            simp at hle
            cases r with
            | some x => exact ⟨_, _, rfl, by omega, fun _ => by omega⟩
            | none => exact ⟨_, _, rfl, by simp; omega, fun _ => by simp; omega⟩
          · rw [if_neg h3]
            by_cases h4 : s.tok = T.LPAREN
            · have hp := PS.pos_of_tok_ne (s := s) (by rw [h4]; decide)
              rw [if_pos h4]
              obtain ⟨e, s1, hq, hle⟩ := ihE s.next (by simp; omega)
              rw [hq]
              simp at hle
              exact ⟨_, _, rfl, by rw [PS.expect_ts]; simp; omega,
                fun _ => by rw [PS.expect_ts]; simp; omega⟩
            · rw [if_neg h4]
              exact ⟨_, _, rfl, Nat.le_refl _, fun h => by simp at h⟩
    · intro x s hf
      rw [pTerm2Loop]
      by_cases h1 : s.tok = T.INC
      · have hp := PS.pos_of_tok_ne (s := s) (by rw [h1]; decide)
        rw [if_pos h1]
        obtain ⟨r, s1, hq, hle, hlt⟩ := ihF s.next (by simp; omega)
        rw [hq]
        simp at hle hlt
        cases r with
        | none => exact ⟨_, _, rfl, by simp; omega⟩
        | some y =>
          have hlt' := hlt rfl
          obtain ⟨r2, s2, hq2, hle2⟩ := ihT2L (.binary T.INC x y) s1 (by omega)
          exact ⟨_, _, hq2, by omega⟩
      · rw [if_neg h1]; exact ⟨_, _, rfl, Nat.le_refl _⟩
    · intro s hf
      rw [pTerm2]
      obtain ⟨r, s1, hq, hle, hlt⟩ := ihF s (by omega)
      rw [hq]
      cases r with
      | none => exact ⟨_, _, rfl, hle, fun h => by simp at h⟩
      | some x =>
        have hlt' := hlt rfl
        obtain ⟨r2, s2, hq2, hle2⟩ := ihT2L x s1 (by omega)
        exact ⟨_, _, hq2, by omega, fun _ => by omega⟩
    · intro x s hf
      rw [pTermLoop]
      by_cases h1 : s.tok = T.REM
      · have hp := PS.pos_of_tok_ne (s := s) (by rw [h1]; decide)
        rw [if_pos h1]
        obtain ⟨r, s1, hq, hle, hlt⟩ := ihT2 s.next (by simp; omega)
        rw [hq]
        simp at hle hlt
        cases r with
        | none => exact ⟨_, _, rfl, by simp; omega⟩
        | some y =>
          have hlt' := hlt rfl
          obtain ⟨r2, s2, hq2, hle2⟩ := ihTL (.binary T.REM x y) s1 (by omega)
          exact ⟨_, _, hq2, by omega⟩
      · rw [if_neg h1]; exact ⟨_, _, rfl, Nat.le_refl _⟩
    · intro s hf
      rw [pTerm]
      obtain ⟨r, s1, hq, hle, hlt⟩ := ihT2 s (by omega)
      rw [hq]
      cases r with
      | none => exact ⟨_, _, rfl, hle, fun h => by simp at h⟩
      | some x =>
        have hlt' := hlt rfl
        obtain ⟨r2, s2, hq2, hle2⟩ := ihTL x s1 (by omega)
        exact ⟨_, _, hq2, by omega, fun _ => by omega⟩
    · intro acc s hf
      rw [pTermsLoop]
      obtain ⟨r, s1, hq, hle, hlt⟩ := ihT s (by omega)
      rw [hq]
      cases r with
      | none => exact ⟨_, _, rfl, hle⟩
      | some t =>
        have hlt' := hlt rfl
        obtain ⟨r2, s2, hq2, hle2⟩ := ihTsL (t :: acc) s1 (by omega)
        exact ⟨_, _, hq2, by omega⟩
    · intro s hf
      rw [pTermList]
      obtain ⟨r, s1, hq, hle⟩ := ihTsL [] s (by omega)
      rw [hq]
      match r with
      | [] => exact ⟨_, _, rfl, by simp; omega⟩
      | [t] => exact ⟨_, _, rfl, hle⟩
      | t :: u :: rest => exact ⟨_, _, rfl, hle⟩
    · intro acc s hf
      rw [pOptsLoop]
      by_cases h1 : s.tok = T.OR
      · have hp := PS.pos_of_tok_ne (s := s) (by rw [h1]; decide)
        rw [if_pos h1]
        obtain ⟨t, s1, hq, hle⟩ := ihTList s.next (by simp; omega)
        rw [hq]
        simp at hle
        obtain ⟨r2, s2, hq2, hle2⟩ := ihOL (t :: acc) s1 (by omega)
        exact ⟨_, _, hq2, by omega⟩
      · rw [if_neg h1]; exact ⟨_, _, rfl, Nat.le_refl _⟩
    · intro s hf
      rw [pExpr]
      obtain ⟨t, s1, hq, hle⟩ := ihTList s (by omega)
      rw [hq]
      simp only
      by_cases h1 : s1.tok = T.OR
      · rw [if_pos h1]
        obtain ⟨r2, s2, hq2, hle2⟩ := ihOL [t] s1 (by omega)
        rw [hq2]
        exact ⟨_, _, rfl, by omega⟩
      · rw [if_neg h1]; exact ⟨_, _, rfl, hle⟩

theorem pExpr_adequate (s : PS) : ∃ e s', pExpr (exprFuel s.ts.length) s = some (e, s') ∧
    s'.ts.length ≤ s.ts.length :=
  (adequate _).2.2.2.2.2.2.2.2 s (by unfold exprFuel; omega)

theorem lambdaLoop_length : ∀ (ts : List Tok) (level : Nat), (lambdaLoop level ts).length ≤ ts.length
  | [], _ => by simp [lambdaLoop]
  | t :: rest, level => by
    rw [lambdaLoop]
    split
    · split
      · simp
      · have := lambdaLoop_length rest (level - 1); simp; omega
    · split
      · have := lambdaLoop_length rest (level + 1); simp; omega
      · split
        · simp
        · have := lambdaLoop_length rest level; simp; omega

theorem PS.lambda_length (s : PS) : s.lambda.ts.length ≤ s.ts.length := by
  unfold PS.lambda
  have := lambdaLoop_length (s.next.expect T.LBRACE).ts 1
  have h2 : (s.next.expect T.LBRACE).ts.length ≤ s.ts.length := by
    rw [PS.expect_ts]; simp; omega
  simp only
  omega

theorem pRule_adequate (s : PS) : ∃ r s', pRule s = some (r, s') ∧
    (r.isSome → s'.ts.length < s.ts.length) := by
  unfold pRule
  by_cases h1 : s.tok = T.IDENT
  · have hp := PS.pos_of_tok_ne (s := s) (by rw [h1]; decide)
    rw [if_pos h1]
    obtain ⟨e, s1, hq, hle⟩ := pExpr_adequate (s.next.expect T.ASSIGN)
    simp only [hq]
    refine ⟨_, _, rfl, fun _ => ?_⟩
    rw [PS.expect_ts] at hle
    rw [PS.expect_ts]
    simp at hle ⊢
    split
    · have := PS.lambda_length s1; omega
    · omega
  · rw [if_neg h1]; exact ⟨_, _, rfl, fun h => by simp at h⟩

theorem pFileLoop_adequate : ∀ (fuel : Nat) (acc : List Rule) (s : PS), s.ts.length + 1 ≤ fuel →
    ∃ r, pFileLoop fuel acc s = some r
  | 0, _, _, h => by omega
  | n + 1, acc, s, h => by
    rw [pFileLoop]
    split
    · exact ⟨_, rfl⟩
    · obtain ⟨r, s1, hq, hlt⟩ := pRule_adequate s
      rw [hq]
      cases r with
      | none => exact ⟨_, rfl⟩
      | some r =>
        have := hlt rfl
        exact pFileLoop_adequate n (r :: acc) s1 (by omega)

/-- The fuel `parseFile` supplies is always enough. -/
theorem parseFile_isSome (ts : List Tok) : ∃ r, parseFile ts = some r := by
  unfold parseFile
  obtain ⟨r, hr⟩ := pFileLoop_adequate (ts.length + 1) [] ⟨ts, []⟩ (Nat.le_refl _)
  rw [hr]
  exact ⟨_, rfl⟩

/-! ## 4. Well-formed trees; no error ⇒ well-formed -/

mutual
/-- A tree the grammar notation can denote: no nil operand, Sequence/Choice with ≥ 2 members,
documented operators, literals that are CHAR/STRING tokens satisfying `P`. -/
def NFP (P : Tok → Prop) : Expr → Prop
  | .ident _ => True
  | .lit k v => (k = T.CHAR ∨ k = T.STRING) ∧ P ⟨k, v⟩
  | .seq items => 2 ≤ items.length ∧ NFPs P items
  | .choice opts => 2 ≤ opts.length ∧ NFPs P opts
  | .unary op x => isUnaryOp op = true ∧ NFP P x
  | .binary op x y => (op = T.REM ∨ op = T.INC) ∧ NFP P x ∧ NFP P y
  | .nil => False
def NFPs (P : Tok → Prop) : List Expr → Prop
  | [] => True
  | e :: rest => NFP P e ∧ NFPs P rest
end

theorem NFPs_iff (P : Tok → Prop) : ∀ l : List Expr, NFPs P l ↔ ∀ e ∈ l, NFP P e
  | [] => by simp [NFPs]
  | e :: rest => by simp [NFPs, NFPs_iff P rest]

theorem PS.head_mem {s : PS} (h : s.tok ≠ T.EOF) : (⟨s.tok, s.lit⟩ : Tok) ∈ s.ts := by
  cases hs : s.ts with
  | nil => exact absurd (PS.tok_of_nil hs) h
  | cons a t => simp [PS.tok, PS.lit, hs]

theorem PS.expect_errs_le (s : PS) (t : Nat) : s.errs.length ≤ (s.expect t).errs.length := by
  unfold PS.expect; split <;> simp

theorem PS.expect_suffix (s : PS) (t : Nat) : (s.expect t).ts <:+ s.ts := by
  rw [PS.expect_ts]; exact List.tail_suffix _

theorem PS.expect_errs_eq {s : PS} {t : Nat} (h : (s.expect t).errs.length = s.errs.length) :
    s.tok = t := by
  unfold PS.expect at h
  split at h
  · assumption
  · simp at h

/-- common part of the invariant: tokens are only consumed, errors only added -/
def Step (s s' : PS) : Prop := s'.ts <:+ s.ts ∧ s.errs.length ≤ s'.errs.length

theorem Step.refl (s : PS) : Step s s := ⟨List.suffix_refl _, Nat.le_refl _⟩
theorem Step.trans {a b c : PS} (h1 : Step a b) (h2 : Step b c) : Step a c :=
  ⟨h2.1.trans h1.1, Nat.le_trans h1.2 h2.2⟩
theorem Step.next (s : PS) : Step s s.next := ⟨List.tail_suffix _, Nat.le_refl _⟩
theorem Step.err (s : PS) (k) : Step s (s.err k) := ⟨List.suffix_refl _, by simp⟩
theorem Step.expect (s : PS) (t) : Step s (s.expect t) := ⟨PS.expect_suffix s t, PS.expect_errs_le s t⟩
theorem Step.all {P : Tok → Prop} {s s' : PS} (h : Step s s') (hp : ∀ t ∈ s.ts, P t) :
    ∀ t ∈ s'.ts, P t := fun t ht => hp t (h.1.subset ht)

theorem wf_invariant (P : Tok → Prop) : ∀ n,
    (∀ s r s', pFactor n s = some (r, s') → (∀ t ∈ s.ts, P t) →
        Step s s' ∧ (∀ e, r = some e → s'.errs.length = s.errs.length → NFP P e)) ∧
    (∀ x s r s', pTerm2Loop n x s = some (r, s') → (∀ t ∈ s.ts, P t) →
        Step s s' ∧ (∀ e, r = some e → s'.errs.length = s.errs.length → NFP P x → NFP P e)) ∧
    (∀ s r s', pTerm2 n s = some (r, s') → (∀ t ∈ s.ts, P t) →
        Step s s' ∧ (∀ e, r = some e → s'.errs.length = s.errs.length → NFP P e)) ∧
    (∀ x s r s', pTermLoop n x s = some (r, s') → (∀ t ∈ s.ts, P t) →
        Step s s' ∧ (∀ e, r = some e → s'.errs.length = s.errs.length → NFP P x → NFP P e)) ∧
    (∀ s r s', pTerm n s = some (r, s') → (∀ t ∈ s.ts, P t) →
        Step s s' ∧ (∀ e, r = some e → s'.errs.length = s.errs.length → NFP P e)) ∧
    (∀ acc s r s', pTermsLoop n acc s = some (r, s') → (∀ t ∈ s.ts, P t) →
        Step s s' ∧ (s'.errs.length = s.errs.length → (∀ a ∈ acc, NFP P a) → (∀ a ∈ r, NFP P a)) ∧
        acc.length ≤ r.length) ∧
    (∀ s r s', pTermList n s = some (r, s') → (∀ t ∈ s.ts, P t) →
        Step s s' ∧ (s'.errs.length = s.errs.length → NFP P r)) ∧
    (∀ acc s r s', pOptsLoop n acc s = some (r, s') → (∀ t ∈ s.ts, P t) →
        Step s s' ∧ (s'.errs.length = s.errs.length → (∀ a ∈ acc, NFP P a) → (∀ a ∈ r, NFP P a)) ∧
        acc.length + (if s.tok = T.OR then 1 else 0) ≤ r.length) ∧
    (∀ s r s', pExpr n s = some (r, s') → (∀ t ∈ s.ts, P t) →
        Step s s' ∧ (s'.errs.length = s.errs.length → NFP P r)) := by
  intro n
  induction n with
  | zero => simp [pFactor, pTerm2Loop, pTerm2, pTermLoop, pTerm, pTermsLoop, pTermList, pOptsLoop, pExpr]
  | succ n ih =>
    obtain ⟨ihF, ihT2L, ihT2, ihTL, ihT, ihTsL, ihTList, ihOL, ihE⟩ := ih
    refine ⟨?_, ?_, ?_, ?_, ?_, ?_, ?_, ?_, ?_⟩
    · intro s r s' h hP
      rw [pFactor] at h
      by_cases h1 : s.tok = T.IDENT
      · rw [if_pos h1] at h
        cases h
        exact ⟨Step.next s, fun e he _ => by cases he; trivial⟩
      · rw [if_neg h1] at h
        by_cases h2 : (decide (s.tok = T.CHAR) || decide (s.tok = T.STRING)) = true
        · rw [if_pos h2] at h
          cases h
          refine ⟨Step.next s, fun e he _ => ?_⟩
          cases he
          have hne : s.tok ≠ T.EOF := by intro he; rw [he] at h2; revert h2; decide
          exact ⟨by simpa using h2, hP _ (PS.head_mem hne)⟩
        · rw [if_neg h2] at h
          by_cases h3 : isUnaryOp s.tok = true
          · rw [if_pos h3] at h
            cases hq : pFactor n s.next with
            | none => simp [hq] at h
            | some v =>
              obtain ⟨o, s1⟩ := v
              obtain ⟨hst, hnf⟩ := ihF _ _ _ hq ((Step.next s).all hP)
              simp only [hq] at h
              cases o with
              | some x =>
                cases h
                refine ⟨(Step.next s).trans hst, fun e he hl => ?_⟩
                cases he
                exact ⟨h3, hnf x rfl (by simpa using hl)⟩
              | none =>
                cases h
                refine ⟨((Step.next s).trans hst).trans (Step.err _ _), fun e he hl => ?_⟩
                have := hst.2
                simp at hl this
                omega
          · rw [if_neg h3] at h
            by_cases h4 : s.tok = T.LPAREN
            · rw [if_pos h4] at h
              cases hq : pExpr n s.next with
              | none => simp [hq] at h
              | some v =>
                obtain ⟨e0, s1⟩ := v
                obtain ⟨hst, hnf⟩ := ihE _ _ _ hq ((Step.next s).all hP)
                simp only [hq] at h
                cases h
                refine ⟨((Step.next s).trans hst).trans (Step.expect _ _), fun e he hl => ?_⟩
                cases he
                apply hnf
                have h1 := hst.2
                have h2 := PS.expect_errs_le s1 T.RPAREN
                simp at h1 hl ⊢
                omega
            · rw [if_neg h4] at h
              cases h
              exact ⟨Step.refl s, fun e he => by cases he⟩
    · intro x s r s' h hP
      rw [pTerm2Loop] at h
      by_cases h1 : s.tok = T.INC
      · rw [if_pos h1] at h
        cases hq : pFactor n s.next with
        | none => simp [hq] at h
        | some v =>
          obtain ⟨o, s1⟩ := v
          obtain ⟨hst, hnf⟩ := ihF _ _ _ hq ((Step.next s).all hP)
          simp only [hq] at h
          have hs1 := (Step.next s).trans hst
          cases o with
          | none =>
            cases h
            exact ⟨hs1.trans (Step.err _ _), fun e he => by cases he⟩
          | some y =>
            obtain ⟨hst2, hnf2⟩ := ihT2L _ _ _ _ h (hs1.all hP)
            refine ⟨hs1.trans hst2, fun e he hl hx => ?_⟩
            have e1 := hs1.2
            have e2 := hst2.2
            try simp at e1
            exact hnf2 e he (by omega) ⟨Or.inr rfl, hx, hnf y rfl (by simp; omega)⟩
      · rw [if_neg h1] at h
        cases h
        exact ⟨Step.refl s, fun e he _ hx => by cases he; exact hx⟩
    · intro s r s' h hP
      rw [pTerm2] at h
      cases hq : pFactor n s with
      | none => simp [hq] at h
      | some v =>
        obtain ⟨o, s1⟩ := v
        obtain ⟨hst, hnf⟩ := ihF _ _ _ hq hP
        simp only [hq] at h
        cases o with
        | none =>
          cases h
          exact ⟨hst, fun e he => by cases he⟩
        | some x =>
          obtain ⟨hst2, hnf2⟩ := ihT2L _ _ _ _ h (hst.all hP)
          refine ⟨hst.trans hst2, fun e he hl => ?_⟩
          have e1 := hst.2
          have e2 := hst2.2
          exact hnf2 e he (by omega) (hnf x rfl (by omega))
    · intro x s r s' h hP
      rw [pTermLoop] at h
      by_cases h1 : s.tok = T.REM
      · rw [if_pos h1] at h
        cases hq : pTerm2 n s.next with
        | none => simp [hq] at h
        | some v =>
          obtain ⟨o, s1⟩ := v
          obtain ⟨hst, hnf⟩ := ihT2 _ _ _ hq ((Step.next s).all hP)
          simp only [hq] at h
          have hs1 := (Step.next s).trans hst
          cases o with
          | none =>
            cases h
            exact ⟨hs1.trans (Step.err _ _), fun e he => by cases he⟩
          | some y =>
            obtain ⟨hst2, hnf2⟩ := ihTL _ _ _ _ h (hs1.all hP)
            refine ⟨hs1.trans hst2, fun e he hl hx => ?_⟩
            have e1 := hs1.2
            have e2 := hst2.2
            try simp at e1
            exact hnf2 e he (by omega) ⟨Or.inl rfl, hx, hnf y rfl (by simp; omega)⟩
      · rw [if_neg h1] at h
        cases h
        exact ⟨Step.refl s, fun e he _ hx => by cases he; exact hx⟩
    · intro s r s' h hP
      rw [pTerm] at h
      cases hq : pTerm2 n s with
      | none => simp [hq] at h
      | some v =>
        obtain ⟨o, s1⟩ := v
        obtain ⟨hst, hnf⟩ := ihT2 _ _ _ hq hP
        simp only [hq] at h
        cases o with
        | none =>
          cases h
          exact ⟨hst, fun e he => by cases he⟩
        | some x =>
          obtain ⟨hst2, hnf2⟩ := ihTL _ _ _ _ h (hst.all hP)
          refine ⟨hst.trans hst2, fun e he hl => ?_⟩
          have e1 := hst.2
          have e2 := hst2.2
          exact hnf2 e he (by omega) (hnf x rfl (by omega))
    · intro acc s r s' h hP
      rw [pTermsLoop] at h
      cases hq : pTerm n s with
      | none => simp [hq] at h
      | some v =>
        obtain ⟨o, s1⟩ := v
        obtain ⟨hst, hnf⟩ := ihT _ _ _ hq hP
        simp only [hq] at h
        cases o with
        | none =>
          cases h
          exact ⟨hst, fun _ ha a hm => ha a (by simpa using hm), by simp⟩
        | some t =>
          obtain ⟨hst2, hnf2, hlen⟩ := ihTsL _ _ _ _ h (hst.all hP)
          refine ⟨hst.trans hst2, fun hl ha => ?_, by simp at hlen; omega⟩
          have e1 := hst.2
          have e2 := hst2.2
          apply hnf2 (by omega)
          intro a hm
          simp only [List.mem_cons] at hm
          rcases hm with rfl | hm
          · exact hnf a rfl (by omega)
          · exact ha a hm
    · intro s r s' h hP
      rw [pTermList] at h
      cases hq : pTermsLoop n [] s with
      | none => simp [hq] at h
      | some v =>
        obtain ⟨l, s1⟩ := v
        obtain ⟨hst, hnf, _⟩ := ihTsL _ _ _ _ hq hP
        simp only [hq] at h
        match l, h, hnf with
        | [], h, hnf =>
          cases h
          refine ⟨hst.trans (Step.err _ _), fun hl => ?_⟩
          have := hst.2
          simp at hl
          omega
        | [t], h, hnf =>
          cases h
          exact ⟨hst, fun hl => hnf hl (by simp) _ (by simp)⟩
        | t :: u :: rest, h, hnf =>
          cases h
          refine ⟨hst, fun hl => ⟨by simp, ?_⟩⟩
          exact (NFPs_iff P _).2 (hnf hl (by simp))
    · intro acc s r s' h hP
      rw [pOptsLoop] at h
      by_cases h1 : s.tok = T.OR
      · rw [if_pos h1] at h
        cases hq : pTermList n s.next with
        | none => simp [hq] at h
        | some v =>
          obtain ⟨t, s1⟩ := v
          obtain ⟨hst, hnf⟩ := ihTList _ _ _ hq ((Step.next s).all hP)
          simp only [hq] at h
          have hs1 := (Step.next s).trans hst
          obtain ⟨hst2, hnf2, hlen⟩ := ihOL _ _ _ _ h (hs1.all hP)
          refine ⟨hs1.trans hst2, fun hl ha => ?_, ?_⟩
          · have e1 := hs1.2
            have e2 := hst2.2
            try simp at e1
            apply hnf2 (by omega)
            intro a hm
            simp only [List.mem_cons] at hm
            rcases hm with rfl | hm
            · exact hnf (by simp; omega)
            · exact ha a hm
          · rw [if_pos h1]
            simp at hlen
            omega
      · rw [if_neg h1] at h
        cases h
        exact ⟨Step.refl s, fun _ ha a hm => ha a (by simpa using hm), by simp [h1]⟩
    · intro s r s' h hP
      rw [pExpr] at h
      cases hq : pTermList n s with
      | none => simp [hq] at h
      | some v =>
        obtain ⟨t, s1⟩ := v
        obtain ⟨hst, hnf⟩ := ihTList _ _ _ hq hP
        simp only [hq] at h
        by_cases h1 : s1.tok = T.OR
        · rw [if_pos h1] at h
          cases hq2 : pOptsLoop n [t] s1 with
          | none => simp [hq2] at h
          | some w =>
            obtain ⟨opts, s2⟩ := w
            obtain ⟨hst2, hnf2, hlen⟩ := ihOL _ _ _ _ hq2 (hst.all hP)
            simp only [hq2] at h
            cases h
            refine ⟨hst.trans hst2, fun hl => ?_⟩
            have e1 := hst.2
            have e2 := hst2.2
            rw [if_pos h1] at hlen
            refine ⟨by simpa using hlen, (NFPs_iff P _).2 (hnf2 (by omega) ?_)⟩
            intro a hm
            simp only [List.mem_singleton] at hm
            subst hm
            exact hnf (by omega)
        · rw [if_neg h1] at h
          cases h
          exact ⟨hst, hnf⟩

theorem lambdaLoop_suffix : ∀ (ts : List Tok) (level : Nat), lambdaLoop level ts <:+ ts
  | [], _ => by simp [lambdaLoop]
  | t :: rest, level => by
    rw [lambdaLoop]
    split
    · split
      · exact List.suffix_cons _ _
      · exact (lambdaLoop_suffix rest (level - 1)).trans (List.suffix_cons _ _)
    · split
      · exact (lambdaLoop_suffix rest (level + 1)).trans (List.suffix_cons _ _)
      · split
        · exact List.suffix_refl _
        · exact (lambdaLoop_suffix rest level).trans (List.suffix_cons _ _)

theorem Step.lambda (s : PS) : Step s s.lambda := by
  unfold PS.lambda
  have h1 := (Step.next s).trans (Step.expect s.next T.LBRACE)
  exact ⟨(lambdaLoop_suffix _ 1).trans h1.1, h1.2⟩

theorem pRule_wf (P : Tok → Prop) {s : PS} {r : Option Rule} {s' : PS} (h : pRule s = some (r, s'))
    (hP : ∀ t ∈ s.ts, P t) :
    Step s s' ∧ (∀ rule, r = some rule → s'.errs.length = s.errs.length → NFP P rule.expr) := by
  unfold pRule at h
  by_cases h1 : s.tok = T.IDENT
  · rw [if_pos h1] at h
    simp only at h
    cases hq : pExpr (exprFuel (s.next.expect T.ASSIGN).ts.length) (s.next.expect T.ASSIGN) with
    | none => simp [hq] at h
    | some v =>
      obtain ⟨e, s1⟩ := v
      have hs0 := (Step.next s).trans (Step.expect s.next T.ASSIGN)
      obtain ⟨hst, hnf⟩ := (wf_invariant P _).2.2.2.2.2.2.2.2 _ _ _ hq (hs0.all hP)
      simp only [hq] at h
      have hs2 : Step s1 (if s1.tok = T.DRARROW then s1.lambda else s1) := by
        split
        · exact Step.lambda s1
        · exact Step.refl s1
      cases h
      refine ⟨((hs0.trans hst).trans hs2).trans (Step.expect _ _), fun rule hr hl => ?_⟩
      cases hr
      apply hnf
      have e0 := hs0.2
      have e1 := hst.2
      have e2 := hs2.2
      have e3 := (Step.expect (if s1.tok = T.DRARROW then s1.lambda else s1) T.SEMICOLON).2
      omega
  · rw [if_neg h1] at h
    cases h
    exact ⟨Step.err _ _, fun rule hr => by cases hr⟩

theorem pFileLoop_wf (P : Tok → Prop) : ∀ (n : Nat) (acc : List Rule) (s : PS) (rules : List Rule) (s' : PS),
    pFileLoop n acc s = some (rules, s') → (∀ t ∈ s.ts, P t) →
    s.errs.length ≤ s'.errs.length ∧
    (s'.errs.length = s.errs.length → (∀ r ∈ acc, NFP P r.expr) → ∀ r ∈ rules, NFP P r.expr)
  | 0, _, _, _, _, h, _ => by simp [pFileLoop] at h
  | n + 1, acc, s, rules, s', h, hP => by
    rw [pFileLoop] at h
    split at h
    · cases h
      exact ⟨Nat.le_refl _, fun _ ha r hm => ha r (by simpa using hm)⟩
    · cases hq : pRule s with
      | none => simp [hq] at h
      | some v =>
        obtain ⟨o, s1⟩ := v
        obtain ⟨hst, hnf⟩ := pRule_wf P hq hP
        simp only [hq] at h
        cases o with
        | none =>
          cases h
          exact ⟨hst.2, fun _ ha r hm => ha r (by simpa using hm)⟩
        | some rule =>
          obtain ⟨hle, hrest⟩ := pFileLoop_wf P n _ _ _ _ h (hst.all hP)
          have e1 := hst.2
          refine ⟨by omega, fun hl ha => hrest (by omega) ?_⟩
          intro r hm
          simp only [List.mem_cons] at hm
          rcases hm with rfl | hm
          · exact hnf _ rfl (by omega)
          · exact ha r hm

/-- If the parser reports no error, every rule's expression is well formed (and its literals are
tokens of the input). -/
theorem parseFile_noerr_wf (P : Tok → Prop) {ts : List Tok} {r : ParseResult}
    (h : parseFile ts = some r) (hP : ∀ t ∈ ts, P t) (herr : r.errs = []) :
    ∀ rule ∈ r.rules, NFP P rule.expr := by
  unfold parseFile at h
  cases hq : pFileLoop (ts.length + 1) [] ⟨ts, []⟩ with
  | none => simp [hq] at h
  | some v =>
    obtain ⟨rules, s'⟩ := v
    simp only [hq] at h
    cases h
    obtain ⟨_, hw⟩ := pFileLoop_wf P _ _ _ _ _ hq hP
    simp only [List.reverse_eq_nil_iff] at herr
    exact hw (by simp [herr]) (by simp)

end GopModel.Tpl
