/- Preservation of `Inv` (C39) by the actions on incoming requests, and `inv_step`. -/
import GopModel.Lemmas.InFlightInvA
set_option linter.unusedSimpArgs false
set_option linter.unnecessarySimpa false
namespace GopModel.InFlight

theorem has_req_not_done {m : M} (h : Inv m) {r : Req} {p : Phase} (hm : (r, p) ∈ m.reqs) : m.st.done = false := by
  cases hd : m.st.done
  · rfl
  · have := (done_quiet h hd).2.2.2.2.1; rw [this] at hm; cases hm

theorem inv_accept {m m' : M} (id : ID) (h : Inv m) (hs : step (.accept id) m = some m') : Inv m' := by
  simp only [step, h.np, Bool.false_eq_true, if_false] at hs
  split at hs
  case isFalse => cases hs
  rename_i hrd
  have hnd := reading_not_done h hrd
  have h0 : Inv { m with nextReq := m.nextReq + 1 } :=
    { h with reqsI := { h.reqsI with
        qFresh := fun e he => Nat.lt_succ_of_lt (h.reqsI.qFresh e he)
        ansW := fun r hr => ⟨Nat.lt_succ_of_lt (h.reqsI.ansW r hr).1, (h.reqsI.ansW r hr).2⟩ } }
  simp only [Option.some.injEq] at hs
  subst hs
  by_cases hcall : (⟨m.nextReq, id⟩ : Req).isCall = true
  · cases hg : Map.get m.st.byID id with
    | some q =>
      -- duplicate ID: the request's ID is cleared, it is answered with an error
      have ht : tAccept (argsReq ⟨m.nextReq, id⟩) m.st =
          ({ m.st with incoming := m.st.incoming + 1 }, { err := some (.wrap "ErrInvalidRequest"), clearReqID := true }) := by
        simp [tAccept, argsReq, hcall, hg]
      rw [fire_eq tAccept _ _ (by simp [ht]) (by simp [ht]) (by simp [ht])]
      obtain ⟨e1, e2, e3, e4⟩ := epi_D h0 (tAccept (argsReq ⟨m.nextReq, id⟩) m.st).1 (tAccept (argsReq ⟨m.nextReq, id⟩) m.st).2
        (by simp [ht]) (by simp [ht]) (by simp [hnd]) (by simp [ht]) (by simp [ht]) (by simp [ht])
      simp only [ht] at e1 e2 e3 e4
      simp only [epi_clearReqID, epi_err, ht, if_true, Option.isSome_some]
      constructor
      case reqsI =>
        simpa [epi_incoming, epi_byID, epi_queue, epi_handlerRunning, ht] using
          h.reqsI.acceptPlain (r := ⟨m.nextReq, noID⟩) (p := Phase.result) rfl (by simp [Req.isCall]) (by simp) (by simp)
      inv_rest h0 e1 e2 e3 e4 [ht]
    | none =>
      have ht : tAccept (argsReq ⟨m.nextReq, id⟩) m.st =
          ({ m.st with incoming := m.st.incoming + 1, byID := Map.put m.st.byID id ⟨m.nextReq, id⟩ },
           { err := m.st.shuttingDown.map Err.serverClosing }) := by
        simp [tAccept, argsReq, hcall, hg, St.shuttingDown]
      rw [fire_eq tAccept _ _ (by simp [ht]) (by simp [ht]) (by simp [ht])]
      obtain ⟨e1, e2, e3, e4⟩ := epi_D h0 (tAccept (argsReq ⟨m.nextReq, id⟩) m.st).1 (tAccept (argsReq ⟨m.nextReq, id⟩) m.st).2
        (by simp [ht]) (by simp [ht]) (by simp [hnd]) (by simp [ht]) (by simp [ht]) (by simp [ht])
      simp only [ht] at e1 e2 e3 e4
      simp only [epi_clearReqID, epi_err, ht, Bool.false_eq_true, if_false]
      constructor
      case reqsI =>
        have := h.reqsI.acceptCall (r := ⟨m.nextReq, id⟩)
          (p := if (m.st.shuttingDown.map Err.serverClosing).isSome then Phase.result else Phase.accepted)
          rfl hcall hg (by split <;> simp) (by split <;> simp) (by split <;> rfl)
        simpa [epi_incoming, epi_byID, epi_queue, epi_handlerRunning, ht] using this
      inv_rest h0 e1 e2 e3 e4 [ht]
  · -- a notification
    have hnc : (⟨m.nextReq, id⟩ : Req).isCall = false := by simpa using hcall
    have ht : tAccept (argsReq ⟨m.nextReq, id⟩) m.st = ({ m.st with incoming := m.st.incoming + 1 }, {}) := by
      simp [tAccept, argsReq, hnc]
    rw [fire_eq tAccept _ _ (by simp [ht]) (by simp [ht]) (by simp [ht])]
    obtain ⟨e1, e2, e3, e4⟩ := epi_D h0 (tAccept (argsReq ⟨m.nextReq, id⟩) m.st).1 (tAccept (argsReq ⟨m.nextReq, id⟩) m.st).2
      (by simp [ht]) (by simp [ht]) (by simp [hnd]) (by simp [ht]) (by simp [ht]) (by simp [ht])
    simp only [ht] at e1 e2 e3 e4
    simp only [epi_clearReqID, epi_err, ht, Bool.false_eq_true, if_false, Option.isSome_none]
    constructor
    case reqsI =>
      simpa [epi_incoming, epi_byID, epi_queue, epi_handlerRunning, ht] using
        h.reqsI.acceptPlain (r := ⟨m.nextReq, id⟩) (p := Phase.accepted) rfl hnc (by simp) (by simp)
    inv_rest h0 e1 e2 e3 e4 [ht]

/-- An action that only moves a request to another phase. -/
theorem inv_setPlain {m : M} (h : Inv m) {r : Req} {p0 p : Phase}
    (hm : (r, p0) ∈ m.reqs) (h0q : p0 ≠ Phase.queued) (hpq : p ≠ Phase.queued)
    (h0w : p0 ≠ Phase.writing) (h16 : r.isCall = true → p.pre16 = p0.pre16)
    (has : p = Phase.async → r.isCall = true) : Inv (setPhase m r p) := by
  rw [setPhase_eq]
  exact { h with reqsI := h.reqsI.setPlain hm h0q hpq h0w h16 has }

theorem inv_preemptAsync {m m' : M} (r : Req) (h : Inv m) (hs : step (.preemptAsync r) m = some m') : Inv m' := by
  simp only [step, h.np, Bool.false_eq_true, if_false] at hs
  split at hs
  case isFalse => cases hs
  rename_i hg
  simp only [Bool.and_eq_true, decide_eq_true_eq] at hg
  simp only [Option.some.injEq] at hs
  subst hs
  exact inv_setPlain h ((phaseOf_eq h).mp hg.1) (by simp) (by simp) (by simp) (fun _ => rfl) (fun _ => hg.2)

theorem inv_preemptDone {m m' : M} (r : Req) (h : Inv m) (hs : step (.preemptDone r) m = some m') : Inv m' := by
  simp only [step, h.np, Bool.false_eq_true, if_false] at hs
  split at hs
  case isFalse => cases hs
  rename_i hg
  simp only [Option.some.injEq] at hs
  subst hs
  exact inv_setPlain h ((phaseOf_eq h).mp hg) (by simp) (by simp) (by simp) (fun _ => rfl) (by simp)

theorem inv_preemptLeak {m m' : M} (r : Req) (h : Inv m) (hs : step (.preemptLeak r) m = some m') : Inv m' := by
  simp only [step, h.np, Bool.false_eq_true, if_false] at hs
  split at hs
  case isFalse => cases hs
  rename_i hg
  simp only [Bool.and_eq_true, decide_eq_true_eq, Bool.not_eq_true'] at hg
  simp only [Option.some.injEq] at hs
  subst hs
  exact inv_setPlain h ((phaseOf_eq h).mp hg.1) (by simp) (by simp) (by simp)
    (fun hc => by rw [hg.2] at hc; cases hc) (by simp)

theorem inv_handleDone {m m' : M} (r : Req) (h : Inv m) (hs : step (.handleDone r) m = some m') : Inv m' := by
  simp only [step, h.np, Bool.false_eq_true, if_false] at hs
  split at hs
  case isFalse => cases hs
  rename_i hg
  simp only [Option.some.injEq] at hs
  subst hs
  exact inv_setPlain h ((phaseOf_eq h).mp hg) (by simp) (by simp) (by simp) (fun _ => rfl) (by simp)

theorem inv_handleAsyncResp {m m' : M} (r : Req) (h : Inv m) (hs : step (.handleAsyncResp r) m = some m') : Inv m' := by
  simp only [step, h.np, Bool.false_eq_true, if_false] at hs
  split at hs
  case isFalse => cases hs
  rename_i hg
  simp only [Bool.and_eq_true, decide_eq_true_eq] at hg
  simp only [Option.some.injEq] at hs
  subst hs
  exact inv_setPlain h ((phaseOf_eq h).mp hg.1) (by simp) (by simp) (by simp) (fun _ => rfl) (fun _ => hg.2)

theorem inv_handleLeak {m m' : M} (r : Req) (h : Inv m) (hs : step (.handleLeak r) m = some m') : Inv m' := by
  simp only [step, h.np, Bool.false_eq_true, if_false] at hs
  split at hs
  case isFalse => cases hs
  rename_i hg
  simp only [Bool.and_eq_true, decide_eq_true_eq, Bool.not_eq_true'] at hg
  simp only [Option.some.injEq] at hs
  subst hs
  exact inv_setPlain h ((phaseOf_eq h).mp hg.1) (by simp) (by simp) (by simp)
    (fun hc => by rw [hg.2] at hc; cases hc) (by simp)

theorem inv_handleCancelled {m m' : M} (r : Req) (h : Inv m) (hs : step (.handleCancelled r) m = some m') : Inv m' := by
  simp only [step, h.np, Bool.false_eq_true, if_false] at hs
  split at hs
  case isFalse => cases hs
  rename_i hg
  have hm := (phaseOf_eq h).mp hg
  simp only [Option.some.injEq] at hs
  subst hs
  have h1 : Inv (fire tHandleCancelled noArgs m).1 := by
    rw [fire_eq tHandleCancelled noArgs m (by simp [tHandleCancelled]) (by simp [tHandleCancelled]) (by simp [tHandleCancelled])]
    obtain ⟨e1, e2, e3, e4⟩ := epi_D h (tHandleCancelled noArgs m.st).1 (tHandleCancelled noArgs m.st).2 rfl rfl
      (stab_same h) rfl rfl rfl
    constructor
    inv_rest h e1 e2 e3 e4 [tHandleCancelled]
  have hm1 : (r, Phase.handling) ∈ (fire tHandleCancelled noArgs m).1.reqs := by
    rw [fire_eq tHandleCancelled noArgs m (by simp [tHandleCancelled]) (by simp [tHandleCancelled]) (by simp [tHandleCancelled])]
    exact hm
  exact inv_setPlain h1 hm1 (by simp) (by simp) (by simp) (fun _ => rfl) (by simp)

theorem inv_respond {m m' : M} (r : Req) (h : Inv m) (hs : step (.respond r) m = some m') : Inv m' := by
  simp only [step, h.np, Bool.false_eq_true, if_false] at hs
  split at hs
  case isFalse => cases hs
  rename_i hg
  have hm := (phaseOf_eq h).mp hg
  have hfe := fire_eq tLookup (argsID r.id) m (by simp [tLookup]) (by simp [tLookup]) (by simp [tLookup])
  have h1 : Inv (fire tLookup (argsID r.id) m).1 := by
    rw [hfe]
    obtain ⟨e1, e2, e3, e4⟩ := epi_D h (tLookup (argsID r.id) m.st).1 (tLookup (argsID r.id) m.st).2 rfl rfl
      (stab_same h) rfl rfl rfl
    constructor
    inv_rest h e1 e2 e3 e4 [tLookup]
  have hreq : (fire tLookup (argsID r.id) m).2.req = Map.get m.st.byID r.id := by
    rw [hfe]; simp [epi_req, tLookup, argsID]
  have hin : (r.id, r) ∈ m.st.byID :=
    (h.reqsI.bEnt r.id r).mpr ⟨rfl, h.reqsI.asyncC r hm, _, hm, rfl⟩
  have hget : Map.get m.st.byID r.id = some r := (Map.get_eq_some h.reqsI.bKeys).mpr hin
  rw [hreq, hget] at hs
  simp only [Option.some.injEq] at hs
  subst hs
  have hm1 : (r, Phase.async) ∈ (fire tLookup (argsID r.id) m).1.reqs := by rw [hfe]; exact hm
  exact inv_setPlain h1 hm1 (by simp) (by simp) (by simp) (fun _ => rfl) (by simp)

theorem inv_enqueue {m m' : M} (r : Req) (h : Inv m) (hs : step (.enqueue r) m = some m') : Inv m' := by
  simp only [step, h.np, Bool.false_eq_true, if_false] at hs
  split at hs
  case isFalse => cases hs
  rename_i hg
  have hm := (phaseOf_eq h).mp hg
  have hnd := has_req_not_done h hm
  simp only [Option.some.injEq] at hs
  subst hs
  cases hsd : m.st.shuttingDown with
  | some cause =>
    have ht : tEnqueue (argsReq r) m.st = (m.st, { err := some (.serverClosing cause) }) := by simp [tEnqueue, hsd]
    have hfe := fire_eq tEnqueue (argsReq r) m (by simp [ht]) (by simp [ht]) (by simp [ht])
    have h1 : Inv (fire tEnqueue (argsReq r) m).1 := by
      rw [hfe]
      obtain ⟨e1, e2, e3, e4⟩ := epi_D h (tEnqueue (argsReq r) m.st).1 (tEnqueue (argsReq r) m.st).2
        (by simp [ht]) (by simp [ht]) (by simp [hnd]) (by simp [ht]) (by simp [ht]) (by simp [ht])
      constructor
      inv_rest h e1 e2 e3 e4 [ht]
    have herr : (fire tEnqueue (argsReq r) m).2.err.isSome = true := by rw [hfe]; simp [epi_err, ht]
    have hm1 : (r, Phase.accepted) ∈ (fire tEnqueue (argsReq r) m).1.reqs := by rw [hfe]; exact hm
    simp only [herr, if_true]
    exact inv_setPlain h1 hm1 (by simp) (by simp) (by simp) (fun _ => rfl) (by simp)
  | none =>
    have ht : tEnqueue (argsReq r) m.st =
        ({ m.st with queue := m.st.queue ++ [r], handlerRunning := true }, { spawnHandler := !m.st.handlerRunning }) := by
      simp [tEnqueue, hsd, argsReq]
    have hfe := fire_eq tEnqueue (argsReq r) m (by simp [ht]) (by simp [ht]) (by simp [ht])
    have herr : (fire tEnqueue (argsReq r) m).2.err.isSome = false := by rw [hfe]; simp [epi_err, ht]
    simp only [herr, Bool.false_eq_true, if_false]
    rw [hfe, setPhase_eq]
    obtain ⟨e1, e2, e3, e4⟩ := epi_D h (tEnqueue (argsReq r) m.st).1 (tEnqueue (argsReq r) m.st).2
      (by simp [ht]) (by simp [ht]) (by simp [hnd]) (by simp [ht]) (by simp [ht]) (by simp [ht])
    constructor
    case reqsI => simpa [epi_incoming, epi_byID, epi_queue, epi_handlerRunning, ht] using h.reqsI.enqueue hm
    inv_rest h e1 e2 e3 e4 [ht]

theorem inv_dequeue {m m' : M} (h : Inv m) (hs : step .dequeue m = some m') : Inv m' := by
  simp only [step, h.np, Bool.false_eq_true, if_false] at hs
  split at hs
  case isFalse => cases hs
  rename_i hg
  have hnd : m.st.done = false := by
    cases hd : m.st.done
    · rfl
    · have := (done_quiet h hd).2.2.2.2.2.2.2.1; rw [hg] at this; cases this
  cases hq : m.st.queue with
  | nil =>
    have ht : tDequeue noArgs m.st = ({ m.st with handlerRunning := false }, {}) := by simp [tDequeue, hq]
    have hfe := fire_eq tDequeue noArgs m (by simp [ht]) (by simp [ht]) (by simp [ht])
    have hreq : (fire tDequeue noArgs m).2.req = none := by rw [hfe]; simp [epi_req, ht]
    rw [hreq] at hs
    simp only [Option.some.injEq] at hs
    subst hs
    rw [hfe]
    obtain ⟨e1, e2, e3, e4⟩ := epi_D h (tDequeue noArgs m.st).1 (tDequeue noArgs m.st).2
      (by simp [ht]) (by simp [ht]) (by simp [hnd]) (by simp [ht]) (by simp [ht]) (by simp [ht])
    constructor
    case reqsI =>
      have := h.reqsI
      rw [hq] at this
      simpa [epi_incoming, epi_byID, epi_queue, epi_handlerRunning, ht, hq] using this.handlerExit
    inv_rest h e1 e2 e3 e4 [ht]
  | cons r q =>
    have ht : tDequeue noArgs m.st = ({ m.st with queue := q }, { req := some r }) := by simp [tDequeue, hq]
    have hfe := fire_eq tDequeue noArgs m (by simp [ht]) (by simp [ht]) (by simp [ht])
    have hreq : (fire tDequeue noArgs m).2.req = some r := by rw [hfe]; simp [epi_req, ht]
    rw [hreq] at hs
    simp only [Option.some.injEq] at hs
    subst hs
    rw [hfe, setPhase_eq]
    obtain ⟨e1, e2, e3, e4⟩ := epi_D h (tDequeue noArgs m.st).1 (tDequeue noArgs m.st).2
      (by simp [ht]) (by simp [ht]) (by simp [hnd]) (by simp [ht]) (by simp [ht]) (by simp [ht])
    constructor
    case reqsI =>
      have := h.reqsI
      rw [hq] at this
      simpa [epi_incoming, epi_byID, epi_queue, epi_handlerRunning, ht] using this.dequeue
    inv_rest h e1 e2 e3 e4 [ht]

theorem inv_prDelete {m m' : M} (r : Req) (h : Inv m) (hs : step (.prDelete r) m = some m') : Inv m' := by
  simp only [step, h.np, Bool.false_eq_true, if_false] at hs
  split at hs
  case isFalse => cases hs
  rename_i hg
  simp only [Bool.and_eq_true, decide_eq_true_eq] at hg
  have hm := (phaseOf_eq h).mp hg.1
  have hnd := has_req_not_done h hm
  simp only [Option.some.injEq] at hs
  subst hs
  have ht : tPrDelete (argsReq r) m.st = ({ m.st with byID := Map.del m.st.byID r.id }, {}) := by simp [tPrDelete, argsReq]
  rw [fire_eq tPrDelete (argsReq r) m (by simp [ht]) (by simp [ht]) (by simp [ht]), setPhase_eq]
  obtain ⟨e1, e2, e3, e4⟩ := epi_D h (tPrDelete (argsReq r) m.st).1 (tPrDelete (argsReq r) m.st).2
    (by simp [ht]) (by simp [ht]) (by simp [hnd]) (by simp [ht]) (by simp [ht]) (by simp [ht])
  constructor
  case reqsI => simpa [epi_incoming, epi_byID, epi_queue, epi_handlerRunning, ht] using h.reqsI.prDelete hm hg.2
  inv_rest h e1 e2 e3 e4 [ht]

theorem inv_prFinish {m m' : M} (r : Req) (h : Inv m) (hs : step (.prFinish r) m = some m') : Inv m' := by
  simp only [step, h.np, Bool.false_eq_true, if_false] at hs
  split at hs
  case isFalse => cases hs
  rename_i hg
  simp only [Bool.or_eq_true, Bool.and_eq_true, decide_eq_true_eq, Bool.not_eq_true'] at hg
  obtain ⟨p0, hm, hp0⟩ : ∃ p0, (r, p0) ∈ m.reqs ∧ (p0 = Phase.writing ∨ (p0 = Phase.result ∧ r.isCall = false)) := by
    rcases hg with hg | hg
    · exact ⟨_, (phaseOf_eq h).mp hg, Or.inl rfl⟩
    · exact ⟨_, (phaseOf_eq h).mp hg.1, Or.inr ⟨rfl, hg.2⟩⟩
  have hnd := has_req_not_done h hm
  have hpos : m.st.incoming ≠ 0 := by
    have := h.reqsI.inc
    have hl : 0 < m.reqs.length := List.length_pos_of_mem hm
    omega
  simp only [Option.some.injEq] at hs
  subst hs
  have ht : tPrFinish noArgs m.st = ({ m.st with incoming := m.st.incoming - 1 }, {}) := by
    simp [tPrFinish, hpos]
  rw [fire_eq tPrFinish noArgs m (by simp [ht]) (by simp [ht]) (by simp [ht]), dropReq_eq]
  obtain ⟨e1, e2, e3, e4⟩ := epi_D h (tPrFinish noArgs m.st).1 (tPrFinish noArgs m.st).2
    (by simp [ht]) (by simp [ht]) (by simp [hnd]) (by simp [ht]) (by simp [ht]) (by simp [ht])
  constructor
  case reqsI => simpa [epi_incoming, epi_byID, epi_queue, epi_handlerRunning, ht] using h.reqsI.prFinish hm hp0
  inv_rest h e1 e2 e3 e4 [ht]

/-- `Inv` is inductive. -/
theorem inv_step {m m' : M} (a : Act) (h : Inv m) (hs : step a m = some m') : Inv m' := by
  cases a with
  | start => exact inv_start h hs
  | notifyEnter => exact inv_notifyEnter h hs
  | notifyExit => exact inv_notifyExit h hs
  | callNew => exact inv_callNew h hs
  | callMarshalFail c => exact inv_callMarshalFail c h hs
  | callRegister c => exact inv_callRegister c h hs
  | callWriteOk c => exact inv_callWriteOk c h hs
  | callWriteFail c => exact inv_callWriteFail c h hs
  | respond r => exact inv_respond r h hs
  | cancel id => exact inv_cancel id h hs
  | wait => exact inv_wait h hs
  | close => exact inv_close h hs
  | recvResponse id => exact inv_recvResponse id h hs
  | readerExit => exact inv_readerExit h hs
  | accept id => exact inv_accept id h hs
  | preemptAsync r => exact inv_preemptAsync r h hs
  | preemptDone r => exact inv_preemptDone r h hs
  | preemptLeak r => exact inv_preemptLeak r h hs
  | enqueue r => exact inv_enqueue r h hs
  | dequeue => exact inv_dequeue h hs
  | handleCancelled r => exact inv_handleCancelled r h hs
  | handleDone r => exact inv_handleDone r h hs
  | handleAsyncResp r => exact inv_handleAsyncResp r h hs
  | handleLeak r => exact inv_handleLeak r h hs
  | prDelete r => exact inv_prDelete r h hs
  | prFinish r => exact inv_prFinish r h hs
  | writeFail => exact inv_writeFail h hs

theorem inv_reachable {m : M} (h : Reachable m) : Inv m := by
  induction h with
  | init => exact inv_init
  | step a _ hs ih => exact inv_step a ih hs

end GopModel.InFlight
