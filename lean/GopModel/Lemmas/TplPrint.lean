/-
Lemmas for C31: parsing the minimal-parenthesis token list of a well-formed expression.
`Ev g v` = "g returns v for every sufficiently large fuel"; the lemmas compose such facts along
the structure of the printed expression.
-/
import GopModel.Lemmas.TplParse
namespace GopModel.Tpl

/-- well-formed expressions (no constraint on literal tokens beyond their kind) -/
abbrev NF (e : Expr) : Prop := NFP (fun _ => True) e
abbrev NFs (l : List Expr) : Prop := NFPs (fun _ => True) l

def Ev {α : Type} (g : Nat → Option α) (v : α) : Prop := ∃ n, ∀ m, n ≤ m → g m = some v

/-- kind of the first token (EOF for the empty list): what `PS.tok` sees -/
def hk : List Tok → Nat
  | [] => T.EOF
  | t :: _ => t.kind

@[simp] theorem PS.tok_mk (ts : List Tok) (errs) : (PS.mk ts errs).tok = hk ts := by
  cases ts <;> rfl
@[simp] theorem hk_cons (t : Tok) (ts) : hk (t :: ts) = t.kind := rfl
@[simp] theorem PS.lit_cons (t : Tok) (ts : List Tok) (errs) : (PS.mk (t :: ts) errs).lit = t.lit := rfl
@[simp] theorem PS.next_mk_cons (t : Tok) (ts : List Tok) (errs) : (PS.mk (t :: ts) errs).next = ⟨ts, errs⟩ := rfl

def factorStart (k : Nat) : Bool :=
  k = T.IDENT || k = T.CHAR || k = T.STRING || isUnaryOp k || k = T.LPAREN

/-- nothing that continues a term list: not a factor, not `++`, not `%` -/
def StopTerm (rest : List Tok) : Prop :=
  factorStart (hk rest) = false ∧ hk rest ≠ T.INC ∧ hk rest ≠ T.REM

/-- nothing that continues an expression: additionally not `|` -/
def StopExpr (rest : List Tok) : Prop := StopTerm rest ∧ hk rest ≠ T.OR

/-! ### shape of the printed token lists -/

theorem printAt_eq (c : Nat) (e : Expr) (hc : c ≤ 4) :
    printAt c e = if e.level < c then opTok T.LPAREN :: (printE e ++ [opTok T.RPAREN]) else printE e := by
  cases e with
  | ident n =>
    have : ¬ (4 < c) := by omega
    simp [printAt, printE, Expr.level, this]
  | lit k v =>
    have : ¬ (4 < c) := by omega
    simp [printAt, printE, Expr.level, this]
  | seq items => rw [printAt, printE]; rfl
  | choice opts => rw [printAt, printE]; rfl
  | unary op x =>
    have : ¬ (4 < c) := by omega
    simp [printAt, printE, Expr.level, this]
  | binary op x y => rw [printAt, printE]; rfl
  | nil =>
    have : ¬ (4 < c) := by omega
    simp [printAt, printE, Expr.level, this]

theorem printE_eq (e : Expr) : printE e = printAt 0 e := by
  rw [printAt_eq _ _ (by omega)]; simp

theorem hk_append {l r : List Tok} (h : factorStart (hk l) = true) : hk (l ++ r) = hk l := by
  cases l with
  | nil => exact absurd h (by decide)
  | cons t tl => rfl

mutual
theorem head_printAt : ∀ (e : Expr) (c : Nat), NF e → factorStart (hk (printAt c e)) = true
  | .ident n, c, _ => by simp [printAt, factorStart]
  | .lit k v, c, h => by
    obtain ⟨hk', _⟩ := h
    rcases hk' with rfl | rfl <;> simp [printAt, factorStart]
  | .unary op x, c, h => by
    obtain ⟨hop, _⟩ := h
    simp [printAt, factorStart, opTok, hop]
  | .binary op x y, c, h => by
    obtain ⟨_, hx, _⟩ := h
    by_cases hop : op = T.REM
    · by_cases hc : 2 < c
      · simp [printAt, hop, hc, factorStart, opTok]
      · have := head_printAt x 2 hx
        simp only [printAt, hop, hc, if_true, if_false]
        rw [hk_append this]; exact this
    · by_cases hc : 3 < c
      · simp [printAt, hop, hc, factorStart, opTok]
      · have := head_printAt x 3 hx
        simp only [printAt, hop, hc, if_false]
        rw [hk_append this]; exact this
  | .seq items, c, h => by
    obtain ⟨hlen, hit⟩ := h
    simp only [printAt]
    split
    · simp [factorStart, opTok]
    · exact head_printItems items hit (by omega)
  | .choice opts, c, h => by
    obtain ⟨hlen, hit⟩ := h
    simp only [printAt]
    split
    · simp [factorStart, opTok]
    · exact head_printOpts opts hit (by omega)
  | .nil, _, h => by cases h
theorem head_printItems : ∀ (l : List Expr), NFs l → 0 < l.length → factorStart (hk (printItems l)) = true
  | [], _, h => by simp at h
  | e :: rest, hn, _ => by
    obtain ⟨he, _⟩ := hn
    have := head_printAt e 2 he
    simp only [printItems]
    rw [hk_append this]; exact this
theorem head_printOpts : ∀ (l : List Expr), NFs l → 0 < l.length → factorStart (hk (printOpts l)) = true
  | [], _, h => by simp at h
  | [e], hn, _ => by
    obtain ⟨he, _⟩ := hn
    simpa [printOpts] using head_printAt e 1 he
  | e :: e2 :: rest, hn, _ => by
    obtain ⟨he, _⟩ := hn
    have := head_printAt e 1 he
    simp only [printOpts]
    rw [hk_append this]; exact this
end

/-! ### composing evaluations -/

theorem Ev.intro1 {α : Type} {g : Nat → Option α} {v : α} (N : Nat)
    (h : ∀ m, N ≤ m → g (m + 1) = some v) : Ev g v :=
  ⟨N + 1, fun m hm => by
    obtain ⟨m', rfl⟩ : ∃ m', m = m' + 1 := ⟨m - 1, by omega⟩
    exact h m' (by omega)⟩

theorem factorStart_false {k : Nat} (h : factorStart k = false) :
    k ≠ T.IDENT ∧ (decide (k = T.CHAR) || decide (k = T.STRING)) = false ∧ isUnaryOp k = false ∧ k ≠ T.LPAREN := by
  simp only [factorStart, Bool.or_eq_false_iff, decide_eq_false_iff_not] at h
  obtain ⟨⟨⟨⟨h1, h2⟩, h3⟩, h4⟩, h5⟩ := h
  exact ⟨h1, by simp [h2, h3], h4, h5⟩

theorem ev_factor_none {rest : List Tok} (errs) (h : factorStart (hk rest) = false) :
    Ev (fun f => pFactor f ⟨rest, errs⟩) (none, ⟨rest, errs⟩) := by
  obtain ⟨h1, h2, h3, h4⟩ := factorStart_false h
  apply Ev.intro1 0
  intro m _
  rw [pFactor]
  simp [h1, h2, h3, h4]

theorem ev_term2_none {rest : List Tok} (errs) (h : factorStart (hk rest) = false) :
    Ev (fun f => pTerm2 f ⟨rest, errs⟩) (none, ⟨rest, errs⟩) := by
  obtain ⟨n, hn⟩ := ev_factor_none errs h
  dsimp only at hn
  apply Ev.intro1 n
  intro m hm
  rw [pTerm2, hn m hm]

theorem ev_term_none {rest : List Tok} (errs) (h : factorStart (hk rest) = false) :
    Ev (fun f => pTerm f ⟨rest, errs⟩) (none, ⟨rest, errs⟩) := by
  obtain ⟨n, hn⟩ := ev_term2_none errs h
  dsimp only at hn
  apply Ev.intro1 n
  intro m hm
  rw [pTerm, hn m hm]

theorem ev_term2Loop_stop (x : Expr) {rest : List Tok} (errs) (h : hk rest ≠ T.INC) :
    Ev (fun f => pTerm2Loop f x ⟨rest, errs⟩) (some x, ⟨rest, errs⟩) := by
  apply Ev.intro1 0
  intro m _
  rw [pTerm2Loop]
  simp [h]

theorem ev_termLoop_stop (x : Expr) {rest : List Tok} (errs) (h : hk rest ≠ T.REM) :
    Ev (fun f => pTermLoop f x ⟨rest, errs⟩) (some x, ⟨rest, errs⟩) := by
  apply Ev.intro1 0
  intro m _
  rw [pTermLoop]
  simp [h]

def P4 (e : Expr) : Prop := ∀ rest errs,
  Ev (fun f => pFactor f ⟨printAt 4 e ++ rest, errs⟩) (some e, ⟨rest, errs⟩)
def Q3 (e : Expr) : Prop := ∀ rest errs R,
  Ev (fun f => pTerm2Loop f e ⟨rest, errs⟩) R → Ev (fun f => pTerm2 f ⟨printAt 3 e ++ rest, errs⟩) R
def Q2 (e : Expr) : Prop := ∀ rest errs R, hk rest ≠ T.INC →
  Ev (fun f => pTermLoop f e ⟨rest, errs⟩) R → Ev (fun f => pTerm f ⟨printAt 2 e ++ rest, errs⟩) R
def TL (e : Expr) : Prop := ∀ rest errs, StopTerm rest →
  Ev (fun f => pTermList f ⟨printAt 1 e ++ rest, errs⟩) (e, ⟨rest, errs⟩)
def EX (e : Expr) : Prop := ∀ rest errs, StopExpr rest →
  Ev (fun f => pExpr f ⟨printAt 0 e ++ rest, errs⟩) (e, ⟨rest, errs⟩)

/-! atoms -/

theorem P4_ident (n : Bytes) : P4 (.ident n) := by
  intro rest errs
  apply Ev.intro1 0
  intro m _
  rw [pFactor]
  simp [printAt]

theorem P4_lit (k : Nat) (v : Bytes) (hk' : k = T.CHAR ∨ k = T.STRING) : P4 (.lit k v) := by
  intro rest errs
  apply Ev.intro1 0
  intro m _
  rw [pFactor]
  rcases hk' with rfl | rfl <;> simp +decide [printAt]

theorem P4_unary (op : Nat) (x : Expr) (hop : isUnaryOp op = true) (hx : P4 x) : P4 (.unary op x) := by
  intro rest errs
  obtain ⟨n, hn⟩ := hx rest errs
  dsimp only at hn
  apply Ev.intro1 n
  intro m hm
  rw [pFactor]
  have h1 : op ≠ T.IDENT := by intro h; rw [h] at hop; revert hop; decide
  have h2 : (decide (op = T.CHAR) || decide (op = T.STRING)) = false := by
    cases hc : (decide (op = T.CHAR) || decide (op = T.STRING)) with
    | false => rfl
    | true =>
      simp only [Bool.or_eq_true, decide_eq_true_eq] at hc
      rcases hc with h | h <;> (rw [h] at hop; revert hop; decide)
  simp [printAt, opTok, h1, h2, hop, hn m hm]

/-! moving between levels -/

theorem Q3_of_P4 {e : Expr} (h : P4 e) (hp : printAt 3 e = printAt 4 e) : Q3 e := by
  intro rest errs R hR
  obtain ⟨n1, h1⟩ := h rest errs
  obtain ⟨n2, h2⟩ := hR
  dsimp only at h1 h2
  apply Ev.intro1 (max n1 n2)
  intro m hm
  rw [pTerm2, hp, h1 m (by omega)]
  exact h2 m (by omega)

theorem Q2_of_Q3 {e : Expr} (h : Q3 e) (hp : printAt 2 e = printAt 3 e) : Q2 e := by
  intro rest errs R hinc hR
  obtain ⟨n1, h1⟩ := h rest errs _ (ev_term2Loop_stop e errs hinc)
  obtain ⟨n2, h2⟩ := hR
  dsimp only at h1 h2
  apply Ev.intro1 (max n1 n2)
  intro m hm
  rw [pTerm, hp, h1 m (by omega)]
  exact h2 m (by omega)

/-- a whole term, when nothing that continues it follows -/
theorem term_of_Q2 {e : Expr} (h : Q2 e) (rest : List Tok) (errs) (h1 : hk rest ≠ T.INC) (h2 : hk rest ≠ T.REM) :
    Ev (fun f => pTerm f ⟨printAt 2 e ++ rest, errs⟩) (some e, ⟨rest, errs⟩) :=
  h rest errs _ h1 (ev_termLoop_stop e errs h2)

theorem term2_of_Q3 {e : Expr} (h : Q3 e) (rest : List Tok) (errs) (h1 : hk rest ≠ T.INC) :
    Ev (fun f => pTerm2 f ⟨printAt 3 e ++ rest, errs⟩) (some e, ⟨rest, errs⟩) :=
  h rest errs _ (ev_term2Loop_stop e errs h1)

theorem Q3_inc {x y : Expr} (hx : Q3 x) (hy : P4 y) : Q3 (.binary T.INC x y) := by
  intro rest errs R hR
  have hp : printAt 3 (.binary T.INC x y) = printAt 3 x ++ opTok T.INC :: printAt 4 y := by
    simp +decide [printAt]
  rw [hp, List.append_assoc]
  apply hx
  obtain ⟨n1, h1⟩ := hy rest errs
  obtain ⟨n2, h2⟩ := hR
  dsimp only at h1 h2
  apply Ev.intro1 (max n1 n2)
  intro m hm
  rw [pTerm2Loop]
  simp only [List.cons_append, PS.tok_mk, hk_cons, opTok, if_true, PS.next_mk_cons]
  rw [h1 m (by omega)]
  exact h2 m (by omega)

theorem Q2_rem {x y : Expr} (hx : Q2 x) (hy : Q3 y) : Q2 (.binary T.REM x y) := by
  intro rest errs R hinc hR
  have hp : printAt 2 (.binary T.REM x y) = printAt 2 x ++ opTok T.REM :: printAt 3 y := by
    simp +decide [printAt]
  rw [hp, List.append_assoc]
  apply hx _ _ _ (by simp +decide [opTok])
  obtain ⟨n1, h1⟩ := term2_of_Q3 hy rest errs hinc
  obtain ⟨n2, h2⟩ := hR
  dsimp only at h1 h2
  apply Ev.intro1 (max n1 n2)
  intro m hm
  rw [pTermLoop]
  simp only [List.cons_append, PS.tok_mk, hk_cons, opTok, if_true, PS.next_mk_cons]
  rw [h1 m (by omega)]
  exact h2 m (by omega)

/-! sequences -/

theorem factorStart_not_op {k : Nat} (h : factorStart k = true) : k ≠ T.INC ∧ k ≠ T.REM ∧ k ≠ T.OR := by
  refine ⟨?_, ?_, ?_⟩ <;> (intro hk'; rw [hk'] at h; revert h; decide)

theorem termsLoop_stop (acc : List Expr) {rest : List Tok} (errs) (h : StopTerm rest) :
    Ev (fun f => pTermsLoop f acc ⟨rest, errs⟩) (acc.reverse, ⟨rest, errs⟩) := by
  obtain ⟨n, hn⟩ := ev_term_none errs h.1
  dsimp only at hn
  apply Ev.intro1 n
  intro m hm
  rw [pTermsLoop, hn m hm]

theorem termsLoop_items : ∀ (items : List Expr), (∀ i ∈ items, Q2 i ∧ NF i) →
    ∀ (acc : List Expr) (rest : List Tok) (errs) (R), StopTerm rest →
    Ev (fun f => pTermsLoop f (items.reverse ++ acc) ⟨rest, errs⟩) R →
    Ev (fun f => pTermsLoop f acc ⟨printItems items ++ rest, errs⟩) R
  | [], _, acc, rest, errs, R, _, hR => by simpa [printItems] using hR
  | e :: more, hall, acc, rest, errs, R, hstop, hR => by
    have he := hall e (by simp)
    have hmore : ∀ i ∈ more, Q2 i ∧ NF i := fun i hi => hall i (by simp [hi])
    have hrest' : hk (printItems more ++ rest) ≠ T.INC ∧ hk (printItems more ++ rest) ≠ T.REM := by
      cases more with
      | nil => simpa [printItems] using ⟨hstop.2.1, hstop.2.2⟩
      | cons e2 tl =>
        have hs := head_printItems (e2 :: tl) ((NFPs_iff _ _).2 fun i hi => (hmore i hi).2) (by simp)
        rw [hk_append hs]
        exact ⟨(factorStart_not_op hs).1, (factorStart_not_op hs).2.1⟩
    obtain ⟨n1, h1⟩ := term_of_Q2 he.1 (printItems more ++ rest) errs hrest'.1 hrest'.2
    have hR' : Ev (fun f => pTermsLoop f (more.reverse ++ (e :: acc)) ⟨rest, errs⟩) R := by
      simpa using hR
    obtain ⟨n2, h2⟩ := termsLoop_items more hmore (e :: acc) rest errs R hstop hR'
    dsimp only at h1 h2
    apply Ev.intro1 (max n1 n2)
    intro m hm
    rw [pTermsLoop]
    simp only [printItems, List.append_assoc]
    rw [h1 m (by omega)]
    exact h2 m (by omega)

theorem TL_seq {items : List Expr} (hall : ∀ i ∈ items, Q2 i ∧ NF i) (hlen : 2 ≤ items.length) :
    TL (.seq items) := by
  intro rest errs hstop
  have hp : printAt 1 (.seq items) = printItems items := by simp [printAt]
  have h0 := termsLoop_items items hall [] rest errs _ hstop (termsLoop_stop (items.reverse ++ []) errs hstop)
  obtain ⟨n, hn⟩ := h0
  dsimp only at hn
  apply Ev.intro1 n
  intro m hm
  rw [pTermList, hp, hn m hm]
  match items, hlen with
  | a :: b :: tl, _ => simp

theorem TL_of_Q2 {e : Expr} (h : Q2 e) (hnf : NF e) (hp : printAt 1 e = printAt 2 e) : TL e := by
  intro rest errs hstop
  have hall : ∀ i ∈ [e], Q2 i ∧ NF i := by
    intro i hi
    simp only [List.mem_singleton] at hi
    subst hi
    exact ⟨h, hnf⟩
  have h0 := termsLoop_items [e] hall [] rest errs _ hstop (termsLoop_stop ([e].reverse ++ []) errs hstop)
  obtain ⟨n, hn⟩ := h0
  simp only [printItems, List.append_nil] at hn
  apply Ev.intro1 n
  intro m hm
  rw [pTermList, hp, hn m hm]
  simp

/-! choices -/

/-- `| o₁ | o₂ …` -/
def orOpts : List Expr → List Tok
  | [] => []
  | o :: rest => opTok T.OR :: (printAt 1 o ++ orOpts rest)

theorem printOpts_cons : ∀ (o : Expr) (more : List Expr), printOpts (o :: more) = printAt 1 o ++ orOpts more
  | o, [] => by simp [printOpts, orOpts]
  | o, o2 :: tl => by
    rw [printOpts, printOpts_cons o2 tl]
    all_goals simp [orOpts]

theorem optsLoop_stop (acc : List Expr) {rest : List Tok} (errs) (h : hk rest ≠ T.OR) :
    Ev (fun f => pOptsLoop f acc ⟨rest, errs⟩) (acc.reverse, ⟨rest, errs⟩) := by
  apply Ev.intro1 0
  intro m _
  rw [pOptsLoop]
  simp [h]

theorem optsLoop_opts : ∀ (opts : List Expr), (∀ o ∈ opts, TL o) →
    ∀ (acc : List Expr) (rest : List Tok) (errs) (R), StopExpr rest →
    Ev (fun f => pOptsLoop f (opts.reverse ++ acc) ⟨rest, errs⟩) R →
    Ev (fun f => pOptsLoop f acc ⟨orOpts opts ++ rest, errs⟩) R
  | [], _, acc, rest, errs, R, _, hR => by simpa [orOpts] using hR
  | o :: more, hall, acc, rest, errs, R, hstop, hR => by
    have ho := hall o (by simp)
    have hmore : ∀ i ∈ more, TL i := fun i hi => hall i (by simp [hi])
    have hrest' : StopTerm (orOpts more ++ rest) := by
      cases more with
      | nil => simpa [orOpts] using hstop.1
      | cons e2 tl => simp +decide [orOpts, StopTerm, opTok]
    obtain ⟨n1, h1⟩ := ho (orOpts more ++ rest) errs hrest'
    have hR' : Ev (fun f => pOptsLoop f (more.reverse ++ (o :: acc)) ⟨rest, errs⟩) R := by
      simpa using hR
    obtain ⟨n2, h2⟩ := optsLoop_opts more hmore (o :: acc) rest errs R hstop hR'
    dsimp only at h1 h2
    apply Ev.intro1 (max n1 n2)
    intro m hm
    rw [pOptsLoop]
    simp only [orOpts, List.cons_append, List.append_assoc, PS.tok_mk, hk_cons, opTok, if_true, PS.next_mk_cons]
    rw [h1 m (by omega)]
    exact h2 m (by omega)

theorem EX_choice {opts : List Expr} (hall : ∀ o ∈ opts, TL o) (hlen : 2 ≤ opts.length) :
    EX (.choice opts) := by
  intro rest errs hstop
  match opts, hlen, hall with
  | o :: o2 :: tl, _, hall =>
    have hp : printAt 0 (.choice (o :: o2 :: tl)) = printAt 1 o ++ orOpts (o2 :: tl) := by
      simp only [printAt, Nat.lt_irrefl, if_false]
      exact printOpts_cons o (o2 :: tl)
    have hs1 : StopTerm (orOpts (o2 :: tl) ++ rest) := by simp +decide [orOpts, StopTerm, opTok]
    obtain ⟨n1, h1⟩ := hall o (by simp) (orOpts (o2 :: tl) ++ rest) errs hs1
    have h0 := optsLoop_opts (o2 :: tl) (fun i hi => hall i (by simp [hi])) [o] rest errs _ hstop
      (optsLoop_stop ((o2 :: tl).reverse ++ [o]) errs hstop.2)
    obtain ⟨n2, h2⟩ := h0
    dsimp only at h1 h2
    apply Ev.intro1 (max n1 n2)
    intro m hm
    rw [pExpr, hp, List.append_assoc, h1 m (by omega)]
    have htok : (PS.mk (orOpts (o2 :: tl) ++ rest) errs).tok = T.OR := by simp [orOpts, opTok]
    simp only [htok, if_true]
    rw [h2 m (by omega)]
    simp

theorem EX_of_TL {e : Expr} (h : TL e) (hp : printAt 0 e = printAt 1 e) : EX e := by
  intro rest errs hstop
  obtain ⟨n, hn⟩ := h rest errs hstop.1
  dsimp only at hn
  apply Ev.intro1 n
  intro m hm
  rw [pExpr, hp, hn m hm]
  simp [hstop.2]

/-! parentheses -/

theorem P4_paren {e : Expr} (h : EX e)
    (hp : printAt 4 e = opTok T.LPAREN :: (printAt 0 e ++ [opTok T.RPAREN])) : P4 e := by
  intro rest errs
  have hs : StopExpr (opTok T.RPAREN :: rest) := by simp +decide [StopExpr, StopTerm, opTok]
  obtain ⟨n, hn⟩ := h (opTok T.RPAREN :: rest) errs hs
  dsimp only at hn
  apply Ev.intro1 n
  intro m hm
  rw [pFactor, hp]
  simp +decide only [List.cons_append, List.append_assoc, List.nil_append, PS.tok_mk, hk_cons, opTok,
    if_true, if_false, PS.next_mk_cons, isUnaryOp, Bool.or_self]
  have := hn m hm
  simp only [opTok] at this
  rw [this]
  simp [PS.expect, PS.next]

/-! ### assembling along the structure of the expression -/

structure S (e : Expr) : Prop where
  p4 : P4 e
  q3 : Q3 e
  q2 : Q2 e
  tl : TL e
  ex : EX e

theorem S_of_atom {e : Expr} (hnf : NF e) (p4 : P4 e) (h34 : printAt 3 e = printAt 4 e)
    (h23 : printAt 2 e = printAt 3 e) (h12 : printAt 1 e = printAt 2 e) (h01 : printAt 0 e = printAt 1 e) :
    S e :=
  have q3 := Q3_of_P4 p4 h34
  have q2 := Q2_of_Q3 q3 h23
  have tl := TL_of_Q2 q2 hnf h12
  ⟨p4, q3, q2, tl, EX_of_TL tl h01⟩

mutual
theorem S_expr : ∀ (e : Expr), NF e → S e
  | .ident n, hnf => S_of_atom hnf (P4_ident n) rfl rfl rfl rfl
  | .lit k v, hnf => S_of_atom hnf (P4_lit k v hnf.1) rfl rfl rfl rfl
  | .unary op x, hnf =>
    S_of_atom hnf (P4_unary op x hnf.1 (S_expr x hnf.2).p4) rfl rfl rfl rfl
  | .binary op x y, hnf => by
    obtain ⟨hop, hx, hy⟩ := hnf
    have sx := S_expr x hx
    have sy := S_expr y hy
    rcases hop with rfl | rfl
    · -- x % y
      have hnf' : NF (.binary T.REM x y) := ⟨Or.inl rfl, hx, hy⟩
      have q2 := Q2_rem sx.q2 sy.q3
      have tl := TL_of_Q2 q2 hnf' (by simp +decide [printAt])
      have ex := EX_of_TL tl (by simp +decide [printAt])
      have p4 := P4_paren ex (by simp +decide [printAt])
      exact ⟨p4, Q3_of_P4 p4 (by simp +decide [printAt]), q2, tl, ex⟩
    · -- x ++ y
      have hnf' : NF (.binary T.INC x y) := ⟨Or.inr rfl, hx, hy⟩
      have q3 := Q3_inc sx.q3 sy.p4
      have q2 := Q2_of_Q3 q3 (by simp +decide [printAt])
      have tl := TL_of_Q2 q2 hnf' (by simp +decide [printAt])
      have ex := EX_of_TL tl (by simp +decide [printAt])
      exact ⟨P4_paren ex (by simp +decide [printAt]), q3, q2, tl, ex⟩
  | .seq items, hnf => by
    have hl := S_list items hnf.2
    have tl := TL_seq (items := items)
      (fun i hi => ⟨(hl i hi).q2, (NFPs_iff _ _).1 hnf.2 i hi⟩) hnf.1
    have ex := EX_of_TL tl (by simp [printAt])
    have p4 := P4_paren ex (by simp [printAt])
    have q3 := Q3_of_P4 p4 (by simp [printAt])
    exact ⟨p4, q3, Q2_of_Q3 q3 (by simp [printAt]), tl, ex⟩
  | .choice opts, hnf => by
    have hl := S_list opts hnf.2
    have ex := EX_choice (opts := opts) (fun i hi => (hl i hi).tl) hnf.1
    have p4 := P4_paren ex (by simp [printAt])
    have q3 := Q3_of_P4 p4 (by simp [printAt])
    have q2 := Q2_of_Q3 q3 (by simp [printAt])
    exact ⟨p4, q3, q2, TL_of_Q2 q2 hnf (by simp [printAt]), ex⟩
  | .nil, hnf => by cases hnf
theorem S_list : ∀ (l : List Expr), NFs l → ∀ e ∈ l, S e
  | [], _, e, he => by simp at he
  | a :: rest, hn, e, he => by
    simp only [List.mem_cons] at he
    rcases he with rfl | he
    · exact S_expr _ hn.1
    · exact S_list rest hn.2 e he
end

end GopModel.Tpl
