/-
`TablesInverse P Q` implies that `Q ∘ P` preserves the header of every supported tree.
Structural induction over `Tree`/`Forest` (mutual), for an arbitrary pair of table programs.
-/
import GopModel.Lemmas.ConvTables
namespace GopModel.Conv

/-! ### facts about the fixed specification tables -/

theorem hdrTable_uniq :
    hdrTable.all (fun t => t.2.all (fun e => specOf t.2 e.1 == some e.2)) = true := by decide

theorem hdrFields_uniq (k : String) (e : String × FSpec) (he : e ∈ hdrFields k) :
    specOf (hdrFields k) e.1 = some e.2 := by
  unfold hdrFields at he ⊢
  cases h : List.find? (fun t => t.1 == k) hdrTable with
  | none => rw [h] at he; cases he
  | some t =>
    rw [h] at he
    simp only [] at he ⊢
    have ht : t ∈ hdrTable := List.mem_of_find?_eq_some h
    have := List.all_eq_true.mp hdrTable_uniq t ht
    have := List.all_eq_true.mp this e he
    simpa using this

theorem specCls_mem (n : Nat) (c : Cls) (h : specCls n = some c) : (n, c) ∈ specTokens := by
  unfold specCls at h
  unfold specTokens
  by_cases h1 : (n == 75) = true
  · have : n = 75 := by simpa using h1
    subst this; simp at h; subst h; simp
  · by_cases h2 : (n == 84) = true
    · have : n = 84 := by simpa using h2
      subst this; simp at h; subst h; simp
    · by_cases h3 : (n == 85) = true
      · have : n = 85 := by simpa using h3
        subst this; simp at h; subst h; simp
      · by_cases h4 : (n == 64) = true
        · have : n = 64 := by simpa using h4
          subst this; simp at h; subst h; simp
        · simp [h1, h2, h3, h4] at h

/-! ### small facts about the interpreter -/

theorem mkNode_ok {kind : String} {o : Outcome Forest} {m : Tree} (h : mkNode kind o = .ok m) :
    ∃ out, o = .ok out ∧ m = .node kind out := by
  cases o with
  | ok out => simp only [mkNode, Outcome.ok.injEq] at h; exact ⟨out, rfl, h.symm⟩
  | panic m' => simp [mkNode] at h
  | illTyped => simp [mkNode] at h

theorem convElems_cons_shape (P : Prog) (e : ElemR) (n : String) (v : Tree) (r ms : Forest)
    (h : convElems P e (.cons n v r) = .ok ms) : ∃ v' r', ms = .cons n v' r' := by
  simp only [convElems] at h
  split at h
  · split at h
    · simp only [Outcome.ok.injEq] at h; exact ⟨_, _, h.symm⟩
    · cases h
    · cases h
  · cases h
  · cases h

/-! ### the invariant -/

section
variable (P Q : Prog) (W : List Triple)

/-- element conversions that fit class `c`. -/
def ElemOK (c : Cls) (eP eQ : ElemR) : Prop :=
  (∃ f g, eP = .fn f ∧ eQ = .fn g ∧ (c, f, g) ∈ W) ∨
  (∃ f g k k', eP = .assertFn k f ∧ eQ = .assertFn k' g ∧ (c, f, g) ∈ W ∧ c.kinds = [k] ∧
    c.nilable = false ∧ dstKindOf P f k = some k')

/-- round trip of one value of class `c` through a fitting function pair. -/
def RT (t : Tree) : Prop :=
  ∀ c f g, (c, f, g) ∈ W → sup c t = true → ∀ ctx ctx' : Forest,
    ∃ m r, conv P f ctx t = .ok m ∧ conv Q g ctx' m = .ok r ∧ hdr r = hdr t

/-- round trip of the elements of a slice. -/
def RTE (xs : Forest) : Prop :=
  ∀ c eP eQ, ElemOK P W c eP eQ → supElems c xs = true →
    ∃ ms rs, convElems P eP xs = .ok ms ∧ convElems Q eQ ms = .ok rs ∧ hdrElems rs = hdrElems xs

def Inv (t : Tree) : Prop := RT P Q W t ∧ ∀ xs, t = .list xs → RTE P Q W xs


/-- shapes of a fitting function pair. -/
theorem triple_shapes (hW : ∀ t ∈ W, tripleOK P Q W t = true) {c : Cls} {f g : String}
    (h : (c, f, g) ∈ W) :
    ∃ nP casesP dP nQ casesQ dQ,
      P.find f = some (.switch nP casesP dP) ∧ Q.find g = some (.switch nQ casesQ dQ) ∧
      (c.nilable = true → nP = .retNil ∧ nQ = .retNil) ∧
      ∀ k ∈ c.kinds, ∃ cp cq, findCase casesP k = some cp ∧ findCase casesQ cp.dst = some cq ∧
        caseOK P Q W k cp cq = true := by
  have hT := hW _ h
  unfold tripleOK at hT
  simp only [] at hT
  split at hT
  · rename_i nP casesP dP nQ casesQ dQ hP hQ
    refine ⟨nP, casesP, dP, nQ, casesQ, dQ, hP, hQ, ?_, ?_⟩
    · intro hn
      simp only [Bool.and_eq_true, Bool.or_eq_true] at hT
      rcases hT.1 with h1 | h1
      · simp [hn] at h1
      · simp only [beq_iff_eq] at h1; exact h1
    · intro k hk
      simp only [Bool.and_eq_true] at hT
      have := List.all_eq_true.mp hT.2 k hk
      split at this
      · rename_i cp hcp
        split at this
        · rename_i cq hcq
          exact ⟨cp, cq, hcp, hcq, this⟩
        · cases this
      · cases this
  · cases hT

theorem rt_nil (hW : ∀ t ∈ W, tripleOK P Q W t = true) : RT P Q W .nil := by
  intro c f g hmem hsup ctx ctx'
  obtain ⟨nP, casesP, dP, nQ, casesQ, dQ, hP, hQ, hnil, _⟩ := triple_shapes P Q W hW hmem
  have hn : c.nilable = true := by simpa [sup] using hsup
  obtain ⟨h1, h2⟩ := hnil hn
  subst h1; subst h2
  refine ⟨.nil, .nil, ?_, ?_, rfl⟩
  · simp [conv, convNil, hP]
  · simp [conv, convNil, hQ]

/-- Lemma L: a slice (nil, empty or not) through two fitting slice loops. -/
theorem list_rt (c : Cls) (t : Tree) (hs : supList c t = true)
    (hE : ∀ xs, t = .list xs → RTE P Q W xs)
    (lf lg : String) (eP0 eQ0 : Elem) (e2n e2n' : Bool)
    (hlf : P.find lf = some (.listMap eP0 e2n)) (hlg : Q.find lg = some (.listMap eQ0 e2n'))
    (ctx ctx' : Forest) (hfit : ElemOK P W c (eP0.resolve ctx) (eQ0.resolve ctx')) :
    ∃ m r, conv P lf ctx t = .ok m ∧ conv Q lg ctx' m = .ok r ∧ hdrList r = hdrList t := by
  -- the two possible results for an empty/nil input
  have hempty : ∀ m, (m = Tree.nil ∨ m = Tree.list .nil) →
      ∃ r, conv Q lg ctx' m = .ok r ∧ hdrList r = Tree.nil := by
    intro m hm
    rcases hm with rfl | rfl
    · refine ⟨if e2n' then .nil else .list .nil, by simp [conv, convNil, hlg], ?_⟩
      cases e2n' <;> simp [hdrList]
    · refine ⟨if e2n' then .nil else .list .nil, by simp [conv, hlg], ?_⟩
      cases e2n' <;> simp [hdrList]
  cases t with
  | nil =>
    have hm : (if e2n then Tree.nil else Tree.list .nil) = Tree.nil ∨
        (if e2n then Tree.nil else Tree.list .nil) = Tree.list .nil := by cases e2n <;> simp
    obtain ⟨r, hr, hh⟩ := hempty _ hm
    exact ⟨_, r, by simp [conv, convNil, hlf], hr, by simpa [hdrList] using hh⟩
  | list xs =>
    cases xs with
    | nil =>
      have hm : (if e2n then Tree.nil else Tree.list .nil) = Tree.nil ∨
          (if e2n then Tree.nil else Tree.list .nil) = Tree.list .nil := by cases e2n <;> simp
      obtain ⟨r, hr, hh⟩ := hempty _ hm
      exact ⟨_, r, by simp [conv, hlf], hr, by simpa [hdrList] using hh⟩
    | cons n v rest =>
      have hsE : supElems c (.cons n v rest) = true := by simpa [supList] using hs
      obtain ⟨ms, rs, h1, h2, h3⟩ := hE _ rfl c _ _ hfit hsE
      obtain ⟨v', r', hms⟩ := convElems_cons_shape P _ n v rest ms h1
      subst hms
      obtain ⟨v'', r'', hrs⟩ := convElems_cons_shape Q _ n v' r' rs h2
      subst hrs
      refine ⟨.list (.cons n v' r'), .list (.cons n v'' r''), ?_, ?_, ?_⟩
      · simp only [conv, hlf, h1]
      · simp only [conv, hlg, h2]
      · simp only [hdrList, h3]
  | node k fs => simp [supList] at hs
  | pos p => simp [supList] at hs
  | num p => simp [supList] at hs
  | str p => simp [supList] at hs
  | «opaque» p => simp [supList] at hs

theorem conv_node_kind (f : String) (ctx : Forest) (k kd : String) (fs : Forest) (m : Tree)
    (h : conv P f ctx (.node k fs) = .ok m) (hk : dstKindOf P f k = some kd) :
    ∃ out, m = .node kd out := by
  unfold dstKindOf at hk
  split at hk
  · rename_i nP cases dP hP
    split at hk
    · rename_i c hc
      simp only [Option.some.injEq] at hk
      subst hk
      rw [conv_node_eq P f ctx k fs nP cases dP c hP hc] at h
      obtain ⟨out, _, hm⟩ := mkNode_ok h
      exact ⟨out, hm⟩
    · cases hk
  · cases hk

/-- elements: one more element. -/
theorem rte_cons (n : String) (v : Tree) (r : Forest) (hv : RT P Q W v) (hr : RTE P Q W r) :
    RTE P Q W (.cons n v r) := by
  intro c eP eQ hfit hs
  simp only [supElems, Bool.and_eq_true] at hs
  obtain ⟨ms, rs, h1, h2, h3⟩ := hr c eP eQ hfit hs.2
  rcases hfit with ⟨f, g, rfl, rfl, hmem⟩ | ⟨f, g, k, k', rfl, rfl, hmem, hkinds, hnn, hdk⟩
  · obtain ⟨m, r', c1, c2, c3⟩ := hv c f g hmem hs.1 .nil .nil
    refine ⟨.cons n m ms, .cons n r' rs, ?_, ?_, ?_⟩
    · simp only [convElems, c1, h1]
    · simp only [convElems, c2, h2]
    · simp only [hdrElems, c3, h3]
  · -- asserted kind: the element is a node of the one kind of the class
    cases v with
    | node kv fsv =>
      have hkv : kv ∈ c.kinds := sup_node_kind c kv fsv hs.1
      rw [hkinds] at hkv
      have hkv' : kv = k := by simpa using hkv
      subst hkv'
      obtain ⟨m, r', c1, c2, c3⟩ := hv c f g hmem hs.1 .nil .nil
      obtain ⟨out, hm⟩ := conv_node_kind P f .nil kv k' fsv m c1 hdk
      subst hm
      refine ⟨.cons n (.node k' out) ms, .cons n r' rs, ?_, ?_, ?_⟩
      · simp only [convElems, beq_self_eq_true, if_true, c1, h1]
      · simp only [convElems, beq_self_eq_true, if_true, c2, h2]
      · simp only [hdrElems, c3, h3]
    | nil => simp [sup, hnn] at hs
    | list xs => simp [sup] at hs
    | pos p => simp [sup] at hs
    | num p => simp [sup] at hs
    | str p => simp [sup] at hs
    | «opaque» p => simp [sup] at hs

theorem rte_nil : RTE P Q W .nil := by
  intro c eP eQ _ _
  exact ⟨.nil, .nil, by simp [convElems], by simp [convElems], rfl⟩

/-! ### one node -/

theorem route_parts {cp cq : KindCase} {fld : String} {fcp fcq : FieldConv}
    (h : route cp cq fld = some (fcp, fcq)) :
    findDst cq.fields fld = some fcq ∧ findDst cp.fields fcq.src = some fcp := by
  unfold route at h
  split at h
  · rename_i fcq' hq
    split at h
    · rename_i fcp' hp
      simp only [Option.some.injEq, Prod.mk.injEq] at h
      obtain ⟨rfl, rfl⟩ := h
      exact ⟨hq, hp⟩
    · cases h
  · cases h

theorem caseOK_parts {k : String} {cp cq : KindCase} (h : caseOK P Q W k cp cq = true) :
    cq.dst = k ∧
    (∀ e ∈ hdrFields k, ∃ fcp fcq, route cp cq e.1 = some (fcp, fcq) ∧ fcp.src = e.1 ∧
      pairFits P Q W cp e.2 fcp.via fcq.via = true) ∧
    (∀ fcp ∈ cp.fields, fcp.via.isCall = true →
      ∃ e ∈ hdrFields k, ∃ fcq, route cp cq e.1 = some (fcp, fcq)) ∧
    (∀ fcq ∈ cq.fields, fcq.via.isCall = true →
      ∃ e ∈ hdrFields k, findDst cq.fields e.1 = some fcq) := by
  unfold caseOK at h
  simp only [Bool.and_eq_true] at h
  obtain ⟨⟨⟨h1, h2⟩, h3⟩, h4⟩ := h
  refine ⟨by simpa using h1, ?_, ?_, ?_⟩
  · intro e he
    have := List.all_eq_true.mp h2 e he
    split at this
    · rename_i fcp fcq hr
      simp only [Bool.and_eq_true, beq_iff_eq] at this
      exact ⟨fcp, fcq, hr, this.1, this.2⟩
    · cases this
  · intro fcp hfcp hcall
    have := List.all_eq_true.mp h3 fcp hfcp
    simp only [hcall, Bool.not_true, Bool.false_or] at this
    obtain ⟨e, he, hh⟩ := List.any_eq_true.mp this
    split at hh
    · rename_i fcp' fcq hr
      have : fcp' = fcp := by simpa using hh
      subst this
      exact ⟨e, he, fcq, hr⟩
    · cases hh
  · intro fcq hfcq hcall
    have := List.all_eq_true.mp h4 fcq hfcq
    simp only [hcall, Bool.not_true, Bool.false_or] at this
    obtain ⟨e, he, hh⟩ := List.any_eq_true.mp this
    exact ⟨e, he, by simpa using hh⟩

theorem ok_inj {α : Type} {a b : α} (h : Outcome.ok a = Outcome.ok b) : a = b := by
  injection h

/-- Lemma G: one header field through its fitting pair of conversions. -/
theorem field_rt (k : String) (fs : Forest) (c0 : Cls) (hsup : sup c0 (.node k fs) = true)
    (ihF : ∀ n, Inv P Q W (fs.get n)) (cp : KindCase)
    (e : String × FSpec) (he : e ∈ hdrFields k) (fcp fcq : FieldConv) (hsrc : fcp.src = e.1)
    (hfit : pairFits P Q W cp e.2 fcp.via fcq.via = true) :
    ∃ m', fieldValueSpec P fs fcp = .ok m' ∧
      ∀ out : Forest, out.get fcq.src = m' →
        (∀ tf', findDst cp.fields tf' = some (tokCopy tf') → out.get tf' = fs.get "Tok") →
        ∃ r', fieldValueSpec Q out fcq = .ok r' ∧ normF e.2 r' = normF e.2 (fs.get e.1) := by
  have hfield := sup_node_field c0 k fs hsup e he (hdrFields_uniq k e he)
  obtain ⟨fld, s⟩ := e
  simp only at hsrc hfit hfield ⊢
  cases s with
  | flag =>
    cases hvp : fcp.via <;> cases hvq : fcq.via <;> simp [pairFits, hvp, hvq] at hfit
    refine ⟨fs.get fcp.src, by simp [fieldValueSpec, hvp], ?_⟩
    intro out hout _
    exact ⟨out.get fcq.src, by simp [fieldValueSpec, hvq], by rw [hout, hsrc]⟩
  | atom =>
    cases hvp : fcp.via <;> cases hvq : fcq.via <;> simp [pairFits, hvp, hvq] at hfit
    refine ⟨fs.get fcp.src, by simp [fieldValueSpec, hvp], ?_⟩
    intro out hout _
    exact ⟨out.get fcq.src, by simp [fieldValueSpec, hvq], by rw [hout, hsrc]⟩
  | sub c' =>
    cases hvp : fcp.via <;> cases hvq : fcq.via <;> simp [pairFits, hvp, hvq] at hfit
    rename_i f' g'
    have hsf : sup c' (fs.get fld) = true := by simpa [supFieldOK] using hfield
    obtain ⟨m', _, hm', _, _⟩ := (ihF fld).1 c' f' g' hfit hsf fs .nil
    refine ⟨m', by simp [fieldValueSpec, hvp, hsrc, hm'], ?_⟩
    intro out hout _
    obtain ⟨m'', r', h1, h2, h3⟩ := (ihF fld).1 c' f' g' hfit hsf fs out
    have hmm : m'' = m' := by rw [hm'] at h1; exact (ok_inj h1).symm
    subst hmm
    exact ⟨r', by simp [fieldValueSpec, hvq, hout, h2], by simpa [normF] using h3⟩
  | subs c' =>
    cases hvp : fcp.via <;> cases hvq : fcq.via <;> simp only [pairFits, hvp, hvq] at hfit <;>
      try (cases hfit)
    rename_i lf lg
    split at hfit
    · rename_i f' e2n g' e2n' hlf hlg
      have hmem : (c', f', g') ∈ W := by simpa using hfit
      have hsl : supList c' (fs.get fld) = true := by simpa [supFieldOK] using hfield
      have L := fun ctx' => list_rt P Q W c' (fs.get fld) hsl (ihF fld).2 lf lg (.fn f') (.fn g')
        e2n e2n' hlf hlg fs ctx' (Or.inl ⟨f', g', rfl, rfl, hmem⟩)
      obtain ⟨m', _, hm', _, _⟩ := L .nil
      refine ⟨m', by simp [fieldValueSpec, hvp, hsrc, hm'], ?_⟩
      intro out hout _
      obtain ⟨m'', r', h1, h2, h3⟩ := L out
      have hmm : m'' = m' := by rw [hm'] at h1; exact (ok_inj h1).symm
      subst hmm
      exact ⟨r', by simp [fieldValueSpec, hvq, hout, h2], by simpa [normF] using h3⟩
    · cases hfit
  | specs =>
    cases hvp : fcp.via <;> cases hvq : fcq.via <;> simp only [pairFits, hvp, hvq] at hfit <;>
      try (cases hfit)
    rename_i lf lg
    -- the class of the specs, from the declaration keyword
    simp only [supFieldOK] at hfield
    cases hcls : specClsOf fs with
    | none => rw [hcls] at hfield; cases hfield
    | some c' =>
      rw [hcls] at hfield
      simp only at hfield
      unfold specClsOf at hcls
      cases hnum : (fs.get "Tok").asNum with
      | none => rw [hnum] at hcls; cases hcls
      | some n =>
        rw [hnum] at hcls
        simp only at hcls
        have htok := specCls_mem n c' hcls
        unfold specsFit at hfit
        split at hfit
        · rename_i tf cs msg e2n tf' cs' msg' e2n' hlf hlg
          simp only [Bool.and_eq_true, beq_iff_eq] at hfit
          obtain ⟨⟨htf, hroute⟩, hall⟩ := hfit
          have hthis := List.all_eq_true.mp hall (n, c') htok
          simp only at hthis
          split at hthis
          · rename_i kk f' kk' g' hl1 hl2
            simp only [Bool.and_eq_true, beq_iff_eq, Bool.not_eq_eq_eq_not, Bool.not_true] at hthis
            obtain ⟨⟨⟨hkinds, hnn⟩, hdk⟩, hmemb⟩ := hthis
            have hmem : (c', f', g') ∈ W := by simpa using hmemb
            have hrP : (Elem.tokSwitch tf cs msg).resolve fs = .assertFn kk f' := by
              simp [Elem.resolve, htf, hnum, hl1]
            have L := fun (ctx' : Forest) (hctx : ctx'.get tf' = fs.get "Tok") =>
              list_rt P Q W c' (fs.get fld) hfield (ihF fld).2 lf lg (.tokSwitch tf cs msg)
                (.tokSwitch tf' cs' msg') e2n e2n' hlf hlg fs ctx' (by
                  have hrQ : (Elem.tokSwitch tf' cs' msg').resolve ctx' = .assertFn kk' g' := by
                    simp [Elem.resolve, hctx, hnum, hl2]
                  rw [hrP, hrQ]
                  exact Or.inr ⟨f', g', kk, kk', rfl, rfl, hmem, hkinds, hnn, hdk⟩)
            -- a context with the keyword field, to obtain the fromgo result
            obtain ⟨m', _, hm', _, _⟩ := L (.cons tf' (fs.get "Tok") .nil) (by simp [Forest.get])
            refine ⟨m', by simp [fieldValueSpec, hvp, hsrc, hm'], ?_⟩
            intro out hout htokr
            obtain ⟨m'', r', h1, h2, h3⟩ := L out (htokr tf' hroute)
            have hmm : m'' = m' := by rw [hm'] at h1; exact (ok_inj h1).symm
            subst hmm
            exact ⟨r', by simp [fieldValueSpec, hvq, hout, h2], by simpa [normF] using h3⟩
          · cases hthis
        · cases hfit

/-- a supported node through a fitting function pair. -/
theorem rt_node (hW : ∀ t ∈ W, tripleOK P Q W t = true) (k : String) (fs : Forest)
    (ihF : ∀ n, Inv P Q W (fs.get n)) : RT P Q W (.node k fs) := by
  intro c f g hmem hsup ctx ctx'
  obtain ⟨nP, casesP, dP, nQ, casesQ, dQ, hP, hQ, _, hkinds⟩ := triple_shapes P Q W hW hmem
  obtain ⟨cp, cq, hcp, hcq, hcase⟩ := hkinds k (sup_node_kind c k fs hsup)
  obtain ⟨hdst, hroutes, hPcalls, hQcalls⟩ := caseOK_parts P Q W hcase
  -- 1. every fromgo field value is defined
  have hPok : ∀ fcp ∈ cp.fields, ∃ v, fieldValueSpec P fs fcp = .ok v := by
    intro fcp hfcp
    cases hv : fcp.via with
    | copy => exact ⟨fs.get fcp.src, by simp [fieldValueSpec, hv]⟩
    | const w => exact ⟨.opaque w, by simp [fieldValueSpec, hv]⟩
    | call f' =>
      obtain ⟨e, he, fcq, hr⟩ := hPcalls fcp hfcp (by simp [Via.isCall, hv])
      obtain ⟨fcp', fcq', hr', hsrc, hfit⟩ := hroutes e he
      rw [hr] at hr'
      simp only [Option.some.injEq, Prod.mk.injEq] at hr'
      obtain ⟨rfl, rfl⟩ := hr'
      obtain ⟨m', hm', _⟩ := field_rt P Q W k fs c hsup ihF cp e he fcp fcq hsrc hfit
      exact ⟨m', hm'⟩
  obtain ⟨out, hout⟩ := assembleSpec_ok P fs cp.fields hPok
  have hconvP : conv P f ctx (.node k fs) = .ok (.node cp.dst out) := by
    rw [conv_node_eq P f ctx k fs nP casesP dP cp hP hcp, hout]; rfl
  -- 2. the keyword field of the XGo node
  have htokr : ∀ tf', findDst cp.fields tf' = some (tokCopy tf') → out.get tf' = fs.get "Tok" := by
    intro tf' h
    have := assembleSpec_get P fs cp.fields out hout tf'
    rw [h] at this
    simp only [fieldValueSpec, tokCopy] at this
    exact (ok_inj this).symm
  -- 3. what Lemma G gives for a routed header field
  have hG : ∀ e ∈ hdrFields k, ∃ fcq r', findDst cq.fields e.1 = some fcq ∧
      fieldValueSpec Q out fcq = .ok r' ∧ normF e.2 r' = normF e.2 (fs.get e.1) := by
    intro e he
    obtain ⟨fcp, fcq, hr, hsrc, hfit⟩ := hroutes e he
    obtain ⟨hq, hp⟩ := route_parts hr
    obtain ⟨m', hm', hrest⟩ := field_rt P Q W k fs c hsup ihF cp e he fcp fcq hsrc hfit
    have hget := assembleSpec_get P fs cp.fields out hout fcq.src
    rw [hp] at hget
    simp only at hget
    have hm : out.get fcq.src = m' := by rw [hm'] at hget; exact (ok_inj hget).symm
    obtain ⟨r', hr1, hr2⟩ := hrest out hm htokr
    exact ⟨fcq, r', hq, hr1, hr2⟩
  -- 4. every togo field value is defined
  have hQok : ∀ fcq ∈ cq.fields, ∃ v, fieldValueSpec Q out fcq = .ok v := by
    intro fcq hfcq
    cases hv : fcq.via with
    | copy => exact ⟨out.get fcq.src, by simp [fieldValueSpec, hv]⟩
    | const w => exact ⟨.opaque w, by simp [fieldValueSpec, hv]⟩
    | call g' =>
      obtain ⟨e, he, hfd⟩ := hQcalls fcq hfcq (by simp [Via.isCall, hv])
      obtain ⟨fcq', r', hq, hr1, _⟩ := hG e he
      rw [hfd] at hq
      simp only [Option.some.injEq] at hq
      subst hq
      exact ⟨r', hr1⟩
  obtain ⟨out', hout'⟩ := assembleSpec_ok Q out cq.fields hQok
  have hconvQ : conv Q g ctx' (.node cp.dst out) = .ok (.node k out') := by
    rw [conv_node_eq Q g ctx' cp.dst out nQ casesQ dQ cq hQ hcq, hout', hdst]; rfl
  refine ⟨_, _, hconvP, hconvQ, ?_⟩
  -- 5. same header
  apply hdr_node_congr k fs out' _ (hdrFields_uniq k)
  intro e he _
  obtain ⟨fcq, r', hq, hr1, hr2⟩ := hG e he
  have hget := assembleSpec_get Q out cq.fields out' hout' e.1
  rw [hq] at hget
  simp only at hget
  have : out'.get e.1 = r' := by rw [hr1] at hget; exact (ok_inj hget).symm
  rw [this]; exact hr2

/-! ### all trees -/

mutual
theorem inv_tree (hW : ∀ t ∈ W, tripleOK P Q W t = true) : ∀ t : Tree, Inv P Q W t
  | .nil => ⟨rt_nil P Q W hW, fun _ h => by cases h⟩
  | .node k fs => ⟨rt_node P Q W hW k fs (fun n => (inv_forest hW fs).1 n), fun _ h => by cases h⟩
  | .list xs => ⟨fun c f g _ hs => by simp [sup] at hs,
      fun ys h => by cases h; exact (inv_forest hW xs).2⟩
  | .pos _ => ⟨fun c f g _ hs => by simp [sup] at hs, fun _ h => by cases h⟩
  | .num _ => ⟨fun c f g _ hs => by simp [sup] at hs, fun _ h => by cases h⟩
  | .str _ => ⟨fun c f g _ hs => by simp [sup] at hs, fun _ h => by cases h⟩
  | .opaque _ => ⟨fun c f g _ hs => by simp [sup] at hs, fun _ h => by cases h⟩
theorem inv_forest (hW : ∀ t ∈ W, tripleOK P Q W t = true) :
    ∀ fs : Forest, (∀ n, Inv P Q W (fs.get n)) ∧ RTE P Q W fs
  | .nil => ⟨fun n => by
      simp only [Forest.get]
      exact ⟨rt_nil P Q W hW, fun _ h => by cases h⟩, rte_nil P Q W⟩
  | .cons m v r => ⟨fun n => by
      simp only [Forest.get]
      split
      · exact inv_tree hW v
      · exact (inv_forest hW r).1 n,
    rte_cons P Q W m v r (inv_tree hW v).1 (inv_forest hW r).2⟩
end

end

/-- The generic round-trip theorem: if the tables are mutually inverse on headers, then for
every supported Go file tree both converters succeed and the result has the same header. -/
theorem roundtrip_of_tablesInverse (P Q : Prog) (h : TablesInverse P Q) (d : Tree)
    (hs : supported d = true) :
    ∃ m r, conv P "ASTFile" .nil d = .ok m ∧ conv Q "ASTFile" .nil m = .ok r ∧ r ≃hdr d := by
  unfold TablesInverse tablesInverse tablesInverseOn at h
  simp only [Bool.and_eq_true] at h
  obtain ⟨hroot, hall⟩ := h
  have hW : ∀ t ∈ witness P Q, tripleOK P Q (witness P Q) t = true :=
    fun t ht => List.all_eq_true.mp hall t ht
  have hmem : rootTriple ∈ witness P Q := by simpa using hroot
  exact (inv_tree P Q (witness P Q) hW d).1 .file "ASTFile" "ASTFile" hmem hs .nil .nil

end GopModel.Conv
