/-
Lemmas for C27: the compiler model (Model/TplCompile.lean) never takes a panic branch on
well-formed trees, and the fuel of `firstVar` is sufficient.
-/
import GopModel.Model.TplCompile
import GopModel.Lemmas.TplParse
namespace GopModel.Tpl
open GopModel.Generated.TplToken (tokens lenGuard stringGuard identClasses operator_beg operator_end)

/-! ### tpl/token -/

theorem tokLen_total (tok : Nat) : ∃ n, tokLen tok = some n := by
  unfold tokLen
  split
  · rename_i h
    have hlt : tok < tokens.length := by
      simp only [lenGuard, Bool.and_eq_true, decide_eq_true_eq] at h
      exact h.2
    rw [List.getElem?_eq_getElem hlt]
    exact ⟨_, rfl⟩
  · exact ⟨0, rfl⟩

theorem tokStringOk_total (tok : Nat) : tokStringOk tok = some () := by
  unfold tokStringOk
  split
  · rename_i h
    have hlt : tok < tokens.length := by
      simp only [stringGuard, decide_eq_true_eq] at h
      exact h
    rw [List.getElem?_eq_getElem hlt]
  · rfl

theorem forEachFind_total (v : Bytes) : ∀ (n i : Nat), i + n ≤ tokens.length →
    ∃ r, forEachFind v n i = some r
  | 0, _, _ => ⟨none, rfl⟩
  | n + 1, i, h => by
    rw [forEachFind]
    have hlt : i < tokens.length := by omega
    rw [List.getElem?_eq_getElem hlt]
    simp only
    split
    · exact ⟨_, rfl⟩
    · exact forEachFind_total v n (i + 1) (by omega)

theorem checkToken_total (v : Bytes) : ∃ r, checkToken v = some r := by
  unfold checkToken
  split
  · exact ⟨_, rfl⟩
  · exact forEachFind_total v _ _ (by decide +kernel)

/-! ### compileExpr on well-formed trees -/

/-- what the scanner guarantees for CHAR tokens when it reports no error: both quotes are there -/
def CharOk (t : Tok) : Prop := t.kind = T.CHAR → 2 ≤ t.lit.length

abbrev NFc (e : Expr) : Prop := NFP CharOk e
abbrev NFcs (l : List Expr) : Prop := NFPs CharOk l

theorem tokenExpr_total (tok : Nat) (lit : Bytes) (c : Ctx) :
    ∃ g, tokenExpr tok lit c = some (g, c) ∨ tokenExpr tok lit c = some (g, c.addErr (.invalidTok lit)) := by
  unfold tokenExpr
  obtain ⟨n, hn⟩ := tokLen_total tok
  rw [hn]
  simp only
  split
  · exact ⟨_, Or.inl rfl⟩
  · exact ⟨_, Or.inr rfl⟩

/-- `compileLit` never panics on a CHAR/STRING token with both quotes; it changes only `errs` -/
theorem compileLit_total (U : Unq) (kind : Nat) (lit : Bytes) (c : Ctx) (h : CharOk ⟨kind, lit⟩) :
    ∃ g c', compileLit U kind lit c = some (g, c') ∧ c'.choices = c.choices := by
  unfold compileLit
  split
  · rename_i hk
    have hlen : ¬ lit.length < 2 := by have := h hk; simp at this; omega
    rw [if_neg hlen]
    split
    · exact ⟨_, _, rfl, rfl⟩
    · split
      · exact ⟨_, _, rfl, rfl⟩
      · rename_i v _ _ _ _
        obtain ⟨g, hg | hg⟩ := tokenExpr_total v lit c
        · exact ⟨_, _, hg, rfl⟩
        · exact ⟨_, _, hg, rfl⟩
  · split
    · split
      · exact ⟨_, _, rfl, rfl⟩
      · exact ⟨_, _, rfl, rfl⟩
      · split
        · exact ⟨_, _, rfl, rfl⟩
        · rename_i b rest _ _
          obtain ⟨r, hr⟩ := checkToken_total (b :: rest)
          rw [hr]
          cases r with
          | none => exact ⟨_, _, rfl, rfl⟩
          | some t =>
            obtain ⟨g, hg | hg⟩ := tokenExpr_total t lit c
            · exact ⟨_, _, hg, rfl⟩
            · exact ⟨_, _, hg, rfl⟩
    · exact ⟨_, _, rfl, rfl⟩

mutual
theorem posOk_of_NF (P : Tok → Prop) : ∀ (e : Expr), NFP P e → posOk e = true
  | .ident _, _ => rfl
  | .lit _ _, _ => rfl
  | .unary _ _, _ => rfl
  | .binary _ x _, h => by rw [posOk]; exact posOk_of_NF P x h.2.1
  | .seq [], h => by have := h.1; simp at this
  | .seq (e :: _), h => by rw [posOk]; exact posOk_of_NF P e h.2.1
  | .choice [], h => by have := h.1; simp at this
  | .choice (e :: _), h => by rw [posOk]; exact posOk_of_NF P e h.2.1
  | .nil, h => by cases h
end

/-- recorded choices: as many matchers as option expressions, and every option has a position -/
def CtxOk (c : Ctx) : Prop := ∀ p ∈ c.choices, p.1.length = p.2.length ∧ ∀ e ∈ p.2, posOk e = true

theorem CtxOk.addErr {c : Ctx} (h : CtxOk c) (e : CErr) : CtxOk (c.addErr e) := h

theorem CtxOk.of_choices_eq {c c' : Ctx} (h : CtxOk c) (heq : c'.choices = c.choices) : CtxOk c' := by
  unfold CtxOk; rw [heq]; exact h

theorem compileIdent_ok (rules : List Bytes) (name : Bytes) (c : Ctx) :
    (compileIdent rules name c).2.choices = c.choices := by
  unfold compileIdent
  split
  · rfl
  · split
    · rfl
    · split
      · rfl
      · split
        · rfl
        · split <;> rfl

mutual
theorem compileExpr_total (rules : List Bytes) (U : Unq) : ∀ (e : Expr), NFc e → ∀ c, CtxOk c →
    ∃ g c', compileExpr rules U e c = some (g, c') ∧ CtxOk c'
  | .ident name, _, c, hc => by
    rw [compileExpr]
    exact ⟨_, _, rfl, hc.of_choices_eq (compileIdent_ok rules name c)⟩
  | .lit k v, h, c, hc => by
    rw [compileExpr]
    obtain ⟨g, c', hq, heq⟩ := compileLit_total U k v c h.2
    exact ⟨g, c', hq, hc.of_choices_eq heq⟩
  | .seq items, h, c, hc => by
    rw [compileExpr]
    obtain ⟨r, c1, hq, hc1, _⟩ := compileList_total rules U items h.2 c hc
    rw [hq]
    cases r with
    | none => exact ⟨_, _, rfl, hc1⟩
    | some gs => exact ⟨_, _, rfl, hc1⟩
  | .choice opts, h, c, hc => by
    rw [compileExpr]
    obtain ⟨r, c1, hq, hc1, hlen⟩ := compileList_total rules U opts h.2 c hc
    rw [hq]
    cases r with
    | none => exact ⟨_, _, rfl, hc1⟩
    | some gs =>
      refine ⟨_, _, rfl, ?_⟩
      intro p hp
      simp only [List.mem_cons] at hp
      rcases hp with rfl | hp
      · exact ⟨hlen gs rfl, fun e he => posOk_of_NF _ e ((NFPs_iff _ _).1 h.2 e he)⟩
      · exact hc1 p hp
  | .unary op x, h, c, hc => by
    rw [compileExpr]
    obtain ⟨g, c1, hq, hc1⟩ := compileExpr_total rules U x h.2 c hc
    rw [hq]
    cases g with
    | none => exact ⟨_, _, rfl, hc1⟩
    | some g =>
      simp only
      split
      · exact ⟨_, _, rfl, hc1⟩
      · split
        · exact ⟨_, _, rfl, hc1⟩
        · split
          · exact ⟨_, _, rfl, hc1⟩
          · exact ⟨_, _, rfl, hc1.addErr _⟩
  | .binary op x y, h, c, hc => by
    rw [compileExpr]
    obtain ⟨gx, c1, hq1, hc1⟩ := compileExpr_total rules U x h.2.1 c hc
    obtain ⟨gy, c2, hq2, hc2⟩ := compileExpr_total rules U y h.2.2 c1 hc1
    rw [hq1]
    simp only
    rw [hq2]
    simp only
    cases gx with
    | none => exact ⟨_, _, rfl, hc2⟩
    | some a =>
      cases gy with
      | none => exact ⟨_, _, rfl, hc2⟩
      | some b =>
        simp only
        split
        · exact ⟨_, _, rfl, hc2⟩
        · split
          · exact ⟨_, _, rfl, hc2⟩
          · rw [if_pos (posOk_of_NF _ x h.2.1)]
            exact ⟨_, _, rfl, hc2.addErr _⟩
  | .nil, h, _, _ => by cases h
theorem compileList_total (rules : List Bytes) (U : Unq) : ∀ (l : List Expr), NFcs l → ∀ c, CtxOk c →
    ∃ r c', compileList rules U l c = some (r, c') ∧ CtxOk c' ∧ ∀ gs, r = some gs → gs.length = l.length
  | [], _, c, hc => ⟨_, _, rfl, hc, fun gs h => by cases h; rfl⟩
  | e :: rest, h, c, hc => by
    rw [compileList]
    obtain ⟨g, c1, hq, hc1⟩ := compileExpr_total rules U e h.1 c hc
    rw [hq]
    cases g with
    | none => exact ⟨_, _, rfl, hc1, fun gs h => by cases h⟩
    | some g =>
      obtain ⟨r, c2, hq2, hc2, hlen⟩ := compileList_total rules U rest h.2 c1 hc1
      simp only
      rw [hq2]
      cases r with
      | none => exact ⟨_, _, rfl, hc2, fun gs h => by cases h⟩
      | some gs => exact ⟨_, _, rfl, hc2, fun gs' h => by cases h; simp [hlen gs rfl]⟩
end

/-! ### First: the fuel is sufficient -/

def FRes.isOof : FRes → Bool
  | .oof => true
  | _ => false

mutual
theorem firstG_noOof (onVar : Bytes → List FItem → FRes) (h : ∀ n i, (onVar n i).isOof = false) :
    ∀ (g : G) (inp : List FItem), (firstG onVar g inp).isOof = false
  | .tok _, _ => rfl
  | .lit _ _, _ => rfl
  | .str _, _ => rfl
  | .ws, _ => rfl
  | .tru, _ => rfl
  | .seq items, inp => by rw [firstG]; exact firstSeq_noOof onVar h items inp
  | .choice opts, inp => by rw [firstG]; exact firstChoice_noOof onVar h opts inp false
  | .rep0 g, inp => by
    rw [firstG]
    have := firstG_noOof onVar h g inp
    cases hq : firstG onVar g inp with
    | ok f me => rfl
    | recursive n => rfl
    | oof => rw [hq] at this; cases this
  | .rep1 g, inp => by rw [firstG]; exact firstG_noOof onVar h g inp
  | .rep01 g, inp => by
    rw [firstG]
    have := firstG_noOof onVar h g inp
    cases hq : firstG onVar g inp with
    | ok f me => rfl
    | recursive n => rfl
    | oof => rw [hq] at this; cases this
  | .adjoin a _, inp => by
    rw [firstG]
    have := firstG_noOof onVar h a inp
    cases hq : firstG onVar a inp with
    | ok f me => rfl
    | recursive n => rfl
    | oof => rw [hq] at this; cases this
  | .var name, inp => by rw [firstG]; exact h name inp
theorem firstSeq_noOof (onVar : Bytes → List FItem → FRes) (h : ∀ n i, (onVar n i).isOof = false) :
    ∀ (l : List G) (inp : List FItem), (firstSeq onVar l inp).isOof = false
  | [], _ => rfl
  | g :: rest, inp => by
    rw [firstSeq]
    have := firstG_noOof onVar h g inp
    cases hq : firstG onVar g inp with
    | ok f me =>
      cases me with
      | false => rfl
      | true =>
        cases rest with
        | nil => rfl
        | cons g2 tl => exact firstSeq_noOof onVar h (g2 :: tl) f
    | recursive n => rfl
    | oof => rw [hq] at this; cases this
theorem firstChoice_noOof (onVar : Bytes → List FItem → FRes) (h : ∀ n i, (onVar n i).isOof = false) :
    ∀ (l : List G) (inp : List FItem) (me : Bool), (firstChoice onVar l inp me).isOof = false
  | [], _, _ => rfl
  | g :: rest, inp, me => by
    rw [firstChoice]
    have := firstG_noOof onVar h g inp
    cases hq : firstG onVar g inp with
    | ok f me1 => exact firstChoice_noOof onVar h rest f (me || me1)
    | recursive n => rfl
    | oof => rw [hq] at this; cases this
end

theorem Avail.remove_length : ∀ (a : Avail) (name : Bytes) (g : G), a.find name = some g →
    (a.remove name).length + 1 = a.length
  | [], _, _, h => by simp [Avail.find] at h
  | (n, g0) :: rest, name, g, h => by
    rw [Avail.remove]
    rw [Avail.find] at h
    split
    · simp
    · rename_i hne
      rw [if_neg hne] at h
      have := Avail.remove_length rest name g h
      simp only [List.length_cons]
      omega

theorem firstVar_noOof : ∀ (n : Nat) (avail : Avail), avail.length < n → ∀ name inp,
    (firstVar n avail name inp).isOof = false
  | 0, _, h, _, _ => by omega
  | n + 1, avail, h, name, inp => by
    rw [firstVar]
    cases hf : avail.find name with
    | none => rfl
    | some g =>
      simp only
      apply firstG_noOof
      intro name' inp'
      apply firstVar_noOof n
      have := Avail.remove_length avail name g hf
      omega

theorem firstTop_noOof (avail : Avail) (g : G) : (firstTop avail g).isOof = false :=
  firstG_noOof _ (firstVar_noOof _ avail (Nat.lt_succ_self _)) g []

/-! ### CheckConflicts and the tail of NewEx -/

theorem firstsOf_spec (avail : Avail) : ∀ (gs : List G),
    (∃ fs, firstsOf avail gs = .ok fs ∧ fs.length = gs.length) ∨ (∃ n, firstsOf avail gs = .recursive n)
  | [] => Or.inl ⟨[], rfl, rfl⟩
  | g :: rest => by
    rw [firstsOf]
    have h0 := firstTop_noOof avail g
    cases hq : firstTop avail g with
    | oof => rw [hq] at h0; cases h0
    | recursive n => exact Or.inr ⟨n, rfl⟩
    | ok f me =>
      simp only
      rcases firstsOf_spec avail rest with ⟨fs, hfs, hlen⟩ | ⟨n, hn⟩
      · rw [hfs]; exact Or.inl ⟨_, rfl, by simp [hlen]⟩
      · rw [hn]; exact Or.inr ⟨n, rfl⟩

theorem conflictLoop_total : ∀ (firsts : List (List FItem)) (optExprs : List Expr) (i : Nat),
    optExprs.length = firsts.length → (∀ e ∈ optExprs, posOk e = true) →
    ∃ cs, conflictLoop firsts optExprs i = some cs
  | [], _, _, _, _ => ⟨[], rfl⟩
  | me :: rest, optExprs, i, hlen, hpos => by
    rw [conflictLoop]
    cases optExprs with
    | nil => simp at hlen
    | cons e tl =>
      obtain ⟨cs, hcs⟩ := conflictLoop_total rest tl (i + 1) (by simpa using hlen)
        (fun e' he' => hpos e' (by simp [he']))
      simp only [List.tail_cons, hcs]
      split
      · exact ⟨_, rfl⟩
      · rw [if_pos (hpos e (by simp))]
        exact ⟨_, rfl⟩

def ChoiceRes.isBad : ChoiceRes → Bool
  | .panic => true
  | .oof => true
  | _ => false

theorem checkChoice_safe (avail : Avail) (gs : List G) (es : List Expr)
    (hlen : gs.length = es.length) (hpos : ∀ e ∈ es, posOk e = true) :
    (checkChoice avail gs es).isBad = false := by
  unfold checkChoice
  rcases firstsOf_spec avail gs with ⟨fs, hfs, hl⟩ | ⟨n, hn⟩
  · rw [hfs]
    obtain ⟨cs, hcs⟩ := conflictLoop_total fs es 0 (by omega) hpos
    simp only [hcs]
    rfl
  · rw [hn]; rfl

theorem checkChoices_safe (avail : Avail) : ∀ (l : List (List G × List Expr)) (acc : List Conflict),
    (∀ p ∈ l, p.1.length = p.2.length ∧ ∀ e ∈ p.2, posOk e = true) →
    (checkChoices avail l acc).1.isBad = false
  | [], _, _ => rfl
  | (gs, es) :: rest, acc, h => by
    rw [checkChoices]
    have h1 := h (gs, es) (by simp)
    have hs := checkChoice_safe avail gs es h1.1 h1.2
    cases hq : checkChoice avail gs es with
    | ok cs => exact checkChoices_safe avail rest _ (fun p hp => h p (by simp [hp]))
    | recursive n => rfl
    | panic => rw [hq] at hs; cases hs
    | oof => rw [hq] at hs; cases hs

theorem checkRules_noOof (avail : Avail) : ∀ (rules : List Rule), (checkRules avail rules).isOof = false
  | [] => rfl
  | r :: rest => by
    rw [checkRules]
    split
    · exact checkRules_noOof avail rest
    · have h0 := firstVar_noOof (avail.length + 1) avail (Nat.lt_succ_self _) r.name []
      cases hq : firstVar (avail.length + 1) avail r.name [] with
      | ok f me => exact checkRules_noOof avail rest
      | recursive n => rfl
      | oof => rw [hq] at h0; cases h0

theorem declareRules_ok : ∀ (rules : List Rule) (names : List Bytes) (c : Ctx), CtxOk c →
    CtxOk (declareRules rules names c).2
  | [], _, _, h => h
  | r :: rest, names, c, h => by
    rw [declareRules]
    split
    · exact declareRules_ok rest names _ (h.addErr _)
    · exact declareRules_ok rest _ c h

theorem compileRules_total (names : List Bytes) (U : Unq) : ∀ (rules : List Rule),
    (∀ r ∈ rules, NFc r.expr) → ∀ (avail : Avail) (doc : Bool) (c : Ctx), CtxOk c →
    ∃ a d c', compileRules names U rules avail doc c = some (a, d, c') ∧ CtxOk c'
  | [], _, avail, doc, c, hc => ⟨_, _, _, rfl, hc⟩
  | r :: rest, h, avail, doc, c, hc => by
    rw [compileRules]
    obtain ⟨g, c1, hq, hc1⟩ := compileExpr_total names U r.expr (h r (by simp)) c hc
    rw [hq]
    have hrest : ∀ r' ∈ rest, NFc r'.expr := fun r' hr' => h r' (by simp [hr'])
    cases g with
    | none => exact compileRules_total names U rest hrest _ _ _ hc1
    | some g =>
      simp only
      split
      · exact compileRules_total names U rest hrest _ _ _ (hc1.addErr _)
      · exact compileRules_total names U rest hrest _ _ _ hc1

def NewRes.isBad : NewRes → Bool
  | .panic => true
  | .oof => true
  | _ => false

/-- `cl.NewEx` on well-formed rules returns a compiler, ErrNoDocFound or an error list -/
theorem newEx_safe (U : Unq) (rules : List Rule) (h : ∀ r ∈ rules, NFc r.expr) :
    (newEx U rules).isBad = false := by
  unfold newEx
  have hc0 : CtxOk (declareRules rules [] ⟨[], []⟩).2 :=
    declareRules_ok rules [] ⟨[], []⟩ (fun p hp => by simp at hp)
  obtain ⟨a, d, c, hq, hc⟩ := compileRules_total (declareRules rules [] ⟨[], []⟩).1 U rules h [] false _ hc0
  simp only [hq]
  cases d with
  | false => rfl
  | true =>
    simp only [Bool.not_true, Bool.false_eq_true, if_false]
    have hs := checkChoices_safe a c.choices.reverse [] (fun p hp => hc p (by simpa using hp))
    have fin_ok : ∀ (c : Ctx) (cs : List Conflict),
        (if c.errs.isEmpty then NewRes.ok cs else NewRes.errs c.errs.reverse cs).isBad = false := by
      intro c cs; split <;> rfl
    cases hcc : checkChoices a c.choices.reverse [] with
    | mk res cs =>
      rw [hcc] at hs
      cases res with
      | panic => cases hs
      | oof => cases hs
      | recursive n => exact fin_ok _ _
      | ok _ =>
        simp only
        have hr := checkRules_noOof a rules
        cases hcr : checkRules a rules with
        | oof => rw [hcr] at hr; cases hr
        | recursive n => exact fin_ok _ _
        | ok f me => exact fin_ok _ _

theorem newEx_ne_parseErr (U : Unq) (rules : List Rule) : newEx U rules ≠ .parseErr := by
  unfold newEx
  simp only
  repeat' split
  all_goals simp

/-! ### Relocate -/

theorem relocateDefault_total (h : GopModel.Generated.TplToken.relocateDefaultPanics = false) (e : GoErr) :
    relocateDefault e = some e := by
  unfold relocateDefault; rw [h]; rfl

mutual
theorem relocate_total (h : GopModel.Generated.TplToken.relocateDefaultPanics = false) :
    ∀ (e : GoErr), ∃ e', relocate e = some e'
  | .plain => by rw [relocate]; exact ⟨_, relocateDefault_total h _⟩
  | .scanError => by rw [relocate]; split; exact ⟨_, rfl⟩; exact ⟨_, relocateDefault_total h _⟩
  | .scanErrorList => by rw [relocate]; split; exact ⟨_, rfl⟩; exact ⟨_, relocateDefault_total h _⟩
  | .matcherError => by rw [relocate]; split; exact ⟨_, rfl⟩; exact ⟨_, relocateDefault_total h _⟩
  | .errorsList items => by
    rw [relocate]
    split
    · obtain ⟨l, hl⟩ := relocateList_total h items
      rw [hl]; exact ⟨_, rfl⟩
    · exact ⟨_, relocateDefault_total h _⟩
theorem relocateList_total (h : GopModel.Generated.TplToken.relocateDefaultPanics = false) :
    ∀ (l : List GoErr), ∃ l', relocateList l = some l'
  | [] => ⟨[], rfl⟩
  | e :: rest => by
    rw [relocateList]
    obtain ⟨e', he⟩ := relocate_total h e
    obtain ⟨l', hl⟩ := relocateList_total h rest
    rw [he]; simp only; rw [hl]; exact ⟨_, rfl⟩
end

def FromFileRes.isBad : FromFileRes → Bool
  | .panic => true
  | .oof => true
  | _ => false

end GopModel.Tpl
